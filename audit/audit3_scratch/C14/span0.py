import sys, math, random
sys.path.insert(0, "/repo")
from frame.geometry.geometry import Shape, Rectangle
from tools.spectral import spectral as SP
W = H = 10.0
def run(area_big, seed=1, nf=1):
    Rectangle.undefine_epsilon()
    txt = f"""Modules:
  A: {{area: {area_big!r}}}
  B: {{area: 4.0}}
  C: {{area: 3.0}}
  D: {{area: 2.0}}
Nets: [[A,B],[B,C],[C,D],[D,A]]
"""
    s = SP.Spectral(txt)
    random.seed(seed)
    try:
        s.spectral_layout(Shape(W, H), nf, False)
    except Exception as e:
        return type(e).__name__ + ": " + str(e)[:60]
    out = []
    for m in s.modules:
        r = math.sqrt(m.area()/math.pi)
        out.append((m.name, round(m.center.x,6), round(m.center.y,6), round(r,6),
                    r - 1e-8 <= m.center.x <= W - r + 1e-8 and r - 1e-8 <= m.center.y <= H - r + 1e-8))
    return out
full = math.pi * (W/2)**2
for a in [full, full*(1-1e-12), full*(1-1e-9), full*0.999, full*0.9]:
    print(a/full, run(a))
print("---- margins")
for k in [1e-8,1e-7,1e-6,1e-5,1e-4]:
    res = [run(full*(1-k), seed=s) for s in range(6)]
    print(k, [r if isinstance(r,str) else all(x[4] for x in r) for r in res])

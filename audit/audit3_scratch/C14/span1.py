exec(open('span0.py').read().split('full = math.pi')[0])
full = math.pi*(W/2)**2
for k in [1e-4,3e-4,1e-3,3e-3,1e-2,3e-2]:
    res = [run(full*(1-k), seed=s, nf=1) for s in range(20)]
    print(k, "span=%.2e"%(W/2-math.sqrt(full*(1-k)/math.pi)), sum(isinstance(r,str) for r in res), "/20 raise;", "all inside:", all(all(x[4] for x in r) for r in res if not isinstance(r,str)))

import sys; sys.path.insert(0,"/verif/harness")
import vcheck, netlist_common as nc
doc = {"Modules": {"F": {"fixed": True, "rectangles": [[1, 1, 2, 2], [2.99995, 1, 2, 2]]}}}
print(vcheck.run_driver([f"F load {nc.eps_tokens(None,'F')} {nc.enc_tree(doc,'F')}"], "drv_netlist")[0][:40])

"""corner documents the generator of netlist_common.gen_doc cannot produce: impl vs model driver vs document oracle."""
import sys, os, random, collections
sys.path.insert(0, "/verif/harness")
import vcheck
import netlist_common as nc
sys.path.insert(0, "/verif/harness/props")
import c05

CASES = {
 "term-then-fixedFalse": {"Modules": {"T": {"terminal": True, "fixed": False}}},
 "fixedFalse-then-term": {"Modules": {"T": {"fixed": False, "terminal": True}}},
 "term-then-hardFalse": {"Modules": {"T": {"terminal": True, "hard": False}}},
 "hardFalse-then-term": {"Modules": {"T": {"hard": False, "terminal": True}}},
 "termFalse-then-fixedFalse+rects": {"Modules": {"T": {"terminal": False, "fixed": False, "rectangles": [1, 1, 2, 2]}}},
 "fixedTrue-then-termFalse+rects": {"Modules": {"T": {"fixed": True, "terminal": False, "rectangles": [1, 1, 2, 2]}}},
 "termFalse-then-fixedTrue+rects": {"Modules": {"T": {"terminal": False, "fixed": True, "rectangles": [1, 1, 2, 2]}}},
 "hard+emptyAreaDict": {"Modules": {"H": {"hard": True, "area": {}, "rectangles": [1, 1, 2, 2]}}},
 "emptyAreaDict+hard": {"Modules": {"H": {"area": {}, "hard": True, "rectangles": [1, 1, 2, 2]}}},
 "terminal+emptyAreaDict": {"Modules": {"T": {"terminal": True, "area": {}}}},
 "nets-only-empty": {"Nets": []},
 "empty-root": {},
 "mods-empty+nets-empty": {"Modules": {}, "Nets": []},
 "nets-before-modules": {"Nets": [["A", "B"]], "Modules": {"A": {"area": 1, "center": [0, 0]}, "B": {"area": 2, "center": [3, 4]}}},
 "nets-only-with-net": {"Nets": [["A", "B"]]},
 "bool-center": {"Modules": {"A": {"area": 1, "center": [True, False]}, "B": {"area": 1, "center": [3, 4]}}, "Nets": [["A", "B", True]]},
 "bool-rect": {"Modules": {"A": {"area": 1, "rectangles": [True, 1, 2, True]}}},
 "bool-first-rect-in-list": {"Modules": {"A": {"area": 1, "rectangles": [[True, 1, 2, 2], [4, 4, 1, 1]]}}},
 "terminal+rects+center": {"Modules": {"T": {"terminal": True, "center": [9, 9], "rectangles": [[1, 1, 2, 2], [3, 1, 2, 2]]}, "A": {"area": 1, "center": [0, 0]}}, "Nets": [["T", "A", 3]]},
 "terminal-overlapping-rects": {"Modules": {"T": {"terminal": True, "rectangles": [[1, 1, 2, 2], [1, 1, 2, 2]]}}},
 "fixed-terminal-no-center-rects": {"Modules": {"T": {"terminal": True, "fixed": True, "rectangles": [1, 1, 2, 2]}}},
 "soft-region-ground-explicit": {"Modules": {"A": {"area": 4, "rectangles": [[1, 1, 2, 2, "_"]]}}},
 "zero-coord-rect": {"Modules": {"A": {"hard": True, "rectangles": [0, 0, 2, 2]}}},
 "net-all-same-member": {"Modules": {"A": {"area": 1, "center": [1, 1]}}, "Nets": [["A", "A", "A", 5]]},
 "weight-int-big": {"Modules": {"A": {"area": 1, "center": [1, 1]}, "B": {"area": 1, "center": [4, 5]}}, "Nets": [["A", "B", 10 ** 6]]},
 "six-pin-net": {"Modules": {n: {"area": 1, "center": [i, i * i]} for i, n in enumerate("ABCDEF")}, "Nets": [list("ABCDEF") + [2]]},
 "aspect+hardFalse": {"Modules": {"A": {"area": 1, "aspect_ratio": 2, "hard": False}}},
 "flipFalse-fixed": {"Modules": {"A": {"fixed": True, "flip": False, "rectangles": [1, 1, 2, 2]}}},
 "soft-3-regions-rects-in-2": {"Modules": {"A": {"area": {"dsp": 1, "_": 2, "bram": 3}, "rectangles": [[1, 1, 2, 2, "dsp"], [5, 5, 1, 1, "bram"], [8, 8, 1, 1]]}}},
 "fixed-tiny-overlap-below-eps": {"Modules": {"F": {"fixed": True, "rectangles": [[1, 1, 2, 2], [2.9999, 1, 2, 2]]}}},
}

def main():
    reqs, todo = [], []
    for name, doc in CASES.items():
        for eps in [(2.0 ** -30, 2.0 ** -20), (0.125, 0.25)]:
            mode = "Q" if all(True for _ in [0]) else "F"
            mode = "F" if name == "fixed-tiny-overlap-below-eps" else "Q"
            st, n = nc.load_impl(doc, eps)
            line = nc.render_impl(n, mode) if st == "ok" else "err:" + n
            reqs.append(f"{mode} load {nc.eps_tokens(eps, mode)} {nc.enc_tree(doc, mode)}")
            todo.append((name, eps, mode, st, line, nc.wl_scale(n), doc))
    replies = vcheck.run_driver(reqs, "drv_netlist")
    for (name, eps, mode, st, line, wls, doc), rep in zip(todo, replies):
        model = rep if not rep.startswith("err:Assert") else "err:Assert"
        ok, exact, why = nc.cmp_lines(line, model, mode, 1e-9, wls)
        spec = None
        if st == "ok":
            try:
                spec = c05.spec_derived(doc, eps, mode)
            except Exception as e:
                spec = ("oracle-raised", repr(e)[:100])
        print(f"{name:36s} eps={eps[1]:<9.3g} impl={st:3s} model={'ok' if rep.startswith('ok') else rep[:14]:14s} agree={ok} spec={spec}")

main()

import sys
from frame.geometry.geometry import Rectangle
from frame.netlist.netlist import Netlist
# fixed module, two 2x2 squares overlapping on a 0.00005 x 2 sliver (area 1e-4); smallest distance 2 -> default area eps = sqrt(2e-12) ~ 1.4e-6
doc = {"Modules": {"F": {"fixed": True, "rectangles": [[1, 1, 2, 2], [2.99995, 1, 2, 2]]}}}
Rectangle.undefine_epsilon()
try:
    Netlist(doc); print("LOADED  area_eps=", Rectangle.area_epsilon())
except AssertionError as e:
    print("REJECTED", str(e)[:60])

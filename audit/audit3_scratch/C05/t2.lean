import FV.Props.C05
open FV FV.NL FV.C05
abbrev Y := YVal Rat
-- EntryRect (the only link between a `rectangles:` entry and a rectangle in modules_of_document / rectangles_def)
-- leaves the `fixed` and `hard` flags of the rectangle free:
example : EntryRect (.seq [.int 1, .int 1, .int 2, .int 2] : Y) { cx := .i 1, cy := .i 1, w := .i 2, h := .i 2, fixed := true, hard := true } ∧
          EntryRect (.seq [.int 1, .int 1, .int 2, .int 2] : Y) { cx := .i 1, cy := .i 1, w := .i 2, h := .i 2, fixed := false, hard := false } :=
  ⟨⟨rfl, Or.inl ⟨rfl, rfl⟩⟩, ⟨rfl, Or.inl ⟨rfl, rfl⟩⟩⟩

import FV.Props.C05
open FV FV.NL FV.C05

def isOk' {ε β : Type} : Except ε β → Bool | .ok _ => true | .error _ => false
theorem ok_of_isOk' {ε β : Type} {x : Except ε β} (h : isOk' x = true) : ∃ y, x = .ok y := by
  cases x with
  | ok y => exact ⟨y, rfl⟩
  | error e => cases h

abbrev Y := YVal Rat
-- soft, two regions, no centre
def mA : Y × Y := (.str "A", .map [(.str "area", .map [(.str "_", .int 3), (.str "dsp", .float 2)])])
-- soft WITH explicit centre [100,100] AND two rectangles (one in dsp): the centre must be overridden
def mS : Y × Y := (.str "S", .map [(.str "area", .int 6), (.str "center", .seq [.int 100, .int 100]),
  (.str "rectangles", .seq [.seq [.int 10, .int 10, .int 2, .int 2], .seq [.int 12, .int 10, .int 2, .int 1, .str "dsp"]])])
def mH : Y × Y := (.str "H", .map [(.str "hard", .bool true), (.str "rectangles", .seq [.seq [.int 1, .int 1, .int 2, .int 2], .seq [.int 3, .int 1, .int 2, .int 4]])])
-- fixed, single-rectangle shorthand
def mF : Y × Y := (.str "F", .map [(.str "fixed", .bool true), (.str "rectangles", .seq [.int 20, .int 20, .int 4, .int 2])])
def mT : Y × Y := (.str "T", .map [(.str "terminal", .bool true), (.str "center", .seq [.int 5, .int 2])])
def goodNets : List Y := [.seq [.str "S", .str "H", .str "T"], .seq [.str "H", .str "F", .int 2]]
def good : Y := doc [mA, mS, mH, mF, mT] goodNets
abbrev e3 : Rat := 1/1000
abbrev LD (t : Y) := parseNetlist (stogC06 e3 e3) e3 t

theorem good_ok : isOk' (LD good) = true := by decide +kernel

/-! modules_of_document applied: 2nd module (explicit centre + 2 rectangles) -/
example : ∃ (n : Netlist Rat) (m : NL.Mod Rat) (rs0 : List (NRect Rat)), LD good = .ok n ∧ n.modules[1]? = some m ∧
    m.name = "S" ∧ rs0.length = 2 ∧ m.rects = stogC06 e3 e3 rs0 ∧
    m.center = some ((rs0.map fun r => r.area * r.cx.val).sum / (rs0.map NRect.area).sum,
                     (rs0.map fun r => r.area * r.cy.val).sum / (rs0.map NRect.area).sum) ∧
    0 < (rs0.map NRect.area).sum ∧ AreaOfDoc (.int 6 : Y) m.areaRegions ∧ m.fixed = false := by
  obtain ⟨n, hn⟩ := ok_of_isOk' good_ok
  have hF := modules_of_document (hasModules_doc _ _) hn
  generalize hms : n.modules = ms at hF
  -- peel the Forall₂
  cases hF with
  | cons h1 hF2 =>
    cases hF2 with
    | cons h2 hF3 =>
      rename_i ms1 m2 ms2
      obtain ⟨info, he, hmod⟩ := h2
      have hinfo : info = [(.str "area", .int 6), (.str "center", .seq [.int 100, .int 100]),
          (.str "rectangles", .seq [.seq [.int 10, .int 10, .int 2, .int 2], .seq [.int 12, .int 10, .int 2, .int 1, .str "dsp"]])] := by
        simp [mS] at he; exact he.2.symm
      have hname : m2.name = "S" := by simp [mS] at he; exact he.1.symm
      subst hinfo
      obtain ⟨es, rs0, hes, hFR, hne, hr, hc, hpos, _⟩ := hmod.rects (.seq [.seq [.int 10, .int 10, .int 2, .int 2], .seq [.int 12, .int 10, .int 2, .int 1, .str "dsp"]]) (by simp [HasAttr])
      have hes' : es = [.seq [.int 10, .int 10, .int 2, .int 2], .seq [.int 12, .int 10, .int 2, .int 1, .str "dsp"]] := by
        simp [rectEntries, YVal.isNumber, YVal.num?] at hes; exact hes.symm
      have hlen : rs0.length = 2 := by rw [← hFR.length_eq, hes']; rfl
      have hsoft : m2.hard = false := hmod.soft_iff.mpr ⟨.int 6, by simp [HasAttr], by simp⟩
      have harea := hmod.area (.int 6) (by simp [HasAttr]) hsoft
      have hfix : m2.fixed = false := by
        cases hf : m2.fixed with
        | false => rfl
        | true => have := hmod.fixed_iff.mp hf; simp [HasAttr] at this
      exact ⟨n, m2, rs0, hn, by rw [hms]; simp, hname, hlen, hr, hc, hpos, harea, hfix⟩

/-! rectangles_def applied: 5 chunks, flat list = their concatenation -/
example : ∃ (n : Netlist Rat) (rss : List (List (NRect Rat))), LD good = .ok n ∧ rss.length = 5 ∧
    loadRectangles (stogC06 e3 e3) e3 good = .ok rss.flatten := by
  obtain ⟨n, hn⟩ := ok_of_isOk' good_ok
  obtain ⟨rss, hF, hl, _⟩ := rectangles_def (hasModules_doc _ _) hn
  exact ⟨n, rss, hn, by rw [← hF.length_eq]; rfl, hl⟩

/-! nets_of_document applied -/
example : ∃ (n : Netlist Rat), LD good = .ok n ∧ List.Forall₂ NetOfDoc goodNets n.nets ∧ n.nets.length = 2 := by
  obtain ⟨n, hn⟩ := ok_of_isOk' good_ok
  have h := (nets_of_document (hasNets_doc _ _) hn).1
  exact ⟨n, hn, h, by rw [← h.length_eq]; rfl⟩

/-! wireLength_loaded applied (sqrt := id) -/
theorem good_wl : (match LD good with | .ok n => (n.wireLength (fun x => x)).isSome | .error _ => false) = true := by decide +kernel
example : ∃ (n : Netlist Rat) (w : Rat), LD good = .ok n ∧ n.wireLength (fun x => x) = some w ∧
    ∀ e ∈ n.nets, 2 ≤ (netCenters n e).length ∧ 0 < e.weight := by
  obtain ⟨n, hn⟩ := ok_of_isOk' good_ok
  have := good_wl; rw [hn] at this; simp at this
  obtain ⟨w, hw⟩ := Option.isSome_iff_exists.mp this
  obtain ⟨_, h2⟩ := wireLength_loaded (fun x => x) hn w hw
  exact ⟨n, w, hn, hw, fun e he => (h2 e he).2⟩

/-! wireLength_none_loaded applied: a net names soft A (no centre) -/
def noCtr : Y := doc [mA, mT] [.seq [.str "A", .str "T"]]
theorem noCtr_none : (match LD noCtr with | .ok n => (n.wireLength (fun x => x)).isNone | .error _ => false) = true := by decide +kernel
example : ∃ (n : Netlist Rat), LD noCtr = .ok n ∧ ∃ e ∈ n.nets, ∃ x ∈ e.members, ∃ m ∈ n.modules, m.name = x ∧ m.center = none := by
  have hok : isOk' (LD noCtr) = true := by decide +kernel
  obtain ⟨n, hn⟩ := ok_of_isOk' hok
  have := noCtr_none; rw [hn] at this; simp at this
  exact ⟨n, hn, wireLength_none_loaded (fun x => x) hn this⟩

/-! missing_keys applied: Modules only -/
def modsOnly : Y := .map [(.str "Modules", .map [mA])]
example : ∃ (n : Netlist Rat), LD modsOnly = .ok n ∧ n.nets = [] := by
  have hok : isOk' (LD modsOnly) = true := by decide +kernel
  obtain ⟨n, hn⟩ := ok_of_isOk' hok
  exact ⟨n, hn, (missing_keys hn).1 ⟨_, rfl, by intro v h; simp [mA] at h⟩⟩

#print axioms modules_of_document
#print axioms wireLength_loaded

"""what the valid stream of c05 actually reaches (same rng recipe as c05.run, quick tier sizes)."""
import sys, random, collections
sys.path.insert(0, "/verif/harness")
import vcheck
import netlist_common as nc

rng = random.Random("C05-0")
C = collections.Counter()
for i in range(1200):
    mode = "Q" if i % 2 == 0 else "F"
    doc = nc.gen_doc(rng, mode)
    eps = nc.gen_eps(rng, mode)
    st, n = nc.load_impl(doc, eps)
    C["docs"] += 1
    if "Nets" not in doc: C["doc-without-Nets-key"] += 1
    if "Modules" not in doc: C["doc-without-Modules-key"] += 1
    if st != "ok":
        C["rejected"] += 1
        continue
    C["accepted"] += 1
    if "Nets" not in doc: C["accepted-without-Nets-key"] += 1
    if list(doc)[0] == "Nets": C["accepted-nets-first"] += 1
    try:
        wl = n.wire_length
    except AssertionError:
        wl = None
    if n.edges:
        C["accepted-with-nets"] += 1
        if wl is None: C["wl-undefined(some member without centre)"] += 1
        elif wl == 0: C["wl-zero"] += 1
        else:
            C["wl-defined-nonzero"] += 1
            if len(n.edges) >= 2: C["wl-defined-nonzero-2+nets"] += 1
            if any(len(e.modules) >= 3 for e in n.edges): C["wl-defined-nonzero-arity3+"] += 1
            if any(e.weight != 1 for e in n.edges): C["wl-defined-nonzero-weight!=1"] += 1
    for name, info in doc.get("Modules", {}).items():
        C["modules"] += 1
        r = info.get("rectangles")
        nr = 0 if r is None else (1 if not isinstance(r[0], list) else len(r))
        flat = r is not None and not isinstance(r[0], list)
        if info.get("terminal") is True:
            C["terminal"] += 1
            if nr: C["terminal+rects"] += 1
            if nr and "center" in info: C["terminal+rects+center"] += 1
            if nr == 0 and "center" not in info: C["terminal-no-centre"] += 1
        if info.get("fixed") is True and info.get("terminal") is not True:
            C["fixed"] += 1
            if nr >= 2: C["fixed-2+rects"] += 1
        if "area" in info:
            C["soft"] += 1
            if isinstance(info["area"], dict) and len(info["area"]) >= 2: C["soft-multi-region"] += 1
            if nr and "center" in info: C["soft+center+rects"] += 1
            if nr >= 2: C["soft-2+rects"] += 1
        if flat: C["single-rect-shorthand"] += 1
    for e in doc.get("Nets", []):
        C["nets"] += 1
        if isinstance(e[-1], int) and not isinstance(e[-1], bool): C["net-int-weight"] += 1
        if isinstance(e[-1], bool): C["net-bool-weight"] += 1
        if isinstance(e[-1], str): C["net-no-weight"] += 1
for k, v in sorted(C.items()):
    print(f"{k:45s} {v}")

import sys, math
sys.path.insert(0, "/repo"); sys.path.insert(0, "/verif/harness"); sys.path.insert(0, "/verif/harness/props")
from tools.force.fruchterman_reingold import circle_circle_intersection_area as area
from frame.geometry.geometry import Point
import c17
from mpmath import mpf
r1, r2, x2 = 0.09032945804907329, 0.09032945708604562, 9.63027681578172e-10
a = area(Point(0.0, 0.0), r1, Point(x2, 0.0), r2); b = area(Point(x2, 0.0), r2, Point(0.0, 0.0), r1)
ex = c17.exact_area(0.0, 0.0, r1, x2, 0.0, r2)   # the harness's own oracle
print("area", a, b, "harness-exact", float(ex), "err/R^2", float(abs(mpf(a) - ex) / mpf(r1)**2), "r1-r2", r1 - r2, "d", x2)
print("pi*r2^2", math.pi * r2 * r2)
# simple decimal witness
for (r1, r2, d) in [(1.0, 0.99999999, 1.0000001e-8), (1.0, 1 - 1e-8, 1.00000001e-8), (2.0, 1.99999998, 2.0000001e-8), (1.0, 0.999999, 1.0000001e-6)]:
    a = area(Point(0.0, 0.0), r1, Point(d, 0.0), r2)
    ex = c17.exact_area(0.0, 0.0, r1, d, 0.0, r2)
    print((r1, r2, d), "->", a, "exact", float(ex), "err/R^2 = %.3g" % float(abs(mpf(a) - ex) / mpf(max(r1, r2))**2), "r1-r2=", r1 - r2)

import sys, math
sys.path.insert(0, "/repo")
from tools.force.fruchterman_reingold import circle_circle_intersection_area as area
from frame.geometry.geometry import Point
def t(*a):
    c1, r1, c2, r2 = Point(a[0], a[1]), a[2], Point(a[3], a[4]), a[5]
    try: print(a, "->", area(c1, r1, c2, r2))
    except Exception as e: print(a, "-> RAISES", type(e).__name__, e)
t(0.0, 0.0, 1.0, 2e154, 0.0, 1.0)            # unit discs far apart: answer 0
t(0.0, 0.0, 1.0, 1.3e154, 0.0, 1.0)          # just below: fine
t(0.0, 0.0, 1.0, 1.2e154, 1.2e154, 1.0)      # sum of squares overflows to inf -> d = inf -> 0 (right by luck)
t(0.0, 0.0, 1e154, 0.0, 0.0, 2e154)          # concentric, min r**2 = 1e308 ok, pi*1e308 = inf
t(0.0, 0.0, 1.4e154, 0.0, 0.0, 2e154)        # min r**2 overflows
t(-2.2149297054883458e+157, 0.0, 1.0724005142832935e+154, -2.2136069285214102e+157, 9.538255333017859e+153, 7.3010563249948e+153)  # silent 0, exact 8.69e306
t(0.0, 0.0, 1e-320, 1e-320, 0.0, 1e-320)
t(0.0, 0.0, 5e-324, 5e-324, 0.0, 5e-324)
t(0.0, 0.0, 1e-310, 1e-310, 0.0, 5e-324)

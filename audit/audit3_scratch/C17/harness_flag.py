import sys
sys.path.insert(0, "/repo"); sys.path.insert(0, "/verif/harness"); sys.path.insert(0, "/verif/harness/props")
import c17
from vcheck import f2hex
class Ctx:
    def __init__(s): s.f = []
    def spec_fail(s, clause, inp, detail, size): s.f.append((clause, detail))
    def count(s, *a): pass
r1, r2, d = 4.476107856162686, 4.476107808596214, 4.756647260599044e-08
inp = {"family": "x", "k": 0, "x1": f2hex(0.0), "y1": f2hex(0.0), "r1": f2hex(r1), "x2": f2hex(d), "y2": f2hex(0.0), "r2": f2hex(r2)}
a = c17.call(0.0, 0.0, r1, d, 0.0, r2); b = c17.call(d, 0.0, r2, 0.0, 0.0, r1)
c = Ctx(); c17.spec_on_impl(c, inp, a, b); print(a, b, c.f)

import math, random, sys
sys.path.insert(0, "/repo")
from mpmath import mp, mpf
mp.dps = 60
from tools.force.fruchterman_reingold import circle_circle_intersection_area as area
from frame.geometry.geometry import Point
def exact(r1, r2, d):
    r1, r2, d = mpf(r1), mpf(r2), mpf(d)
    if d >= r1 + r2: return mpf(0)
    if d <= abs(r1 - r2): return mp.pi * min(r1, r2)**2
    x = (d*d + r1*r1 - r2*r2) / (2*d); h = mp.sqrt(max(mpf(0), r1*r1 - x*x))
    return r1*r1*mp.atan2(h, x) + r2*r2*mp.atan2(h, d - x) - d*h
rng = random.Random(3); worst = []
for _ in range(200000):
    sc = 10.0**rng.uniform(-3, 3)
    r1 = sc * rng.uniform(0.5, 1)
    delta = r1 * 10.0**rng.uniform(-13, -2)
    r2 = r1 - delta
    d = (r1 - r2) * (1 + 10.0**rng.uniform(-8, 1))
    x2 = d
    a = float(area(Point(0.0, 0.0), r1, Point(x2, 0.0), r2))
    b = float(area(Point(x2, 0.0), r2, Point(0.0, 0.0), r1))
    dd = abs(x2)
    R2 = mpf(max(r1, r2))**2
    e = exact(r1, r2, dd)
    rel = max(float(abs(mpf(a) - e) / R2), float(abs(mpf(b) - e) / R2))
    worst.append((rel, r1, r2, x2, a, b, float(e)))
worst.sort(reverse=True)
for w in worst[:6]: print(w)
print("count > 1e-5:", sum(1 for w in worst if w[0] > 1e-5), " > 1e-6:", sum(1 for w in worst if w[0] > 1e-6))

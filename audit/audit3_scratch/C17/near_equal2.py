import math, random, sys
sys.path.insert(0, "/repo"); sys.path.insert(0, "/verif/harness"); sys.path.insert(0, "/verif/harness/props")
from mpmath import mpf
from tools.force.fruchterman_reingold import circle_circle_intersection_area as area
from frame.geometry.geometry import Point
import c17
rng = random.Random(5); rows = []
for _ in range(300000):
    r1 = rng.uniform(0.5, 1) * 10.0**rng.uniform(-2, 2)
    ld = rng.uniform(-13, -2); lo = rng.uniform(-9, 1)
    r2 = r1 - r1 * 10.0**ld
    d = (r1 - r2) * (1 + 10.0**lo)
    a = float(area(Point(0.0, 0.0), r1, Point(d, 0.0), r2))
    ex = c17.exact_area(0.0, 0.0, r1, d, 0.0, r2)
    rel = float(abs(mpf(a) - ex) / mpf(r1)**2)
    rows.append((rel, ld, lo, r1, r2, d, a, float(ex)))
rows.sort(reverse=True)
print("n>1e-5:", sum(r[0] > 1e-5 for r in rows), "max", rows[0])
bad = [r for r in rows if r[0] > 1e-5]
print("log10(delta/r) range of failures:", min(r[1] for r in bad), max(r[1] for r in bad))
print("log10(d/delta-1) range of failures:", min(r[2] for r in bad), max(r[2] for r in bad))
import collections
h = collections.Counter((round(r[1]), round(r[2])) for r in bad)
print(sorted(h.items()))
print("sign of error (a-exact) among failures:", collections.Counter(("low" if r[6] < r[7] else "high") for r in bad))

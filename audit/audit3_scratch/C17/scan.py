import sys, math
sys.path.insert(0, "/repo"); sys.path.insert(0, "/verif/harness"); sys.path.insert(0, "/verif/harness/props")
from tools.force.fruchterman_reingold import circle_circle_intersection_area as area
from frame.geometry.geometry import Point
import c17
from mpmath import mpf
best = (0,)
for k in range(8, 50):
    row = (0,)
    for j in range(1, 50):
        for r1 in (1.0, 1.2345678901234567, 3.3):
            delta = r1 * 2.0**-k
            r2 = r1 - delta
            d = (r1 - r2) * (1 + 2.0**-j)
            if not d > r1 - r2: continue
            for args in ((0.0, 0.0, r1, d, 0.0, r2), (d, 0.0, r2, 0.0, 0.0, r1)):
                a = area(Point(args[0], args[1]), args[2], Point(args[3], args[4]), args[5])
                ex = c17.exact_area(*args)
                rel = float(abs(mpf(a) - ex) / mpf(r1)**2)
                if rel > row[0]: row = (rel, j, args, a, float(ex))
    print("delta/r=2^-%d  worst err/R^2 = %.3g  (d/delta-1 = 2^-%s) %s" % (k, row[0], row[1] if len(row) > 1 else "-", (row[2], row[3], row[4]) if row[0] > 1e-5 else ""))
    if row[0] > best[0]: best = row
print("BEST", best)

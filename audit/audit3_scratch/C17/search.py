"""Independent random search on the REAL repaired circle_circle_intersection_area (through Point)."""
import math, random, sys, collections, json
sys.path.insert(0, "/repo")
from mpmath import mp, mpf
mp.dps = 50
from tools.force.fruchterman_reingold import circle_circle_intersection_area as area
from frame.geometry.geometry import Point

def nudge(x, k):
    for _ in range(abs(k)):
        x = math.nextafter(x, math.inf if k > 0 else -math.inf)
    return x

def exact(x1, y1, r1, x2, y2, r2):
    dx, dy = mpf(x1) - mpf(x2), mpf(y1) - mpf(y2)
    d = mp.sqrt(dx*dx + dy*dy)
    r1, r2 = mpf(r1), mpf(r2)
    if d >= r1 + r2: return mpf(0)
    if d <= abs(r1 - r2): return mp.pi * min(r1, r2)**2
    # independent form: two circular segments via chord
    x = (d*d + r1*r1 - r2*r2) / (2*d)
    h2 = r1*r1 - x*x
    if h2 <= 0: return mpf(0) if x > 0 else mp.pi*min(r1, r2)**2
    h = mp.sqrt(h2)
    a = mp.atan2(h, x); b = mp.atan2(h, d - x)
    return r1*r1*a + r2*r2*b - d*h

LO, HI = float(sys.argv[2]), float(sys.argv[3])
N = int(sys.argv[1]); seed = int(sys.argv[4]) if len(sys.argv) > 4 else 1
rng = random.Random(seed)
fails = collections.defaultdict(list); counts = collections.Counter()
worst_sym = (0, None); worst_acc = (0, None); minL = {}
for it in range(N):
    ex = rng.uniform(LO, HI)
    scale = 10.0 ** ex if ex > -323 else 5e-324
    r1 = rng.uniform(0.05, 1.0) * scale
    u = rng.random()
    if u < 0.25: r2 = r1
    elif u < 0.5: r2 = r1 * 10.0 ** rng.uniform(-20, 0)
    elif u < 0.6: r2 = r1 * 10.0 ** rng.uniform(-330, 0)
    else: r2 = rng.uniform(0.05, 1.0) * scale
    if r1 <= 0: r1 = 5e-324
    if r2 <= 0: r2 = 5e-324
    if rng.random() < 0.5: r1, r2 = r2, r1
    k = rng.randint(-6, 6)
    fam = rng.choice(["ext", "int", "ext", "int", "zero", "lens", "far", "nested", "tinyd", "hugefar"])
    if fam == "ext": d = nudge(r1 + r2, k)
    elif fam == "int": d = nudge(abs(r1 - r2), k)
    elif fam == "zero": d = 0.0
    elif fam == "lens": d = abs(r1 - r2) + (r1 + r2 - abs(r1 - r2)) * rng.random()
    elif fam == "far": d = (r1 + r2) * rng.uniform(1, 50)
    elif fam == "nested": d = abs(r1 - r2) * rng.random()
    elif fam == "tinyd": d = max(r1, r2) * 10.0 ** rng.uniform(-330, -5)
    else: d = (r1 + r2) * 10.0 ** rng.uniform(0, 300)
    d = abs(d)
    if not math.isfinite(d): d = 1e308
    p = rng.random()
    off = rng.choice([0.0, 0.0, scale * rng.uniform(-1000, 1000)])
    x1, y1 = off, rng.choice([0.0, off])
    if p < 0.45: x2, y2 = x1 + d, y1
    elif p < 0.6: x2, y2 = x1, y1 - d
    else:
        th = rng.uniform(0, 2*math.pi); x2, y2 = x1 + d*math.cos(th), y1 + d*math.sin(th)
    if not all(map(math.isfinite, (x1, y1, x2, y2))): continue
    counts[fam] += 1
    inp = (x1, y1, r1, x2, y2, r2)
    try:
        a = area(Point(x1, y1), r1, Point(x2, y2), r2)
        b = area(Point(x2, y2), r2, Point(x1, y1), r1)
    except Exception as e:
        L = max(abs(x1 - x2), abs(y1 - y2), r1, r2)
        key = "raise:" + type(e).__name__ + (":answer-is-a-double" if min(r1, r2) < 7e153 else ":area-overflows")
        fails[key].append((ex, fam, inp, L)); minL[key] = min(minL.get(key, (1e309,)), (L, inp)); continue
    a = float(a); b = float(b)
    if not (math.isfinite(a) and math.isfinite(b)):
        fails["nonfinite"].append((ex, fam, inp, a, b)); continue
    R = max(r1, r2); R2 = mpf(R)**2
    cap = mp.pi * mpf(min(r1, r2))**2
    if a < 0 or mpf(a) > cap * (1 + mpf(10)**-12) + mpf(2e-323):
        fails["bounds"].append((ex, fam, inp, a, float(cap)))
    if a != b:
        counts["sym-not-bitwise"] += 1
        rel = float(abs(mpf(a) - mpf(b)) / R2) if R2 > 0 else 0
        if rel > worst_sym[0] and R >= 1e-150: worst_sym = (rel, inp, a, b)
        if abs(mpf(a) - mpf(b)) > max(mpf(1e-9) * R2, mpf(2e-323)):
            fails["sym>1e-9R2"].append((ex, fam, inp, a, b))
    e = exact(*inp)
    err = abs(mpf(a) - e)
    if R >= 1e-150:
        rel = float(err / R2)
        if rel > worst_acc[0]: worst_acc = (rel, fam, inp, a, float(e))
    if err > mpf(10)**-5 * R2:
        key = "accuracy" + (":R<1e-150" if R < 1e-150 else "")
        fails[key].append((ex, fam, inp, a, float(e)))
print("counts", dict(counts)); print("min max-length of raising inputs", minL)
print("worst_sym(rel to R^2, R>=1e-150)", worst_sym)
print("worst_acc(rel to R^2, R>=1e-150)", worst_acc)
for k, v in fails.items():
    exs = [t[0] for t in v]
    print("FAIL", k, len(v), "scale-exp range", min(exs), max(exs), "families", dict(collections.Counter(t[1] for t in v)))
    for t in v[:3]: print("    ", t)
json.dump({k: v[:50] for k, v in fails.items()}, open(f"/tmp/audit3/C17/fails_{LO}_{HI}_{seed}.json", "w"), default=str)

import math, random, sys, collections
sys.path.insert(0, "/repo"); sys.path.insert(0, "/verif/harness"); sys.path.insert(0, "/verif/harness/props")
from mpmath import mpf
from tools.force.fruchterman_reingold import circle_circle_intersection_area as area
from frame.geometry.geometry import Point
import c17
rng = random.Random(9); bad = []; w = (0,)
for _ in range(250000):
    r1 = rng.uniform(0.5, 1) * 10.0**rng.uniform(-2, 2)
    r2 = r1 * (1 - 10.0**rng.uniform(-16, -1)); d = r1 * 10.0**rng.uniform(-16, 0.3)
    th = rng.uniform(0, 6.3) if rng.random() < .5 else 0.0
    x2, y2 = d*math.cos(th), d*math.sin(th)
    if rng.random() < .5: args = (0.0, 0.0, r1, x2, y2, r2)
    else: args = (x2, y2, r2, 0.0, 0.0, r1)
    a = float(area(Point(args[0], args[1]), args[2], Point(args[3], args[4]), args[5]))
    ex = c17.exact_area(*args)
    rel = float(abs(mpf(a) - ex) / mpf(r1)**2)
    if rel > w[0]: w = (rel, args, a, float(ex))
    if rel > 1e-5: bad.append((rel, math.log10((r1 - r2)/r1), math.log10(d/r1), args))
print("worst", w); print("n bad", len(bad))
for b in bad[:5]: print(b)

import FV.Props.C17
open FV FV.Disc FV.C17 Real

-- total_structural / bounds_structural instantiated at realFns on a genuine lens (r1=2,r2=1, centres 2 apart)
example : ∃ a, area realFns 0 0 2 2 0 1 = .ok a :=
  total_structural realFns (by simp) (by intro x h1 h2; simp only [negOne_eq, one_eq] at h1 h2; exact ⟨arccos x, by simp [realFns, h1, h2]⟩)
    (by intro x y; exact ⟨√(x ^ 2 + y ^ 2), by simp only [realFns]; rw [if_pos (by positivity)]⟩) 0 0 2 2 0 1 (by simp [zero]) (by simp [zero])

example (a : ℝ) (h : area realFns 0 0 2 2 0 1 = .ok a) : (zero : ℝ) ≤ a ∧ a ≤ small realFns 2 1 :=
  bounds_structural realFns 0 0 2 2 0 1 a (by rw [small_eq]; simp only [zero_eq]; positivity) h

-- a degenerate carrier: all arithmetic constant 0 on ℤ (shows the theorem really needs nothing of + - * /)
-- hidden hypotheses of the real theorems: none besides positivity
#check @total_real
#check @lens_formula
#check @lens_symm      -- no hypothesis on d
#check @far_apart      -- no positivity hypothesis at all
-- d negative is accepted by the ℝ theorems (falls in the nested branch)
example : areaD realFns 2 1 (-5) = .ok (π * (min 2 1) ^ 2) := nested 2 1 (-5) (by norm_num) (by norm_num) (by
  have : |(2:ℝ) - 1| = 1 := by norm_num
  rw [this]; norm_num)
-- lensStd unfolds to the textbook form
example (r1 r2 d : ℝ) : lensStd r1 r2 d =
    r1 ^ 2 * arccos ((r1 ^ 2 + d ^ 2 - r2 ^ 2) / (2 * r1 * d)) + r2 ^ 2 * arccos ((r2 ^ 2 + d ^ 2 - r1 ^ 2) / (2 * r2 * d))
     - √((-d + r1 + r2) * (d + r1 - r2) * (d - r1 + r2) * (d + r1 + r2)) / 2 := rfl
#print axioms total_structural
#print axioms bounds_structural
#print axioms lens_formula
#print axioms total_real
#print axioms lens_bounds
#print axioms area_symm
-- Float model at the overflow witnesses: model says a value, Python raises OverflowError
#eval area floatFns 0 0 1 2e154 0 1
#eval area floatFns 0 0 1.4e154 0 0 2e154
#eval area floatFns (-1e308) 0 1.5e308 1e308 0 1.5e308

import math, random, sys
sys.path.insert(0, "/repo"); sys.path.insert(0, "/verif/harness"); sys.path.insert(0, "/verif/harness/props")
from mpmath import mpf
import c17
def area2(r1, r2, d):
    if d > r1 + r2: return 0
    small = math.pi * min(r1, r2)**2
    if d <= abs(r1 - r2): return small
    s = max(r1, r2); a, b, e = r1/s, r2/s, d/s
    den1, den2 = 2*a*e, 2*b*e
    if den1 == 0 or den2 == 0: return small
    alpha = math.acos(max(-1.0, min(1.0, ((a - b)*(a + b) + e*e) / den1)))
    beta = math.acos(max(-1.0, min(1.0, ((b - a)*(b + a) + e*e) / den2)))
    return min(small, max(0.0, (a*a*alpha + b*b*beta - e*a*math.sin(alpha)) * s * s))
rng = random.Random(5); w = (0,)
for _ in range(200000):
    r1 = rng.uniform(0.5, 1) * 10.0**rng.uniform(-2, 2)
    r2 = r1 - r1 * 10.0**rng.uniform(-9, -6); d = (r1 - r2) * (1 + 10.0**rng.uniform(-12, -6))
    if rng.random() < .5: r1, r2 = r2, r1
    a = float(area2(r1, r2, d)); ex = c17.exact_area(0.0, 0.0, r1, d, 0.0, r2)
    rel = float(abs(mpf(a) - ex) / mpf(max(r1, r2))**2)
    if rel > w[0]: w = (rel, r1, r2, d, a, float(ex))
print("factored numerator: worst err/R^2 in the failing region:", w)

import sys; sys.path.insert(0,'/repo')
import mpmath as mp
from frame.geometry.geometry import Point
import inspect, importlib
# find function
import subprocess
mod = subprocess.run("grep -rln 'def circle_circle_intersection_area' /repo --include=*.py", shell=True, capture_output=True, text=True).stdout.split()
print(mod)
import importlib.util
spec = importlib.util.spec_from_file_location("m", mod[0]); m = importlib.util.module_from_spec(spec); spec.loader.exec_module(m)
f = m.circle_circle_intersection_area
r1, r2, d = 4.476107856162686, 4.476107808596214, 4.756647260599044e-08
got = f(Point(0,0), r1, Point(d,0), r2)
mp.mp.dps = 80
R1, R2, D = mp.mpf(r1), mp.mpf(r2), mp.mpf(d)
a1 = mp.acos((D*D + R1*R1 - R2*R2)/(2*D*R1)); a2 = mp.acos((D*D + R2*R2 - R1*R1)/(2*D*R2))
exact = R1*R1*a1 + R2*R2*a2 - mp.sqrt((-D+R1+R2)*(D+R1-R2)*(D-R1+R2)*(D+R1+R2))/2
print("got", got, "exact", float(exact), "err/R^2", float(abs(got-exact)/R1**2), "|r1-r2|=", r1-r2, "d/|r1-r2| - 1 =", d/(r1-r2)-1)
try:
    print(f(Point(0,0), 1.0, Point(2e154,0), 1.0))
except Exception as e:
    print("far apart:", type(e).__name__, e)

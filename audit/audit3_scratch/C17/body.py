"""body-level search: (r1, r2, d) given directly through a stand-in for c1 - c2; all scales down to subnormals."""
import math, random, sys, collections
sys.path.insert(0, "/repo")
from mpmath import mp, mpf
mp.dps = 50
from tools.force.fruchterman_reingold import circle_circle_intersection_area as area
class Rel:
    def __init__(s, d): s.d = d
    def __sub__(s, o): return s
    def norm(s): return s.d
def nudge(x, k):
    for _ in range(abs(k)): x = math.nextafter(x, math.inf if k > 0 else -math.inf)
    return x
def exact(r1, r2, d):
    r1, r2, d = mpf(r1), mpf(r2), mpf(d)
    if d >= r1 + r2: return mpf(0)
    if d <= abs(r1 - r2): return mp.pi * min(r1, r2)**2
    x = (d*d + r1*r1 - r2*r2) / (2*d); h = mp.sqrt(max(mpf(0), r1*r1 - x*x))
    return r1*r1*mp.atan2(h, x) + r2*r2*mp.atan2(h, d - x) - d*h
rng = random.Random(int(sys.argv[2])); N = int(sys.argv[1])
fails = collections.defaultdict(list); worst = (0, None); cnt = collections.Counter()
for _ in range(N):
    ex = rng.uniform(-323.3, 153.8)
    r1 = max(5e-324, rng.uniform(0.05, 1) * 10.0**ex)
    u = rng.random()
    r2 = r1 if u < .25 else max(5e-324, r1 * 10.0**rng.uniform(-18, 0)) if u < .6 else max(5e-324, rng.uniform(0.05, 1) * 10.0**ex)
    if rng.random() < .5: r1, r2 = r2, r1
    fam = rng.choice(["ext", "int", "lens", "tinyd", "sub"])
    k = rng.randint(-6, 6)
    if fam == "ext": d = nudge(r1 + r2, k)
    elif fam == "int": d = nudge(abs(r1 - r2), k)
    elif fam == "lens": d = abs(r1 - r2) + (2 * min(r1, r2)) * rng.random()
    elif fam == "tinyd": d = max(r1, r2) * 10.0**rng.uniform(-330, -3)
    else: d = rng.randint(1, 50) * 5e-324
    d = abs(d)
    if d == 0 and fam != "int": d = 5e-324
    cnt[fam] += 1
    try:
        a = float(area(Rel(d), r1, Rel(d), r2)); b = float(area(Rel(d), r2, Rel(d), r1))
    except Exception as e:
        fails["raise:" + type(e).__name__].append((r1, r2, d)); continue
    R2 = mpf(max(r1, r2))**2; cap = mp.pi * mpf(min(r1, r2))**2
    if not (math.isfinite(a) and math.isfinite(b)): fails["nonfinite"].append((r1, r2, d, a, b)); continue
    if a < 0 or mpf(a) > cap * (1 + mpf(10)**-12) + mpf(2e-323): fails["bounds"].append((r1, r2, d, a, float(cap)))
    if abs(mpf(a) - mpf(b)) > max(mpf(1e-7) * R2, mpf(2e-323)): fails["sym>1e-7R2"].append((r1, r2, d, a, b))
    err = abs(mpf(a) - exact(r1, r2, d))
    if err > max(mpf(10)**-5 * R2, mpf(2e-323)): fails["accuracy(with 4-subnormal floor)"].append((r1, r2, d, a))
    if max(r1, r2) > 1e-150:
        rel = float(err / R2)
        if rel > worst[0]: worst = (rel, r1, r2, d, a)
print(dict(cnt)); print("worst acc rel R^2 (R>1e-150):", worst)
for k, v in fails.items():
    print("FAIL", k, len(v), "maxR range", min(max(t[0], t[1]) for t in v), max(max(t[0], t[1]) for t in v)); [print("   ", t) for t in v[:4]]

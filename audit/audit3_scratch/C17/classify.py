import json, sys, ast, math
f = json.load(open(sys.argv[1]))
for k, v in f.items():
    print(k, len(v))
    if k.startswith("raise"):
        small = []
        for t in v:
            x1, y1, r1, x2, y2, r2 = t[2]
            L = max(abs(x1 - x2), abs(y1 - y2), r1, r2, abs(x1), abs(y1), abs(x2), abs(y2))
            small.append((L, t))
        small.sort(key=lambda z: z[0])
        print("  smallest max-length among raising inputs:", small[0])

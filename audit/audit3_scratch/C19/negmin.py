from frame.geometry.geometry import Rectangle
from frame.allocation.allocation import Allocation
Rectangle.undefine_epsilon()
try:
    a = Allocation([[[1,1,4,4], {"A": 0.5}], [[5,1,2,2], {"A": 1}]])
    s = a.write_yaml(); a2 = Allocation(s); print("accepted, xmin<0; roundtrip ok:", a2.write_yaml()==s)
except BaseException as e: print("rejected", type(e).__name__, e)

import FV.Props.C19
open FV
example : ∀ s, Alloc.validIdent s = FV.validIdent s := by intro s; rfl
example : ∀ s, Die.validIdentifier s = FV.validIdent s := by intro s; rfl

import sys, numpy as np
from tools.netgen import netgen
from frame.geometry.geometry import Shape
d = netgen.gen_grid(1, 2, 1, True, 0, Shape(8, 2))
print("grid 1x2 on 8x2 die centres:", {k: v['center'] for k, v in d['Modules'].items()})
from tools.floorset_parser.floor_set_manager.manager import FloorSetInstance
poly=[[1,1],[3,1],[3,3],[1,3]]
vb=np.full((1,6,2),-1.0); vb[0,:4,:]=np.array(poly,float)
data={"area_blocks":np.array([4.0]),"b2b_connectivity":np.zeros((0,3)),"p2b_connectivity":np.zeros((0,3)),
 "pins_pos":np.array([[10.0,10.0],[9.9996,5.0]]),"placement_constraints":np.zeros((1,5)),"vertex_blocks":vb,
 "metrics":np.array([1,2,1,1,1,1,1,1],float)}
fp=FloorSetInstance(data,None,True)
r=fp.modules["T1"]["rectangles"]; print("T1 rect",r,"xmax",r[0]+r[2]/2,"die width",fp.shape[0] if hasattr(fp,'shape') else None)

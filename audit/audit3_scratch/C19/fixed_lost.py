from frame.geometry.geometry import Rectangle
from frame.netlist.netlist import Netlist
from frame.die.die import Die
from frame.allocation.allocation import Allocation, create_initial_allocation
Rectangle.undefine_epsilon()
net = Netlist("Modules: {F0: {rectangles: [[1,1,2,2]], fixed: true}, S0: {area: 4, center: [5,3]}}\nNets: []\n")
d = Die({"width": 8, "height": 6}, net)
a = create_initial_allocation(d, True)
snap = lambda al: [(list(c.rect.vector_spec)[:4], bool(c.rect.fixed), dict(c.alloc), c.depth) for c in al.allocations]
print("original :", snap(a))
s = a.write_yaml()
a2 = Allocation(s)
print("re-read  :", snap(a2))
# same operation on both objects
r1 = a.refine(1.0, 1); r2 = a2.refine(1.0, 1)
print("refine(1.0,1) original ->", len(r1.allocations), "cells; re-read ->", len(r2.allocations), "cells")
print("documents equal after refine:", r1.write_yaml() == r2.write_yaml())

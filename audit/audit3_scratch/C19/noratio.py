from frame.geometry.geometry import Rectangle
from frame.netlist.netlist import Netlist
from frame.die.die import Die
from frame.allocation.allocation import Allocation, create_initial_allocation
Rectangle.undefine_epsilon()
net = Netlist("Modules: {S0: {area: 4, center: [5,3]}}\nNets: []\n")
d = Die({"width": 8, "height": 6}, net)
a = create_initial_allocation(d, False)   # include_area_zero=False: cells far from S0 get an empty ratio map
for al in (a, Allocation([[[4,3,8,6], {}]])):
    s = al.write_yaml()
    print(repr(s))
    try:
        Allocation(s); print("accepted")
    except BaseException as e:
        print("REJECTED:", type(e).__name__, str(e)[:120])

import FV.Props.C19
open FV FV.NL FV.Prod FV.C19

-- (a) alloc_roundtrip_constructor applied to the C02 witness
example : ∃ (a : Alloc.Allocation ℚ) (st : Alloc.Eps ℚ) (raw : _) (a' : _),
    rawOfTree (writeAlloc (a.cells.map ofACell)).1 = some raw ∧
    Alloc.mkAllocation Alloc.exEnv st raw = .ok (a', st) ∧ a'.cells = a.cells.map stripCell ∧
    (∃ c ∈ a.cells, c.rect.fixed = true) := by
  obtain ⟨a, st, h, hv⟩ := Alloc.exRawF_valid
  have hb : (match Alloc.mkAllocation Alloc.exEnv ⟨-1, -1⟩ Alloc.exRawF with
      | .ok (a, _) => a.cells.all (fun c => Alloc.validIdent c.rect.region) && a.cells.any (fun c => c.rect.fixed)
      | .error _ => false) = true := by decide +kernel
  rw [h] at hb
  simp only [Bool.and_eq_true, List.all_eq_true, List.any_eq_true] at hb
  obtain ⟨raw, a', h1, h2, h3, _⟩ := alloc_roundtrip_constructor Alloc.exEnv st a hv hb.1
  exact ⟨a, st, raw, a', h1, h2, h3, hb.2⟩

-- (b) ring: the size guard is not needed for acceptance (n = 1, 2: self-loop / parallel nets are accepted by the reader model)
example (stog) (εA : ℚ) (area : Num ℚ) (ha : 0 < area.val) (n : Nat) (hn : 1 ≤ n) :
    parseNetlist stog εA (genRing area n).toY = .ok (pairNetlist area.val n (ringPairs n)) := by
  have := pairs_accepted stog εA area ha n (ringPairs n) (by
    intro p hp
    simp only [ringPairs, List.mem_map, List.mem_range] at hp
    obtain ⟨i, hi, rfl⟩ := hp
    exact ⟨hi, Nat.mod_lt _ (by omega)⟩)
  simpa [genRing, ringPairs, Function.comp_def] using this

-- ring n=1 model output = self loop [M0,M0]; accepted by model
#eval (ringPairs 1, ringPairs 2, ringStarPairs 3, ringStarPairs 2)

-- (c) chain/star at n = 0: accepted empty netlist
example (stog) (εA : ℚ) : parseNetlist stog εA (genChain (.i 1) 0).toY = .ok (pairNetlist 1 0 []) := by
  simpa [chainPairs] using gen_chain_accepted stog εA (.i 1) (by norm_num [Num.val, intToSc]) 0

#print axioms alloc_roundtrip_constructor
#print axioms die_roundtrip_constructor
#print axioms rectio_same_modules_as_allocation
#print axioms floorset_accepted
#check @Alloc.validIdent
#check @FV.validIdent
example : Alloc.validIdent "_" = true := by decide
example : Alloc.validIdent "#" = false := by decide

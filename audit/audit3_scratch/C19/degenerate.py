import io
from ruamel.yaml import YAML
from tools.netgen import netgen
from frame.netlist.netlist import Netlist
from frame.geometry.geometry import Rectangle, Shape
def dump(d):
    y=YAML(); y.default_flow_style=False; s=io.StringIO(); y.dump(d,s); return s.getvalue()
def t(label,f):
    Rectangle.undefine_epsilon()
    try:
        d=f()
    except BaseException as e:
        print(label,"GEN-RAISES",type(e).__name__,e); return
    s=dump(d)
    try:
        n=Netlist(s); print(label,"ACCEPTED mods",len(n.modules),"nets",[[m.name for m in e.modules] for e in n.edges][:6])
    except BaseException as e:
        print(label,"REJECTED",type(e).__name__,str(e)[:100], "| doc:",s.replace("\n"," ")[:120])
for n in (0,1,2): t(f"ring {n}",lambda:netgen.gen_ring(n,1))
for n in (0,1): t(f"star {n}",lambda:netgen.gen_star(n,1))
for n in (0,1): t(f"chain {n}",lambda:netgen.gen_chain(n,1))
for n in (0,1): t(f"one-net {n}",lambda:netgen.gen_one_net(n,1))
for n in (0,1,2,3): t(f"ring-star {n}",lambda:netgen.gen_ring_star(n,1))
for rc in ((0,0),(0,1),(1,0),(1,1),(0,3),(3,0)): t(f"grid {rc}",lambda:netgen.gen_grid(rc[0],rc[1],1))
for n in (0,1,-1): t(f"htree {n}",lambda:netgen.gen_htree(n,1))
# add-centers
import random
for sd in (0,0.1,5.0):
    random.seed(1)
    t(f"grid 2x3 centers sd={sd}", lambda: netgen.gen_grid(2,3,1,True,sd,Shape(6,4)))
t("grid 3x1 centers", lambda: netgen.gen_grid(3,1,1,True,0,Shape(6,4)))

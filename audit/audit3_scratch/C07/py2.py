import sys
sys.path.insert(0, "/repo")
from tools.rect.satmanager import SATManager
from tools.rect import pseudobool as pb
m = SATManager()
x, y, z, w = (m.newvar(n) for n in "xyzw")
m.pseudoboolencoding(2 * x + 3 * y + 2 * (-z) >= 4)
m.heuleencoding([x, y, z, w], 3)
try:
    m.heuleencoding([x, y], 2)
except Exception as e:
    print("refused", e)
print(len(m.clauses), len(pb.memory), m.tcount - 1, m.auxcount)
print(m.solve(), m.solver.get_model())
# second solve after more posts: works in Python
m.add_clause([-y])
print(m.solve(), [m.value(l) for l in (x, y, z, w)])
# non-NF Expr through the public constructor
e = pb.Expr(0, {"x": pb.Term(pb.Literal("x"), -2), "y": pb.Term(pb.Literal("y"), 1)})
q = e >= -1
print(q.tostr(), q.isclause(), q.clause)

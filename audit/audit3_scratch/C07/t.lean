import FV.Props.C07
open FV.PB FV.Sat FV.C07

namespace Aud
theorem newvar_model {m : Mgr} (v : Var) : (m.newvar v).model = m.model := by
  unfold Mgr.newvar; split <;> rfl

theorem heuleGo_model (k : Nat) (hk : 3 ≤ k) : ∀ (n : Nat) (lst : List Lit) (m : Mgr), lst.length = n →
    (Mgr.heuleGo k hk m lst).model = m.model := by
  intro n
  induction n using Nat.strongRecOn with
  | _ n ih =>
    intro lst m hn
    rw [Mgr.heuleGo]
    split
    · rfl
    · simp only [Mgr.newaux]
      rw [ih _ (by simp [List.length_drop]; omega) _ _ rfl]
      simp [Mgr.quadratic, newvar_model]

theorem codify_model {S : Store Var} : ∀ (fuel id : Nat) (m m' : Mgr), Mgr.codify S fuel id m = .ok m' →
    m'.model = m.model := by
  intro fuel
  induction fuel with
  | zero => intro id m m' h; simp [Mgr.codify] at h
  | succ fuel ih =>
    intro id m m' h
    unfold Mgr.codify at h
    split at h
    · simp at h; subst h; rfl
    · dsimp only at h
      have h1 : (({ m with codified := m.codified ++ [id] } : Mgr).newvar (.node id)).model = m.model := by
        rw [newvar_model]
      split at h
      · simp at h; subst h; simpa [Mgr.addClause] using h1
      · split at h
        · simp at h; subst h; simpa [Mgr.addClause] using h1
        · split at h
          · rename_i dv i e hget
            cases r2 : Mgr.codify S fuel i (({ m with codified := m.codified ++ [id] } : Mgr).newvar (.node id)) with
            | error err => simp [r2, bind, Except.bind] at h
            | ok m2 =>
              cases r3 : Mgr.codify S fuel e m2 with
              | error err => simp [r2, r3, bind, Except.bind] at h
              | ok m3 =>
                simp [r2, r3, bind, Except.bind, pure, Except.pure] at h
                subst h
                simp only [Mgr.addClause, newvar_model]
                rw [ih _ _ _ r3, ih _ _ _ r2, h1]
          · simp at h

theorem post_model {m m' : Mgr} {S S' : Store Var} {p : Post} (h : m.post S p = .ok (m', S')) :
    m'.model = m.model := by
  cases p with
  | clause c => simp [Mgr.post] at h; obtain ⟨rfl, _⟩ := h; rfl
  | imply l1 l2 => simp [Mgr.post] at h; obtain ⟨rfl, _⟩ := h; rfl
  | amoQ lst => simp [Mgr.post] at h; obtain ⟨rfl, _⟩ := h; rfl
  | amoH k lst =>
    simp only [Mgr.post, Mgr.heule] at h
    split at h
    · rename_i m'' hh
      simp at h; obtain ⟨rfl, _⟩ := h
      split at hh
      · simp at hh
      · simp at hh; subst hh; exact heuleGo_model _ _ _ _ _ rfl
    · simp at h
  | pb q dec =>
    simp only [Mgr.post, Mgr.pseudoBool] at h
    split at h
    · simp at h; obtain ⟨rfl, _⟩ := h; rfl
    · simp at h; obtain ⟨rfl, _⟩ := h; rfl
    · split at h
      · simp at h
      · simp at h
      · rename_i root S1 _
        cases hcod : Mgr.codify S1 (root + 1) root m with
        | error e => simp [hcod, bind, Except.bind] at h
        | ok m2 =>
          simp [hcod, bind, Except.bind, pure, Except.pure] at h
          obtain ⟨rfl, _⟩ := h
          simp only [Mgr.addClause, newvar_model]
          exact codify_model _ _ _ _ hcod

/-- every manager reachable by `Run` has the model it started with: `Run` has no `solve` step -/
theorem run_model {m : Mgr} {S : Store Var} {ps : List Post} {m' : Mgr} {S' : Store Var} (r : Run m S ps m' S') :
    m'.model = m.model := by
  induction r with
  | done => rfl
  | grow _ _ _ ih => exact ih
  | ok hpost _ ih => rw [ih, post_model hpost]
  | refused _ _ ih => exact ih
  | newvar v _ ih => rw [ih, newvar_model]

/-- so the state after the scenario's (successful) `solve()` is NOT the end of any `Run` from `SATManager()`:
    `solve_sound` cannot be applied to a second `solve()` of the same manager -/
example : ∀ m', Scenario.fin.1.solve (some Scenario.ans) = .ok (true, m') →
    ¬ ∃ S0 ps S, Run {} S0 ps m' S := by
  intro m' hs ⟨S0, ps, S, r⟩
  have h0 : m'.model = [] := run_model r
  have : (match Scenario.fin.1.solve (some Scenario.ans) with
          | .ok (_, m'') => m''.model.length | .error _ => 0) = 11 := by decide +kernel
  rw [hs] at this
  simp [h0] at this
end Aud

/-! strict operator accepted as a clause, through `post_history_exact` -/
namespace Aud2
def qgt : Ineq Var := Ineq.make (((⟨0, []⟩ : Expr Var).add (.lit x)).add (.lit y)) ⟨0, []⟩ .gt
def fin := execPosts (registerAll {} [.user "def_x", .user "def_y"]) Store.init [.pb qgt false]
example : fin.2.2.length = 1 ∧ fin.1.clauses.length = 1 := by decide +kernel
theorem wf : (Post.pb qgt false).WF := by
  refine built_ineq_wf .gt false ?_ nf_empty ?_ (by simp)
  · exact Expr.nf_add _ (Expr.nf_add _ nf_empty)
  · have : ∀ t' ∈ (((⟨0, []⟩ : Expr Var).add (.lit x)).add (.lit y)).t,
        t'.L.v = Var.user "def_x" ∨ t'.L.v = Var.user "def_y" := by decide
    intro t ht
    rcases this t ht with h | h <;> rw [h] <;> trivial
example (σ : Var → Bool) :
    (∃ τ, (∀ v, isUser v → τ v = σ v) ∧ cnfTrue τ fin.1.clauses) ↔ ∀ p ∈ fin.2.2, p.holds σ :=
  post_history_exact store_init_wf (run_registerAll _ (run_execPosts _ _ Store.init))
    (by intro p hp
        have := execPosts_subset _ _ _ p hp
        simp at this; subst this; exact wf) σ
end Aud2
#print axioms Aud.run_model

import sys, itertools, collections
sys.path.insert(0, "/repo")
from tools.rect.satmanager import SATManager
from tools.rect import pseudobool as pb
from pysat.solvers import Solver
names = ["def_x", "def_y", "def_z"]
C = collections.Counter(); bad = []
def cmp(o, a, b): return {">=": a >= b, "<=": a <= b, ">": a > b, "<": a < b, "=": a == b}[o]
for cs in itertools.product(range(-3, 4), repeat=3):
    for k in range(-7, 8):
        for o in (">=", "<=", ">", "<", "="):
            for dec in (False, True):
                m = SATManager()
                ls = [m.newvar(n[4:]) for n in names]
                e = pb.Expr()
                for c, l in zip(cs, ls): e = e + pb.Term(l, c)
                q = pb.Ineq(e, pb.Expr() + k, o)
                n0 = len(m.clauses)
                try:
                    m.pseudoboolencoding(q, dec)
                except Exception as ex:
                    C[o + ":refused"] += 1
                    if len(m.clauses) != n0 or o in (">=", "<=") or type(ex) is not Exception: bad.append(("refusal", cs, k, o, dec, repr(ex)))
                    continue
                C[o + ":accepted"] += 1
                s = Solver()
                for cl in m.clauses: s.add_clause([m.ttable[x.v] if x.s else -m.ttable[x.v] for x in cl])
                for bits in itertools.product((0, 1), repeat=3):
                    got = s.solve(assumptions=[m.ttable[n] if b else -m.ttable[n] for n, b in zip(names, bits)])
                    want = cmp(o, sum(c * b for c, b in zip(cs, bits)), k)
                    if got != want: bad.append((cs, k, o, dec, bits, got, want)); break
                s.delete()
print(dict(C)); print("bad", len(bad), bad[:5])

import sys
sys.path.insert(0, "/repo")
from tools.rect.satmanager import SATManager
from tools.rect import pseudobool as pb

# 1. heule on a big group: RecursionError, partial trace left
m = SATManager()
ls = [m.newvar(i) for i in range(1200)]
n0 = len(m.clauses)
try:
    m.heuleencoding(ls, 3)
    print("heule 1200 ok", len(m.clauses))
except BaseException as e:
    print("heule 1200 raised", type(e).__name__, "clauses added:", len(m.clauses) - n0, "aux:", m.auxcount)

# 1b. getrobdd with many terms
m = SATManager()
ls = [m.newvar(i) for i in range(1200)]
e = pb.Expr()
for i, l in enumerate(ls):
    e = e + l * (1 + i % 3)
n0 = len(pb.memory)
try:
    m.pseudoboolencoding(e >= 1000)
    print("pb 1200 ok")
except BaseException as ex:
    print("pb 1200 raised", type(ex).__name__, "store grew by", len(pb.memory) - n0, "clauses", len(m.clauses))

# 2. float bound
m = SATManager()
x, y = m.newvar("x"), m.newvar("y")
q = (x + y >= 0.5)
print("x+y>=0.5 ->", q.tostr(), "isclause", q.isclause(), q.clause)
q = (x + y >= 1.5)
print("x+y>=1.5 ->", q.tostr())
q = (x + y > 0.5)
print("x+y>0.5 ->", q.tostr(), q.isclause(), q.clause)
q = (x + y <= -0.5)
print("x+y<=-0.5 ->", q.tostr(), q.isclause(), q.clause)

# 3. aliasing of add_clause
m = SATManager()
x, y = m.newvar("x"), m.newvar("y")
c = [x]
m.add_clause(c)
c.append(y)
print("alias:", [[l.tostr() for l in cl] for cl in m.clauses])
# 3b. same Ineq posted twice shares clause list
q = (x + y >= 1)
m.pseudoboolencoding(q); m.pseudoboolencoding(q)
print(m.clauses[-1] is m.clauses[-2])

import sys, random, collections
sys.path.insert(0, "/verif/harness"); sys.path.insert(0, "/repo")
from props import c07
from tools.rect import pseudobool as pb
from tools.rect.satmanager import SATManager
rng = random.Random(0)
C = collections.Counter()
maxcoef = 0
for j in range(1500):
    h = c07.gen_history(rng, big=(j % 40 == 7))
    for o in h["ops"]:
        o = c07.norm_op(o)
        if o[0] == "he":
            k, n = o[2], len(o[3])
            if k >= 3:
                C["he:" + ("lt" if n < k else "eq" if n == k else "gt1" if n - k <= k - 2 else "gt2+")] += 1
                C["he:k=%d" % k] += 1
                if n == 0: C["he:empty"] += 1
                vs = [l[0] for l in o[3]]
                if len(set(vs)) < len(vs): C["he:repeatvar"] += 1
            else:
                C["he:refused"] += 1
        if o[0] == "qu":
            if len(o[2]) == 0: C["qu:empty"] += 1
            if len(o[2]) == 1: C["qu:single"] += 1
        if o[0] == "cl" and len(o[2]) == 0: C["cl:empty"] += 1
        if o[0] == "im" and len(o[2]) == 0: C["im:emptyprem"] += 1
        if o[0] == "pb":
            op = o[3]
            if op not in c07.OPSTR:
                C["pb:badop"] += 1; continue
            q = pb.Ineq(c07.mk_expr(o[4], o[5]), c07.mk_expr(o[6], o[7]), op)
            r = q.isclause()
            kind = "no" if not r else "taut" if q.clause is None else ("emptyclause" if not q.clause else "clause")
            C[f"pb:{op}:{kind}"] += 1
            if not r and q.op == ">=":
                C["robdd:dec=%s" % o[2]] += 1
                cs = [q.lhs.t[v].c for v in q.lhs.t]
                maxcoef = max(maxcoef, max(cs))
                if o[2] and any(c & (c - 1) for c in cs): C["robdd:dec-nonpow2"] += 1
                if any(not q.lhs.t[v].L.s for v in q.lhs.t): C["robdd:neglit"] += 1
                C["robdd:nterms=%d" % len(cs)] += 1
            if any(c == 0 for (c, _, _) in o[4] + o[6]): C["pb:zero-coef"] += 1
            vs = [v for (_, v, _) in o[4] + o[6]]
            if len(set(vs)) < len(vs): C["pb:repeated-var"] += 1
            if any(c < 0 for (c, _, _) in o[4] + o[6]): C["pb:neg-coef"] += 1
            if not q.lhs.t: C["pb:all-cancel/empty"] += 1
for k in sorted(C): print(k, C[k])
print("maxcoef in robdd", maxcoef)

import sys, json, multiprocessing as mp
sys.path.insert(0, "/verif/harness"); sys.path.insert(0, "/verif/harness/props")
import c20
s = 1.0
tiny = {"kind": "netlist", "scale": 1e-3, "rects": [], "proposal": 1e-3 * c20.K_NET,
        "text": "Modules: {\n  A: {area: 1e-6, center: [1e-3,1e-3]},\n  B: {area: 4e-6, center: [1e-3,1e-3]}\n}\nNets: [[A,B]]\n"}
hd = {"kind": "die", "scale": 1.0, "text": "width: 4.0\nheight: 4.0\nregions: [[1.0, 1.0, 2.0, 2.0, dsp]]\n", "W": 4.0, "H": 4.0,
      "proposal": 4.0 * c20.K_DIE, "rects": [[(1.0, 1.0, 2.0, 2.0)]]}
probe = {"kind": "die", "scale": 1.0, "text": "width: 4.0\nheight: 4.0\nregions: [[3.0, 3.0, 2.0, 2.0, bram]]\n", "W": 4.0, "H": 4.0,
         "proposal": 4.0 * c20.K_DIE, "rects": [[(3.0, 3.0, 2.0, 2.0)]]}
hist = [tiny, hd]
def control(args):
    eps, probe = args
    from frame.geometry.geometry import Rectangle
    Rectangle.set_epsilon(eps)
    return json.dumps(c20.run_op(probe)[0])
ctx = mp.get_context("fork")
with ctx.Pool(2, maxtasksperchild=1) as pool:
    r = pool.map(c20.child, [([], probe), (hist, probe)], chunksize=1)
fresh_dig, hist_dig = r[0][0], r[1][0]
hist_states = r[1][1]
print("fresh       :", fresh_dig[:120]); print("after hist  :", hist_dig[:120])
same, _ = c20.digests_equal(fresh_dig, hist_dig)
legit = [h["proposal"] for h in hist if "proposal" in h] + [probe["proposal"]]
inforce = hist_states[-1][0]
explained = any(abs(inforce - v) <= 1e-9 * v for v in legit)
lo, hi = min(legit), max(legit)
print("same=", same, "explained=", explained, "robust=", c20.robust(probe, lo, hi))
if not same and explained and not c20.robust(probe, lo, hi):
    print("=> harness labels this failure: C20-sticky-tolerance-nonrobust-design (KNOWN, exit 0)")
with ctx.Pool(1, maxtasksperchild=1) as pool:
    c = pool.map(control, [(inforce, probe)])[0]
print("control (fresh interpreter, only the inherited tolerance preset):", c[:120])
print("control == fresh:", c == fresh_dig, "  control == after-history:", c == hist_dig)

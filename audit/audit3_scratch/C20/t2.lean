import FV.Props.C20
open FV FV.Rect FV.C20 FV.Proc

def T : Rect ℚ := ⟨2, 1, 4, 2, "_", false, true, .nopoly⟩
def B : Rect ℚ := ⟨2, 5/2, 2, 1, "_", false, true, .nopoly⟩

-- findLocation_history_indep_partial applied: trunk [0,4]x[0,2], north branch [1,3]x[2,3], history of two designs
example : ((findLocationOp (1/20 : ℚ) T B).run (fun x => x) (runHistory (fun x => x) none [1/10, 1/100])).2 =
          ((findLocationOp (1/20 : ℚ) T B).run (fun x => x) none).2 :=
  findLocation_history_indep_partial (fun x => x) (fun _ _ h => h) (1/20) (1/100) (1/10) T B (by norm_num)
    (by left; decide +kernel)
    (by unfold OffBand; decide +kernel) (by unfold OffBand; decide +kernel) (by unfold OffBand; decide +kernel)
    (by unfold OffBand; decide +kernel) (by unfold OffBand; decide +kernel) (by unfold OffBand; decide +kernel)
    (by unfold OffBand; decide +kernel) (by unfold OffBand; decide +kernel)
    [1/10, 1/100]
    (by intro d hd; simp only [List.mem_cons, List.mem_nil_iff, or_false] at hd; rcases hd with rfl | rfl <;> norm_num)
#eval ((findLocationOp (1/20 : ℚ) T B).run (fun x => x) none).2

-- uniqEps_insensitive applied (with a duplicate coordinate)
example : FV.Alloc.uniqEps (1/100 : ℚ) [0, 1, 1, 3] = FV.Alloc.uniqEps (1/10) [0, 1, 1, 3] :=
  uniqEps_insensitive (1/100) (1/10) (1/100) (1/10) (by norm_num) (by norm_num) [0, 1, 1, 3] (by decide +kernel)
#eval FV.Alloc.uniqEps (1/100 : ℚ) [0, 1, 1, 3]

-- shape of die_verdict_history_indep: nothing links the two halves
example {S : Type} (H A : S → Prop) (h : ∀ s, H s → A s) (s s' : S) (a : H s) (b : H s') : A s ∧ A s' := ⟨h s a, h s' b⟩

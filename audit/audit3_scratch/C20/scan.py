import ast, sys, os
roots = ["/repo/frame", "/repo/tools"]
def is_mut(n):
    return isinstance(n, (ast.List, ast.Dict, ast.Set, ast.ListComp, ast.DictComp, ast.SetComp)) or \
        (isinstance(n, ast.Call))
for root in roots:
    for dp, dn, fn in os.walk(root):
        for f in fn:
            if not f.endswith(".py"): continue
            p = os.path.join(dp, f)
            try: t = ast.parse(open(p).read())
            except Exception as e: print("PARSEFAIL", p, e); continue
            # module level
            for n in t.body:
                if isinstance(n, (ast.Assign, ast.AnnAssign)) and n.value is not None:
                    tg = n.targets[0] if isinstance(n, ast.Assign) else n.target
                    name = ast.unparse(tg)
                    print(f"MODULE {p}:{n.lineno} {name} = {ast.unparse(n.value)[:60]}")
            for n in ast.walk(t):
                if isinstance(n, ast.ClassDef):
                    for b in n.body:
                        if isinstance(b, (ast.Assign, ast.AnnAssign)) and getattr(b, 'value', None) is not None:
                            tg = b.targets[0] if isinstance(b, ast.Assign) else b.target
                            print(f"CLASSATTR {p}:{b.lineno} {n.name}.{ast.unparse(tg)} = {ast.unparse(b.value)[:60]}")
                if isinstance(n, (ast.FunctionDef, ast.AsyncFunctionDef)):
                    for d in n.args.defaults + [k for k in n.args.kw_defaults if k is not None]:
                        if is_mut(d):
                            print(f"DEFAULT {p}:{n.lineno} {n.name}(... = {ast.unparse(d)[:50]})")
                    for dec in n.decorator_list:
                        s = ast.unparse(dec)
                        if "cache" in s: print(f"CACHE {p}:{n.lineno} {n.name} @{s}")
                if isinstance(n, ast.Global):
                    print(f"GLOBAL {p}:{n.lineno} {n.names}")
                # writes to Class.attr or module.attr
                if isinstance(n, (ast.Assign, ast.AugAssign)):
                    tgs = n.targets if isinstance(n, ast.Assign) else [n.target]
                    for tg in tgs:
                        if isinstance(tg, ast.Attribute) and isinstance(tg.value, ast.Name) and tg.value.id not in ("self","cls") and tg.value.id[0].isupper():
                            print(f"CLSWRITE {p}:{n.lineno} {ast.unparse(tg)}")
                        if isinstance(tg, ast.Attribute) and isinstance(tg.value, ast.Name) and tg.value.id == "cls":
                            print(f"CLSWRITE {p}:{n.lineno} {ast.unparse(tg)}")

import sys, random, collections
sys.path.insert(0, "/verif/harness"); sys.path.insert(0, "/verif/harness/props")
import c20
class C:
    budget=1.0; tier="quick"
    def n(self,q,t): return q
rng = random.Random(0)
ctx=C()
tot=collections.Counter(); nonrob=collections.Counter(); dy=collections.Counter()
same_dims=0; die_probe=0
for i in range(3000):
    hist, probe = c20.make_task(rng, ctx)
    k=probe["kind"]
    if k in ("netlist","die","alloc","legal"):
        legit=[h["proposal"] for h in hist if "proposal" in h]+([probe["proposal"]] if "proposal" in probe else [])
        lo,hi=min(legit),max(legit)
        tot[k]+=1
        if not c20.robust(probe,lo,hi): nonrob[k]+=1
    if k=="die":
        die_probe+=1
        for h in hist:
            if h["kind"]=="die" and h["W"]==probe["W"] and h["H"]==probe["H"] and h["text"]!=probe["text"]:
                same_dims+=1
for k in tot: print(k, tot[k], "non-robust", nonrob[k], round(nonrob[k]/tot[k],3))
print("die probes", die_probe, "with a history die of same WxH but different text:", same_dims)

import FV.Props.C20
open FV FV.Rect FV.Die FV.C01 FV.C20

def doc7 : YV ℚ := .map [("width", .num 10), ("height", .num 9),
  ("regions", .list [.list [.num 6, .num (15/2), .num 4, .num 1, .str "reg1"],
                     .list [.num 7, .num (3/2), .num 2, .num 3, .str "reg2"],
                     .list [.num 3, .num (7/2), .num 2, .num 3, .str "#"]])]
def fixed7 : List (Rect ℚ) := [⟨2, 7, 2, 2, "_", true, true, .nopoly⟩, ⟨8, 11/2, 2, 1, "_", true, true, .nopoly⟩]
def inp7 : DieIn ℚ := { W := 10, H := 9, regions := [⟨6, 15/2, 4, 1, "reg1", false, false, .nopoly⟩,
  ⟨7, 3/2, 2, 3, "reg2", false, false, .nopoly⟩, ⟨3, 7/2, 2, 3, "#", false, false, .nopoly⟩] }

-- (1) die_verdict_any_history applied at an INHERITED state (d = 1/1000 ≫ own 9e-11), εmax = 1/1000
example : ∃ picks out e s, dieModel (fun _ => (1:ℚ)) (some (1/1000, 1/10)) doc7 fixed7 (some picks) = .ok (out, e, s) ∧ ExactTiling out := by
  obtain ⟨picks, hacc⟩ := cover_exists
    ((gridOf (mkEps (fun _ => (1:ℚ)) (some (1/1000, 1/10)) inp7.W inp7.H).1 inp7 fixed7).2.length - 1)
    ((gridOf (mkEps (fun _ => (1:ℚ)) (some (1/1000, 1/10)) inp7.W inp7.H).1 inp7 fixed7).1.length - 1)
    (occ (gridOf (mkEps (fun _ => (1:ℚ)) (some (1/1000, 1/10)) inp7.W inp7.H).1 inp7 fixed7).1
         (gridOf (mkEps (fun _ => (1:ℚ)) (some (1/1000, 1/10)) inp7.W inp7.H).1 inp7 fixed7).2 (occRects inp7 fixed7))
  exact ⟨picks, die_verdict_any_history (fun _ => (1:ℚ)) doc7 fixed7 inp7 (by with_unfolding_all rfl) (1/1000)
    (by constructor
        · decide +kernel
        · decide +kernel
        · decide +kernel
        · unfold Die.Sep; decide +kernel
        · unfold Die.Sep; decide +kernel)
    (some (1/1000, 1/10)) (by simp [mkEps]) (by simp [mkEps]) (by simp [mkEps]) picks hacc⟩

-- (2) deterministic decomposition at three states (own / inherited small / inherited large-but-valid): is `out` the same?
#eval (match dieModel (fun _ => (1:ℚ)) none doc7 fixed7 none with | .ok (o, _, _) => some (o.ground.map fun (r : Rect ℚ) => (r.cx, r.cy, r.w, r.h)) | .error _ => none)
#eval (match dieModel (fun _ => (1:ℚ)) (some (1/1000, 1/10)) doc7 fixed7 none with | .ok (o, _, _) => some (o.ground.map fun (r : Rect ℚ) => (r.cx, r.cy, r.w, r.h)) | .error _ => none)
-- inherited tolerance 3/2 > a boundary gap (coords 1,2,3,4,...) : ValidDie fails, what happens?
#eval (match dieModel (fun _ => (1:ℚ)) (some (3/2, 1/10)) doc7 fixed7 none with | .ok (o, _, _) => some (o.ground.map fun (r : Rect ℚ) => (r.cx, r.cy, r.w, r.h)) | .error _ => none)

#print axioms die_verdict_any_history
#check @die_verdict_history_indep

import FV.Props.C09
open FV FV.Legal FV.C09

#print axioms FV.C09.system_sound_slack
#print axioms FV.C09.Witness.W_bad_met

-- (1) a per-clause contrapositive with explicit margin is a 3-line corollary, but is NOT in Props/C09
theorem reject_left_of_die (P : Params ℝ) (mods : List (InModule ℝ)) (c : Cfg) (e t : ℝ)
    (he : 0 ≤ e) (ht : 0 ≤ t) (hpos : Pos mods c) (m : Nat) (M : InModule ℝ) (i : Nat)
    (hM : mods[m]? = some M) (hi : i < (split M.rects).c)
    (hv : xmin (c m i) < -(e + t)) : ¬ AllMet P mods c e t := by
  intro h
  have := ((system_sound_slack P mods c e t he ht hpos h).modules m M hM).inDie i hi
  unfold InDieS at this; linarith [this.1]

theorem reject_fixed_moved (P : Params ℝ) (mods : List (InModule ℝ)) (c : Cfg) (e t : ℝ)
    (he : 0 ≤ e) (ht : 0 ≤ t) (hpos : Pos mods c) (m : Nat) (M : InModule ℝ)
    (hM : mods[m]? = some M) (hf : M.fixed = true)
    (hv : e + t < |(c m 0).x - (split M.rects).trunk.x|) : ¬ AllMet P mods c e t := by
  intro h
  have := ((system_sound_slack P mods c e t he ht hpos h).fixed m M hM hf).1
  linarith

-- (2) rejection at the REAL initial slack 0.27 (Props only rejects at slack 0)
open Witness in
example : ¬ AllMet Witness.P Witness.mods Witness.cBad (27/100) (1/1000000) :=
  reject_fixed_moved _ _ _ _ _ (by norm_num) (by norm_num) hposBad 2 M2 (by simp [Witness.mods]) (by simp [M2])
    (by simp [s2, cBad]; norm_num)

-- (3) the aspect clause of LegalS is in equation units and becomes trivially true once δ ≥ 10·thin(r,1)
example (r δ : ℝ) (q : Box ℝ) (hw : 0 < q.w) (hh : 0 < q.h) (h : thinV r 1 * 10 ≤ δ) : AspectS r δ q := by
  unfold AspectS
  have : 0 ≤ thinV q.w q.h := by unfold thinV; positivity
  linarith

-- (4) Legal / LegalS themselves do not say sizes are positive: a box of NEGATIVE size is "InDie" and "AspectOK"
example : InDie ⟨10, 10, 3⟩ ⟨5, 5, -2, -2⟩ ∧ AspectOK 3 ⟨5, 5, -2, -2⟩ := by
  unfold InDie AspectOK xmin xmax ymin ymax; norm_num

import sys
sys.path.insert(0, "/verif/harness")
import vcheck
from legal_common import Built, cleanup
from tools.legalfloor import expression_tree as et, legalfloor as lf
Y = """
Modules: {
  A: { area: 4, rectangles: [[3, 3, 2, 2]] },
  B: { area: 4, rectangles: [[7, 7, 2, 2]] }
}
Nets: [[A, B]]
"""
import io, contextlib
from frame.netlist.netlist import Netlist
nl = Netlist(Y)
u = lf.netlist_to_utils(nl)
with contextlib.redirect_stdout(io.StringIO()):
    M = lf.Model(u[0],u[1],u[2],u[3],u[4],u[5],10.0,10.0,u[6],3.0,u[7],0.9,0.3,1)
print("real process-wide epsilon after Model(...):", et.get_epsilon())
B = Built(Y, 10.0, 10.0, 3.0)
print("epsilon after harness Built(...):", et.get_epsilon())
# A placed exactly on top of B, but with NEGATIVE width and height
B.assign([[(7.0, 7.0, -2.0, -2.0)], [(7.0, 7.0, 2.0, 2.0)]])
obs = B.observe()
print("negative-size A on top of B: unmet =", [(g, e.name) for (g, e), o in zip(B.eqs, obs) if not o[2]])
B.assign([[(7.0, 7.0, 2.0, 2.0)], [(7.0, 7.0, 2.0, 2.0)]])
obs = B.observe()
print("positive-size A on top of B: unmet =", [(g, e.name) for (g, e), o in zip(B.eqs, obs) if not o[2]])
cleanup()

import sys, random, collections
sys.path.insert(0, "/verif/harness"); sys.path.insert(0, "/verif/harness/props")
import vcheck, c09
from legal_common import Built, cleanup
rng = random.Random("C09-0"); C = collections.Counter()
for it in range(60):
    inst = c09.gen_instance(rng)
    B = Built(c09.yaml_of(inst), float(inst["dw_lat"]*inst["s"]), float(inst["dh_lat"]*inst["s"]), inst["r"])
    for m in B.inmods:
        locs = "".join(r[4] for r in m["rects"])
        C["trunk-first" if locs[0]=="T" else "trunk-not-first"] += 1
        # sides interleaved (e.g. N after S) in netlist order?
        order = [ "TNSEW".index(c) for c in locs]
        C["netlist-order-already-T,N,S,E,W" if order==sorted(order) else "netlist-order-differs-from-model-order"] += 1
    cleanup()
print(C)

import sys
sys.path.insert(0, "/repo")
from frame.netlist.netlist import Netlist
Y = """
Modules: {
  A: { rectangles: [[9, 5, 2, 2], [7, 8, 2, 2], [5, 5, 6, 4]], hard: true },
  B: { area: 4, rectangles: [[15, 15, 2, 2]] }
}
Nets: [[A, B]]
"""
nl = Netlist(Y)
for m in nl.modules:
    print(m.name, [(r.center.x, r.center.y, r.shape.w, r.shape.h, r.location.name) for r in m.rectangles])

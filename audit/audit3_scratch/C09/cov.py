import sys, os, random, collections
sys.path.insert(0, "/verif/harness"); sys.path.insert(0, "/verif/harness/props")
os.environ.setdefault("FRAME_REPO", "/repo")
import vcheck
import c09
from legal_common import Built, cleanup
from tools.legalfloor import expression_tree as et
rng = random.Random("C09-0")
C = collections.Counter()
epsvals = set()
for it in range(120):
    inst = c09.gen_instance(rng)
    inp = {"yaml": c09.yaml_of(inst), "dw": float(inst["dw_lat"]*inst["s"]), "dh": float(inst["dh_lat"]*inst["s"]), "r": inst["r"]}
    B = Built(inp["yaml"], inp["dw"], inp["dh"], inp["r"])
    epsvals.add(et.epsilon.evaluate())
    orders = [c09.model_order(m) for m in B.inmods]
    if not all(o is not None for o in orders):
        C["not-stog"] += 1; cleanup(); continue
    for m, o in zip(B.inmods, orders):
        kind = "soft" if not m["hard"] else ("fixed" if m["fixed"] else "hard")
        sides = o[1]
        C["mod:%s:nrect=%s" % (kind, "1" if len(sides)==1 else ("2" if len(sides)==2 else "3+"))] += 1
        for sd in "NSEW":
            if sides.count(sd) >= 2: C["mod:%s:side%s>=2" % (kind, sd)] += 1
    base = c09.input_cfg(B, orders)
    for what, cfg in c09.variants(rng, B, orders, base, 14):
        st = c09.legal_status(B, orders, cfg)
        viol = sorted(g for g, s in st.items() if s == "viol")
        parts = what.split(":")
        if len(parts) == 3:
            op, sd, kind = parts
            if len(viol) == 1:
                C["single:%s:%s:%s" % (viol[0], sd, kind)] += 1
        else:
            if len(viol) == 1: C["single:%s:whole-module-move" % viol[0]] += 1
        if len(viol) == 1: C["SINGLE:" + viol[0]] += 1
        if not viol and all(s=="ok" for s in st.values()): C["LEGAL"] += 1
        # negative coords
        if any(b[0]-b[2]/2 < 0 or b[1]-b[3]/2 < 0 for bs in cfg for b in bs): C["cfg-neg-coord"] += 1
    cleanup()
print("eps values seen after Built:", epsvals)
for k, v in sorted(C.items()): print(v, k)

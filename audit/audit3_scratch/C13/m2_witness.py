import sys, os
sys.path.insert(0, os.environ.get("FRAME_REPO", "/repo"))
from frame.netlist.netlist import Netlist
from frame.die.die import Die
from frame.geometry.geometry import Point
from tools.force import fruchterman_reingold as FR
nl = Netlist("Modules: {A: {area: 4.0, center: [11.0, 3.0]}}\n")
die = Die("8x6", nl)
d,_ = FR.force_algorithm(die, max_iter=5)
print("single movable module starting outside:", [(m.center.x, m.center.y) for m in d.netlist.modules])
nl = Netlist("Modules: {A: {area: 4.0, center: [2.0, 3.0]}, T: {terminal: true, center: [-1.0, 7.5]}}\n")
die = Die("8x6", nl)
d,_ = FR.fruchterman_reingold_layout(die, 1.0, max_iter=5)
print("movable terminal outside, no net:", [(m.name, m.center.x, m.center.y) for m in d.netlist.modules])

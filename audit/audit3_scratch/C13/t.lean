import FV.Props.C13
open FV FV.Force FV.C13

-- apply the headline theorems to instQ
example (out : Inst Rat Unit) (h : forceAlgorithm opsQ discQ instQ 2 = .ok out) :
    ∃ cOut, cost opsQ discQ out = .ok cOut ∧
      ∀ kp ∈ (kappas : List Rat), ∀ l c, frLayout opsQ instQ kp 2 = .ok l → cost opsQ discQ l = .ok c → cOut ≤ c :=
  best_kappa_minimal opsQ discQ instQ 2 out (fun _ => rfl) h

example (out : Inst Rat Unit) (h : frLayout opsQ instQ 1 0 = .ok out) :
    ∃ c, out.mods[2]? = some ⟨some c, 1, false, ()⟩ ∧ InDie (8 : Rat) 6 c :=
  centres_inside_die opsQ instQ 1 0 out h 2 _ rfl (by decide) (by decide)
    (by intro c hc; cases hc; simp [InDie, instQ]; norm_num)

-- the cost table of instQ: are the costs all different (is the 'first strict minimum' exercised)?
#eval (kappas : List Rat).map fun kp => (kp, match costOf opsQ discQ instQ 2 kp with | .ok c => (c : Rat) | .error _ => -1)
#eval match bestKappa opsQ discQ instQ kappas 2 with | .ok (some b) => b | _ => (0,0)

-- missing centre instance: forceAlgorithm ok?
def instN : Inst Rat Unit :=
  { W := 8, H := 6, mods := [⟨none, 4, true, ()⟩, ⟨some (9, 7), 2, false, ()⟩], nets := [⟨[0, 1], 2⟩] }
#eval (forceAlgorithm opsQ discQ instN 0).toBool
#eval match frLayout opsQ instN 1 0 with | .ok o => o.mods.map (·.center) | _ => []
-- ltInf false everywhere: what does forceAlgorithm do
def opsNaN : Ops Rat := { opsQ with ltInf := fun _ => false }
#eval match forceAlgorithm opsNaN discQ instQ 2 with | .ok _ => "ok" | .error e => e.toStr
#eval match forceAlgorithm opsNaN discQ instQ 0 with | .ok _ => "ok" | .error e => e.toStr
#print axioms best_kappa_minimal
#print axioms centres_inside_die
#print axioms clamp_total_any_order

import FV.Props.C13
open FV FV.Force FV.C13
variable {α : Type} [Field α] [LinearOrder α] [IsStrictOrderedRing α] {β : Type}

-- derivable corollaries that are NOT stated in Props/C13.lean
theorem force_fixed_unmoved (o : Ops α) (disc) (inst : Inst α β) (maxIter : Nat) (out : Inst α β)
    (hlt : ∀ x, o.ltInf x = true) (h : forceAlgorithm o disc inst maxIter = .ok out) (v : Nat) (m : Mod α β) (c : Pt α)
    (hm : inst.mods[v]? = some m) (hf : m.fixed = true) (hc : m.center = some c) : out.mods[v]? = some m := by
  obtain ⟨_, _, _, b, _, _, _, _, _, ho⟩ := best_kappa o disc inst maxIter out hlt h
  exact fixed_unmoved o inst b.1 maxIter out ho v m c hm hf hc

-- what happens WITHOUT hlt: (ltInf false) the theorems say nothing; model returns kappa=0 layout when maxIter = 0
def opsNaN : Ops Rat := { opsQ with ltInf := fun _ => false }
#eval match forceAlgorithm opsNaN discQ instQ 0 with | .ok o => o.mods.map (fun m => m.center) | .error e => []

import sys, os
sys.path.insert(0, "/repo")
from frame.netlist.netlist import Netlist
from frame.die.die import Die
from tools.force import fruchterman_reingold as FR
txt = "Modules: {A: {area: 4.0, center: [2.0, 3.0]}, B: {area: 3.0, center: [2.5, 3.0]}, T: {terminal: true, fixed: true, center: [0.0, 4.5]}}\nNets: [[A, B, T]]\n"
def run(vis, it):
    die = Die("8x6", Netlist(txt))
    d, imgs = FR.force_algorithm(die, max_iter=it, visualize=vis)
    return [(m.center.x, m.center.y) for m in d.netlist.modules], len(imgs)
for it in (0, 3):
    a = run(None, it); b = run("x", it)
    print(it, a[0] == b[0], a[1], b[1])

import sys
sys.path.insert(0, "/repo")
from frame.netlist.netlist import Netlist
from frame.die.die import Die
from frame.geometry.geometry import Point
from tools.force import fruchterman_reingold as FR
def f(x):
    m, e = f"{x:.6e}".split("e"); return f"{m}e{int(e):+d}"
for S in (1.5e150, 1.5e153, 1.5e155, 1.5e160, 1.5e-160):
    try:
        nl = Netlist(f"Modules: {{A: {{area: {f(S*S/10)}, center: [{f(S*0.2)}, {f(S*0.3)}]}}, B: {{area: {f(S*S/10)}, center: [{f(S*0.7)}, {f(S*0.6)}]}}}}\nNets: [[A, B]]\n")
        die = Die(f"{f(S)}x{f(S)}", nl)
    except Exception as ex:
        print(S, "BUILD", type(ex).__name__, ex); continue
    try:
        d, _ = FR.fruchterman_reingold_layout(die, 1.0, max_iter=3)
        print(S, "ok", [(m.center.x, m.center.y) for m in d.netlist.modules])
    except Exception as ex:
        print(S, "RAISED", type(ex).__name__, ex)

import FV.Props.C10
import FV.Props.C02
open FV FV.Glb FV.Alloc FV.C10

def die0 : Rect ℚ := ⟨2, 1, 4, 2, "_", false, false, .nopoly⟩
def st0 : Eps ℚ := ⟨1/1000000, 1/1000⟩
def wS : Glb.Module ℚ := ⟨"S", false, false, false, 1, 1, []⟩
def wMods : List (Glb.Module ℚ) := [wS, exH]
def wRaw : List (RawCell ℚ) :=
  [⟨.obj ⟨1, 1, 2, 2, "_", false, false, .nopoly⟩, [("S", 1/2)], 0⟩,
   ⟨.obj ⟨3, 1, 2, 2, "_", false, false, .nopoly⟩, [("H", 1/2)], 0⟩]
def wSolve : AState ℚ → Option (Answer ℚ) := fun _ => some exAns

theorem mk_ok : ∃ a st, mkAllocation exEnvA st0 wRaw = .ok (a, st) ∧
    (a.cells.all fun c => c.rect.isInside die0) = true ∧
    (glbfloorA exEnvA wSolve (9/10) (some 2) 5 ⟨a, st, wMods⟩).isSome = true ∧
    ((optimizeA exEnvA wSolve (9/10) ⟨a, st, wMods⟩).map (mustRefineA (9/10))) = some true := by
  have h : (match mkAllocation exEnvA st0 wRaw with
    | .ok (a, st) => (a.cells.all fun c => c.rect.isInside die0) &&
        (glbfloorA exEnvA wSolve (9/10) (some 2) 5 ⟨a, st, wMods⟩).isSome &&
        (((optimizeA exEnvA wSolve (9/10) ⟨a, st, wMods⟩).map (mustRefineA (9/10))) == some true)
    | .error _ => false) = true := by decide +kernel
  cases hh : mkAllocation exEnvA st0 wRaw with
  | error e => rw [hh] at h; cases h
  | ok p =>
    obtain ⟨a, st⟩ := p
    rw [hh] at h
    simp only [Bool.and_eq_true, beq_iff_eq] at h
    exact ⟨a, st, rfl, h.1.1, h.1.2, h.2⟩

theorem names_of_inv (init o : AState ℚ) (hm : init.mods = wMods) (h : List.Forall₂ ModRel init.mods o.mods) :
    ∃ m1 m2, o.mods = [m1, m2] ∧ m1.name = "S" ∧ m2.name = "H" ∧ m1.fixed = false ∧ m2.fixed = false := by
  rw [hm] at h
  unfold wMods at h
  generalize o.mods = l at h
  cases h with
  | cons h1 h2 =>
    cases h2 with
    | cons h3 h4 =>
      cases h4
      exact ⟨_, _, rfl, h1.1, h3.1, h1.2.2.1, h3.2.2.1⟩

theorem wSolverOK (init : AState ℚ) (hm : init.mods = wMods) : SolverOK wSolve 0 die0 init := by
  intro o ans hinv hs
  simp only [wSolve, Option.some.injEq] at hs
  subst hs
  obtain ⟨m1, m2, ho, n1, n2, f1, f2⟩ := names_of_inv init o hm hinv.mods
  refine ⟨⟨?_, ?_, ?_⟩, ?_⟩
  · intro m _ c _
    unfold exAns; simp only
    split_ifs <;> norm_num
  · intro c _
    rw [ho]
    simp only [List.map_cons, List.map_nil, List.sum_cons, List.sum_nil, n1, n2, exAns]
    have e1 : ("S" = "F") = False := by decide
    have e2 : ("H" = "F") = False := by decide
    have e3 : ("H" = "S") = False := by decide
    simp only [e1, e2, e3, if_false, if_true]
    split_ifs <;> norm_num
  · intro m _
    unfold exAns InDie die0
    simp only [Rect.xmin, Rect.xmax, Rect.ymin, Rect.ymax]
    split_ifs <;> norm_num
  · intro f hf hfx
    rw [ho] at hf
    simp only [List.mem_cons, List.not_mem_nil, or_false] at hf
    rcases hf with rfl | rfl
    · rw [f1] at hfx; cases hfx
    · rw [f2] at hfx; cases hfx

example : True := by
  obtain ⟨a, st, hmk, hin, hrun, href⟩ := mk_ok
  have hv : ValidAlloc st a := FV.C02.constructor_valid exEnvA st0 wRaw a st
    (by intro rc hrc; simp [wRaw] at hrc; rcases hrc with rfl | rfl <;> simp [RawPos])
    (by intro _; simp [st0]) (by simp [exEnvA]) (by intro x; simp [exEnvA]) hmk
  obtain ⟨r, hr⟩ := Option.isSome_iff_exists.mp hrun
  have hin' : ∀ c ∈ (⟨a, st, wMods⟩ : AState ℚ).alloc.cells, c.rect.isInside die0 = true := by
    simpa [List.all_eq_true] using hin
  have := glbfloor_correct exEnvA wSolve (9/10) 0 die0 (some 2) 5 ⟨a, st, wMods⟩ r hv hin'
    (by intro f hf hfx; simp [wMods, wS, exH] at hf; rcases hf with rfl | rfl <;> simp at hfx)
    (by intro f hf hfx; simp [wMods, wS, exH] at hf; rcases hf with rfl | rfl <;> simp at hfx)
    (by norm_num) (le_refl _) (by norm_num) (by simp) (wSolverOK _ rfl) hr
  trivial

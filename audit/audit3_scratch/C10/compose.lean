import FV.Props.C03
import FV.Props.C10
open FV

variable {α : Type} [Field α] [LinearOrder α] [IsStrictOrderedRing α]

#check @FV.C03.initial_allocation_is_glb_start
#check @FV.C10.glbfloor_correct
#print FV.InitAlloc.GlbModsOf
#print FV.Glb.FixedOwn

-- does the conclusion of the bridge feed glbfloor_correct literally?
example (env : Alloc.Env α) (st : Alloc.Eps α) (a : Alloc.Allocation α) (gmods : List (Glb.Module α)) (die : Rect α)
    (solve : Glb.AState α → Option (Glb.Answer α)) (thr tol : α) (maxIter : Option Nat) (fuel : Nat) (r : Glb.AState α)
    (H : Alloc.ValidAlloc (Glb.AState.mk a st gmods).eps (Glb.AState.mk a st gmods).alloc ∧
            (∀ c ∈ (Glb.AState.mk a st gmods).alloc.cells, c.rect.isInside die = true) ∧
            (∀ f ∈ (Glb.AState.mk a st gmods).mods, f.fixed = true →
              Glb.FixedOwn ((Glb.AState.mk a st gmods).alloc.cells.map Glb.ofCell) f) ∧
            (∀ f ∈ (Glb.AState.mk a st gmods).mods, f.fixed = true →
              die.xmin ≤ f.cx ∧ f.cx ≤ die.xmax ∧ die.ymin ≤ f.cy ∧ f.cy ≤ die.ymax))
    (hthr : 0 < thr) (htol0 : 0 ≤ tol) (htol : tol ≤ 1 - thr) (hlim : maxIter ≠ some 0)
    (hsol : C10.SolverOK solve tol die ⟨a, st, gmods⟩)
    (h : Glb.glbfloorA env solve thr maxIter fuel ⟨a, st, gmods⟩ = some r) :
    C10.CellsFeasible die st.area r :=
  (C10.glbfloor_correct env solve thr tol die maxIter fuel ⟨a, st, gmods⟩ r H.1 H.2.1 H.2.2.1 H.2.2.2 hthr htol0 htol hlim hsol h).1

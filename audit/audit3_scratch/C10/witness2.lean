import FV.Props.C10
import FV.Props.C02
open FV FV.Glb FV.Alloc FV.C10

/-! applied witness of `glbfloor_correct` WITH a fixed module, a state-dependent solver that answers, and a refine pass -/

def die0 : Rect ℚ := ⟨2, 1, 4, 2, "_", false, false, .nopoly⟩
def st0 : Eps ℚ := ⟨1/1000000, 1/1000⟩
def wS : Glb.Module ℚ := ⟨"S", false, false, false, 1, 1, []⟩
def wMods : List (Glb.Module ℚ) := [wS, exF]

def aF (o : AState ℚ) (c : Nat) : ℚ := (getA (o.alloc.cells.map ofCell) exF c).getD 0
def wAns (o : AState ℚ) : Answer ℚ where
  a := fun n c => if n = "F" then aF o c else if n = "S" then (1 - aF o c) / 2 else 0
  x := fun n => if n = "F" then 3 else 1
  y := fun _ => 1
def wSolve : AState ℚ → Option (Answer ℚ) := fun o => some (wAns o)

def ownB (ra : RectAlloc ℚ) : Bool :=
  ra.alloc == [("F", 1)] || ((ra.alloc.lookup "F").isNone && exF.rects.all fun r => ra.rect.areaOverlap r == 0)

theorem mk_ok : ∃ a st, mkAllocation exEnvA st0 exRawA = .ok (a, st) ∧
    (a.cells.all fun c => c.rect.isInside die0) = true ∧
    ((a.cells.map ofCell).all ownB) = true ∧
    (glbfloorA exEnvA wSolve (9/10) (some 2) 5 ⟨a, st, wMods⟩).isSome = true ∧
    ((optimizeA exEnvA wSolve (9/10) ⟨a, st, wMods⟩).map (mustRefineA (9/10))) = some true := by
  have h : (match mkAllocation exEnvA st0 exRawA with
    | .ok (a, st) => (a.cells.all fun c => c.rect.isInside die0) && ((a.cells.map ofCell).all ownB) &&
        (glbfloorA exEnvA wSolve (9/10) (some 2) 5 ⟨a, st, wMods⟩).isSome &&
        (((optimizeA exEnvA wSolve (9/10) ⟨a, st, wMods⟩).map (mustRefineA (9/10))) == some true)
    | .error _ => false) = true := by decide +kernel
  cases hh : mkAllocation exEnvA st0 exRawA with
  | error e => rw [hh] at h; cases h
  | ok p =>
    obtain ⟨a, st⟩ := p
    rw [hh] at h
    simp only [Bool.and_eq_true, beq_iff_eq] at h
    exact ⟨a, st, rfl, h.1.1.1, h.1.1.2, h.1.2, h.2⟩

theorem mods_of_inv (init o : AState ℚ) (hm : init.mods = wMods) (hinv : GlbInv die0 init o) :
    ∃ m1, o.mods = [m1, exF] ∧ m1.name = "S" ∧ m1.fixed = false := by
  have h := hinv.mods
  have hF := (hinv.fixed exF (by rw [hm]; simp [wMods]) rfl).1
  rw [hm] at h
  unfold wMods at h
  generalize o.mods = l at h hF
  cases h with
  | cons h1 h2 =>
    cases h2 with
    | cons h3 h4 =>
      cases h4
      rename_i m1 m2
      simp only [List.mem_cons, List.not_mem_nil, or_false] at hF
      rcases hF with e | e
      · have := h1.1; rw [← e] at this; simp [exF, wS] at this
      · subst e; exact ⟨_, rfl, h1.1, h1.2.2.1⟩

theorem aF_cases (init o : AState ℚ) (hm : init.mods = wMods) (hinv : GlbInv die0 init o) (c : Nat) :
    aF o c = 1 ∨ aF o c = 0 := by
  have hown := (hinv.fixed exF (by rw [hm]; simp [wMods]) rfl).2.1
  unfold aF
  cases hg : getA (o.alloc.cells.map ofCell) exF c with
  | none => right; rfl
  | some v =>
    rcases offeredFixed_of_fixedOwn _ _ hown c v hg with h | h
    · left; simp [h]
    · right; simp [h]

theorem wSolverOK (init : AState ℚ) (hm : init.mods = wMods) : SolverOK wSolve 0 die0 init := by
  intro o ans hinv hs
  simp only [wSolve, Option.some.injEq] at hs
  subst hs
  obtain ⟨m1, ho, n1, f1⟩ := mods_of_inv init o hm hinv
  have hc := aF_cases init o hm hinv
  refine ⟨⟨?_, ?_, ?_⟩, ?_⟩
  · intro m hmm c _
    rw [ho] at hmm
    simp only [List.mem_cons, List.not_mem_nil, or_false] at hmm
    rcases hmm with rfl | rfl
    · simp only [wAns, n1]
      have e1 : ("S" = "F") = False := by decide
      simp only [e1, if_false, if_true]
      rcases hc c with h | h <;> rw [h] <;> norm_num
    · simp only [wAns, exF, if_true]
      rcases hc c with h | h <;> rw [h] <;> norm_num
  · intro c _
    rw [ho]
    simp only [List.map_cons, List.map_nil, List.sum_cons, List.sum_nil, n1, wAns, exF]
    have e1 : ("S" = "F") = False := by decide
    simp only [e1, if_false, if_true]
    rcases hc c with h | h <;> rw [h] <;> norm_num
  · intro m hmm
    unfold wAns InDie die0
    simp only [Rect.xmin, Rect.xmax, Rect.ymin, Rect.ymax]
    split_ifs <;> norm_num
  · intro f hf hfx
    rw [ho] at hf
    simp only [List.mem_cons, List.not_mem_nil, or_false] at hf
    rcases hf with rfl | rfl
    · rw [f1] at hfx; cases hfx
    · refine ⟨?_, ?_, ?_⟩
      · intro c v hv
        simp only [wAns, exF, if_true]
        unfold aF
        rw [hv]; rfl
      · simp [wAns, exF]
      · simp [wAns, exF]

example : True := by
  obtain ⟨a, st, hmk, hin, hownb, hrun, href⟩ := mk_ok
  have hv : ValidAlloc st a := FV.C02.constructor_valid exEnvA st0 exRawA a st
    (by intro rc hrc; simp [exRawA] at hrc; rcases hrc with rfl | rfl <;> simp [RawPos])
    (by intro _; simp [st0]) (by simp [exEnvA]) (by intro x; simp [exEnvA]) hmk
  obtain ⟨r, hr⟩ := Option.isSome_iff_exists.mp hrun
  have hin' : ∀ c ∈ (⟨a, st, wMods⟩ : AState ℚ).alloc.cells, c.rect.isInside die0 = true := by
    simpa [List.all_eq_true] using hin
  have hown : ∀ f ∈ (⟨a, st, wMods⟩ : AState ℚ).mods, f.fixed = true →
      FixedOwn ((⟨a, st, wMods⟩ : AState ℚ).alloc.cells.map ofCell) f := by
    intro f hf hfx
    simp only [wMods, List.mem_cons, List.not_mem_nil, or_false] at hf
    rcases hf with rfl | rfl
    · simp [wS] at hfx
    · intro ra hra
      have := List.all_eq_true.mp hownb ra hra
      unfold ownB at this
      simp only [Bool.or_eq_true, Bool.and_eq_true, beq_iff_eq, Option.isNone_iff_eq_none, List.all_eq_true] at this
      rcases this with h | ⟨h1, h2⟩
      · left; simpa [exF] using h
      · right; exact ⟨by simpa [exF] using h1, fun r hr => h2 r hr⟩
  have := glbfloor_correct exEnvA wSolve (9/10) 0 die0 (some 2) 5 ⟨a, st, wMods⟩ r hv hin' hown
    (by intro f hf hfx
        simp only [wMods, List.mem_cons, List.not_mem_nil, or_false] at hf
        rcases hf with rfl | rfl
        · simp [wS] at hfx
        · simp [InDie, die0, exF, Rect.xmin, Rect.xmax, Rect.ymin, Rect.ymax]; norm_num)
    (by norm_num) (le_refl _) (by norm_num) (by simp) (wSolverOK _ rfl) hr
  trivial

import FV.Props.C12
open FV FV.Alloc FV.Rect FV.C12

/-- witness layout of the open finding: A=[0,2]x[0,8]; eight right neighbours; top row split at x = 1/20 -/
def wRaw : List (RawCell ℚ) :=
  [⟨.vec 1 4 2 8 none, [("M1", 1/2)], 0⟩,
   ⟨.vec (5/2) (1/2) 1 1 none, [("M2", 1/4)], 0⟩, ⟨.vec (5/2) (3/2) 1 1 none, [("M2", 1/4)], 0⟩,
   ⟨.vec (5/2) (5/2) 1 1 none, [("M2", 1/4)], 0⟩, ⟨.vec (5/2) (7/2) 1 1 none, [("M2", 1/4)], 0⟩,
   ⟨.vec (1/40) (17/2) (1/20) 1 none, [], 0⟩, ⟨.vec (61/40) (17/2) (59/20) 1 none, [], 0⟩]

theorem wRaw_valid : ∃ a st, mkAllocation exEnv ⟨-1, -1⟩ wRaw = .ok (a, st) ∧ ValidAlloc st a := by
  apply valid_of_isOk
  · intro rc h; simp [wRaw] at h; rcases h with rfl | rfl | rfl | rfl | rfl | rfl | rfl <;> trivial
  · intro h; norm_num at h
  · norm_num [exEnv]
  · intro x; norm_num [exEnv]
  · decide +kernel

def sepB (ε : ℚ) (l : List ℚ) : Bool := l.all fun u => l.all fun v => !(decide (u < v)) || decide (u + ε < v)
theorem sepB_sound (ε : ℚ) (l : List ℚ) (h : sepB ε l = true) : Separated ε l := by
  intro u hu v hv huv
  simp only [sepB, List.all_eq_true, Bool.or_eq_true, Bool.not_eq_true', decide_eq_false_iff_not, decide_eq_true_eq] at h
  rcases h u hu v hv with h | h
  · exact absurd huv h
  · exact h

/-- griddify_no_crossing_y APPLIED (all hypotheses discharged) to a layout on which griddify really cuts -/
example : ∃ a st a', mkAllocation exEnv ⟨-1, -1⟩ wRaw = .ok (a, st) ∧ griddify exEnv st a = .ok (a', st) ∧
    a.cells.length < a'.cells.length ∧
    ∀ d ∈ a'.cells, d.rect.fixed = false → ∀ e ∈ a'.cells,
      d.rect.yCuttable e.rect.ymin exEnv.rho = false ∧ d.rect.yCuttable e.rect.ymax exEnv.rho = false := by
  obtain ⟨a, st, h, hv⟩ := wRaw_valid
  have hs : Separated st.dist (sidesY (a.cells.map (·.rect))) := by
    apply sepB_sound
    have hc : (match mkAllocation exEnv ⟨-1, -1⟩ wRaw with
        | .ok (a, st) => sepB st.dist (sidesY (a.cells.map (·.rect))) | .error _ => false) = true := by decide +kernel
    rw [h] at hc; exact hc
  obtain ⟨a', h1, h2⟩ := griddify_no_crossing_y exEnv st a hv hs
  refine ⟨a, st, a', h, h1, ?_, h2⟩
  have hc : (match mkAllocation exEnv ⟨-1, -1⟩ wRaw with
      | .ok (a, st) => (match griddify exEnv st a with | .ok (b, _) => decide (a.cells.length < b.cells.length) | .error _ => false)
      | .error _ => false) = true := by decide +kernel
  rw [h] at hc; simp only [h1] at hc; simpa using hc

/-- and the x statement WITHOUT `hh` is false in the model on the same layout (so `_partial` cannot be strengthened) -/
example : (match mkAllocation exEnv ⟨-1, -1⟩ wRaw with
    | .ok (a, st) => (match griddify exEnv st a with
        | .ok (b, _) => b.cells.any fun d => !d.rect.fixed && b.cells.any fun e => d.rect.xCuttable e.rect.xmin exEnv.rho
        | .error _ => false)
    | .error _ => false) = true := by decide +kernel

/-- bare_loop_never_stabilises applied -/
example : ∃ a st b, mkAllocation exEnv ⟨-1, -1⟩ exRaw = .ok (a, st) ∧ refine exEnv st a (1/2) 1 = .ok (b, st) ∧
    ValidAlloc st b ∧ mustBeRefined b (1/2) = true := by
  obtain ⟨a, st, b, h, _, hm, _, _⟩ := ex_refine
  obtain ⟨a2, st2, h2, hv⟩ := ex_valid
  rw [h] at h2; injection h2 with h2; injection h2 with ha hs; subst ha; subst hs
  obtain ⟨b', r1, r2, _, r4⟩ := bare_loop_never_stabilises exEnv st a (1/2) 1 hv (by norm_num) hm
  exact ⟨a, st, b', h, r1, r2, r4⟩

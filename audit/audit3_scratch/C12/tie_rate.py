import sys, random
sys.path.insert(0, '/verif/harness')
import vcheck, alloc_common as ac
from vcheck import ulp_nudge, run_driver
rng = random.Random(12345)
tot = valid = swallowed = ctor_err = 0
reqs_all = []
cases = []
for n in range(400):
    inp = ac.gen_input(rng, 'F', 'c12')
    segs, steps, sq = ac.run_impl(inp, rng, 'c12', 3)
    if segs[0].startswith('err') or len(segs) < 2:
        continue
    base = ac.request(inp, sq)
    nud = []
    for fld in (2, 3):
        for k in (-4, 4):
            v = dict(inp)
            v['cells'] = [dict(c, v=[(ulp_nudge(x, k) if j == fld else x) for j, x in enumerate(c['v'])]) for c in inp['cells']]
            nud.append(ac.request(v, sq))
    cases.append((inp, base, nud))
reps = run_driver([c[1] for c in cases] + [r for c in cases for r in c[2]], 'drv_alloc')
nb = len(cases)
for idx, (inp, base, nud) in enumerate(cases):
    m = reps[idx].split(' ;; ')
    sw = False; ce = False
    for q in range(4):
        r = reps[nb + 4 * idx + q].split(' ;; ')
        if r[0].startswith('err'):
            ce = True
        a = r[1] if len(r) > 1 else '<missing>'
        b = m[1] if len(m) > 1 else '<missing>'
        if not ac.seg_close(a, b, 'F', 1e-6)[0]:
            sw = True
    valid += 1; swallowed += sw; ctor_err += ce
print('valid F inputs with >=1 op:', valid, ' _is_tie(i=1) would be True (model vs itself):', swallowed, ' because nudged input is rejected by the constructor:', ctor_err)

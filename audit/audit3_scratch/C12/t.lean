import FV.Props.C12
open FV FV.Alloc FV.Rect FV.C12

#print axioms FV.C12.bare_loop_never_stabilises
#print axioms FV.C12.griddify_no_crossing_y
#print axioms FV.C12.griddify_aligned_x_parent

-- what does griddify do on exRaw?
def gridOf (raw : List (RawCell ℚ)) : List (ℚ × ℚ × ℚ × ℚ × Bool × Nat) :=
  match mkAllocation exEnv ⟨-1, -1⟩ raw with
  | .ok (a, st) => (match griddify exEnv st a with
      | .ok (b, _) => b.cells.map (fun c => (c.rect.xmin, c.rect.xmax, c.rect.ymin, c.rect.ymax, c.rect.fixed, c.depth))
      | .error _ => [])
  | .error _ => []
#eval gridOf exRaw
#eval gridOf exRawF

-- witness of the open finding in the MODEL: A=[0,2]x[0,8]; right neighbours [2,3]x[k,k+1]; top row split at x = 1/20
def wRaw : List (RawCell ℚ) :=
  [⟨.vec 1 4 2 8 none, [("M1", 1/2)], 0⟩] ++
  ((List.range 8).map fun k => ⟨.vec (5/2) ((k : ℚ) + 1/2) 1 1 none, [("M2", 1/4)], 0⟩) ++
  [⟨.vec (1/40) (17/2) (1/20) 1 none, [], 0⟩, ⟨.vec (1/20 + 59/40) (17/2) (59/20) 1 none, [], 0⟩]
#eval gridOf wRaw
-- after griddify, is some refinable cell x-cuttable at a side line of another result cell?
def crossX (raw : List (RawCell ℚ)) : Bool :=
  match mkAllocation exEnv ⟨-1, -1⟩ raw with
  | .ok (a, st) => (match griddify exEnv st a with
      | .ok (b, _) => b.cells.any fun d => !d.rect.fixed && b.cells.any fun e =>
          d.rect.xCuttable e.rect.xmin exEnv.rho || d.rect.xCuttable e.rect.xmax exEnv.rho
      | .error _ => false)
  | .error _ => false
def crossY (raw : List (RawCell ℚ)) : Bool :=
  match mkAllocation exEnv ⟨-1, -1⟩ raw with
  | .ok (a, st) => (match griddify exEnv st a with
      | .ok (b, _) => b.cells.any fun d => !d.rect.fixed && b.cells.any fun e =>
          d.rect.yCuttable e.rect.ymin exEnv.rho || d.rect.yCuttable e.rect.ymax exEnv.rho
      | .error _ => false)
  | .error _ => false
#eval (crossX wRaw, crossY wRaw, crossX exRaw, crossY exRaw)

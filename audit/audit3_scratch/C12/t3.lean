import FV.Props.C12
open FV FV.Alloc FV.Rect FV.C12
variable {α : Type} [Field α] [LinearOrder α] [IsStrictOrderedRing α]

/-- k-step corollary the file does not state: the bare loop NEVER exits (every one of the k+1 recorded guards is true). -/
theorem bare_loop_diverges (env : Env α) (st : Eps α) (t : α) : ∀ (k : Nat) (a : Allocation α),
    ValidAlloc st a → mustBeRefined a t = true →
    (bareLoopTrace env st t k a).length = k + 1 ∧ ∀ p ∈ bareLoopTrace env st t k a, p.1 = true := by
  intro k
  induction k with
  | zero => intro a _ hm; simp [bareLoopTrace, hm]
  | succ k ih =>
    intro a hv hm
    obtain ⟨b, h1, hvb, _, hmb⟩ := bare_loop_never_stabilises env st a t 1 hv (by norm_num) hm
    obtain ⟨l1, l2⟩ := ih b hvb hmb
    simp only [bareLoopTrace, h1, List.length_cons, l1, List.mem_cons, true_and]
    intro p hp
    rcases hp with rfl | hp
    · exact hm
    · exact l2 p hp

import sys, json, os
sys.path.insert(0, '/verif/harness')
import vcheck, alloc_common as ac
from vcheck import ulp_nudge, run_driver
body = json.load(open(sys.argv[1]))
inp = dict(body['input'])
segs, steps, sq = ac.run_impl(inp)
req = ac.request(inp, sq)
rep = run_driver([req], 'drv_alloc')[0]
msegs = rep.split(' ;; ')
for i,(s,m) in enumerate(zip(segs, msegs)):
    ok, exact = ac.seg_close(s, m, inp['mode'], 1e-9)
    print(i, 'close' if ok else 'DIFF', 'impl cells', s.split()[1] if s.startswith('ok') else s[:30], 'model cells', m.split()[1] if m.startswith('ok') else m[:30])
    if not ok:
        # reproduce _is_tie
        for fld in (2,3):
            for k in (-4,4):
                v = dict(inp)
                v['cells'] = [dict(c, v=[(ulp_nudge(x,k) if j==fld else x) for j,x in enumerate(c['v'])]) for c in inp['cells']]
                r = run_driver([ac.request(v, sq)], 'drv_alloc')[0].split(' ;; ')
                for j in range(1, i+1):
                    a = r[j] if j < len(r) else '<missing>'
                    if not ac.seg_close(a, msegs[j], 'F', 1e-6)[0]:
                        print('   nudge fld',fld,'k',k,'changes model seg',j,':', a[:80], '|| was', msegs[j][:60], '|| seg0:', r[0][:60])
        break

#!/usr/bin/env python3
"""Coordinator tool: commit one proposed repair to /repo as its own `fix:` commit and record it.

  apply_fix.py <property> <fixes/X.diff> <findings/X.py|-> "<what failed>" "<commit subject after 'fix: '>"

Steps: witness must exit 1 on the current tree; apply the diff; the repo's 46 tests must pass; witness must exit 0;
commit (only the files the diff touches); append a "fixed" record to known_findings.json.
"""
import json, os, subprocess, sys
pid, diff, wit, what, subject = sys.argv[1:6]
V = "/verif"
def sh(cmd, **kw):
    return subprocess.run(cmd, shell=True, capture_output=True, text=True, **kw)
assert sh("git -C /repo status --porcelain --untracked-files=no").stdout.strip() == "", "/repo dirty"
env = dict(os.environ, FRAME_REPO="/repo", PYTHONPATH="/repo")
def witness():
    if wit == "-":
        return None
    r = subprocess.run(["/venv/bin/python", os.path.join(V, wit)], cwd=V, env=env, capture_output=True, text=True, timeout=900)
    return r.returncode, (r.stdout + r.stderr)[-300:]
before = witness()
if before is not None and before[0] != 1:
    print("witness does not show the defect on the current tree:", before); sys.exit(1)
r = sh(f"git -C /repo apply {V}/{diff}")
if r.returncode != 0:
    print("patch does not apply:", r.stderr); sys.exit(1)
t = sh("cd /repo && /venv/bin/python -m pytest -q -p no:cacheprovider tests 2>&1 | tail -1")
after = witness()
ok = "46 passed" in t.stdout and "failed" not in t.stdout and (after is None or after[0] == 0)
print("tests:", t.stdout.strip(), "| witness before/after:", before and before[0], after and after[0])
if not ok:
    sh("git -C /repo checkout -- .")
    print("NOT committed", after); sys.exit(1)
files = [l[6:] for l in open(f"{V}/{diff}") if l.startswith("+++ b/")]
files = [f.strip() for f in files]
sh("git -C /repo add " + " ".join(files))
body = f"{what}\n\nProperty {pid}. Witness: verif findings/{os.path.basename(wit)}; diff: verif {diff}."
c = subprocess.run(["git", "-C", "/repo", "commit", "-q", "-m", f"fix: {subject}", "-m", body], capture_output=True, text=True)
assert c.returncode == 0, c.stderr
sha = sh("git -C /repo rev-parse --short HEAD").stdout.strip()
k = json.load(open(f"{V}/known_findings.json"))
k.append({"status": "fixed", "property": pid, "id": os.path.basename(diff)[:-5], "commit": sha, "what": what,
          "fixed": f"fixed: property={pid} {sha} {what}", "witness_script": None if wit == "-" else wit, "diff": diff})
json.dump(k, open(f"{V}/known_findings.json", "w"), indent=1)
print("committed", sha)

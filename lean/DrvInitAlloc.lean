import FV.Drv.InitAlloc
/-
  Line-protocol driver for the initial-allocation model (C03): `<mode> <op> <args…>` per line on stdin, one
  reply line on stdout.  Mode `F` runs the model at `Float` with `math.sqrt = Float.sqrt` (IEEE correctly
  rounded, as C `sqrt`); mode `Q` at `Rat` with the exact root `√(n/d) = √n/√d` (the harness only sends
  perfect squares on this stream and checks the side of every square it gets back).
-/
open FV FV.Drv

def ratSqrt (q : Rat) : Rat := mkRat (Int.ofNat (Nat.sqrt q.num.toNat)) (Nat.sqrt q.den)

def handle (line : String) : String :=
  match splitReq line with
  | some ("F", op, args) => (initAllocOp (α := Float) Float.sqrt op args).getD "bad-op"
  | some ("Q", op, args) => (initAllocOp (α := Rat) ratSqrt op args).getD "bad-op"
  | _ => "bad-op"

def main : IO Unit := mainLoop handle

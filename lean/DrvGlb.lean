import FV.Drv.Glb
/-
  Line-protocol driver for the global-floorplanning model (C10): `<mode> <op> <args…>` per line on stdin,
  one reply line on stdout.  Mode `F` runs the model at `Float`, mode `Q` at `Rat`.
-/
open FV FV.Drv

def handle (line : String) : String :=
  match splitReq line with
  | some ("F", op, args) => (glbOp (α := Float) op args).getD "bad-op"
  | some ("Q", op, args) => (glbOp (α := Rat) op args).getD "bad-op"
  | _ => "bad-op"

def main : IO Unit := mainLoop handle

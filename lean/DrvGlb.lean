import FV.Drv.Glb
/-
  Line-protocol driver for the global-floorplanning model (C10): `<mode> <op> <args…>` per line on stdin,
  one reply line on stdout.  Mode `F` runs the model at `Float`, mode `Q` at `Rat`.
-/
open FV FV.Drv

/-- `powF` at `Rat` (only natural exponents are exact; the `post` op is run at `Float`). -/
def ratPow (a e : Rat) : Rat := if e.den == 1 && 0 ≤ e.num then a ^ e.num.toNat else 0

def handle (line : String) : String :=
  match splitReq line with
  | some ("F", op, args) => (glbOp (α := Float) Float.pow op args).getD "bad-op"
  | some ("Q", op, args) => (glbOp (α := Rat) ratPow op args).getD "bad-op"
  | _ => "bad-op"

def main : IO Unit := mainLoop handle

import FV.Drv.Netlist
/-
  Line-protocol driver for the netlist reader / writer model (C04, C05): `<mode> <op> <args…>` per line.
  Mode `F` runs the model at `Float` (`sqrt` = IEEE square root, `tiny` = the double `1e-12`),
  mode `Q` at `Rat` (`sqrt` = 30-digit rational approximation; the tolerance is always given explicitly).
-/
open FV FV.Drv

def handle (line : String) : String :=
  match splitReq line with
  | some ("F", op, args) => (netlistOp (α := Float) Float.sqrt 1e-12 floatOfLit op args).getD "bad-op"
  | some ("Q", op, args) => (netlistOp (α := Rat) ratSqrt (mkRat 1 (10 ^ 12)) ratOfLit op args).getD "bad-op"
  | some ("T", op, args) => (textOp op args).getD "bad-op"
  | _ => "bad-op"

def main : IO Unit := mainLoop handle

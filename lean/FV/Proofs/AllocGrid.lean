import FV.Proofs.AllocBase
/-
  Helper lemmas for the `Allocation` model, part 2: the fixpoint loop of the repaired `griddify`
  (`fixes/C12_griddify_x_before_y.diff`: the x sweep and the y sweep are repeated until no rectangle is cut any more).

  * `cutsLoop_noop` / `griddifyCells_fix_aligned`: a round that does not add a rectangle changes nothing, and then no
    refinable cell is x- (y-) cuttable at any interior cut line — the full alignment statement;
  * `gridWt`, `griddifyCells_wt`: the number of cells of the cut grid inside the rectangles never grows, so the number of
    rectangles is bounded and the loop ends (`griddifyRounds_ok`: the model's fuel `gridFuel` is never exhausted; the
    result is a fixpoint of a round and refines the input).
-/
namespace FV.Alloc
open FV FV.Rect FV.C18
set_option linter.unusedSectionVars false
set_option linter.unusedSimpArgs false
set_option linter.unusedVariables false

variable {α : Type} [Field α] [LinearOrder α] [IsStrictOrderedRing α]

/-- `z` is one of the cut coordinates the loops of `griddify` visit: `l[i]` for `i` in `range(1, len(l) - 1)`. -/
def InteriorCut (l : List α) (z : α) : Prop := ∃ i ∈ List.range' 1 (l.length - 2), l[i]? = some z

/-- an invariant that every sweep preserves is preserved by a loop of sweeps (cut coordinates come from `cuts`). -/
theorem cutsLoop_forall (cut : α → Cell α → Except AErr (List (Cell α))) (P : Cell α → Prop) (cuts : List α)
    (hstep : ∀ x ∈ cuts, ∀ (c : Cell α) (ch : List (Cell α)), P c → cut x c = .ok ch → ∀ d ∈ ch, P d) :
    ∀ (idxs : List Nat) (q q' : List (Cell α)), cutsLoop cut cuts idxs q = .ok q' → (∀ c ∈ q, P c) → ∀ d ∈ q', P d := by
  intro idxs
  induction idxs with
  | nil => intro q q' h hq; simp only [cutsLoop] at h; injection h with h; subst h; exact hq
  | cons i is ih =>
    intro q q' h hq
    unfold cutsLoop at h
    cases hx : cuts[i]? with
    | none => rw [hx] at h; cases h
    | some x =>
      rw [hx] at h; simp only at h
      have hxm : x ∈ cuts := List.mem_of_getElem? hx
      cases hp : pass (cut x) q with
      | error e => rw [hp] at h; cases h
      | ok q1 =>
        rw [hp] at h; simp only at h
        refine ih q1 q' h ?_
        unfold pass at hp
        cases hm : mapE (cut x) q with
        | error e => rw [hm] at hp; cases hp
        | ok parts =>
          rw [hm] at hp; injection hp with hp; subst hp
          rw [mapE_ok_iff] at hm
          intro c hc
          obtain ⟨p, hp1, hp2⟩ := List.mem_flatten.mp hc
          obtain ⟨c1, hc1, hcut⟩ := forall2_mem_right hm p hp1
          exact hstep x hxm c1 p (hq c1 hc1) hcut c hp2


/-! ### a sweep either keeps a cell or replaces it by two -/

theorem cutX_shape (ρ x : α) (c : Cell α) (ch : List (Cell α)) (h : cutX ρ x c = .ok ch) :
    (ch = [c] ∧ (c.rect.fixed = true ∨ c.rect.xCuttable x ρ = false)) ∨ ch.length = 2 := by
  unfold cutX at h
  by_cases hcond : (!c.rect.fixed && c.rect.xCuttable x ρ) = true
  · rw [if_pos hcond] at h
    cases hs : c.rect.splitH x with
    | none => rw [hs] at h; cases h
    | some pq => rw [hs] at h; injection h with h; subst h; right; rfl
  · rw [if_neg hcond] at h
    injection h with h; subst h
    left
    refine ⟨rfl, ?_⟩
    by_cases hf : c.rect.fixed = true
    · exact Or.inl hf
    · right
      simp only [Bool.and_eq_true, Bool.not_eq_true', not_and, Bool.not_eq_true] at hcond
      exact hcond (by simpa using hf)

theorem cutY_shape (ρ y : α) (c : Cell α) (ch : List (Cell α)) (h : cutY ρ y c = .ok ch) :
    (ch = [c] ∧ (c.rect.fixed = true ∨ c.rect.yCuttable y ρ = false)) ∨ ch.length = 2 := by
  unfold cutY at h
  by_cases hcond : (!c.rect.fixed && c.rect.yCuttable y ρ) = true
  · rw [if_pos hcond] at h
    cases hs : c.rect.splitV y with
    | none => rw [hs] at h; cases h
    | some pq => rw [hs] at h; injection h with h; subst h; right; rfl
  · rw [if_neg hcond] at h
    injection h with h; subst h
    left
    refine ⟨rfl, ?_⟩
    by_cases hf : c.rect.fixed = true
    · exact Or.inl hf
    · right
      simp only [Bool.and_eq_true, Bool.not_eq_true', not_and, Bool.not_eq_true] at hcond
      exact hcond (by simpa using hf)

/-- a sweep never shortens the deque; if it does not lengthen it, it changed nothing and every cell answered `[c]`. -/
theorem pass_noop (cut : Cell α → Except AErr (List (Cell α))) (N : Cell α → Prop)
    (hcut : ∀ c ch, cut c = .ok ch → (ch = [c] ∧ N c) ∨ ch.length = 2) :
    ∀ (q q' : List (Cell α)), pass cut q = .ok q' → q.length ≤ q'.length ∧ (q'.length ≤ q.length → q' = q ∧ ∀ c ∈ q, N c) := by
  intro q q' h
  unfold pass at h
  cases hm : mapE cut q with
  | error e => rw [hm] at h; cases h
  | ok parts =>
    rw [hm] at h; injection h with h; subst h
    rw [mapE_ok_iff] at hm
    induction hm with
    | nil => simp
    | @cons c p q' parts' h1 _ ih =>
      simp only [List.flatten_cons, List.length_append, List.length_cons]
      obtain ⟨ih1, ih2⟩ := ih
      rcases hcut c p h1 with ⟨rfl, hn⟩ | h2
      · simp only [List.length_cons, List.length_nil]
        refine ⟨by omega, ?_⟩
        intro hle
        obtain ⟨e, hN⟩ := ih2 (by omega)
        refine ⟨by simp [e], ?_⟩
        intro d hd
        rcases List.mem_cons.mp hd with rfl | hd
        · exact hn
        · exact hN d hd
      · refine ⟨by omega, ?_⟩
        intro hle; exfalso; omega

/-- the same for a whole loop of sweeps: it never shortens the deque, and if it does not lengthen it then it is the
    identity and every visited line was refused by every cell. -/
theorem cutsLoop_noop (cut : α → Cell α → Except AErr (List (Cell α))) (N : α → Cell α → Prop)
    (hcut : ∀ x c ch, cut x c = .ok ch → (ch = [c] ∧ N x c) ∨ ch.length = 2) (cuts : List α) :
    ∀ (idxs : List Nat) (q q' : List (Cell α)), cutsLoop cut cuts idxs q = .ok q' →
      q.length ≤ q'.length ∧
      (q'.length ≤ q.length → q' = q ∧ ∀ i ∈ idxs, ∀ x, cuts[i]? = some x → ∀ c ∈ q, N x c) := by
  intro idxs
  induction idxs with
  | nil =>
    intro q q' h
    simp only [cutsLoop] at h; injection h with h; subst h
    exact ⟨le_refl _, fun _ => ⟨rfl, fun i hi => by cases hi⟩⟩
  | cons i is ih =>
    intro q q' h
    unfold cutsLoop at h
    cases hx : cuts[i]? with
    | none => rw [hx] at h; cases h
    | some x =>
      rw [hx] at h; simp only at h
      cases hp : pass (cut x) q with
      | error e => rw [hp] at h; cases h
      | ok q1 =>
        rw [hp] at h; simp only at h
        obtain ⟨l1, n1⟩ := pass_noop (cut x) (N x) (hcut x) q q1 hp
        obtain ⟨l2, n2⟩ := ih q1 q' h
        refine ⟨le_trans l1 l2, ?_⟩
        intro hle
        obtain ⟨e1, hN1⟩ := n1 (by omega)
        subst e1
        obtain ⟨e2, hN2⟩ := n2 hle
        refine ⟨e2, ?_⟩
        intro j hj z hz c hc
        rcases List.mem_cons.mp hj with rfl | hj
        · rw [hx] at hz; injection hz with hz; subst hz; exact hN1 c hc
        · exact hN2 j hj z hz c hc

/-- **a round that is a fixpoint is aligned**: if one round of the two loops returns a deque that is not longer than its
    input, then it returns its input, and no refinable cell of it is x-cuttable (y-cuttable) at any interior cut line. -/
theorem griddifyCells_noop (ρ : α) (xs ys : List α) (q q' : List (Cell α)) (h : griddifyCells ρ xs ys q = .ok q') :
    q.length ≤ q'.length ∧ (q'.length ≤ q.length → q' = q ∧
      ∀ d ∈ q, d.rect.fixed = false →
        (∀ x, InteriorCut xs x → d.rect.xCuttable x ρ = false) ∧ (∀ y, InteriorCut ys y → d.rect.yCuttable y ρ = false)) := by
  unfold griddifyCells at h
  cases h1 : cutsLoop (cutX ρ) xs (List.range' 1 (xs.length - 2)) q with
  | error e => rw [h1] at h; cases h
  | ok q1 =>
    rw [h1] at h; simp only at h
    obtain ⟨l1, n1⟩ := cutsLoop_noop (cutX ρ) (fun x c => c.rect.fixed = true ∨ c.rect.xCuttable x ρ = false)
      (cutX_shape ρ) xs _ q q1 h1
    obtain ⟨l2, n2⟩ := cutsLoop_noop (cutY ρ) (fun y c => c.rect.fixed = true ∨ c.rect.yCuttable y ρ = false)
      (cutY_shape ρ) ys _ q1 q' h
    refine ⟨le_trans l1 l2, ?_⟩
    intro hle
    obtain ⟨e1, hN1⟩ := n1 (by omega)
    subst e1
    obtain ⟨e2, hN2⟩ := n2 hle
    refine ⟨e2, ?_⟩
    intro d hd hf
    constructor
    · intro x ⟨i, hi, hx⟩
      rcases hN1 i hi x hx d hd with h | h
      · rw [hf] at h; cases h
      · exact h
    · intro y ⟨i, hi, hy⟩
      rcases hN2 i hi y hy d hd with h | h
      · rw [hf] at h; cases h
      · exact h

/-! ### the number of grid cells inside the rectangles never grows -/

/-- number of lines of `l` strictly between `a` and `b`. -/
def linesIn (l : List α) (a b : α) : Nat := l.countP (fun z => decide (a < z ∧ z < b))

/-- number of cells of the cut grid `xs × ys` inside a cell (at least 1). -/
def gridWt (xs ys : List α) (c : Cell α) : Nat :=
  (linesIn xs c.rect.xmin c.rect.xmax + 1) * (linesIn ys c.rect.ymin c.rect.ymax + 1)

theorem linesIn_cons (z : α) (l : List α) (a b : α) :
    linesIn (z :: l) a b = linesIn l a b + (if a < z ∧ z < b then 1 else 0) := by
  unfold linesIn
  rw [List.countP_cons]
  simp only [decide_eq_true_eq]

theorem linesIn_le_length (l : List α) (a b : α) : linesIn l a b ≤ l.length := List.countP_le_length

theorem ind_split (a x b z : α) (hax : a < x) (hxb : x < b) :
    (if a < z ∧ z < x then 1 else 0) + (if x < z ∧ z < b then 1 else 0) ≤ (if a < z ∧ z < b then (1 : Nat) else 0) := by
  by_cases h1 : a < z ∧ z < x
  · have h2 : ¬ (x < z ∧ z < b) := fun h => absurd (lt_trans h.1 h1.2) (lt_irrefl _)
    have h3 : a < z ∧ z < b := ⟨h1.1, lt_trans h1.2 hxb⟩
    rw [if_pos h1, if_neg h2, if_pos h3]
  · by_cases h2 : x < z ∧ z < b
    · have h3 : a < z ∧ z < b := ⟨lt_trans hax h2.1, h2.2⟩
      rw [if_neg h1, if_pos h2, if_pos h3]
    · rw [if_neg h1, if_neg h2]; exact Nat.zero_le _

theorem linesIn_split_le (a x b : α) (hax : a < x) (hxb : x < b) (l : List α) :
    linesIn l a x + linesIn l x b ≤ linesIn l a b := by
  induction l with
  | nil => simp [linesIn]
  | cons z l ih =>
    rw [linesIn_cons, linesIn_cons, linesIn_cons]
    have key := ind_split a x b z hax hxb
    omega

/-- a line of the grid strictly inside an interval splits the lines inside it into those on its left, itself, and those
    on its right. -/
theorem linesIn_split (a x b : α) (hax : a < x) (hxb : x < b) (l : List α) (hx : x ∈ l) :
    linesIn l a x + linesIn l x b + 1 ≤ linesIn l a b := by
  induction l with
  | nil => cases hx
  | cons z l ih =>
    rw [linesIn_cons, linesIn_cons, linesIn_cons]
    rcases List.mem_cons.mp hx with rfl | hx
    · have := linesIn_split_le a x b hax hxb l
      have h1 : ¬ (a < x ∧ x < x) := fun h => lt_irrefl _ h.2
      have h2 : ¬ (x < x ∧ x < b) := fun h => lt_irrefl _ h.1
      rw [if_neg h1, if_neg h2, if_pos ⟨hax, hxb⟩]
      omega
    · have := ih hx
      have key := ind_split a x b z hax hxb
      omega

theorem gridWt_pos (xs ys : List α) (c : Cell α) : 1 ≤ gridWt xs ys c := Nat.mul_pos (Nat.succ_pos _) (Nat.succ_pos _)

theorem gridWt_le (xs ys : List α) (c : Cell α) : gridWt xs ys c ≤ (xs.length + 1) * (ys.length + 1) :=
  Nat.mul_le_mul (Nat.succ_le_succ (linesIn_le_length _ _ _)) (Nat.succ_le_succ (linesIn_le_length _ _ _))

def wtSum (xs ys : List α) (q : List (Cell α)) : Nat := (q.map (gridWt xs ys)).sum

theorem length_le_wtSum (xs ys : List α) (q : List (Cell α)) : q.length ≤ wtSum xs ys q := by
  unfold wtSum
  induction q with
  | nil => simp
  | cons c q ih => simp only [List.map_cons, List.sum_cons, List.length_cons]; have := gridWt_pos xs ys c; omega

theorem wtSum_le (xs ys : List α) (q : List (Cell α)) : wtSum xs ys q ≤ q.length * ((xs.length + 1) * (ys.length + 1)) := by
  unfold wtSum
  induction q with
  | nil => simp
  | cons c q ih =>
    simp only [List.map_cons, List.sum_cons, List.length_cons]
    have := gridWt_le xs ys c
    rw [Nat.succ_mul]; omega

theorem cutX_wt (xs ys : List α) (ρ x : α) (hx : x ∈ xs) (c : Cell α) (ch : List (Cell α)) (hg : CellGood c)
    (hc : cutX ρ x c = .ok ch) : wtSum xs ys ch ≤ gridWt xs ys c := by
  rcases cutX_cases ρ x c hg with ⟨hf, hcut, p, q, hpq, hx0, he⟩ | ⟨hnc, he⟩
  · rw [he] at hc; injection hc with hc; subst hc
    obtain ⟨s1, s2, s3, s4, s5, s6, s7, s8, s9, s10⟩ := splitH_sides c.rect p q x hx0 hpq
    have := linesIn_split c.rect.xmin x c.rect.xmax s9 s10 xs hx
    simp only [wtSum, gridWt, List.map_cons, List.map_nil, List.sum_cons, List.sum_nil, s1, s2, s3, s4, s5, s6, s7, s8,
      Nat.add_zero]
    rw [← Nat.add_mul]
    exact Nat.mul_le_mul_right _ (by omega)
  · rw [he] at hc; injection hc with hc; subst hc
    simp [wtSum]

theorem cutY_wt (xs ys : List α) (ρ y : α) (hy : y ∈ ys) (c : Cell α) (ch : List (Cell α)) (hg : CellGood c)
    (hc : cutY ρ y c = .ok ch) : wtSum xs ys ch ≤ gridWt xs ys c := by
  rcases cutY_cases ρ y c hg with ⟨hf, hcut, p, q, hpq, hy0, he⟩ | ⟨hnc, he⟩
  · rw [he] at hc; injection hc with hc; subst hc
    obtain ⟨s1, s2, s3, s4, s5, s6, s7, s8, s9, s10⟩ := splitV_sides c.rect p q y hy0 hpq
    have := linesIn_split c.rect.ymin y c.rect.ymax s9 s10 ys hy
    simp only [wtSum, gridWt, List.map_cons, List.map_nil, List.sum_cons, List.sum_nil, s1, s2, s3, s4, s5, s6, s7, s8,
      Nat.add_zero]
    rw [← Nat.mul_add]
    exact Nat.mul_le_mul_left _ (by omega)
  · rw [he] at hc; injection hc with hc; subst hc
    simp [wtSum]

theorem cutX_good (ρ x : α) (c : Cell α) (ch : List (Cell α)) (hg : CellGood c) (hc : cutX ρ x c = .ok ch) :
    ∀ d ∈ ch, CellGood d := by
  obtain ⟨ch', e, ht⟩ := cutX_tiles ρ x c hg
  rw [e] at hc; injection hc with hc; subst hc
  exact hg.of_tiles ht

theorem cutY_good (ρ y : α) (c : Cell α) (ch : List (Cell α)) (hg : CellGood c) (hc : cutY ρ y c = .ok ch) :
    ∀ d ∈ ch, CellGood d := by
  obtain ⟨ch', e, ht⟩ := cutY_tiles ρ y c hg
  rw [e] at hc; injection hc with hc; subst hc
  exact hg.of_tiles ht

/-- a quantity that no single cut increases is not increased by a loop of sweeps. -/
theorem cutsLoop_sum_le (cut : α → Cell α → Except AErr (List (Cell α))) (P : Cell α → Prop) (w : Cell α → Nat)
    (cuts : List α)
    (hP : ∀ x ∈ cuts, ∀ (c : Cell α) (ch : List (Cell α)), P c → cut x c = .ok ch → ∀ d ∈ ch, P d)
    (hw : ∀ x ∈ cuts, ∀ (c : Cell α) (ch : List (Cell α)), P c → cut x c = .ok ch → (ch.map w).sum ≤ w c) :
    ∀ (idxs : List Nat) (q q' : List (Cell α)), cutsLoop cut cuts idxs q = .ok q' → (∀ c ∈ q, P c) →
      (q'.map w).sum ≤ (q.map w).sum := by
  intro idxs
  induction idxs with
  | nil => intro q q' h _; simp only [cutsLoop] at h; injection h with h; subst h; exact le_refl _
  | cons i is ih =>
    intro q q' h hq
    unfold cutsLoop at h
    cases hx : cuts[i]? with
    | none => rw [hx] at h; cases h
    | some x =>
      rw [hx] at h; simp only at h
      have hxm : x ∈ cuts := List.mem_of_getElem? hx
      cases hp : pass (cut x) q with
      | error e => rw [hp] at h; cases h
      | ok q1 =>
        rw [hp] at h; simp only at h
        have hq1 : ∀ c ∈ q1, P c :=
          cutsLoop_forall cut P cuts hP [i] q q1 (by simp only [cutsLoop, hx, hp]) hq
        refine le_trans (ih q1 q' h hq1) ?_
        unfold pass at hp
        cases hm : mapE (cut x) q with
        | error e => rw [hm] at hp; cases hp
        | ok parts =>
          rw [hm] at hp; injection hp with hp; subst hp
          rw [mapE_ok_iff] at hm
          clear h hq1 ih
          induction hm with
          | nil => simp
          | @cons c p q0 parts' h1 _ ih2 =>
            simp only [List.flatten_cons, List.map_append, List.sum_append, List.map_cons, List.sum_cons]
            have a := hw x hxm c p (hq c (by simp)) h1
            have b := ih2 (fun d hd => hq d (by simp [hd]))
            omega

/-- one round of the two loops does not increase the number of grid cells inside the rectangles. -/
theorem griddifyCells_wt (ρ : α) (xs ys : List α) (q q' : List (Cell α)) (hg : ∀ c ∈ q, CellGood c)
    (h : griddifyCells ρ xs ys q = .ok q') : wtSum xs ys q' ≤ wtSum xs ys q := by
  unfold griddifyCells at h
  cases h1 : cutsLoop (cutX ρ) xs (List.range' 1 (xs.length - 2)) q with
  | error e => rw [h1] at h; cases h
  | ok q1 =>
    rw [h1] at h; simp only at h
    have g1 : ∀ c ∈ q1, CellGood c :=
      cutsLoop_forall (cutX ρ) CellGood xs (fun x _ c ch hc hcut => cutX_good ρ x c ch hc hcut) _ q q1 h1 hg
    have a := cutsLoop_sum_le (cutX ρ) CellGood (gridWt xs ys) xs
      (fun x _ c ch hc hcut => cutX_good ρ x c ch hc hcut)
      (fun x hx c ch hc hcut => cutX_wt xs ys ρ x hx c ch hc hcut) _ q q1 h1 hg
    have b := cutsLoop_sum_le (cutY ρ) CellGood (gridWt xs ys) ys
      (fun y _ c ch hc hcut => cutY_good ρ y c ch hc hcut)
      (fun y hy c ch hc hcut => cutY_wt xs ys ρ y hy c ch hc hcut) _ q1 q' h g1
    exact le_trans b a

/-! ### the loop ends -/

/-- **the fixpoint loop of `griddify` ends**: with `wtSum q < fuel + |q|` (in particular with `gridFuel`) the loop returns;
    its result refines the input and is a fixpoint of a round. -/
theorem griddifyRounds_ok (ρ : α) (xs ys : List α) : ∀ (fuel : Nat) (q : List (Cell α)), (∀ c ∈ q, CellGood c) →
    wtSum xs ys q < fuel + q.length →
    ∃ q', griddifyRounds ρ xs ys fuel q = .ok q' ∧ Refines q q' ∧ griddifyCells ρ xs ys q' = .ok q' := by
  intro fuel
  induction fuel with
  | zero =>
    intro q _ hlt
    have := length_le_wtSum xs ys q
    omega
  | succ f ih =>
    intro q hg hlt
    obtain ⟨q1, e1, r1⟩ := griddifyCells_refines ρ xs ys q hg
    obtain ⟨l1, n1⟩ := griddifyCells_noop ρ xs ys q q1 e1
    by_cases hlen : q1.length = q.length
    · obtain ⟨e, _⟩ := n1 (le_of_eq hlen)
      subst e
      exact ⟨q1, by simp only [griddifyRounds, e1, hlen, ↓reduceIte], r1, e1⟩
    · have hw := griddifyCells_wt ρ xs ys q q1 hg e1
      obtain ⟨q2, e2, r2, f2⟩ := ih q1 (good_of_refines hg r1) (by omega)
      exact ⟨q2, by simp only [griddifyRounds, e1, hlen, ↓reduceIte, e2], r1.trans r2, f2⟩

/-- over the whole loop the deque never gets shorter and the number of grid cells inside it never grows. -/
theorem griddifyRounds_wt (ρ : α) (xs ys : List α) : ∀ (fuel : Nat) (q q' : List (Cell α)), (∀ c ∈ q, CellGood c) →
    griddifyRounds ρ xs ys fuel q = .ok q' → wtSum xs ys q' ≤ wtSum xs ys q ∧ q.length ≤ q'.length := by
  intro fuel
  induction fuel with
  | zero => intro q q' _ h; simp [griddifyRounds] at h
  | succ f ih =>
    intro q q' hg h
    unfold griddifyRounds at h
    cases hc : griddifyCells ρ xs ys q with
    | error e => rw [hc] at h; cases h
    | ok q1 =>
      rw [hc] at h; simp only at h
      have w1 := griddifyCells_wt ρ xs ys q q1 hg hc
      have l1 := (griddifyCells_noop ρ xs ys q q1 hc).1
      by_cases hlen : q1.length = q.length
      · rw [if_pos hlen] at h; injection h with h; subst h; exact ⟨w1, l1⟩
      · rw [if_neg hlen] at h
        obtain ⟨q1', e1, r1⟩ := griddifyCells_refines ρ xs ys q hg
        rw [hc] at e1; injection e1 with e1; subst e1
        obtain ⟨w2, l2⟩ := ih q1 q' (good_of_refines hg r1) h
        exact ⟨le_trans w2 w1, le_trans l1 l2⟩

theorem gridFuel_enough (xs ys : List α) (q : List (Cell α)) : wtSum xs ys q < gridFuel xs ys q + q.length := by
  have := wtSum_le xs ys q
  unfold gridFuel
  omega

/-- the fuel is irrelevant: any two amounts of fuel that are both enough give the same deque. -/
theorem griddifyRounds_fuel_irrelevant (ρ : α) (xs ys : List α) : ∀ (f1 f2 : Nat) (q q1 q2 : List (Cell α)),
    griddifyRounds ρ xs ys f1 q = .ok q1 → griddifyRounds ρ xs ys f2 q = .ok q2 → q1 = q2 := by
  intro f1
  induction f1 with
  | zero => intro f2 q q1 q2 h; simp [griddifyRounds] at h
  | succ f ih =>
    intro f2 q q1 q2 h1 h2
    cases f2 with
    | zero => simp [griddifyRounds] at h2
    | succ g =>
      unfold griddifyRounds at h1 h2
      cases hc : griddifyCells ρ xs ys q with
      | error e => rw [hc] at h1; cases h1
      | ok q' =>
        rw [hc] at h1 h2; simp only at h1 h2
        by_cases hlen : q'.length = q.length
        · rw [if_pos hlen] at h1 h2
          injection h1 with h1; injection h2 with h2
          rw [← h1, ← h2]
        · rw [if_neg hlen] at h1 h2
          exact ih g q' q1 q2 h1 h2

end FV.Alloc

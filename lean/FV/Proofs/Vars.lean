import FV.Proofs.Heule
/-
  Helper lemmas for C07, part 5: which variables decide the nodes below a ROBDD root (`VarsOK`), through
  `constructrobdd` and `_codifyrobdd`; congruence of the semantics in the variables actually mentioned.
-/
set_option linter.unusedSectionVars false
namespace FV.PB
variable {V : Type} [DecidableEq V]

/-- every decision variable in the sub-diagram below `id` satisfies `P` -/
inductive VarsOK (S : Store V) (P : V → Prop) : Nat → Prop
  | leaf0 : VarsOK S P 0
  | leaf1 : VarsOK S P 1
  | node {id : Nat} {v : V} {i e : Nat} : 2 ≤ id → S.memory[id]? = some (.node v i e) → P v →
      VarsOK S P i → VarsOK S P e → VarsOK S P id

theorem VarsOK.le {S S' : Store V} {P : V → Prop} {id : Nat} (h : VarsOK S P id) (hle : S.le S') : VarsOK S' P id := by
  induction h with
  | leaf0 => exact .leaf0
  | leaf1 => exact .leaf1
  | node h2 hn hp _ _ ihi ihe =>
    have hid := (List.getElem?_eq_some_iff.1 hn).1
    exact .node h2 (by rw [Store.le_get hle hid]; exact hn) hp ihi ihe

def MemoVars (S : Store V) (P : V → Prop) (memo : List (Data V × Nat)) : Prop :=
  ∀ d id, memoGet memo d = some id → VarsOK S P id

theorem prop_vars (dec : Bool) (P : V → Prop) {t : Term V} {r : List (Term V)} {k : Int}
    (h : ∀ y ∈ t :: r, P y.L.v) :
    (∀ y ∈ (ifprop dec t r k).1, P y.L.v) ∧ (∀ y ∈ (elprop dec t r k).1, P y.L.v) := by
  have hr : ∀ y ∈ r, P y.L.v := fun y hy => h y (by simp [hy])
  have ht : P t.L.v := h t (by simp)
  unfold ifprop elprop
  cases dec
  · simp; exact hr
  · simp only [if_true]
    have key : ∀ y ∈ insertTerm r ⟨t.L, t.c - largebit t.c⟩, P y.L.v := by
      intro y hy
      rcases (insertTerm_spec (fun _ => true) r ⟨t.L, t.c - largebit t.c⟩).2.2.2 y hy with ⟨e, _⟩ | hm
      · subst e; exact ht
      · exact hr y hm
    exact ⟨key, key⟩

theorem construct_vars (dec : Bool) (P : V → Prop) : ∀ (fuel : Nat) (d : Data V) (st : BState V) (id : Nat) (st' : BState V),
    construct dec fuel d st = some (id, st') → WFStore st.store → MemoInv st.store st.memo → DataOK d →
      MemoVars st.store P st.memo → (∀ y ∈ d.1, P y.L.v) →
        MemoVars st'.store P st'.memo ∧ VarsOK st'.store P id := by
  intro fuel
  induction fuel with
  | zero => intro d st id st' h; simp [construct] at h
  | succ fuel ih =>
    intro d st id st' h hw hm hok hv hp
    unfold construct at h
    split at h
    · rename_i mid hmemo
      simp only [Option.some.injEq, Prod.mk.injEq] at h
      obtain ⟨rfl, rfl⟩ := h
      exact ⟨hv, hv d mid hmemo⟩
    · split at h
      · simp only [Option.some.injEq, Prod.mk.injEq] at h
        obtain ⟨rfl, rfl⟩ := h
        refine ⟨hv, ?_⟩
        unfold bcconstr; split
        · exact .leaf1
        · exact .leaf0
      · split at h
        · simp at h
        · rename_i t r hd
          obtain ⟨dl, dk⟩ := d
          simp only at hd; subst hd
          have hpo := prop_ok dec hok
          have hpv := prop_vars dec P (k := dk) hp
          split at h
          · simp at h
          · rename_i i st1 h1
            obtain ⟨w1, l1, m1, s1, _⟩ := construct_spec dec _ _ _ _ _ h1 hw hm hpo.1
            obtain ⟨v1, vi⟩ := ih _ _ _ _ h1 hw hm hpo.1 hv hpv.1
            split at h
            · simp at h
            · rename_i e st2 h2
              obtain ⟨w2, l2, m2, s2, _⟩ := construct_spec dec _ _ _ _ _ h2 w1 m1 hpo.2
              obtain ⟨v2, ve⟩ := ih _ _ _ _ h2 w1 m1 hpo.2 v1 hpv.2
              have vi2 := vi.le l2
              have si : i < st2.store.size := Nat.lt_of_lt_of_le s1 (Store.le_size l2)
              split at h
              · simp only [Option.some.injEq, Prod.mk.injEq] at h
                obtain ⟨rfl, rfl⟩ := h
                exact ⟨v2, vi2⟩
              · simp only [Option.some.injEq, Prod.mk.injEq] at h
                obtain ⟨rfl, rfl⟩ := h
                obtain ⟨w3, l3, g3, n3⟩ := mkNode_spec w2 t.L.v si s2
                have vnew : VarsOK (st2.store.mkNode (t.L.v, i, e)).2 P (st2.store.mkNode (t.L.v, i, e)).1 :=
                  .node g3 n3 (hp t (by simp)) (vi2.le l3) (ve.le l3)
                refine ⟨?_, vnew⟩
                intro d' id' hg
                simp only at hg
                rw [memoGet_append] at hg
                cases hg' : memoGet st2.memo d' with
                | some x => simp [hg'] at hg; subst hg; exact (v2 d' x hg').le l3
                | none =>
                  simp only [hg', memoGet] at hg
                  split at hg
                  · simp at hg; subst hg; exact vnew
                  · simp at hg

/-- the root returned by `getrobdd` only branches on variables of the inequality -/
theorem getRobdd_vars (q : Ineq V) (dec : Bool) (S : Store V) (hw : WFStore S) (hpos : ∀ t ∈ q.lhs.t, 0 < t.c)
    (P : V → Prop) (hP : ∀ t ∈ q.lhs.t, P t.L.v) {id : Nat} {S' : Store V} (h : q.getRobdd dec S = .ok (id, S')) :
    VarsOK S' P id := by
  unfold Ineq.getRobdd at h
  dsimp only at h
  split at h
  · split at h
    · rename_i id' st' hc
      simp at h; obtain ⟨rfl, rfl⟩ := h
      have hok : DataOK (sortDesc q.lhs.t, q.rhs) := fun t ht => hpos t (mem_sortDesc.1 ht)
      exact (construct_vars dec P _ _ _ _ _ hc hw (by intro d id h; simp [memoGet] at h) hok
        (by intro d id h; simp [memoGet] at h) (fun y hy => hP y (mem_sortDesc.1 hy))).2
    · simp at h
  · simp at h

theorem termsVal_congr {τ τ' : V → Bool} {ts : List (Term V)} (h : ∀ t ∈ ts, τ t.L.v = τ' t.L.v) :
    termsVal τ ts = termsVal τ' ts := by
  induction ts with
  | nil => rfl
  | cons a r ih =>
    have ha := h a (by simp)
    have : litVal τ a.L = litVal τ' a.L := by simp [litVal, ha]
    simp [termsVal, termVal, this, ih (fun t ht => h t (by simp [ht]))]

theorem clauseTrue_congr {τ τ' : V → Bool} {c : List (Literal V)} (h : ∀ l ∈ c, τ l.v = τ' l.v) :
    clauseTrue τ c = clauseTrue τ' c := by
  induction c with
  | nil => rfl
  | cons a r ih =>
    have ha := h a (by simp)
    simp only [clauseTrue, List.any_cons] at ih ⊢
    rw [ih (fun l hl => h l (by simp [hl]))]
    simp [litTrue, ha]

theorem cnfTrue_congr {τ τ' : V → Bool} {cs : List (List (Literal V))} (h : ∀ c ∈ cs, ∀ l ∈ c, τ l.v = τ' l.v)
    (hτ : cnfTrue τ cs) : cnfTrue τ' cs := by
  intro c hc
  rw [← clauseTrue_congr (h c hc)]
  exact hτ c hc

end FV.PB

namespace FV.Sat
open FV.PB

/-- decision variables of all encoded nodes satisfy `P` -/
def CodVars (S : Store Var) (P : Var → Prop) (m : Mgr) : Prop :=
  ∀ j ∈ m.codified, 2 ≤ j → ∀ v i e, S.memory[j]? = some (.node v i e) → P v

theorem codify_vars {S : Store Var} (P : Var → Prop) : ∀ (fuel id : Nat) (m m' : Mgr),
    Mgr.codify S fuel id m = .ok m' → VarsOK S P id → CodVars S P m → CodVars S P m' := by
  intro fuel
  induction fuel with
  | zero => intro id m m' h; simp [Mgr.codify] at h
  | succ fuel ih =>
    intro id m m' h hv hc
    unfold Mgr.codify at h
    split at h
    · simp at h; subst h; exact hc
    · dsimp only at h
      split at h
      · simp at h; subst h
        intro j hj h2 v i e hn
        simp at hj
        rcases hj with hj | rfl
        · exact hc j hj h2 v i e hn
        · omega
      · split at h
        · simp at h; subst h
          intro j hj h2 v i e hn
          simp at hj
          rcases hj with hj | rfl
          · exact hc j hj h2 v i e hn
          · omega
        · split at h
          · rename_i dv i e hget
            cases hv with
            | leaf0 => omega
            | leaf1 => omega
            | node h2 hn hp hvi hve =>
              rw [hget] at hn; simp at hn; obtain ⟨rfl, rfl, rfl⟩ := hn
              have hc1 : CodVars S P (({ m with codified := m.codified ++ [id] } : Mgr).newvar (.node id)) := by
                intro j hj h2' v' i' e' hn'
                simp at hj
                rcases hj with hj | rfl
                · exact hc j hj h2' v' i' e' hn'
                · rw [hget] at hn'; simp at hn'; obtain ⟨rfl, _, _⟩ := hn'; exact hp
              cases r2 : Mgr.codify S fuel i (({ m with codified := m.codified ++ [id] } : Mgr).newvar (.node id)) with
              | error err => simp [r2, bind, Except.bind] at h
              | ok m2 =>
                have hc2 := ih _ _ _ r2 hvi hc1
                cases r3 : Mgr.codify S fuel e m2 with
                | error err => simp [r2, r3, bind, Except.bind] at h
                | ok m3 =>
                  have hc3 := ih _ _ _ r3 hve hc2
                  simp [r2, r3, bind, Except.bind, pure, Except.pure] at h
                  subst h
                  intro j hj; simp at hj; exact hc3 j hj
          · simp at h

end FV.Sat

import FV.Proofs.PB
import FV.Model.Sat
/-
  Helper lemmas for C07, part 1: clause semantics, at-most-one (pairwise), `imply`, the stable sort and
  `Ineq.isclause`.  Core Lean only.
-/
set_option linter.unusedSectionVars false
namespace FV.PB

variable {V : Type} [DecidableEq V]

/-! ### literals and clauses under an assignment -/
def litTrue (τ : V → Bool) (l : Literal V) : Bool := τ l.v == l.s
def clauseTrue (τ : V → Bool) (c : List (Literal V)) : Bool := c.any (litTrue τ)
def cnfTrue (τ : V → Bool) (cs : List (List (Literal V))) : Prop := ∀ c ∈ cs, clauseTrue τ c = true

theorem litVal_eq_ite (τ : V → Bool) (l : Literal V) : litVal τ l = if litTrue τ l then 1 else 0 := by
  cases l with | mk v s => cases s <;> cases h : τ v <;> simp [litVal, litTrue, b2i, h]

theorem litTrue_neg (τ : V → Bool) (l : Literal V) : litTrue τ l.neg = !litTrue τ l := by
  cases l with | mk v s => cases s <;> cases h : τ v <;> simp [Literal.neg, litTrue, h]

theorem litVal_nonneg (τ : V → Bool) (l : Literal V) : 0 ≤ litVal τ l := by
  rcases litVal_cases τ l with h | h <;> omega

theorem cnfTrue_append (τ : V → Bool) (a b : List (List (Literal V))) :
    cnfTrue τ (a ++ b) ↔ cnfTrue τ a ∧ cnfTrue τ b := by
  simp only [cnfTrue, List.mem_append]
  exact ⟨fun h => ⟨fun c hc => h c (Or.inl hc), fun c hc => h c (Or.inr hc)⟩,
    fun h c hc => hc.elim (h.1 c) (h.2 c)⟩

theorem cnfTrue_nil (τ : V → Bool) : cnfTrue τ ([] : List (List (Literal V))) := by simp [cnfTrue]

theorem cnfTrue_single (τ : V → Bool) (c : List (Literal V)) : cnfTrue τ [c] ↔ clauseTrue τ c = true := by
  simp [cnfTrue]

theorem clauseTrue_iff (τ : V → Bool) (c : List (Literal V)) : clauseTrue τ c = true ↔ ∃ l ∈ c, litTrue τ l = true := by
  simp [clauseTrue, List.any_eq_true]

/-! ### sums of terms -/
theorem termsVal_append (τ : V → Bool) (a b : List (Term V)) : termsVal τ (a ++ b) = termsVal τ a + termsVal τ b := by
  induction a with
  | nil => simp [termsVal]
  | cons x r ih => simp [termsVal, ih]; omega

theorem termVal_nonneg (τ : V → Bool) {t : Term V} (h : 0 ≤ t.c) : 0 ≤ termVal τ t :=
  Int.mul_nonneg h (litVal_nonneg τ t.L)

theorem termVal_le (τ : V → Bool) {t : Term V} (h : 0 ≤ t.c) : termVal τ t ≤ t.c := by
  unfold termVal; rcases litVal_cases τ t.L with e | e <;> rw [e] <;> omega

theorem termsVal_nonneg (τ : V → Bool) {l : List (Term V)} (h : ∀ t ∈ l, 0 ≤ t.c) : 0 ≤ termsVal τ l := by
  induction l with
  | nil => simp [termsVal]
  | cons a r ih =>
    have := termVal_nonneg τ (h a (by simp))
    have := ih (fun t ht => h t (by simp [ht]))
    simp [termsVal]; omega

theorem maxsum_nonneg' {l : List (Term V)} (h : ∀ t ∈ l, 0 ≤ t.c) : 0 ≤ maxsum l := by
  induction l with
  | nil => simp [maxsum]
  | cons a r ih =>
    have := h a (by simp)
    have := ih (fun t ht => h t (by simp [ht]))
    simp [maxsum]; omega

theorem termsVal_le_maxsum (τ : V → Bool) {l : List (Term V)} (h : ∀ t ∈ l, 0 ≤ t.c) : termsVal τ l ≤ maxsum l := by
  induction l with
  | nil => simp [termsVal, maxsum]
  | cons a r ih =>
    have := termVal_le τ (h a (by simp))
    have := ih (fun t ht => h t (by simp [ht]))
    simp [termsVal, maxsum]; omega

theorem termsVal_ge_mem (τ : V → Bool) {l : List (Term V)} (h : ∀ t ∈ l, 0 ≤ t.c) {t : Term V} (ht : t ∈ l) :
    termVal τ t ≤ termsVal τ l := by
  induction l with
  | nil => simp at ht
  | cons a r ih =>
    have h1 := termVal_nonneg τ (h a (by simp))
    have h2 := termsVal_nonneg τ (fun t ht => h t (by simp [ht]) : ∀ t ∈ r, 0 ≤ t.c)
    simp at ht
    rcases ht with e | hm
    · subst e; simp [termsVal]; omega
    · have := ih (fun t ht => h t (by simp [ht])) hm
      simp [termsVal]; omega

theorem termsVal_all_false (τ : V → Bool) {l : List (Term V)} (h : ∀ t ∈ l, litTrue τ t.L = false) : termsVal τ l = 0 := by
  induction l with
  | nil => simp [termsVal]
  | cons a r ih =>
    have h1 := h a (by simp)
    have := ih (fun t ht => h t (by simp [ht]))
    simp [termsVal, termVal, litVal_eq_ite, h1, this]

/-! ### the stable sort by decreasing coefficient -/
theorem mem_insDesc {x y : Term V} {l : List (Term V)} : y ∈ insDesc x l ↔ y = x ∨ y ∈ l := by
  induction l with
  | nil => simp [insDesc]
  | cons a r ih =>
    unfold insDesc
    split
    · simp
    · simp [ih]; constructor
      · rintro (h | h | h) <;> simp [h]
      · rintro (h | h | h) <;> simp [h]

theorem termsVal_insDesc (τ : V → Bool) (x : Term V) (l : List (Term V)) :
    termsVal τ (insDesc x l) = termVal τ x + termsVal τ l := by
  induction l with
  | nil => simp [insDesc, termsVal]
  | cons a r ih =>
    unfold insDesc
    split
    · simp [termsVal]
    · simp [termsVal, ih]; omega

theorem maxsum_insDesc (x : Term V) (l : List (Term V)) : maxsum (insDesc x l) = x.c + maxsum l := by
  induction l with
  | nil => simp [insDesc, maxsum]
  | cons a r ih =>
    unfold insDesc
    split
    · simp [maxsum]
    · simp [maxsum, ih]; omega

def SortedDesc (l : List (Term V)) : Prop := l.Pairwise (fun a b => b.c ≤ a.c)

theorem sorted_insDesc {x : Term V} {l : List (Term V)} (h : SortedDesc l) : SortedDesc (insDesc x l) := by
  induction l with
  | nil => simp [insDesc, SortedDesc]
  | cons a r ih =>
    unfold insDesc
    simp only [SortedDesc, List.pairwise_cons] at h
    split
    · rename_i hlt
      simp only [SortedDesc, List.pairwise_cons]
      refine ⟨fun b hb => ?_, h⟩
      simp at hb
      rcases hb with e | hb
      · subst e; omega
      · have := h.1 b hb; omega
    · rename_i hge
      simp only [SortedDesc, List.pairwise_cons]
      refine ⟨fun b hb => ?_, ih h.2⟩
      rcases mem_insDesc.1 hb with e | hb
      · subst e; omega
      · exact h.1 b hb

theorem length_insDesc (x : Term V) (l : List (Term V)) : (insDesc x l).length = l.length + 1 := by
  induction l with
  | nil => simp [insDesc]
  | cons b r ih => unfold insDesc; split <;> simp [ih]

theorem sortDesc_aux (τ : V → Bool) (l acc : List (Term V)) (hs : SortedDesc acc) :
    let r := l.foldl (fun acc x => insDesc x acc) acc
    SortedDesc r ∧ termsVal τ r = termsVal τ acc + termsVal τ l ∧ maxsum r = maxsum acc + maxsum l
      ∧ (∀ y, y ∈ r ↔ y ∈ acc ∨ y ∈ l) ∧ r.length = acc.length + l.length := by
  induction l generalizing acc with
  | nil => simp [termsVal, maxsum, hs]
  | cons a r ih =>
    have := ih (insDesc a acc) (sorted_insDesc hs)
    simp only [List.foldl] at this ⊢
    obtain ⟨h1, h2, h3, h4, h5⟩ := this
    refine ⟨h1, ?_, ?_, ?_, ?_⟩
    · rw [h2, termsVal_insDesc]; simp [termsVal]; omega
    · rw [h3, maxsum_insDesc]; simp [maxsum]; omega
    · intro y; rw [h4, mem_insDesc]; simp; constructor
      · rintro ((h | h) | h) <;> simp [h]
      · rintro (h | h | h) <;> simp [h]
    · rw [h5, length_insDesc]; simp; omega

theorem sorted_sortDesc (l : List (Term V)) : SortedDesc (sortDesc l) :=
  (sortDesc_aux (fun _ => true) l [] (by simp [SortedDesc])).1
theorem termsVal_sortDesc (τ : V → Bool) (l : List (Term V)) : termsVal τ (sortDesc l) = termsVal τ l := by
  have := (sortDesc_aux τ l [] (by simp [SortedDesc])).2.1; simp [termsVal] at this; exact this
theorem maxsum_sortDesc (l : List (Term V)) : maxsum (sortDesc l) = maxsum l := by
  have := (sortDesc_aux (fun _ => true) l [] (by simp [SortedDesc])).2.2.1; simp [maxsum] at this; exact this
theorem mem_sortDesc {l : List (Term V)} {y : Term V} : y ∈ sortDesc l ↔ y ∈ l := by
  have := (sortDesc_aux (fun _ => true) l [] (by simp [SortedDesc])).2.2.2.1 y; simpa [sortDesc] using this
theorem length_sortDesc (l : List (Term V)) : (sortDesc l).length = l.length := by
  have := (sortDesc_aux (fun _ => true) l [] (by simp [SortedDesc])).2.2.2.2; simpa [sortDesc] using this

/-! ### `isclause` -/
theorem accum_spec (rhs : Int) (s : Int) (l : List (Term V)) :
    accum rhs s l > rhs ∨ accum rhs s l = s + maxsum l := by
  induction l generalizing s with
  | nil => simp [accum, maxsum]
  | cons a r ih =>
    unfold accum
    split
    · rcases ih (s + a.c) with h | h
      · exact Or.inl h
      · right; simp [maxsum, h]; omega
    · left; omega

theorem isBig_mono (q : Ineq V) {a b : Term V} (h : b.c ≤ a.c) (hb : isBig q b = true) : isBig q a = true := by
  simp only [isBig, Bool.or_eq_true, Bool.and_eq_true, decide_eq_true_eq] at *
  rcases hb with hb | hb
  · left; omega
  · right; exact ⟨by omega, hb.2⟩

/-- in a list sorted by decreasing coefficient nothing behind the big prefix is big -/
theorem dropWhile_not_big (q : Ineq V) {l : List (Term V)} (hs : SortedDesc l) :
    ∀ t ∈ l.dropWhile (isBig q), isBig q t = false := by
  induction l with
  | nil => simp
  | cons a r ih =>
    simp only [SortedDesc, List.pairwise_cons] at hs
    simp only [List.dropWhile]
    split
    · exact ih hs.2
    · rename_i hna
      intro t ht
      simp at ht
      rcases ht with e | hm
      · subst e; simpa using hna
      · cases hb : isBig q t with
        | false => rfl
        | true => have := isBig_mono q (hs.1 t hm) hb; simp [this] at hna

theorem takeWhile_big (q : Ineq V) (l : List (Term V)) : ∀ t ∈ l.takeWhile (isBig q), isBig q t = true := by
  induction l with
  | nil => simp
  | cons a r ih =>
    simp only [List.takeWhile]
    split
    · rename_i h; intro t ht; simp at ht; rcases ht with e | hm
      · subst e; exact h
      · exact ih t hm
    · simp

theorem mem_of_mem_takeWhile' {p : Term V → Bool} {l : List (Term V)} {t : Term V} (h : t ∈ l.takeWhile p) : t ∈ l :=
  (List.takeWhile_sublist p).subset h
theorem mem_of_mem_dropWhile' {p : Term V → Bool} {l : List (Term V)} {t : Term V} (h : t ∈ l.dropWhile p) : t ∈ l :=
  (List.dropWhile_sublist p).subset h

/-- `Ineq.isclause` is exact on well-formed inequalities (positive coefficients, constant moved to the right):
    when it produces a clause the clause is equivalent to the constraint, when it claims a tautology the
    constraint holds under every assignment. -/
theorem isClause_exact' (q : Ineq V) (hpos : ∀ t ∈ q.lhs.t, 0 < t.c) (hc : q.lhs.c = 0) (τ : V → Bool) :
    (q.isClause = .taut → q.holds τ) ∧ (∀ c, q.isClause = .clause c → (clauseTrue τ c = true ↔ q.holds τ)) := by
  have hnn : ∀ t ∈ q.lhs.t, 0 ≤ t.c := fun t ht => Int.le_of_lt (hpos t ht)
  have hev : q.lhs.eval τ = termsVal τ (sortDesc q.lhs.t) := by simp [Expr.eval, hc, termsVal_sortDesc]
  have hsplit := List.takeWhile_append_dropWhile (p := isBig q) (l := sortDesc q.lhs.t)
  have hnn' : ∀ t ∈ sortDesc q.lhs.t, 0 ≤ t.c := fun t ht => hnn t (mem_sortDesc.1 ht)
  unfold Ineq.isClause
  split
  · simp
  · rename_i hop
    split
    · rename_i htaut
      refine ⟨fun _ => ?_, by simp⟩
      have h0 := termsVal_nonneg τ hnn'
      unfold Ineq.holds
      rcases htaut with h | ⟨h1, h2⟩
      · cases hq : q.op <;> simp [hq] at hop ⊢ <;> omega
      · simp [h2]; omega
    · rename_i hnt
      dsimp only
      split
      · simp
      · rename_i hs
        refine ⟨by simp, fun c hcl => ?_⟩
        simp only [ClauseRes.clause.injEq] at hcl
        subst hcl
        have hacc := accum_spec q.rhs 0 ((sortDesc q.lhs.t).dropWhile (isBig q))
        have hrestnn : ∀ t ∈ (sortDesc q.lhs.t).dropWhile (isBig q), 0 ≤ t.c :=
          fun t ht => hnn' t (mem_of_mem_dropWhile' ht)
        have hbignn : ∀ t ∈ (sortDesc q.lhs.t).takeWhile (isBig q), 0 ≤ t.c :=
          fun t ht => hnn' t (mem_of_mem_takeWhile' ht)
        have hle := termsVal_le_maxsum τ hrestnn
        have hval : q.lhs.eval τ = termsVal τ ((sortDesc q.lhs.t).takeWhile (isBig q))
            + termsVal τ ((sortDesc q.lhs.t).dropWhile (isBig q)) := by
          rw [hev, ← termsVal_append, hsplit]
        rw [clauseTrue_iff]
        simp only [pySortLits, List.mem_reverse, List.mem_map]
        constructor
        · rintro ⟨l, ⟨t, ht, rfl⟩, hl⟩
          have hb := takeWhile_big q _ t ht
          have h1 := termsVal_ge_mem τ hbignn ht
          have h2 := termsVal_nonneg τ hrestnn
          have hv : termVal τ t = t.c := by simp [termVal, litVal_eq_ite, hl]
          simp only [isBig, Bool.or_eq_true, Bool.and_eq_true, decide_eq_true_eq] at hb
          unfold Ineq.holds
          cases hq : q.op <;> simp [hq] at hop hb ⊢ <;> omega
        · intro hh
          apply Classical.byContradiction
          intro hno
          have hall : ∀ t ∈ (sortDesc q.lhs.t).takeWhile (isBig q), litTrue τ t.L = false := by
            intro t ht
            cases hl : litTrue τ t.L with
            | false => rfl
            | true => exact absurd ⟨t.L, ⟨t, ht, rfl⟩, hl⟩ hno
          have h0 := termsVal_all_false τ hall
          unfold Ineq.holds at hh
          have hs' : ¬(accum q.rhs 0 ((sortDesc q.lhs.t).dropWhile (isBig q)) > q.rhs) := fun h => hs (Or.inl h)
          rcases hacc with h | h
          · exact hs' h
          · cases hq : q.op <;> simp [hq] at hop hh hs <;> omega

end FV.PB

namespace FV.Sat
open FV.PB

/-! ### at-most-one, pairwise -/
/-- at most one literal of the list is true (a literal occurring twice counts twice) -/
def amo (τ : Var → Bool) (lst : List Lit) : Prop := lst.countP (litTrue τ) ≤ 1

theorem quad_head (τ : Var → Bool) (x : Lit) (r : List Lit) :
    cnfTrue τ (r.map (fun y => [x.neg, y.neg])) ↔ (litTrue τ x = true → r.countP (litTrue τ) = 0) := by
  induction r with
  | nil => simp [cnfTrue]
  | cons a r ih =>
    have : cnfTrue τ ((a :: r).map (fun y => [x.neg, y.neg]))
        ↔ clauseTrue τ [x.neg, a.neg] = true ∧ cnfTrue τ (r.map (fun y => [x.neg, y.neg])) := by
      simp [cnfTrue]
    rw [this, ih]
    simp only [clauseTrue, List.any_cons, List.any_nil, litTrue_neg, List.countP_cons]
    cases hx : litTrue τ x <;> cases ha : litTrue τ a <;> simp

theorem quadClauses_exact (τ : Var → Bool) (lst : List Lit) : cnfTrue τ (quadClauses lst) ↔ amo τ lst := by
  induction lst with
  | nil => simp [quadClauses, cnfTrue, amo]
  | cons x r ih =>
    simp only [quadClauses, cnfTrue_append, quad_head, ih, amo, List.countP_cons]
    cases hx : litTrue τ x
    · simp
    · simp only [forall_const, if_true]
      constructor
      · rintro ⟨h, _⟩; omega
      · intro h; exact ⟨by omega, by omega⟩

theorem imply_clause_exact (τ : Var → Bool) (l1 : List Lit) (l2 : Lit) :
    clauseTrue τ (l1.map Literal.neg ++ [l2]) = true ↔ ((∀ l ∈ l1, litTrue τ l = true) → litTrue τ l2 = true) := by
  simp only [clauseTrue, List.any_append, List.any_map, Bool.or_eq_true, List.any_eq_true, List.any_cons,
    List.any_nil, Bool.or_false, Function.comp]
  constructor
  · rintro (⟨l, hl, hn⟩ | h) hall
    · rw [litTrue_neg] at hn; simp [hall l hl] at hn
    · exact h
  · intro h
    by_cases hex : ∃ l ∈ l1, litTrue τ l = false
    · obtain ⟨l, hl, hn⟩ := hex
      exact Or.inl ⟨l, hl, by rw [litTrue_neg]; simp [hn]⟩
    · refine Or.inr (h fun l hl => ?_)
      cases hl' : litTrue τ l with
      | true => rfl
      | false => exact absurd ⟨l, hl, hl'⟩ hex

end FV.Sat

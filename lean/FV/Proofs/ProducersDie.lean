import FV.Proofs.Producers
import FV.Model.Die
/-
  C19 ∘ C01: the document `Die.write_yaml` produces, handed to the die CONSTRUCTOR model of C01 (`FV/Model/Die.lean`:
  `parseDie`, `dieCore`, `detPicks`), not only to the parsing layer `FV.Prod.readDie`.
  The two models use different tree types (`YVal` keeps the Python number tags, `Die.YV` holds numbers by value);
  `toYV` is the forgetful translation.
-/
namespace FV.Prod
open FV FV.NL
set_option linter.unusedSectionVars false
set_option linter.unusedSimpArgs false

section tr
variable {α : Type} [Neg α] [NatCast α]

/-- a map key as the die-constructor model sees it (its keys are strings; any non-string key is not a keyword). -/
def keyStr : YVal α → String
  | .str s => s
  | _ => "\x00non-string-key"

mutual
/-- the document tree of C19 (`YVal`, numbers with their Python tag) as the tree type of the die-constructor model of
    C01 (`Die.YV`, numbers by value: `is_number` treats `bool`, `int`, `float` alike). -/
def toYV : YVal α → Die.YV α
  | .null => .null
  | .bool b => .num (Num.val (.b b))
  | .int i => .num (intToSc i)
  | .float x => .num x
  | .str s => .str s
  | .seq l => .list (toYVs l)
  | .map l => .map (toYVm l)
def toYVs : List (YVal α) → List (Die.YV α)
  | [] => []
  | x :: r => toYV x :: toYVs r
def toYVm : List (YVal α × YVal α) → List (String × Die.YV α)
  | [] => []
  | kv :: r => (keyStr kv.1, toYV kv.2) :: toYVm r
end

theorem toYVs_eq_map (l : List (YVal α)) : toYVs l = l.map toYV := by
  induction l with
  | nil => rfl
  | cons x r ih => simp [toYVs, ih]

theorem toYV_ofNum (n : Num α) : toYV (YVal.ofNum n) = .num n.val := by
  cases n <;> simp [YVal.ofNum, toYV, Num.val]

end tr

section ctor
variable {α : Type} [Field α] [LinearOrder α] [IsStrictOrderedRing α]

/-- the `Rectangle` the die constructor holds ↔ the vector spec the writer emits. -/
def ofRect (r : Rect α) : VRect α := { cx := .f r.cx, cy := .f r.cy, w := .f r.w, h := .f r.h, region := r.region }

/-- a region as `parse_die_rectangle` + `Rectangle.__init__` admit it (in the terms of the C01 model). -/
def RegionOk (r : Rect α) : Prop :=
  0 ≤ r.cx ∧ 0 ≤ r.cy ∧ 0 < r.w ∧ 0 < r.h ∧ (Die.validIdentifier r.region = true ∨ r.region = "#") ∧ r.region ≠ "_" ∧
  r.fixed = false ∧ r.hard = false ∧ r.loc = .nopoly

/-- the die object (what `write_yaml` reads) of a constructed die with parsed input `inp`. -/
def dieObjOfIn (inp : Die.DieIn α) : DieObj α :=
  { width := .f inp.W, height := .f inp.H, blockages := (Die.blockOf inp).map ofRect,
    specialised := (Die.specOf inp).map ofRect }

theorem die_parseRect_written (r : Rect α) (h : RegionOk r) : Die.parseRect (toYV (ofRect r).toY) = .ok r := by
  obtain ⟨cx, cy, w, hh, region, fixed, hard, loc⟩ := r
  obtain ⟨h1, h2, h3, h4, h5, h6, h7, h8, h9⟩ := h
  simp only at h1 h2 h3 h4 h5 h6 h7 h8 h9
  subst h7 h8 h9
  have e : toYV (ofRect (α := α) { cx := cx, cy := cy, w := w, h := hh, region := region }).toY
      = .list [.num cx, .num cy, .num w, .num hh, .str region] := by
    simp [ofRect, VRect.toY, toYV, toYVs, YVal.ofNum]
  rw [e]
  have h3' := le_of_lt h3
  have h4' := le_of_lt h4
  rcases h5 with h5 | h5 <;>
    simp [Die.parseRect, Rect.zero, h1, h2, h3, h4, h3', h4', h5, h6, Die.KW_GROUND, Die.KW_BLOCKAGE]


theorem die_mapE_written (l : List (Rect α)) (h : ∀ r ∈ l, RegionOk r) :
    Die.mapE Die.parseRect (l.map fun r => toYV (ofRect r).toY) = .ok l := by
  induction l with
  | nil => rfl
  | cons x r ih =>
    have h1 := die_parseRect_written x (h x (by simp))
    have h2 := ih (fun y hy => h y (List.mem_cons_of_mem _ hy))
    simp [Die.mapE, h1, h2]

/-- what the die constructor's parser makes of the document `write_yaml` produces for a die built from `inp`:
    same size, the blockages followed by the specialised regions. -/
def rereadIn (inp : Die.DieIn α) : Die.DieIn α :=
  { W := inp.W, H := inp.H, regions := Die.blockOf inp ++ Die.specOf inp }

theorem die_parse_written (inp : Die.DieIn α) (hW : 0 < inp.W) (hH : 0 < inp.H)
    (hr : ∀ r ∈ inp.regions, RegionOk r) :
    Die.parseDie (toYV (writeDie (dieObjOfIn inp)).1) = .ok (rereadIn inp) := by
  have hall : ∀ r ∈ Die.blockOf inp ++ Die.specOf inp, RegionOk r := by
    intro r hm
    rcases List.mem_append.mp hm with hm | hm
    · exact hr r (List.mem_filter.mp hm).1
    · exact hr r (List.mem_filter.mp hm).1
  have hmap := die_mapE_written _ hall
  cases hre : Die.blockOf inp ++ Die.specOf inp with
  | nil =>
    have hb : Die.blockOf inp = [] := (List.append_eq_nil_iff.mp hre).1
    have hs : Die.specOf inp = [] := (List.append_eq_nil_iff.mp hre).2
    simp [writeDie, dieObjOfIn, hb, hs, toYV, toYVm, keyStr, YVal.ofNum, Die.parseDie, Die.lookup, Rect.zero, hW, hH,
      rereadIn]
  | cons x xs =>
    rw [hre] at hmap
    have hx : (Die.blockOf inp).map ofRect ++ (Die.specOf inp).map ofRect = ofRect x :: xs.map ofRect := by
      rw [← List.map_append, hre]; rfl
    simp only [List.map_cons] at hmap
    have hx0 : toYV (ofRect x).toY = .list [.num x.cx, .num x.cy, .num x.w, .num x.h, .str x.region] := by
      simp [ofRect, VRect.toY, toYV, toYVs, YVal.ofNum]
    simp only [writeDie, dieObjOfIn, hx, List.map_cons, List.isEmpty_cons, Bool.false_eq_true, if_false]
    simp only [toYV, toYVm, toYVs, keyStr, YVal.ofNum, List.cons_append, List.nil_append, toYVs_eq_map, List.map_map,
      Function.comp_def] at hmap ⊢
    rw [hx0] at hmap
    simp [Die.parseDie, Die.lookup, Rect.zero, hW, hH, hx0, hmap, rereadIn, hre]

theorem blockOf_reread (inp : Die.DieIn α) : Die.blockOf (rereadIn inp) = Die.blockOf inp := by
  simp [rereadIn, Die.blockOf, Die.specOf, List.filter_append, List.filter_filter]

theorem specOf_reread (inp : Die.DieIn α) : Die.specOf (rereadIn inp) = Die.specOf inp := by
  simp [rereadIn, Die.blockOf, Die.specOf, List.filter_append, List.filter_filter]

/-- the constructor of C01 reads its input only through the size, the specialised regions and the blockages. -/
theorem die_ctor_reread (ε : Die.Eps α) (inp : Die.DieIn α) (fixed : List (Rect α)) (picks : List Die.IRect) :
    Die.dieCore ε (rereadIn inp) fixed picks = Die.dieCore ε inp fixed picks ∧
    Die.detPicks ε (rereadIn inp) fixed = Die.detPicks ε inp fixed := by
  have hb := blockOf_reread inp
  have hs := specOf_reread inp
  constructor
  · simp only [Die.dieCore, Die.gridOf, Die.occRects, hb, hs]; rfl
  · simp only [Die.detPicks, Die.gridOf, Die.occRects, hb, hs]; rfl

/-- the die constructor model's transcription of `valid_identifier` is the one of the netlist / producer models. -/
theorem die_validIdentifier_eq (s : String) : Die.validIdentifier s = FV.validIdent s := by
  unfold Die.validIdentifier FV.validIdent validIdentChars
  cases s.toList with
  | nil => rfl
  | cons c cs => rfl

end ctor
end FV.Prod

import FV.Proofs.InitAlloc
import FV.Props.C01
/-
  Bridge between the die model of C01 (`FV/Model/Die.lean`, theorems `FV.C01.die_complete` / `die_sound`) and the
  initial-allocation model of C03: for a `ValidDie` input and any accepted pick sequence, the cell lists that
  `create_initial_allocation` starts from satisfy the hypotheses (`CellsProper`, `FixedOK`, exact tiling) that the
  C03 theorems take.

  ADAPTER (stated, not proved — it is the reading of three Python one-liners):
    * `die.floorplanning_rectangles()` = `(specialized_regions + ground_regions, fixed_regions)`
        ↦ `refinableOf out = out.specialized ++ out.ground`, `out.fixed`;
    * `netlist.fixed_rectangles()` = `[r for r in netlist.rectangles if r.fixed]`, the rectangles of the fixed modules
      in module order (a module's rectangles carry its `fixed` flag)  ↦  `netFixedRects mods`;
    * the die record `DieOut` holds `Rect`s, the allocation cells are `Rect`s too: no conversion of rectangles.
-/
namespace FV.InitAlloc
open FV FV.Rect
set_option linter.unusedSectionVars false
set_option linter.unusedSimpArgs false
set_option linter.unusedVariables false

variable {α : Type} [Field α] [LinearOrder α] [IsStrictOrderedRing α]

/-- first component of `die.floorplanning_rectangles()`. -/
def refinableOf (out : Die.DieOut α) : List (Rect α) := out.specialized ++ out.ground

/-- `netlist.fixed_rectangles()`: the rectangles of the fixed modules, in module order. -/
def netFixedRects (mods : List (Module α)) : List (Rect α) := (mods.filter (·.fixed)).flatMap (·.rects)

theorem mem_netFixedRects (mods : List (Module α)) (r : Rect α) :
    r ∈ netFixedRects mods ↔ ∃ m ∈ mods, m.fixed = true ∧ r ∈ m.rects := by
  simp only [netFixedRects, List.mem_flatMap, List.mem_filter]
  constructor
  · rintro ⟨m, ⟨hm, hf⟩, hr⟩; exact ⟨m, hm, hf, hr⟩
  · rintro ⟨m, hm, hf, hr⟩; exact ⟨m, ⟨hm, hf⟩, hr⟩

/-- what C01 gives for a valid die and an accepted pick sequence, in one record. -/
structure DieFacts (inp : Die.DieIn α) (fixed : List (Rect α)) (out : Die.DieOut α) : Prop where
  exact : C01.ExactTiling out
  W_eq : out.W = inp.W
  H_eq : out.H = inp.H
  spec_eq : out.specialized = Die.specOf inp
  block_eq : out.blockages = Die.blockOf inp
  fixed_eq : out.fixed = fixed
  ground_ok : ∀ g ∈ out.ground, g.region = Die.KW_GROUND ∧ g.fixed = false ∧ g.hard = false ∧ 0 < g.w ∧ 0 < g.h
  regions_ok : ∀ r ∈ inp.regions, r.fixed = false ∧ r.hard = false ∧ 0 < r.w ∧ 0 < r.h
  size_pos : 0 < inp.W ∧ 0 < inp.H

/-- **C01 in one step**: a valid die with an accepted pick sequence is returned and `DieFacts` holds of the result. -/
theorem die_facts (sqrt : α → α) (st : Option (α × α)) (doc : Die.YV α) (fixed : List (Rect α)) (inp : Die.DieIn α)
    (hp : Die.parseDie doc = .ok inp)
    (hεd : 0 ≤ (Die.mkEps sqrt st inp.W inp.H).1.d) (hεa : 0 ≤ (Die.mkEps sqrt st inp.W inp.H).1.a)
    (hv : C01.ValidDie (Die.mkEps sqrt st inp.W inp.H).1.d inp fixed) (picks : List Die.IRect)
    (hacc : Die.coverAccept ((Die.gridOf (Die.mkEps sqrt st inp.W inp.H).1 inp fixed).2.length - 1)
      ((Die.gridOf (Die.mkEps sqrt st inp.W inp.H).1 inp fixed).1.length - 1)
      (Die.occ (Die.gridOf (Die.mkEps sqrt st inp.W inp.H).1 inp fixed).1
        (Die.gridOf (Die.mkEps sqrt st inp.W inp.H).1 inp fixed).2 (Die.occRects inp fixed)) picks = true) :
    ∃ out, Die.dieModel sqrt st doc fixed (some picks) =
        .ok (out, (Die.mkEps sqrt st inp.W inp.H).1, (Die.mkEps sqrt st inp.W inp.H).2) ∧
      DieFacts inp fixed out := by
  obtain ⟨out, hrun, hex, _⟩ := C01.die_complete sqrt st doc fixed inp hp hεd hεa hv picks hacc
  obtain ⟨inp', hp', _, _, e1, e2, e3, e4, e5, hg, _⟩ := C01.die_sound sqrt st doc fixed (some picks) out _ _ hrun
  rw [hp] at hp'
  simp only [Except.ok.injEq] at hp'
  subst hp'
  obtain ⟨kv, _, _, _, hW, hH, hregs⟩ := C01.parseDie_ok doc inp hp
  refine ⟨out, hrun, hex, e1, e2, e3, e4, e5, hg, ?_, hW, hH⟩
  intro r hr
  rcases hregs with ⟨_, hnil⟩ | ⟨ys, _, _, hall⟩
  · rw [hnil] at hr; simp at hr
  · obtain ⟨y, _, hy⟩ := Die.forall2_mem_right hall r hr
    obtain ⟨_, f1, f2, _, _, f3, f4, _⟩ := C01.parseRect_ok y r hy
    exact ⟨f1, f2, f3, f4⟩

section bridge
variable {inp : Die.DieIn α} {fixed : List (Rect α)} {out : Die.DieOut α}

theorem DieFacts.all_eq (hd : DieFacts inp fixed out) :
    out.all = refinableOf out ++ (out.blockages ++ out.fixed) := by
  simp [Die.DieOut.all, refinableOf, List.append_assoc]

theorem DieFacts.mem_spec (hd : DieFacts inp fixed out) {r : Rect α} (hr : r ∈ out.specialized) : r ∈ inp.regions := by
  rw [hd.spec_eq] at hr; exact (List.mem_filter.mp hr).1

theorem DieFacts.mem_block (hd : DieFacts inp fixed out) {r : Rect α} (hr : r ∈ out.blockages) : r ∈ inp.regions := by
  rw [hd.block_eq] at hr; exact (List.mem_filter.mp hr).1

/-- every reported rectangle is a proper rectangle (`ValidDie.pos` for the inputs, C01 for the ground regions). -/
theorem DieFacts.all_pos (hd : DieFacts inp fixed out) (hfp : ∀ r ∈ fixed, 0 < r.w ∧ 0 < r.h) :
    ∀ r ∈ out.all, 0 < r.w ∧ 0 < r.h := by
  intro r hr
  simp only [Die.DieOut.all, List.mem_append] at hr
  rcases hr with ((hr | hr) | hr) | hr
  · exact (hd.regions_ok r (hd.mem_spec hr)).2.2
  · exact (hd.ground_ok r hr).2.2.2
  · exact (hd.regions_ok r (hd.mem_block hr)).2.2
  · rw [hd.fixed_eq] at hr; exact hfp r hr

theorem DieFacts.cellsProper (hd : DieFacts inp fixed out) (hfp : ∀ r ∈ fixed, 0 < r.w ∧ 0 < r.h) :
    CellsProper (refinableOf out ++ out.fixed) := by
  intro c hc
  apply hd.all_pos hfp
  simp only [refinableOf, Die.DieOut.all, List.mem_append] at hc ⊢
  rcases hc with (hc | hc) | hc
  · exact Or.inl (Or.inl (Or.inl hc))
  · exact Or.inl (Or.inl (Or.inr hc))
  · exact Or.inr hc

/-- the cells handed to the allocation do not overlap each other. -/
theorem DieFacts.cells_disjoint (hd : DieFacts inp fixed out) :
    (refinableOf out ++ out.fixed).Pairwise NoOverlap := by
  have h := hd.exact.disjoint
  rw [hd.all_eq] at h
  refine List.Pairwise.sublist ?_ h
  exact List.Sublist.append (List.Sublist.refl _) (List.sublist_append_right _ _)

theorem DieFacts.refinable_unflagged (hd : DieFacts inp fixed out) : ∀ c ∈ refinableOf out, c.fixed = false := by
  intro c hc
  simp only [refinableOf, List.mem_append] at hc
  rcases hc with hc | hc
  · exact (hd.regions_ok c (hd.mem_spec hc)).1
  · exact (hd.ground_ok c hc).2.1

end bridge

/-- pairwise non-overlap of a `flatMap` separates the rectangles of different modules. -/
theorem fixed_apart_of_pairwise (mods : List (Module α))
    (hpw : (netFixedRects mods).Pairwise fun a b => a.areaOverlap b = 0)
    (m1 : Module α) (h1 : m1 ∈ mods) (m2 : Module α) (h2 : m2 ∈ mods) (f1 : m1.fixed = true) (f2 : m2.fixed = true)
    (hne : m1.name ≠ m2.name) : ∀ r1 ∈ m1.rects, ∀ r2 ∈ m2.rects, r1.areaOverlap r2 = 0 := by
  unfold netFixedRects at hpw
  rw [List.pairwise_flatMap] at hpw
  have : Std.Symm (fun a₁ a₂ : Module α => ∀ x ∈ a₁.rects, ∀ y ∈ a₂.rects, x.areaOverlap y = 0) :=
    ⟨fun a b hab x hx y hy => by rw [areaOverlap_comm']; exact hab y hy x hx⟩
  exact hpw.2.forall (List.mem_filter.mpr ⟨h1, f1⟩) (List.mem_filter.mpr ⟨h2, f2⟩) (fun e => hne (by rw [e]))

/-- **FixedOK from C01**: with the netlist's fixed rectangles as the die's fixed regions, the cell list of a valid die
    satisfies `FixedOK`.  Netlist side condition: fixed modules have rectangles (they are hard). -/
theorem DieFacts.fixedOK {inp : Die.DieIn α} {out : Die.DieOut α} (mods : List (Module α))
    (hd : DieFacts inp (netFixedRects mods) out) (hrects : ∀ m ∈ mods, m.fixed = true → m.rects ≠ []) :
    FixedOK mods (refinableOf out ++ out.fixed) where
  cells_disjoint := hd.cells_disjoint
  fixed_have_rects := hrects
  fixed_are_cells := by
    intro m hm hf r hr
    refine ⟨r, List.mem_append_right _ ?_, rfl, rfl, rfl, rfl⟩
    rw [hd.fixed_eq]; exact (mem_netFixedRects mods r).mpr ⟨m, hm, hf, hr⟩
  fixed_apart := by
    have h := hd.cells_disjoint
    rw [List.pairwise_append] at h
    have hf := h.2.1
    rw [hd.fixed_eq] at hf
    exact fun m1 h1 m2 h2 f1 f2 hne => fixed_apart_of_pairwise mods hf m1 h1 m2 h2 f1 f2 hne

/-! ### which cells stay refinable -/

theorem restCells_rects (iz : Bool) (mods' fm : List (Module α)) (l1 l2 : List (Rect α))
    (h1 : ∀ c ∈ l1, owners fm c = [] ∧ c.fixed = false) (h2 : ∀ c ∈ l2, owners fm c ≠ []) :
    (restCells iz mods' fm (cells0 l1 l2)).map (·.rect) = l1 := by
  unfold restCells cells0
  induction l1 with
  | nil =>
    simp only [List.nil_append]
    induction l2 with
    | nil => simp
    | cons c cs ih =>
      have hne := h2 c List.mem_cons_self
      have hf : (flagged fm (⟨c, [], 0⟩ : Cell α)).rect.fixed = true := by
        cases ho : owners fm c with
        | nil => exact absurd ho hne
        | cons x xs => simp [flagged, ho]
      simp only [List.map_cons, List.filter_cons, hf, Bool.not_true, Bool.false_eq_true, ↓reduceIte]
      exact ih (fun x hx => h2 x (List.mem_cons_of_mem _ hx))
  | cons c cs ih =>
    obtain ⟨ho, hcf⟩ := h1 c List.mem_cons_self
    have e : (flagged fm (⟨c, [], 0⟩ : Cell α)).rect = c := by simp [flagged, ho]
    simp only [List.cons_append, List.map_cons, List.filter_cons, e, hcf, Bool.not_false, ↓reduceIte]
    rw [ih (fun x hx => h1 x (List.mem_cons_of_mem _ hx))]

theorem preCells_fixed (fm : List (Module α)) (cells : List (Cell α)) :
    (preCells fm cells).filter (fun c => !c.rect.fixed) = [] := by
  rw [List.filter_eq_nil_iff]
  intro c hc
  obtain ⟨c0, _, n, _, rfl⟩ := (mem_preCells fm cells c).mp hc
  simp

theorem restCells_nonfixed (iz : Bool) (mods' fm : List (Module α)) (cells : List (Cell α)) :
    (restCells iz mods' fm cells).filter (fun c => !c.rect.fixed) = restCells iz mods' fm cells := by
  rw [List.filter_eq_self]
  intro c hc
  obtain ⟨c0, _, _, hf, rfl⟩ := (mem_restCells iz mods' fm cells c).mp hc
  simp [hf]

/-- **the cells that stay refinable are exactly the die's refinable regions**: if the refinable cells are not flagged
    and do not overlap the fixed cells, and the fixed cells are the fixed modules' rectangles, then the returned cells
    that are not fixed modules' are `refinable`, in order. -/
theorem nonfixed_rects_eq (sqrt : α → α) (εA : α) (iz : Bool) (mods : List (Module α)) (refinable fixed : List (Rect α))
    (A : Allocation α) (h : createInitialAllocation sqrt εA iz mods refinable fixed = .ok A)
    (hn : NetOK sqrt mods) (hc : CellsProper (refinable ++ fixed)) (hf : FixedOK mods (refinable ++ fixed))
    (hfix : fixed = netFixedRects mods) (hunf : ∀ c ∈ refinable, c.fixed = false) :
    (A.cells.filter fun c => !c.rect.fixed).map (·.rect) = refinable := by
  obtain ⟨_, hcells, _⟩ := cia_ok sqrt εA iz mods refinable fixed A h
  rw [hcells, List.filter_append, preCells_fixed, restCells_nonfixed, List.nil_append]
  apply restCells_rects
  · intro c hcm
    refine ⟨?_, hunf c hcm⟩
    by_contra hne
    obtain ⟨n, hn'⟩ := List.exists_mem_of_ne_nil _ hne
    obtain ⟨m'', hm'', _, hratio⟩ := (mem_owners _ _ _).mp hn'
    obtain ⟨m', hm', hfx, rfl⟩ := (mem_fixedMods sqrt mods m'').mp hm''
    simp only at hratio
    rw [ratioIn_eq, shapeOf_of_rects sqrt m' (hf.fixed_have_rects m' hm' hfx)] at hratio
    have hcp := hc c (List.mem_append_left _ hcm)
    have hpos : 0 < overlapSum c m'.rects / c.area := by linarith [eps6_lt_one (α := α)]
    rw [div_pos_iff_of_pos_right (area_pos c hcp.1 hcp.2)] at hpos
    obtain ⟨r, hr, hov⟩ := (overlapSum_pos_iff c m'.rects).mp hpos
    have hrf : r ∈ fixed := by rw [hfix]; exact (mem_netFixedRects mods r).mpr ⟨m', hm', hfx, hr⟩
    have := (List.pairwise_append.mp hf.cells_disjoint).2.2 c hcm r hrf
    unfold NoOverlap at this
    linarith
  · intro c hcm
    rw [hfix] at hcm
    obtain ⟨m, hm, hfx, hr⟩ := (mem_netFixedRects mods c).mp hcm
    have := (owners_of_fixed_cell hn hf hm hfx hr ⟨rfl, rfl, rfl, rfl⟩ m.name).mpr rfl
    intro he; rw [he] at this; simp at this

/-- the die rectangle and "inside the die". -/
theorem inside_dieRect (W H : α) (r : Rect α) (h : 0 ≤ r.xmin ∧ r.xmax ≤ W ∧ 0 ≤ r.ymin ∧ r.ymax ≤ H) :
    Inside r (Die.dieRect W H) := by
  obtain ⟨h1, h2, h3, h4⟩ := h
  simp only [Inside, Die.dieRect, xmin, xmax, ymin, ymax, two_eq] at h1 h2 h3 h4 ⊢
  refine ⟨by linarith, by linarith, by linarith, by linarith⟩

end FV.InitAlloc

import FV.Proofs.Producers
import FV.Proofs.Alloc
/-
  C19 ∘ C02: the document `Allocation.write_yaml` produces, handed to the allocation CONSTRUCTOR model of C02/C12
  (`FV/Model/Alloc.lean`: `mkAllocation` = `_parse_yaml_tree`, bounding box, tolerances, `_check_no_overlap`,
  `_calculate_areas_and_centers`), not only to the parsing layer `FV.Prod.readAlloc`.
  The document tree (`YVal`, numbers with their Python tag) is translated to the constructor model's input descriptors
  (`Alloc.RawCell`, numbers by value) by `rawOfTree`.
  REPAIRED (fixes/C19_alloc_fixed_mark.diff): the `fixed` mark of a cell's rectangle is part of the document (fourth entry
  `fixed` of a descriptor) and the reader restores it: `mkAllocationDoc` = `_parse_yaml_tree` with the mark, then the rest of
  the constructor.  NOT carried by the document: the marks `hard` and STOG location of a cell's rectangle, which no
  allocation operation reads: the re-read rectangles carry the defaults for these two (`stripCell`).
-/
namespace FV.Prod
open FV FV.NL
set_option linter.unusedSectionVars false
set_option linter.unusedSimpArgs false
set_option linter.unusedVariables false

section tr
variable {α : Type} [Neg α] [NatCast α]

/-- `[x, y, w, h]` / `[x, y, w, h, region]` as an allocation descriptor's rectangle. -/
def rawOfRect : YVal α → Option (Alloc.RawRect α)
  | .seq [a, b, c, d] =>
    match a.num?, b.num?, c.num?, d.num? with
    | some x, some y, some w, some h => some (.vec x.val y.val w.val h.val none)
    | _, _, _, _ => none
  | .seq [a, b, c, d, .str s] =>
    match a.num?, b.num?, c.num?, d.num? with
    | some x, some y, some w, some h => some (.vec x.val y.val w.val h.val (some s))
    | _, _, _, _ => none
  | _ => none

def rawOfEntry (kv : YVal α × YVal α) : Option (String × α) :=
  match kv.1.str?, kv.2.num? with
  | some k, some v => some (k, v.val)
  | _, _ => none

/-- `isinstance(depth, int)`. -/
def rawOfDepth : YVal α → Option Int
  | .int i => some i
  | .bool b => some (if b then 1 else 0)
  | _ => none

/-- `alloc[3] == KW_FIXED`. -/
def rawOfMark : YVal α → Option Bool
  | .str s => if s = kwFixed then some true else none
  | _ => none

/-- one allocation descriptor `[rectangle, {module: ratio}, depth?, fixed?]`: the constructor model's descriptor and the
    mark (REPAIRED reader). -/
def rawOfCell : YVal α → Option (Alloc.RawCell α × Bool)
  | .seq [r, .map l] =>
    match rawOfRect r, l.mapM rawOfEntry with
    | some rr, some al => some (⟨rr, al, 0⟩, false)
    | _, _ => none
  | .seq [r, .map l, d] =>
    match rawOfRect r, l.mapM rawOfEntry, rawOfDepth d with
    | some rr, some al, some dd => some (⟨rr, al, dd⟩, false)
    | _, _, _ => none
  | .seq [r, .map l, d, m] =>
    match rawOfRect r, l.mapM rawOfEntry, rawOfDepth d, rawOfMark m with
    | some rr, some al, some dd, some fx => some (⟨rr, al, dd⟩, fx)
    | _, _, _, _ => none
  | _ => none

/-- the allocation document as the list of descriptors `Allocation.__init__` iterates over (`none`: not of that shape). -/
def rawOfTree : YVal α → Option (List (Alloc.RawCell α × Bool))
  | .seq l => l.mapM rawOfCell
  | _ => none

/-- the cell of the allocation object (`FV.Alloc.Cell`, numbers by value) as the writer model reads it. -/
def ofACell (c : Alloc.Cell α) : Cell α :=
  { rect := { cx := .f c.rect.cx, cy := .f c.rect.cy, w := .f c.rect.w, h := .f c.rect.h, region := c.rect.region },
    alloc := c.alloc.map fun kv => (kv.1, .f kv.2), depth := c.depth, fixed := c.rect.fixed }

/-- the descriptor (and mark) the written document holds for a cell. -/
def docRaw (c : Alloc.Cell α) : Alloc.RawCell α × Bool :=
  (⟨.vec c.rect.cx c.rect.cy c.rect.w c.rect.h (some c.rect.region), c.alloc, (c.depth : Int)⟩, c.rect.fixed)

theorem mapM_rawOfEntry (al : List (String × α)) :
    (al.map fun kv => ((YVal.str kv.1 : YVal α), YVal.ofNum (Num.f kv.2))).mapM rawOfEntry = some al := by
  induction al with
  | nil => rfl
  | cons x r ih =>
    simp only [List.map_cons, List.mapM_cons, ih]
    simp [rawOfEntry, YVal.str?, YVal.num?, YVal.ofNum, Num.val]

theorem rawOfCell_written (c : Alloc.Cell α) : rawOfCell (ofACell c).toY = some (docRaw c) := by
  have hr : rawOfRect (ofACell c).rect.toY = some (.vec c.rect.cx c.rect.cy c.rect.w c.rect.h (some c.rect.region)) := by
    simp [rawOfRect, ofACell, VRect.toY, YVal.num?, YVal.ofNum, Num.val]
  have ha : ((ofACell c).alloc.map fun kv => ((YVal.str kv.1 : YVal α), YVal.ofNum kv.2)).mapM rawOfEntry = some c.alloc := by
    have := mapM_rawOfEntry (α := α) c.alloc
    simpa [ofACell, List.map_map, Function.comp_def] using this
  have hf : (ofACell c).fixed = c.rect.fixed := rfl
  have hdp : (ofACell c).depth = c.depth := rfl
  cases hfx : c.rect.fixed with
  | true =>
    simp only [Cell.toY, hf, hfx, or_true, if_true, List.cons_append, List.nil_append, rawOfCell, hr, ha, rawOfDepth,
      rawOfMark, docRaw, hdp]
  | false =>
    by_cases hd : c.depth > 0
    · have hd' : (ofACell c).depth > 0 := hd
      simp only [Cell.toY, hf, hfx, hd, hd', or_false, if_true, Bool.false_eq_true, if_false, List.cons_append,
        List.nil_append, List.append_nil, rawOfCell, hr, ha, rawOfDepth, docRaw, hdp]
    · have hd' : ¬ (ofACell c).depth > 0 := hd
      have h0 : c.depth = 0 := by omega
      simp only [Cell.toY, hf, hfx, hd', or_false, Bool.false_eq_true, if_false, List.append_nil, rawOfCell, hr, ha,
        docRaw, h0]
      rfl

theorem mapM_map_some {β γ δ : Type} (f : γ → Option δ) (g : β → γ) (k : β → δ) (l : List β)
    (h : ∀ x, f (g x) = some (k x)) : (l.map g).mapM f = some (l.map k) := by
  induction l with
  | nil => rfl
  | cons x r ih => simp [List.mapM_cons, h, ih]

theorem rawOfTree_written (cs : List (Alloc.Cell α)) :
    rawOfTree (writeAlloc (cs.map ofACell)).1 = some (cs.map docRaw) := by
  simp only [writeAlloc, rawOfTree, List.map_map]
  exact mapM_map_some rawOfCell (Cell.toY ∘ ofACell) docRaw cs (fun c => rawOfCell_written c)

end tr

section ctor
variable {α : Type} [Field α] [LinearOrder α] [IsStrictOrderedRing α]
open FV.Alloc in
/-- what is left of a cell after a trip through the document (REPAIRED format): geometry, region, ratio map, depth and
    the `fixed` mark are kept; `hard` and the STOG location — which no allocation operation reads — are reset. -/
def stripCell (c : Alloc.Cell α) : Alloc.Cell α :=
  { c with rect := { cx := c.rect.cx, cy := c.rect.cy, w := c.rect.w, h := c.rect.h, region := c.rect.region,
                     fixed := c.rect.fixed } }

/-- what was left of a cell on the code AS FOUND: the `fixed` mark is gone too. -/
def stripCellOrig (c : Alloc.Cell α) : Alloc.Cell α :=
  { c with rect := { cx := c.rect.cx, cy := c.rect.cy, w := c.rect.w, h := c.rect.h, region := c.rect.region } }

/-- `rect.fixed = True` when the descriptor carries the mark. -/
def markCell (fx : Bool) (c : Alloc.Cell α) : Alloc.Cell α :=
  if fx then { c with rect := { c.rect with fixed := true } } else c

/-- one iteration of the REPAIRED `_parse_yaml_tree`: the asserts and `parse_yaml_rectangle` of C02's `parseCell`, then the
    mark. -/
def parseCellDoc (d : Alloc.RawCell α × Bool) : Except Alloc.AErr (Alloc.Cell α) :=
  match Alloc.parseCell d.1 with
  | .error e => .error e
  | .ok c => .ok (markCell d.2 c)

/-- `Allocation(document)` (REPAIRED): `_parse_yaml_tree` with the marks, then the rest of the constructor — bounding
    box, tolerances, `_check_no_overlap`, `_calculate_areas_and_centers` — which is C02's `mkAllocation` on the cells just
    built (descriptors holding `Rectangle` objects are taken as they are). -/
def mkAllocationDoc (env : Alloc.Env α) (st : Alloc.Eps α) (raws : List (Alloc.RawCell α × Bool)) :
    Except Alloc.AErr (Alloc.Allocation α × Alloc.Eps α) :=
  match Alloc.mapE parseCellDoc raws with
  | .error e => .error e
  | .ok cells => Alloc.mkAllocation env st (cells.map Alloc.Cell.toRaw)

theorem parseCell_docRaw (c : Alloc.Cell α) (hg : Alloc.CellGood c) (hr : Alloc.validIdent c.rect.region = true)
    (ha : Alloc.allocOK c.alloc = true) : parseCellDoc (docRaw c) = .ok (stripCell c) := by
  obtain ⟨hw, hh, hx, hy⟩ := hg
  have hcx : 0 ≤ c.rect.cx := by
    have : c.rect.cx = c.rect.xmin + c.rect.w / 2 := by simp [Rect.xmin, Rect.two_eq]
    rw [this]; positivity
  have hcy : 0 ≤ c.rect.cy := by
    have : c.rect.cy = c.rect.ymin + c.rect.h / 2 := by simp [Rect.ymin, Rect.two_eq]
    rw [this]; positivity
  have hdn : ¬ ((c.depth : Int) < 0) := by omega
  cases hfx : c.rect.fixed <;>
  simp [parseCellDoc, markCell, Alloc.parseCell, docRaw, Alloc.parseRect, Rect.zero_eq, hcx, hcy, hw, hh, le_of_lt hw,
    le_of_lt hh, hr, ha, stripCell, hfx, hdn]


theorem amapE_map_ok' {β γ δ ε : Type} (f : γ → Except ε δ) (g : β → γ) (k : β → δ) (l : List β)
    (H : ∀ x ∈ l, f (g x) = .ok (k x)) : Alloc.mapE f (l.map g) = .ok (l.map k) := by
  induction l with
  | nil => rfl
  | cons x r ih =>
    have h1 := H x (by simp)
    have h2 := ih (fun y hy => H y (List.mem_cons_of_mem _ hy))
    simp [Alloc.mapE, h1, h2]

theorem strip_xmin (c : Alloc.Cell α) : (stripCell c).rect.xmin = c.rect.xmin := rfl
theorem strip_xmax (c : Alloc.Cell α) : (stripCell c).rect.xmax = c.rect.xmax := rfl
theorem strip_ymin (c : Alloc.Cell α) : (stripCell c).rect.ymin = c.rect.ymin := rfl
theorem strip_ymax (c : Alloc.Cell α) : (stripCell c).rect.ymax = c.rect.ymax := rfl

theorem boundingBox_strip (cs : List (Alloc.Cell α)) :
    Alloc.boundingBox (cs.map stripCell) = Alloc.boundingBox cs := by
  cases cs with
  | nil => rfl
  | cons c r =>
    simp only [List.map_cons, Alloc.boundingBox, List.foldl_map, strip_xmin, strip_xmax, strip_ymin, strip_ymax]

theorem overlap_strip (ε : α) (c d : Alloc.Cell α) :
    Rect.overlap ε (stripCell c).rect (stripCell d).rect = Rect.overlap ε c.rect d.rect := rfl

theorem noOverlapPairs_strip (ε : α) (cs : List (Alloc.Cell α)) :
    Alloc.noOverlapPairs ε (cs.map stripCell) = Alloc.noOverlapPairs ε cs := by
  induction cs with
  | nil => rfl
  | cons c r ih =>
    simp only [List.map_cons, Alloc.noOverlapPairs, ih, List.all_map, Function.comp_def, overlap_strip]

theorem checkNoOverlap_strip (st : Alloc.Eps α) (cs : List (Alloc.Cell α)) :
    Alloc.checkNoOverlap st (cs.map stripCell) = Alloc.checkNoOverlap st cs := by
  simp only [Alloc.checkNoOverlap, List.length_map, noOverlapPairs_strip]

theorem modules_strip (cs : List (Alloc.Cell α)) : Alloc.modules (cs.map stripCell) = Alloc.modules cs := by
  simp only [Alloc.modules, List.foldl_map]
  rfl

theorem modStats_strip (m : String) (cs : List (Alloc.Cell α)) :
    Alloc.modStats (Alloc.entries m (cs.map stripCell)) = Alloc.modStats (Alloc.entries m cs) := by
  have he : Alloc.entries m (cs.map stripCell)
      = (Alloc.entries m cs).map fun e => ((stripCell ⟨e.1, [], 0⟩).rect, e.2) := by
    simp only [Alloc.entries, List.filterMap_map, List.map_filterMap]
    congr 1
    funext c
    simp only [Function.comp, stripCell]
    cases c.alloc.lookup m <;> rfl
  rw [he]
  simp only [Alloc.modStats, List.foldl_map]
  rfl

theorem areasCenters_strip (cs : List (Alloc.Cell α)) :
    Alloc.areasCenters (cs.map stripCell) = Alloc.areasCenters cs := by
  simp only [Alloc.areasCenters, modules_strip]
  apply Alloc.mapE_congr
  intro m _
  simp only [Alloc.statOf, modStats_strip]

/-- the effective tolerances of a constructor call: the state in force if defined, otherwise derived from the bounding
    box `bb` of the cells (`Rectangle.set_epsilon(1e-12 * min(bb.w, bb.h))`). -/
def effEps (env : Alloc.Env α) (st : Alloc.Eps α) (bb : Rect α) : Alloc.Eps α :=
  if st.defined then st else ⟨env.tiny * pyMin bb.w bb.h, env.sqrt (env.tiny * pyMin bb.w bb.h)⟩

theorem allocs_strip (cs : List (Alloc.Cell α)) (ha : ∀ c ∈ cs, Alloc.allocOK c.alloc = true) :
    ∀ c ∈ cs.map stripCell, Alloc.allocOK c.alloc = true := by
  intro c hc
  obtain ⟨c0, h0, rfl⟩ := List.mem_map.mp hc
  exact ha c0 h0

/-- the (REPAIRED) constructor sees the written document exactly as the constructor sees the cells themselves: same
    verdict, same caches, same box, same tolerance state; the cells come back as `stripCell`. -/
theorem mkAllocation_docRaw (env : Alloc.Env α) (st : Alloc.Eps α) (cs : List (Alloc.Cell α))
    (hg : ∀ c ∈ cs, Alloc.CellGood c) (hr : ∀ c ∈ cs, Alloc.validIdent c.rect.region = true)
    (ha : ∀ c ∈ cs, Alloc.allocOK c.alloc = true) :
    mkAllocationDoc env st (cs.map docRaw)
      = (match Alloc.mkAllocation env st (cs.map Alloc.Cell.toRaw) with
         | .ok (a, st') => .ok (⟨a.cells.map stripCell, a.stats, a.bbox⟩, st')
         | .error e => .error e) := by
  have h1 : Alloc.mapE parseCellDoc (cs.map docRaw) = .ok (cs.map stripCell) :=
    amapE_map_ok' _ _ _ _ (fun c hc => parseCell_docRaw c (hg c hc) (hr c hc) (ha c hc))
  have h2 := Alloc.mapE_parse_toRaw cs ha
  have h3 := Alloc.mapE_parse_toRaw (cs.map stripCell) (allocs_strip cs ha)
  simp only [mkAllocationDoc, h1, Alloc.mkAllocation, h2, h3, boundingBox_strip, checkNoOverlap_strip, areasCenters_strip]
  cases Alloc.boundingBox cs with
  | error e => rfl
  | ok bb =>
    simp only
    generalize (if st.defined = true then st else
      (⟨env.tiny * pyMin bb.w bb.h, env.sqrt (env.tiny * pyMin bb.w bb.h)⟩ : Alloc.Eps α)) = st2
    cases Alloc.checkNoOverlap st2 cs <;> cases Alloc.areasCenters cs <;> rfl

/-- the constructor on `Rectangle`-object descriptors in ANY tolerance state `st'` (defined or not): it accepts as soon as
    the pairwise overlaps stay within the area tolerance that will be in force (`effEps`), returns these cells with their
    caches and box, and leaves `effEps` as the state. -/
theorem mkAllocation_obj_anystate (env : Alloc.Env α) (st' : Alloc.Eps α) (cs : List (Alloc.Cell α))
    (bb : Rect α) (stats : List (String × α × α × α)) (hal : ∀ c ∈ cs, Alloc.allocOK c.alloc = true)
    (hbb : Alloc.boundingBox cs = .ok bb) (hst : Alloc.areasCenters cs = .ok stats)
    (ha : 0 ≤ (effEps env st' bb).area)
    (hno : cs.Pairwise (fun c d => c.rect.areaOverlap d.rect ≤ (effEps env st' bb).area)) :
    Alloc.mkAllocation env st' (cs.map Alloc.Cell.toRaw) = .ok (⟨cs, stats, bb⟩, effEps env st' bb) := by
  unfold Alloc.mkAllocation
  rw [Alloc.mapE_parse_toRaw cs hal]
  simp only [hbb]
  have hno' : Alloc.checkNoOverlap (effEps env st' bb) cs = true := by
    unfold Alloc.checkNoOverlap
    rw [if_neg (by simp [Rect.zero_eq, ha])]
    exact Alloc.noOverlapPairs_of _ _ hno
  unfold effEps at hno'
  simp only [hno', hst, effEps, Bool.not_true, Bool.false_eq_true, if_false]

/-- **the allocation writer composed with the allocation constructor**: for a valid allocation object whose cells carry
    identifier regions, the written document translates to descriptors on which the (REPAIRED) constructor — in the same
    tolerance state — succeeds, leaves the tolerances alone, and returns the same cells, `fixed` marks included
    (`stripCell` resets only `hard` / STOG location), with literally the same caches `_areas / _centers` and the same
    bounding box. -/
theorem alloc_written_constructor (env : Alloc.Env α) (st : Alloc.Eps α) (a : Alloc.Allocation α)
    (hv : Alloc.ValidAlloc st a) (hr : ∀ c ∈ a.cells, Alloc.validIdent c.rect.region = true) :
    rawOfTree (writeAlloc (a.cells.map ofACell)).1 = some (a.cells.map docRaw) ∧
    mkAllocationDoc env st (a.cells.map docRaw) = .ok (⟨a.cells.map stripCell, a.stats, a.bbox⟩, st) := by
  refine ⟨rawOfTree_written a.cells, ?_⟩
  obtain ⟨a', h1, h2, h3⟩ := Alloc.mkAllocation_obj_ok env st a.cells hv.epsDef hv.epsArea hv.cells
  rw [mkAllocation_docRaw env st a.cells hv.cells.good hr hv.cells.allocs, h1]
  have hs : a'.stats = a.stats := by
    have e1 := h3.stats; rw [h2, hv.stats] at e1; exact (Except.ok.inj e1).symm
  have hb : a'.bbox = a.bbox := by
    have e1 := h3.bbox; rw [h2, hv.bbox] at e1; exact (Except.ok.inj e1).symm
  simp only [h2, hs, hb]

/-- … written in state `st`, re-read in ANY state `st'` (a fresh interpreter: undefined; or whatever an earlier design
    left): as soon as the pairwise cell overlaps are within the area tolerance in force at the re-read (`effEps`; exact
    tilings have overlap 0, so any non-negative tolerance does), the (REPAIRED) constructor accepts the written document
    and returns the same cells (marks included), caches and box; the tolerance state it leaves is `effEps`. -/
theorem alloc_written_constructor_anystate (env : Alloc.Env α) (st st' : Alloc.Eps α) (a : Alloc.Allocation α)
    (hv : Alloc.ValidAlloc st a) (hr : ∀ c ∈ a.cells, Alloc.validIdent c.rect.region = true)
    (ha : 0 ≤ (effEps env st' a.bbox).area)
    (hno : a.cells.Pairwise (fun c d => c.rect.areaOverlap d.rect ≤ (effEps env st' a.bbox).area)) :
    mkAllocationDoc env st' (a.cells.map docRaw)
      = .ok (⟨a.cells.map stripCell, a.stats, a.bbox⟩, effEps env st' a.bbox) := by
  rw [mkAllocation_docRaw env st' a.cells hv.cells.good hr hv.cells.allocs,
    mkAllocation_obj_anystate env st' a.cells a.bbox a.stats hv.cells.allocs hv.bbox hv.stats ha hno]

/-! #### the object read back answers the refinement operations as the object that was written

  `refine` / `must_be_refined` read of a cell its geometry, ratio map, depth and `fixed` mark — all of which survive the
  document — and never `hard` / STOG location, so they commute with `stripCell`. -/

def stripRect (r : Rect α) : Rect α :=
  { cx := r.cx, cy := r.cy, w := r.w, h := r.h, region := r.region, fixed := r.fixed }

theorem stripCell_rect (c : Alloc.Cell α) : (stripCell c).rect = stripRect c.rect := rfl

theorem split_strip (r : Rect α) :
    (stripRect r).split = r.split.map fun p => (stripRect p.1, stripRect p.2) := by
  unfold Rect.split
  have hw : (stripRect r).w = r.w := rfl
  have hh : (stripRect r).h = r.h := rfl
  rw [hw, hh]
  split
  · unfold Rect.splitV
    simp only [stripRect, Rect.ymin, Rect.ymax, Rect.duplicate]
    split <;> simp [stripRect]
  · unfold Rect.splitH
    simp only [stripRect, Rect.xmin, Rect.xmax, Rect.duplicate]
    split <;> simp [stripRect]

theorem splitAllocation_strip (r : Rect α) (al : Alloc.Alloc α) (d l : Nat) :
    Alloc.splitAllocation (stripRect r) al d l = (Alloc.splitAllocation r al d l).map (List.map stripCell) := by
  induction l generalizing r d with
  | zero => simp [Alloc.splitAllocation, stripCell, stripRect, Except.map]
  | succ l ih =>
    simp only [Alloc.splitAllocation, split_strip]
    cases hs : r.split with
    | none => rfl
    | some p =>
      obtain ⟨r1, r2⟩ := p
      simp only [Option.map_some, ih]
      cases Alloc.splitAllocation r1 al (d + 1) l with
      | error e => rfl
      | ok a =>
        simp only [Except.map]
        cases Alloc.splitAllocation r2 al (d + 1) l with
        | error e => rfl
        | ok b => simp [List.map_append]

theorem splitCond_strip (t : α) (c : Alloc.Cell α) : Alloc.splitCond t (stripCell c) = Alloc.splitCond t c := rfl

theorem mapE_map_comm {β γ ε : Type} (f : β → Except ε γ) (g : β → β) (k : γ → γ)
    (h : ∀ x, f (g x) = (f x).map k) (l : List β) :
    Alloc.mapE f (l.map g) = (Alloc.mapE f l).map (List.map k) := by
  induction l with
  | nil => rfl
  | cons x r ih =>
    simp only [List.map_cons, Alloc.mapE, ih, h]
    cases f x with
    | error e => rfl
    | ok y =>
      simp only [Except.map]
      cases Alloc.mapE f r with
      | error e => rfl
      | ok ys => rfl

/-- `refine`'s new descriptor list on the cells read back = the one on the written cells, read back. -/
theorem refineCells_strip (t : α) (levels : Nat) (cs : List (Alloc.Cell α)) :
    Alloc.refineCells t levels (cs.map stripCell) = (Alloc.refineCells t levels cs).map (List.map stripCell) := by
  unfold Alloc.refineCells
  have hcomm := mapE_map_comm (fun c : Alloc.Cell α => Alloc.splitAllocation c.rect c.alloc c.depth
      (if Alloc.splitCond t c then levels else 0)) stripCell (List.map stripCell) (fun c => by
        have h1 : (stripCell c).alloc = c.alloc := rfl
        have h2 : (stripCell c).depth = c.depth := rfl
        show Alloc.splitAllocation (stripCell c).rect (stripCell c).alloc (stripCell c).depth
          (if Alloc.splitCond t (stripCell c) then levels else 0) = _
        rw [stripCell_rect, splitCond_strip, splitAllocation_strip, h1, h2]) cs
  rw [hcomm]
  cases Alloc.mapE (fun c : Alloc.Cell α => Alloc.splitAllocation c.rect c.alloc c.depth
      (if Alloc.splitCond t c then levels else 0)) cs with
  | error e => rfl
  | ok parts => simp [Except.map, List.map_flatten]

theorem mustBeRefined_strip (a : Alloc.Allocation α) (t : α) :
    Alloc.mustBeRefined ⟨a.cells.map stripCell, a.stats, a.bbox⟩ t = Alloc.mustBeRefined a t := by
  simp [Alloc.mustBeRefined, List.any_map, Function.comp_def, splitCond_strip]

/-- what a trip through the document does to an allocation object. -/
def stripAlloc (a : Alloc.Allocation α) : Alloc.Allocation α := ⟨a.cells.map stripCell, a.stats, a.bbox⟩

/-- the constructor on `Rectangle`-object descriptors does not look at `hard` / STOG location either. -/
theorem mkAllocation_obj_strip (env : Alloc.Env α) (st : Alloc.Eps α) (cs : List (Alloc.Cell α))
    (ha : ∀ c ∈ cs, Alloc.allocOK c.alloc = true) :
    Alloc.mkAllocation env st ((cs.map stripCell).map Alloc.Cell.toRaw)
      = (Alloc.mkAllocation env st (cs.map Alloc.Cell.toRaw)).map (fun p => (stripAlloc p.1, p.2)) := by
  have h2 := Alloc.mapE_parse_toRaw cs ha
  have h3 := Alloc.mapE_parse_toRaw (cs.map stripCell) (allocs_strip cs ha)
  simp only [Alloc.mkAllocation, h2, h3, boundingBox_strip, checkNoOverlap_strip, areasCenters_strip]
  cases Alloc.boundingBox cs with
  | error e => rfl
  | ok bb =>
    simp only
    generalize (if st.defined = true then st else
      (⟨env.tiny * pyMin bb.w bb.h, env.sqrt (env.tiny * pyMin bb.w bb.h)⟩ : Alloc.Eps α)) = st2
    cases Alloc.checkNoOverlap st2 cs <;> cases Alloc.areasCenters cs <;> rfl

/-- **`refine` on the object read back = `refine` on the object that was written, read back** (whenever the written
    object's ratio maps are what the constructor admits). -/
theorem refine_strip (env : Alloc.Env α) (st : Alloc.Eps α) (a : Alloc.Allocation α) (t : α) (levels : Nat)
    (hal : ∀ q, Alloc.refineCells t levels a.cells = .ok q → ∀ c ∈ q, Alloc.allocOK c.alloc = true) :
    Alloc.refine env st (stripAlloc a) t levels
      = (Alloc.refine env st a t levels).map (fun p => (stripAlloc p.1, p.2)) := by
  unfold Alloc.refine
  by_cases hl : levels = 0
  · simp [hl, Except.map]
  · simp only [hl, if_false, stripAlloc, refineCells_strip]
    cases hq : Alloc.refineCells t levels a.cells with
    | error e => rfl
    | ok q =>
      simp only [Except.map]
      exact mkAllocation_obj_strip env st q (hal q hq)

end ctor
/-! ### `rect_io.get_netlist`'s accumulator against the allocation's cached area / centre -/

section rio
variable {α : Type} [Field α] [LinearOrder α] [IsStrictOrderedRing α]

abbrev RioMap (α : Type) := List (String × (α × α) × α)

/-- first entry stored under a module name. -/
def rioLook (mm : RioMap α) (m : String) : Option ((α × α) × α) :=
  match mm with
  | [] => none
  | (m', v) :: r => if m' = m then some v else rioLook r m

/-- the merge `get_netlist` performs on a module's running (centre, area). -/
def rioMerge (old : Option ((α × α) × α)) (c : α × α) (a : α) : (α × α) × α :=
  match old with
  | none => (c, a)
  | some (c1, a1) =>
    if 0 < a1 + a then
      ((c1.1 * (a1 / (a1 + a)) + c.1 * (a / (a1 + a)), c1.2 * (a1 / (a1 + a)) + c.2 * (a / (a1 + a))), a1 + a)
    else (c1, a1)

theorem rioLook_step (mm : RioMap α) (m : String) (c : α × α) (a : α) (m' : String) :
    rioLook (rioStep mm m c a) m' = if m' = m then some (rioMerge (rioLook mm m) c a) else rioLook mm m' := by
  induction mm with
  | nil =>
    by_cases h : m' = m
    · subst h; simp [rioStep, rioLook, rioMerge]
    · have h' : ¬ m = m' := fun e => h e.symm
      simp [rioStep, rioLook, h, h']
  | cons x r ih =>
    obtain ⟨k, c1, a1⟩ := x
    by_cases hk : k = m
    · subst hk
      by_cases h : m' = k
      · subst h
        simp only [rioStep, if_true, rioLook, rioMerge, nl_zero_eq]
        split <;> simp [rioLook]
      · have h' : ¬ k = m' := fun e => h e.symm
        simp only [rioStep, if_true, nl_zero_eq, h, if_false]
        split <;> simp [rioLook, h']
    · simp only [rioStep, hk, if_false, rioLook, ih]
      by_cases h : m' = m
      · subst h
        have : ¬ k = m' := hk
        simp [this]
      · simp [h]

/-- the contributions in processing order: (module, centre of the cell, area of the cell × ratio). -/
def rioEntries (cs : List (Alloc.Cell α)) : RioMap α :=
  cs.flatMap fun c => c.alloc.map fun kv => (kv.1, (c.rect.cx, c.rect.cy), c.rect.w * c.rect.h * kv.2)

theorem rioMap_eq_fold (cs : List (Alloc.Cell α)) :
    rioMap (cs.map ofACell) = (rioEntries cs).foldl (fun mm e => rioStep mm e.1 e.2.1 e.2.2) [] := by
  simp only [rioMap, rioEntries, List.foldl_map, List.foldl_flatMap, ofACell, Num.val]

/-- sums of a module's contributions. -/
def rioS (m : String) (es : RioMap α) : α := ((es.filter fun e => e.1 = m).map fun e => e.2.2).sum
def rioMx (m : String) (es : RioMap α) : α := ((es.filter fun e => e.1 = m).map fun e => e.2.1.1 * e.2.2).sum
def rioMy (m : String) (es : RioMap α) : α := ((es.filter fun e => e.1 = m).map fun e => e.2.1.2 * e.2.2).sum

/-- the state of `get_netlist`'s dictionary: area = sum of the contributions, centre · area = their first moments. -/
def RioInv (mm : RioMap α) (es : RioMap α) : Prop :=
  ∀ m, match rioLook mm m with
    | none => ∀ e ∈ es, e.1 ≠ m
    | some (c, a) => a = rioS m es ∧ c.1 * a = rioMx m es ∧ c.2 * a = rioMy m es ∧ 0 ≤ a ∧ ∃ e ∈ es, e.1 = m


theorem rio_sums_snoc_same (m : String) (es : RioMap α) (c : α × α) (a : α) :
    rioS m (es ++ [(m, c, a)]) = rioS m es + a ∧ rioMx m (es ++ [(m, c, a)]) = rioMx m es + c.1 * a ∧
    rioMy m (es ++ [(m, c, a)]) = rioMy m es + c.2 * a := by
  simp [rioS, rioMx, rioMy, List.filter_append]

theorem rio_sums_snoc_other (m m' : String) (es : RioMap α) (c : α × α) (a : α) (h : ¬ m = m') :
    rioS m' (es ++ [(m, c, a)]) = rioS m' es ∧ rioMx m' (es ++ [(m, c, a)]) = rioMx m' es ∧
    rioMy m' (es ++ [(m, c, a)]) = rioMy m' es := by
  simp [rioS, rioMx, rioMy, List.filter_append, h]

theorem rio_sums_none (m : String) (es : RioMap α) (h : ∀ e ∈ es, e.1 ≠ m) :
    rioS m es = 0 ∧ rioMx m es = 0 ∧ rioMy m es = 0 := by
  have : es.filter (fun e => decide (e.1 = m)) = [] := List.filter_eq_nil_iff.mpr (fun e he => by simpa using h e he)
  simp [rioS, rioMx, rioMy, this]

theorem RioInv.step {mm es : RioMap α} (h : RioInv mm es) (m : String) (c : α × α) (a : α) (ha : 0 ≤ a) :
    RioInv (rioStep mm m c a) (es ++ [(m, c, a)]) := by
  intro m'
  rw [rioLook_step]
  by_cases hm : m' = m
  · subst hm
    simp only [if_true]
    obtain ⟨s1, s2, s3⟩ := rio_sums_snoc_same m' es c a
    have hi := h m'
    cases hl : rioLook mm m' with
    | none =>
      rw [hl] at hi
      obtain ⟨z1, z2, z3⟩ := rio_sums_none m' es hi
      simp only [rioMerge, s1, s2, s3, z1, z2, z3, zero_add]
      exact ⟨trivial, trivial, trivial, ha, ⟨_, List.mem_append_right _ (List.mem_singleton_self _), rfl⟩⟩
    | some v =>
      obtain ⟨c1, a1⟩ := v
      rw [hl] at hi
      obtain ⟨i1, i2, i3, i4, i5⟩ := hi
      have i5' : ∃ e ∈ es ++ [(m', c, a)], e.1 = m' := ⟨_, List.mem_append_right _ (List.mem_singleton_self _), rfl⟩
      simp only [rioMerge]
      by_cases hp : 0 < a1 + a
      · simp only [hp, if_true, s1, s2, s3, ← i1, ← i2, ← i3]
        have hne : a1 + a ≠ 0 := ne_of_gt hp
        refine ⟨trivial, ?_, ?_, le_of_lt hp, i5'⟩ <;> field_simp
      · have h0 : a1 = 0 ∧ a = 0 := by
          have : a1 + a ≤ 0 := not_lt.mp hp
          constructor <;> linarith
        obtain ⟨z1, z2⟩ := h0
        subst z2
        simp only [hp, if_false]
        refine ⟨by rw [s1, ← i1]; simp, by rw [s2, ← i2]; simp, by rw [s3, ← i3]; simp, i4, ?_⟩
        exact ⟨_, List.mem_append_right _ (List.mem_singleton_self _), rfl⟩
  · simp only [hm, if_false]
    have hm' : ¬ m = m' := fun e => hm e.symm
    obtain ⟨s1, s2, s3⟩ := rio_sums_snoc_other m m' es c a hm'
    have hi := h m'
    cases hl : rioLook mm m' with
    | none =>
      rw [hl] at hi
      intro e he
      rcases List.mem_append.mp he with he | he
      · exact hi e he
      · simp only [List.mem_cons, List.mem_nil_iff, or_false] at he
        subst he; exact hm'
    | some v =>
      rw [hl] at hi
      simp only [s1, s2, s3]
      obtain ⟨j1, j2, j3, j4, e, he, hem⟩ := hi
      exact ⟨j1, j2, j3, j4, e, List.mem_append_left _ he, hem⟩

theorem rioInv_fold (es : RioMap α) (hpos : ∀ e ∈ es, 0 ≤ e.2.2) :
    RioInv (es.foldl (fun mm e => rioStep mm e.1 e.2.1 e.2.2) []) es := by
  induction es using List.reverseRecOn with
  | nil => intro m; simp [rioLook]
  | append_singleton es e ih =>
    rw [List.foldl_append, List.foldl_cons, List.foldl_nil]
    obtain ⟨m, c, a⟩ := e
    exact (ih (fun x hx => hpos x (List.mem_append_left _ hx))).step m c a (hpos (m, c, a) (by simp))


theorem allocOK_unpack (al : Alloc.Alloc α) (h : Alloc.allocOK al = true) :
    (∀ p ∈ al, 0 ≤ p.2) ∧ (al.map Prod.fst).Nodup := by
  simp only [Alloc.allocOK, Bool.and_eq_true, List.all_eq_true, decide_eq_true_eq, Rect.zero_eq] at h
  exact ⟨fun p hp => (h.1 p hp).1.2, h.2⟩

/-- contributions of one cell to module `m`: at most one entry (keys are distinct), the ratio `occ m c`. -/
theorem rio_cell_sums (m : String) (ctr : α × α) (k : α) (al : Alloc.Alloc α) (hnd : (al.map Prod.fst).Nodup) :
    let es : RioMap α := al.map fun kv => (kv.1, ctr, k * kv.2)
    rioS m es = (al.lookup m).getD 0 * k ∧ rioMx m es = ctr.1 * ((al.lookup m).getD 0 * k) ∧
    rioMy m es = ctr.2 * ((al.lookup m).getD 0 * k) := by
  induction al with
  | nil => simp [rioS, rioMx, rioMy, List.lookup]
  | cons kv r ih =>
    obtain ⟨key, v⟩ := kv
    have hnd' := List.nodup_cons.mp hnd
    have ih' := ih hnd'.2
    by_cases hk : key = m
    · subst hk
      have hno : ∀ e ∈ (r.map fun kv => ((kv.1, ctr, k * kv.2) : String × (α × α) × α)), e.1 ≠ key := by
        intro e he
        obtain ⟨kv, hkv, rfl⟩ := List.mem_map.mp he
        intro e2
        exact hnd'.1 (List.mem_map.mpr ⟨kv, hkv, e2⟩)
      obtain ⟨z1, z2, z3⟩ := rio_sums_none key _ hno
      simp only [rioS, rioMx, rioMy] at z1 z2 z3
      simp only [List.map_cons, rioS, rioMx, rioMy, List.filter_cons, decide_true, if_true, List.sum_cons, z1, z2, z3,
        List.lookup, beq_self_eq_true, Option.getD_some, add_zero]
      refine ⟨by ring, by ring, by ring⟩
    · have hb : (m == key) = false := by simp [Ne.symm hk]
      simp only [List.map_cons, rioS, rioMx, rioMy, List.filter_cons, hk, decide_false, Bool.false_eq_true, if_false,
        List.lookup, hb] at ih' ⊢
      exact ih'

theorem rio_sums_flatMap {β : Type} (m : String) (f : β → RioMap α) (l : List β) :
    rioS m (l.flatMap f) = (l.map fun x => rioS m (f x)).sum ∧
    rioMx m (l.flatMap f) = (l.map fun x => rioMx m (f x)).sum ∧
    rioMy m (l.flatMap f) = (l.map fun x => rioMy m (f x)).sum := by
  induction l with
  | nil => simp [rioS, rioMx, rioMy]
  | cons x r ih =>
    simp only [rioS, rioMx, rioMy, List.flatMap_cons, List.filter_append, List.map_append, List.sum_append,
      List.map_cons, List.sum_cons] at ih ⊢
    exact ⟨by rw [ih.1], by rw [ih.2.1], by rw [ih.2.2]⟩

/-- the contributions `get_netlist` accumulates are the sums `Σ ratio·area`, `Σ centre·ratio·area` of the allocation
    model of C02. -/
theorem rio_sums_eq (m : String) (cs : List (Alloc.Cell α)) (ha : ∀ c ∈ cs, Alloc.allocOK c.alloc = true) :
    rioS m (rioEntries cs) = Alloc.areaSum m cs ∧ rioMx m (rioEntries cs) = Alloc.momXSum m cs ∧
    rioMy m (rioEntries cs) = Alloc.momYSum m cs := by
  obtain ⟨f1, f2, f3⟩ := rio_sums_flatMap m
    (fun c : Alloc.Cell α => c.alloc.map fun kv => (kv.1, (c.rect.cx, c.rect.cy), c.rect.w * c.rect.h * kv.2)) cs
  simp only [rioEntries, f1, f2, f3, Alloc.areaSum, Alloc.momXSum, Alloc.momYSum]
  refine ⟨?_, ?_, ?_⟩ <;>
  · congr 1
    apply List.map_congr_left
    intro c hc
    obtain ⟨g1, g2, g3⟩ := rio_cell_sums m (c.rect.cx, c.rect.cy) (c.rect.w * c.rect.h) c.alloc
      (allocOK_unpack c.alloc (ha c hc)).2
    simp only [g1, g2, g3, Alloc.occ, Rect.area]


theorem mem_addKeys (acc : List String) (al : Alloc.Alloc α) (x : String) :
    x ∈ Alloc.addKeys acc al ↔ x ∈ acc ∨ x ∈ al.map Prod.fst := by
  unfold Alloc.addKeys
  induction al generalizing acc with
  | nil => simp
  | cons p r ih =>
    rw [List.foldl_cons, ih]
    by_cases hc : acc.contains p.1 = true
    · have : p.1 ∈ acc := by simpa using hc
      simp only [hc, if_true, List.map_cons, List.mem_cons]
      constructor
      · rintro (h | h); exact Or.inl h; exact Or.inr (Or.inr h)
      · rintro (h | h | h); exact Or.inl h; exact Or.inl (h ▸ this); exact Or.inr h
    · have hc' : acc.contains p.1 = false := by simpa using hc
      simp only [hc', Bool.false_eq_true, if_false, List.mem_append, List.mem_cons, List.mem_nil_iff, or_false,
        List.map_cons]
      tauto

theorem mem_modules (cs : List (Alloc.Cell α)) (x : String) :
    x ∈ Alloc.modules cs ↔ ∃ c ∈ cs, x ∈ c.alloc.map Prod.fst := by
  unfold Alloc.modules
  suffices H : ∀ acc : List String, x ∈ cs.foldl (fun acc c => Alloc.addKeys acc c.alloc) acc ↔
      x ∈ acc ∨ ∃ c ∈ cs, x ∈ c.alloc.map Prod.fst by simpa using H []
  induction cs with
  | nil => intro acc; simp
  | cons c r ih =>
    intro acc
    rw [List.foldl_cons, ih, mem_addKeys]
    simp only [List.mem_cons, exists_eq_or_imp]
    tauto

/-- **`rect_io.get_netlist` denotes the allocation it was run on**: for a valid allocation, the dictionary the emitter
    builds holds, for a module name, exactly the cached `area(m)` and `center(m)` of the allocation object
    (`Σ ratio·area`, `Σ ratio·area·centre / Σ ratio·area`), and holds nothing for names that are not modules. -/
theorem rectio_denotes_allocation (st : Alloc.Eps α) (a : Alloc.Allocation α) (hv : Alloc.ValidAlloc st a) (m : String) :
    match rioLook (rioMap (a.cells.map ofACell)) m with
    | none => m ∉ Alloc.modules a.cells ∧ a.areaOf m = none
    | some (c, ar) => m ∈ Alloc.modules a.cells ∧ a.areaOf m = some ar ∧ a.centerOf m = some c := by
  have hpos : ∀ e ∈ rioEntries a.cells, 0 ≤ e.2.2 := by
    intro e he
    simp only [rioEntries, List.mem_flatMap, List.mem_map] at he
    obtain ⟨c, hc, kv, hkv, rfl⟩ := he
    obtain ⟨hw, hh, _, _⟩ := hv.cells.good c hc
    have := (allocOK_unpack c.alloc (hv.cells.allocs c hc)).1 kv hkv
    positivity
  have hinv := rioInv_fold (rioEntries a.cells) hpos m
  rw [← rioMap_eq_fold] at hinv
  obtain ⟨q1, q2, q3⟩ := rio_sums_eq m a.cells hv.cells.allocs
  have hcache := hv.caches m
  have hmem : (∃ e ∈ rioEntries a.cells, e.1 = m) ↔ m ∈ Alloc.modules a.cells := by
    rw [mem_modules]
    simp only [rioEntries, List.mem_flatMap, List.mem_map]
    constructor
    · rintro ⟨e, ⟨c, hc, kv, hkv, rfl⟩, rfl⟩; exact ⟨c, hc, kv, hkv, rfl⟩
    · rintro ⟨c, hc, kv, hkv, rfl⟩; exact ⟨_, ⟨c, hc, kv, hkv, rfl⟩, rfl⟩
  cases hl : rioLook (rioMap (a.cells.map ofACell)) m with
  | none =>
    rw [hl] at hinv
    have hnm : m ∉ Alloc.modules a.cells := by
      rw [← hmem]; rintro ⟨e, he, hem⟩; exact hinv e he hem
    exact ⟨hnm, (hcache.2 hnm).1⟩
  | some v =>
    obtain ⟨c, ar⟩ := v
    rw [hl] at hinv
    obtain ⟨i1, i2, i3, _, i5⟩ := hinv
    have hm := hmem.mp i5
    obtain ⟨c1, c3⟩ := hcache.1 hm
    have c2 := hv.cells.areaNZ m hm
    rw [q1] at i1; rw [q2] at i2; rw [q3] at i3
    refine ⟨hm, by rw [c1, i1], ?_⟩
    rw [c3]
    have hne : ar ≠ 0 := by rw [i1]; exact c2
    have e1 : c.1 = Alloc.momXSum m a.cells / Alloc.areaSum m a.cells := by
      rw [← i2, ← i1]; field_simp
    have e2 : c.2 = Alloc.momYSum m a.cells / Alloc.areaSum m a.cells := by
      rw [← i3, ← i1]; field_simp
    rw [← e1, ← e2]

/-! #### the three copies of `valid_identifier` are one function

  `FV.validIdent` (netlist / producer models), `Alloc.validIdent` (allocation constructor model, via `Char.isAlpha` /
  `isAlphanum`) and `Die.validIdentifier` (die constructor model) transcribe the same regular expression
  `[A-Za-z_][A-Za-z0-9_]*`; the lemmas below make statements about one usable for the others. -/

theorem char_le_val (a b : Char) : decide (a ≤ b) = decide (a.val ≤ b.val) := rfl

theorem alloc_isIdStart_eq (c : Char) : Alloc.isIdStart c = identStart c := by
  simp only [Alloc.isIdStart, identStart, Char.isAlpha, Char.isUpper, Char.isLower, Bool.decide_and, ge_iff_le, char_le_val]

theorem alloc_isIdChar_eq (c : Char) : Alloc.isIdChar c = identRest c := by
  simp only [Alloc.isIdChar, identRest, identStart, Char.isAlphanum, Char.isAlpha, Char.isUpper, Char.isLower, Char.isDigit,
    Bool.decide_and, ge_iff_le, char_le_val]
  cases (decide ('A'.val ≤ c.val) && decide (c.val ≤ 'Z'.val)) <;> cases (decide ('a'.val ≤ c.val) && decide (c.val ≤ 'z'.val)) <;>
    cases (decide ('0'.val ≤ c.val) && decide (c.val ≤ '9'.val)) <;> cases (c == '_') <;> rfl

theorem alloc_validIdent_eq (s : String) : Alloc.validIdent s = FV.validIdent s := by
  unfold Alloc.validIdent FV.validIdent validIdentChars
  cases s.toList with
  | nil => rfl
  | cons c cs =>
    simp only [alloc_isIdStart_eq]
    congr 1
    induction cs with
    | nil => rfl
    | cons x xs ih => simp only [List.all_cons, alloc_isIdChar_eq, ih]

/-! #### `get_netlist` composed with a VALID allocation: accepted, and its modules are the allocation's -/

theorem rioLook_of_mem (mm : RioMap α) (hnd : (mm.map (·.1)).Nodup) (e : String × (α × α) × α) (he : e ∈ mm) :
    rioLook mm e.1 = some e.2 := by
  induction mm with
  | nil => cases he
  | cons x r ih =>
    obtain ⟨k, v⟩ := x
    simp only [List.map_cons, List.nodup_cons] at hnd
    simp only [rioLook]
    rcases List.mem_cons.mp he with rfl | h
    · simp
    · have hne : ¬ k = e.1 := fun hk => hnd.1 (hk ▸ List.mem_map.mpr ⟨e, h, rfl⟩)
      rw [if_neg hne]
      exact ih hnd.2 h

theorem mem_of_rioLook (mm : RioMap α) (m : String) (v : (α × α) × α) (h : rioLook mm m = some v) : (m, v) ∈ mm := by
  induction mm with
  | nil => cases h
  | cons x r ih =>
    obtain ⟨k, w⟩ := x
    simp only [rioLook] at h
    by_cases hk : k = m
    · rw [if_pos hk] at h; cases h; subst hk; exact List.mem_cons_self
    · rw [if_neg hk] at h; exact List.mem_cons_of_mem _ (ih h)

theorem occ_nonneg (m : String) (c : Alloc.Cell α) (h : Alloc.allocOK c.alloc = true) : 0 ≤ Alloc.occ m c := by
  unfold Alloc.occ
  cases hl : c.alloc.lookup m with
  | none => simp
  | some v =>
    have hm : (m, v) ∈ c.alloc := by
      have : ∀ (l : List (String × α)), l.lookup m = some v → (m, v) ∈ l := by
        intro l
        induction l with
        | nil => intro h; cases h
        | cons x r ih =>
          obtain ⟨k, w⟩ := x
          intro h
          simp only [List.lookup] at h
          by_cases hk : m == k
          · rw [hk] at h; cases h
            have : m = k := by simpa using hk
            subst this; exact List.mem_cons_self
          · have hk' : (m == k) = false := by simpa using hk
            rw [hk'] at h; exact List.mem_cons_of_mem _ (ih h)
      exact this _ hl
    simpa using (allocOK_unpack c.alloc h).1 (m, v) hm

theorem areaSum_nonneg (m : String) (cs : List (Alloc.Cell α)) (hg : ∀ c ∈ cs, Alloc.CellGood c)
    (ha : ∀ c ∈ cs, Alloc.allocOK c.alloc = true) : 0 ≤ Alloc.areaSum m cs := by
  unfold Alloc.areaSum
  apply List.sum_nonneg
  intro x hx
  obtain ⟨c, hc, rfl⟩ := List.mem_map.mp hx
  obtain ⟨hw, hh, _, _⟩ := hg c hc
  have := occ_nonneg m c (ha c hc)
  unfold Rect.area
  positivity

/-- **`rect_io.get_netlist(None, allocation)` on a valid allocation**: no side condition is left — the module names are
    identifiers because the allocation constructor checked them (`alloc_validIdent_eq` bridges the two transcriptions of
    `valid_identifier`), every accumulated area is positive because the constructor refused modules of zero area — so the
    emitted netlist is ACCEPTED; it has exactly one soft module per module of the allocation, in order of first
    appearance, and its area / centre are the allocation's `area(m)` / `center(m)`. -/
theorem rectio_accepted_of_allocation (stog : List (NRect α) → List (NRect α)) (εA : α) (st : Alloc.Eps α)
    (a : Alloc.Allocation α) (hv : Alloc.ValidAlloc st a) :
    parseNetlist stog εA (rioTree (a.cells.map ofACell))
      = .ok { modules := (rioMap (a.cells.map ofACell)).map fun e => softModC e.1 e.2.1 e.2.2, nets := [] } ∧
    (∀ e ∈ rioMap (a.cells.map ofACell),
      e.1 ∈ Alloc.modules a.cells ∧ a.areaOf e.1 = some e.2.2 ∧ a.centerOf e.1 = some e.2.1) ∧
    (∀ m ∈ Alloc.modules a.cells, ∃ e ∈ rioMap (a.cells.map ofACell), e.1 = m) := by
  have hval : ∀ c ∈ a.cells.map ofACell, ∀ kv ∈ c.alloc, validIdent kv.1 = true := by
    intro c hc kv hkv
    obtain ⟨c0, h0, rfl⟩ := List.mem_map.mp hc
    simp only [ofACell, List.mem_map] at hkv
    obtain ⟨p, hp, rfl⟩ := hkv
    have := hv.cells.allocs c0 h0
    simp only [Alloc.allocOK, Bool.and_eq_true, List.all_eq_true] at this
    have h1 := (this.1 p hp).1.1
    rw [alloc_validIdent_eq] at h1
    exact h1
  obtain ⟨hnd, _⟩ := rioMap_keys (a.cells.map ofACell) hval
  have hent : ∀ e ∈ rioMap (a.cells.map ofACell),
      e.1 ∈ Alloc.modules a.cells ∧ a.areaOf e.1 = some e.2.2 ∧ a.centerOf e.1 = some e.2.1 := by
    intro e he
    have hl := rioLook_of_mem _ hnd e he
    have := rectio_denotes_allocation st a hv e.1
    rw [hl] at this
    exact this
  refine ⟨rectio_parseNetlist stog εA _ hval ?_, hent, ?_⟩
  · intro e he
    obtain ⟨hm, harea, _⟩ := hent e he
    have hc := (hv.caches e.1).1 hm
    rw [hc.1] at harea
    have heq : Alloc.areaSum e.1 a.cells = e.2.2 := Option.some.inj harea
    have hnz := hv.cells.areaNZ e.1 hm
    have hnn := areaSum_nonneg e.1 a.cells hv.cells.good hv.cells.allocs
    rw [← heq]
    exact lt_of_le_of_ne hnn (Ne.symm hnz)
  · intro m hm
    have := rectio_denotes_allocation st a hv m
    cases hl : rioLook (rioMap (a.cells.map ofACell)) m with
    | none => rw [hl] at this; exact absurd hm this.1
    | some v => exact ⟨(m, v), mem_of_rioLook _ m v hl, rfl⟩

end rio
end FV.Prod

import FV.Proofs.Solve
/-
  Helper lemmas for C07, part 8: inequalities built by the `Expr` algebra are well-formed postings; the Tseitin
  encoding on its own; the store over whole histories.  Core Lean only.
-/
set_option linter.unusedSectionVars false
namespace FV.PB
variable {V : Type} [DecidableEq V]

/-! ### variables of built expressions -/
theorem fixNeg_vars (P : V → Prop) {r : Expr V} {v : V} (h : ∀ y ∈ r.t, P y.L.v) : ∀ y ∈ (r.fixNeg v).t, P y.L.v := by
  unfold Expr.fixNeg
  split
  · rename_i cur hc
    split
    · intro y hy
      rcases mem_dset hy with e | hm
      · subst e; exact h cur (dget_some hc).2
      · exact h y hm
    · exact h
  · exact h

theorem addTerm_vars (P : V → Prop) {e : Expr V} {tm : Term V} (h : ∀ y ∈ e.t, P y.L.v) (ht : P tm.L.v) :
    ∀ y ∈ (e.addTerm tm).t, P y.L.v := by
  unfold Expr.addTerm
  split
  · exact h
  · dsimp only
    apply fixNeg_vars
    split
    · rename_i old ho
      have hold : P old.L.v := h old (dget_some ho).2
      split <;> split
      · intro y hy; exact h y (mem_ddel hy)
      · intro y hy; rcases mem_dset hy with e | hm
        · subst e; exact hold
        · exact h y hm
      · intro y hy; exact h y (mem_ddel hy)
      · intro y hy; rcases mem_dset hy with e | hm
        · subst e; exact hold
        · exact h y hm
    · intro y hy; rcases mem_dset hy with e | hm
      · subst e; exact ht
      · exact h y hm

theorem foldl_subTerm_vars (P : V → Prop) (ts : List (Term V)) {e : Expr V} (h : ∀ y ∈ e.t, P y.L.v)
    (hts : ∀ y ∈ ts, P y.L.v) : ∀ y ∈ (ts.foldl (fun acc t => acc.addTerm ⟨t.L, -t.c⟩) e).t, P y.L.v := by
  induction ts generalizing e with
  | nil => exact h
  | cons a r ih =>
    exact ih (addTerm_vars P h (hts a (by simp))) (fun y hy => hts y (by simp [hy]))

theorem make_vars (P : V → Prop) {a b : Expr V} (o : CmpOp) (ha : ∀ y ∈ a.t, P y.L.v) (hb : ∀ y ∈ b.t, P y.L.v) :
    ∀ y ∈ (Ineq.make a b o).lhs.t, P y.L.v := by
  cases o <;> simp only [Ineq.make, Expr.sub] <;>
    first
    | exact foldl_subTerm_vars P b.t (e := ⟨a.c + -b.c, a.t⟩) ha hb
    | exact foldl_subTerm_vars P a.t (e := ⟨b.c + -a.c, b.t⟩) hb ha

end FV.PB

namespace FV.Sat
open FV.PB

/-- an inequality built by `Ineq.__init__` from normal-form expressions over user variables is a well-formed posting -/
theorem make_wf {a b : Expr Var} (o : CmpOp) (dec : Bool) (ha : a.NF) (hb : b.NF)
    (hau : ∀ y ∈ a.t, isUser y.L.v) (hbu : ∀ y ∈ b.t, isUser y.L.v) : (Post.pb (Ineq.make a b o) dec).WF :=
  ⟨Ineq.nf_make o ha hb, Ineq.make_lhs_c a b o, make_vars isUser o hau hbu⟩

/-- The Tseitin encoding on its own, for a manager that has encoded nothing yet: over a well-formed store, for a root
    whose sub-diagram branches on user variables only, an assignment of the user variables extends to a model of the
    emitted clauses plus the unit clause `robdd_root` iff the root's function is true under it. -/
theorem codify_exact_fresh {S : Store Var} (hw : WFStore S) {root : Nat} (hr : root < S.size)
    (hv : VarsOK S isUser root) :
    ∃ m2, Mgr.codify S (root + 1) root {} = .ok m2 ∧
      ∀ σ : Var → Bool, (∃ τ, (∀ v, isUser v → τ v = σ v) ∧ cnfTrue τ (m2.clauses ++ [[⟨.node root, true⟩]]))
        ↔ evalNodeD S σ root = true := by
  obtain ⟨m2, r, step⟩ := codify_spec hw (root + 1) root {} hr (by omega)
  refine ⟨m2, r, fun σ => ?_⟩
  have cod2 : CodInv S m2 := by
    intro j hj
    exact step.inv (max j root + 1) (by omega) (fun j' hj' _ => by simp at hj') j hj (by omega)
  have vars2 : CodVars S isUser m2 := codify_vars isUser _ _ _ _ r hv (by intro j hj; simp at hj)
  obtain ⟨ext, hext, hextj⟩ := step.clauses
  constructor
  · rintro ⟨τ, hag, hτ⟩
    rw [cnfTrue_append, cnfTrue_single] at hτ
    have hroot : τ (.node root) = true := by simpa [clauseTrue, litTrue] using hτ.2
    rw [← evalNodeD_congr hw cod2 vars2 hag root step.cod_id]
    exact codify_sound hw cod2 τ hτ.1 root step.cod_id hroot
  · intro hσ
    obtain ⟨τ, hτ⟩ : ∃ τ : Var → Bool, ∀ v, τ v = match v with
        | .node j => evalNodeD S σ j
        | v => σ v := ⟨_, fun _ => rfl⟩
    have hag : ∀ v, isUser v → τ v = σ v := by intro v hv'; rw [hτ]; cases v <;> simp [isUser] at hv' ⊢
    have hcan : ∀ j ∈ m2.codified, τ (.node j) = evalNodeD S τ j := by
      intro j hj; rw [hτ]; exact (evalNodeD_congr hw cod2 vars2 hag j hj).symm
    refine ⟨τ, hag, ?_⟩
    rw [cnfTrue_append, cnfTrue_single]
    constructor
    · intro c hc
      rw [hext] at hc
      simp at hc
      obtain ⟨j, hj, _, hcj⟩ := hextj c hc
      obtain ⟨hsz, _, hch⟩ := cod2 j hj
      exact nodeClauses_true hw τ hsz (hcan j hj)
        (fun h2 v i e hn => ⟨hcan i (hch h2 v i e hn).1, hcan e (hch h2 v i e hn).2⟩) c hcj
    · have : τ (.node root) = true := by rw [hτ]; exact hσ
      simp [clauseTrue, litTrue, this]

/-- every `getrobdd` call of a history (any managers, any order) keeps the store well formed and only appends -/
def storeRun : List (Ineq Var × Bool) → Store Var → Store Var
  | [], S => S
  | (q, dec) :: r, S =>
    match q.getRobdd dec S with
    | .ok (_, S') => storeRun r S'
    | .error _ => storeRun r S

theorem storeRun_wf : ∀ (h : List (Ineq Var × Bool)) (S : Store Var), WFStore S →
    (∀ qd ∈ h, ∀ t ∈ qd.1.lhs.t, 0 < t.c) → WFStore (storeRun h S) ∧ S.le (storeRun h S) := by
  intro h
  induction h with
  | nil => intro S hw _; exact ⟨hw, Store.le_refl S⟩
  | cons qd r ih =>
    intro S hw hpos
    obtain ⟨q, dec⟩ := qd
    unfold storeRun
    have hq : ∀ t ∈ q.lhs.t, 0 < t.c := hpos (q, dec) (by simp)
    have hr : ∀ qd ∈ r, ∀ t ∈ qd.1.lhs.t, 0 < t.c := fun qd hqd => hpos qd (by simp [hqd])
    by_cases hop : q.op = .ge
    · obtain ⟨id, S', hg, w, le, _, _⟩ := getRobdd_spec q dec S hw hq hop
      rw [hg]
      obtain ⟨w', le'⟩ := ih S' w hr
      exact ⟨w', Store.le_trans le le'⟩
    · rw [getRobdd_refused q dec S hop]
      exact ih S hw hr

/-- any accepted posting, by any manager in any state, keeps the shared store well formed and only appends to it -/
theorem post_store {m m' : Mgr} {S S' : Store Var} {p : Post} (hw : WFStore S) (hp : p.WF)
    (h : m.post S p = .ok (m', S')) : WFStore S' ∧ S.le S' := by
  cases p with
  | clause c => simp [Mgr.post] at h; obtain ⟨_, rfl⟩ := h; exact ⟨hw, Store.le_refl S⟩
  | imply l1 l2 => simp [Mgr.post] at h; obtain ⟨_, rfl⟩ := h; exact ⟨hw, Store.le_refl S⟩
  | amoQ lst => simp [Mgr.post] at h; obtain ⟨_, rfl⟩ := h; exact ⟨hw, Store.le_refl S⟩
  | amoH k lst =>
    simp only [Mgr.post] at h
    split at h
    · simp at h; obtain ⟨_, rfl⟩ := h; exact ⟨hw, Store.le_refl S⟩
    · simp at h
  | pb q dec =>
    simp only [Mgr.post, Mgr.pseudoBool] at h
    split at h
    · simp at h; obtain ⟨_, rfl⟩ := h; exact ⟨hw, Store.le_refl S⟩
    · simp at h; obtain ⟨_, rfl⟩ := h; exact ⟨hw, Store.le_refl S⟩
    · split at h
      · simp at h
      · simp at h
      · rename_i root S1 hget
        cases hcod : Mgr.codify S1 (root + 1) root m with
        | error e => simp [hcod, bind, Except.bind] at h
        | ok m2 =>
          simp [hcod, bind, Except.bind, pure, Except.pure] at h
          obtain ⟨_, rfl⟩ := h
          by_cases hop : q.op = .ge
          · obtain ⟨id', S'', hg, w, le, _, _⟩ := getRobdd_spec q dec S hw hp.1.1 hop
            rw [hg] at hget; simp at hget; obtain ⟨_, rfl⟩ := hget
            exact ⟨w, le⟩
          · rw [getRobdd_refused q dec S hop] at hget; simp at hget

theorem evalFold_spec (m : Mgr) (τ : Var → Bool) : ∀ (ts : List (Term Var)) (c : Int),
    (∀ t ∈ ts, m.value t.L = some (litVal τ t.L)) →
    ts.foldl (fun acc t =>
      match acc, m.value t.L with
      | some s, some x => some (if x = 1 then s + t.c else s)
      | _, _ => none) (some c) = some (c + termsVal τ ts) := by
  intro ts
  induction ts with
  | nil => intro c _; simp [termsVal]
  | cons a r ih =>
    intro c hval
    have ha := hval a (by simp)
    have hr := fun c' => ih c' (fun t ht => hval t (by simp [ht]))
    simp only [List.foldl, ha]
    rcases litVal_cases τ a.L with h0 | h1
    · rw [h0]
      have : ((0 : Int) = 1) = False := by simp
      simp only [this, if_false]
      rw [hr c]; simp [termsVal, termVal, h0]
    · rw [h1]
      simp only [if_true]
      rw [hr (c + a.c)]; simp [termsVal, termVal, h1]; omega

/-- `evalexpr` adds up the coefficients of the literals whose `value` is 1 -/
theorem evalExpr_spec (m : Mgr) (τ : Var → Bool) (e : Expr Var)
    (hval : ∀ t ∈ e.t, m.value t.L = some (litVal τ t.L)) : m.evalExpr e = some (e.eval τ) :=
  evalFold_spec m τ e.t e.c hval

/-! ### the exposed model, in terms of what `value()` / `evalexpr()` RETURN -/

/-- the literals a posted constraint mentions -/
def Post.lits : Post → List Lit
  | .clause c => c
  | .imply l1 l2 => l1 ++ [l2]
  | .amoQ lst => lst
  | .amoH _ lst => lst
  | .pb q _ => q.lhs.t.map (·.L)

/-- a posted constraint read off the exposed model: a clause has a literal whose `value()` is 1; an implication whose
    premises all have `value()` 1 has a conclusion with `value()` 1; at most one literal of a group has `value()` 1;
    `evalexpr(lhs)` returns an integer that compares with the bound as the normalised operator says -/
def Post.holdsExposed (m : Mgr) : Post → Prop
  | .clause c => ∃ l ∈ c, m.value l = some 1
  | .imply l1 l2 => (∀ l ∈ l1, m.value l = some 1) → m.value l2 = some 1
  | .amoQ lst => lst.countP (fun l => m.value l == some 1) ≤ 1
  | .amoH _ lst => lst.countP (fun l => m.value l == some 1) ≤ 1
  | .pb q _ => ∃ x, m.evalExpr q.lhs = some x ∧ q.op.rel x q.rhs

theorem value_one_iff {m : Mgr} {τ : Var → Bool} {l : Lit} (h : m.value l = some (litVal τ l)) :
    m.value l = some 1 ↔ litTrue τ l = true := by
  rw [h, litVal_eq_ite]
  cases litTrue τ l <;> simp

theorem countP_value_eq {m : Mgr} {τ : Var → Bool} : ∀ (lst : List Lit), (∀ l ∈ lst, m.value l = some (litVal τ l)) →
    lst.countP (fun l => m.value l == some 1) = lst.countP (litTrue τ) := by
  intro lst
  induction lst with
  | nil => intro _; rfl
  | cons a r ih =>
    intro h
    have ha := value_one_iff (h a (by simp))
    have hr := ih (fun l hl => h l (by simp [hl]))
    simp only [List.countP_cons, hr]
    by_cases hl : litTrue τ a = true
    · have : m.value a = some 1 := ha.2 hl
      simp [hl, this]
    · have : ¬ m.value a = some 1 := fun h1 => hl (ha.1 h1)
      simp [hl, this]

/-- if `value` agrees with an assignment `τ` on every literal of a posted constraint that `τ` satisfies, the constraint
    holds as read off `value()` / `evalexpr()` -/
theorem holdsExposed_of_holds {m : Mgr} {τ : Var → Bool} {p : Post} (hval : ∀ l ∈ p.lits, m.value l = some (litVal τ l))
    (hp : p.holds τ) : p.holdsExposed m := by
  cases p with
  | clause c =>
    obtain ⟨l, hl, ht⟩ := (clauseTrue_iff τ c).1 hp
    exact ⟨l, hl, (value_one_iff (hval l hl)).2 ht⟩
  | imply l1 l2 =>
    intro h1
    have h2 : litTrue τ l2 = true := hp (fun l hl => (value_one_iff (hval l (by simp [Post.lits, hl]))).1 (h1 l hl))
    exact (value_one_iff (hval l2 (by simp [Post.lits]))).2 h2
  | amoQ lst =>
    show lst.countP _ ≤ 1
    rw [countP_value_eq lst hval]; exact hp
  | amoH k lst =>
    show lst.countP _ ≤ 1
    rw [countP_value_eq lst hval]; exact hp
  | pb q dec =>
    refine ⟨q.lhs.eval τ, evalExpr_spec m τ q.lhs (fun t ht => hval t.L (by simp [Post.lits]; exact ⟨t, ht, rfl⟩)), ?_⟩
    simp only [Post.holds, Ineq.holds] at hp
    cases hop : q.op <;> simp only [hop] at hp <;> simpa [NOp.rel] using hp

/-- and conversely: what is read off `value()` / `evalexpr()` is the truth of the constraint under `τ` -/
theorem holds_of_holdsExposed {m : Mgr} {τ : Var → Bool} {p : Post} (hval : ∀ l ∈ p.lits, m.value l = some (litVal τ l))
    (hp : p.holdsExposed m) : p.holds τ := by
  cases p with
  | clause c =>
    obtain ⟨l, hl, h1⟩ := hp
    exact (clauseTrue_iff τ c).2 ⟨l, hl, (value_one_iff (hval l hl)).1 h1⟩
  | imply l1 l2 =>
    intro h1
    exact (value_one_iff (hval l2 (by simp [Post.lits]))).1
      (hp (fun l hl => (value_one_iff (hval l (by simp [Post.lits, hl]))).2 (h1 l hl)))
  | amoQ lst =>
    show lst.countP _ ≤ 1
    rw [← countP_value_eq lst hval]; exact hp
  | amoH k lst =>
    show lst.countP _ ≤ 1
    rw [← countP_value_eq lst hval]; exact hp
  | pb q dec =>
    obtain ⟨x, hx, hr⟩ := hp
    have := evalExpr_spec m τ q.lhs (fun t ht => hval t.L (by simp [Post.lits]; exact ⟨t, ht, rfl⟩))
    rw [this] at hx; simp at hx; subst hx
    simp only [Post.holds, Ineq.holds]
    cases hop : q.op <;> simp only [hop, NOp.rel] at hr ⊢ <;> exact hr

/-! ### sessions: managers living one after the other on a store that is never reset -/

/-- a whole history keeps the store well formed and only appends to it -/
theorem run_store {m : Mgr} {S : Store Var} {ps : List Post} {m' : Mgr} {S' : Store Var} (r : Run m S ps m' S')
    (hw : WFStore S) (hps : ∀ p ∈ ps, p.WF) : WFStore S' ∧ S.le S' := by
  induction r with
  | done => exact ⟨hw, Store.le_refl _⟩
  | grow hle hw' _ ih =>
    obtain ⟨w, le⟩ := ih hw' hps
    exact ⟨w, Store.le_trans hle le⟩
  | ok hpost _ ih =>
    obtain ⟨w1, le1⟩ := post_store hw (hps _ (by simp)) hpost
    obtain ⟨w, le⟩ := ih w1 (fun p hp => hps p (by simp [hp]))
    exact ⟨w, Store.le_trans le1 le⟩
  | refused _ _ ih => exact ih hw hps
  | newvar v _ ih => exact ih hw hps
  | solve ans hs _ ih => exact ih hw hps

/-- `Session S0 hs S'`: the managers of `hs` (each with the constraints it accepted) were created one after the other,
    each starting empty on the store its predecessors left behind; the store is never reset.  (Managers alive at the same
    time are the `grow` steps of `Run`.) -/
inductive Session : Store Var → List (List Post × Mgr) → Store Var → Prop
  | nil (S : Store Var) : Session S [] S
  | cons {S S1 S' : Store Var} {ps : List Post} {m : Mgr} {rest : List (List Post × Mgr)} :
      Run {} S ps m S1 → (∀ p ∈ ps, p.WF) → Session S1 rest S' → Session S ((ps, m) :: rest) S'

theorem session_store {S0 S' : Store Var} {hs : List (List Post × Mgr)} (s : Session S0 hs S') (hw : WFStore S0) :
    WFStore S' ∧ S0.le S' := by
  induction s with
  | nil => exact ⟨hw, Store.le_refl _⟩
  | cons r hps _ ih =>
    obtain ⟨w1, le1⟩ := run_store r hw hps
    obtain ⟨w, le⟩ := ih w1
    exact ⟨w, Store.le_trans le1 le⟩

theorem session_minv {S0 S' : Store Var} {hs : List (List Post × Mgr)} (s : Session S0 hs S') (hw : WFStore S0) :
    ∀ pm ∈ hs, ∃ S, MInv S pm.2 pm.1 := by
  induction s with
  | nil => intro pm h; simp at h
  | cons r hps _ ih =>
    intro pm h
    rcases List.mem_cons.1 h with rfl | h
    · exact ⟨_, by simpa using minv_run r [] (minv_init hw) hps⟩
    · exact ih (run_store r hw hps).1 pm h

end FV.Sat

import FV.Proofs.Netlist
/-
  Re-reading what the writer wrote (C04): every reader function applied to the writer's output.
-/
namespace FV.NL
open FV
set_option linter.unusedSectionVars false
set_option linter.unusedVariables false
set_option linter.unusedSimpArgs false

variable {α : Type} [Field α] [LinearOrder α] [IsStrictOrderedRing α]

theorem parseCenter_dump (c : α × α) : parseCenter (dumpPair c) = .ok c := by
  simp [parseCenter, dumpPair, YVal.num?, Num.val]

theorem parseAspect_dump (a : α × α) (h : 0 ≤ a.1 ∧ a.1 ≤ 1 ∧ 1 ≤ a.2) : parseAspect (dumpPair a) = .ok a := by
  simp [parseAspect, dumpPair, YVal.num?, Num.val, h]

theorem readRegion_dump (p : String × α) (hv : validIdent p.1 = true) (hp : 0 < p.2) :
    readRegion (YVal.str p.1, YVal.float p.2) = .ok p := by
  simp [readRegion, YVal.str?, YVal.num?, Num.val, hv, hp]

theorem readRegionArea_dump (regs : List (String × α)) (hne : regs ≠ [])
    (hok : ∀ p ∈ regs, validIdent p.1 = true ∧ 0 < p.2) (hnd : (regs.map (·.1)).Nodup) :
    readRegionArea (dumpArea regs) = .ok regs := by
  have hmap : readRegionArea (YVal.map (regs.map fun p => (YVal.str p.1, YVal.float p.2))) = .ok regs := by
    have h1 : mapE readRegion (regs.map fun p => ((YVal.str p.1 : YVal α), YVal.float p.2)) = .ok regs :=
      mapE_map_ok (fun p hp => readRegion_dump p (hok p hp).1 (hok p hp).2)
    simp [readRegionArea, YVal.num?, h1, (nodupB_iff _).mpr hnd]
  unfold dumpArea
  split
  · rename_i r a
    split
    · rename_i hr
      subst hr
      have := (hok ("_", a) (by simp)).2
      simp [readRegionArea, YVal.num?, Num.val, this]
    · simpa using hmap
  · exact hmap

theorem num_dump (n : Num α) : (dumpNum n).num? = some n := by simp [dumpNum]

theorem parseRect_dump {fixed hard : Bool} (r : NRect α) (hok : RectOK fixed hard r.resetLoc) :
    parseRect fixed hard (dumpRect r) = .ok r.resetLoc := by
  obtain ⟨h1, h2, h3, h4, h5, h6, h7, h8, _⟩ := hok
  simp only [NRect.resetLoc] at h1 h2 h3 h4 h5 h6 h7 h8
  unfold dumpRect
  by_cases hr : r.region = "_"
  · simp only [hr, ne_eq, not_true_eq_false, ↓reduceIte, List.append_nil]
    simp only [parseRect, num_dump, zero_eq]
    simp [h1, h2, le_of_lt h3, le_of_lt h4, h3, h4, NRect.resetLoc, ← h7, ← h8, hr]
  · simp only [ne_eq, hr, not_false_eq_true, ↓reduceIte]
    have hfh : (fixed || hard) = false := by
      cases hc : (fixed || hard) with
      | false => rfl
      | true => exact absurd (h6 hc) hr
    simp only [Bool.or_eq_false_iff] at hfh
    simp only [List.cons_append, List.nil_append, parseRect, num_dump, zero_eq, YVal.str?]
    have h7' : r.fixed = false := by rw [h7]; exact hfh.1
    have h8' : r.hard = false := by rw [h8]; exact hfh.2
    simp [h1, h2, le_of_lt h3, le_of_lt h4, h3, h4, NRect.resetLoc, h5, hfh.1, hfh.2, h7', h8']

theorem parseRects_dump {fixed hard : Bool} (rs : List (NRect α)) (hne : rs ≠ [])
    (hok : ∀ r ∈ rs, RectOK fixed hard r.resetLoc) :
    parseRects fixed hard (.seq (rs.map dumpRect)) = .ok (rs.map NRect.resetLoc) := by
  cases rs with
  | nil => exact absurd rfl hne
  | cons r rest =>
    have hnum : (dumpRect r).isNumber = false := by simp [dumpRect, YVal.isNumber, YVal.num?]
    have := mapE_map_ok' (f := parseRect fixed hard) (g := dumpRect) (k := NRect.resetLoc) (r := r :: rest)
      (fun y hy => parseRect_dump y (hok y hy))
    simp only [List.map_cons] at this ⊢
    simp only [parseRects, hnum, Bool.false_eq_true, ↓reduceIte]
    exact this

theorem parseEdge_dump (e : Net α) (h2 : 2 ≤ e.members.length) : parseEdge (dumpNet e) = .ok e := by
  unfold dumpNet
  by_cases hw : e.weight = 1
  · simp only [one_eq, hw, ne_eq, not_true_eq_false, ↓reduceIte, List.append_nil]
    obtain ⟨ini, last, hil⟩ : ∃ ini last, e.members = ini ++ [last] := by
      have : e.members ≠ [] := by intro h; rw [h] at h2; simp at h2
      exact ⟨e.members.dropLast, e.members.getLast this, (List.dropLast_append_getLast this).symm⟩
    have hlen : ¬ (List.map (YVal.str (α := α)) e.members).length < 2 := by simp; omega
    simp only [parseEdge, hlen, ↓reduceIte]
    rw [hil, List.map_append, List.map_cons, List.map_nil, splitLast_append]
    simp only [strs_map, YVal.num?, YVal.str?]
    cases e with
    | mk members weight =>
      simp only at hil hw
      subst hil; subst hw
      simp
  · simp only [one_eq, ne_eq, hw, not_false_eq_true, ↓reduceIte]
    have hlen : ¬ (List.map (YVal.str (α := α)) e.members ++ [YVal.float e.weight]).length < 2 := by simp; omega
    simp only [parseEdge, hlen, ↓reduceIte, splitLast_append, strs_map, YVal.num?]
    have : ¬ e.members.length < 2 := by omega
    simp [this, Num.val]

/-! ### a whole module -/

@[simp] theorem classify_area (v : YVal α) : classify (YVal.str "area", v) = .ok (.area, v) := classify_str .area v
@[simp] theorem classify_terminal (v : YVal α) : classify (YVal.str "terminal", v) = .ok (.terminal, v) :=
  classify_str .terminal v
@[simp] theorem classify_fixed (v : YVal α) : classify (YVal.str "fixed", v) = .ok (.fixed, v) := classify_str .fixed v
@[simp] theorem classify_hard (v : YVal α) : classify (YVal.str "hard", v) = .ok (.hard, v) := classify_str .hard v
@[simp] theorem classify_flip (v : YVal α) : classify (YVal.str "flip", v) = .ok (.flip, v) := classify_str .flip v
@[simp] theorem classify_center (v : YVal α) : classify (YVal.str "center", v) = .ok (.center, v) :=
  classify_str .center v
@[simp] theorem classify_aspect (v : YVal α) : classify (YVal.str "aspect_ratio", v) = .ok (.aspect, v) :=
  classify_str .aspect v
@[simp] theorem classify_rectangles (v : YVal α) : classify (YVal.str "rectangles", v) = .ok (.rectangles, v) :=
  classify_str .rectangles v

/-- what the reader needs of a module of a loaded netlist in order to accept what the writer emits for it. -/
structure FinOK (m : Mod α) : Prop where
  name_ok : validIdent m.name = true
  rects_ok : ∀ r ∈ m.rects, RectOK m.fixed m.hard r.resetLoc
  fixed_hard : m.fixed = true → m.hard = true
  flip_ok : m.flip = true → m.fixed = false ∧ m.hard = true ∧ m.terminal = false
  term_hard : m.terminal = true → m.hard = true
  soft_area : m.hard = false → m.areaRegions ≠ [] ∧ (∀ p ∈ m.areaRegions, validIdent p.1 = true ∧ 0 < p.2) ∧
    (m.areaRegions.map (·.1)).Nodup
  aspect_ok : ∀ a, m.aspect = some a → 0 ≤ a.1 ∧ a.1 ≤ 1 ∧ 1 ≤ a.2
  hard_aspect : m.hard = true → m.aspect = none
  hard_rects : m.hard = true → m.terminal = false → m.rects ≠ []
  term_fixed_center : m.terminal = true → m.fixed = true → m.center.isSome = true

/-- the module `parse_yaml_module` returns for what `dump_yaml_module` wrote. -/
def reparse (m : Mod α) : Mod α :=
  { m with center := if m.hard && !m.terminal then none else m.center,
           rects := m.rects.map NRect.resetLoc,
           areaRegions := if m.hard then [("_", sumAreas (m.rects.map NRect.resetLoc))] else m.areaRegions }

theorem parseModule_dump_soft (m : Mod α) (h : FinOK m) (hh : m.hard = false) :
    parseModule (YVal.str m.name, dumpModule m) = .ok (reparse m) := by
  obtain ⟨name, c, a, t, hd, f, fl, ar, rs⟩ := m
  simp only at hh; subst hh
  have ht : t = false := by
    cases t with
    | false => rfl
    | true => have := h.term_hard rfl; simp at this
  have hfl : fl = false := by
    cases fl with
    | false => rfl
    | true => have := (h.flip_ok rfl).2.1; simp at this
  have hf : f = false := by
    cases f with
    | false => rfl
    | true => have := h.fixed_hard rfl; simp at this
  subst ht; subst hfl; subst hf
  obtain ⟨a1, a2, a3⟩ := h.soft_area rfl
  have hA := readRegionArea_dump ar a1 a2 a3
  have hname := h.name_ok
  simp only at hname hA
  have hR : ∀ r ∈ rs, RectOK false false r.resetLoc := h.rects_ok
  have a1' : ar ≠ [] := a1
  have hAsp : ∀ x, a = some x → parseAspect (dumpPair x) = .ok x ∧ (0 ≤ x.1 ∧ x.1 ≤ 1 ∧ 1 ≤ x.2) :=
    fun x hx => ⟨parseAspect_dump x (h.aspect_ok x hx), h.aspect_ok x hx⟩
  by_cases hrs : rs = []
  · subst hrs
    cases c <;> cases a
    · simp [parseModule, dumpModule, dumpModuleAttrs, YVal.str?, hname, mapE, nodupB, mkParam, ctor, foldlE,
        ctorStep, hA, assoc, setup, reparse, parseCenter_dump, YVal.bool?, a1']
    · rename_i x
      obtain ⟨q1, q2⟩ := hAsp x rfl
      simp [parseModule, dumpModule, dumpModuleAttrs, YVal.str?, hname, mapE, nodupB, mkParam, ctor, foldlE,
        ctorStep, hA, assoc, setup, reparse, parseCenter_dump, YVal.bool?, a1', q1, q2]
    · simp [parseModule, dumpModule, dumpModuleAttrs, YVal.str?, hname, mapE, nodupB, mkParam, ctor, foldlE,
        ctorStep, hA, assoc, setup, reparse, parseCenter_dump, YVal.bool?, a1']
    · rename_i y x
      obtain ⟨q1, q2⟩ := hAsp x rfl
      simp [parseModule, dumpModule, dumpModuleAttrs, YVal.str?, hname, mapE, nodupB, mkParam, ctor, foldlE,
        ctorStep, hA, assoc, setup, reparse, parseCenter_dump, YVal.bool?, a1', q1, q2]
  · have hne : rs.isEmpty = false := by cases rs <;> simp_all
    have hPR := parseRects_dump rs hrs hR
    cases c <;> cases a
    · simp [parseModule, dumpModule, dumpModuleAttrs, YVal.str?, hname, mapE, nodupB, mkParam, ctor, foldlE,
        ctorStep, hA, assoc, setup, reparse, parseCenter_dump, YVal.bool?, a1', hne, hPR]
    · rename_i x
      obtain ⟨q1, q2⟩ := hAsp x rfl
      simp [parseModule, dumpModule, dumpModuleAttrs, YVal.str?, hname, mapE, nodupB, mkParam, ctor, foldlE,
        ctorStep, hA, assoc, setup, reparse, parseCenter_dump, YVal.bool?, a1', q1, q2, hne, hPR]
    · simp [parseModule, dumpModule, dumpModuleAttrs, YVal.str?, hname, mapE, nodupB, mkParam, ctor, foldlE,
        ctorStep, hA, assoc, setup, reparse, parseCenter_dump, YVal.bool?, a1', hne, hPR]
    · rename_i y x
      obtain ⟨q1, q2⟩ := hAsp x rfl
      simp [parseModule, dumpModule, dumpModuleAttrs, YVal.str?, hname, mapE, nodupB, mkParam, ctor, foldlE,
        ctorStep, hA, assoc, setup, reparse, parseCenter_dump, YVal.bool?, a1', q1, q2, hne, hPR]

theorem parseModule_dump_hard (m : Mod α) (h : FinOK m) (hh : m.hard = true) :
    parseModule (YVal.str m.name, dumpModule m) = .ok (reparse m) := by
  obtain ⟨name, c, a, t, hd, f, fl, ar, rs⟩ := m
  simp only at hh; subst hh
  have ha : a = none := h.hard_aspect rfl
  subst ha
  have hname := h.name_ok
  simp only at hname
  have hR : ∀ r ∈ rs, RectOK f true r.resetLoc := h.rects_ok
  cases t with
  | false =>
    have hrs : rs ≠ [] := h.hard_rects rfl rfl
    have hne : rs.isEmpty = false := by cases rs <;> simp_all
    have hPR := parseRects_dump rs hrs hR
    cases f with
    | true =>
      have hfl : fl = false := by
        cases fl with
        | false => rfl
        | true => have := (h.flip_ok rfl).1; simp at this
      subst hfl
      simp [parseModule, dumpModule, dumpModuleAttrs, YVal.str?, hname, mapE, nodupB, mkParam, ctor, foldlE,
        ctorStep, Param.kind, assoc, setup, reparse, YVal.bool?, hne, hPR]
    | false =>
      cases fl <;>
      simp [parseModule, dumpModule, dumpModuleAttrs, YVal.str?, hname, mapE, nodupB, mkParam, ctor, foldlE,
        ctorStep, Param.kind, assoc, setup, reparse, YVal.bool?, hne, hPR]
  | true =>
    have hfl : fl = false := by
      cases fl with
      | false => rfl
      | true => have := (h.flip_ok rfl).2.2; simp at this
    subst hfl
    have hcf : f = true → c.isSome = true := h.term_fixed_center rfl
    by_cases hrs : rs = []
    · subst hrs
      cases f <;> cases c <;>
      simp_all [parseModule, dumpModule, dumpModuleAttrs, YVal.str?, mapE, nodupB, mkParam, ctor, foldlE,
        ctorStep, Param.kind, assoc, setup, reparse, YVal.bool?, parseCenter_dump]
    · have hne : rs.isEmpty = false := by cases rs <;> simp_all
      have hPR := parseRects_dump rs hrs hR
      cases f <;> cases c <;>
      simp_all [parseModule, dumpModule, dumpModuleAttrs, YVal.str?, mapE, nodupB, mkParam, ctor, foldlE,
        ctorStep, Param.kind, assoc, setup, reparse, YVal.bool?, parseCenter_dump]

theorem parseModule_dump (m : Mod α) (h : FinOK m) :
    parseModule (YVal.str m.name, dumpModule m) = .ok (reparse m) := by
  cases hh : m.hard with
  | false => exact parseModule_dump_soft m h hh
  | true => exact parseModule_dump_hard m h hh

/-! ### the whole netlist -/

theorem resetLoc_eq_self {r : NRect α} (h : r.loc = .nopoly) : r.resetLoc = r := by
  cases r; simp_all [NRect.resetLoc]

theorem stog_ne_nil {stog : List (NRect α) → List (NRect α)} (hp : StogPerm stog) {rs : List (NRect α)}
    (h : rs ≠ []) : stog rs ≠ [] := by
  intro hnil
  have := (hp rs).length_eq
  rw [hnil] at this
  simp at this
  exact h (List.eq_nil_of_length_eq_zero this.symm)

theorem finOK_finalize {stog : List (NRect α) → List (NRect α)} (hp : StogPerm stog) {m0 : Mod α} (hok : ModOK m0) :
    FinOK (finalize stog m0) := by
  by_cases hr : m0.rects = []
  · rw [finalize_rects_nil hr]
    refine ⟨hok.name_ok, ?_, hok.fixed_hard, hok.flip_ok, hok.term_hard, hok.soft_area, hok.aspect_ok,
      fun hh => (hok.hard_ok hh).1, fun hh ht => ((hok.hard_ok hh).2.2 ht).2, hok.term_fixed_center⟩
    intro r hrm
    rw [resetLoc_eq_self (hok.rects_ok r hrm).loc_eq]
    exact hok.rects_ok r hrm
  · rw [finalize_rects_cons hr]
    refine ⟨hok.name_ok, ?_, hok.fixed_hard, hok.flip_ok, hok.term_hard, hok.soft_area, hok.aspect_ok,
      fun hh => (hok.hard_ok hh).1, fun _ _ => stog_ne_nil hp hr, fun _ _ => rfl⟩
    intro r hrm
    simp only at hrm
    obtain ⟨r0, hr0, he⟩ := resetLoc_mem_of_perm hp hrm
    rw [he, resetLoc_eq_self (hok.rects_ok r0 hr0).loc_eq]
    exact hok.rects_ok r0 hr0

/-- loading what was written for a loaded module gives the loaded module back. -/
theorem finalize_reparse {stog : List (NRect α) → List (NRect α)} (hp : StogPerm stog) (hs : StogStable stog)
    {m0 : Mod α} (hok : ModOK m0) : finalize stog (reparse (finalize stog m0)) = finalize stog m0 := by
  by_cases hr : m0.rects = []
  · rw [finalize_rects_nil hr]
    have hre : reparse m0 = m0 := by
      obtain ⟨name, c, a, t, hd, f, fl, ar, rs⟩ := m0
      simp only at hr; subst hr
      cases hd with
      | false => simp [reparse]
      | true =>
        obtain ⟨_, h2, h3⟩ := hok.hard_ok rfl
        simp only at h2 h3
        cases t with
        | true => simp [reparse, h2]
        | false => simp [reparse, h2, (h3 rfl).1]
    rw [hre, finalize_rects_nil hr]
  · rw [finalize_rects_cons hr]
    have hne : stog m0.rects ≠ [] := stog_ne_nil hp hr
    have hne' : (stog m0.rects).map NRect.resetLoc ≠ [] := by simpa using hne
    have hc : centroid ((stog m0.rects).map NRect.resetLoc) = centroid m0.rects := by
      rw [← centroid_resetLoc m0.rects]; exact centroid_perm (hp m0.rects)
    have ha : sumAreas ((stog m0.rects).map NRect.resetLoc) = sumAreas m0.rects := by
      rw [← sumAreas_resetLoc m0.rects]; exact sumAreas_perm (hp m0.rects)
    rw [finalize_rects_cons (by simpa [reparse] using hne)]
    obtain ⟨name, c, a, t, hd, f, fl, ar, rs⟩ := m0
    simp only [reparse, hc, ha, hs rs]
    simp only [Mod.mk.injEq, true_and, and_true]
    cases hd with
    | false => simp
    | true =>
      obtain ⟨_, h2, _⟩ := hok.hard_ok rfl
      simp only at h2
      simp [h2]

theorem areaOverlap_comm (a b : Rect α) : a.areaOverlap b = b.areaOverlap a := by
  rw [Rect.areaOverlap_eq, Rect.areaOverlap_eq, Rect.ovLen_comm a.xmin a.xmax, Rect.ovLen_comm a.ymin a.ymax]

theorem noOverlap_stog {stog : List (NRect α) → List (NRect α)} (hp : StogPerm stog) {εA : α} {rs : List (NRect α)}
    (h : noOverlap εA rs = true) : noOverlap εA ((stog rs).map NRect.resetLoc) = true := by
  unfold noOverlap at h ⊢
  rw [pairsAll_iff] at h ⊢
  have hsymm : ∀ a b : NRect α, (!Rect.overlap εA a.toRect b.toRect) = true → (!Rect.overlap εA b.toRect a.toRect) = true := by
    intro a b hab
    simpa [Rect.overlap, areaOverlap_comm b.toRect a.toRect] using hab
  have h1 : (rs.map NRect.resetLoc).Pairwise (fun a b => (!Rect.overlap εA a.toRect b.toRect) = true) := by
    rw [List.pairwise_map]
    refine h.imp ?_
    intro a b hab
    simpa [Rect.overlap, NRect.resetLoc, NRect.toRect, Rect.areaOverlap, Rect.xmin, Rect.xmax, Rect.ymin, Rect.ymax]
      using hab
  exact ((hp rs).pairwise_iff (fun {a b} hab => hsymm a b hab)).mpr h1

theorem prepModule_intro {m : Mod α} (h : m.hard = true → m.terminal = false → m.rects ≠ []) :
    prepModule m = .ok (withCentroid m) := by
  obtain ⟨name, c, a, t, hd, f, fl, ar, rs⟩ := m
  simp only at h
  cases rs with
  | nil =>
    cases hd <;> cases t <;> simp_all [prepModule, withCentroid]
  | cons r rest => simp [prepModule, withCentroid]

theorem finish_intro {stog : List (NRect α) → List (NRect α)} {εA : α} {ms ms1 : List (Mod α)} {es nets : List (Net α)}
    (hp : mapE prepModule ms = .ok ms1)
    (hov : ∀ m ∈ ms1, m.hard = true → m.terminal = false → noOverlap εA m.rects = true)
    (hfl : ∀ m ∈ ms1.map (withStog stog), m.flip = true → hasStog m = true)
    (hn : mapE (resolveNet ((ms1.map (withStog stog)).map (·.name))) es = .ok nets) :
    finish stog εA ms es = .ok { modules := ms1.map (withStog stog), nets := nets } := by
  have h1 : (ms1.all fun m => !(m.hard && !m.terminal) || noOverlap εA m.rects) = true := by
    rw [List.all_eq_true]
    intro m hm
    cases hh : m.hard <;> cases ht : m.terminal <;> simp [hov m hm, hh, ht]
  have h2 : ((ms1.map (withStog stog)).all fun m => !m.flip || hasStog m) = true := by
    rw [List.all_eq_true]
    intro m hm
    cases hf : m.flip <;> simp [hfl m hm, hf]
  unfold finish
  simp only [hp]
  unfold withStog at h2 hn ⊢
  simp only [h1, h2, Bool.not_true, Bool.false_eq_true, ↓reduceIte, hn]

theorem mapE_eq_map_of {β γ : Type} {f : β → Except Err γ} {g : β → γ} {l : List β}
    (h : ∀ x ∈ l, f x = .ok (g x)) : mapE f l = .ok (l.map g) := by
  have := mapE_map_ok' (f := f) (g := id) (k := g) (r := l) (by simpa using h)
  simpa using this

@[simp] theorem reparse_name (m : Mod α) : (reparse m).name = m.name := rfl
@[simp] theorem reparse_hard (m : Mod α) : (reparse m).hard = m.hard := rfl
@[simp] theorem reparse_terminal (m : Mod α) : (reparse m).terminal = m.terminal := rfl
@[simp] theorem reparse_rects (m : Mod α) : (reparse m).rects = m.rects.map NRect.resetLoc := rfl

theorem withCentroid_flags (m : Mod α) :
    (withCentroid m).hard = m.hard ∧ (withCentroid m).terminal = m.terminal ∧ (withCentroid m).rects = m.rects := by
  unfold withCentroid; split <;> simp

/-- THE ROUND TRIP: what the writer emits for a loaded netlist loads again, as the same netlist. -/
theorem roundtrip_core {stog : List (NRect α) → List (NRect α)} (hp : StogPerm stog) (hs : StogStable stog)
    {εA : α} {t : YVal α} {n : Netlist α} (h : parseNetlist stog εA t = .ok n) :
    parseNetlist stog εA (dumpNetlist n) = .ok n := by
  obtain ⟨ms, es, hd, hf, hmods, hnets⟩ := parseNetlist_modules h
  obtain ⟨hmok, hnd, heok⟩ := parseDoc_mods_ok hd
  have hMod : ∀ m0 ∈ ms, ModOK m0 := fun m0 hm0 => by
    obtain ⟨e, he⟩ := hmok m0 hm0; exact (parseModule_modOK he).1
  obtain ⟨ms1, hprep, hcheck, hm1, hflip, hres⟩ := finish_ok hf
  have hms1 : ms1 = ms.map withCentroid := mapE_eq_map (fun x y hxy => (prepModule_ok hxy).1) hprep
  let k : Mod α → Mod α := fun m0 => reparse (finalize stog m0)
  -- the modules are read back
  have hM : parseModules (.map (n.modules.map fun m => (YVal.str m.name, dumpModule m))) = .ok (ms.map k) := by
    rw [hmods, List.map_map]
    have h1 : mapE parseModule (ms.map ((fun m => ((YVal.str m.name : YVal α), dumpModule m)) ∘ finalize stog))
        = .ok (ms.map k) :=
      mapE_map_ok' (fun m0 hm0 => parseModule_dump (finalize stog m0) (finOK_finalize hp (hMod m0 hm0)))
    have h2 : (ms.map k).map (·.name) = ms.map (·.name) := by
      rw [List.map_map]; apply List.map_congr_left; intro m0 _; simp [k]
    simp only [parseModules, h1, h2, (nodupB_iff _).mpr hnd, ↓reduceIte]
  -- the nets are read back
  have hE : parseEdges (.seq (n.nets.map dumpNet)) = .ok es := by
    rw [hnets]
    simp only [parseEdges]
    apply mapE_map_ok
    intro e he
    obtain ⟨y, hy⟩ := heok e he
    exact parseEdge_dump e (parseEdge_ok hy).1
  have hDoc : parseDoc (dumpNetlist n) = .ok (ms.map k, es) := by
    simp [dumpNetlist, parseDoc, mapE, classifyRoot, YVal.str?, rootKind, nodupB, assoc, optParse, hM, hE]
  -- `Netlist.__init__` on the re-read modules
  have hprep2 : mapE prepModule (ms.map k) = .ok ((ms.map k).map withCentroid) := by
    apply mapE_eq_map_of
    intro m hm
    obtain ⟨m0, hm0, rfl⟩ := List.mem_map.mp hm
    apply prepModule_intro
    intro hh ht
    have hfin := finOK_finalize hp (hMod m0 hm0)
    have := hfin.hard_rects (by simpa [k] using hh) (by simpa [k] using ht)
    simpa [k] using this
  have hmodsEq : ((ms.map k).map withCentroid).map (withStog stog) = n.modules := by
    rw [hmods, List.map_map, List.map_map]
    apply List.map_congr_left
    intro m0 hm0
    exact finalize_reparse hp hs (hMod m0 hm0)
  have hfin2 : finish stog εA (ms.map k) es = .ok { modules := ((ms.map k).map withCentroid).map (withStog stog), nets := es } := by
    apply finish_intro hprep2
    · intro m hm hh ht
      obtain ⟨mk, hmk, rfl⟩ := List.mem_map.mp hm
      obtain ⟨m0, hm0, rfl⟩ := List.mem_map.mp hmk
      obtain ⟨w1, w2, w3⟩ := withCentroid_flags (k m0)
      rw [w1] at hh; rw [w2] at ht; rw [w3]
      by_cases hr : m0.rects = []
      · simp [k, finalize_rects_nil hr, hr, noOverlap, pairsAll]
      · have hk : (k m0).rects = (stog m0.rects).map NRect.resetLoc := by
          simp [k, finalize_rects_cons hr]
        rw [hk]
        apply noOverlap_stog hp
        obtain ⟨v1, v2, v3⟩ := withCentroid_flags m0
        have hmem : withCentroid m0 ∈ ms1 := by rw [hms1]; exact List.mem_map.mpr ⟨m0, hm0, rfl⟩
        have hh0 : m0.hard = true := by
          have : (finalize stog m0).hard = m0.hard := by rw [finalize_rects_cons hr]
          simpa [k, this] using hh
        have ht0 : m0.terminal = false := by
          have : (finalize stog m0).terminal = m0.terminal := by rw [finalize_rects_cons hr]
          simpa [k, this] using ht
        have := hcheck _ hmem (by rw [v1]; exact hh0) (by rw [v2]; exact ht0)
        rwa [v3] at this
    · rw [hmodsEq]; exact hflip
    · rw [hmodsEq]; rw [hnets] at hres; exact hres
  unfold parseNetlist
  rw [hDoc]
  simp only
  rw [hfin2, hmodsEq, ← hnets]

end FV.NL

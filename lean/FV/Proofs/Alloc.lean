import FV.Model.Alloc
import FV.Props.C18
import Mathlib.Algebra.BigOperators.Group.List.Basic
import Mathlib.Algebra.Order.BigOperators.Group.List
/-
  Helper lemmas for the `Allocation` model over an arbitrary linearly ordered field
  (used by `FV/Props/C02.lean` and `FV/Props/C12.lean`).
-/
namespace FV.Alloc
open FV FV.Rect FV.C18
set_option linter.unusedSectionVars false
set_option linter.unusedSimpArgs false
set_option linter.unusedVariables false

variable {α : Type} [Field α] [LinearOrder α] [IsStrictOrderedRing α]

@[simp] theorem one_eq : (one : α) = 1 := by simp [one]

/-! ### `mapE` -/

theorem mapE_ok_iff {β γ ε : Type} (f : β → Except ε γ) (l : List β) (ys : List γ) :
    mapE f l = .ok ys ↔ List.Forall₂ (fun x y => f x = .ok y) l ys := by
  induction l generalizing ys with
  | nil =>
    cases ys with
    | nil => simp [mapE]
    | cons y ys => simp [mapE]
  | cons x xs ih =>
    unfold mapE
    cases hfx : f x with
    | error e =>
      simp only
      constructor
      · intro h; cases h
      · intro h; cases h with | cons h1 _ => rw [hfx] at h1; cases h1
    | ok y =>
      simp only
      cases hm : mapE f xs with
      | error e =>
        simp only
        constructor
        · intro h; cases h
        · intro h
          cases h with
          | cons h1 h2 =>
            have := (ih _).mpr h2
            rw [hm] at this; cases this
      | ok ys' =>
        simp only
        constructor
        · intro h
          injection h with h; subst h
          exact List.Forall₂.cons hfx ((ih ys').mp hm)
        · intro h
          cases h with
          | cons h1 h2 =>
            rw [hfx] at h1; injection h1 with h1; subst h1
            have := (ih _).mpr h2
            rw [hm] at this; injection this with this; subst this; rfl

theorem mapE_ok_of_forall {β γ ε : Type} (f : β → Except ε γ) (R : β → γ → Prop) (l : List β)
    (h : ∀ x ∈ l, ∃ y, f x = .ok y ∧ R x y) : ∃ ys, mapE f l = .ok ys ∧ List.Forall₂ R l ys := by
  induction l with
  | nil => exact ⟨[], by simp [mapE], List.Forall₂.nil⟩
  | cons x xs ih =>
    obtain ⟨y, hy, hr⟩ := h x (by simp)
    obtain ⟨ys, hys, hrs⟩ := ih (fun z hz => h z (by simp [hz]))
    exact ⟨y :: ys, by simp [mapE, hy, hys], List.Forall₂.cons hr hrs⟩

theorem mapE_congr {β γ ε : Type} (f g : β → Except ε γ) (l : List β) (h : ∀ x ∈ l, f x = g x) :
    mapE f l = mapE g l := by
  induction l with
  | nil => rfl
  | cons x xs ih =>
    unfold mapE
    rw [h x (by simp), ih (fun z hz => h z (by simp [hz]))]

/-! ### generic facts on `Forall₂` / `flatten` -/

theorem forall2_mem_right {β γ : Type} {R : β → γ → Prop} {l : List β} {m : List γ}
    (h : List.Forall₂ R l m) : ∀ p ∈ m, ∃ d ∈ l, R d p := by
  induction h with
  | nil => intro p hp; cases hp
  | cons h1 _ ih =>
    intro p hp
    rcases List.mem_cons.mp hp with rfl | hp
    · exact ⟨_, by simp, h1⟩
    · obtain ⟨d, hd, hr⟩ := ih p hp
      exact ⟨d, by simp [hd], hr⟩

theorem forall2_mem_left {β γ : Type} {R : β → γ → Prop} {l : List β} {m : List γ}
    (h : List.Forall₂ R l m) : ∀ d ∈ l, ∃ p ∈ m, R d p := by
  induction h with
  | nil => intro p hp; cases hp
  | cons h1 _ ih =>
    intro p hp
    rcases List.mem_cons.mp hp with rfl | hp
    · exact ⟨_, by simp, h1⟩
    · obtain ⟨d, hd, hr⟩ := ih p hp
      exact ⟨d, by simp [hd], hr⟩

theorem sum_flatten_forall2 {β γ : Type} (f : γ → α) (g : β → α) {l : List β} {parts : List (List γ)}
    (h : List.Forall₂ (fun d p => (p.map f).sum = g d) l parts) :
    (parts.flatten.map f).sum = (l.map g).sum := by
  induction h with
  | nil => simp
  | cons h1 _ ih =>
    rw [List.flatten_cons, List.map_append, List.sum_append, List.map_cons, List.sum_cons, h1, ih]

theorem pairwise_of_forall2 {β γ : Type} {S : β → β → Prop} {R : β → γ → Prop} {T : γ → γ → Prop}
    {l : List β} {m : List γ} (hp : l.Pairwise S) (h : List.Forall₂ R l m)
    (hst : ∀ d e p q, S d e → R d p → R e q → T p q) : m.Pairwise T := by
  induction h with
  | nil => exact List.Pairwise.nil
  | cons h1 h2 ih =>
    rw [List.pairwise_cons] at hp ⊢
    refine ⟨?_, ih hp.2⟩
    intro q hq
    obtain ⟨e, he, hr⟩ := forall2_mem_right h2 q hq
    exact hst _ _ _ _ (hp.1 e he) h1 hr

/-! ### monotonicity of the overlap area -/

theorem ovLen_mono (l1 h1 l2 h2 l1' h1' l2' h2' : α) (a : l1 ≤ l1') (b : h1' ≤ h1) (c : l2 ≤ l2') (d : h2' ≤ h2) :
    ovLen l1' h1' l2' h2' ≤ ovLen l1 h1 l2 h2 := by
  unfold ovLen
  grind

theorem areaOverlap_mono (d' d e' e : Rect α) (h1 : d'.isInside d = true) (h2 : e'.isInside e = true) :
    d'.areaOverlap e' ≤ d.areaOverlap e := by
  rw [isInside_iff_coords] at h1 h2
  rw [areaOverlap_eq, areaOverlap_eq]
  apply mul_le_mul
  · exact ovLen_mono _ _ _ _ _ _ _ _ h1.1 h1.2.2.1 h2.1 h2.2.2.1
  · exact ovLen_mono _ _ _ _ _ _ _ _ h1.2.1 h1.2.2.2 h2.2.1 h2.2.2.2
  · exact ovLen_nonneg ..
  · exact ovLen_nonneg ..

theorem isInside_refl (r : Rect α) : r.isInside r = true := by
  rw [isInside_iff_coords]; exact ⟨le_refl _, le_refl _, le_refl _, le_refl _⟩

theorem isInside_trans (a b c : Rect α) (h1 : a.isInside b = true) (h2 : b.isInside c = true) :
    a.isInside c = true := by
  rw [isInside_iff_coords] at *
  exact ⟨le_trans h2.1 h1.1, le_trans h2.2.1 h1.2.1, le_trans h1.2.2.1 h2.2.2.1, le_trans h1.2.2.2 h2.2.2.2⟩

/-! ### a list of cells tiling one cell -/

/-- `ch` is a refinement of the single cell `c`: the pieces lie inside `c`, do not overlap, cover it,
    carry its ratios and attributes, and conserve area and first moments; a fixed cell is kept whole. -/
structure TilesCell (c : Cell α) (ch : List (Cell α)) : Prop where
  nonempty : ch ≠ []
  alloc : ∀ d ∈ ch, d.alloc = c.alloc
  attrs : ∀ d ∈ ch, d.rect.region = c.rect.region ∧ d.rect.fixed = c.rect.fixed ∧ d.rect.hard = c.rect.hard
  pos : ∀ d ∈ ch, 0 < d.rect.w ∧ 0 < d.rect.h
  inside : ∀ d ∈ ch, d.rect.isInside c.rect = true
  disjoint : ch.Pairwise (fun d e => d.rect.areaOverlap e.rect = 0)
  area : (ch.map (fun d => d.rect.area)).sum = c.rect.area
  momx : (ch.map (fun d => d.rect.area * d.rect.cx)).sum = c.rect.area * c.rect.cx
  momy : (ch.map (fun d => d.rect.area * d.rect.cy)).sum = c.rect.area * c.rect.cy
  cover : ∀ x y, Mem c.rect x y → ∃ d ∈ ch, Mem d.rect x y
  fixedKept : c.rect.fixed = true → ch = [c]

theorem TilesCell.refl (c : Cell α) (hw : 0 < c.rect.w) (hh : 0 < c.rect.h) : TilesCell c [c] := by
  refine ⟨by simp, ?_, ?_, ?_, ?_, ?_, by simp, by simp, by simp, ?_, fun _ => rfl⟩
  · intro d hd; simp at hd; subst hd; rfl
  · intro d hd; simp at hd; subst hd; exact ⟨rfl, rfl, rfl⟩
  · intro d hd; simp at hd; subst hd; exact ⟨hw, hh⟩
  · intro d hd; simp at hd; subst hd; exact isInside_refl _
  · simp
  · intro x y hm; exact ⟨c, by simp, hm⟩

/-- refinements compose. -/
theorem TilesCell.bind {c : Cell α} {ch : List (Cell α)} {parts : List (List (Cell α))}
    (h : TilesCell c ch) (hp : List.Forall₂ TilesCell ch parts) : TilesCell c parts.flatten := by
  have hr := forall2_mem_right hp
  have hl := forall2_mem_left hp
  have memf : ∀ d' ∈ parts.flatten, ∃ d ∈ ch, ∃ p, d' ∈ p ∧ TilesCell d p := by
    intro d' hd'
    obtain ⟨p, hp1, hp2⟩ := List.mem_flatten.mp hd'
    obtain ⟨d, hd, ht⟩ := hr p hp1
    exact ⟨d, hd, p, hp2, ht⟩
  refine ⟨?_, ?_, ?_, ?_, ?_, ?_, ?_, ?_, ?_, ?_, ?_⟩
  · cases hp with
    | nil => exact absurd rfl h.nonempty
    | cons h1 _ =>
      intro hc
      have := h1.nonempty
      simp only [List.flatten_cons, List.append_eq_nil_iff] at hc
      exact this hc.1
  · intro d' hd'
    obtain ⟨d, hd, p, hdp, ht⟩ := memf d' hd'
    rw [ht.alloc d' hdp, h.alloc d hd]
  · intro d' hd'
    obtain ⟨d, hd, p, hdp, ht⟩ := memf d' hd'
    obtain ⟨a1, a2, a3⟩ := ht.attrs d' hdp
    obtain ⟨b1, b2, b3⟩ := h.attrs d hd
    exact ⟨a1.trans b1, a2.trans b2, a3.trans b3⟩
  · intro d' hd'
    obtain ⟨d, hd, p, hdp, ht⟩ := memf d' hd'
    exact ht.pos d' hdp
  · intro d' hd'
    obtain ⟨d, hd, p, hdp, ht⟩ := memf d' hd'
    exact isInside_trans _ _ _ (ht.inside d' hdp) (h.inside d hd)
  · rw [List.pairwise_flatten]
    constructor
    · intro p hp1
      obtain ⟨d, _, ht⟩ := hr p hp1
      exact ht.disjoint
    · apply pairwise_of_forall2 h.disjoint hp
      intro d e p q hde hdp heq x hx y hy
      have h1 := areaOverlap_mono _ _ _ _ (hdp.inside x hx) (heq.inside y hy)
      have h2 := areaOverlap_nonneg x.rect y.rect
      rw [hde] at h1
      exact le_antisymm h1 h2
  · rw [← h.area]
    exact sum_flatten_forall2 (fun d : Cell α => d.rect.area) (fun d : Cell α => d.rect.area)
      (hp.imp (fun _ _ ht => ht.area))
  · rw [← h.momx]
    exact sum_flatten_forall2 (fun d : Cell α => d.rect.area * d.rect.cx) (fun d : Cell α => d.rect.area * d.rect.cx)
      (hp.imp (fun _ _ ht => ht.momx))
  · rw [← h.momy]
    exact sum_flatten_forall2 (fun d : Cell α => d.rect.area * d.rect.cy) (fun d : Cell α => d.rect.area * d.rect.cy)
      (hp.imp (fun _ _ ht => ht.momy))
  · intro x y hm
    obtain ⟨d, hd, hmd⟩ := h.cover x y hm
    obtain ⟨p, hp1, ht⟩ := hl d hd
    obtain ⟨d', hd', hm'⟩ := ht.cover x y hmd
    exact ⟨d', List.mem_flatten.mpr ⟨p, hp1, hd'⟩, hm'⟩
  · intro hf
    have := h.fixedKept hf
    subst this
    cases hp with
    | cons h1 h2 =>
      cases h2
      have := h1.fixedKept hf
      subst this
      simp

/-! ### two pieces of a cut -/

theorem area_sides (r : Rect α) : r.area = (r.xmax - r.xmin) * (r.ymax - r.ymin) := by
  rw [xmax_sub_xmin, ymax_sub_ymin]; rfl

theorem pieces_of_sidesH (r p q : Rect α) (x : α) (hh : 0 < r.h)
    (hs : p.xmin = r.xmin ∧ p.xmax = x ∧ q.xmin = x ∧ q.xmax = r.xmax ∧
      p.ymin = r.ymin ∧ p.ymax = r.ymax ∧ q.ymin = r.ymin ∧ q.ymax = r.ymax ∧ r.xmin < x ∧ x < r.xmax) :
    p.area * p.cx + q.area * q.cx = r.area * r.cx ∧ p.area * p.cy + q.area * q.cy = r.area * r.cy ∧
    0 < p.w ∧ 0 < p.h ∧ 0 < q.w ∧ 0 < q.h := by
  obtain ⟨a1, a2, a3, a4, a5, a6, a7, a8, a9, a10⟩ := hs
  have e1 := xmax_sub_xmin p; have e2 := xmax_sub_xmin q
  have e3 := ymax_sub_ymin p; have e4 := ymax_sub_ymin q; have e5 := ymax_sub_ymin r
  refine ⟨?_, ?_, by linarith, by linarith, by linarith, by linarith⟩
  · rw [area_sides p, area_sides q, area_sides r, cx_eq p, cx_eq q, cx_eq r, a1, a2, a3, a4, a5, a6, a7, a8]; ring
  · rw [area_sides p, area_sides q, area_sides r, cy_eq p, cy_eq q, cy_eq r, a1, a2, a3, a4, a5, a6, a7, a8]; ring

theorem pieces_of_sidesV (r p q : Rect α) (y : α) (hw : 0 < r.w)
    (hs : p.ymin = r.ymin ∧ p.ymax = y ∧ q.ymin = y ∧ q.ymax = r.ymax ∧
      p.xmin = r.xmin ∧ p.xmax = r.xmax ∧ q.xmin = r.xmin ∧ q.xmax = r.xmax ∧ r.ymin < y ∧ y < r.ymax) :
    p.area * p.cx + q.area * q.cx = r.area * r.cx ∧ p.area * p.cy + q.area * q.cy = r.area * r.cy ∧
    0 < p.w ∧ 0 < p.h ∧ 0 < q.w ∧ 0 < q.h := by
  obtain ⟨a1, a2, a3, a4, a5, a6, a7, a8, a9, a10⟩ := hs
  have e1 := xmax_sub_xmin p; have e2 := xmax_sub_xmin q; have e5 := xmax_sub_xmin r
  have e3 := ymax_sub_ymin p; have e4 := ymax_sub_ymin q
  refine ⟨?_, ?_, by linarith, by linarith, by linarith, by linarith⟩
  · rw [area_sides p, area_sides q, area_sides r, cx_eq p, cx_eq q, cx_eq r, a1, a2, a3, a4, a5, a6, a7, a8]; ring
  · rw [area_sides p, area_sides q, area_sides r, cy_eq p, cy_eq q, cy_eq r, a1, a2, a3, a4, a5, a6, a7, a8]; ring

/-- two pieces that tile `r` (C18 `Tiles2`) with the right moments form a refinement of the cell. -/
theorem TilesCell.of_pair (r p q : Rect α) (al : Alloc α) (d d1 d2 : Nat) (ht : Tiles2 r p q)
    (hm : p.area * p.cx + q.area * q.cx = r.area * r.cx ∧ p.area * p.cy + q.area * q.cy = r.area * r.cy ∧
      0 < p.w ∧ 0 < p.h ∧ 0 < q.w ∧ 0 < q.h) (hf : r.fixed = false) :
    TilesCell ⟨r, al, d⟩ [⟨p, al, d1⟩, ⟨q, al, d2⟩] := by
  obtain ⟨m1, m2, p1, p2, p3, p4⟩ := hm
  refine ⟨by simp, ?_, ?_, ?_, ?_, ?_, ?_, ?_, ?_, ?_, ?_⟩
  · intro c hc; simp at hc; rcases hc with rfl | rfl <;> rfl
  · intro c hc; simp at hc; rcases hc with rfl | rfl
    · exact ht.inherit_p
    · exact ht.inherit_q
  · intro c hc; simp at hc; rcases hc with rfl | rfl
    · exact ⟨p1, p2⟩
    · exact ⟨p3, p4⟩
  · intro c hc; simp at hc; rcases hc with rfl | rfl
    · exact ht.inside_p
    · exact ht.inside_q
  · simp [ht.disjoint]
  · simp [ht.area]
  · simp [m1]
  · simp [m2]
  · intro x y hxy
    rcases ht.cover x y hxy with h | h
    · exact ⟨⟨p, al, d1⟩, by simp, h⟩
    · exact ⟨⟨q, al, d2⟩, by simp, h⟩
  · intro h; simp [hf] at h

/-- `split()` of a proper, non-fixed rectangle refines the cell. -/
theorem split_tilesCell (r p q : Rect α) (al : Alloc α) (d d1 d2 : Nat) (hw : 0 < r.w) (hh : 0 < r.h)
    (hf : r.fixed = false) (h : r.split = some (p, q)) : TilesCell ⟨r, al, d⟩ [⟨p, al, d1⟩, ⟨q, al, d2⟩] := by
  have ht := (split_tiles r p q hw hh h).1
  unfold Rect.split at h
  split at h
  · exact TilesCell.of_pair r p q al d d1 d2 ht (pieces_of_sidesV r p q r.cy hw (splitV_half_sides r p q h)) hf
  · exact TilesCell.of_pair r p q al d d1 d2 ht (pieces_of_sidesH r p q r.cx hh (splitH_half_sides r p q h)) hf

/-- `_split_allocation` succeeds and refines the cell into `2^levels` pieces of depth `depth + levels`. -/
theorem splitAllocation_tiles (levels : Nat) : ∀ (r : Rect α) (al : Alloc α) (d : Nat), 0 < r.w → 0 < r.h →
    (levels = 0 ∨ r.fixed = false) →
    ∃ ch, splitAllocation r al d levels = .ok ch ∧ TilesCell ⟨r, al, d⟩ ch ∧
      (∀ c ∈ ch, c.depth = d + levels) ∧ ch.length = 2 ^ levels := by
  induction levels with
  | zero =>
    intro r al d hw hh _
    exact ⟨[⟨r, al, d⟩], rfl, TilesCell.refl _ hw hh, by simp, by simp⟩
  | succ l ih =>
    intro r al d hw hh hf
    have hf : r.fixed = false := by
      rcases hf with h | h
      · omega
      · exact h
    have hs := split_isSome r hw hh
    obtain ⟨⟨p, q⟩, hpq⟩ := Option.isSome_iff_exists.mp hs
    have ht := split_tilesCell r p q al d (d + 1) (d + 1) hw hh hf hpq
    have hp := ht.pos ⟨p, al, d + 1⟩ (by simp)
    have hq := ht.pos ⟨q, al, d + 1⟩ (by simp)
    have fp : p.fixed = false := by have := (ht.attrs ⟨p, al, d + 1⟩ (by simp)).2.1; simp at this; rw [this, hf]
    have fq : q.fixed = false := by have := (ht.attrs ⟨q, al, d + 1⟩ (by simp)).2.1; simp at this; rw [this, hf]
    obtain ⟨a, ha, ta, da, la⟩ := ih p al (d + 1) hp.1 hp.2 (Or.inr fp)
    obtain ⟨b, hb, tb, db, lb⟩ := ih q al (d + 1) hq.1 hq.2 (Or.inr fq)
    refine ⟨a ++ b, ?_, ?_, ?_, ?_⟩
    · simp [splitAllocation, hpq, ha, hb]
    · have := TilesCell.bind ht (List.Forall₂.cons ta (List.Forall₂.cons tb List.Forall₂.nil))
      simpa using this
    · intro c hc
      rcases List.mem_append.mp hc with h | h
      · rw [da c h]; omega
      · rw [db c h]; omega
    · rw [List.length_append, la, lb]; ring

/-! ### refinement of a list of cells -/

/-- `cs'` refines `cs`: it is the concatenation of one refinement per cell of `cs`, in order. -/
def Refines (cs cs' : List (Cell α)) : Prop :=
  ∃ parts : List (List (Cell α)), cs' = parts.flatten ∧ List.Forall₂ TilesCell cs parts

theorem forall2_append_left {β γ : Type} {R : β → γ → Prop} : ∀ (l1 l2 : List β) (m : List γ),
    List.Forall₂ R (l1 ++ l2) m → ∃ m1 m2, m = m1 ++ m2 ∧ List.Forall₂ R l1 m1 ∧ List.Forall₂ R l2 m2 := by
  intro l1
  induction l1 with
  | nil => intro l2 m h; exact ⟨[], m, rfl, List.Forall₂.nil, h⟩
  | cons x xs ih =>
    intro l2 m h
    cases h with
    | cons h1 h2 =>
      obtain ⟨m1, m2, rfl, a, b⟩ := ih l2 _ h2
      exact ⟨_ :: m1, m2, rfl, List.Forall₂.cons h1 a, b⟩

theorem forall2_flatten_split {β γ : Type} {R : β → γ → Prop} : ∀ (P : List (List β)) (Q : List γ),
    List.Forall₂ R P.flatten Q → ∃ QQ : List (List γ), Q = QQ.flatten ∧ List.Forall₂ (fun p qq => List.Forall₂ R p qq) P QQ := by
  intro P
  induction P with
  | nil => intro Q h; simp at h; subst h; exact ⟨[], rfl, List.Forall₂.nil⟩
  | cons p P ih =>
    intro Q h
    rw [List.flatten_cons] at h
    obtain ⟨m1, m2, rfl, a, b⟩ := forall2_append_left _ _ _ h
    obtain ⟨QQ, rfl, c⟩ := ih m2 b
    exact ⟨m1 :: QQ, rfl, List.Forall₂.cons a c⟩

theorem forall2_comp {β γ δ : Type} {R1 : β → γ → Prop} {R2 : γ → δ → Prop} {R3 : β → δ → Prop}
    (hc : ∀ a b c, R1 a b → R2 b c → R3 a c) : ∀ (l : List β) (m : List γ) (n : List δ),
    List.Forall₂ R1 l m → List.Forall₂ R2 m n → List.Forall₂ R3 l n := by
  intro l m n h1
  induction h1 generalizing n with
  | nil => intro h2; cases h2; exact List.Forall₂.nil
  | cons a _ ih =>
    intro h2
    cases h2 with
    | cons b c => exact List.Forall₂.cons (hc _ _ _ a b) (ih _ c)

theorem Refines.refl (cs : List (Cell α)) (hpos : ∀ c ∈ cs, 0 < c.rect.w ∧ 0 < c.rect.h) : Refines cs cs := by
  refine ⟨cs.map (fun c => [c]), ?_, ?_⟩
  · clear hpos
    induction cs with
    | nil => rfl
    | cons c cs ih => simp [← ih]
  · rw [List.forall₂_map_right_iff]
    induction cs with
    | nil => exact List.Forall₂.nil
    | cons c cs ih =>
      exact List.Forall₂.cons (TilesCell.refl c (hpos c (by simp)).1 (hpos c (by simp)).2)
        (ih (fun d hd => hpos d (by simp [hd])))

theorem Refines.trans {cs cs' cs'' : List (Cell α)} (h1 : Refines cs cs') (h2 : Refines cs' cs'') :
    Refines cs cs'' := by
  obtain ⟨P, rfl, hP⟩ := h1
  obtain ⟨Q, rfl, hQ⟩ := h2
  obtain ⟨QQ, rfl, hQQ⟩ := forall2_flatten_split P Q hQ
  refine ⟨QQ.map List.flatten, ?_, ?_⟩
  · rw [List.flatten_flatten]
  · rw [List.forall₂_map_right_iff]
    exact forall2_comp (R1 := TilesCell) (R2 := fun p qq => List.Forall₂ TilesCell p qq)
      (R3 := fun c qq => TilesCell c qq.flatten) (fun a b c h h' => TilesCell.bind h h') _ _ _ hP hQQ

/-- every cell of the refinement lies in exactly the part of one original cell. -/
theorem Refines.mem {cs cs' : List (Cell α)} (h : Refines cs cs') :
    ∀ d ∈ cs', ∃ c ∈ cs, d.alloc = c.alloc ∧ d.rect.isInside c.rect = true ∧ 0 < d.rect.w ∧ 0 < d.rect.h ∧
      d.rect.region = c.rect.region ∧ d.rect.fixed = c.rect.fixed ∧ d.rect.hard = c.rect.hard := by
  obtain ⟨P, rfl, hP⟩ := h
  intro d hd
  obtain ⟨p, hp1, hp2⟩ := List.mem_flatten.mp hd
  obtain ⟨c, hc, ht⟩ := forall2_mem_right hP p hp1
  exact ⟨c, hc, ht.alloc d hp2, ht.inside d hp2, (ht.pos d hp2).1, (ht.pos d hp2).2, ht.attrs d hp2⟩

/-- a fixed cell of the original list is a cell of the refinement. -/
theorem Refines.fixed_kept {cs cs' : List (Cell α)} (h : Refines cs cs') :
    ∀ c ∈ cs, c.rect.fixed = true → c ∈ cs' := by
  obtain ⟨P, rfl, hP⟩ := h
  intro c hc hf
  obtain ⟨p, hp1, ht⟩ := forall2_mem_left hP c hc
  have := ht.fixedKept hf
  subst this
  exact List.mem_flatten.mpr ⟨_, hp1, by simp⟩

theorem Refines.ne_nil {cs cs' : List (Cell α)} (h : Refines cs cs') (hne : cs ≠ []) : cs' ≠ [] := by
  obtain ⟨P, rfl, hP⟩ := h
  cases hP with
  | nil => exact absurd rfl hne
  | cons h1 _ =>
    intro hc
    simp only [List.flatten_cons, List.append_eq_nil_iff] at hc
    exact h1.nonempty hc.1

/-- pairwise overlap bounds survive refinement (`0 ≤ ε`). -/
theorem Refines.pairwise {cs cs' : List (Cell α)} (h : Refines cs cs') (ε : α) (hε : 0 ≤ ε)
    (hp : cs.Pairwise (fun c d => c.rect.areaOverlap d.rect ≤ ε)) :
    cs'.Pairwise (fun c d => c.rect.areaOverlap d.rect ≤ ε) := by
  obtain ⟨P, rfl, hP⟩ := h
  rw [List.pairwise_flatten]
  constructor
  · intro p hp1
    obtain ⟨c, _, ht⟩ := forall2_mem_right hP p hp1
    exact ht.disjoint.imp (fun h => by rw [h]; exact hε)
  · apply pairwise_of_forall2 hp hP
    intro d e p q hde hdp heq x hx y hy
    exact le_trans (areaOverlap_mono _ _ _ _ (hdp.inside x hx) (heq.inside y hy)) hde

/-! ### the module dictionary (`_module2rect` keys) is unchanged by refinement -/

theorem addKeys_mem (acc : List String) (al : Alloc α) (k : String) :
    k ∈ addKeys acc al ↔ k ∈ acc ∨ k ∈ al.map Prod.fst := by
  unfold addKeys
  induction al generalizing acc with
  | nil => simp
  | cons p ps ih =>
    simp only [List.foldl_cons, List.map_cons, List.mem_cons]
    rw [ih]
    by_cases hc : acc.contains p.1 = true
    · simp only [hc, ↓reduceIte]
      have : p.1 ∈ acc := by simpa using hc
      constructor
      · rintro (h | h)
        · exact Or.inl h
        · exact Or.inr (Or.inr h)
      · rintro (h | h | h)
        · exact Or.inl h
        · subst h; exact Or.inl this
        · exact Or.inr h
    · simp only [hc, Bool.false_eq_true, ↓reduceIte, List.mem_append, List.mem_singleton]
      tauto

theorem addKeys_fix (acc : List String) (al : Alloc α) (h : ∀ p ∈ al, p.1 ∈ acc) : addKeys acc al = acc := by
  unfold addKeys
  induction al generalizing acc with
  | nil => rfl
  | cons p ps ih =>
    have hp : acc.contains p.1 = true := by simpa using h p (by simp)
    simp only [List.foldl_cons, hp, ↓reduceIte]
    exact ih acc (fun q hq => h q (by simp [hq]))

theorem addKeys_idem (acc : List String) (al : Alloc α) : addKeys (addKeys acc al) al = addKeys acc al := by
  apply addKeys_fix
  intro p hp
  rw [addKeys_mem]
  exact Or.inr (List.mem_map.mpr ⟨p, hp, rfl⟩)

theorem foldl_addKeys_part (acc : List String) (al : Alloc α) (p : List (Cell α)) (hne : p ≠ [])
    (hal : ∀ d ∈ p, d.alloc = al) : p.foldl (fun acc c => addKeys acc c.alloc) acc = addKeys acc al := by
  induction p generalizing acc with
  | nil => exact absurd rfl hne
  | cons d ds ih =>
    simp only [List.foldl_cons]
    rw [hal d (by simp)]
    by_cases hds : ds = []
    · subst hds; rfl
    · rw [ih (addKeys acc al) hds (fun e he => hal e (by simp [he])), addKeys_idem]

theorem modules_refines {cs cs' : List (Cell α)} (h : Refines cs cs') : modules cs' = modules cs := by
  obtain ⟨P, rfl, hP⟩ := h
  unfold modules
  generalize ([] : List String) = acc
  induction hP generalizing acc with
  | nil => rfl
  | cons h1 _ ih =>
    rw [List.flatten_cons, List.foldl_append, List.foldl_cons,
      foldl_addKeys_part acc _ _ h1.nonempty h1.alloc, ih]

/-! ### per-module area and first moments as sums over the cells -/

/-- occupancy ratio of module `m` in cell `c` (`0` when the cell does not list it). -/
def occ (m : String) (c : Cell α) : α := (c.alloc.lookup m).getD 0

/-- allocated area of `m`: `Σ ratio · area(cell)`. -/
def areaSum (m : String) (cs : List (Cell α)) : α := (cs.map fun c => occ m c * c.rect.area).sum
/-- first moments of `m`: `Σ ratio · area(cell) · centre(cell)`. -/
def momXSum (m : String) (cs : List (Cell α)) : α := (cs.map fun c => c.rect.cx * (occ m c * c.rect.area)).sum
def momYSum (m : String) (cs : List (Cell α)) : α := (cs.map fun c => c.rect.cy * (occ m c * c.rect.area)).sum

theorem modStats_foldl (m : String) (cs : List (Cell α)) (acc : α × α × α) :
    (entries m cs).foldl (fun acc e =>
        let ratio := e.2 * e.1.area
        (acc.1 + ratio, acc.2.1 + e.1.cx * ratio, acc.2.2 + e.1.cy * ratio)) acc =
      (acc.1 + areaSum m cs, acc.2.1 + momXSum m cs, acc.2.2 + momYSum m cs) := by
  induction cs generalizing acc with
  | nil => simp [entries, areaSum, momXSum, momYSum]
  | cons c cs ih =>
    unfold entries at ih ⊢
    rw [List.filterMap_cons]
    cases hl : c.alloc.lookup m with
    | none =>
      simp only [Option.map_none]
      rw [ih]
      simp [areaSum, momXSum, momYSum, occ, hl]
    | some o =>
      simp only [Option.map_some, List.foldl_cons]
      rw [ih]
      simp only [areaSum, momXSum, momYSum, occ, hl, List.map_cons, List.sum_cons, Option.getD_some]
      refine Prod.ext ?_ (Prod.ext ?_ ?_) <;> simp only <;> ring

/-- the running totals of `_calculate_areas_and_centers` are these sums. -/
theorem modStats_eq (m : String) (cs : List (Cell α)) :
    modStats (entries m cs) = (areaSum m cs, momXSum m cs, momYSum m cs) := by
  unfold modStats
  rw [modStats_foldl]
  simp

theorem sum_map_mul_left' {β : Type} (l : List β) (r : α) (f : β → α) :
    (l.map fun b => r * f b).sum = r * (l.map f).sum := by
  induction l with
  | nil => simp
  | cons b bs ih => simp [ih, mul_add]

theorem occ_part (m : String) (c : Cell α) (p : List (Cell α)) (ht : TilesCell c p) :
    ∀ d ∈ p, occ m d = occ m c := by
  intro d hd; unfold occ; rw [ht.alloc d hd]

theorem areaSum_refines (m : String) {cs cs' : List (Cell α)} (h : Refines cs cs') :
    areaSum m cs' = areaSum m cs := by
  obtain ⟨P, rfl, hP⟩ := h
  unfold areaSum
  apply sum_flatten_forall2
  apply hP.imp
  intro c p ht
  rw [List.map_congr_left (g := fun d => occ m c * d.rect.area) (fun d hd => by rw [occ_part m c p ht d hd]),
    sum_map_mul_left', ht.area]

theorem momXSum_refines (m : String) {cs cs' : List (Cell α)} (h : Refines cs cs') :
    momXSum m cs' = momXSum m cs := by
  obtain ⟨P, rfl, hP⟩ := h
  unfold momXSum
  apply sum_flatten_forall2
  apply hP.imp
  intro c p ht
  rw [List.map_congr_left (g := fun d => occ m c * (d.rect.area * d.rect.cx))
      (fun d hd => by rw [occ_part m c p ht d hd]; ring),
    sum_map_mul_left', ht.momx]
  ring

theorem momYSum_refines (m : String) {cs cs' : List (Cell α)} (h : Refines cs cs') :
    momYSum m cs' = momYSum m cs := by
  obtain ⟨P, rfl, hP⟩ := h
  unfold momYSum
  apply sum_flatten_forall2
  apply hP.imp
  intro c p ht
  rw [List.map_congr_left (g := fun d => occ m c * (d.rect.area * d.rect.cy))
      (fun d hd => by rw [occ_part m c p ht d hd]; ring),
    sum_map_mul_left', ht.momy]
  ring

/-- the caches `_areas / _centers` computed from a refinement are literally those of the original. -/
theorem areasCenters_refines {cs cs' : List (Cell α)} (h : Refines cs cs') :
    areasCenters cs' = areasCenters cs := by
  unfold areasCenters
  rw [modules_refines h]
  apply mapE_congr
  intro m _
  unfold statOf
  rw [modStats_eq, modStats_eq, areaSum_refines m h, momXSum_refines m h, momYSum_refines m h]

/-! ### what the constructor checks -/

/-- a proper rectangle in the positive quadrant. -/
def CellGood (c : Cell α) : Prop := 0 < c.rect.w ∧ 0 < c.rect.h ∧ 0 ≤ c.rect.xmin ∧ 0 ≤ c.rect.ymin

/-- the conditions `Allocation.__init__` imposes on a list of cells (area tolerance `εA`). -/
structure CellsOK (εA : α) (cs : List (Cell α)) : Prop where
  nonempty : cs ≠ []
  good : ∀ c ∈ cs, CellGood c
  allocs : ∀ c ∈ cs, allocOK c.alloc = true
  noOverlap : cs.Pairwise (fun c d => c.rect.areaOverlap d.rect ≤ εA)
  areaNZ : ∀ m ∈ modules cs, areaSum m cs ≠ 0

/-- a valid allocation object in the global state `st` (tolerances defined): what the constructor
    accepted, with consistent caches. -/
structure ValidAlloc (st : Eps α) (a : Allocation α) : Prop where
  epsDef : 0 ≤ st.dist
  epsArea : 0 ≤ st.area
  cells : CellsOK st.area a.cells
  stats : areasCenters a.cells = .ok a.stats
  bbox : boundingBox a.cells = .ok a.bbox

theorem isZero_iff (x : α) : isZero x = true ↔ x = 0 := by
  simp only [isZero, zero_eq, Bool.and_eq_true, decide_eq_true_eq]
  constructor
  · rintro ⟨a, b⟩; exact le_antisymm a b
  · rintro rfl; exact ⟨le_refl _, le_refl _⟩

theorem foldl_min_le {β : Type} (g : β → α) (l : List β) (init : α) :
    l.foldl (fun m d => pyMin m (g d)) init ≤ init := by
  induction l generalizing init with
  | nil => exact le_refl _
  | cons d ds ih =>
    rw [List.foldl_cons]
    refine le_trans (ih _) ?_
    rw [pyMin_eq]; exact min_le_left _ _

theorem le_foldl_min {β : Type} (g : β → α) (l : List β) (init lb : α) (h0 : lb ≤ init) (h : ∀ d ∈ l, lb ≤ g d) :
    lb ≤ l.foldl (fun m d => pyMin m (g d)) init := by
  induction l generalizing init with
  | nil => exact h0
  | cons d ds ih =>
    rw [List.foldl_cons]
    refine ih _ ?_ (fun e he => h e (by simp [he]))
    rw [pyMin_eq]; exact le_min h0 (h d (by simp))

theorem le_foldl_max {β : Type} (g : β → α) (l : List β) (init : α) :
    init ≤ l.foldl (fun m d => pyMax m (g d)) init := by
  induction l generalizing init with
  | nil => exact le_refl _
  | cons d ds ih =>
    rw [List.foldl_cons]
    refine le_trans ?_ (ih _)
    rw [pyMax_eq]; exact le_max_left _ _

theorem boundingBox_ok (cs : List (Cell α)) (hne : cs ≠ []) (hg : ∀ c ∈ cs, CellGood c) :
    ∃ bb, boundingBox cs = .ok bb := by
  cases cs with
  | nil => exact absurd rfl hne
  | cons c cs =>
    obtain ⟨hw, hh, hx, hy⟩ := hg c (by simp)
    have h1 := foldl_min_le (fun d : Cell α => d.rect.xmin) cs c.rect.xmin
    have h2 := foldl_min_le (fun d : Cell α => d.rect.ymin) cs c.rect.ymin
    have h3 := le_foldl_max (fun d : Cell α => d.rect.xmax) cs c.rect.xmax
    have h4 := le_foldl_max (fun d : Cell α => d.rect.ymax) cs c.rect.ymax
    have h5 := le_foldl_min (fun d : Cell α => d.rect.xmin) cs c.rect.xmin 0 hx (fun d hd => (hg d (by simp [hd])).2.2.1)
    have h6 := le_foldl_min (fun d : Cell α => d.rect.ymin) cs c.rect.ymin 0 hy (fun d hd => (hg d (by simp [hd])).2.2.2)
    have h7 := xmin_lt_xmax c.rect hw
    have h8 := ymin_lt_ymax c.rect hh
    simp only [boundingBox, zero_eq]
    rw [if_neg (not_not.mpr ⟨h5, h6⟩), if_neg (not_not.mpr (by linarith)), if_neg (not_not.mpr (by linarith))]
    exact ⟨_, rfl⟩

theorem parseCell_toRaw (c : Cell α) (h : allocOK c.alloc = true) : parseCell c.toRaw = .ok c := by
  simp [parseCell, Cell.toRaw, parseRect, h]

theorem mapE_parse_toRaw (cs : List (Cell α)) (h : ∀ c ∈ cs, allocOK c.alloc = true) :
    mapE parseCell (cs.map Cell.toRaw) = .ok cs := by
  rw [mapE_ok_iff, List.forall₂_map_left_iff]
  induction cs with
  | nil => exact List.Forall₂.nil
  | cons c cs ih =>
    exact List.Forall₂.cons (parseCell_toRaw c (h c (by simp))) (ih (fun d hd => h d (by simp [hd])))

theorem noOverlapPairs_of (ε : α) (cs : List (Cell α))
    (h : cs.Pairwise (fun c d => c.rect.areaOverlap d.rect ≤ ε)) : noOverlapPairs ε cs = true := by
  induction cs with
  | nil => rfl
  | cons c cs ih =>
    rw [List.pairwise_cons] at h
    simp only [noOverlapPairs, Bool.and_eq_true, List.all_eq_true]
    refine ⟨?_, ih h.2⟩
    intro d hd
    simp only [Rect.overlap, Bool.not_eq_true', decide_eq_false_iff_not, not_lt]
    exact h.1 d hd

theorem noOverlapPairs_iff (ε : α) (cs : List (Cell α)) :
    noOverlapPairs ε cs = true ↔ cs.Pairwise (fun c d => c.rect.areaOverlap d.rect ≤ ε) := by
  constructor
  · intro h
    induction cs with
    | nil => exact List.Pairwise.nil
    | cons c cs ih =>
      simp only [noOverlapPairs, Bool.and_eq_true, List.all_eq_true] at h
      rw [List.pairwise_cons]
      refine ⟨?_, ih h.2⟩
      intro d hd
      have := h.1 d hd
      simpa [Rect.overlap] using this
  · exact noOverlapPairs_of ε cs

theorem areasCenters_ok (cs : List (Cell α)) (h : ∀ m ∈ modules cs, areaSum m cs ≠ 0) :
    ∃ stats, areasCenters cs = .ok stats := by
  unfold areasCenters
  have hstat : ∀ m ∈ modules cs, ∃ y, statOf cs m = .ok y ∧ True := by
    intro m hm
    have hz : isZero (areaSum m cs) = false := by
      rw [Bool.eq_false_iff, Ne, isZero_iff]; exact h m hm
    exact ⟨(m, areaSum m cs, momXSum m cs / areaSum m cs, momYSum m cs / areaSum m cs),
      by unfold statOf; rw [modStats_eq]; simp [hz], trivial⟩
  obtain ⟨ys, hys, _⟩ := mapE_ok_of_forall (statOf cs) (fun _ _ => True) (modules cs) hstat
  exact ⟨ys, hys⟩

/-- **the constructor accepts** a list of `Rectangle`-object descriptors satisfying its checks, keeps the
    tolerances, and returns exactly these cells. -/
theorem mkAllocation_obj_ok (env : Env α) (st : Eps α) (cs : List (Cell α)) (hd : 0 ≤ st.dist) (ha : 0 ≤ st.area)
    (hc : CellsOK st.area cs) :
    ∃ a, mkAllocation env st (cs.map Cell.toRaw) = .ok (a, st) ∧ a.cells = cs ∧ ValidAlloc st a := by
  obtain ⟨bb, hbb⟩ := boundingBox_ok cs hc.nonempty hc.good
  obtain ⟨stats, hst⟩ := areasCenters_ok cs hc.areaNZ
  refine ⟨⟨cs, stats, bb⟩, ?_, rfl, ⟨hd, ha, hc, hst, hbb⟩⟩
  unfold mkAllocation
  rw [mapE_parse_toRaw cs hc.allocs]
  simp only [hbb]
  have hdef : st.defined = true := by simp [Eps.defined, hd]
  simp only [hdef, ↓reduceIte]
  have hno : checkNoOverlap st cs = true := by
    unfold checkNoOverlap
    rw [if_neg (by simp [ha])]
    exact noOverlapPairs_of _ _ hc.noOverlap
  simp [hno, hst]

theorem CellsOK.refines {ε : α} {cs cs' : List (Cell α)} (hε : 0 ≤ ε) (hc : CellsOK ε cs) (h : Refines cs cs') :
    CellsOK ε cs' := by
  refine ⟨h.ne_nil hc.nonempty, ?_, ?_, h.pairwise ε hε hc.noOverlap, ?_⟩
  · intro d hd
    obtain ⟨c, hcm, _, hin, hw, hh, _⟩ := h.mem d hd
    obtain ⟨_, _, gx, gy⟩ := hc.good c hcm
    rw [isInside_iff_coords] at hin
    exact ⟨hw, hh, le_trans gx hin.1, le_trans gy hin.2.1⟩
  · intro d hd
    obtain ⟨c, hcm, hal, _⟩ := h.mem d hd
    rw [hal]; exact hc.allocs c hcm
  · intro m hm
    rw [modules_refines h] at hm
    rw [areaSum_refines m h]
    exact hc.areaNZ m hm

/-- re-constructing an allocation from a refinement of a valid allocation succeeds, is valid, and has
    literally the same `_areas / _centers`. -/
theorem mk_of_refines (env : Env α) (st : Eps α) (a : Allocation α) (hv : ValidAlloc st a)
    (cs' : List (Cell α)) (h : Refines a.cells cs') :
    ∃ a', mkAllocation env st (cs'.map Cell.toRaw) = .ok (a', st) ∧ a'.cells = cs' ∧ a'.stats = a.stats ∧
      ValidAlloc st a' := by
  obtain ⟨a', h1, h2, h3⟩ := mkAllocation_obj_ok env st cs' hv.epsDef hv.epsArea (hv.cells.refines hv.epsArea h)
  refine ⟨a', h1, h2, ?_, h3⟩
  have e1 := h3.stats
  rw [h2, areasCenters_refines h, hv.stats] at e1
  injection e1 with e1
  exact e1.symm

/-! ### the three operations refine the cell list -/

theorem refines_of_mapE (f : Cell α → Except AErr (List (Cell α))) (q : List (Cell α))
    (h : ∀ c ∈ q, ∃ ch, f c = .ok ch ∧ TilesCell c ch) :
    ∃ parts, mapE f q = .ok parts ∧ Refines q parts.flatten := by
  obtain ⟨parts, h1, h2⟩ := mapE_ok_of_forall f TilesCell q h
  exact ⟨parts, h1, parts, rfl, h2⟩

theorem splitCond_not_fixed (t : α) (c : Cell α) (h : splitCond t c = true) : c.rect.fixed = false := by
  simp only [splitCond, Bool.and_eq_true, Bool.not_eq_true'] at h
  exact h.1.1

theorem refineCells_refines (t : α) (levels : Nat) (cells : List (Cell α))
    (hpos : ∀ c ∈ cells, 0 < c.rect.w ∧ 0 < c.rect.h) :
    ∃ cs', refineCells t levels cells = .ok cs' ∧ Refines cells cs' := by
  obtain ⟨parts, h1, h2⟩ := refines_of_mapE
    (fun c => splitAllocation c.rect c.alloc c.depth (if splitCond t c then levels else 0)) cells (by
      intro c hc
      obtain ⟨ch, a, b, _⟩ := splitAllocation_tiles (if splitCond t c then levels else 0) c.rect c.alloc c.depth
        (hpos c hc).1 (hpos c hc).2 (by
          by_cases hs : splitCond t c = true
          · exact Or.inr (splitCond_not_fixed t c hs)
          · simp [hs])
      exact ⟨ch, a, b⟩)
  exact ⟨parts.flatten, by simp [refineCells, h1], h2⟩

theorem uniformCells_refines (cells : List (Cell α)) (hpos : ∀ c ∈ cells, 0 < c.rect.w ∧ 0 < c.rect.h) :
    ∃ cs', uniformCells cells = .ok cs' ∧ Refines cells cs' := by
  obtain ⟨parts, h1, h2⟩ := refines_of_mapE
    (fun c => splitAllocation c.rect c.alloc c.depth (if c.rect.fixed then 0 else maxDepth cells - c.depth)) cells (by
      intro c hc
      obtain ⟨ch, a, b, _⟩ := splitAllocation_tiles (if c.rect.fixed then 0 else maxDepth cells - c.depth)
        c.rect c.alloc c.depth (hpos c hc).1 (hpos c hc).2 (by
          by_cases hs : c.rect.fixed = true
          · simp [hs]
          · exact Or.inr (by simpa using hs))
      exact ⟨ch, a, b⟩)
  exact ⟨parts.flatten, by simp [uniformCells, h1], h2⟩

theorem ValidAlloc.pos {st : Eps α} {a : Allocation α} (hv : ValidAlloc st a) :
    ∀ c ∈ a.cells, 0 < c.rect.w ∧ 0 < c.rect.h :=
  fun c hc => ⟨(hv.cells.good c hc).1, (hv.cells.good c hc).2.1⟩

/-- `refine` on a valid allocation. -/
theorem refine_spec (env : Env α) (st : Eps α) (a : Allocation α) (t : α) (levels : Nat) (hv : ValidAlloc st a)
    (hl : 0 < levels) :
    ∃ a', refine env st a t levels = .ok (a', st) ∧ ValidAlloc st a' ∧ Refines a.cells a'.cells ∧
      a'.stats = a.stats ∧ refineCells t levels a.cells = .ok a'.cells := by
  obtain ⟨cs', h1, h2⟩ := refineCells_refines t levels a.cells hv.pos
  obtain ⟨a', e1, e2, e3, e4⟩ := mk_of_refines env st a hv cs' h2
  refine ⟨a', ?_, e4, e2 ▸ h2, e3, e2 ▸ h1⟩
  unfold refine
  rw [if_neg (by omega), h1]
  exact e1

/-- `uniform_refinement_depth` on a valid allocation. -/
theorem uniform_spec (env : Env α) (st : Eps α) (a : Allocation α) (hv : ValidAlloc st a) :
    ∃ a', uniform env st a = .ok (a', st) ∧ ValidAlloc st a' ∧ Refines a.cells a'.cells ∧ a'.stats = a.stats ∧
      ((maxDepth a.cells = minDepth a.cells ∧ a' = a) ∨
       (maxDepth a.cells ≠ minDepth a.cells ∧ uniformCells a.cells = .ok a'.cells)) := by
  unfold uniform
  have hne := hv.cells.nonempty
  cases hcs : a.cells with
  | nil => exact absurd hcs hne
  | cons c cs =>
    simp only
    rw [← hcs]
    by_cases hm : maxDepth a.cells = minDepth a.cells
    · rw [if_pos hm]
      exact ⟨a, rfl, hv, Refines.refl _ hv.pos, rfl, Or.inl ⟨hm, rfl⟩⟩
    · rw [if_neg hm]
      obtain ⟨cs', h1, h2⟩ := uniformCells_refines a.cells hv.pos
      obtain ⟨a', e1, e2, e3, e4⟩ := mk_of_refines env st a hv cs' h2
      rw [h1]
      exact ⟨a', e1, e4, e2 ▸ h2, e3, Or.inr ⟨hm, by rw [e2]⟩⟩

/-! ### gridding -/

theorem CellGood.of_tiles {c : Cell α} {ch : List (Cell α)} (hg : CellGood c) (ht : TilesCell c ch) :
    ∀ d ∈ ch, CellGood d := by
  intro d hd
  have hin := ht.inside d hd
  rw [isInside_iff_coords] at hin
  exact ⟨(ht.pos d hd).1, (ht.pos d hd).2, le_trans hg.2.2.1 hin.1, le_trans hg.2.2.2 hin.2.1⟩

theorem good_of_refines {q q' : List (Cell α)} (hg : ∀ c ∈ q, CellGood c) (h : Refines q q') :
    ∀ d ∈ q', CellGood d := by
  obtain ⟨P, rfl, hP⟩ := h
  intro d hd
  obtain ⟨p, hp1, hp2⟩ := List.mem_flatten.mp hd
  obtain ⟨c, hc, ht⟩ := forall2_mem_right hP p hp1
  exact (hg c hc).of_tiles ht d hp2

/-- what one step of the x sweep does to a cell. -/
theorem cutX_cases (ρ x : α) (c : Cell α) (hg : CellGood c) :
    (c.rect.fixed = false ∧ c.rect.xCuttable x ρ = true ∧ ∃ p q, c.rect.splitH x = some (p, q) ∧ 0 ≤ x ∧
        cutX ρ x c = .ok [⟨p, c.alloc, c.depth + 1⟩, ⟨q, c.alloc, c.depth + 1⟩]) ∨
    ((c.rect.fixed = true ∨ c.rect.xCuttable x ρ = false) ∧ cutX ρ x c = .ok [c]) := by
  by_cases hcond : (!c.rect.fixed && c.rect.xCuttable x ρ) = true
  · left
    have hc := hcond
    simp only [Bool.and_eq_true, Bool.not_eq_true'] at hc
    have hin := xCuttable_imp_strict_inside c.rect x ρ hc.2
    have hx : 0 ≤ x := le_of_lt (lt_of_le_of_lt hg.2.2.1 hin.1)
    have hs := (splitH_isSome_iff c.rect x hx).mpr hin
    obtain ⟨⟨p, q⟩, hpq⟩ := Option.isSome_iff_exists.mp hs
    refine ⟨hc.1, hc.2, p, q, hpq, hx, ?_⟩
    simp only [cutX, hcond, ↓reduceIte, hpq]
  · right
    refine ⟨?_, by simp only [cutX, hcond, Bool.false_eq_true, ↓reduceIte]⟩
    by_cases hf : c.rect.fixed = true
    · exact Or.inl hf
    · right
      simp only [Bool.and_eq_true, Bool.not_eq_true', not_and, Bool.not_eq_true] at hcond
      exact hcond (by simpa using hf)

theorem cutY_cases (ρ y : α) (c : Cell α) (hg : CellGood c) :
    (c.rect.fixed = false ∧ c.rect.yCuttable y ρ = true ∧ ∃ p q, c.rect.splitV y = some (p, q) ∧ 0 ≤ y ∧
        cutY ρ y c = .ok [⟨p, c.alloc, c.depth + 1⟩, ⟨q, c.alloc, c.depth + 1⟩]) ∨
    ((c.rect.fixed = true ∨ c.rect.yCuttable y ρ = false) ∧ cutY ρ y c = .ok [c]) := by
  by_cases hcond : (!c.rect.fixed && c.rect.yCuttable y ρ) = true
  · left
    have hc := hcond
    simp only [Bool.and_eq_true, Bool.not_eq_true'] at hc
    have hin := yCuttable_imp_strict_inside c.rect y ρ hc.2
    have hy : 0 ≤ y := le_of_lt (lt_of_le_of_lt hg.2.2.2 hin.1)
    have hs : (c.rect.splitV y).isSome = true := by
      unfold splitV
      simp only [zero_eq, not_lt.mpr hy, ↓reduceIte, hin, and_self, Option.isSome_some]
    obtain ⟨⟨p, q⟩, hpq⟩ := Option.isSome_iff_exists.mp hs
    refine ⟨hc.1, hc.2, p, q, hpq, hy, ?_⟩
    simp only [cutY, hcond, ↓reduceIte, hpq]
  · right
    refine ⟨?_, by simp only [cutY, hcond, Bool.false_eq_true, ↓reduceIte]⟩
    by_cases hf : c.rect.fixed = true
    · exact Or.inl hf
    · right
      simp only [Bool.and_eq_true, Bool.not_eq_true', not_and, Bool.not_eq_true] at hcond
      exact hcond (by simpa using hf)

theorem cutX_tiles (ρ x : α) (c : Cell α) (hg : CellGood c) : ∃ ch, cutX ρ x c = .ok ch ∧ TilesCell c ch := by
  rcases cutX_cases ρ x c hg with ⟨hf, _, p, q, hpq, hx, he⟩ | ⟨_, he⟩
  · refine ⟨_, he, ?_⟩
    have ht := (splitH_tiles c.rect p q x hx hpq).1
    have hs := splitH_sides c.rect p q x hx hpq
    exact TilesCell.of_pair c.rect p q c.alloc c.depth _ _ ht (pieces_of_sidesH c.rect p q x hg.2.1 hs) hf
  · exact ⟨_, he, TilesCell.refl c hg.1 hg.2.1⟩

theorem cutY_tiles (ρ y : α) (c : Cell α) (hg : CellGood c) : ∃ ch, cutY ρ y c = .ok ch ∧ TilesCell c ch := by
  rcases cutY_cases ρ y c hg with ⟨hf, _, p, q, hpq, hy, he⟩ | ⟨_, he⟩
  · refine ⟨_, he, ?_⟩
    have ht := (splitV_tiles c.rect p q y hy hpq).1
    have hs := splitV_sides c.rect p q y hy hpq
    exact TilesCell.of_pair c.rect p q c.alloc c.depth _ _ ht (pieces_of_sidesV c.rect p q y hg.1 hs) hf
  · exact ⟨_, he, TilesCell.refl c hg.1 hg.2.1⟩

theorem pass_refines (cut : Cell α → Except AErr (List (Cell α))) (q : List (Cell α))
    (hcut : ∀ c ∈ q, ∃ ch, cut c = .ok ch ∧ TilesCell c ch) :
    ∃ q', pass cut q = .ok q' ∧ Refines q q' := by
  obtain ⟨parts, h1, h2⟩ := refines_of_mapE cut q hcut
  exact ⟨parts.flatten, by simp [pass, h1], h2⟩

theorem cutsLoop_refines (cut : α → Cell α → Except AErr (List (Cell α)))
    (hcut : ∀ x c, CellGood c → ∃ ch, cut x c = .ok ch ∧ TilesCell c ch) (cuts : List α) :
    ∀ (idxs : List Nat) (q : List (Cell α)), (∀ i ∈ idxs, i < cuts.length) → (∀ c ∈ q, CellGood c) →
      ∃ q', cutsLoop cut cuts idxs q = .ok q' ∧ Refines q q' := by
  intro idxs
  induction idxs with
  | nil =>
    intro q _ hq
    exact ⟨q, rfl, Refines.refl q (fun c hc => ⟨(hq c hc).1, (hq c hc).2.1⟩)⟩
  | cons i is ih =>
    intro q hi hq
    have hlt := hi i (by simp)
    obtain ⟨q1, e1, r1⟩ := pass_refines (cut cuts[i]) q (fun c hc => hcut _ c (hq c hc))
    obtain ⟨q2, e2, r2⟩ := ih q1 (fun j hj => hi j (by simp [hj])) (good_of_refines hq r1)
    refine ⟨q2, ?_, r1.trans r2⟩
    simp only [cutsLoop, List.getElem?_eq_getElem hlt, e1, e2]

theorem range'_lt (n i : Nat) (h : i ∈ List.range' 1 (n - 2)) : i < n := by
  rw [List.mem_range'_1] at h; omega

theorem griddifyCells_refines (ρ : α) (xs ys : List α) (cells : List (Cell α)) (hg : ∀ c ∈ cells, CellGood c) :
    ∃ q, griddifyCells ρ xs ys cells = .ok q ∧ Refines cells q := by
  obtain ⟨q1, e1, r1⟩ := cutsLoop_refines (cutX ρ) (cutX_tiles ρ) xs _ cells (fun i hi => range'_lt _ i hi) hg
  obtain ⟨q2, e2, r2⟩ := cutsLoop_refines (cutY ρ) (cutY_tiles ρ) ys _ q1 (fun i hi => range'_lt _ i hi)
    (good_of_refines hg r1)
  exact ⟨q2, by simp only [griddifyCells, e1, e2], r1.trans r2⟩

/-- `griddify` on a valid allocation. -/
theorem griddify_spec (env : Env α) (st : Eps α) (a : Allocation α) (hv : ValidAlloc st a) :
    ∃ a', griddify env st a = .ok (a', st) ∧ ValidAlloc st a' ∧ Refines a.cells a'.cells ∧ a'.stats = a.stats ∧
      ∃ xs ys, gatherBoundaries st (a.cells.map (·.rect)) = .ok (xs, ys) ∧
        griddifyCells env.rho xs ys a.cells = .ok a'.cells := by
  have hdef : st.defined = true := by simp [Eps.defined, hv.epsDef]
  have hgb : ∃ xs ys, gatherBoundaries st (a.cells.map (·.rect)) = .ok (xs, ys) := by
    simp only [gatherBoundaries, hdef, Bool.not_true, Bool.false_eq_true, ↓reduceIte]
    exact ⟨_, _, rfl⟩
  obtain ⟨xs, ys, hb⟩ := hgb
  obtain ⟨q, e1, r1⟩ := griddifyCells_refines env.rho xs ys a.cells hv.cells.good
  obtain ⟨a', m1, m2, m3, m4⟩ := mk_of_refines env st a hv q r1
  refine ⟨a', ?_, m4, m2 ▸ r1, m3, xs, ys, hb, m2 ▸ e1⟩
  simp only [griddify, hb, e1, m1]

/-! ### the caches are the sums; the constructor produces valid allocations -/

theorem statOf_ok (cs : List (Cell α)) (m : String) (y : String × α × α × α) (h : statOf cs m = .ok y) :
    areaSum m cs ≠ 0 ∧ y = (m, areaSum m cs, momXSum m cs / areaSum m cs, momYSum m cs / areaSum m cs) := by
  unfold statOf at h
  rw [modStats_eq] at h
  simp only at h
  split at h
  · cases h
  · rename_i hz
    injection h with h
    refine ⟨?_, h.symm⟩
    intro h0; apply hz; rw [isZero_iff]; exact h0

theorem lookup_mapE_statOf (cs : List (Cell α)) (m : String) : ∀ (ms : List String) (stats : List (String × α × α × α)),
    mapE (statOf cs) ms = .ok stats →
    stats.lookup m = if m ∈ ms then some (areaSum m cs, momXSum m cs / areaSum m cs, momYSum m cs / areaSum m cs) else none := by
  intro ms
  induction ms with
  | nil => intro stats h; simp [mapE] at h; subst h; simp
  | cons k ks ih =>
    intro stats h
    rw [mapE_ok_iff] at h
    cases h with
    | cons h1 h2 =>
      rename_i y ys
      obtain ⟨_, hy⟩ := statOf_ok cs k y h1
      subst hy
      have := ih ys ((mapE_ok_iff _ _ _).mpr h2)
      by_cases hmk : m = k
      · subst hmk; simp [List.lookup]
      · have hne : (m == k) = false := by simpa using hmk
        simp only [List.lookup, hne, this, List.mem_cons, hmk, false_or]

/-- `area(m)` / `center(m)` of a valid allocation are the exact sums over its cells. -/
theorem ValidAlloc.caches {st : Eps α} {a : Allocation α} (hv : ValidAlloc st a) (m : String) :
    (m ∈ modules a.cells → a.areaOf m = some (areaSum m a.cells) ∧
      a.centerOf m = some (momXSum m a.cells / areaSum m a.cells, momYSum m a.cells / areaSum m a.cells)) ∧
    (m ∉ modules a.cells → a.areaOf m = none ∧ a.centerOf m = none) := by
  have h := lookup_mapE_statOf a.cells m (modules a.cells) a.stats hv.stats
  unfold Allocation.areaOf Allocation.centerOf
  constructor
  · intro hm; rw [h, if_pos hm]; exact ⟨rfl, rfl⟩
  · intro hm; rw [h, if_neg hm]; exact ⟨rfl, rfl⟩

theorem foldl_min_le_mem {β : Type} (g : β → α) (l : List β) (init : α) :
    ∀ d ∈ l, l.foldl (fun m d => pyMin m (g d)) init ≤ g d := by
  induction l generalizing init with
  | nil => intro d hd; cases hd
  | cons e es ih =>
    intro d hd
    rw [List.foldl_cons]
    rcases List.mem_cons.mp hd with rfl | hd
    · refine le_trans (foldl_min_le g es _) ?_
      rw [pyMin_eq]; exact min_le_right _ _
    · exact ih _ d hd

theorem boundingBox_quadrant (cs : List (Cell α)) (bb : Rect α) (h : boundingBox cs = .ok bb) :
    cs ≠ [] ∧ ∀ c ∈ cs, 0 ≤ c.rect.xmin ∧ 0 ≤ c.rect.ymin := by
  cases cs with
  | nil => simp [boundingBox] at h
  | cons c cs =>
    refine ⟨by simp, ?_⟩
    simp only [boundingBox, zero_eq] at h
    split at h
    · cases h
    · rename_i hq
      rw [not_not] at hq
      intro d hd
      rcases List.mem_cons.mp hd with rfl | hd
      · exact ⟨le_trans hq.1 (foldl_min_le _ _ _), le_trans hq.2 (foldl_min_le _ _ _)⟩
      · exact ⟨le_trans hq.1 (foldl_min_le_mem (fun d : Cell α => d.rect.xmin) cs _ d hd),
          le_trans hq.2 (foldl_min_le_mem (fun d : Cell α => d.rect.ymin) cs _ d hd)⟩

/-- descriptors whose `Rectangle` objects are proper rectangles (the `Rectangle` constructor asserts it). -/
def RawPos (rc : RawCell α) : Prop :=
  match rc.rect with
  | .obj r => 0 < r.w ∧ 0 < r.h
  | .vec _ _ _ _ _ => True

theorem parseRect_pos (rr : RawRect α) (r : Rect α) (hp : match rr with | .obj r0 => 0 < r0.w ∧ 0 < r0.h | .vec _ _ _ _ _ => True)
    (h : parseRect rr = .ok r) : 0 < r.w ∧ 0 < r.h := by
  cases rr with
  | obj r0 =>
    simp only [parseRect] at h
    injection h with h; subst h; exact hp
  | vec x y w hh region =>
    simp only [parseRect, zero_eq] at h
    by_cases c1 : (0 ≤ x ∧ 0 ≤ y ∧ 0 ≤ w ∧ 0 ≤ hh)
    · rw [if_neg (not_not.mpr c1)] at h
      clear hp
      have key : ∀ b : Bool, (if b = true then (Except.error AErr.assertion : Except AErr (Rect α)) else
          if ¬0 < w then Except.error AErr.assertion else if ¬0 < hh then Except.error AErr.assertion
          else Except.ok { cx := x, cy := y, w := w, h := hh, region := region.getD "_" }) = .ok r → 0 < r.w ∧ 0 < r.h := by
        intro b hb
        cases b with
        | true => simp at hb
        | false =>
          simp only [Bool.false_eq_true, ↓reduceIte] at hb
          by_cases c3 : 0 < w
          · rw [if_neg (not_not.mpr c3)] at hb
            by_cases c4 : 0 < hh
            · rw [if_neg (not_not.mpr c4)] at hb
              injection hb with hb; subst hb; exact ⟨c3, c4⟩
            · rw [if_pos c4] at hb; cases hb
          · rw [if_pos c3] at hb; cases hb
      exact key _ h
    · rw [if_pos c1] at h; cases h

theorem parseCell_ok (rc : RawCell α) (c : Cell α) (hp : RawPos rc) (h : parseCell rc = .ok c) :
    0 < c.rect.w ∧ 0 < c.rect.h ∧ allocOK c.alloc = true := by
  unfold parseCell at h
  by_cases c1 : rc.depth < 0
  · rw [if_pos c1] at h; cases h
  · rw [if_neg c1] at h
    cases hr : parseRect rc.rect with
    | error e => rw [hr] at h; cases h
    | ok r =>
      rw [hr] at h
      simp only at h
      by_cases c2 : allocOK rc.alloc = true
      · rw [if_pos c2] at h
        injection h with h; subst h
        have := parseRect_pos rc.rect r (by unfold RawPos at hp; exact hp) hr
        exact ⟨this.1, this.2, c2⟩
      · rw [if_neg c2] at h; cases h

/-- the tolerances after the constructor ran (`set_epsilon` when they were undefined). -/
def newEps (env : Env α) (st : Eps α) (bb : Rect α) : Eps α :=
  if st.defined then st else ⟨env.tiny * pyMin bb.w bb.h, env.sqrt (env.tiny * pyMin bb.w bb.h)⟩

theorem mkAllocation_eq (env : Env α) (st : Eps α) (raw : List (RawCell α)) :
    mkAllocation env st raw =
      match mapE parseCell raw with
      | .error e => .error e
      | .ok cells =>
        match boundingBox cells with
        | .error e => .error e
        | .ok bb =>
          if !(checkNoOverlap (newEps env st bb) cells) then .error .assertion else
          match areasCenters cells with
          | .error e => .error e
          | .ok stats => .ok (⟨cells, stats, bb⟩, newEps env st bb) := rfl

/-- **the constructor only returns valid allocations** (with the tolerances it leaves behind). -/
theorem mkAllocation_valid (env : Env α) (st : Eps α) (raw : List (RawCell α)) (a : Allocation α) (st' : Eps α)
    (hraw : ∀ rc ∈ raw, RawPos rc) (hst : 0 ≤ st.dist → 0 ≤ st.area) (htiny : 0 ≤ env.tiny)
    (hsqrt : ∀ x, 0 ≤ env.sqrt x) (h : mkAllocation env st raw = .ok (a, st')) : ValidAlloc st' a := by
  rw [mkAllocation_eq] at h
  cases hcells : mapE parseCell raw with
  | error e => rw [hcells] at h; cases h
  | ok cells =>
    rw [hcells] at h; simp only at h
    cases hbb : boundingBox cells with
    | error e => rw [hbb] at h; cases h
    | ok bb =>
      rw [hbb] at h; simp only at h
      by_cases hck : checkNoOverlap (newEps env st bb) cells = true
      · simp only [hck, Bool.not_true, Bool.false_eq_true, ↓reduceIte] at h
        cases hstats : areasCenters cells with
        | error e => rw [hstats] at h; cases h
        | ok stats =>
          rw [hstats] at h
          injection h with h
          injection h with ha hs
          subst ha
          obtain ⟨hne, hquad⟩ := boundingBox_quadrant cells bb hbb
          have hpc : ∀ c ∈ cells, 0 < c.rect.w ∧ 0 < c.rect.h ∧ allocOK c.alloc = true := by
            intro c hc
            rw [mapE_ok_iff] at hcells
            obtain ⟨rc, hrc, hp⟩ := forall2_mem_right hcells c hc
            exact parseCell_ok rc c (hraw rc hrc) hp
          have hbbpos : 0 < bb.w ∧ 0 < bb.h := by
            cases cells with
            | nil => exact absurd rfl hne
            | cons c cs =>
              simp only [boundingBox, zero_eq] at hbb
              split at hbb
              · cases hbb
              · split at hbb
                · cases hbb
                · split at hbb
                  · cases hbb
                  · rename_i h1 h2
                    injection hbb with hbb; subst hbb
                    simp only [not_not] at h1 h2
                    exact ⟨h1, h2⟩
          have hst' : 0 ≤ st'.dist ∧ 0 ≤ st'.area := by
            subst hs
            unfold newEps
            by_cases hd : st.defined = true
            · simp only [hd, ↓reduceIte]
              have : 0 ≤ st.dist := by simpa [Eps.defined] using hd
              exact ⟨this, hst this⟩
            · simp only [hd, Bool.false_eq_true, ↓reduceIte, pyMin_eq]
              exact ⟨mul_nonneg htiny (le_min (le_of_lt hbbpos.1) (le_of_lt hbbpos.2)), hsqrt _⟩
          rw [hs] at hck
          refine ⟨hst'.1, hst'.2, ⟨hne, ?_, fun c hc => (hpc c hc).2.2, ?_, ?_⟩, hstats, hbb⟩
          · intro c hc
            exact ⟨(hpc c hc).1, (hpc c hc).2.1, (hquad c hc).1, (hquad c hc).2⟩
          · unfold checkNoOverlap at hck
            split at hck
            · cases hck
            · exact (noOverlapPairs_iff _ _).mp hck
          · intro m hm
            unfold areasCenters at hstats
            rw [mapE_ok_iff] at hstats
            obtain ⟨y, _, hy⟩ := forall2_mem_left hstats m hm
            exact (statOf_ok cells m y hy).1
      · simp only [hck, Bool.not_false, ↓reduceIte] at h
        cases h

/-! ### any operation, any composition -/

/-- documented precondition of an operation (`assert levels > 0` in `refine`). -/
def OpOK : Op α → Prop
  | .refine _ l => 0 < l
  | .uniform => True
  | .griddify => True

theorem applyOp_spec (env : Env α) (st : Eps α) (a : Allocation α) (op : Op α) (hv : ValidAlloc st a) (hop : OpOK op) :
    ∃ a', applyOp env st a op = .ok (a', st) ∧ ValidAlloc st a' ∧ Refines a.cells a'.cells ∧ a'.stats = a.stats := by
  cases op with
  | refine t l =>
    obtain ⟨a', h1, h2, h3, h4, _⟩ := refine_spec env st a t l hv hop
    exact ⟨a', h1, h2, h3, h4⟩
  | uniform =>
    obtain ⟨a', h1, h2, h3, h4, _⟩ := uniform_spec env st a hv
    exact ⟨a', h1, h2, h3, h4⟩
  | griddify =>
    obtain ⟨a', h1, h2, h3, h4, _⟩ := griddify_spec env st a hv
    exact ⟨a', h1, h2, h3, h4⟩

theorem applyOps_spec (env : Env α) (st : Eps α) : ∀ (ops : List (Op α)) (a : Allocation α), ValidAlloc st a →
    (∀ op ∈ ops, OpOK op) →
    ∃ a', applyOps env ops st a = .ok (a', st) ∧ ValidAlloc st a' ∧ Refines a.cells a'.cells ∧ a'.stats = a.stats := by
  intro ops
  induction ops with
  | nil => intro a hv _; exact ⟨a, rfl, hv, Refines.refl _ hv.pos, rfl⟩
  | cons op ops ih =>
    intro a hv hops
    obtain ⟨a1, e1, v1, r1, s1⟩ := applyOp_spec env st a op hv (hops op (by simp))
    obtain ⟨a2, e2, v2, r2, s2⟩ := ih a1 v1 (fun o ho => hops o (by simp [ho]))
    exact ⟨a2, by simp only [applyOps, e1, e2], v2, r1.trans r2, s2.trans s1⟩

/-! ### exact form of the threshold / uniform refinement (C12) -/

/-- the two halves of a rectangle cut through the middle of its longer side (the width on a tie),
    written with coordinates; attributes are kept, the STOG role is reset (a duplicate). -/
def halveLonger (r : Rect α) : Rect α × Rect α :=
  if r.w < r.h then
    ({ r with cy := r.cy - r.h / 4, h := r.h / 2, loc := .nopoly }, { r with cy := r.cy + r.h / 4, h := r.h / 2, loc := .nopoly })
  else
    ({ r with cx := r.cx - r.w / 4, w := r.w / 2, loc := .nopoly }, { r with cx := r.cx + r.w / 4, w := r.w / 2, loc := .nopoly })

/-- `levels` rounds of halving the longer side: the `2^levels` pieces, left/bottom first. -/
def halvings (r : Rect α) : Nat → List (Rect α)
  | 0 => [r]
  | l + 1 => halvings (halveLonger r).1 l ++ halvings (halveLonger r).2 l

/-- width and height after `levels` rounds of halving the longer side. -/
def halvedDims (w h : α) : Nat → α × α
  | 0 => (w, h)
  | l + 1 => if w < h then halvedDims w (h / 2) l else halvedDims (w / 2) h l

theorem split_eq_halveLonger (r : Rect α) (hw : 0 < r.w) (hh : 0 < r.h) : r.split = some (halveLonger r) := by
  unfold Rect.split halveLonger splitV splitH
  simp only [zero_eq, negOne_eq, show (-1 : α) < 0 by linarith, ↓reduceIte, xmin, xmax, ymin, ymax, two_eq, duplicate]
  have h1 : r.cx - r.w / 2 < r.cx ∧ r.cx < r.cx + r.w / 2 := ⟨by linarith, by linarith⟩
  have h2 : r.cy - r.h / 2 < r.cy ∧ r.cy < r.cy + r.h / 2 := ⟨by linarith, by linarith⟩
  by_cases hc : r.w < r.h
  · simp only [hc, ↓reduceIte, h2, and_self, Option.some.injEq, Prod.mk.injEq]
    constructor
    · congr 1 <;> ring
    · congr 1 <;> ring
  · simp only [hc, ↓reduceIte, h1, and_self, Option.some.injEq, Prod.mk.injEq]
    constructor
    · congr 1 <;> ring
    · congr 1 <;> ring

theorem halveLonger_pos (r : Rect α) (hw : 0 < r.w) (hh : 0 < r.h) :
    0 < (halveLonger r).1.w ∧ 0 < (halveLonger r).1.h ∧ 0 < (halveLonger r).2.w ∧ 0 < (halveLonger r).2.h := by
  unfold halveLonger
  split <;> simp only <;> refine ⟨?_, ?_, ?_, ?_⟩ <;> linarith

theorem splitAllocation_exact (levels : Nat) : ∀ (r : Rect α) (al : Alloc α) (d : Nat), 0 < r.w → 0 < r.h →
    splitAllocation r al d levels = .ok ((halvings r levels).map fun r' => ⟨r', al, d + levels⟩) := by
  induction levels with
  | zero => intro r al d _ _; rfl
  | succ l ih =>
    intro r al d hw hh
    obtain ⟨p1, p2, p3, p4⟩ := halveLonger_pos r hw hh
    simp only [splitAllocation, split_eq_halveLonger r hw hh, ih _ al (d + 1) p1 p2, ih _ al (d + 1) p3 p4,
      halvings, List.map_append]
    have : d + 1 + l = d + (l + 1) := by omega
    rw [this]

theorem halvings_length (r : Rect α) (l : Nat) : (halvings r l).length = 2 ^ l := by
  induction l generalizing r with
  | zero => rfl
  | succ l ih => simp only [halvings, List.length_append, ih]; ring

theorem halvings_dims (l : Nat) : ∀ (r : Rect α), ∀ p ∈ halvings r l, (p.w, p.h) = halvedDims r.w r.h l := by
  induction l with
  | zero => intro r p hp; simp [halvings] at hp; subst hp; rfl
  | succ l ih =>
    intro r p hp
    simp only [halvings, List.mem_append] at hp
    unfold halvedDims
    by_cases hc : r.w < r.h
    · simp only [hc, ↓reduceIte]
      rcases hp with hp | hp
      · have := ih _ p hp; simpa [halveLonger, hc] using this
      · have := ih _ p hp; simpa [halveLonger, hc] using this
    · simp only [hc, ↓reduceIte]
      rcases hp with hp | hp
      · have := ih _ p hp; simpa [halveLonger, hc] using this
      · have := ih _ p hp; simpa [halveLonger, hc] using this

theorem halvedDims_area (l : Nat) : ∀ (w h : α), (halvedDims w h l).1 * (halvedDims w h l).2 = w * h / 2 ^ l := by
  induction l with
  | zero => intro w h; simp [halvedDims]
  | succ l ih =>
    intro w h
    unfold halvedDims
    split
    · rw [ih]; field_simp; ring
    · rw [ih]; field_simp; ring

theorem mapE_eq_map {β γ ε : Type} (f : β → Except ε γ) (g : β → γ) (l : List β) (h : ∀ x ∈ l, f x = .ok (g x)) :
    mapE f l = .ok (l.map g) := by
  rw [mapE_ok_iff, List.forall₂_map_right_iff]
  induction l with
  | nil => exact List.Forall₂.nil
  | cons x xs ih => exact List.Forall₂.cons (h x (by simp)) (ih (fun y hy => h y (by simp [hy])))

/-- the cells `refine` creates out of one cell. -/
def refinedCell (t : α) (levels : Nat) (c : Cell α) : List (Cell α) :=
  if splitCond t c then (halvings c.rect levels).map fun r => ⟨r, c.alloc, c.depth + levels⟩ else [c]

theorem refineCells_exact (t : α) (levels : Nat) (cells : List (Cell α))
    (hpos : ∀ c ∈ cells, 0 < c.rect.w ∧ 0 < c.rect.h) :
    refineCells t levels cells = .ok (cells.flatMap (refinedCell t levels)) := by
  unfold refineCells
  rw [mapE_eq_map _ (refinedCell t levels) cells]
  · rfl
  · intro c hc
    rw [splitAllocation_exact _ c.rect c.alloc c.depth (hpos c hc).1 (hpos c hc).2]
    unfold refinedCell
    by_cases hs : splitCond t c = true
    · simp [hs]
    · simp [hs, halvings]

/-- the cells `uniform_refinement_depth` creates out of one cell (target depth `mx`). -/
def uniformCell (mx : Nat) (c : Cell α) : List (Cell α) :=
  (halvings c.rect (if c.rect.fixed then 0 else mx - c.depth)).map fun r =>
    ⟨r, c.alloc, c.depth + (if c.rect.fixed then 0 else mx - c.depth)⟩

theorem uniformCells_exact (cells : List (Cell α)) (hpos : ∀ c ∈ cells, 0 < c.rect.w ∧ 0 < c.rect.h) :
    uniformCells cells = .ok (cells.flatMap (uniformCell (maxDepth cells))) := by
  unfold uniformCells
  simp only
  rw [mapE_eq_map _ (uniformCell (maxDepth cells)) cells]
  · rfl
  · intro c hc
    rw [splitAllocation_exact _ c.rect c.alloc c.depth (hpos c hc).1 (hpos c hc).2]
    rfl

theorem le_maxDepth (cells : List (Cell α)) : ∀ c ∈ cells, c.depth ≤ maxDepth cells := by
  unfold maxDepth
  have key : ∀ (l : List (Cell α)) (init : Nat), init ≤ l.foldl (fun m c => max m c.depth) init ∧
      ∀ c ∈ l, c.depth ≤ l.foldl (fun m c => max m c.depth) init := by
    intro l
    induction l with
    | nil => intro init; exact ⟨le_refl _, fun c hc => by cases hc⟩
    | cons d ds ih =>
      intro init
      simp only [List.foldl_cons]
      obtain ⟨h1, h2⟩ := ih (max init d.depth)
      refine ⟨le_trans (le_max_left _ _) h1, ?_⟩
      intro c hc
      rcases List.mem_cons.mp hc with rfl | hc
      · exact le_trans (le_max_right _ _) h1
      · exact h2 c hc
  exact (key cells 0).2

theorem maxDepth_attained (cells : List (Cell α)) (hne : cells ≠ []) : ∃ c ∈ cells, c.depth = maxDepth cells := by
  unfold maxDepth
  have key : ∀ (l : List (Cell α)) (init : Nat), l.foldl (fun m c => max m c.depth) init = init ∨
      ∃ c ∈ l, c.depth = l.foldl (fun m c => max m c.depth) init := by
    intro l
    induction l with
    | nil => intro init; exact Or.inl rfl
    | cons d ds ih =>
      intro init
      simp only [List.foldl_cons]
      rcases ih (max init d.depth) with h | ⟨c, hc, h⟩
      · rw [h]
        rcases le_total init d.depth with hle | hle
        · right; exact ⟨d, by simp, by rw [max_eq_right hle]⟩
        · left; rw [max_eq_left hle]
      · right; exact ⟨c, by simp [hc], h⟩
  cases cells with
  | nil => exact absurd rfl hne
  | cons d ds =>
    rcases key (d :: ds) 0 with h | h
    · refine ⟨d, by simp, ?_⟩
      have := le_maxDepth (d :: ds) d (by simp)
      unfold maxDepth at this
      omega
    · exact h

theorem minDepth_le (cells : List (Cell α)) : ∀ c ∈ cells, minDepth cells ≤ c.depth := by
  cases cells with
  | nil => intro c hc; cases hc
  | cons d ds =>
    unfold minDepth
    have key : ∀ (l : List (Cell α)) (init : Nat), l.foldl (fun m c => min m c.depth) init ≤ init ∧
        ∀ c ∈ l, l.foldl (fun m c => min m c.depth) init ≤ c.depth := by
      intro l
      induction l with
      | nil => intro init; exact ⟨le_refl _, fun c hc => by cases hc⟩
      | cons e es ih =>
        intro init
        simp only [List.foldl_cons]
        obtain ⟨h1, h2⟩ := ih (min init e.depth)
        refine ⟨le_trans h1 (min_le_left _ _), ?_⟩
        intro c hc
        rcases List.mem_cons.mp hc with rfl | hc
        · exact le_trans h1 (min_le_right _ _)
        · exact h2 c hc
    intro c hc
    rcases List.mem_cons.mp hc with rfl | hc
    · exact (key ds c.depth).1
    · exact (key ds d.depth).2 c hc

theorem length_flatMap_gt {β : Type} (g : β → List β) (l : List β) (h1 : ∀ x ∈ l, 1 ≤ (g x).length)
    (h2 : ∃ x ∈ l, 2 ≤ (g x).length) : l.length < (l.flatMap g).length := by
  induction l with
  | nil => obtain ⟨x, hx, _⟩ := h2; cases hx
  | cons y ys ih =>
    simp only [List.flatMap_cons, List.length_append, List.length_cons]
    have hy := h1 y (by simp)
    have hge : ys.length ≤ (ys.flatMap g).length := by
      clear ih h2
      induction ys with
      | nil => simp
      | cons z zs ihz =>
        simp only [List.flatMap_cons, List.length_append, List.length_cons]
        have := h1 z (by simp)
        have := ihz (fun x hx => h1 x (by
          rcases List.mem_cons.mp hx with rfl | hx
          · simp
          · simp [hx]))
        omega
    obtain ⟨x, hx, h2x⟩ := h2
    rcases List.mem_cons.mp hx with rfl | hx
    · omega
    · have := ih (fun z hz => h1 z (by simp [hz])) ⟨x, hx, h2x⟩
      omega

theorem flatMap_singleton_of {β : Type} (g : β → List β) (l : List β) (h : ∀ x ∈ l, g x = [x]) : l.flatMap g = l := by
  induction l with
  | nil => rfl
  | cons y ys ih => simp [List.flatMap_cons, h y (by simp), ih (fun z hz => h z (by simp [hz]))]

/-! ### alignment after gridding (C12) -/

/-- the line `x` would cut the x-extent `[lo, hi]` into two pieces both wider than `ρ·H`. -/
def CutsX (ρ H lo hi x : α) : Prop := lo < x ∧ x < hi ∧ ρ * H < min (x - lo) (hi - x)

theorem xCuttable_iff_CutsX (r : Rect α) (x ρ : α) : r.xCuttable x ρ = true ↔ CutsX ρ r.h r.xmin r.xmax x := by
  rw [xCuttable_iff]; unfold CutsX; rw [lt_min_iff]

theorem yCuttable_iff_CutsX (r : Rect α) (y ρ : α) : r.yCuttable y ρ = true ↔ CutsX ρ r.w r.ymin r.ymax y := by
  unfold yCuttable CutsX
  split
  · rename_i hc; simp only [Bool.false_eq_true, false_iff]; intro ⟨a, b, _⟩; rcases hc with c | c <;> linarith
  · rename_i hc; push Not at hc
    simp only [pyMin_eq, decide_eq_true_eq]; tauto

/-- shrinking the extent cannot make a refused line cuttable. -/
theorem CutsX_shrink (ρ H lo hi lo' hi' x : α) (h1 : lo ≤ lo') (h2 : hi' ≤ hi)
    (h : CutsX ρ H lo' hi' x) : CutsX ρ H lo hi x := by
  obtain ⟨a, b, c⟩ := h
  rw [lt_min_iff] at c
  refine ⟨by linarith, by linarith, ?_⟩
  rw [lt_min_iff]
  exact ⟨by linarith, by linarith⟩

/-- invariant of the x sweep: a cell is a piece of an original cell of the same height, and no processed line
    (set `S`) cuts it non-sliver-wise. -/
def XInv (orig : List (Cell α)) (ρ : α) (S : α → Prop) (c : Cell α) : Prop :=
  CellGood c ∧ ∃ c0 ∈ orig, c.rect.isInside c0.rect = true ∧ c.rect.h = c0.rect.h ∧
    (c.rect.fixed = false → ∀ x, S x → ¬ CutsX ρ c0.rect.h c.rect.xmin c.rect.xmax x)

theorem cutX_inv (orig : List (Cell α)) (ρ x : α) (S : α → Prop) (c : Cell α) (ch : List (Cell α))
    (hi : XInv orig ρ S c) (hc : cutX ρ x c = .ok ch) : ∀ d ∈ ch, XInv orig ρ (fun y => S y ∨ y = x) d := by
  obtain ⟨hg, c0, hc0, hin, hh, hal⟩ := hi
  rcases cutX_cases ρ x c hg with ⟨hf, hcut, p, q, hpq, hx, he⟩ | ⟨hnc, he⟩
  · rw [he] at hc; injection hc with hc; subst hc
    obtain ⟨s1, s2, s3, s4, s5, s6, s7, s8, s9, s10⟩ := splitH_sides c.rect p q x hx hpq
    have ht := (splitH_tiles c.rect p q x hx hpq).1
    have hgood := hg.of_tiles (TilesCell.of_pair c.rect p q c.alloc c.depth (c.depth + 1) (c.depth + 1) ht
      (pieces_of_sidesH c.rect p q x hg.2.1 ⟨s1, s2, s3, s4, s5, s6, s7, s8, s9, s10⟩) hf)
    have hph : p.h = c.rect.h := by rw [← ymax_sub_ymin p, ← ymax_sub_ymin c.rect, s5, s6]
    have hqh : q.h = c.rect.h := by rw [← ymax_sub_ymin q, ← ymax_sub_ymin c.rect, s7, s8]
    intro d hd
    simp only [List.mem_cons, List.not_mem_nil, or_false] at hd
    rcases hd with rfl | rfl
    · refine ⟨hgood _ (by simp), c0, hc0, isInside_trans _ _ _ ht.inside_p hin, by simp only; rw [hph, hh], ?_⟩
      intro _ y hy hcy
      simp only at hcy
      rcases hy with hy | rfl
      · rw [s1, s2] at hcy
        exact hal hf y hy (CutsX_shrink ρ _ _ _ _ _ y (le_refl _) (le_of_lt s10) hcy)
      · obtain ⟨_, b, _⟩ := hcy; rw [s2] at b; exact lt_irrefl _ b
    · refine ⟨hgood _ (by simp), c0, hc0, isInside_trans _ _ _ ht.inside_q hin, by simp only; rw [hqh, hh], ?_⟩
      intro _ y hy hcy
      simp only at hcy
      rcases hy with hy | rfl
      · rw [s3, s4] at hcy
        exact hal hf y hy (CutsX_shrink ρ _ _ _ _ _ y (le_of_lt s9) (le_refl _) hcy)
      · obtain ⟨a, _, _⟩ := hcy; rw [s3] at a; exact lt_irrefl _ a
  · rw [he] at hc; injection hc with hc; subst hc
    intro d hd
    simp only [List.mem_cons, List.not_mem_nil, or_false] at hd
    subst hd
    refine ⟨hg, c0, hc0, hin, hh, ?_⟩
    intro hf y hy hcy
    rcases hy with hy | rfl
    · exact hal hf y hy hcy
    · rcases hnc with h | h
      · rw [hf] at h; cases h
      · rw [← hh, ← xCuttable_iff_CutsX] at hcy
        rw [h] at hcy; cases hcy

/-- invariant of the y sweep: the x statement is carried along (with the original height), and no processed
    y line (set `T`) cuts the cell non-sliver-wise with its *current* width. -/
def YInv (orig : List (Cell α)) (ρ : α) (S T : α → Prop) (c : Cell α) : Prop :=
  CellGood c ∧ (∃ c0 ∈ orig, c.rect.isInside c0.rect = true ∧ c.rect.h ≤ c0.rect.h ∧
    (c.rect.fixed = false → ∀ x, S x → ¬ CutsX ρ c0.rect.h c.rect.xmin c.rect.xmax x)) ∧
  (c.rect.fixed = false → ∀ y, T y → ¬ CutsX ρ c.rect.w c.rect.ymin c.rect.ymax y)

theorem cutY_inv (orig : List (Cell α)) (ρ y : α) (S T : α → Prop) (c : Cell α) (ch : List (Cell α))
    (hi : YInv orig ρ S T c) (hc : cutY ρ y c = .ok ch) : ∀ d ∈ ch, YInv orig ρ S (fun z => T z ∨ z = y) d := by
  obtain ⟨hg, ⟨c0, hc0, hin, hh, hal⟩, hty⟩ := hi
  rcases cutY_cases ρ y c hg with ⟨hf, hcut, p, q, hpq, hy, he⟩ | ⟨hnc, he⟩
  · rw [he] at hc; injection hc with hc; subst hc
    obtain ⟨s1, s2, s3, s4, s5, s6, s7, s8, s9, s10⟩ := splitV_sides c.rect p q y hy hpq
    have ht := (splitV_tiles c.rect p q y hy hpq).1
    have hgood := hg.of_tiles (TilesCell.of_pair c.rect p q c.alloc c.depth (c.depth + 1) (c.depth + 1) ht
      (pieces_of_sidesV c.rect p q y hg.1 ⟨s1, s2, s3, s4, s5, s6, s7, s8, s9, s10⟩) hf)
    have hpw : p.w = c.rect.w := by rw [← xmax_sub_xmin p, ← xmax_sub_xmin c.rect, s5, s6]
    have hqw : q.w = c.rect.w := by rw [← xmax_sub_xmin q, ← xmax_sub_xmin c.rect, s7, s8]
    have hph : p.h ≤ c.rect.h := by rw [← ymax_sub_ymin p, ← ymax_sub_ymin c.rect, s1, s2]; linarith
    have hqh : q.h ≤ c.rect.h := by rw [← ymax_sub_ymin q, ← ymax_sub_ymin c.rect, s3, s4]; linarith
    intro d hd
    simp only [List.mem_cons, List.not_mem_nil, or_false] at hd
    rcases hd with rfl | rfl
    · refine ⟨hgood _ (by simp), ⟨c0, hc0, isInside_trans _ _ _ ht.inside_p hin, le_trans hph hh, ?_⟩, ?_⟩
      · intro _ x hx hcx
        simp only at hcx
        rw [s5, s6] at hcx
        exact hal hf x hx hcx
      · intro _ z hz hcz
        simp only at hcz
        rw [hpw] at hcz
        rcases hz with hz | rfl
        · rw [s1, s2] at hcz
          exact hty hf z hz (CutsX_shrink ρ _ _ _ _ _ z (le_refl _) (le_of_lt s10) hcz)
        · obtain ⟨_, b, _⟩ := hcz; rw [s2] at b; exact lt_irrefl _ b
    · refine ⟨hgood _ (by simp), ⟨c0, hc0, isInside_trans _ _ _ ht.inside_q hin, le_trans hqh hh, ?_⟩, ?_⟩
      · intro _ x hx hcx
        simp only at hcx
        rw [s7, s8] at hcx
        exact hal hf x hx hcx
      · intro _ z hz hcz
        simp only at hcz
        rw [hqw] at hcz
        rcases hz with hz | rfl
        · rw [s3, s4] at hcz
          exact hty hf z hz (CutsX_shrink ρ _ _ _ _ _ z (le_of_lt s9) (le_refl _) hcz)
        · obtain ⟨a, _, _⟩ := hcz; rw [s3] at a; exact lt_irrefl _ a
  · rw [he] at hc; injection hc with hc; subst hc
    intro d hd
    simp only [List.mem_cons, List.not_mem_nil, or_false] at hd
    subst hd
    refine ⟨hg, ⟨c0, hc0, hin, hh, hal⟩, ?_⟩
    intro hf z hz hcz
    rcases hz with hz | rfl
    · exact hty hf z hz hcz
    · rcases hnc with h | h
      · rw [hf] at h; cases h
      · rw [← yCuttable_iff_CutsX] at hcz
        rw [h] at hcz; cases hcz

/-- a per-cell invariant indexed by the set of processed lines is carried through a whole loop of sweeps. -/
theorem cutsLoop_inv (cut : α → Cell α → Except AErr (List (Cell α))) (Inv : (α → Prop) → Cell α → Prop)
    (hstep : ∀ (T : α → Prop) (x : α) (c : Cell α) (ch : List (Cell α)), Inv T c → cut x c = .ok ch →
      ∀ d ∈ ch, Inv (fun z => T z ∨ z = x) d)
    (hmono : ∀ (T T' : α → Prop) (c : Cell α), (∀ z, T' z → T z) → Inv T c → Inv T' c)
    (cuts : List α) : ∀ (idxs : List Nat) (T : α → Prop) (q q' : List (Cell α)),
      cutsLoop cut cuts idxs q = .ok q' → (∀ c ∈ q, Inv T c) →
      ∀ d ∈ q', Inv (fun z => T z ∨ ∃ i ∈ idxs, cuts[i]? = some z) d := by
  intro idxs
  induction idxs with
  | nil =>
    intro T q q' h hq d hd
    simp only [cutsLoop] at h; injection h with h; subst h
    refine hmono _ _ d ?_ (hq d hd)
    intro z hz
    rcases hz with hz | ⟨i, hi, _⟩
    · exact hz
    · cases hi
  | cons i is ih =>
    intro T q q' h hq d hd
    unfold cutsLoop at h
    cases hx : cuts[i]? with
    | none => rw [hx] at h; cases h
    | some x =>
      rw [hx] at h; simp only at h
      cases hp : pass (cut x) q with
      | error e => rw [hp] at h; cases h
      | ok q1 =>
        rw [hp] at h; simp only at h
        have hq1 : ∀ c ∈ q1, Inv (fun z => T z ∨ z = x) c := by
          unfold pass at hp
          cases hm : mapE (cut x) q with
          | error e => rw [hm] at hp; cases hp
          | ok parts =>
            rw [hm] at hp; injection hp with hp; subst hp
            rw [mapE_ok_iff] at hm
            intro c hc
            obtain ⟨p, hp1, hp2⟩ := List.mem_flatten.mp hc
            obtain ⟨c1, hc1, hcut⟩ := forall2_mem_right hm p hp1
            exact hstep T x c1 p (hq c1 hc1) hcut c hp2
        have := ih _ q1 q' h hq1 d hd
        refine hmono _ _ d ?_ this
        intro z hz
        rcases hz with hz | ⟨j, hj, hjz⟩
        · exact Or.inl (Or.inl hz)
        · rcases List.mem_cons.mp hj with rfl | hj
          · left; right; rw [hx] at hjz; injection hjz with hjz; exact hjz.symm
          · exact Or.inr ⟨j, hj, hjz⟩

/-- `z` is one of the cut coordinates the loops of `griddify` visit: `l[i]` for `i` in `range(1, len(l) - 1)`. -/
def InteriorCut (l : List α) (z : α) : Prop := ∃ i ∈ List.range' 1 (l.length - 2), l[i]? = some z

theorem XInv_mono (orig : List (Cell α)) (ρ : α) (T T' : α → Prop) (c : Cell α) (h : ∀ z, T' z → T z)
    (hi : XInv orig ρ T c) : XInv orig ρ T' c := by
  obtain ⟨hg, c0, hc0, hin, hh, hal⟩ := hi
  exact ⟨hg, c0, hc0, hin, hh, fun hf x hx => hal hf x (h x hx)⟩

theorem YInv_mono (orig : List (Cell α)) (ρ : α) (S T T' : α → Prop) (c : Cell α) (h : ∀ z, T' z → T z)
    (hi : YInv orig ρ S T c) : YInv orig ρ S T' c := by
  obtain ⟨hg, hx, hy⟩ := hi
  exact ⟨hg, hx, fun hf y hy' => hy hf y (h y hy')⟩

/-- state of the deque after both loops of `griddify`. -/
theorem griddifyCells_aligned (ρ : α) (xs ys : List α) (cells q : List (Cell α)) (hg : ∀ c ∈ cells, CellGood c)
    (h : griddifyCells ρ xs ys cells = .ok q) :
    ∀ d ∈ q, YInv cells ρ (InteriorCut xs) (InteriorCut ys) d := by
  unfold griddifyCells at h
  cases h1 : cutsLoop (cutX ρ) xs (List.range' 1 (xs.length - 2)) cells with
  | error e => rw [h1] at h; cases h
  | ok q1 =>
    rw [h1] at h; simp only at h
    have i0 : ∀ c ∈ cells, XInv cells ρ (fun _ => False) c := by
      intro c hc
      exact ⟨hg c hc, c, hc, isInside_refl _, rfl, fun _ x hx => by cases hx⟩
    have i1 := cutsLoop_inv (cutX ρ) (XInv cells ρ) (fun T x c ch => cutX_inv cells ρ x T c ch)
      (XInv_mono cells ρ) xs _ _ cells q1 h1 i0
    have i2 : ∀ c ∈ q1, YInv cells ρ (InteriorCut xs) (fun _ => False) c := by
      intro c hc
      obtain ⟨hgc, c0, hc0, hin, hh, hal⟩ := i1 c hc
      refine ⟨hgc, ⟨c0, hc0, hin, le_of_eq hh, ?_⟩, fun _ y hy => by cases hy⟩
      intro hf x hx
      exact hal hf x (Or.inr hx)
    have i3 := cutsLoop_inv (cutY ρ) (YInv cells ρ (InteriorCut xs))
      (fun T y c ch => cutY_inv cells ρ y (InteriorCut xs) T c ch)
      (YInv_mono cells ρ (InteriorCut xs)) ys _ _ q1 q h i2
    intro d hd
    refine YInv_mono cells ρ _ _ _ d ?_ (i3 d hd)
    intro z hz
    exact Or.inr hz

/-! ### `gather_boundaries`: sorting and removal of duplicates -/

theorem mem_insertSorted (x v : α) (l : List α) : v ∈ insertSorted x l ↔ v = x ∨ v ∈ l := by
  induction l with
  | nil => simp [insertSorted]
  | cons y ys ih =>
    unfold insertSorted
    split
    · simp only [List.mem_cons, ih]; tauto
    · simp only [List.mem_cons]

theorem sorted_insertSorted (x : α) (l : List α) (h : l.Pairwise (· ≤ ·)) : (insertSorted x l).Pairwise (· ≤ ·) := by
  induction l with
  | nil => simp [insertSorted]
  | cons y ys ih =>
    rw [List.pairwise_cons] at h
    unfold insertSorted
    split
    · rename_i hlt
      rw [List.pairwise_cons]
      refine ⟨?_, ih h.2⟩
      intro v hv
      rcases (mem_insertSorted x v ys).mp hv with rfl | hv
      · exact le_of_lt hlt
      · exact h.1 v hv
    · rename_i hnlt
      have hxy : x ≤ y := not_lt.mp hnlt
      rw [List.pairwise_cons]
      refine ⟨?_, List.pairwise_cons.mpr h⟩
      intro v hv
      rcases List.mem_cons.mp hv with rfl | hv
      · exact hxy
      · exact le_trans hxy (h.1 v hv)

theorem mem_sortAsc (v : α) (l : List α) : v ∈ sortAsc l ↔ v ∈ l := by
  unfold sortAsc
  induction l with
  | nil => simp
  | cons y ys ih => simp only [List.foldr_cons, mem_insertSorted, ih, List.mem_cons]

theorem sorted_sortAsc (l : List α) : (sortAsc l).Pairwise (· ≤ ·) := by
  unfold sortAsc
  induction l with
  | nil => simp
  | cons y ys ih => simp only [List.foldr_cons]; exact sorted_insertSorted y _ ih

/-- any two of the values are equal or more than `ε` apart (what the tolerance is meant for: merging
    float-noise duplicates of one and the same line). -/
def Separated (ε : α) (l : List α) : Prop := ∀ u ∈ l, ∀ v ∈ l, u < v → u + ε < v

theorem uniqEpsRev_spec (ε : α) (hε : 0 ≤ ε) : ∀ (l acc : List α), l.Pairwise (· ≤ ·) →
    (∀ a ∈ acc, ∀ v ∈ l, a ≤ v) → Separated ε (acc ++ l) → acc.Pairwise (· > ·) →
    (uniqEpsRev ε l acc).Pairwise (· > ·) ∧ ∀ v, v ∈ uniqEpsRev ε l acc ↔ v ∈ acc ∨ v ∈ l := by
  intro l
  induction l with
  | nil => intro acc _ _ _ hp; simp [uniqEpsRev, hp]
  | cons v vs ih =>
    intro acc hs hle hsep hp
    rw [List.pairwise_cons] at hs
    cases acc with
    | nil =>
      simp only [uniqEpsRev]
      have := ih [v] hs.2 (by intro a ha w hw; simp at ha; subst ha; exact hs.1 w hw)
        (by simpa using hsep) (by simp)
      refine ⟨this.1, ?_⟩
      intro w; rw [this.2]; simp
    | cons last rest =>
      simp only [uniqEpsRev]
      split
      · rename_i hlt
        have hlast : last < v := lt_of_le_of_lt (le_add_of_nonneg_right hε) hlt
        have := ih (v :: last :: rest) hs.2
          (by
            intro a ha w hw
            rcases List.mem_cons.mp ha with rfl | ha
            · exact hs.1 w hw
            · exact hle a ha w (by simp [hw]))
          (by
            intro u hu w hw
            apply hsep u _ w _
            · simp only [List.mem_append, List.mem_cons] at hu ⊢; tauto
            · simp only [List.mem_append, List.mem_cons] at hw ⊢; tauto)
          (by
            rw [List.pairwise_cons]
            refine ⟨?_, hp⟩
            intro a ha
            rw [List.pairwise_cons] at hp
            rcases List.mem_cons.mp ha with rfl | ha
            · exact hlast
            · exact lt_trans (hp.1 a ha) hlast)
        refine ⟨this.1, ?_⟩
        intro w; rw [this.2]
        simp only [List.mem_cons]; tauto
      · rename_i hnlt
        have hle' : last ≤ v := hle last (by simp) v (by simp)
        have heq : last = v := by
          rcases lt_or_eq_of_le hle' with h | h
          · exact absurd (hsep last (by simp) v (by simp) h) hnlt
          · exact h
        have := ih (last :: rest) hs.2
          (by intro a ha w hw; exact hle a ha w (by simp [hw]))
          (by
            intro u hu w hw
            apply hsep u _ w _
            · simp only [List.mem_append, List.mem_cons] at hu ⊢; tauto
            · simp only [List.mem_append, List.mem_cons] at hw ⊢; tauto)
          hp
        refine ⟨this.1, ?_⟩
        intro w; rw [this.2]
        simp only [List.mem_cons]
        constructor
        · rintro (h | h)
          · exact Or.inl h
          · exact Or.inr (Or.inr h)
        · rintro (h | h | h)
          · exact Or.inl h
          · subst h; exact Or.inl (Or.inl heq.symm)
          · exact Or.inr h

/-- on separated values the boundary list is strictly increasing and contains every value. -/
theorem uniqEps_sortAsc_spec (ε : α) (hε : 0 ≤ ε) (l : List α) (hsep : Separated ε l) :
    (uniqEps ε (sortAsc l)).Pairwise (· < ·) ∧ ∀ v, v ∈ uniqEps ε (sortAsc l) ↔ v ∈ l := by
  have h := uniqEpsRev_spec ε hε (sortAsc l) [] (sorted_sortAsc l) (by intro a ha; cases ha)
    (by
      intro u hu v hv
      simp only [List.nil_append, mem_sortAsc] at hu hv
      exact hsep u hu v hv) (by simp)
  unfold uniqEps
  refine ⟨?_, ?_⟩
  · rw [List.pairwise_reverse]; exact h.1
  · intro v; rw [List.mem_reverse, h.2]; simp [mem_sortAsc]

/-- in a strictly increasing list, a value strictly between two other members sits at an interior index. -/
theorem interiorCut_of_between (R : List α) (hR : R.Pairwise (· < ·)) (lo z hi : α) (h1 : lo ∈ R) (h2 : z ∈ R)
    (h3 : hi ∈ R) (hlo : lo < z) (hhi : z < hi) : InteriorCut R z := by
  obtain ⟨j, hj, rfl⟩ := List.mem_iff_getElem.mp h1
  obtain ⟨i, hi', rfl⟩ := List.mem_iff_getElem.mp h2
  obtain ⟨k, hk, rfl⟩ := List.mem_iff_getElem.mp h3
  rw [List.pairwise_iff_getElem] at hR
  have hji : j < i := by
    by_contra hc
    rcases Nat.lt_or_ge i j with h | h
    · exact absurd (hR i j hi' hj h) (not_lt.mpr (le_of_lt hlo))
    · have : i = j := by omega
      subst this; exact lt_irrefl _ hlo
  have hik : i < k := by
    by_contra hc
    rcases Nat.lt_or_ge k i with h | h
    · exact absurd (hR k i hk hi' h) (not_lt.mpr (le_of_lt hhi))
    · have : i = k := by omega
      subst this; exact lt_irrefl _ hhi
  refine ⟨i, ?_, List.getElem?_eq_getElem hi'⟩
  rw [List.mem_range'_1]
  omega

/-! ### every side of a result cell of `griddify` is a side line of an original cell -/

/-- the x (resp. y) coordinates of the sides of the rectangles, as `gather_boundaries` collects them. -/
def sidesX (rs : List (Rect α)) : List α := rs.flatMap fun r => [r.xmin, r.xmax]
def sidesY (rs : List (Rect α)) : List α := rs.flatMap fun r => [r.ymin, r.ymax]

def SidesIn (bx bys : List α) (c : Cell α) : Prop :=
  CellGood c ∧ c.rect.xmin ∈ bx ∧ c.rect.xmax ∈ bx ∧ c.rect.ymin ∈ bys ∧ c.rect.ymax ∈ bys

theorem cutX_sides (bx bys : List α) (ρ x : α) (hx : x ∈ bx) (c : Cell α) (ch : List (Cell α))
    (hi : SidesIn bx bys c) (hc : cutX ρ x c = .ok ch) : ∀ d ∈ ch, SidesIn bx bys d := by
  obtain ⟨hg, b1, b2, b3, b4⟩ := hi
  rcases cutX_cases ρ x c hg with ⟨hf, hcut, p, q, hpq, hx0, he⟩ | ⟨hnc, he⟩
  · rw [he] at hc; injection hc with hc; subst hc
    obtain ⟨s1, s2, s3, s4, s5, s6, s7, s8, s9, s10⟩ := splitH_sides c.rect p q x hx0 hpq
    have ht := (splitH_tiles c.rect p q x hx0 hpq).1
    have hgood := hg.of_tiles (TilesCell.of_pair c.rect p q c.alloc c.depth (c.depth + 1) (c.depth + 1) ht
      (pieces_of_sidesH c.rect p q x hg.2.1 ⟨s1, s2, s3, s4, s5, s6, s7, s8, s9, s10⟩) hf)
    intro d hd
    simp only [List.mem_cons, List.not_mem_nil, or_false] at hd
    rcases hd with rfl | rfl
    · exact ⟨hgood _ (by simp), by simp only; rw [s1]; exact b1, by simp only; rw [s2]; exact hx,
        by simp only; rw [s5]; exact b3, by simp only; rw [s6]; exact b4⟩
    · exact ⟨hgood _ (by simp), by simp only; rw [s3]; exact hx, by simp only; rw [s4]; exact b2,
        by simp only; rw [s7]; exact b3, by simp only; rw [s8]; exact b4⟩
  · rw [he] at hc; injection hc with hc; subst hc
    intro d hd
    simp only [List.mem_cons, List.not_mem_nil, or_false] at hd
    subst hd
    exact ⟨hg, b1, b2, b3, b4⟩

theorem cutY_sides (bx bys : List α) (ρ y : α) (hy : y ∈ bys) (c : Cell α) (ch : List (Cell α))
    (hi : SidesIn bx bys c) (hc : cutY ρ y c = .ok ch) : ∀ d ∈ ch, SidesIn bx bys d := by
  obtain ⟨hg, b1, b2, b3, b4⟩ := hi
  rcases cutY_cases ρ y c hg with ⟨hf, hcut, p, q, hpq, hy0, he⟩ | ⟨hnc, he⟩
  · rw [he] at hc; injection hc with hc; subst hc
    obtain ⟨s1, s2, s3, s4, s5, s6, s7, s8, s9, s10⟩ := splitV_sides c.rect p q y hy0 hpq
    have ht := (splitV_tiles c.rect p q y hy0 hpq).1
    have hgood := hg.of_tiles (TilesCell.of_pair c.rect p q c.alloc c.depth (c.depth + 1) (c.depth + 1) ht
      (pieces_of_sidesV c.rect p q y hg.1 ⟨s1, s2, s3, s4, s5, s6, s7, s8, s9, s10⟩) hf)
    intro d hd
    simp only [List.mem_cons, List.not_mem_nil, or_false] at hd
    rcases hd with rfl | rfl
    · exact ⟨hgood _ (by simp), by simp only; rw [s5]; exact b1, by simp only; rw [s6]; exact b2,
        by simp only; rw [s1]; exact b3, by simp only; rw [s2]; exact hy⟩
    · exact ⟨hgood _ (by simp), by simp only; rw [s7]; exact b1, by simp only; rw [s8]; exact b2,
        by simp only; rw [s3]; exact hy, by simp only; rw [s4]; exact b4⟩
  · rw [he] at hc; injection hc with hc; subst hc
    intro d hd
    simp only [List.mem_cons, List.not_mem_nil, or_false] at hd
    subst hd
    exact ⟨hg, b1, b2, b3, b4⟩

/-- an invariant that every sweep preserves is preserved by a loop of sweeps (cut coordinates come from `cuts`). -/
theorem cutsLoop_forall (cut : α → Cell α → Except AErr (List (Cell α))) (P : Cell α → Prop) (cuts : List α)
    (hstep : ∀ x ∈ cuts, ∀ (c : Cell α) (ch : List (Cell α)), P c → cut x c = .ok ch → ∀ d ∈ ch, P d) :
    ∀ (idxs : List Nat) (q q' : List (Cell α)), cutsLoop cut cuts idxs q = .ok q' → (∀ c ∈ q, P c) → ∀ d ∈ q', P d := by
  intro idxs
  induction idxs with
  | nil => intro q q' h hq; simp only [cutsLoop] at h; injection h with h; subst h; exact hq
  | cons i is ih =>
    intro q q' h hq
    unfold cutsLoop at h
    cases hx : cuts[i]? with
    | none => rw [hx] at h; cases h
    | some x =>
      rw [hx] at h; simp only at h
      have hxm : x ∈ cuts := List.mem_of_getElem? hx
      cases hp : pass (cut x) q with
      | error e => rw [hp] at h; cases h
      | ok q1 =>
        rw [hp] at h; simp only at h
        refine ih q1 q' h ?_
        unfold pass at hp
        cases hm : mapE (cut x) q with
        | error e => rw [hm] at hp; cases hp
        | ok parts =>
          rw [hm] at hp; injection hp with hp; subst hp
          rw [mapE_ok_iff] at hm
          intro c hc
          obtain ⟨p, hp1, hp2⟩ := List.mem_flatten.mp hc
          obtain ⟨c1, hc1, hcut⟩ := forall2_mem_right hm p hp1
          exact hstep x hxm c1 p (hq c1 hc1) hcut c hp2

theorem griddifyCells_sides (ρ : α) (bx bys xs ys : List α) (cells q : List (Cell α))
    (hxs : ∀ x ∈ xs, x ∈ bx) (hys : ∀ y ∈ ys, y ∈ bys) (h0 : ∀ c ∈ cells, SidesIn bx bys c)
    (h : griddifyCells ρ xs ys cells = .ok q) : ∀ d ∈ q, SidesIn bx bys d := by
  unfold griddifyCells at h
  cases h1 : cutsLoop (cutX ρ) xs (List.range' 1 (xs.length - 2)) cells with
  | error e => rw [h1] at h; cases h
  | ok q1 =>
    rw [h1] at h; simp only at h
    have i1 := cutsLoop_forall (cutX ρ) (SidesIn bx bys) xs
      (fun x hx c ch hc hcut => cutX_sides bx bys ρ x (hxs x hx) c ch hc hcut) _ cells q1 h1 h0
    exact cutsLoop_forall (cutY ρ) (SidesIn bx bys) ys
      (fun y hy c ch hc hcut => cutY_sides bx bys ρ y (hys y hy) c ch hc hcut) _ q1 q h i1

theorem mem_sidesX (rs : List (Rect α)) (r : Rect α) (h : r ∈ rs) : r.xmin ∈ sidesX rs ∧ r.xmax ∈ sidesX rs := by
  unfold sidesX
  constructor <;> exact List.mem_flatMap.mpr ⟨r, h, by simp⟩

theorem mem_sidesY (rs : List (Rect α)) (r : Rect α) (h : r ∈ rs) : r.ymin ∈ sidesY rs ∧ r.ymax ∈ sidesY rs := by
  unfold sidesY
  constructor <;> exact List.mem_flatMap.mpr ⟨r, h, by simp⟩

theorem gatherBoundaries_eq (st : Eps α) (rs : List (Rect α)) (xs ys : List α)
    (h : gatherBoundaries st rs = .ok (xs, ys)) :
    xs = uniqEps st.dist (sortAsc (sidesX rs)) ∧ ys = uniqEps st.dist (sortAsc (sidesY rs)) := by
  unfold gatherBoundaries at h
  split at h
  · cases h
  · injection h with h; injection h with h1 h2
    exact ⟨h1.symm, h2.symm⟩

theorem mem_uniqEpsRev_sub (ε : α) : ∀ (l acc : List α) (v : α), v ∈ uniqEpsRev ε l acc → v ∈ acc ∨ v ∈ l := by
  intro l
  induction l with
  | nil => intro acc v h; simp [uniqEpsRev] at h; exact Or.inl h
  | cons w ws ih =>
    intro acc v h
    cases acc with
    | nil =>
      simp only [uniqEpsRev] at h
      rcases ih _ v h with h | h
      · simp at h; subst h; exact Or.inr (by simp)
      · exact Or.inr (by simp [h])
    | cons last rest =>
      simp only [uniqEpsRev] at h
      split at h
      · rcases ih _ v h with h | h
        · rcases List.mem_cons.mp h with rfl | h
          · exact Or.inr (by simp)
          · exact Or.inl h
        · exact Or.inr (by simp [h])
      · rcases ih _ v h with h | h
        · exact Or.inl h
        · exact Or.inr (by simp [h])

theorem mem_uniqEps_sortAsc_sub (ε : α) (l : List α) (v : α) (h : v ∈ uniqEps ε (sortAsc l)) : v ∈ l := by
  unfold uniqEps at h
  rw [List.mem_reverse] at h
  rcases mem_uniqEpsRev_sub ε _ _ v h with h | h
  · cases h
  · exact (mem_sortAsc v l).mp h

/-- the deque after both loops, with everything known about it (used by the C12 theorems). -/
theorem griddify_result (env : Env α) (st : Eps α) (a : Allocation α) (hv : ValidAlloc st a) :
    ∃ a' xs ys, griddify env st a = .ok (a', st) ∧
      xs = uniqEps st.dist (sortAsc (sidesX (a.cells.map (·.rect)))) ∧
      ys = uniqEps st.dist (sortAsc (sidesY (a.cells.map (·.rect)))) ∧
      (∀ d ∈ a'.cells, YInv a.cells env.rho (InteriorCut xs) (InteriorCut ys) d) ∧
      (∀ d ∈ a'.cells, SidesIn (sidesX (a.cells.map (·.rect))) (sidesY (a.cells.map (·.rect))) d) := by
  obtain ⟨a', h1, _, _, _, xs, ys, hb, hgc⟩ := griddify_spec env st a hv
  obtain ⟨ex, ey⟩ := gatherBoundaries_eq st _ xs ys hb
  refine ⟨a', xs, ys, h1, ex, ey, griddifyCells_aligned env.rho xs ys a.cells a'.cells hv.cells.good hgc, ?_⟩
  apply griddifyCells_sides env.rho _ _ xs ys a.cells a'.cells _ _ _ hgc
  · intro x hx; rw [ex] at hx; exact mem_uniqEps_sortAsc_sub _ _ x hx
  · intro y hy; rw [ey] at hy; exact mem_uniqEps_sortAsc_sub _ _ y hy
  · intro c hc
    have hm : c.rect ∈ a.cells.map (·.rect) := List.mem_map.mpr ⟨c, hc, rfl⟩
    exact ⟨hv.cells.good c hc, (mem_sidesX _ _ hm).1, (mem_sidesX _ _ hm).2, (mem_sidesY _ _ hm).1, (mem_sidesY _ _ hm).2⟩

/-! ### Python's compensated `sum()` is the plain sum in exact arithmetic -/

theorem pySumLoop_eq (l : List α) (f c : α) : pySumLoop l f c = (f + l.sum, c) := by
  induction l generalizing f c with
  | nil => simp [pySumLoop]
  | cons x xs ih =>
    unfold pySumLoop
    simp only
    rw [ih]
    have e1 : c + ((f - (f + x)) + x) = c := by ring
    have e2 : c + ((x - (f + x)) + f) = c := by ring
    split
    · rw [e1, List.sum_cons]; congr 1; ring
    · rw [e2, List.sum_cons]; congr 1; ring

theorem pySum_eq_sum (l : List α) : pySum l = l.sum := by
  unfold pySum
  rw [pySumLoop_eq]
  have : isZero (zero : α) = true := by rw [isZero_iff]; simp
  simp [this]

/-! ### refinement keeps the split condition (children inherit ratios and the fixed flag) -/

theorem halvings_fixed (l : Nat) : ∀ (r : Rect α), ∀ p ∈ halvings r l, p.fixed = r.fixed := by
  induction l with
  | zero => intro r p hp; simp [halvings] at hp; subst hp; rfl
  | succ l ih =>
    intro r p hp
    simp only [halvings, List.mem_append] at hp
    have h1 : (halveLonger r).1.fixed = r.fixed := by unfold halveLonger; split <;> rfl
    have h2 : (halveLonger r).2.fixed = r.fixed := by unfold halveLonger; split <;> rfl
    rcases hp with hp | hp
    · rw [ih _ p hp, h1]
    · rw [ih _ p hp, h2]

theorem halvings_ne_nil (r : Rect α) (l : Nat) : halvings r l ≠ [] := by
  intro h
  have := halvings_length r l
  rw [h] at this
  simp at this
  exact absurd this.symm (by positivity)

/-- once some cell satisfies the split condition, so does a cell of the refined list (its children carry the same
    ratios and are not fixed): the predicate `must_be_refined` stays true after `refine`. -/
theorem any_splitCond_refined (t : α) (levels : Nat) (cells : List (Cell α))
    (h : cells.any (splitCond t) = true) : (cells.flatMap (refinedCell t levels)).any (splitCond t) = true := by
  rw [List.any_eq_true] at h ⊢
  obtain ⟨c, hc, hs⟩ := h
  obtain ⟨r, rs, hr⟩ := List.exists_cons_of_ne_nil (halvings_ne_nil c.rect levels)
  have hrm : r ∈ halvings c.rect levels := by rw [hr]; simp
  refine ⟨⟨r, c.alloc, c.depth + levels⟩, ?_, ?_⟩
  · rw [List.mem_flatMap]
    refine ⟨c, hc, ?_⟩
    unfold refinedCell
    simp only [hs, ↓reduceIte, List.mem_map]
    exact ⟨r, hrm, rfl⟩
  · have hf := halvings_fixed levels c.rect r hrm
    simp only [splitCond, Bool.and_eq_true, Bool.not_eq_true'] at hs ⊢
    exact ⟨⟨by rw [hf]; exact hs.1.1, hs.1.2⟩, hs.2⟩

/-! ### concrete allocations over `ℚ` (non-vacuity witnesses shared by the property files) -/

def isOk {ε β : Type} : Except ε β → Bool | .ok _ => true | .error _ => false

/-- an input the constructor accepts yields a valid allocation (packaging of `mkAllocation_valid`). -/
theorem valid_of_isOk (env : Env α) (st : Eps α) (raw : List (RawCell α)) (hraw : ∀ rc ∈ raw, RawPos rc)
    (hst : 0 ≤ st.dist → 0 ≤ st.area) (htiny : 0 ≤ env.tiny) (hsqrt : ∀ x, 0 ≤ env.sqrt x)
    (h : isOk (mkAllocation env st raw) = true) :
    ∃ a st', mkAllocation env st raw = .ok (a, st') ∧ ValidAlloc st' a := by
  cases hm : mkAllocation env st raw with
  | error e => rw [hm] at h; cases h
  | ok p =>
    obtain ⟨a, st'⟩ := p
    exact ⟨a, st', rfl, mkAllocation_valid env st raw a st' hraw hst htiny hsqrt hm⟩

def exEnv : Env ℚ := ⟨1 / 1000000000000, 1 / 100, fun _ => 1 / 1000⟩

/-- three cells: two modules / region `dsp` at depth 1 / an EMPTY ratio map. -/
def exRaw : List (RawCell ℚ) :=
  [⟨.vec 1 1 2 2 none, [("M1", 1/2), ("M2", 1/4)], 0⟩,
   ⟨.vec 3 (1/2) 2 1 (some "dsp"), [("M2", 3/4)], 1⟩,
   ⟨.vec 3 (3/2) 2 1 none, [], 0⟩]

/-- three cells given as `Rectangle` objects, the second one the cell of a FIXED module (flag set, ratio 1,
    depth 0); the third one is at depth 1, so that uniform refinement has work to do. -/
def exRawF : List (RawCell ℚ) :=
  [⟨.obj ⟨1, 1, 2, 2, "_", false, false, .nopoly⟩, [("M1", 1/2)], 0⟩,
   ⟨.obj ⟨3, 1, 2, 2, "_", true, true, .nopoly⟩, [("FIX", 1)], 0⟩,
   ⟨.obj ⟨5, 1, 2, 2, "_", false, false, .nopoly⟩, [("M2", 1/4)], 1⟩]

theorem exRaw_valid : ∃ a st, mkAllocation exEnv ⟨-1, -1⟩ exRaw = .ok (a, st) ∧ ValidAlloc st a := by
  apply valid_of_isOk
  · intro rc h; simp [exRaw] at h; rcases h with rfl | rfl | rfl <;> trivial
  · intro h; norm_num at h
  · norm_num [exEnv]
  · intro x; norm_num [exEnv]
  · decide +kernel

theorem exRawF_valid : ∃ a st, mkAllocation exEnv ⟨-1, -1⟩ exRawF = .ok (a, st) ∧ ValidAlloc st a := by
  apply valid_of_isOk
  · intro rc h; simp [exRawF] at h; rcases h with rfl | rfl | rfl <;> simp [RawPos]
  · intro h; norm_num at h
  · norm_num [exEnv]
  · intro x; norm_num [exEnv]
  · decide +kernel

/-- witness layout of the open finding `C12-griddify-x-before-y` (7 cells): A = [0,2]×[0,8]; four unit cells on its
    right; the top row [0,3]×[8,9] is split at x = 1/20. -/
def wRaw : List (RawCell ℚ) :=
  [⟨.vec 1 4 2 8 none, [("M1", 1/2)], 0⟩,
   ⟨.vec (5/2) (1/2) 1 1 none, [("M2", 1/4)], 0⟩, ⟨.vec (5/2) (3/2) 1 1 none, [("M2", 1/4)], 0⟩,
   ⟨.vec (5/2) (5/2) 1 1 none, [("M2", 1/4)], 0⟩, ⟨.vec (5/2) (7/2) 1 1 none, [("M2", 1/4)], 0⟩,
   ⟨.vec (1/40) (17/2) (1/20) 1 none, [], 0⟩, ⟨.vec (61/40) (17/2) (59/20) 1 none, [], 0⟩]

theorem wRaw_valid : ∃ a st, mkAllocation exEnv ⟨-1, -1⟩ wRaw = .ok (a, st) ∧ ValidAlloc st a := by
  apply valid_of_isOk
  · intro rc h; simp [wRaw] at h; rcases h with rfl | rfl | rfl | rfl | rfl | rfl | rfl <;> trivial
  · intro h; norm_num at h
  · norm_num [exEnv]
  · intro x; norm_num [exEnv]
  · decide +kernel

/-- executable form of `Separated` (for concrete layouts). -/
def sepB (ε : ℚ) (l : List ℚ) : Bool := l.all fun u => l.all fun v => !(decide (u < v)) || decide (u + ε < v)

theorem sepB_sound (ε : ℚ) (l : List ℚ) (h : sepB ε l = true) : Separated ε l := by
  intro u hu v hv huv
  simp only [sepB, List.all_eq_true, Bool.or_eq_true, Bool.not_eq_true', decide_eq_false_iff_not, decide_eq_true_eq] at h
  rcases h u hu v hv with h | h
  · exact absurd huv h
  · exact h

end FV.Alloc

import FV.Proofs.AllocGrid
/-
  Helper lemmas for the `Allocation` model over an arbitrary linearly ordered field, part 3
  (used by `FV/Props/C02.lean` and `FV/Props/C12.lean`; parts 1 and 2 are `FV/Proofs/AllocBase.lean`, `FV/Proofs/AllocGrid.lean`).
-/
namespace FV.Alloc
open FV FV.Rect FV.C18
set_option linter.unusedSectionVars false
set_option linter.unusedSimpArgs false
set_option linter.unusedVariables false

variable {α : Type} [Field α] [LinearOrder α] [IsStrictOrderedRing α]

/-- `griddify` (repaired: fixpoint of the two sweeps) on a valid allocation: it returns, the result is valid, refines the
    input, keeps the caches, and its cell list is a fixpoint of a round of the two sweeps. -/
theorem griddify_spec (env : Env α) (st : Eps α) (a : Allocation α) (hv : ValidAlloc st a) :
    ∃ a', griddify env st a = .ok (a', st) ∧ ValidAlloc st a' ∧ Refines a.cells a'.cells ∧ a'.stats = a.stats ∧
      ∃ xs ys, gatherBoundaries st (a.cells.map (·.rect)) = .ok (xs, ys) ∧
        griddifyRounds env.rho xs ys (gridFuel xs ys a.cells) a.cells = .ok a'.cells ∧
        griddifyCells env.rho xs ys a'.cells = .ok a'.cells := by
  have hdef : st.defined = true := by simp [Eps.defined, hv.epsDef]
  have hgb : ∃ xs ys, gatherBoundaries st (a.cells.map (·.rect)) = .ok (xs, ys) := by
    simp only [gatherBoundaries, hdef, Bool.not_true, Bool.false_eq_true, ↓reduceIte]
    exact ⟨_, _, rfl⟩
  obtain ⟨xs, ys, hb⟩ := hgb
  obtain ⟨q, e1, r1, f1⟩ := griddifyRounds_ok env.rho xs ys (gridFuel xs ys a.cells) a.cells hv.cells.good
    (gridFuel_enough xs ys a.cells)
  obtain ⟨a', m1, m2, m3, m4⟩ := mk_of_refines env st a hv q r1
  refine ⟨a', ?_, m4, m2 ▸ r1, m3, xs, ys, hb, m2 ▸ e1, m2 ▸ f1⟩
  simp only [griddify, hb, e1, m1]

/-- one round of the two sweeps (`griddify` before `fixes/C12_griddify_x_before_y.diff`) on a valid allocation. -/
theorem griddifyOnce_spec (env : Env α) (st : Eps α) (a : Allocation α) (hv : ValidAlloc st a) :
    ∃ a', griddifyOnce env st a = .ok (a', st) ∧ ValidAlloc st a' ∧ Refines a.cells a'.cells ∧ a'.stats = a.stats ∧
      ∃ xs ys, gatherBoundaries st (a.cells.map (·.rect)) = .ok (xs, ys) ∧
        griddifyCells env.rho xs ys a.cells = .ok a'.cells := by
  have hdef : st.defined = true := by simp [Eps.defined, hv.epsDef]
  have hgb : ∃ xs ys, gatherBoundaries st (a.cells.map (·.rect)) = .ok (xs, ys) := by
    simp only [gatherBoundaries, hdef, Bool.not_true, Bool.false_eq_true, ↓reduceIte]
    exact ⟨_, _, rfl⟩
  obtain ⟨xs, ys, hb⟩ := hgb
  obtain ⟨q, e1, r1⟩ := griddifyCells_refines env.rho xs ys a.cells hv.cells.good
  obtain ⟨a', m1, m2, m3, m4⟩ := mk_of_refines env st a hv q r1
  refine ⟨a', ?_, m4, m2 ▸ r1, m3, xs, ys, hb, m2 ▸ e1⟩
  simp only [griddifyOnce, hb, e1, m1]

/-! ### the caches are the sums; the constructor produces valid allocations -/

theorem statOf_ok (cs : List (Cell α)) (m : String) (y : String × α × α × α) (h : statOf cs m = .ok y) :
    areaSum m cs ≠ 0 ∧ y = (m, areaSum m cs, momXSum m cs / areaSum m cs, momYSum m cs / areaSum m cs) := by
  unfold statOf at h
  rw [modStats_eq] at h
  simp only at h
  split at h
  · cases h
  · rename_i hz
    injection h with h
    refine ⟨?_, h.symm⟩
    intro h0; apply hz; rw [isZero_iff]; exact h0

theorem lookup_mapE_statOf (cs : List (Cell α)) (m : String) : ∀ (ms : List String) (stats : List (String × α × α × α)),
    mapE (statOf cs) ms = .ok stats →
    stats.lookup m = if m ∈ ms then some (areaSum m cs, momXSum m cs / areaSum m cs, momYSum m cs / areaSum m cs) else none := by
  intro ms
  induction ms with
  | nil => intro stats h; simp [mapE] at h; subst h; simp
  | cons k ks ih =>
    intro stats h
    rw [mapE_ok_iff] at h
    cases h with
    | cons h1 h2 =>
      rename_i y ys
      obtain ⟨_, hy⟩ := statOf_ok cs k y h1
      subst hy
      have := ih ys ((mapE_ok_iff _ _ _).mpr h2)
      by_cases hmk : m = k
      · subst hmk; simp [List.lookup]
      · have hne : (m == k) = false := by simpa using hmk
        simp only [List.lookup, hne, this, List.mem_cons, hmk, false_or]

/-- `area(m)` / `center(m)` of a valid allocation are the exact sums over its cells. -/
theorem ValidAlloc.caches {st : Eps α} {a : Allocation α} (hv : ValidAlloc st a) (m : String) :
    (m ∈ modules a.cells → a.areaOf m = some (areaSum m a.cells) ∧
      a.centerOf m = some (momXSum m a.cells / areaSum m a.cells, momYSum m a.cells / areaSum m a.cells)) ∧
    (m ∉ modules a.cells → a.areaOf m = none ∧ a.centerOf m = none) := by
  have h := lookup_mapE_statOf a.cells m (modules a.cells) a.stats hv.stats
  unfold Allocation.areaOf Allocation.centerOf
  constructor
  · intro hm; rw [h, if_pos hm]; exact ⟨rfl, rfl⟩
  · intro hm; rw [h, if_neg hm]; exact ⟨rfl, rfl⟩

theorem foldl_min_le_mem {β : Type} (g : β → α) (l : List β) (init : α) :
    ∀ d ∈ l, l.foldl (fun m d => pyMin m (g d)) init ≤ g d := by
  induction l generalizing init with
  | nil => intro d hd; cases hd
  | cons e es ih =>
    intro d hd
    rw [List.foldl_cons]
    rcases List.mem_cons.mp hd with rfl | hd
    · refine le_trans (foldl_min_le g es _) ?_
      rw [pyMin_eq]; exact min_le_right _ _
    · exact ih _ d hd

theorem boundingBox_quadrant (cs : List (Cell α)) (bb : Rect α) (h : boundingBox cs = .ok bb) :
    cs ≠ [] ∧ ∀ c ∈ cs, 0 ≤ c.rect.xmin ∧ 0 ≤ c.rect.ymin := by
  cases cs with
  | nil => simp [boundingBox] at h
  | cons c cs =>
    refine ⟨by simp, ?_⟩
    simp only [boundingBox, zero_eq] at h
    split at h
    · cases h
    · rename_i hq
      rw [not_not] at hq
      intro d hd
      rcases List.mem_cons.mp hd with rfl | hd
      · exact ⟨le_trans hq.1 (foldl_min_le _ _ _), le_trans hq.2 (foldl_min_le _ _ _)⟩
      · exact ⟨le_trans hq.1 (foldl_min_le_mem (fun d : Cell α => d.rect.xmin) cs _ d hd),
          le_trans hq.2 (foldl_min_le_mem (fun d : Cell α => d.rect.ymin) cs _ d hd)⟩

/-- descriptors whose `Rectangle` objects are proper rectangles (the `Rectangle` constructor asserts it). -/
def RawPos (rc : RawCell α) : Prop :=
  match rc.rect with
  | .obj r => 0 < r.w ∧ 0 < r.h
  | .vec _ _ _ _ _ => True

theorem parseRect_pos (rr : RawRect α) (r : Rect α) (hp : match rr with | .obj r0 => 0 < r0.w ∧ 0 < r0.h | .vec _ _ _ _ _ => True)
    (h : parseRect rr = .ok r) : 0 < r.w ∧ 0 < r.h := by
  cases rr with
  | obj r0 =>
    simp only [parseRect] at h
    injection h with h; subst h; exact hp
  | vec x y w hh region =>
    simp only [parseRect, zero_eq] at h
    by_cases c1 : (0 ≤ x ∧ 0 ≤ y ∧ 0 ≤ w ∧ 0 ≤ hh)
    · rw [if_neg (not_not.mpr c1)] at h
      clear hp
      have key : ∀ b : Bool, (if b = true then (Except.error AErr.assertion : Except AErr (Rect α)) else
          if ¬0 < w then Except.error AErr.assertion else if ¬0 < hh then Except.error AErr.assertion
          else Except.ok { cx := x, cy := y, w := w, h := hh, region := region.getD "_" }) = .ok r → 0 < r.w ∧ 0 < r.h := by
        intro b hb
        cases b with
        | true => simp at hb
        | false =>
          simp only [Bool.false_eq_true, ↓reduceIte] at hb
          by_cases c3 : 0 < w
          · rw [if_neg (not_not.mpr c3)] at hb
            by_cases c4 : 0 < hh
            · rw [if_neg (not_not.mpr c4)] at hb
              injection hb with hb; subst hb; exact ⟨c3, c4⟩
            · rw [if_pos c4] at hb; cases hb
          · rw [if_pos c3] at hb; cases hb
      exact key _ h
    · rw [if_pos c1] at h; cases h

theorem parseCell_ok (rc : RawCell α) (c : Cell α) (hp : RawPos rc) (h : parseCell rc = .ok c) :
    0 < c.rect.w ∧ 0 < c.rect.h ∧ allocOK c.alloc = true := by
  unfold parseCell at h
  by_cases c1 : rc.depth < 0
  · rw [if_pos c1] at h; cases h
  · rw [if_neg c1] at h
    cases hr : parseRect rc.rect with
    | error e => rw [hr] at h; cases h
    | ok r =>
      rw [hr] at h
      simp only at h
      by_cases c2 : allocOK rc.alloc = true
      · rw [if_pos c2] at h
        injection h with h; subst h
        have := parseRect_pos rc.rect r (by unfold RawPos at hp; exact hp) hr
        exact ⟨this.1, this.2, c2⟩
      · rw [if_neg c2] at h; cases h

/-- the tolerances after the constructor ran (`set_epsilon` when they were undefined). -/
def newEps (env : Env α) (st : Eps α) (bb : Rect α) : Eps α :=
  if st.defined then st else ⟨env.tiny * pyMin bb.w bb.h, env.sqrt (env.tiny * pyMin bb.w bb.h)⟩

theorem mkAllocation_eq (env : Env α) (st : Eps α) (raw : List (RawCell α)) :
    mkAllocation env st raw =
      match mapE parseCell raw with
      | .error e => .error e
      | .ok cells =>
        match boundingBox cells with
        | .error e => .error e
        | .ok bb =>
          if !(checkNoOverlap (newEps env st bb) cells) then .error .assertion else
          match areasCenters cells with
          | .error e => .error e
          | .ok stats => .ok (⟨cells, stats, bb⟩, newEps env st bb) := rfl

/-- **the constructor only returns valid allocations** (with the tolerances it leaves behind). -/
theorem mkAllocation_valid (env : Env α) (st : Eps α) (raw : List (RawCell α)) (a : Allocation α) (st' : Eps α)
    (hraw : ∀ rc ∈ raw, RawPos rc) (hst : 0 ≤ st.dist → 0 ≤ st.area) (htiny : 0 ≤ env.tiny)
    (hsqrt : ∀ x, 0 ≤ env.sqrt x) (h : mkAllocation env st raw = .ok (a, st')) : ValidAlloc st' a := by
  rw [mkAllocation_eq] at h
  cases hcells : mapE parseCell raw with
  | error e => rw [hcells] at h; cases h
  | ok cells =>
    rw [hcells] at h; simp only at h
    cases hbb : boundingBox cells with
    | error e => rw [hbb] at h; cases h
    | ok bb =>
      rw [hbb] at h; simp only at h
      by_cases hck : checkNoOverlap (newEps env st bb) cells = true
      · simp only [hck, Bool.not_true, Bool.false_eq_true, ↓reduceIte] at h
        cases hstats : areasCenters cells with
        | error e => rw [hstats] at h; cases h
        | ok stats =>
          rw [hstats] at h
          injection h with h
          injection h with ha hs
          subst ha
          obtain ⟨hne, hquad⟩ := boundingBox_quadrant cells bb hbb
          have hpc : ∀ c ∈ cells, 0 < c.rect.w ∧ 0 < c.rect.h ∧ allocOK c.alloc = true := by
            intro c hc
            rw [mapE_ok_iff] at hcells
            obtain ⟨rc, hrc, hp⟩ := forall2_mem_right hcells c hc
            exact parseCell_ok rc c (hraw rc hrc) hp
          have hbbpos : 0 < bb.w ∧ 0 < bb.h := by
            cases cells with
            | nil => exact absurd rfl hne
            | cons c cs =>
              simp only [boundingBox, zero_eq] at hbb
              split at hbb
              · cases hbb
              · split at hbb
                · cases hbb
                · split at hbb
                  · cases hbb
                  · rename_i h1 h2
                    injection hbb with hbb; subst hbb
                    simp only [not_not] at h1 h2
                    exact ⟨h1, h2⟩
          have hst' : 0 ≤ st'.dist ∧ 0 ≤ st'.area := by
            subst hs
            unfold newEps
            by_cases hd : st.defined = true
            · simp only [hd, ↓reduceIte]
              have : 0 ≤ st.dist := by simpa [Eps.defined] using hd
              exact ⟨this, hst this⟩
            · simp only [hd, Bool.false_eq_true, ↓reduceIte, pyMin_eq]
              exact ⟨mul_nonneg htiny (le_min (le_of_lt hbbpos.1) (le_of_lt hbbpos.2)), hsqrt _⟩
          rw [hs] at hck
          refine ⟨hst'.1, hst'.2, ⟨hne, ?_, fun c hc => (hpc c hc).2.2, ?_, ?_⟩, hstats, hbb⟩
          · intro c hc
            exact ⟨(hpc c hc).1, (hpc c hc).2.1, (hquad c hc).1, (hquad c hc).2⟩
          · unfold checkNoOverlap at hck
            split at hck
            · cases hck
            · exact (noOverlapPairs_iff _ _).mp hck
          · intro m hm
            unfold areasCenters at hstats
            rw [mapE_ok_iff] at hstats
            obtain ⟨y, _, hy⟩ := forall2_mem_left hstats m hm
            exact (statOf_ok cells m y hy).1
      · simp only [hck, Bool.not_false, ↓reduceIte] at h
        cases h

/-! ### any operation, any composition -/

/-- documented precondition of an operation (`assert levels > 0` in `refine`). -/
def OpOK : Op α → Prop
  | .refine _ l => 0 < l
  | .uniform => True
  | .griddify => True

theorem applyOp_spec (env : Env α) (st : Eps α) (a : Allocation α) (op : Op α) (hv : ValidAlloc st a) (hop : OpOK op) :
    ∃ a', applyOp env st a op = .ok (a', st) ∧ ValidAlloc st a' ∧ Refines a.cells a'.cells ∧ a'.stats = a.stats := by
  cases op with
  | refine t l =>
    obtain ⟨a', h1, h2, h3, h4, _⟩ := refine_spec env st a t l hv hop
    exact ⟨a', h1, h2, h3, h4⟩
  | uniform =>
    obtain ⟨a', h1, h2, h3, h4, _⟩ := uniform_spec env st a hv
    exact ⟨a', h1, h2, h3, h4⟩
  | griddify =>
    obtain ⟨a', h1, h2, h3, h4, _⟩ := griddify_spec env st a hv
    exact ⟨a', h1, h2, h3, h4⟩

theorem applyOps_spec (env : Env α) (st : Eps α) : ∀ (ops : List (Op α)) (a : Allocation α), ValidAlloc st a →
    (∀ op ∈ ops, OpOK op) →
    ∃ a', applyOps env ops st a = .ok (a', st) ∧ ValidAlloc st a' ∧ Refines a.cells a'.cells ∧ a'.stats = a.stats := by
  intro ops
  induction ops with
  | nil => intro a hv _; exact ⟨a, rfl, hv, Refines.refl _ hv.pos, rfl⟩
  | cons op ops ih =>
    intro a hv hops
    obtain ⟨a1, e1, v1, r1, s1⟩ := applyOp_spec env st a op hv (hops op (by simp))
    obtain ⟨a2, e2, v2, r2, s2⟩ := ih a1 v1 (fun o ho => hops o (by simp [ho]))
    exact ⟨a2, by simp only [applyOps, e1, e2], v2, r1.trans r2, s2.trans s1⟩

/-! ### exact form of the threshold / uniform refinement (C12) -/

/-- the two halves of a rectangle cut through the middle of its longer side (the width on a tie),
    written with coordinates; attributes are kept, the STOG role is reset (a duplicate). -/
def halveLonger (r : Rect α) : Rect α × Rect α :=
  if r.w < r.h then
    ({ r with cy := r.cy - r.h / 4, h := r.h / 2, loc := .nopoly }, { r with cy := r.cy + r.h / 4, h := r.h / 2, loc := .nopoly })
  else
    ({ r with cx := r.cx - r.w / 4, w := r.w / 2, loc := .nopoly }, { r with cx := r.cx + r.w / 4, w := r.w / 2, loc := .nopoly })

/-- `levels` rounds of halving the longer side: the `2^levels` pieces, left/bottom first. -/
def halvings (r : Rect α) : Nat → List (Rect α)
  | 0 => [r]
  | l + 1 => halvings (halveLonger r).1 l ++ halvings (halveLonger r).2 l

/-- width and height after `levels` rounds of halving the longer side. -/
def halvedDims (w h : α) : Nat → α × α
  | 0 => (w, h)
  | l + 1 => if w < h then halvedDims w (h / 2) l else halvedDims (w / 2) h l

theorem split_eq_halveLonger (r : Rect α) (hw : 0 < r.w) (hh : 0 < r.h) : r.split = some (halveLonger r) := by
  unfold Rect.split halveLonger splitV splitH
  simp only [zero_eq, negOne_eq, show (-1 : α) < 0 by linarith, ↓reduceIte, xmin, xmax, ymin, ymax, two_eq, duplicate]
  have h1 : r.cx - r.w / 2 < r.cx ∧ r.cx < r.cx + r.w / 2 := ⟨by linarith, by linarith⟩
  have h2 : r.cy - r.h / 2 < r.cy ∧ r.cy < r.cy + r.h / 2 := ⟨by linarith, by linarith⟩
  by_cases hc : r.w < r.h
  · simp only [hc, ↓reduceIte, h2, and_self, Option.some.injEq, Prod.mk.injEq]
    constructor
    · congr 1 <;> ring
    · congr 1 <;> ring
  · simp only [hc, ↓reduceIte, h1, and_self, Option.some.injEq, Prod.mk.injEq]
    constructor
    · congr 1 <;> ring
    · congr 1 <;> ring

theorem halveLonger_pos (r : Rect α) (hw : 0 < r.w) (hh : 0 < r.h) :
    0 < (halveLonger r).1.w ∧ 0 < (halveLonger r).1.h ∧ 0 < (halveLonger r).2.w ∧ 0 < (halveLonger r).2.h := by
  unfold halveLonger
  split <;> simp only <;> refine ⟨?_, ?_, ?_, ?_⟩ <;> linarith

theorem splitAllocation_exact (levels : Nat) : ∀ (r : Rect α) (al : Alloc α) (d : Nat), 0 < r.w → 0 < r.h →
    splitAllocation r al d levels = .ok ((halvings r levels).map fun r' => ⟨r', al, d + levels⟩) := by
  induction levels with
  | zero => intro r al d _ _; rfl
  | succ l ih =>
    intro r al d hw hh
    obtain ⟨p1, p2, p3, p4⟩ := halveLonger_pos r hw hh
    simp only [splitAllocation, split_eq_halveLonger r hw hh, ih _ al (d + 1) p1 p2, ih _ al (d + 1) p3 p4,
      halvings, List.map_append]
    have : d + 1 + l = d + (l + 1) := by omega
    rw [this]

theorem halvings_length (r : Rect α) (l : Nat) : (halvings r l).length = 2 ^ l := by
  induction l generalizing r with
  | zero => rfl
  | succ l ih => simp only [halvings, List.length_append, ih]; ring

theorem halvings_dims (l : Nat) : ∀ (r : Rect α), ∀ p ∈ halvings r l, (p.w, p.h) = halvedDims r.w r.h l := by
  induction l with
  | zero => intro r p hp; simp [halvings] at hp; subst hp; rfl
  | succ l ih =>
    intro r p hp
    simp only [halvings, List.mem_append] at hp
    unfold halvedDims
    by_cases hc : r.w < r.h
    · simp only [hc, ↓reduceIte]
      rcases hp with hp | hp
      · have := ih _ p hp; simpa [halveLonger, hc] using this
      · have := ih _ p hp; simpa [halveLonger, hc] using this
    · simp only [hc, ↓reduceIte]
      rcases hp with hp | hp
      · have := ih _ p hp; simpa [halveLonger, hc] using this
      · have := ih _ p hp; simpa [halveLonger, hc] using this

theorem halvedDims_area (l : Nat) : ∀ (w h : α), (halvedDims w h l).1 * (halvedDims w h l).2 = w * h / 2 ^ l := by
  induction l with
  | zero => intro w h; simp [halvedDims]
  | succ l ih =>
    intro w h
    unfold halvedDims
    split
    · rw [ih]; field_simp; ring
    · rw [ih]; field_simp; ring

theorem mapE_eq_map {β γ ε : Type} (f : β → Except ε γ) (g : β → γ) (l : List β) (h : ∀ x ∈ l, f x = .ok (g x)) :
    mapE f l = .ok (l.map g) := by
  rw [mapE_ok_iff, List.forall₂_map_right_iff]
  induction l with
  | nil => exact List.Forall₂.nil
  | cons x xs ih => exact List.Forall₂.cons (h x (by simp)) (ih (fun y hy => h y (by simp [hy])))

/-- the cells `refine` creates out of one cell. -/
def refinedCell (t : α) (levels : Nat) (c : Cell α) : List (Cell α) :=
  if splitCond t c then (halvings c.rect levels).map fun r => ⟨r, c.alloc, c.depth + levels⟩ else [c]

theorem refineCells_exact (t : α) (levels : Nat) (cells : List (Cell α))
    (hpos : ∀ c ∈ cells, 0 < c.rect.w ∧ 0 < c.rect.h) :
    refineCells t levels cells = .ok (cells.flatMap (refinedCell t levels)) := by
  unfold refineCells
  rw [mapE_eq_map _ (refinedCell t levels) cells]
  · rfl
  · intro c hc
    rw [splitAllocation_exact _ c.rect c.alloc c.depth (hpos c hc).1 (hpos c hc).2]
    unfold refinedCell
    by_cases hs : splitCond t c = true
    · simp [hs]
    · simp [hs, halvings]

/-- the cells `uniform_refinement_depth` creates out of one cell (target depth `mx`). -/
def uniformCell (mx : Nat) (c : Cell α) : List (Cell α) :=
  (halvings c.rect (if c.rect.fixed then 0 else mx - c.depth)).map fun r =>
    ⟨r, c.alloc, c.depth + (if c.rect.fixed then 0 else mx - c.depth)⟩

theorem uniformCells_exact (cells : List (Cell α)) (hpos : ∀ c ∈ cells, 0 < c.rect.w ∧ 0 < c.rect.h) :
    uniformCells cells = .ok (cells.flatMap (uniformCell (maxDepth cells))) := by
  unfold uniformCells
  simp only
  rw [mapE_eq_map _ (uniformCell (maxDepth cells)) cells]
  · rfl
  · intro c hc
    rw [splitAllocation_exact _ c.rect c.alloc c.depth (hpos c hc).1 (hpos c hc).2]
    rfl

theorem le_maxDepth (cells : List (Cell α)) : ∀ c ∈ cells, c.depth ≤ maxDepth cells := by
  unfold maxDepth
  have key : ∀ (l : List (Cell α)) (init : Nat), init ≤ l.foldl (fun m c => max m c.depth) init ∧
      ∀ c ∈ l, c.depth ≤ l.foldl (fun m c => max m c.depth) init := by
    intro l
    induction l with
    | nil => intro init; exact ⟨le_refl _, fun c hc => by cases hc⟩
    | cons d ds ih =>
      intro init
      simp only [List.foldl_cons]
      obtain ⟨h1, h2⟩ := ih (max init d.depth)
      refine ⟨le_trans (le_max_left _ _) h1, ?_⟩
      intro c hc
      rcases List.mem_cons.mp hc with rfl | hc
      · exact le_trans (le_max_right _ _) h1
      · exact h2 c hc
  exact (key cells 0).2

theorem maxDepth_attained (cells : List (Cell α)) (hne : cells ≠ []) : ∃ c ∈ cells, c.depth = maxDepth cells := by
  unfold maxDepth
  have key : ∀ (l : List (Cell α)) (init : Nat), l.foldl (fun m c => max m c.depth) init = init ∨
      ∃ c ∈ l, c.depth = l.foldl (fun m c => max m c.depth) init := by
    intro l
    induction l with
    | nil => intro init; exact Or.inl rfl
    | cons d ds ih =>
      intro init
      simp only [List.foldl_cons]
      rcases ih (max init d.depth) with h | ⟨c, hc, h⟩
      · rw [h]
        rcases le_total init d.depth with hle | hle
        · right; exact ⟨d, by simp, by rw [max_eq_right hle]⟩
        · left; rw [max_eq_left hle]
      · right; exact ⟨c, by simp [hc], h⟩
  cases cells with
  | nil => exact absurd rfl hne
  | cons d ds =>
    rcases key (d :: ds) 0 with h | h
    · refine ⟨d, by simp, ?_⟩
      have := le_maxDepth (d :: ds) d (by simp)
      unfold maxDepth at this
      omega
    · exact h

theorem minDepth_le (cells : List (Cell α)) : ∀ c ∈ cells, minDepth cells ≤ c.depth := by
  cases cells with
  | nil => intro c hc; cases hc
  | cons d ds =>
    unfold minDepth
    have key : ∀ (l : List (Cell α)) (init : Nat), l.foldl (fun m c => min m c.depth) init ≤ init ∧
        ∀ c ∈ l, l.foldl (fun m c => min m c.depth) init ≤ c.depth := by
      intro l
      induction l with
      | nil => intro init; exact ⟨le_refl _, fun c hc => by cases hc⟩
      | cons e es ih =>
        intro init
        simp only [List.foldl_cons]
        obtain ⟨h1, h2⟩ := ih (min init e.depth)
        refine ⟨le_trans h1 (min_le_left _ _), ?_⟩
        intro c hc
        rcases List.mem_cons.mp hc with rfl | hc
        · exact le_trans h1 (min_le_right _ _)
        · exact h2 c hc
    intro c hc
    rcases List.mem_cons.mp hc with rfl | hc
    · exact (key ds c.depth).1
    · exact (key ds d.depth).2 c hc

theorem length_flatMap_gt {β : Type} (g : β → List β) (l : List β) (h1 : ∀ x ∈ l, 1 ≤ (g x).length)
    (h2 : ∃ x ∈ l, 2 ≤ (g x).length) : l.length < (l.flatMap g).length := by
  induction l with
  | nil => obtain ⟨x, hx, _⟩ := h2; cases hx
  | cons y ys ih =>
    simp only [List.flatMap_cons, List.length_append, List.length_cons]
    have hy := h1 y (by simp)
    have hge : ys.length ≤ (ys.flatMap g).length := by
      clear ih h2
      induction ys with
      | nil => simp
      | cons z zs ihz =>
        simp only [List.flatMap_cons, List.length_append, List.length_cons]
        have := h1 z (by simp)
        have := ihz (fun x hx => h1 x (by
          rcases List.mem_cons.mp hx with rfl | hx
          · simp
          · simp [hx]))
        omega
    obtain ⟨x, hx, h2x⟩ := h2
    rcases List.mem_cons.mp hx with rfl | hx
    · omega
    · have := ih (fun z hz => h1 z (by simp [hz])) ⟨x, hx, h2x⟩
      omega

theorem flatMap_singleton_of {β : Type} (g : β → List β) (l : List β) (h : ∀ x ∈ l, g x = [x]) : l.flatMap g = l := by
  induction l with
  | nil => rfl
  | cons y ys ih => simp [List.flatMap_cons, h y (by simp), ih (fun z hz => h z (by simp [hz]))]

/-! ### alignment after gridding (C12) -/

/-- the line `x` would cut the x-extent `[lo, hi]` into two pieces both wider than `ρ·H`. -/
def CutsX (ρ H lo hi x : α) : Prop := lo < x ∧ x < hi ∧ ρ * H < min (x - lo) (hi - x)

theorem xCuttable_iff_CutsX (r : Rect α) (x ρ : α) : r.xCuttable x ρ = true ↔ CutsX ρ r.h r.xmin r.xmax x := by
  rw [xCuttable_iff]; unfold CutsX; rw [lt_min_iff]

theorem yCuttable_iff_CutsX (r : Rect α) (y ρ : α) : r.yCuttable y ρ = true ↔ CutsX ρ r.w r.ymin r.ymax y := by
  unfold yCuttable CutsX
  split
  · rename_i hc; simp only [Bool.false_eq_true, false_iff]; intro ⟨a, b, _⟩; rcases hc with c | c <;> linarith
  · rename_i hc; push Not at hc
    simp only [pyMin_eq, decide_eq_true_eq]; tauto

/-- shrinking the extent cannot make a refused line cuttable. -/
theorem CutsX_shrink (ρ H lo hi lo' hi' x : α) (h1 : lo ≤ lo') (h2 : hi' ≤ hi)
    (h : CutsX ρ H lo' hi' x) : CutsX ρ H lo hi x := by
  obtain ⟨a, b, c⟩ := h
  rw [lt_min_iff] at c
  refine ⟨by linarith, by linarith, ?_⟩
  rw [lt_min_iff]
  exact ⟨by linarith, by linarith⟩

/-- invariant of the x sweep: a cell is a piece of an original cell of the same height, and no processed line
    (set `S`) cuts it non-sliver-wise. -/
def XInv (orig : List (Cell α)) (ρ : α) (S : α → Prop) (c : Cell α) : Prop :=
  CellGood c ∧ ∃ c0 ∈ orig, c.rect.isInside c0.rect = true ∧ c.rect.h = c0.rect.h ∧
    (c.rect.fixed = false → ∀ x, S x → ¬ CutsX ρ c0.rect.h c.rect.xmin c.rect.xmax x)

theorem cutX_inv (orig : List (Cell α)) (ρ x : α) (S : α → Prop) (c : Cell α) (ch : List (Cell α))
    (hi : XInv orig ρ S c) (hc : cutX ρ x c = .ok ch) : ∀ d ∈ ch, XInv orig ρ (fun y => S y ∨ y = x) d := by
  obtain ⟨hg, c0, hc0, hin, hh, hal⟩ := hi
  rcases cutX_cases ρ x c hg with ⟨hf, hcut, p, q, hpq, hx, he⟩ | ⟨hnc, he⟩
  · rw [he] at hc; injection hc with hc; subst hc
    obtain ⟨s1, s2, s3, s4, s5, s6, s7, s8, s9, s10⟩ := splitH_sides c.rect p q x hx hpq
    have ht := (splitH_tiles c.rect p q x hx hpq).1
    have hgood := hg.of_tiles (TilesCell.of_pair c.rect p q c.alloc c.depth (c.depth + 1) (c.depth + 1) ht
      (pieces_of_sidesH c.rect p q x hg.2.1 ⟨s1, s2, s3, s4, s5, s6, s7, s8, s9, s10⟩) hf)
    have hph : p.h = c.rect.h := by rw [← ymax_sub_ymin p, ← ymax_sub_ymin c.rect, s5, s6]
    have hqh : q.h = c.rect.h := by rw [← ymax_sub_ymin q, ← ymax_sub_ymin c.rect, s7, s8]
    intro d hd
    simp only [List.mem_cons, List.not_mem_nil, or_false] at hd
    rcases hd with rfl | rfl
    · refine ⟨hgood _ (by simp), c0, hc0, isInside_trans _ _ _ ht.inside_p hin, by simp only; rw [hph, hh], ?_⟩
      intro _ y hy hcy
      simp only at hcy
      rcases hy with hy | rfl
      · rw [s1, s2] at hcy
        exact hal hf y hy (CutsX_shrink ρ _ _ _ _ _ y (le_refl _) (le_of_lt s10) hcy)
      · obtain ⟨_, b, _⟩ := hcy; rw [s2] at b; exact lt_irrefl _ b
    · refine ⟨hgood _ (by simp), c0, hc0, isInside_trans _ _ _ ht.inside_q hin, by simp only; rw [hqh, hh], ?_⟩
      intro _ y hy hcy
      simp only at hcy
      rcases hy with hy | rfl
      · rw [s3, s4] at hcy
        exact hal hf y hy (CutsX_shrink ρ _ _ _ _ _ y (le_of_lt s9) (le_refl _) hcy)
      · obtain ⟨a, _, _⟩ := hcy; rw [s3] at a; exact lt_irrefl _ a
  · rw [he] at hc; injection hc with hc; subst hc
    intro d hd
    simp only [List.mem_cons, List.not_mem_nil, or_false] at hd
    subst hd
    refine ⟨hg, c0, hc0, hin, hh, ?_⟩
    intro hf y hy hcy
    rcases hy with hy | rfl
    · exact hal hf y hy hcy
    · rcases hnc with h | h
      · rw [hf] at h; cases h
      · rw [← hh, ← xCuttable_iff_CutsX] at hcy
        rw [h] at hcy; cases hcy

/-- invariant of the y sweep: the x statement is carried along (with the original height), and no processed
    y line (set `T`) cuts the cell non-sliver-wise with its *current* width. -/
def YInv (orig : List (Cell α)) (ρ : α) (S T : α → Prop) (c : Cell α) : Prop :=
  CellGood c ∧ (∃ c0 ∈ orig, c.rect.isInside c0.rect = true ∧ c.rect.h ≤ c0.rect.h ∧
    (c.rect.fixed = false → ∀ x, S x → ¬ CutsX ρ c0.rect.h c.rect.xmin c.rect.xmax x)) ∧
  (c.rect.fixed = false → ∀ y, T y → ¬ CutsX ρ c.rect.w c.rect.ymin c.rect.ymax y)

theorem cutY_inv (orig : List (Cell α)) (ρ y : α) (S T : α → Prop) (c : Cell α) (ch : List (Cell α))
    (hi : YInv orig ρ S T c) (hc : cutY ρ y c = .ok ch) : ∀ d ∈ ch, YInv orig ρ S (fun z => T z ∨ z = y) d := by
  obtain ⟨hg, ⟨c0, hc0, hin, hh, hal⟩, hty⟩ := hi
  rcases cutY_cases ρ y c hg with ⟨hf, hcut, p, q, hpq, hy, he⟩ | ⟨hnc, he⟩
  · rw [he] at hc; injection hc with hc; subst hc
    obtain ⟨s1, s2, s3, s4, s5, s6, s7, s8, s9, s10⟩ := splitV_sides c.rect p q y hy hpq
    have ht := (splitV_tiles c.rect p q y hy hpq).1
    have hgood := hg.of_tiles (TilesCell.of_pair c.rect p q c.alloc c.depth (c.depth + 1) (c.depth + 1) ht
      (pieces_of_sidesV c.rect p q y hg.1 ⟨s1, s2, s3, s4, s5, s6, s7, s8, s9, s10⟩) hf)
    have hpw : p.w = c.rect.w := by rw [← xmax_sub_xmin p, ← xmax_sub_xmin c.rect, s5, s6]
    have hqw : q.w = c.rect.w := by rw [← xmax_sub_xmin q, ← xmax_sub_xmin c.rect, s7, s8]
    have hph : p.h ≤ c.rect.h := by rw [← ymax_sub_ymin p, ← ymax_sub_ymin c.rect, s1, s2]; linarith
    have hqh : q.h ≤ c.rect.h := by rw [← ymax_sub_ymin q, ← ymax_sub_ymin c.rect, s3, s4]; linarith
    intro d hd
    simp only [List.mem_cons, List.not_mem_nil, or_false] at hd
    rcases hd with rfl | rfl
    · refine ⟨hgood _ (by simp), ⟨c0, hc0, isInside_trans _ _ _ ht.inside_p hin, le_trans hph hh, ?_⟩, ?_⟩
      · intro _ x hx hcx
        simp only at hcx
        rw [s5, s6] at hcx
        exact hal hf x hx hcx
      · intro _ z hz hcz
        simp only at hcz
        rw [hpw] at hcz
        rcases hz with hz | rfl
        · rw [s1, s2] at hcz
          exact hty hf z hz (CutsX_shrink ρ _ _ _ _ _ z (le_refl _) (le_of_lt s10) hcz)
        · obtain ⟨_, b, _⟩ := hcz; rw [s2] at b; exact lt_irrefl _ b
    · refine ⟨hgood _ (by simp), ⟨c0, hc0, isInside_trans _ _ _ ht.inside_q hin, le_trans hqh hh, ?_⟩, ?_⟩
      · intro _ x hx hcx
        simp only at hcx
        rw [s7, s8] at hcx
        exact hal hf x hx hcx
      · intro _ z hz hcz
        simp only at hcz
        rw [hqw] at hcz
        rcases hz with hz | rfl
        · rw [s3, s4] at hcz
          exact hty hf z hz (CutsX_shrink ρ _ _ _ _ _ z (le_of_lt s9) (le_refl _) hcz)
        · obtain ⟨a, _, _⟩ := hcz; rw [s3] at a; exact lt_irrefl _ a
  · rw [he] at hc; injection hc with hc; subst hc
    intro d hd
    simp only [List.mem_cons, List.not_mem_nil, or_false] at hd
    subst hd
    refine ⟨hg, ⟨c0, hc0, hin, hh, hal⟩, ?_⟩
    intro hf z hz hcz
    rcases hz with hz | rfl
    · exact hty hf z hz hcz
    · rcases hnc with h | h
      · rw [hf] at h; cases h
      · rw [← yCuttable_iff_CutsX] at hcz
        rw [h] at hcz; cases hcz

/-- a per-cell invariant indexed by the set of processed lines is carried through a whole loop of sweeps. -/
theorem cutsLoop_inv (cut : α → Cell α → Except AErr (List (Cell α))) (Inv : (α → Prop) → Cell α → Prop)
    (hstep : ∀ (T : α → Prop) (x : α) (c : Cell α) (ch : List (Cell α)), Inv T c → cut x c = .ok ch →
      ∀ d ∈ ch, Inv (fun z => T z ∨ z = x) d)
    (hmono : ∀ (T T' : α → Prop) (c : Cell α), (∀ z, T' z → T z) → Inv T c → Inv T' c)
    (cuts : List α) : ∀ (idxs : List Nat) (T : α → Prop) (q q' : List (Cell α)),
      cutsLoop cut cuts idxs q = .ok q' → (∀ c ∈ q, Inv T c) →
      ∀ d ∈ q', Inv (fun z => T z ∨ ∃ i ∈ idxs, cuts[i]? = some z) d := by
  intro idxs
  induction idxs with
  | nil =>
    intro T q q' h hq d hd
    simp only [cutsLoop] at h; injection h with h; subst h
    refine hmono _ _ d ?_ (hq d hd)
    intro z hz
    rcases hz with hz | ⟨i, hi, _⟩
    · exact hz
    · cases hi
  | cons i is ih =>
    intro T q q' h hq d hd
    unfold cutsLoop at h
    cases hx : cuts[i]? with
    | none => rw [hx] at h; cases h
    | some x =>
      rw [hx] at h; simp only at h
      cases hp : pass (cut x) q with
      | error e => rw [hp] at h; cases h
      | ok q1 =>
        rw [hp] at h; simp only at h
        have hq1 : ∀ c ∈ q1, Inv (fun z => T z ∨ z = x) c := by
          unfold pass at hp
          cases hm : mapE (cut x) q with
          | error e => rw [hm] at hp; cases hp
          | ok parts =>
            rw [hm] at hp; injection hp with hp; subst hp
            rw [mapE_ok_iff] at hm
            intro c hc
            obtain ⟨p, hp1, hp2⟩ := List.mem_flatten.mp hc
            obtain ⟨c1, hc1, hcut⟩ := forall2_mem_right hm p hp1
            exact hstep T x c1 p (hq c1 hc1) hcut c hp2
        have := ih _ q1 q' h hq1 d hd
        refine hmono _ _ d ?_ this
        intro z hz
        rcases hz with hz | ⟨j, hj, hjz⟩
        · exact Or.inl (Or.inl hz)
        · rcases List.mem_cons.mp hj with rfl | hj
          · left; right; rw [hx] at hjz; injection hjz with hjz; exact hjz.symm
          · exact Or.inr ⟨j, hj, hjz⟩

theorem XInv_mono (orig : List (Cell α)) (ρ : α) (T T' : α → Prop) (c : Cell α) (h : ∀ z, T' z → T z)
    (hi : XInv orig ρ T c) : XInv orig ρ T' c := by
  obtain ⟨hg, c0, hc0, hin, hh, hal⟩ := hi
  exact ⟨hg, c0, hc0, hin, hh, fun hf x hx => hal hf x (h x hx)⟩

theorem YInv_mono (orig : List (Cell α)) (ρ : α) (S T T' : α → Prop) (c : Cell α) (h : ∀ z, T' z → T z)
    (hi : YInv orig ρ S T c) : YInv orig ρ S T' c := by
  obtain ⟨hg, hx, hy⟩ := hi
  exact ⟨hg, hx, fun hf y hy' => hy hf y (h y hy')⟩

/-- state of the deque after both loops of `griddify`. -/
theorem griddifyCells_aligned (ρ : α) (xs ys : List α) (cells q : List (Cell α)) (hg : ∀ c ∈ cells, CellGood c)
    (h : griddifyCells ρ xs ys cells = .ok q) :
    ∀ d ∈ q, YInv cells ρ (InteriorCut xs) (InteriorCut ys) d := by
  unfold griddifyCells at h
  cases h1 : cutsLoop (cutX ρ) xs (List.range' 1 (xs.length - 2)) cells with
  | error e => rw [h1] at h; cases h
  | ok q1 =>
    rw [h1] at h; simp only at h
    have i0 : ∀ c ∈ cells, XInv cells ρ (fun _ => False) c := by
      intro c hc
      exact ⟨hg c hc, c, hc, isInside_refl _, rfl, fun _ x hx => by cases hx⟩
    have i1 := cutsLoop_inv (cutX ρ) (XInv cells ρ) (fun T x c ch => cutX_inv cells ρ x T c ch)
      (XInv_mono cells ρ) xs _ _ cells q1 h1 i0
    have i2 : ∀ c ∈ q1, YInv cells ρ (InteriorCut xs) (fun _ => False) c := by
      intro c hc
      obtain ⟨hgc, c0, hc0, hin, hh, hal⟩ := i1 c hc
      refine ⟨hgc, ⟨c0, hc0, hin, le_of_eq hh, ?_⟩, fun _ y hy => by cases hy⟩
      intro hf x hx
      exact hal hf x (Or.inr hx)
    have i3 := cutsLoop_inv (cutY ρ) (YInv cells ρ (InteriorCut xs))
      (fun T y c ch => cutY_inv cells ρ y (InteriorCut xs) T c ch)
      (YInv_mono cells ρ (InteriorCut xs)) ys _ _ q1 q h i2
    intro d hd
    refine YInv_mono cells ρ _ _ _ d ?_ (i3 d hd)
    intro z hz
    exact Or.inr hz

/-! ### `gather_boundaries`: sorting and removal of duplicates -/

theorem mem_insertSorted (x v : α) (l : List α) : v ∈ insertSorted x l ↔ v = x ∨ v ∈ l := by
  induction l with
  | nil => simp [insertSorted]
  | cons y ys ih =>
    unfold insertSorted
    split
    · simp only [List.mem_cons, ih]; tauto
    · simp only [List.mem_cons]

theorem sorted_insertSorted (x : α) (l : List α) (h : l.Pairwise (· ≤ ·)) : (insertSorted x l).Pairwise (· ≤ ·) := by
  induction l with
  | nil => simp [insertSorted]
  | cons y ys ih =>
    rw [List.pairwise_cons] at h
    unfold insertSorted
    split
    · rename_i hlt
      rw [List.pairwise_cons]
      refine ⟨?_, ih h.2⟩
      intro v hv
      rcases (mem_insertSorted x v ys).mp hv with rfl | hv
      · exact le_of_lt hlt
      · exact h.1 v hv
    · rename_i hnlt
      have hxy : x ≤ y := not_lt.mp hnlt
      rw [List.pairwise_cons]
      refine ⟨?_, List.pairwise_cons.mpr h⟩
      intro v hv
      rcases List.mem_cons.mp hv with rfl | hv
      · exact hxy
      · exact le_trans hxy (h.1 v hv)

theorem mem_sortAsc (v : α) (l : List α) : v ∈ sortAsc l ↔ v ∈ l := by
  unfold sortAsc
  induction l with
  | nil => simp
  | cons y ys ih => simp only [List.foldr_cons, mem_insertSorted, ih, List.mem_cons]

theorem sorted_sortAsc (l : List α) : (sortAsc l).Pairwise (· ≤ ·) := by
  unfold sortAsc
  induction l with
  | nil => simp
  | cons y ys ih => simp only [List.foldr_cons]; exact sorted_insertSorted y _ ih

/-- any two of the values are equal or more than `ε` apart (what the tolerance is meant for: merging
    float-noise duplicates of one and the same line). -/
def Separated (ε : α) (l : List α) : Prop := ∀ u ∈ l, ∀ v ∈ l, u < v → u + ε < v

theorem uniqEpsRev_spec (ε : α) (hε : 0 ≤ ε) : ∀ (l acc : List α), l.Pairwise (· ≤ ·) →
    (∀ a ∈ acc, ∀ v ∈ l, a ≤ v) → Separated ε (acc ++ l) → acc.Pairwise (· > ·) →
    (uniqEpsRev ε l acc).Pairwise (· > ·) ∧ ∀ v, v ∈ uniqEpsRev ε l acc ↔ v ∈ acc ∨ v ∈ l := by
  intro l
  induction l with
  | nil => intro acc _ _ _ hp; simp [uniqEpsRev, hp]
  | cons v vs ih =>
    intro acc hs hle hsep hp
    rw [List.pairwise_cons] at hs
    cases acc with
    | nil =>
      simp only [uniqEpsRev]
      have := ih [v] hs.2 (by intro a ha w hw; simp at ha; subst ha; exact hs.1 w hw)
        (by simpa using hsep) (by simp)
      refine ⟨this.1, ?_⟩
      intro w; rw [this.2]; simp
    | cons last rest =>
      simp only [uniqEpsRev]
      split
      · rename_i hlt
        have hlast : last < v := lt_of_le_of_lt (le_add_of_nonneg_right hε) hlt
        have := ih (v :: last :: rest) hs.2
          (by
            intro a ha w hw
            rcases List.mem_cons.mp ha with rfl | ha
            · exact hs.1 w hw
            · exact hle a ha w (by simp [hw]))
          (by
            intro u hu w hw
            apply hsep u _ w _
            · simp only [List.mem_append, List.mem_cons] at hu ⊢; tauto
            · simp only [List.mem_append, List.mem_cons] at hw ⊢; tauto)
          (by
            rw [List.pairwise_cons]
            refine ⟨?_, hp⟩
            intro a ha
            rw [List.pairwise_cons] at hp
            rcases List.mem_cons.mp ha with rfl | ha
            · exact hlast
            · exact lt_trans (hp.1 a ha) hlast)
        refine ⟨this.1, ?_⟩
        intro w; rw [this.2]
        simp only [List.mem_cons]; tauto
      · rename_i hnlt
        have hle' : last ≤ v := hle last (by simp) v (by simp)
        have heq : last = v := by
          rcases lt_or_eq_of_le hle' with h | h
          · exact absurd (hsep last (by simp) v (by simp) h) hnlt
          · exact h
        have := ih (last :: rest) hs.2
          (by intro a ha w hw; exact hle a ha w (by simp [hw]))
          (by
            intro u hu w hw
            apply hsep u _ w _
            · simp only [List.mem_append, List.mem_cons] at hu ⊢; tauto
            · simp only [List.mem_append, List.mem_cons] at hw ⊢; tauto)
          hp
        refine ⟨this.1, ?_⟩
        intro w; rw [this.2]
        simp only [List.mem_cons]
        constructor
        · rintro (h | h)
          · exact Or.inl h
          · exact Or.inr (Or.inr h)
        · rintro (h | h | h)
          · exact Or.inl h
          · subst h; exact Or.inl (Or.inl heq.symm)
          · exact Or.inr h

/-- on separated values the boundary list is strictly increasing and contains every value. -/
theorem uniqEps_sortAsc_spec (ε : α) (hε : 0 ≤ ε) (l : List α) (hsep : Separated ε l) :
    (uniqEps ε (sortAsc l)).Pairwise (· < ·) ∧ ∀ v, v ∈ uniqEps ε (sortAsc l) ↔ v ∈ l := by
  have h := uniqEpsRev_spec ε hε (sortAsc l) [] (sorted_sortAsc l) (by intro a ha; cases ha)
    (by
      intro u hu v hv
      simp only [List.nil_append, mem_sortAsc] at hu hv
      exact hsep u hu v hv) (by simp)
  unfold uniqEps
  refine ⟨?_, ?_⟩
  · rw [List.pairwise_reverse]; exact h.1
  · intro v; rw [List.mem_reverse, h.2]; simp [mem_sortAsc]

/-- in a strictly increasing list, a value strictly between two other members sits at an interior index. -/
theorem interiorCut_of_between (R : List α) (hR : R.Pairwise (· < ·)) (lo z hi : α) (h1 : lo ∈ R) (h2 : z ∈ R)
    (h3 : hi ∈ R) (hlo : lo < z) (hhi : z < hi) : InteriorCut R z := by
  obtain ⟨j, hj, rfl⟩ := List.mem_iff_getElem.mp h1
  obtain ⟨i, hi', rfl⟩ := List.mem_iff_getElem.mp h2
  obtain ⟨k, hk, rfl⟩ := List.mem_iff_getElem.mp h3
  rw [List.pairwise_iff_getElem] at hR
  have hji : j < i := by
    by_contra hc
    rcases Nat.lt_or_ge i j with h | h
    · exact absurd (hR i j hi' hj h) (not_lt.mpr (le_of_lt hlo))
    · have : i = j := by omega
      subst this; exact lt_irrefl _ hlo
  have hik : i < k := by
    by_contra hc
    rcases Nat.lt_or_ge k i with h | h
    · exact absurd (hR k i hk hi' h) (not_lt.mpr (le_of_lt hhi))
    · have : i = k := by omega
      subst this; exact lt_irrefl _ hhi
  refine ⟨i, ?_, List.getElem?_eq_getElem hi'⟩
  rw [List.mem_range'_1]
  omega

/-! ### every side of a result cell of `griddify` is a side line of an original cell -/

/-- the x (resp. y) coordinates of the sides of the rectangles, as `gather_boundaries` collects them. -/
def sidesX (rs : List (Rect α)) : List α := rs.flatMap fun r => [r.xmin, r.xmax]
def sidesY (rs : List (Rect α)) : List α := rs.flatMap fun r => [r.ymin, r.ymax]

def SidesIn (bx bys : List α) (c : Cell α) : Prop :=
  CellGood c ∧ c.rect.xmin ∈ bx ∧ c.rect.xmax ∈ bx ∧ c.rect.ymin ∈ bys ∧ c.rect.ymax ∈ bys

theorem cutX_sides (bx bys : List α) (ρ x : α) (hx : x ∈ bx) (c : Cell α) (ch : List (Cell α))
    (hi : SidesIn bx bys c) (hc : cutX ρ x c = .ok ch) : ∀ d ∈ ch, SidesIn bx bys d := by
  obtain ⟨hg, b1, b2, b3, b4⟩ := hi
  rcases cutX_cases ρ x c hg with ⟨hf, hcut, p, q, hpq, hx0, he⟩ | ⟨hnc, he⟩
  · rw [he] at hc; injection hc with hc; subst hc
    obtain ⟨s1, s2, s3, s4, s5, s6, s7, s8, s9, s10⟩ := splitH_sides c.rect p q x hx0 hpq
    have ht := (splitH_tiles c.rect p q x hx0 hpq).1
    have hgood := hg.of_tiles (TilesCell.of_pair c.rect p q c.alloc c.depth (c.depth + 1) (c.depth + 1) ht
      (pieces_of_sidesH c.rect p q x hg.2.1 ⟨s1, s2, s3, s4, s5, s6, s7, s8, s9, s10⟩) hf)
    intro d hd
    simp only [List.mem_cons, List.not_mem_nil, or_false] at hd
    rcases hd with rfl | rfl
    · exact ⟨hgood _ (by simp), by simp only; rw [s1]; exact b1, by simp only; rw [s2]; exact hx,
        by simp only; rw [s5]; exact b3, by simp only; rw [s6]; exact b4⟩
    · exact ⟨hgood _ (by simp), by simp only; rw [s3]; exact hx, by simp only; rw [s4]; exact b2,
        by simp only; rw [s7]; exact b3, by simp only; rw [s8]; exact b4⟩
  · rw [he] at hc; injection hc with hc; subst hc
    intro d hd
    simp only [List.mem_cons, List.not_mem_nil, or_false] at hd
    subst hd
    exact ⟨hg, b1, b2, b3, b4⟩

theorem cutY_sides (bx bys : List α) (ρ y : α) (hy : y ∈ bys) (c : Cell α) (ch : List (Cell α))
    (hi : SidesIn bx bys c) (hc : cutY ρ y c = .ok ch) : ∀ d ∈ ch, SidesIn bx bys d := by
  obtain ⟨hg, b1, b2, b3, b4⟩ := hi
  rcases cutY_cases ρ y c hg with ⟨hf, hcut, p, q, hpq, hy0, he⟩ | ⟨hnc, he⟩
  · rw [he] at hc; injection hc with hc; subst hc
    obtain ⟨s1, s2, s3, s4, s5, s6, s7, s8, s9, s10⟩ := splitV_sides c.rect p q y hy0 hpq
    have ht := (splitV_tiles c.rect p q y hy0 hpq).1
    have hgood := hg.of_tiles (TilesCell.of_pair c.rect p q c.alloc c.depth (c.depth + 1) (c.depth + 1) ht
      (pieces_of_sidesV c.rect p q y hg.1 ⟨s1, s2, s3, s4, s5, s6, s7, s8, s9, s10⟩) hf)
    intro d hd
    simp only [List.mem_cons, List.not_mem_nil, or_false] at hd
    rcases hd with rfl | rfl
    · exact ⟨hgood _ (by simp), by simp only; rw [s5]; exact b1, by simp only; rw [s6]; exact b2,
        by simp only; rw [s1]; exact b3, by simp only; rw [s2]; exact hy⟩
    · exact ⟨hgood _ (by simp), by simp only; rw [s7]; exact b1, by simp only; rw [s8]; exact b2,
        by simp only; rw [s3]; exact hy, by simp only; rw [s4]; exact b4⟩
  · rw [he] at hc; injection hc with hc; subst hc
    intro d hd
    simp only [List.mem_cons, List.not_mem_nil, or_false] at hd
    subst hd
    exact ⟨hg, b1, b2, b3, b4⟩

theorem griddifyCells_sides (ρ : α) (bx bys xs ys : List α) (cells q : List (Cell α))
    (hxs : ∀ x ∈ xs, x ∈ bx) (hys : ∀ y ∈ ys, y ∈ bys) (h0 : ∀ c ∈ cells, SidesIn bx bys c)
    (h : griddifyCells ρ xs ys cells = .ok q) : ∀ d ∈ q, SidesIn bx bys d := by
  unfold griddifyCells at h
  cases h1 : cutsLoop (cutX ρ) xs (List.range' 1 (xs.length - 2)) cells with
  | error e => rw [h1] at h; cases h
  | ok q1 =>
    rw [h1] at h; simp only at h
    have i1 := cutsLoop_forall (cutX ρ) (SidesIn bx bys) xs
      (fun x hx c ch hc hcut => cutX_sides bx bys ρ x (hxs x hx) c ch hc hcut) _ cells q1 h1 h0
    exact cutsLoop_forall (cutY ρ) (SidesIn bx bys) ys
      (fun y hy c ch hc hcut => cutY_sides bx bys ρ y (hys y hy) c ch hc hcut) _ q1 q h i1

theorem mem_sidesX (rs : List (Rect α)) (r : Rect α) (h : r ∈ rs) : r.xmin ∈ sidesX rs ∧ r.xmax ∈ sidesX rs := by
  unfold sidesX
  constructor <;> exact List.mem_flatMap.mpr ⟨r, h, by simp⟩

theorem mem_sidesY (rs : List (Rect α)) (r : Rect α) (h : r ∈ rs) : r.ymin ∈ sidesY rs ∧ r.ymax ∈ sidesY rs := by
  unfold sidesY
  constructor <;> exact List.mem_flatMap.mpr ⟨r, h, by simp⟩

theorem gatherBoundaries_eq (st : Eps α) (rs : List (Rect α)) (xs ys : List α)
    (h : gatherBoundaries st rs = .ok (xs, ys)) :
    xs = uniqEps st.dist (sortAsc (sidesX rs)) ∧ ys = uniqEps st.dist (sortAsc (sidesY rs)) := by
  unfold gatherBoundaries at h
  split at h
  · cases h
  · injection h with h; injection h with h1 h2
    exact ⟨h1.symm, h2.symm⟩

theorem mem_uniqEpsRev_sub (ε : α) : ∀ (l acc : List α) (v : α), v ∈ uniqEpsRev ε l acc → v ∈ acc ∨ v ∈ l := by
  intro l
  induction l with
  | nil => intro acc v h; simp [uniqEpsRev] at h; exact Or.inl h
  | cons w ws ih =>
    intro acc v h
    cases acc with
    | nil =>
      simp only [uniqEpsRev] at h
      rcases ih _ v h with h | h
      · simp at h; subst h; exact Or.inr (by simp)
      · exact Or.inr (by simp [h])
    | cons last rest =>
      simp only [uniqEpsRev] at h
      split at h
      · rcases ih _ v h with h | h
        · rcases List.mem_cons.mp h with rfl | h
          · exact Or.inr (by simp)
          · exact Or.inl h
        · exact Or.inr (by simp [h])
      · rcases ih _ v h with h | h
        · exact Or.inl h
        · exact Or.inr (by simp [h])

theorem mem_uniqEps_sortAsc_sub (ε : α) (l : List α) (v : α) (h : v ∈ uniqEps ε (sortAsc l)) : v ∈ l := by
  unfold uniqEps at h
  rw [List.mem_reverse] at h
  rcases mem_uniqEpsRev_sub ε _ _ v h with h | h
  · cases h
  · exact (mem_sortAsc v l).mp h

theorem griddifyRounds_sides (ρ : α) (bx bys xs ys : List α) (hxs : ∀ x ∈ xs, x ∈ bx) (hys : ∀ y ∈ ys, y ∈ bys) :
    ∀ (fuel : Nat) (cells q : List (Cell α)), (∀ c ∈ cells, SidesIn bx bys c) →
      griddifyRounds ρ xs ys fuel cells = .ok q → ∀ d ∈ q, SidesIn bx bys d := by
  intro fuel
  induction fuel with
  | zero => intro cells q _ h; simp [griddifyRounds] at h
  | succ f ih =>
    intro cells q h0 h
    unfold griddifyRounds at h
    cases hc : griddifyCells ρ xs ys cells with
    | error e => rw [hc] at h; cases h
    | ok q1 =>
      rw [hc] at h; simp only at h
      have s1 := griddifyCells_sides ρ bx bys xs ys cells q1 hxs hys h0 hc
      by_cases hlen : q1.length = cells.length
      · rw [if_pos hlen] at h; injection h with h; subst h; exact s1
      · rw [if_neg hlen] at h; exact ih q1 q s1 h

/-- the result of `griddify`, with everything known about it (used by the C12 theorems): the cut lines, full alignment of
    every refinable cell at every interior cut line in both directions, and every side of a result cell is a side line of
    an original cell. -/
theorem griddify_result (env : Env α) (st : Eps α) (a : Allocation α) (hv : ValidAlloc st a) :
    ∃ a' xs ys, griddify env st a = .ok (a', st) ∧
      xs = uniqEps st.dist (sortAsc (sidesX (a.cells.map (·.rect)))) ∧
      ys = uniqEps st.dist (sortAsc (sidesY (a.cells.map (·.rect)))) ∧
      (∀ d ∈ a'.cells, d.rect.fixed = false →
        (∀ x, InteriorCut xs x → d.rect.xCuttable x env.rho = false) ∧
        (∀ y, InteriorCut ys y → d.rect.yCuttable y env.rho = false)) ∧
      (∀ d ∈ a'.cells, SidesIn (sidesX (a.cells.map (·.rect))) (sidesY (a.cells.map (·.rect))) d) := by
  obtain ⟨a', h1, _, _, _, xs, ys, hb, hgr, hfix⟩ := griddify_spec env st a hv
  obtain ⟨ex, ey⟩ := gatherBoundaries_eq st _ xs ys hb
  refine ⟨a', xs, ys, h1, ex, ey, ((griddifyCells_noop env.rho xs ys a'.cells a'.cells hfix).2 (le_refl _)).2, ?_⟩
  apply griddifyRounds_sides env.rho _ _ xs ys _ _ _ a.cells a'.cells _ hgr
  · intro x hx; rw [ex] at hx; exact mem_uniqEps_sortAsc_sub _ _ x hx
  · intro y hy; rw [ey] at hy; exact mem_uniqEps_sortAsc_sub _ _ y hy
  · intro c hc
    have hm : c.rect ∈ a.cells.map (·.rect) := List.mem_map.mpr ⟨c, hc, rfl⟩
    exact ⟨hv.cells.good c hc, (mem_sidesX _ _ hm).1, (mem_sidesX _ _ hm).2, (mem_sidesY _ _ hm).1, (mem_sidesY _ _ hm).2⟩

/-- the same for one round (`griddifyOnce`, the code before `fixes/C12_griddify_x_before_y.diff`): the per-cell invariant
    `YInv` (x statement relative to the PARENT's height, y statement in full). -/
theorem griddifyOnce_result (env : Env α) (st : Eps α) (a : Allocation α) (hv : ValidAlloc st a) :
    ∃ a' xs ys, griddifyOnce env st a = .ok (a', st) ∧
      xs = uniqEps st.dist (sortAsc (sidesX (a.cells.map (·.rect)))) ∧
      ys = uniqEps st.dist (sortAsc (sidesY (a.cells.map (·.rect)))) ∧
      (∀ d ∈ a'.cells, YInv a.cells env.rho (InteriorCut xs) (InteriorCut ys) d) ∧
      (∀ d ∈ a'.cells, SidesIn (sidesX (a.cells.map (·.rect))) (sidesY (a.cells.map (·.rect))) d) := by
  obtain ⟨a', h1, _, _, _, xs, ys, hb, hgc⟩ := griddifyOnce_spec env st a hv
  obtain ⟨ex, ey⟩ := gatherBoundaries_eq st _ xs ys hb
  refine ⟨a', xs, ys, h1, ex, ey, griddifyCells_aligned env.rho xs ys a.cells a'.cells hv.cells.good hgc, ?_⟩
  apply griddifyCells_sides env.rho _ _ xs ys a.cells a'.cells _ _ _ hgc
  · intro x hx; rw [ex] at hx; exact mem_uniqEps_sortAsc_sub _ _ x hx
  · intro y hy; rw [ey] at hy; exact mem_uniqEps_sortAsc_sub _ _ y hy
  · intro c hc
    have hm : c.rect ∈ a.cells.map (·.rect) := List.mem_map.mpr ⟨c, hc, rfl⟩
    exact ⟨hv.cells.good c hc, (mem_sidesX _ _ hm).1, (mem_sidesX _ _ hm).2, (mem_sidesY _ _ hm).1, (mem_sidesY _ _ hm).2⟩

/-! ### `griddify` leaves nothing to cut at any side line, and is idempotent -/

/-- after `griddify`, no refinable cell is x- (y-) cuttable at ANY side coordinate of the original cells (layouts whose
    side coordinates are `Separated`, so that every side line is a cut line). -/
theorem griddify_no_cut_at_sides (env : Env α) (st : Eps α) (a : Allocation α) (hv : ValidAlloc st a)
    (hsx : Separated st.dist (sidesX (a.cells.map (·.rect)))) (hsy : Separated st.dist (sidesY (a.cells.map (·.rect)))) :
    ∃ a', griddify env st a = .ok (a', st) ∧
      (∀ d ∈ a'.cells, SidesIn (sidesX (a.cells.map (·.rect))) (sidesY (a.cells.map (·.rect))) d) ∧
      ∀ d ∈ a'.cells, d.rect.fixed = false →
        (∀ z ∈ sidesX (a.cells.map (·.rect)), d.rect.xCuttable z env.rho = false) ∧
        (∀ z ∈ sidesY (a.cells.map (·.rect)), d.rect.yCuttable z env.rho = false) := by
  obtain ⟨a', xs, ys, h1, ex, ey, hal, hsides⟩ := griddify_result env st a hv
  obtain ⟨hincx, hmemx⟩ := uniqEps_sortAsc_spec st.dist hv.epsDef _ hsx
  obtain ⟨hincy, hmemy⟩ := uniqEps_sortAsc_spec st.dist hv.epsDef _ hsy
  rw [← ex] at hincx hmemx
  rw [← ey] at hincy hmemy
  refine ⟨a', h1, hsides, ?_⟩
  intro d hd hf
  obtain ⟨_, d1, d2, d3, d4⟩ := hsides d hd
  obtain ⟨hx, hy⟩ := hal d hd hf
  constructor
  · intro z hz
    by_contra hc
    have hc' : d.rect.xCuttable z env.rho = true := by simpa using hc
    have hin := xCuttable_imp_strict_inside d.rect z env.rho hc'
    have hcut := interiorCut_of_between xs hincx d.rect.xmin z d.rect.xmax ((hmemx _).mpr d1) ((hmemx _).mpr hz)
      ((hmemx _).mpr d2) hin.1 hin.2
    rw [hx z hcut] at hc'; cases hc'
  · intro z hz
    by_contra hc
    have hc' : d.rect.yCuttable z env.rho = true := by simpa using hc
    have hin := yCuttable_imp_strict_inside d.rect z env.rho hc'
    have hcut := interiorCut_of_between ys hincy d.rect.ymin z d.rect.ymax ((hmemy _).mpr d3) ((hmemy _).mpr hz)
      ((hmemy _).mpr d4) hin.1 hin.2
    rw [hy z hcut] at hc'; cases hc'

theorem pass_id (cut : Cell α → Except AErr (List (Cell α))) (q : List (Cell α)) (h : ∀ c ∈ q, cut c = .ok [c]) :
    pass cut q = .ok q := by
  unfold pass
  rw [mapE_eq_map cut (fun c => [c]) q h]
  simp only [Except.ok.injEq]
  induction q with
  | nil => rfl
  | cons c q ih => simp only [List.map_cons, List.flatten_cons, List.singleton_append, List.cons.injEq, true_and]; exact ih (fun d hd => h d (by simp [hd]))

theorem cutsLoop_id (cut : α → Cell α → Except AErr (List (Cell α))) (cuts : List α) (q : List (Cell α)) :
    ∀ (idxs : List Nat), (∀ i ∈ idxs, i < cuts.length) →
      (∀ i ∈ idxs, ∀ x, cuts[i]? = some x → ∀ c ∈ q, cut x c = .ok [c]) → cutsLoop cut cuts idxs q = .ok q := by
  intro idxs
  induction idxs with
  | nil => intro _ _; rfl
  | cons i is ih =>
    intro hlt h
    have hi := hlt i (by simp)
    have hx : cuts[i]? = some cuts[i] := List.getElem?_eq_getElem hi
    unfold cutsLoop
    rw [hx]
    simp only
    rw [pass_id (cut cuts[i]) q (h i (by simp) _ hx)]
    exact ih (fun j hj => hlt j (by simp [hj])) (fun j hj => h j (by simp [hj]))

theorem cutX_refused (ρ x : α) (c : Cell α) (h : c.rect.fixed = true ∨ c.rect.xCuttable x ρ = false) :
    cutX ρ x c = .ok [c] := by
  unfold cutX
  have : (!c.rect.fixed && c.rect.xCuttable x ρ) = false := by rcases h with h | h <;> simp [h]
  simp [this]

theorem cutY_refused (ρ y : α) (c : Cell α) (h : c.rect.fixed = true ∨ c.rect.yCuttable y ρ = false) :
    cutY ρ y c = .ok [c] := by
  unfold cutY
  have : (!c.rect.fixed && c.rect.yCuttable y ρ) = false := by rcases h with h | h <;> simp [h]
  simp [this]

/-- a round in which every cell refuses every interior cut line returns its input. -/
theorem griddifyCells_id (ρ : α) (xs ys : List α) (q : List (Cell α))
    (hx : ∀ c ∈ q, ∀ x, InteriorCut xs x → c.rect.fixed = true ∨ c.rect.xCuttable x ρ = false)
    (hy : ∀ c ∈ q, ∀ y, InteriorCut ys y → c.rect.fixed = true ∨ c.rect.yCuttable y ρ = false) :
    griddifyCells ρ xs ys q = .ok q := by
  unfold griddifyCells
  rw [cutsLoop_id (cutX ρ) xs q _ (fun i hi => range'_lt _ i hi)
    (fun i hi x hxi c hc => cutX_refused ρ x c (hx c hc x ⟨i, hi, hxi⟩))]
  simp only
  exact cutsLoop_id (cutY ρ) ys q _ (fun i hi => range'_lt _ i hi)
    (fun i hi y hyi c hc => cutY_refused ρ y c (hy c hc y ⟨i, hi, hyi⟩))

/-- **`griddify` is idempotent**: gridding the result again (with the cut lines gathered anew from the result) returns
    the very same allocation. -/
theorem griddify_idem (env : Env α) (st : Eps α) (a : Allocation α) (hv : ValidAlloc st a)
    (hsx : Separated st.dist (sidesX (a.cells.map (·.rect)))) (hsy : Separated st.dist (sidesY (a.cells.map (·.rect)))) :
    ∃ a', griddify env st a = .ok (a', st) ∧ griddify env st a' = .ok (a', st) := by
  obtain ⟨a', h1, hsides, hno⟩ := griddify_no_cut_at_sides env st a hv hsx hsy
  obtain ⟨a1, g1, hv', _, _, xs, ys, hb, hgr, _⟩ := griddify_spec env st a hv
  rw [h1] at g1; injection g1 with g1; injection g1 with g1; subst g1
  have hmk : mkAllocation env st (a'.cells.map Cell.toRaw) = .ok (a', st) := by
    have := h1
    simp only [griddify, hb, hgr] at this
    exact this
  refine ⟨a', h1, ?_⟩
  have hdef : st.defined = true := by simp [Eps.defined, hv.epsDef]
  have hgb : ∃ xs' ys', gatherBoundaries st (a'.cells.map (·.rect)) = .ok (xs', ys') := by
    simp only [gatherBoundaries, hdef, Bool.not_true, Bool.false_eq_true, ↓reduceIte]
    exact ⟨_, _, rfl⟩
  obtain ⟨xs', ys', hb'⟩ := hgb
  obtain ⟨ex', ey'⟩ := gatherBoundaries_eq st _ xs' ys' hb'
  have hxs : ∀ x, InteriorCut xs' x → x ∈ sidesX (a.cells.map (·.rect)) := by
    intro x ⟨i, _, hi⟩
    have hm : x ∈ xs' := List.mem_of_getElem? hi
    rw [ex'] at hm
    have := mem_uniqEps_sortAsc_sub _ _ x hm
    unfold sidesX at this
    obtain ⟨r, hr, hxr⟩ := List.mem_flatMap.mp this
    obtain ⟨d, hd, rfl⟩ := List.mem_map.mp hr
    obtain ⟨_, b1, b2, _, _⟩ := hsides d hd
    simp only [List.mem_cons, List.not_mem_nil, or_false] at hxr
    rcases hxr with rfl | rfl
    · exact b1
    · exact b2
  have hys : ∀ y, InteriorCut ys' y → y ∈ sidesY (a.cells.map (·.rect)) := by
    intro y ⟨i, _, hi⟩
    have hm : y ∈ ys' := List.mem_of_getElem? hi
    rw [ey'] at hm
    have := mem_uniqEps_sortAsc_sub _ _ y hm
    unfold sidesY at this
    obtain ⟨r, hr, hyr⟩ := List.mem_flatMap.mp this
    obtain ⟨d, hd, rfl⟩ := List.mem_map.mp hr
    obtain ⟨_, _, _, b3, b4⟩ := hsides d hd
    simp only [List.mem_cons, List.not_mem_nil, or_false] at hyr
    rcases hyr with rfl | rfl
    · exact b3
    · exact b4
  have hid : griddifyCells env.rho xs' ys' a'.cells = .ok a'.cells := by
    apply griddifyCells_id
    · intro c hc x hx
      by_cases hf : c.rect.fixed = true
      · exact Or.inl hf
      · exact Or.inr ((hno c hc (by simpa using hf)).1 x (hxs x hx))
    · intro c hc y hy
      by_cases hf : c.rect.fixed = true
      · exact Or.inl hf
      · exact Or.inr ((hno c hc (by simpa using hf)).2 y (hys y hy))
  simp only [griddify, hb', gridFuel, griddifyRounds, hid, ↓reduceIte, hmk]

/-! ### flagging cells fixed in place (`a.allocations[i].rect.fixed = True`) keeps the allocation valid -/

/-- same geometry and ratios (flags, region, depth may differ). -/
def SameGeo (c c' : Cell α) : Prop :=
  c'.rect.cx = c.rect.cx ∧ c'.rect.cy = c.rect.cy ∧ c'.rect.w = c.rect.w ∧ c'.rect.h = c.rect.h ∧ c'.alloc = c.alloc

theorem SameGeo.sides {c c' : Cell α} (h : SameGeo c c') :
    c'.rect.xmin = c.rect.xmin ∧ c'.rect.xmax = c.rect.xmax ∧ c'.rect.ymin = c.rect.ymin ∧ c'.rect.ymax = c.rect.ymax ∧
    c'.rect.area = c.rect.area := by
  obtain ⟨a, b, c1, d, _⟩ := h
  simp only [xmin, xmax, ymin, ymax, Rect.area, a, b, c1, d, and_self]

theorem SameGeo.overlap {c c' d d' : Cell α} (h1 : SameGeo c c') (h2 : SameGeo d d') :
    c'.rect.areaOverlap d'.rect = c.rect.areaOverlap d.rect := by
  obtain ⟨a1, a2, a3, a4, _⟩ := h1.sides
  obtain ⟨b1, b2, b3, b4, _⟩ := h2.sides
  simp only [Rect.areaOverlap, a1, a2, a3, a4, b1, b2, b3, b4]

theorem modules_eq_foldl (cs : List (Cell α)) : modules cs = (cs.map (·.alloc)).foldl addKeys [] := by
  unfold modules
  rw [List.foldl_map]

theorem forall2_sameGeo_allocs {cs cs' : List (Cell α)} (h : List.Forall₂ SameGeo cs cs') :
    cs'.map (·.alloc) = cs.map (·.alloc) := by
  induction h with
  | nil => rfl
  | cons h1 _ ih => simp only [List.map_cons, ih, h1.2.2.2.2]

theorem forall2_sameGeo_sum {cs cs' : List (Cell α)} (h : List.Forall₂ SameGeo cs cs') (f : Cell α → α)
    (hf : ∀ c c', SameGeo c c' → f c' = f c) : (cs'.map f).sum = (cs.map f).sum := by
  induction h with
  | nil => rfl
  | cons h1 _ ih => simp only [List.map_cons, List.sum_cons, ih, hf _ _ h1]

theorem forall2_sameGeo_foldl {cs cs' : List (Cell α)} (h : List.Forall₂ SameGeo cs cs') (g : α → α → α) (f : Cell α → α)
    (hf : ∀ c c', SameGeo c c' → f c' = f c) (init : α) :
    cs'.foldl (fun m d => g m (f d)) init = cs.foldl (fun m d => g m (f d)) init := by
  induction h generalizing init with
  | nil => rfl
  | cons h1 _ ih => simp only [List.foldl_cons, hf _ _ h1, ih]

theorem boundingBox_sameGeo {cs cs' : List (Cell α)} (h : List.Forall₂ SameGeo cs cs') :
    boundingBox cs' = boundingBox cs := by
  cases h with
  | nil => rfl
  | cons h1 h2 =>
    obtain ⟨a1, a2, a3, a4, _⟩ := h1.sides
    unfold boundingBox
    simp only [a1, a2, a3, a4]
    rw [forall2_sameGeo_foldl h2 pyMin (fun d => d.rect.xmin) (fun _ _ hh => hh.sides.1),
      forall2_sameGeo_foldl h2 pyMax (fun d => d.rect.xmax) (fun _ _ hh => hh.sides.2.1),
      forall2_sameGeo_foldl h2 pyMin (fun d => d.rect.ymin) (fun _ _ hh => hh.sides.2.2.1),
      forall2_sameGeo_foldl h2 pyMax (fun d => d.rect.ymax) (fun _ _ hh => hh.sides.2.2.2.1)]

theorem occ_sameGeo {c c' : Cell α} (h : SameGeo c c') (m : String) : occ m c' = occ m c := by
  unfold occ; rw [h.2.2.2.2]

theorem areasCenters_sameGeo {cs cs' : List (Cell α)} (h : List.Forall₂ SameGeo cs cs') :
    areasCenters cs' = areasCenters cs := by
  have hm : modules cs' = modules cs := by rw [modules_eq_foldl, modules_eq_foldl, forall2_sameGeo_allocs h]
  unfold areasCenters
  rw [hm]
  apply mapE_congr
  intro m _
  unfold statOf
  rw [modStats_eq, modStats_eq]
  have e1 : areaSum m cs' = areaSum m cs :=
    forall2_sameGeo_sum h _ (fun c c' hh => by rw [occ_sameGeo hh, hh.sides.2.2.2.2])
  have e2 : momXSum m cs' = momXSum m cs :=
    forall2_sameGeo_sum h _ (fun c c' hh => by rw [occ_sameGeo hh, hh.sides.2.2.2.2, hh.1])
  have e3 : momYSum m cs' = momYSum m cs :=
    forall2_sameGeo_sum h _ (fun c c' hh => by rw [occ_sameGeo hh, hh.sides.2.2.2.2, hh.2.1])
  rw [e1, e2, e3]

theorem markFixed_sameGeo (a : Allocation α) (idxs : List Nat) :
    List.Forall₂ SameGeo a.cells (a.markFixed idxs).cells := by
  unfold Allocation.markFixed
  simp only
  generalize a.cells = cs
  suffices h : ∀ k, List.Forall₂ SameGeo cs ((cs.zipIdx k).map fun (x : Cell α × Nat) =>
      if idxs.contains x.2 then { x.1 with rect := { x.1.rect with fixed := true } } else x.1) from h 0
  induction cs with
  | nil => intro k; exact List.Forall₂.nil
  | cons c cs ih =>
    intro k
    rw [List.zipIdx_cons, List.map_cons]
    refine List.Forall₂.cons ?_ (ih (k + 1))
    by_cases hc : idxs.contains k = true
    · simp only [hc, ↓reduceIte]; exact ⟨rfl, rfl, rfl, rfl, rfl⟩
    · simp only [hc, Bool.false_eq_true, ↓reduceIte]; exact ⟨rfl, rfl, rfl, rfl, rfl⟩

/-- **flagging cells fixed in place keeps the allocation valid** (same state, same caches, same bounding box): the
    refinement theorems apply at every stage of a history that interleaves operations with `rect.fixed = True`. -/
theorem markFixed_valid (st : Eps α) (a : Allocation α) (idxs : List Nat) (hv : ValidAlloc st a) :
    ValidAlloc st (a.markFixed idxs) := by
  have hg := markFixed_sameGeo a idxs
  have hstats : (a.markFixed idxs).stats = a.stats := rfl
  have hbb : (a.markFixed idxs).bbox = a.bbox := rfl
  have hm : modules (a.markFixed idxs).cells = modules a.cells := by
    rw [modules_eq_foldl, modules_eq_foldl, forall2_sameGeo_allocs hg]
  refine ⟨hv.epsDef, hv.epsArea, ⟨?_, ?_, ?_, ?_, ?_⟩, ?_, ?_⟩
  · intro hnil
    rw [hnil] at hg
    exact hv.cells.nonempty (List.forall₂_nil_right_iff.mp hg)
  · intro c' hc'
    obtain ⟨c, hc, hh⟩ := forall2_mem_right hg c' hc'
    obtain ⟨s1, _, s3, _, _⟩ := hh.sides
    obtain ⟨g1, g2, g3, g4⟩ := hv.cells.good c hc
    exact ⟨by rw [hh.2.2.1]; exact g1, by rw [hh.2.2.2.1]; exact g2, by rw [s1]; exact g3, by rw [s3]; exact g4⟩
  · intro c' hc'
    obtain ⟨c, hc, hh⟩ := forall2_mem_right hg c' hc'
    rw [hh.2.2.2.2]; exact hv.cells.allocs c hc
  · exact pairwise_of_forall2 hv.cells.noOverlap hg (fun d e p q hde hdp heq => by rw [SameGeo.overlap hdp heq]; exact hde)
  · intro m hmm
    rw [hm] at hmm
    have e1 : areaSum m (a.markFixed idxs).cells = areaSum m a.cells :=
      forall2_sameGeo_sum hg _ (fun c c' hh => by rw [occ_sameGeo hh, hh.sides.2.2.2.2])
    rw [e1]; exact hv.cells.areaNZ m hmm
  · rw [areasCenters_sameGeo hg, hstats]; exact hv.stats
  · rw [boundingBox_sameGeo hg, hbb]; exact hv.bbox

/-- which cells are flagged afterwards: the listed indices and the cells that were flagged before; everything else of a
    cell (geometry, region, hard flag, ratios, depth) is untouched. -/
theorem markFixed_cells (a : Allocation α) (idxs : List Nat) (i : Nat) :
    (a.markFixed idxs).cells[i]? = a.cells[i]?.map fun c =>
      if idxs.contains i then { c with rect := { c.rect with fixed := true } } else c := by
  unfold Allocation.markFixed
  simp only [List.getElem?_map, List.getElem?_zipIdx, Option.map_map, Nat.zero_add]
  rfl

/-! ### Python's compensated `sum()` is the plain sum in exact arithmetic -/

theorem pySumLoop_eq (l : List α) (f c : α) : pySumLoop l f c = (f + l.sum, c) := by
  induction l generalizing f c with
  | nil => simp [pySumLoop]
  | cons x xs ih =>
    unfold pySumLoop
    simp only
    rw [ih]
    have e1 : c + ((f - (f + x)) + x) = c := by ring
    have e2 : c + ((x - (f + x)) + f) = c := by ring
    split
    · rw [e1, List.sum_cons]; congr 1; ring
    · rw [e2, List.sum_cons]; congr 1; ring

theorem pySum_eq_sum (l : List α) : pySum l = l.sum := by
  unfold pySum
  rw [pySumLoop_eq]
  have : isZero (zero : α) = true := by rw [isZero_iff]; simp
  simp [this]

/-! ### refinement keeps the split condition (children inherit ratios and the fixed flag) -/

theorem halvings_fixed (l : Nat) : ∀ (r : Rect α), ∀ p ∈ halvings r l, p.fixed = r.fixed := by
  induction l with
  | zero => intro r p hp; simp [halvings] at hp; subst hp; rfl
  | succ l ih =>
    intro r p hp
    simp only [halvings, List.mem_append] at hp
    have h1 : (halveLonger r).1.fixed = r.fixed := by unfold halveLonger; split <;> rfl
    have h2 : (halveLonger r).2.fixed = r.fixed := by unfold halveLonger; split <;> rfl
    rcases hp with hp | hp
    · rw [ih _ p hp, h1]
    · rw [ih _ p hp, h2]

theorem halvings_ne_nil (r : Rect α) (l : Nat) : halvings r l ≠ [] := by
  intro h
  have := halvings_length r l
  rw [h] at this
  simp at this
  exact absurd this.symm (by positivity)

/-- once some cell satisfies the split condition, so does a cell of the refined list (its children carry the same
    ratios and are not fixed): the predicate `must_be_refined` stays true after `refine`. -/
theorem any_splitCond_refined (t : α) (levels : Nat) (cells : List (Cell α))
    (h : cells.any (splitCond t) = true) : (cells.flatMap (refinedCell t levels)).any (splitCond t) = true := by
  rw [List.any_eq_true] at h ⊢
  obtain ⟨c, hc, hs⟩ := h
  obtain ⟨r, rs, hr⟩ := List.exists_cons_of_ne_nil (halvings_ne_nil c.rect levels)
  have hrm : r ∈ halvings c.rect levels := by rw [hr]; simp
  refine ⟨⟨r, c.alloc, c.depth + levels⟩, ?_, ?_⟩
  · rw [List.mem_flatMap]
    refine ⟨c, hc, ?_⟩
    unfold refinedCell
    simp only [hs, ↓reduceIte, List.mem_map]
    exact ⟨r, hrm, rfl⟩
  · have hf := halvings_fixed levels c.rect r hrm
    simp only [splitCond, Bool.and_eq_true, Bool.not_eq_true'] at hs ⊢
    exact ⟨⟨by rw [hf]; exact hs.1.1, hs.1.2⟩, hs.2⟩

/-! ### concrete allocations over `ℚ` (non-vacuity witnesses shared by the property files) -/

def isOk {ε β : Type} : Except ε β → Bool | .ok _ => true | .error _ => false

/-- an input the constructor accepts yields a valid allocation (packaging of `mkAllocation_valid`). -/
theorem valid_of_isOk (env : Env α) (st : Eps α) (raw : List (RawCell α)) (hraw : ∀ rc ∈ raw, RawPos rc)
    (hst : 0 ≤ st.dist → 0 ≤ st.area) (htiny : 0 ≤ env.tiny) (hsqrt : ∀ x, 0 ≤ env.sqrt x)
    (h : isOk (mkAllocation env st raw) = true) :
    ∃ a st', mkAllocation env st raw = .ok (a, st') ∧ ValidAlloc st' a := by
  cases hm : mkAllocation env st raw with
  | error e => rw [hm] at h; cases h
  | ok p =>
    obtain ⟨a, st'⟩ := p
    exact ⟨a, st', rfl, mkAllocation_valid env st raw a st' hraw hst htiny hsqrt hm⟩

def exEnv : Env ℚ := ⟨1 / 1000000000000, 1 / 100, fun _ => 1 / 1000⟩

/-- three cells: two modules / region `dsp` at depth 1 / an EMPTY ratio map. -/
def exRaw : List (RawCell ℚ) :=
  [⟨.vec 1 1 2 2 none, [("M1", 1/2), ("M2", 1/4)], 0⟩,
   ⟨.vec 3 (1/2) 2 1 (some "dsp"), [("M2", 3/4)], 1⟩,
   ⟨.vec 3 (3/2) 2 1 none, [], 0⟩]

/-- three cells given as `Rectangle` objects, the second one the cell of a FIXED module (flag set, ratio 1,
    depth 0); the third one is at depth 1, so that uniform refinement has work to do. -/
def exRawF : List (RawCell ℚ) :=
  [⟨.obj ⟨1, 1, 2, 2, "_", false, false, .nopoly⟩, [("M1", 1/2)], 0⟩,
   ⟨.obj ⟨3, 1, 2, 2, "_", true, true, .nopoly⟩, [("FIX", 1)], 0⟩,
   ⟨.obj ⟨5, 1, 2, 2, "_", false, false, .nopoly⟩, [("M2", 1/4)], 1⟩]

theorem exRaw_valid : ∃ a st, mkAllocation exEnv ⟨-1, -1⟩ exRaw = .ok (a, st) ∧ ValidAlloc st a := by
  apply valid_of_isOk
  · intro rc h; simp [exRaw] at h; rcases h with rfl | rfl | rfl <;> trivial
  · intro h; norm_num at h
  · norm_num [exEnv]
  · intro x; norm_num [exEnv]
  · decide +kernel

theorem exRawF_valid : ∃ a st, mkAllocation exEnv ⟨-1, -1⟩ exRawF = .ok (a, st) ∧ ValidAlloc st a := by
  apply valid_of_isOk
  · intro rc h; simp [exRawF] at h; rcases h with rfl | rfl | rfl <;> simp [RawPos]
  · intro h; norm_num at h
  · norm_num [exEnv]
  · intro x; norm_num [exEnv]
  · decide +kernel

/-- witness layout of the open finding `C12-griddify-x-before-y` (7 cells): A = [0,2]×[0,8]; four unit cells on its
    right; the top row [0,3]×[8,9] is split at x = 1/20. -/
def wRaw : List (RawCell ℚ) :=
  [⟨.vec 1 4 2 8 none, [("M1", 1/2)], 0⟩,
   ⟨.vec (5/2) (1/2) 1 1 none, [("M2", 1/4)], 0⟩, ⟨.vec (5/2) (3/2) 1 1 none, [("M2", 1/4)], 0⟩,
   ⟨.vec (5/2) (5/2) 1 1 none, [("M2", 1/4)], 0⟩, ⟨.vec (5/2) (7/2) 1 1 none, [("M2", 1/4)], 0⟩,
   ⟨.vec (1/40) (17/2) (1/20) 1 none, [], 0⟩, ⟨.vec (61/40) (17/2) (59/20) 1 none, [], 0⟩]

theorem wRaw_valid : ∃ a st, mkAllocation exEnv ⟨-1, -1⟩ wRaw = .ok (a, st) ∧ ValidAlloc st a := by
  apply valid_of_isOk
  · intro rc h; simp [wRaw] at h; rcases h with rfl | rfl | rfl | rfl | rfl | rfl | rfl <;> trivial
  · intro h; norm_num at h
  · norm_num [exEnv]
  · intro x; norm_num [exEnv]
  · decide +kernel

/-- executable form of `Separated` (for concrete layouts). -/
def sepB (ε : ℚ) (l : List ℚ) : Bool := l.all fun u => l.all fun v => !(decide (u < v)) || decide (u + ε < v)

theorem sepB_sound (ε : ℚ) (l : List ℚ) (h : sepB ε l = true) : Separated ε l := by
  intro u hu v hv huv
  simp only [sepB, List.all_eq_true, Bool.or_eq_true, Bool.not_eq_true', decide_eq_false_iff_not, decide_eq_true_eq] at h
  rcases h u hu v hv with h | h
  · exact absurd huv h
  · exact h

end FV.Alloc

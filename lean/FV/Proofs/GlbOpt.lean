import FV.Model.GlbOpt
import FV.Proofs.Glb
import Mathlib.Algebra.BigOperators.Ring.List
/-
  Meaning of what `optimize_allocation` posts (`FV/Model/GlbOpt.lean`): an assignment that satisfies the generated bounds,
  constants and equations (inequalities within `tolI`, equalities within `tolE`) has the properties the C10 theorems
  assume of the solver's answer.
-/
namespace FV.GlbOpt
open FV FV.Glb
set_option linter.unusedSectionVars false
set_option linter.unusedVariables false
set_option linter.unusedSimpArgs false

variable {α : Type} [Field α] [LinearOrder α] [IsStrictOrderedRing α]

theorem lsum_eq (l : List α) : lsum l = l.sum := by
  induction l with
  | nil => simp [lsum]
  | cons x xs ih => simp [lsum, ih]

/-- a row holds under `σ`: `<=` / `>=` within `tolI`, `==` within `tolE`; objective terms are not constraints. -/
def holds (σ : V → α) (tolI tolE : α) : Row α → Prop
  | .obj _ _ => True
  | .eqn _ l .le r => evalE σ l ≤ evalE σ r + tolI
  | .eqn _ l .ge r => evalE σ r ≤ evalE σ l + tolI
  | .eqn _ l .eq r => |evalE σ l - evalE σ r| ≤ tolE

/-- `σ` is a point satisfying what was posted: declared bounds exactly, constants exactly, rows within tolerance. -/
structure Sat (σ : V → α) (tolI tolE : α) (p : Posted α) : Prop where
  vars : ∀ d ∈ p.vars, (∀ lb, d.2.1 = some lb → lb ≤ σ d.1) ∧ (∀ ub, d.2.2 = some ub → σ d.1 ≤ ub)
  consts : ∀ d ∈ p.consts, σ d.1 = d.2
  rows : ∀ r ∈ p.rows, holds σ tolI tolE r

/-- the answer `extract_solution` reads from the point (`get_value` of every entry of `model.a/x/y`). -/
def ansOf (σ : V → α) : Answer α := ⟨fun n c => σ (.a n c), fun n => σ (.x n), fun n => σ (.y n)⟩

theorem movable_iff (m : Module α) : movable m = true ↔ ¬ ((!m.hard || m.fixed) = true) := by
  unfold movable; cases m.hard <;> cases m.fixed <;> simp

theorem mem_modelModules_self (mods : List (Module α)) (m : Module α) (hm : m ∈ mods) (hnm : movable m = false) :
    m ∈ modelModules mods := by
  unfold modelModules
  rw [List.mem_flatMap]
  refine ⟨m, hm, ?_⟩
  have : (!m.hard || m.fixed) = true := by
    by_contra h; exact absurd ((movable_iff m).mpr h) (by simp [hnm])
  simp [this]

theorem mem_modelModules_fake (mods : List (Module α)) (m f : Module α) (hm : m ∈ mods) (hmv : movable m = true)
    (hf : f ∈ fakes m) : f ∈ modelModules mods := by
  unfold modelModules
  rw [List.mem_flatMap]
  refine ⟨m, hm, ?_⟩
  have : ¬ ((!m.hard || m.fixed) = true) := (movable_iff m).mp hmv
  simp only [this, if_false]
  exact hf

/-- model modules are never movable hard modules with several rectangles… they are soft, fixed, or fakes; in
    particular a model module that is `fixed` is a fixed module of the netlist. -/
theorem fixed_of_modelModules (mods : List (Module α)) (mm : Module α) (h : mm ∈ modelModules mods)
    (hfx : mm.fixed = true) : mm ∈ mods := by
  unfold modelModules at h
  rw [List.mem_flatMap] at h
  obtain ⟨m, hm, hmm⟩ := h
  split at hmm
  · simp only [List.mem_singleton] at hmm; rw [hmm]; exact hm
  · simp only [List.mem_map] at hmm
    obtain ⟨⟨rect, r⟩, _, rfl⟩ := hmm
    simp [fakeModule] at hfx

theorem mem_cellIdx (inp : Input α) (c : Nat) : c ∈ cellIdx inp ↔ c < inp.offered.length := by
  simp [cellIdx]

/-- the value of `model.a[mm][c]` as a sum element is the point's (or the constant's) value of that entry. -/
theorem evalT_aTerm (inp : Input α) (σ : V → α) (tolI tolE : α) (hs : Sat σ tolI tolE (post inp)) (mm : Module α)
    (hmm : mm ∈ modelModules inp.mods) (c : Nat) (hc : c < inp.offered.length) :
    evalT σ (aTerm inp mm c) = σ (.a mm.name c) := by
  unfold aTerm
  cases hca : constA inp mm c with
  | none => rfl
  | some v =>
    simp only [evalT]
    have : (V.a mm.name c, v) ∈ (post inp).consts := by
      simp only [post, constsOf, List.mem_append, List.mem_flatMap, List.mem_filterMap, Option.map_eq_some_iff]
      right
      exact ⟨mm, hmm, c, (mem_cellIdx inp c).mpr hc, v, hca, rfl⟩
    exact (hs.consts _ this).symm

/-- every ratio entry of a model module is a constant of the table or a variable with bounds `[0,1]`. -/
theorem a_model_bounds (inp : Input α) (σ : V → α) (tolI tolE : α) (hs : Sat σ tolI tolE (post inp))
    (hunit : ∀ mm ∈ modelModules inp.mods, ∀ c v, getA inp.offered mm c = some v → 0 ≤ v ∧ v ≤ 1)
    (mm : Module α) (hmm : mm ∈ modelModules inp.mods) (c : Nat) (hc : c < inp.offered.length) :
    0 ≤ σ (.a mm.name c) ∧ σ (.a mm.name c) ≤ 1 := by
  cases hca : constA inp mm c with
  | some v =>
    have hmem : (V.a mm.name c, v) ∈ (post inp).consts := by
      simp only [post, constsOf, List.mem_append, List.mem_flatMap, List.mem_filterMap, Option.map_eq_some_iff]
      right
      exact ⟨mm, hmm, c, (mem_cellIdx inp c).mpr hc, v, hca, rfl⟩
    rw [hs.consts _ hmem]
    unfold constA at hca
    cases hg : getA inp.offered mm c with
    | none => rw [hg] at hca; cases hca
    | some w =>
      rw [hg] at hca
      simp only at hca
      split at hca
      · cases hca; exact hunit mm hmm c v hg
      · cases hca
  | none =>
    have hmem : (V.a mm.name c, some (Glb.zero : α), some (Glb.one : α)) ∈ (post inp).vars := by
      simp only [post, varsOf, List.mem_append, List.mem_flatMap, List.mem_filterMap]
      left; left; right
      refine ⟨mm, hmm, c, (mem_cellIdx inp c).mpr hc, ?_⟩
      rw [hca]
    obtain ⟨h1, h2⟩ := hs.vars _ hmem
    exact ⟨by simpa using h1 _ rfl, by simpa using h2 _ rfl⟩

/-- the ratio variables of a movable hard module have bounds `[0,1]`, its centre variables the die's. -/
theorem movable_bounds (inp : Input α) (σ : V → α) (tolI tolE : α) (hs : Sat σ tolI tolE (post inp))
    (m : Module α) (hm : m ∈ inp.mods) (hmv : movable m = true) :
    (∀ c < inp.offered.length, 0 ≤ σ (.a m.name c) ∧ σ (.a m.name c) ≤ 1) ∧
    (inp.die.xmin ≤ σ (.x m.name) ∧ σ (.x m.name) ≤ inp.die.xmax ∧
     inp.die.ymin ≤ σ (.y m.name) ∧ σ (.y m.name) ≤ inp.die.ymax) := by
  have hin : ∀ d, d ∈ xyVars inp m.name ++ (cellIdx inp).map (fun c => (V.a m.name c, some (Glb.zero : α), some (Glb.one : α))) →
      d ∈ (post inp).vars := by
    intro d hd
    simp only [post, varsOf, List.mem_append, List.mem_flatMap, List.mem_filter]
    left; right
    exact ⟨m, ⟨hm, hmv⟩, List.mem_append.mp hd⟩
  refine ⟨fun c hc => ?_, ?_⟩
  · obtain ⟨h1, h2⟩ := hs.vars _ (hin (V.a m.name c, some Glb.zero, some Glb.one)
      (List.mem_append.mpr (Or.inr (List.mem_map.mpr ⟨c, (mem_cellIdx inp c).mpr hc, rfl⟩))))
    exact ⟨by simpa using h1 _ rfl, by simpa using h2 _ rfl⟩
  · obtain ⟨hx1, hx2⟩ := hs.vars _ (hin (V.x m.name, some inp.die.xmin, some inp.die.xmax) (by simp [xyVars]))
    obtain ⟨hy1, hy2⟩ := hs.vars _ (hin (V.y m.name, some inp.die.ymin, some inp.die.ymax) (by simp [xyVars]))
    exact ⟨hx1 _ rfl, hx2 _ rfl, hy1 _ rfl, hy2 _ rfl⟩

/-- the centre variables of a non-fixed model module have the die's bounds. -/
theorem model_centre_bounds (inp : Input α) (σ : V → α) (tolI tolE : α) (hs : Sat σ tolI tolE (post inp))
    (mm : Module α) (hmm : mm ∈ modelModules inp.mods) (hnf : mm.fixed = false) :
    inp.die.xmin ≤ σ (.x mm.name) ∧ σ (.x mm.name) ≤ inp.die.xmax ∧
    inp.die.ymin ≤ σ (.y mm.name) ∧ σ (.y mm.name) ≤ inp.die.ymax := by
  have hin : ∀ d, d ∈ xyVars inp mm.name → d ∈ (post inp).vars := by
    intro d hd
    simp only [post, varsOf, List.mem_append, List.mem_flatMap]
    left; left; left
    refine ⟨mm, hmm, ?_⟩
    simp only [hnf, Bool.false_eq_true, if_false, List.mem_append]
    exact Or.inl hd
  obtain ⟨hx1, hx2⟩ := hs.vars _ (hin (V.x mm.name, some inp.die.xmin, some inp.die.xmax) (by simp [xyVars]))
  obtain ⟨hy1, hy2⟩ := hs.vars _ (hin (V.y mm.name, some inp.die.ymin, some inp.die.ymax) (by simp [xyVars]))
  exact ⟨hx1 _ rfl, hx2 _ rfl, hy1 _ rfl, hy2 _ rfl⟩

/-- the constants of a fixed module. -/
theorem fixed_consts (inp : Input α) (σ : V → α) (tolI tolE : α) (hs : Sat σ tolI tolE (post inp))
    (f : Module α) (hf : f ∈ inp.mods) (hfx : f.fixed = true) :
    σ (.x f.name) = f.cx ∧ σ (.y f.name) = f.cy ∧
    ∀ c v, getA inp.offered f c = some v → σ (.a f.name c) = v := by
  have hnm : movable f = false := by simp [movable, hfx]
  have hmm := mem_modelModules_self inp.mods f hf hnm
  refine ⟨?_, ?_, ?_⟩
  · have : (V.x f.name, f.cx) ∈ (post inp).consts := by
      simp only [post, constsOf, List.mem_append, List.mem_map, List.mem_filter]
      left; left; exact ⟨f, ⟨hmm, hfx⟩, rfl⟩
    exact hs.consts _ this
  · have : (V.y f.name, f.cy) ∈ (post inp).consts := by
      simp only [post, constsOf, List.mem_append, List.mem_map, List.mem_filter]
      left; right; exact ⟨f, ⟨hmm, hfx⟩, rfl⟩
    exact hs.consts _ this
  · intro c v hg
    have hc : c < inp.offered.length := by
      unfold getA at hg
      by_contra hge
      rw [List.getElem?_eq_none (Nat.le_of_not_lt hge)] at hg; cases hg
    have hca : constA inp f c = some v := by
      unfold constA; rw [hg]
      have : aIsConst inp.epsD inp.thr inp.offered f c = true := by
        unfold aIsConst; rw [hg]; simp [hfx]
      simp [this]
    have : (V.a f.name c, v) ∈ (post inp).consts := by
      simp only [post, constsOf, List.mem_append, List.mem_flatMap, List.mem_filterMap, Option.map_eq_some_iff]
      right
      exact ⟨f, hmm, c, (mem_cellIdx inp c).mpr hc, v, hca, rfl⟩
    exact hs.consts _ this

/-! ### the capacity rows -/

/-- sum over the model modules = sum over the netlist's modules of (the module itself | its fakes). -/
theorem sum_modelModules (mods : List (Module α)) (g : Module α → α) :
    ((modelModules mods).map g).sum =
      (mods.map fun m => if movable m then ((fakes m).map g).sum else g m).sum := by
  induction mods with
  | nil => simp [modelModules]
  | cons m ms ih =>
    have hcons : modelModules (m :: ms) =
        (if (!m.hard || m.fixed) = true then [m] else m.rects.zipIdx.map fun (rect, r) => fakeModule m r rect) ++
          modelModules ms := by
      simp [modelModules, List.flatMap_cons]
    rw [hcons, List.map_append, List.sum_append, ih, List.map_cons, List.sum_cons]
    congr 1
    by_cases hmv : movable m = true
    · have : ¬ ((!m.hard || m.fixed) = true) := (movable_iff m).mp hmv
      simp only [this, if_false, hmv, if_true]; rfl
    · have h1 : (!m.hard || m.fixed) = true := by
        by_contra h; exact hmv ((movable_iff m).mpr h)
      have h2 : movable m = false := by simpa using hmv
      simp [h1, h2]

theorem sum_le_add_count (mods : List (Module α)) (h g : Module α → α) (p : Module α → Bool) (t : α)
    (hle : ∀ m ∈ mods, h m ≤ g m + (if p m then t else 0)) :
    (mods.map h).sum ≤ (mods.map g).sum + ((mods.filter p).length : α) * t := by
  induction mods with
  | nil => simp
  | cons m ms ih =>
    have h1 := hle m (by simp)
    have h2 := ih (fun x hx => hle x (by simp [hx]))
    by_cases hp : p m = true
    · simp only [List.map_cons, List.sum_cons, List.filter_cons, hp, if_true, List.length_cons, Nat.cast_add,
        Nat.cast_one] at h1 ⊢
      nlinarith
    · have hp' : p m = false := by simpa using hp
      simp only [List.map_cons, List.sum_cons, List.filter_cons, hp', Bool.false_eq_true, if_false, add_zero] at h1 ⊢
      linarith

theorem capacity_row_mem (inp : Input α) (c : Nat) (hc : c < inp.offered.length) :
    Row.eqn s!"cap_{c}" (.sum ((modelModules inp.mods).map fun m => aTerm inp m c)) .le (.num Glb.one) ∈ (post inp).rows := by
  simp only [post, rowsOf, capacityRows, List.mem_append, List.mem_map]
  left; left; left; left
  exact ⟨c, (mem_cellIdx inp c).mpr hc, rfl⟩

theorem hsum_row_mem (inp : Input α) (m : Module α) (hm : m ∈ inp.mods) (hmv : movable m = true) (c : Nat)
    (hc : c < inp.offered.length) :
    Row.eqn s!"hsum_{m.name}_{c}" (.var (.a m.name c)) .eq (.sum ((fakes m).map fun f => aTerm inp f c)) ∈ (post inp).rows := by
  simp only [post, rowsOf, List.mem_append, List.mem_flatMap, List.mem_filter]
  left; left; right
  refine ⟨m, ⟨hm, hmv⟩, ?_⟩
  simp only [hardRows, List.mem_append, List.mem_map]
  left; right
  exact ⟨c, (mem_cellIdx inp c).mpr hc, rfl⟩

/-- **rows**: the capacity equation of a cell and the `a[m][c] == Σ_r a[m_r][c]` equations of the movable hard modules
    bound the sum over the NETLIST's modules by `1 + tolI + (#movable hard modules)·tolE`. -/
theorem rows_of_sat (inp : Input α) (σ : V → α) (tolI tolE : α) (hs : Sat σ tolI tolE (post inp)) (c : Nat)
    (hc : c < inp.offered.length) :
    (inp.mods.map fun m => σ (.a m.name c)).sum ≤ 1 + (tolI + ((inp.mods.filter movable).length : α) * tolE) := by
  have hcap := hs.rows _ (capacity_row_mem inp c hc)
  simp only [holds, evalE, lsum_eq, List.map_map, Glb.one_eq] at hcap
  have hcap' : ((modelModules inp.mods).map fun mm => σ (.a mm.name c)).sum ≤ 1 + tolI := by
    have : (modelModules inp.mods).map (evalT σ ∘ fun m => aTerm inp m c) =
        (modelModules inp.mods).map fun mm => σ (.a mm.name c) :=
      List.map_congr_left fun mm hmm => evalT_aTerm inp σ tolI tolE hs mm hmm c hc
    rw [this] at hcap; exact hcap
  rw [sum_modelModules] at hcap'
  have hstep := sum_le_add_count inp.mods (fun m => σ (.a m.name c))
    (fun m => if movable m then ((fakes m).map fun mm => σ (.a mm.name c)).sum else σ (.a m.name c)) movable tolE ?_
  · linarith
  · intro m hm
    by_cases hmv : movable m = true
    · simp only [hmv, if_true]
      have hrow := hs.rows _ (hsum_row_mem inp m hm hmv c hc)
      simp only [holds, evalE, lsum_eq, List.map_map] at hrow
      have : (fakes m).map (evalT σ ∘ fun f => aTerm inp f c) = (fakes m).map fun mm => σ (.a mm.name c) :=
        List.map_congr_left fun f hf => evalT_aTerm inp σ tolI tolE hs f (mem_modelModules_fake inp.mods m f hm hmv hf) c hc
      rw [this] at hrow
      have := (abs_le.mp hrow).2
      linarith
    · have h2 : movable m = false := by simpa using hmv
      simp [h2]

/-! ### meaning of the bodies of the area, centroid, dispersion and net rows -/

theorem constA_mem_consts (inp : Input α) (mm : Module α) (hmm : mm ∈ modelModules inp.mods) (c : Nat)
    (hc : c < inp.offered.length) (v : α) (hca : constA inp mm c = some v) : (V.a mm.name c, v) ∈ (post inp).consts := by
  simp only [post, constsOf, List.mem_append, List.mem_flatMap, List.mem_filterMap, Option.map_eq_some_iff]
  right
  exact ⟨mm, hmm, c, (mem_cellIdx inp c).mpr hc, v, hca, rfl⟩

/-- `k * model.a[mm][c]` (folded by Python when the ratio is a float) means `k · a[mm][c]`. -/
theorem evalT_kaTerm (inp : Input α) (σ : V → α) (tolI tolE : α) (hs : Sat σ tolI tolE (post inp)) (k : α) (mm : Module α)
    (hmm : mm ∈ modelModules inp.mods) (c : Nat) (hc : c < inp.offered.length) :
    evalT σ (kaTerm inp k mm c) = k * σ (.a mm.name c) := by
  unfold kaTerm
  cases hca : constA inp mm c with
  | none => rfl
  | some v =>
    simp only [evalT]
    rw [hs.consts _ (constA_mem_consts inp mm hmm c hc v hca)]

/-- `cells[c].area * model.a[mm][c] * D` means `area_c · a[mm][c] · D`. -/
theorem evalT_dispTerm (inp : Input α) (σ : V → α) (tolI tolE : α) (hs : Sat σ tolI tolE (post inp)) (mm : Module α)
    (hmm : mm ∈ modelModules inp.mods) (c : Nat) (hc : c < inp.offered.length) (D : X α) :
    evalT σ (dispTerm inp mm c D) = cellArea inp c * σ (.a mm.name c) * evalX σ D := by
  unfold dispTerm
  cases hca : constA inp mm c with
  | none => rfl
  | some v =>
    simp only [evalT, evalX]
    rw [hs.consts _ (constA_mem_consts inp mm hmm c hc v hca)]

theorem moduleRows_mem (inp : Input α) (m : Module α) (hm : m ∈ modelModules inp.mods) (r : Row α)
    (hr : r ∈ moduleRows inp m) : r ∈ (post inp).rows := by
  simp only [post, rowsOf, List.mem_append, List.mem_flatMap]
  left; left; left; right
  exact ⟨m, hm, hr⟩

theorem hardRows_mem (inp : Input α) (m : Module α) (hm : m ∈ inp.mods) (hmv : movable m = true) (r : Row α)
    (hr : r ∈ hardRows inp m) : r ∈ (post inp).rows := by
  simp only [post, rowsOf, List.mem_append, List.mem_flatMap, List.mem_filter]
  left; left; right
  exact ⟨m, ⟨hm, hmv⟩, hr⟩

theorem map_cellIdx_congr (inp : Input α) (f g : Nat → α) (h : ∀ c < inp.offered.length, f c = g c) :
    (cellIdx inp).map f = (cellIdx inp).map g :=
  List.map_congr_left fun c hc => h c ((mem_cellIdx inp c).mp hc)

/-- the value of `model.x[m]` / `model.y[m]` of a model module at a point satisfying the constants. -/
theorem x_of_model (inp : Input α) (σ : V → α) (tolI tolE : α) (hs : Sat σ tolI tolE (post inp)) (m : Module α)
    (hm : m ∈ modelModules inp.mods) :
    evalE σ (xRhs m) = σ (.x m.name) ∧ evalE σ (yRhs m) = σ (.y m.name) ∧
    evalX σ (xX m) = σ (.x m.name) ∧ evalX σ (yX m) = σ (.y m.name) := by
  unfold xRhs yRhs xX yX
  by_cases hfx : m.fixed = true
  · have hx : (V.x m.name, m.cx) ∈ (post inp).consts := by
      simp only [post, constsOf, List.mem_append, List.mem_map, List.mem_filter]
      left; left; exact ⟨m, ⟨hm, hfx⟩, rfl⟩
    have hy : (V.y m.name, m.cy) ∈ (post inp).consts := by
      simp only [post, constsOf, List.mem_append, List.mem_map, List.mem_filter]
      left; right; exact ⟨m, ⟨hm, hfx⟩, rfl⟩
    simp only [hfx, if_true, evalE, evalX]
    exact ⟨(hs.consts _ hx).symm, (hs.consts _ hy).symm, (hs.consts _ hx).symm, (hs.consts _ hy).symm⟩
  · simp [hfx, evalE, evalX]

/-- **area row**: the area a model module is given over the offered cells is at least its own (within `tolI`). -/
theorem area_row_meaning (inp : Input α) (σ : V → α) (tolI tolE : α) (hs : Sat σ tolI tolE (post inp)) (m : Module α)
    (hm : m ∈ modelModules inp.mods) :
    mmArea inp m ≤ ((cellIdx inp).map fun c => cellArea inp c * σ (.a m.name c)).sum + tolI := by
  have hrow := hs.rows _ (moduleRows_mem inp m hm _ (by simp [moduleRows]; left; rfl))
  simp only [holds, evalE, lsum_eq, List.map_map, Function.comp_def] at hrow
  rw [map_cellIdx_congr inp _ (fun c => cellArea inp c * σ (.a m.name c))
    (fun c hc => evalT_kaTerm inp σ tolI tolE hs _ m hm c hc)] at hrow
  exact hrow

/-- **centroid rows**: the centre variables (constants, for a fixed module) of a model module are the area-weighted
    mean of the centres of the cells it is given, normalised by ITS OWN area (within `tolE`). -/
theorem centroid_row_meaning (inp : Input α) (σ : V → α) (tolI tolE : α) (hs : Sat σ tolI tolE (post inp)) (m : Module α)
    (hm : m ∈ modelModules inp.mods) :
    |1 / mmArea inp m * ((cellIdx inp).map fun c => cellArea inp c * cellCx inp c * σ (.a m.name c)).sum
        - σ (.x m.name)| ≤ tolE ∧
    |1 / mmArea inp m * ((cellIdx inp).map fun c => cellArea inp c * cellCy inp c * σ (.a m.name c)).sum
        - σ (.y m.name)| ≤ tolE := by
  obtain ⟨hx, hy, _, _⟩ := x_of_model inp σ tolI tolE hs m hm
  have hrx := hs.rows _ (moduleRows_mem inp m hm _ (by simp [moduleRows]; right; left; rfl))
  have hry := hs.rows _ (moduleRows_mem inp m hm _ (by simp [moduleRows]; right; right; left; rfl))
  simp only [holds] at hrx hry
  rw [hx] at hrx
  rw [hy] at hry
  simp only [evalE, lsum_eq, List.map_map, Glb.one_eq, Function.comp_def] at hrx hry
  rw [map_cellIdx_congr inp _ (fun c => cellArea inp c * cellCx inp c * σ (.a m.name c))
    (fun c hc => evalT_kaTerm inp σ tolI tolE hs _ m hm c hc)] at hrx
  rw [map_cellIdx_congr inp _ (fun c => cellArea inp c * cellCy inp c * σ (.a m.name c))
    (fun c hc => evalT_kaTerm inp σ tolI tolE hs _ m hm c hc)] at hry
  rw [one_div]
  exact ⟨hrx, hry⟩

/-- **dispersion row of a soft module**: `d[m]` is `6 / area^(3/2)` times the second moment of the area the module is
    given about its centre (within `tolE`).  `powF` is Python's float power, uninterpreted. -/
theorem softDisp_row_meaning (inp : Input α) (σ : V → α) (tolI tolE : α) (hs : Sat σ tolI tolE (post inp)) (m : Module α)
    (hm : m ∈ modelModules inp.mods) (hh : m.hard = false) :
    |6 / inp.powF (mmArea inp m) (3 / 2) * ((cellIdx inp).map fun c => cellArea inp c * σ (.a m.name c) *
        ((σ (.x m.name) - cellCx inp c) ^ 2 + (σ (.y m.name) - cellCy inp c) ^ 2)).sum - σ (.d m.name)| ≤ tolE := by
  obtain ⟨_, _, hx, hy⟩ := x_of_model inp σ tolI tolE hs m hm
  have hrow := hs.rows _ (moduleRows_mem inp m hm (softDispRow inp m) (by simp [moduleRows, hh]))
  simp only [softDispRow, holds, evalE, lsum_eq, List.map_map, Nat.cast_ofNat, Function.comp_def] at hrow
  rw [map_cellIdx_congr inp _ (fun c => cellArea inp c * σ (.a m.name c) *
      ((σ (.x m.name) - cellCx inp c) ^ 2 + (σ (.y m.name) - cellCy inp c) ^ 2)) ?_] at hrow
  · exact hrow
  · intro c hc
    rw [evalT_dispTerm inp σ tolI tolE hs m hm c hc]
    simp only [dispF, evalX, hx, hy, pow_two]

theorem fake_mem_fakes (m : Module α) (i : Nat) (rect : Rect α) (hi : m.rects[i]? = some rect) :
    fakeModule m i rect ∈ fakes m := by
  unfold fakes
  exact List.mem_map.mpr ⟨(rect, i), List.mem_zipIdx_iff_getElem?.mpr hi, rfl⟩

/-- **dispersion row of rectangle `i` of a movable hard module**: `d[m_i]` is `12 / (w³ + h³)` times the second moment of
    the area given to the rectangle about its centre, the offset along the SHORTER side stretched by the aspect ratio. -/
theorem hardDisp_row_meaning (inp : Input α) (σ : V → α) (tolI tolE : α) (hs : Sat σ tolI tolE (post inp)) (m : Module α)
    (hm : m ∈ inp.mods) (hmv : movable m = true) (i : Nat) (rect : Rect α) (hi : m.rects[i]? = some rect) :
    |12 / (inp.powF rect.w 3 + inp.powF rect.h 3) * ((cellIdx inp).map fun c =>
        cellArea inp c * σ (.a (subName m.name i) c) *
          (if rect.w < rect.h then
            (rect.h / rect.w * (σ (.x (subName m.name i)) - cellCx inp c)) ^ 2 + (σ (.y (subName m.name i)) - cellCy inp c) ^ 2
          else
            (σ (.x (subName m.name i)) - cellCx inp c) ^ 2 +
              (rect.w / rect.h * (σ (.y (subName m.name i)) - cellCy inp c)) ^ 2)).sum
      - σ (.d (subName m.name i))| ≤ tolE := by
  have hf := mem_modelModules_fake inp.mods m _ hm hmv (fake_mem_fakes m i rect hi)
  have hmem : hardDispRow inp m i rect ∈ hardRows inp m := by
    simp only [hardRows, pairRows, List.mem_append, List.mem_flatMap]
    right
    exact ⟨(rect, i), List.mem_zipIdx_iff_getElem?.mpr hi, Or.inr (by simp)⟩
  have hrow := hs.rows _ (hardRows_mem inp m hm hmv _ hmem)
  simp only [hardDispRow, holds, evalE, lsum_eq, List.map_map, Nat.cast_ofNat, Function.comp_def] at hrow
  rw [map_cellIdx_congr inp _ (fun c => cellArea inp c * σ (.a (subName m.name i) c) *
      (if rect.w < rect.h then
        (rect.h / rect.w * (σ (.x (subName m.name i)) - cellCx inp c)) ^ 2 + (σ (.y (subName m.name i)) - cellCy inp c) ^ 2
      else
        (σ (.x (subName m.name i)) - cellCx inp c) ^ 2 +
          (rect.w / rect.h * (σ (.y (subName m.name i)) - cellCy inp c)) ^ 2)) ?_] at hrow
  · exact hrow
  · intro c hc
    rw [evalT_dispTerm inp σ tolI tolE hs _ hf c hc]
    by_cases hwh : rect.w < rect.h
    · simp only [hwh, if_true, dispF, evalX, pow_two, fakeModule]
    · simp only [hwh, if_false, dispF, evalX, pow_two, fakeModule]

/-! ### nets -/

/-- value of a pin of a net: the centre of a fixed module, otherwise the centre variable. -/
def pinVx (σ : V → α) (inp : Input α) (p : String) : α :=
  match pinFixed inp p with | some c => c.1 | none => σ (.x p)
def pinVy (σ : V → α) (inp : Input α) (p : String) : α :=
  match pinFixed inp p with | some c => c.2 | none => σ (.y p)

theorem evalX_pinX (σ : V → α) (inp : Input α) (p : String) : evalX σ (pinX inp p) = pinVx σ inp p := by
  unfold pinX pinVx; cases pinFixed inp p <;> rfl
theorem evalX_pinY (σ : V → α) (inp : Input α) (p : String) : evalX σ (pinY inp p) = pinVy σ inp p := by
  unfold pinY pinVy; cases pinFixed inp p <;> rfl

theorem evalT_asT (σ : V → α) (x : X α) : evalT σ (asT x) = evalX σ x := by
  cases x <;> rfl

theorem edgeRows_mem (inp : Input α) (e : Nat) (w : α) (pins : List String) (he : inp.edges[e]? = some (w, pins))
    (r : Row α) (hr : r ∈ edgeRows inp e w pins) : r ∈ (post inp).rows := by
  simp only [post, rowsOf, List.mem_append, List.mem_flatMap]
  left; right
  exact ⟨((w, pins), e), List.mem_zipIdx_iff_getElem?.mpr he, hr⟩

/-- **centre equations of a net with other than two pins**: `ex`, `ey` are the mean of the pins' centres. -/
theorem hyper_row_meaning (inp : Input α) (σ : V → α) (tolI tolE : α) (hs : Sat σ tolI tolE (post inp)) (e : Nat) (w : α)
    (pins : List String) (he : inp.edges[e]? = some (w, pins)) (h2 : pins.length ≠ 2) :
    |(pins.map (pinVx σ inp)).sum / (pins.length : α) - σ (.ex e)| ≤ tolE ∧
    |(pins.map (pinVy σ inp)).sum / (pins.length : α) - σ (.ey e)| ≤ tolE := by
  have hrows : edgeRows inp e w pins =
      [ .eqn s!"hx_{e}" (.sumDiv (pins.map fun p => asT (pinX inp p)) ((pins.length : Nat) : α)) .eq (.var (.ex e)),
        .eqn s!"hy_{e}" (.sumDiv (pins.map fun p => asT (pinY inp p)) ((pins.length : Nat) : α)) .eq (.var (.ey e)) ] ++
      pins.map fun p =>
        .obj s!"net_{e}_{p}" (.gen (.mul (.num (inp.alpha * w))
          (.add (.sq (.sub (.var (.ex e)) (pinX inp p))) (.sq (.sub (.var (.ey e)) (pinY inp p)))))) := by
    unfold edgeRows
    split
    · simp at h2
    · rfl
  have hx := hs.rows _ (edgeRows_mem inp e w pins he _
    (by rw [hrows]; exact List.mem_append_left _ List.mem_cons_self))
  have hy := hs.rows _ (edgeRows_mem inp e w pins he _
    (by rw [hrows]; exact List.mem_append_left _ (List.mem_cons_of_mem _ List.mem_cons_self)))
  simp only [holds, evalE, lsum_eq, List.map_map, Function.comp_def, evalT_asT, evalX_pinX, evalX_pinY] at hx hy
  exact ⟨hx, hy⟩

/-! ### the objective -/

def Row.isEqn : Row α → Bool
  | .eqn .. => true
  | .obj .. => false

/-- the values of the `g.Minimize` terms among some rows. -/
def objTerms (σ : V → α) (rows : List (Row α)) : List α :=
  rows.filterMap fun r => match r with | .obj _ e => some (evalE σ e) | .eqn .. => none

theorem objective_eq_sum (σ : V → α) (p : Posted α) : objective σ p = (objTerms σ p.rows).sum := by
  simp only [objective, lsum_eq, objTerms]
  congr 2

theorem objTerms_append (σ : V → α) (a b : List (Row α)) : objTerms σ (a ++ b) = objTerms σ a ++ objTerms σ b := by
  simp [objTerms, List.filterMap_append]

theorem objTerms_of_eqns (σ : V → α) (l : List (Row α)) (h : ∀ r ∈ l, r.isEqn = true) : objTerms σ l = [] := by
  unfold objTerms
  rw [List.filterMap_eq_nil_iff]
  intro r hr
  have := h r hr
  cases r with
  | eqn => rfl
  | obj => simp [Row.isEqn] at this

theorem offsetRow_isEqn (name : String) (flip : Bool) (p q : V) (d : α) : (offsetRow name flip p q d).isEqn = true := by
  unfold offsetRow; cases flip <;> rfl

theorem capacityRows_isEqn (inp : Input α) : ∀ r ∈ capacityRows inp, r.isEqn = true := by
  intro r hr
  simp only [capacityRows, List.mem_map] at hr
  obtain ⟨c, _, rfl⟩ := hr; rfl

theorem moduleRows_isEqn (inp : Input α) (m : Module α) : ∀ r ∈ moduleRows inp m, r.isEqn = true := by
  intro r hr
  simp only [moduleRows, List.mem_append, List.mem_cons, List.not_mem_nil, or_false] at hr
  rcases hr with (rfl | rfl | rfl) | hr
  · rfl
  · rfl
  · rfl
  · split at hr
    · simp at hr
    · simp only [List.mem_cons, List.not_mem_nil, or_false] at hr; subst hr; rfl

theorem hardRows_isEqn (inp : Input α) (m : Module α) : ∀ r ∈ hardRows inp m, r.isEqn = true := by
  intro r hr
  simp only [hardRows, pairRows, List.mem_append, List.mem_cons, List.not_mem_nil, or_false, List.mem_map,
    List.mem_flatMap] at hr
  rcases hr with ((rfl | rfl) | ⟨c, _, rfl⟩) | ⟨⟨rect, i⟩, _, hr | hr⟩
  · exact offsetRow_isEqn ..
  · exact offsetRow_isEqn ..
  · rfl
  · obtain ⟨⟨rect', j⟩, _, hr⟩ := hr
    split at hr
    · simp only [List.mem_cons, List.not_mem_nil, or_false] at hr
      rcases hr with rfl | rfl <;> exact offsetRow_isEqn ..
    · simp at hr
  · subst hr; rfl

theorem objTerms_flatMap_eqns {β : Type} (σ : V → α) (l : List β) (f : β → List (Row α))
    (h : ∀ x ∈ l, ∀ r ∈ f x, r.isEqn = true) : objTerms σ (l.flatMap f) = [] := by
  apply objTerms_of_eqns
  intro r hr
  obtain ⟨x, hx, hrx⟩ := List.mem_flatMap.mp hr
  exact h x hx r hrx

theorem objTerms_flatMap_sum {β : Type} (σ : V → α) (l : List β) (f : β → List (Row α)) :
    (objTerms σ (l.flatMap f)).sum = (l.map fun x => (objTerms σ (f x)).sum).sum := by
  induction l with
  | nil => simp [objTerms]
  | cons x xs ih => rw [List.flatMap_cons, objTerms_append, List.sum_append, ih, List.map_cons, List.sum_cons]

/-- length of a net at a point, as the objective counts it: half the squared distance of the two pins, or the sum of
    the squared distances of the pins from the net's centre variables; times the weight. -/
def edgeLen (σ : V → α) (inp : Input α) (e : Nat) (w : α) (pins : List String) : α :=
  match pins with
  | [p, q] => w * (((pinVx σ inp p - pinVx σ inp q) ^ 2 + (pinVy σ inp p - pinVy σ inp q) ^ 2) / 2)
  | _ => w * (pins.map fun p => (σ (.ex e) - pinVx σ inp p) ^ 2 + (σ (.ey e) - pinVy σ inp p) ^ 2).sum

/-- total wire length at a point (all nets, in order). -/
def wireLength (σ : V → α) (inp : Input α) : α :=
  (inp.edges.zipIdx.map fun x => edgeLen σ inp x.2 x.1.1 x.1.2).sum

/-- total dispersion at a point: the sum of the dispersion variables. -/
def totalDispersion (σ : V → α) (inp : Input α) : α := ((dVars inp).map σ).sum

theorem evalE_twoPinTerm (σ : V → α) (inp : Input α) (w : α) (p q : String) :
    evalE σ (twoPinTerm inp w p q) =
      inp.alpha * (w * (((pinVx σ inp p - pinVx σ inp q) ^ 2 + (pinVy σ inp p - pinVy σ inp q) ^ 2) / 2)) := by
  unfold twoPinTerm
  split
  · rename_i c0 c1 h0 h1
    simp only [evalE, pinVx, pinVy, h0, h1, Nat.cast_ofNat]
    ring
  · simp only [evalE, evalX, evalX_pinX, evalX_pinY, Nat.cast_ofNat]
    ring

theorem objTerms_edgeRows (σ : V → α) (inp : Input α) (e : Nat) (w : α) (pins : List String) :
    (objTerms σ (edgeRows inp e w pins)).sum = inp.alpha * edgeLen σ inp e w pins := by
  unfold edgeRows edgeLen
  split
  · simp only [objTerms, List.filterMap_cons, List.filterMap_nil, List.sum_cons, List.sum_nil, add_zero]
    exact evalE_twoPinTerm σ inp w _ _
  · rename_i hne
    have hsplit : ∀ (a b : Row α) (l : List (Row α)), a.isEqn = true → b.isEqn = true →
        objTerms σ ([a, b] ++ l) = objTerms σ l := by
      intro a b l ha hb
      rw [objTerms_append, objTerms_of_eqns σ [a, b] (by intro r hr; simp at hr; rcases hr with rfl | rfl <;> assumption)]
      rfl
    split
    · exact absurd rfl (hne _ _)
    · rw [hsplit _ _ _ rfl rfl]
      simp only [objTerms, List.filterMap_map, Function.comp_def, List.filterMap_some]
      rw [← List.sum_map_mul_left, ← List.sum_map_mul_left]
      congr 1
      rw [List.filterMap_eq_map']
      apply List.map_congr_left
      intro p _
      simp only [evalE, evalX, evalX_pinX, evalX_pinY]
      ring

theorem dispersion_term (σ : V → α) (inp : Input α) :
    evalE σ (.scaled (Glb.one - inp.alpha) ((dVars inp).map fun v => T.var v)) = (1 - inp.alpha) * totalDispersion σ inp := by
  simp only [evalE, lsum_eq, List.map_map, Function.comp_def, evalT, Glb.one_eq, totalDispersion]

/-- **the objective**: what GEKKO is asked to minimise is `alpha · (total wire length) + (1 - alpha) · (total dispersion)`. -/
theorem objective_eq (σ : V → α) (inp : Input α) :
    objective σ (post inp) = inp.alpha * wireLength σ inp + (1 - inp.alpha) * totalDispersion σ inp := by
  rw [objective_eq_sum]
  simp only [post, rowsOf, objTerms_append, List.sum_append]
  rw [objTerms_of_eqns σ _ (capacityRows_isEqn inp),
    objTerms_flatMap_eqns σ _ _ (fun m _ => moduleRows_isEqn inp m),
    objTerms_flatMap_eqns σ _ _ (fun m _ => hardRows_isEqn inp m),
    objTerms_flatMap_sum]
  simp only [List.sum_nil, zero_add, objTerms, List.filterMap_cons, List.filterMap_nil, List.sum_cons, add_zero]
  rw [dispersion_term]
  congr 1
  unfold wireLength
  rw [← List.sum_map_mul_left]
  congr 1
  apply List.map_congr_left
  intro x _
  exact objTerms_edgeRows σ inp x.2 x.1.1 x.1.2

/-! ### the centroid rows are a weighted mean -/

theorem weighted_sum_bounds {β : Type} (l : List β) (wt p : β → α) (lo hi : α) (hw : ∀ c ∈ l, 0 ≤ wt c)
    (hp : ∀ c ∈ l, lo ≤ p c ∧ p c ≤ hi) :
    lo * (l.map wt).sum ≤ (l.map fun c => wt c * p c).sum ∧ (l.map fun c => wt c * p c).sum ≤ hi * (l.map wt).sum := by
  induction l with
  | nil => simp
  | cons c cs ih =>
    obtain ⟨i1, i2⟩ := ih (fun x hx => hw x (by simp [hx])) (fun x hx => hp x (by simp [hx]))
    have h0 := hw c (by simp)
    obtain ⟨h1, h2⟩ := hp c (by simp)
    simp only [List.map_cons, List.sum_cons]
    constructor <;> nlinarith

/-- the area given to a model module at a point. -/
def givenArea (σ : V → α) (inp : Input α) (m : Module α) : α :=
  ((cellIdx inp).map fun c => cellArea inp c * σ (.a m.name c)).sum

/-- **the centre of a model module lies between the extreme cell centres, scaled by (given area)/(own area)**: from the
    centroid rows, non-negative ratios and non-negative cell areas.  With the given area EQUAL to the module's area the
    centre is a convex combination of the centres of the cells (`centroid_in_hull`). -/
theorem centroid_between (inp : Input α) (σ : V → α) (tolI tolE : α) (hs : Sat σ tolI tolE (post inp)) (m : Module α)
    (hm : m ∈ modelModules inp.mods) (hpos : 0 < mmArea inp m)
    (hnn : ∀ c < inp.offered.length, 0 ≤ σ (.a m.name c)) (hA : ∀ c < inp.offered.length, 0 ≤ cellArea inp c)
    (xlo xhi ylo yhi : α)
    (hcx : ∀ c < inp.offered.length, xlo ≤ cellCx inp c ∧ cellCx inp c ≤ xhi)
    (hcy : ∀ c < inp.offered.length, ylo ≤ cellCy inp c ∧ cellCy inp c ≤ yhi) :
    xlo * (givenArea σ inp m / mmArea inp m) - tolE ≤ σ (.x m.name) ∧
    σ (.x m.name) ≤ xhi * (givenArea σ inp m / mmArea inp m) + tolE ∧
    ylo * (givenArea σ inp m / mmArea inp m) - tolE ≤ σ (.y m.name) ∧
    σ (.y m.name) ≤ yhi * (givenArea σ inp m / mmArea inp m) + tolE := by
  obtain ⟨hx, hy⟩ := centroid_row_meaning inp σ tolI tolE hs m hm
  have hw : ∀ c ∈ cellIdx inp, 0 ≤ cellArea inp c * σ (.a m.name c) := fun c hc =>
    mul_nonneg (hA c ((mem_cellIdx inp c).mp hc)) (hnn c ((mem_cellIdx inp c).mp hc))
  obtain ⟨bx1, bx2⟩ := weighted_sum_bounds (cellIdx inp) (fun c => cellArea inp c * σ (.a m.name c)) (cellCx inp) xlo xhi hw
    (fun c hc => hcx c ((mem_cellIdx inp c).mp hc))
  obtain ⟨by1, by2⟩ := weighted_sum_bounds (cellIdx inp) (fun c => cellArea inp c * σ (.a m.name c)) (cellCy inp) ylo yhi hw
    (fun c hc => hcy c ((mem_cellIdx inp c).mp hc))
  have ex : (cellIdx inp).map (fun c => cellArea inp c * cellCx inp c * σ (.a m.name c)) =
      (cellIdx inp).map (fun c => cellArea inp c * σ (.a m.name c) * cellCx inp c) :=
    List.map_congr_left fun c _ => by ring
  have ey : (cellIdx inp).map (fun c => cellArea inp c * cellCy inp c * σ (.a m.name c)) =
      (cellIdx inp).map (fun c => cellArea inp c * σ (.a m.name c) * cellCy inp c) :=
    List.map_congr_left fun c _ => by ring
  rw [ex] at hx
  rw [ey] at hy
  have hx' := abs_le.mp hx
  have hy' := abs_le.mp hy
  have hinv : 0 < 1 / mmArea inp m := by positivity
  unfold givenArea
  have m1 := mul_le_mul_of_nonneg_left bx1 (le_of_lt hinv)
  have m2 := mul_le_mul_of_nonneg_left bx2 (le_of_lt hinv)
  have m3 := mul_le_mul_of_nonneg_left by1 (le_of_lt hinv)
  have m4 := mul_le_mul_of_nonneg_left by2 (le_of_lt hinv)
  have r1 : ∀ k S : α, k * (S / mmArea inp m) = 1 / mmArea inp m * (k * S) := fun k S => by ring
  rw [r1, r1, r1, r1]
  refine ⟨by linarith [hx'.1], by linarith [hx'.2], by linarith [hy'.1], by linarith [hy'.2]⟩

/-- with exactly the module's area given, the centre is a convex combination of the cell centres. -/
theorem centroid_in_hull (inp : Input α) (σ : V → α) (tolI tolE : α) (hs : Sat σ tolI tolE (post inp)) (m : Module α)
    (hm : m ∈ modelModules inp.mods) (hpos : 0 < mmArea inp m) (hexact : givenArea σ inp m = mmArea inp m)
    (hnn : ∀ c < inp.offered.length, 0 ≤ σ (.a m.name c)) (hA : ∀ c < inp.offered.length, 0 ≤ cellArea inp c)
    (xlo xhi ylo yhi : α)
    (hcx : ∀ c < inp.offered.length, xlo ≤ cellCx inp c ∧ cellCx inp c ≤ xhi)
    (hcy : ∀ c < inp.offered.length, ylo ≤ cellCy inp c ∧ cellCy inp c ≤ yhi) :
    xlo - tolE ≤ σ (.x m.name) ∧ σ (.x m.name) ≤ xhi + tolE ∧ ylo - tolE ≤ σ (.y m.name) ∧ σ (.y m.name) ≤ yhi + tolE := by
  have h := centroid_between inp σ tolI tolE hs m hm hpos hnn hA xlo xhi ylo yhi hcx hcy
  rw [hexact, div_self (ne_of_gt hpos)] at h
  simpa using h

/-! ### constants are read back by FRAME, not by the solver -/

/-- `get_value` on the entries of `model.a / x / y`: an entry that is a float is itself, a `g.Var` is the solver's value. -/
def readBack (p : Posted α) (σ : V → α) : V → α :=
  fun v => match p.consts.lookup v with | some c => c | none => σ v

/-- the keys of the dictionaries `model.x / y / a` are distinct: names of the model modules (soft, fixed, `m_r` of the
    rectangles of movable hard modules) and of the movable hard modules.  (In Python a clash overwrites a dictionary entry;
    GEKKO then refuses the duplicate variable name — the run raises.) -/
def KeysDistinct (mods : List (Module α)) : Prop :=
  ((modelModules mods).map (·.name) ++ (mods.filter movable).map (·.name)).Nodup

def NamesOK (inp : Input α) : Prop := KeysDistinct inp.mods

theorem lookup_of_functional {β γ : Type} [BEq β] [LawfulBEq β] (l : List (β × γ)) (k : β) (v : γ) (hmem : (k, v) ∈ l)
    (hf : ∀ v', (k, v') ∈ l → v' = v) : l.lookup k = some v := by
  induction l with
  | nil => cases hmem
  | cons x xs ih =>
    obtain ⟨k', v'⟩ := x
    by_cases hk : k = k'
    · subst hk
      simp only [List.lookup_cons_self]
      rw [hf v' (by simp)]
    · have hne : (k == k') = false := by simpa using hk
      simp only [List.lookup_cons, hne]
      refine ih ?_ (fun w hw => hf w (by simp [hw]))
      rcases List.mem_cons.mp hmem with h | h
      · exact absurd (Prod.mk.inj h).1 hk
      · exact h

theorem lookup_none_of_not_key {β γ : Type} [BEq β] [LawfulBEq β] (l : List (β × γ)) (k : β)
    (h : ∀ v, (k, v) ∉ l) : l.lookup k = none := by
  induction l with
  | nil => rfl
  | cons x xs ih =>
    obtain ⟨k', v'⟩ := x
    have hk : k ≠ k' := fun e => h v' (by simp [e])
    have hne : (k == k') = false := by simpa using hk
    simp only [List.lookup_cons, hne]
    exact ih fun v hv => h v (by simp [hv])

theorem name_inj_model (inp : Input α) (hn : NamesOK inp) (m m' : Module α) (hm : m ∈ modelModules inp.mods)
    (hm' : m' ∈ modelModules inp.mods) (he : m.name = m'.name) : m = m' := by
  have hnd : ((modelModules inp.mods).map (·.name)).Nodup := (List.nodup_append.mp hn).1
  exact List.inj_on_of_nodup_map hnd hm hm' he

/-- membership in the constants table. -/
theorem mem_consts_iff (inp : Input α) (v : V) (c : α) : (v, c) ∈ (post inp).consts ↔
    (∃ m ∈ modelModules inp.mods, m.fixed = true ∧ v = .x m.name ∧ c = m.cx) ∨
    (∃ m ∈ modelModules inp.mods, m.fixed = true ∧ v = .y m.name ∧ c = m.cy) ∨
    (∃ m ∈ modelModules inp.mods, ∃ k, k < inp.offered.length ∧ constA inp m k = some c ∧ v = .a m.name k) := by
  simp only [post, constsOf, List.mem_append, List.mem_map, List.mem_filter, List.mem_flatMap, List.mem_filterMap,
    Option.map_eq_some_iff, Prod.mk.injEq, mem_cellIdx, or_assoc]
  constructor
  · rintro (⟨m, ⟨hm, hf⟩, h1, h2⟩ | ⟨m, ⟨hm, hf⟩, h1, h2⟩ | ⟨m, hm, k, hk, w, hw, h1, h2⟩)
    · exact Or.inl ⟨m, hm, hf, h1.symm, h2.symm⟩
    · exact Or.inr (Or.inl ⟨m, hm, hf, h1.symm, h2.symm⟩)
    · exact Or.inr (Or.inr ⟨m, hm, k, hk, by rw [hw, h2], h1.symm⟩)
  · rintro (⟨m, hm, hf, rfl, rfl⟩ | ⟨m, hm, hf, rfl, rfl⟩ | ⟨m, hm, k, hk, hc, rfl⟩)
    · exact Or.inl ⟨m, ⟨hm, hf⟩, rfl, rfl⟩
    · exact Or.inr (Or.inl ⟨m, ⟨hm, hf⟩, rfl, rfl⟩)
    · exact Or.inr (Or.inr ⟨m, hm, k, hk, c, hc, rfl, rfl⟩)

/-- with distinct names the constants table is a function: looking a constant up gives its value. -/
theorem consts_lookup (inp : Input α) (hn : NamesOK inp) (v : V) (c : α) (h : (v, c) ∈ (post inp).consts) :
    (post inp).consts.lookup v = some c := by
  apply lookup_of_functional _ _ _ h
  intro c' h'
  rcases (mem_consts_iff inp v c).mp h with ⟨m, hm, _, rfl, rfl⟩ | ⟨m, hm, _, rfl, rfl⟩ | ⟨m, hm, k, _, hc, rfl⟩
  · rcases (mem_consts_iff inp _ c').mp h' with ⟨m', hm', _, e, rfl⟩ | ⟨m', _, _, e, _⟩ | ⟨m', _, k, _, _, e⟩
    · rw [name_inj_model inp hn m m' hm hm' (V.x.inj e)]
    · cases e
    · cases e
  · rcases (mem_consts_iff inp _ c').mp h' with ⟨m', _, _, e, _⟩ | ⟨m', hm', _, e, rfl⟩ | ⟨m', _, k, _, _, e⟩
    · cases e
    · rw [name_inj_model inp hn m m' hm hm' (V.y.inj e)]
    · cases e
  · rcases (mem_consts_iff inp _ c').mp h' with ⟨m', _, _, e, _⟩ | ⟨m', _, _, e, _⟩ | ⟨m', hm', k', _, hc', e⟩
    · cases e
    · cases e
    · obtain ⟨e1, e2⟩ := V.a.inj e
      have := name_inj_model inp hn m m' hm hm' e1
      subst this; subst e2
      rw [hc] at hc'; exact (Option.some.inj hc').symm

theorem names_disjoint (inp : Input α) (hn : NamesOK inp) (mm m : Module α) (hmm : mm ∈ modelModules inp.mods)
    (hm : m ∈ inp.mods) (hmv : movable m = true) : mm.name ≠ m.name := by
  intro e
  have hd := (List.nodup_append.mp hn).2.2
  exact hd mm.name (List.mem_map.mpr ⟨mm, hmm, rfl⟩) m.name (List.mem_map.mpr ⟨m, List.mem_filter.mpr ⟨hm, hmv⟩, rfl⟩) e

/-- no declared variable is also a constant of the table. -/
theorem vars_not_const (inp : Input α) (hn : NamesOK inp) (d : V × Option α × Option α) (hd : d ∈ (post inp).vars) (c : α) :
    (d.1, c) ∉ (post inp).consts := by
  intro hc
  simp only [post, varsOf, List.mem_append, List.mem_flatMap, List.mem_filterMap, List.mem_filter, List.mem_map,
    mem_cellIdx] at hd
  rcases hd with ((⟨mm, hmm, hd⟩ | ⟨mm, hmm, k, hk, hd⟩) | ⟨m, ⟨hm, hmv⟩, hd⟩) | ⟨⟨ed, e⟩, _, hd⟩
  · split at hd
    · cases hd
    · rename_i hnf
      simp only [xyVars, List.mem_append, List.mem_cons, List.not_mem_nil, or_false] at hd
      rcases hd with (rfl | rfl) | rfl
      · rcases (mem_consts_iff inp _ c).mp hc with ⟨m', hm', hf, e, _⟩ | ⟨m', _, _, e, _⟩ | ⟨m', _, k, _, _, e⟩
        · rw [name_inj_model inp hn mm m' hmm hm' (V.x.inj e)] at hnf; exact hnf hf
        · cases e
        · cases e
      · rcases (mem_consts_iff inp _ c).mp hc with ⟨m', _, _, e, _⟩ | ⟨m', hm', hf, e, _⟩ | ⟨m', _, k, _, _, e⟩
        · cases e
        · rw [name_inj_model inp hn mm m' hmm hm' (V.y.inj e)] at hnf; exact hnf hf
        · cases e
      · rcases (mem_consts_iff inp _ c).mp hc with ⟨m', _, _, e, _⟩ | ⟨m', _, _, e, _⟩ | ⟨m', _, k, _, _, e⟩ <;> cases e
  · cases hca : constA inp mm k with
    | some w => rw [hca] at hd; cases hd
    | none =>
      rw [hca] at hd
      simp only [Option.some.injEq] at hd
      subst hd
      rcases (mem_consts_iff inp _ c).mp hc with ⟨m', _, _, e, _⟩ | ⟨m', _, _, e, _⟩ | ⟨m', hm', k', _, hc', e⟩
      · cases e
      · cases e
      · obtain ⟨e1, e2⟩ := V.a.inj e
        have := name_inj_model inp hn mm m' hmm hm' e1
        subst this; subst e2
        rw [hca] at hc'; cases hc'
  · simp only [xyVars, List.mem_append, List.mem_cons, List.not_mem_nil, or_false, List.mem_map, mem_cellIdx] at hd
    rcases hd with (rfl | rfl) | ⟨k, _, rfl⟩
    · rcases (mem_consts_iff inp _ c).mp hc with ⟨m', hm', _, e, _⟩ | ⟨m', _, _, e, _⟩ | ⟨m', _, k, _, _, e⟩
      · exact names_disjoint inp hn m' m hm' hm hmv (V.x.inj e).symm
      · cases e
      · cases e
    · rcases (mem_consts_iff inp _ c).mp hc with ⟨m', _, _, e, _⟩ | ⟨m', hm', _, e, _⟩ | ⟨m', _, k, _, _, e⟩
      · cases e
      · exact names_disjoint inp hn m' m hm' hm hmv (V.y.inj e).symm
      · cases e
    · rcases (mem_consts_iff inp _ c).mp hc with ⟨m', _, _, e, _⟩ | ⟨m', _, _, e, _⟩ | ⟨m', hm', k', _, _, e⟩
      · cases e
      · cases e
      · exact names_disjoint inp hn m' m hm' hm hmv (V.a.inj e).1.symm
  · split at hd
    · cases hd
    · simp only [List.mem_cons, List.not_mem_nil, or_false] at hd
      rcases hd with rfl | rfl <;>
        (rcases (mem_consts_iff inp _ c).mp hc with ⟨m', _, _, e, _⟩ | ⟨m', _, _, e, _⟩ | ⟨m', _, k, _, _, e⟩ <;> cases e)

/-- WHAT IS ASKED OF THE SOLVER ALONE: its values `σ` of the declared VARIABLES respect their bounds, and every posted row
    holds (within tolerance) once FRAME's constants are put back.  Nothing is asked about the constants. -/
structure SatVars (σ : V → α) (tolI tolE : α) (p : Posted α) : Prop where
  vars : ∀ d ∈ p.vars, (∀ lb, d.2.1 = some lb → lb ≤ σ d.1) ∧ (∀ ub, d.2.2 = some ub → σ d.1 ≤ ub)
  rows : ∀ r ∈ p.rows, holds (readBack p σ) tolI tolE r

/-- **the constants are FRAME's, not the solver's**: with distinct dictionary keys, a solver point that meets `SatVars`
    gives, after the constants are read back (`get_value` of a float is the float), a point satisfying the whole posted
    system `Sat` — the `consts` clause is discharged by construction. -/
theorem sat_of_satVars (inp : Input α) (hn : NamesOK inp) (σ : V → α) (tolI tolE : α)
    (h : SatVars σ tolI tolE (post inp)) : Sat (readBack (post inp) σ) tolI tolE (post inp) := by
  refine ⟨fun d hd => ?_, fun d hd => ?_, h.rows⟩
  · have : readBack (post inp) σ d.1 = σ d.1 := by
      unfold readBack
      rw [lookup_none_of_not_key _ _ (fun c => vars_not_const inp hn d hd c)]
    rw [this]; exact h.vars d hd
  · unfold readBack
    rw [consts_lookup inp hn d.1 d.2 hd]

/-! ### the dictionary keys do not change along the loop -/

/-- what the keys depend on: name, flags, number of rectangles. -/
def SameShape (m m' : Module α) : Prop :=
  m'.name = m.name ∧ m'.hard = m.hard ∧ m'.fixed = m.fixed ∧ m'.rects.length = m.rects.length

theorem modelModules_cons (m : Module α) (ms : List (Module α)) :
    modelModules (m :: ms) =
      (if (!m.hard || m.fixed) = true then [m] else m.rects.zipIdx.map fun (rect, r) => fakeModule m r rect) ++
        modelModules ms := by
  simp [modelModules, List.flatMap_cons]

theorem names_one (m : Module α) :
    ((if (!m.hard || m.fixed) = true then [m] else m.rects.zipIdx.map fun (rect, r) => fakeModule m r rect).map (·.name)) =
      (if (!m.hard || m.fixed) = true then [m.name] else (List.range' 0 m.rects.length).map (subName m.name)) := by
  split
  · rfl
  · rw [List.map_map, ← List.zipIdx_map_snd 0 m.rects, List.map_map]
    apply List.map_congr_left
    rintro ⟨rect, r⟩ _
    rfl

theorem model_names_congr (a b : List (Module α)) (h : List.Forall₂ SameShape a b) :
    (modelModules a).map (·.name) = (modelModules b).map (·.name) ∧
    (a.filter movable).map (·.name) = (b.filter movable).map (·.name) := by
  induction h with
  | nil => exact ⟨rfl, rfl⟩
  | cons hm ht ih =>
    rename_i m m' ms ms'
    obtain ⟨hn, hh, hf, hl⟩ := hm
    refine ⟨?_, ?_⟩
    · rw [modelModules_cons, modelModules_cons, List.map_append, List.map_append, names_one, names_one, ih.1, hn, hh, hf, hl]
    · have : movable m' = movable m := by unfold movable; rw [hh, hf]
      simp only [List.filter_cons, this]
      split
      · simp only [List.map_cons, hn, ih.2]
      · exact ih.2

theorem keysDistinct_congr (a b : List (Module α)) (h : List.Forall₂ SameShape a b) (hn : KeysDistinct a) :
    KeysDistinct b := by
  unfold KeysDistinct at hn ⊢
  obtain ⟨h1, h2⟩ := model_names_congr _ _ h
  rw [← h1, ← h2]; exact hn

end FV.GlbOpt

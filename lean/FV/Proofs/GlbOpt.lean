import FV.Model.GlbOpt
import FV.Proofs.Glb
/-
  Meaning of what `optimize_allocation` posts (`FV/Model/GlbOpt.lean`): an assignment that satisfies the generated bounds,
  constants and equations (inequalities within `tolI`, equalities within `tolE`) has the properties the C10 theorems
  assume of the solver's answer.
-/
namespace FV.GlbOpt
open FV FV.Glb
set_option linter.unusedSectionVars false
set_option linter.unusedVariables false
set_option linter.unusedSimpArgs false

variable {α : Type} [Field α] [LinearOrder α] [IsStrictOrderedRing α]

theorem lsum_eq (l : List α) : lsum l = l.sum := by
  induction l with
  | nil => simp [lsum]
  | cons x xs ih => simp [lsum, ih]

/-- a row holds under `σ`: `<=` / `>=` within `tolI`, `==` within `tolE`; body-less rows say nothing. -/
def holds (σ : V → α) (tolI tolE : α) : Row α → Prop
  | .stub _ _ => True
  | .eqn _ l .le r => evalE σ l ≤ evalE σ r + tolI
  | .eqn _ l .ge r => evalE σ r ≤ evalE σ l + tolI
  | .eqn _ l .eq r => |evalE σ l - evalE σ r| ≤ tolE

/-- `σ` is a point satisfying what was posted: declared bounds exactly, constants exactly, rows within tolerance. -/
structure Sat (σ : V → α) (tolI tolE : α) (p : Posted α) : Prop where
  vars : ∀ d ∈ p.vars, (∀ lb, d.2.1 = some lb → lb ≤ σ d.1) ∧ (∀ ub, d.2.2 = some ub → σ d.1 ≤ ub)
  consts : ∀ d ∈ p.consts, σ d.1 = d.2
  rows : ∀ r ∈ p.rows, holds σ tolI tolE r

/-- the answer `extract_solution` reads from the point (`get_value` of every entry of `model.a/x/y`). -/
def ansOf (σ : V → α) : Answer α := ⟨fun n c => σ (.a n c), fun n => σ (.x n), fun n => σ (.y n)⟩

theorem movable_iff (m : Module α) : movable m = true ↔ ¬ ((!m.hard || m.fixed) = true) := by
  unfold movable; cases m.hard <;> cases m.fixed <;> simp

theorem mem_modelModules_self (mods : List (Module α)) (m : Module α) (hm : m ∈ mods) (hnm : movable m = false) :
    m ∈ modelModules mods := by
  unfold modelModules
  rw [List.mem_flatMap]
  refine ⟨m, hm, ?_⟩
  have : (!m.hard || m.fixed) = true := by
    by_contra h; exact absurd ((movable_iff m).mpr h) (by simp [hnm])
  simp [this]

theorem mem_modelModules_fake (mods : List (Module α)) (m f : Module α) (hm : m ∈ mods) (hmv : movable m = true)
    (hf : f ∈ fakes m) : f ∈ modelModules mods := by
  unfold modelModules
  rw [List.mem_flatMap]
  refine ⟨m, hm, ?_⟩
  have : ¬ ((!m.hard || m.fixed) = true) := (movable_iff m).mp hmv
  simp only [this, if_false]
  exact hf

/-- model modules are never movable hard modules with several rectangles… they are soft, fixed, or fakes; in
    particular a model module that is `fixed` is a fixed module of the netlist. -/
theorem fixed_of_modelModules (mods : List (Module α)) (mm : Module α) (h : mm ∈ modelModules mods)
    (hfx : mm.fixed = true) : mm ∈ mods := by
  unfold modelModules at h
  rw [List.mem_flatMap] at h
  obtain ⟨m, hm, hmm⟩ := h
  split at hmm
  · simp only [List.mem_singleton] at hmm; rw [hmm]; exact hm
  · simp only [List.mem_map] at hmm
    obtain ⟨⟨rect, r⟩, _, rfl⟩ := hmm
    simp [fakeModule] at hfx

theorem mem_cellIdx (inp : Input α) (c : Nat) : c ∈ cellIdx inp ↔ c < inp.offered.length := by
  simp [cellIdx]

/-- the value of `model.a[mm][c]` as a sum element is the point's (or the constant's) value of that entry. -/
theorem evalT_aTerm (inp : Input α) (σ : V → α) (tolI tolE : α) (hs : Sat σ tolI tolE (post inp)) (mm : Module α)
    (hmm : mm ∈ modelModules inp.mods) (c : Nat) (hc : c < inp.offered.length) :
    evalT σ (aTerm inp mm c) = σ (.a mm.name c) := by
  unfold aTerm
  cases hca : constA inp mm c with
  | none => rfl
  | some v =>
    simp only [evalT]
    have : (V.a mm.name c, v) ∈ (post inp).consts := by
      simp only [post, constsOf, List.mem_append, List.mem_flatMap, List.mem_filterMap, Option.map_eq_some_iff]
      right
      exact ⟨mm, hmm, c, (mem_cellIdx inp c).mpr hc, v, hca, rfl⟩
    exact (hs.consts _ this).symm

/-- every ratio entry of a model module is a constant of the table or a variable with bounds `[0,1]`. -/
theorem a_model_bounds (inp : Input α) (σ : V → α) (tolI tolE : α) (hs : Sat σ tolI tolE (post inp))
    (hunit : ∀ mm ∈ modelModules inp.mods, ∀ c v, getA inp.offered mm c = some v → 0 ≤ v ∧ v ≤ 1)
    (mm : Module α) (hmm : mm ∈ modelModules inp.mods) (c : Nat) (hc : c < inp.offered.length) :
    0 ≤ σ (.a mm.name c) ∧ σ (.a mm.name c) ≤ 1 := by
  cases hca : constA inp mm c with
  | some v =>
    have hmem : (V.a mm.name c, v) ∈ (post inp).consts := by
      simp only [post, constsOf, List.mem_append, List.mem_flatMap, List.mem_filterMap, Option.map_eq_some_iff]
      right
      exact ⟨mm, hmm, c, (mem_cellIdx inp c).mpr hc, v, hca, rfl⟩
    rw [hs.consts _ hmem]
    unfold constA at hca
    cases hg : getA inp.offered mm c with
    | none => rw [hg] at hca; cases hca
    | some w =>
      rw [hg] at hca
      simp only at hca
      split at hca
      · cases hca; exact hunit mm hmm c v hg
      · cases hca
  | none =>
    have hmem : (V.a mm.name c, some (Glb.zero : α), some (Glb.one : α)) ∈ (post inp).vars := by
      simp only [post, varsOf, List.mem_append, List.mem_flatMap, List.mem_filterMap]
      left; right
      refine ⟨mm, hmm, c, (mem_cellIdx inp c).mpr hc, ?_⟩
      rw [hca]
    obtain ⟨h1, h2⟩ := hs.vars _ hmem
    exact ⟨by simpa using h1 _ rfl, by simpa using h2 _ rfl⟩

/-- the ratio variables of a movable hard module have bounds `[0,1]`, its centre variables the die's. -/
theorem movable_bounds (inp : Input α) (σ : V → α) (tolI tolE : α) (hs : Sat σ tolI tolE (post inp))
    (m : Module α) (hm : m ∈ inp.mods) (hmv : movable m = true) :
    (∀ c < inp.offered.length, 0 ≤ σ (.a m.name c) ∧ σ (.a m.name c) ≤ 1) ∧
    (inp.die.xmin ≤ σ (.x m.name) ∧ σ (.x m.name) ≤ inp.die.xmax ∧
     inp.die.ymin ≤ σ (.y m.name) ∧ σ (.y m.name) ≤ inp.die.ymax) := by
  have hin : ∀ d, d ∈ xyVars inp m.name ++ (cellIdx inp).map (fun c => (V.a m.name c, some (Glb.zero : α), some (Glb.one : α))) →
      d ∈ (post inp).vars := by
    intro d hd
    simp only [post, varsOf, List.mem_append, List.mem_flatMap, List.mem_filter]
    right
    exact ⟨m, ⟨hm, hmv⟩, List.mem_append.mp hd⟩
  refine ⟨fun c hc => ?_, ?_⟩
  · obtain ⟨h1, h2⟩ := hs.vars _ (hin (V.a m.name c, some Glb.zero, some Glb.one)
      (List.mem_append.mpr (Or.inr (List.mem_map.mpr ⟨c, (mem_cellIdx inp c).mpr hc, rfl⟩))))
    exact ⟨by simpa using h1 _ rfl, by simpa using h2 _ rfl⟩
  · obtain ⟨hx1, hx2⟩ := hs.vars _ (hin (V.x m.name, some inp.die.xmin, some inp.die.xmax) (by simp [xyVars]))
    obtain ⟨hy1, hy2⟩ := hs.vars _ (hin (V.y m.name, some inp.die.ymin, some inp.die.ymax) (by simp [xyVars]))
    exact ⟨hx1 _ rfl, hx2 _ rfl, hy1 _ rfl, hy2 _ rfl⟩

/-- the centre variables of a non-fixed model module have the die's bounds. -/
theorem model_centre_bounds (inp : Input α) (σ : V → α) (tolI tolE : α) (hs : Sat σ tolI tolE (post inp))
    (mm : Module α) (hmm : mm ∈ modelModules inp.mods) (hnf : mm.fixed = false) :
    inp.die.xmin ≤ σ (.x mm.name) ∧ σ (.x mm.name) ≤ inp.die.xmax ∧
    inp.die.ymin ≤ σ (.y mm.name) ∧ σ (.y mm.name) ≤ inp.die.ymax := by
  have hin : ∀ d, d ∈ xyVars inp mm.name → d ∈ (post inp).vars := by
    intro d hd
    simp only [post, varsOf, List.mem_append, List.mem_flatMap]
    left; left
    refine ⟨mm, hmm, ?_⟩
    simp only [hnf, Bool.false_eq_true, if_false, List.mem_append]
    exact Or.inl hd
  obtain ⟨hx1, hx2⟩ := hs.vars _ (hin (V.x mm.name, some inp.die.xmin, some inp.die.xmax) (by simp [xyVars]))
  obtain ⟨hy1, hy2⟩ := hs.vars _ (hin (V.y mm.name, some inp.die.ymin, some inp.die.ymax) (by simp [xyVars]))
  exact ⟨hx1 _ rfl, hx2 _ rfl, hy1 _ rfl, hy2 _ rfl⟩

/-- the constants of a fixed module. -/
theorem fixed_consts (inp : Input α) (σ : V → α) (tolI tolE : α) (hs : Sat σ tolI tolE (post inp))
    (f : Module α) (hf : f ∈ inp.mods) (hfx : f.fixed = true) :
    σ (.x f.name) = f.cx ∧ σ (.y f.name) = f.cy ∧
    ∀ c v, getA inp.offered f c = some v → σ (.a f.name c) = v := by
  have hnm : movable f = false := by simp [movable, hfx]
  have hmm := mem_modelModules_self inp.mods f hf hnm
  refine ⟨?_, ?_, ?_⟩
  · have : (V.x f.name, f.cx) ∈ (post inp).consts := by
      simp only [post, constsOf, List.mem_append, List.mem_map, List.mem_filter]
      left; left; exact ⟨f, ⟨hmm, hfx⟩, rfl⟩
    exact hs.consts _ this
  · have : (V.y f.name, f.cy) ∈ (post inp).consts := by
      simp only [post, constsOf, List.mem_append, List.mem_map, List.mem_filter]
      left; right; exact ⟨f, ⟨hmm, hfx⟩, rfl⟩
    exact hs.consts _ this
  · intro c v hg
    have hc : c < inp.offered.length := by
      unfold getA at hg
      by_contra hge
      rw [List.getElem?_eq_none (Nat.le_of_not_lt hge)] at hg; cases hg
    have hca : constA inp f c = some v := by
      unfold constA; rw [hg]
      have : aIsConst inp.epsD inp.thr inp.offered f c = true := by
        unfold aIsConst; rw [hg]; simp [hfx]
      simp [this]
    have : (V.a f.name c, v) ∈ (post inp).consts := by
      simp only [post, constsOf, List.mem_append, List.mem_flatMap, List.mem_filterMap, Option.map_eq_some_iff]
      right
      exact ⟨f, hmm, c, (mem_cellIdx inp c).mpr hc, v, hca, rfl⟩
    exact hs.consts _ this

/-! ### the capacity rows -/

/-- sum over the model modules = sum over the netlist's modules of (the module itself | its fakes). -/
theorem sum_modelModules (mods : List (Module α)) (g : Module α → α) :
    ((modelModules mods).map g).sum =
      (mods.map fun m => if movable m then ((fakes m).map g).sum else g m).sum := by
  induction mods with
  | nil => simp [modelModules]
  | cons m ms ih =>
    have hcons : modelModules (m :: ms) =
        (if (!m.hard || m.fixed) = true then [m] else m.rects.zipIdx.map fun (rect, r) => fakeModule m r rect) ++
          modelModules ms := by
      simp [modelModules, List.flatMap_cons]
    rw [hcons, List.map_append, List.sum_append, ih, List.map_cons, List.sum_cons]
    congr 1
    by_cases hmv : movable m = true
    · have : ¬ ((!m.hard || m.fixed) = true) := (movable_iff m).mp hmv
      simp only [this, if_false, hmv, if_true]; rfl
    · have h1 : (!m.hard || m.fixed) = true := by
        by_contra h; exact hmv ((movable_iff m).mpr h)
      have h2 : movable m = false := by simpa using hmv
      simp [h1, h2]

theorem sum_le_add_count (mods : List (Module α)) (h g : Module α → α) (p : Module α → Bool) (t : α)
    (hle : ∀ m ∈ mods, h m ≤ g m + (if p m then t else 0)) :
    (mods.map h).sum ≤ (mods.map g).sum + ((mods.filter p).length : α) * t := by
  induction mods with
  | nil => simp
  | cons m ms ih =>
    have h1 := hle m (by simp)
    have h2 := ih (fun x hx => hle x (by simp [hx]))
    by_cases hp : p m = true
    · simp only [List.map_cons, List.sum_cons, List.filter_cons, hp, if_true, List.length_cons, Nat.cast_add,
        Nat.cast_one] at h1 ⊢
      nlinarith
    · have hp' : p m = false := by simpa using hp
      simp only [List.map_cons, List.sum_cons, List.filter_cons, hp', Bool.false_eq_true, if_false, add_zero] at h1 ⊢
      linarith

theorem capacity_row_mem (inp : Input α) (c : Nat) (hc : c < inp.offered.length) :
    Row.eqn s!"cap_{c}" (.sum ((modelModules inp.mods).map fun m => aTerm inp m c)) .le (.num Glb.one) ∈ (post inp).rows := by
  simp only [post, rowsOf, capacityRows, List.mem_append, List.mem_map]
  left; left; left; left
  exact ⟨c, (mem_cellIdx inp c).mpr hc, rfl⟩

theorem hsum_row_mem (inp : Input α) (m : Module α) (hm : m ∈ inp.mods) (hmv : movable m = true) (c : Nat)
    (hc : c < inp.offered.length) :
    Row.eqn s!"hsum_{m.name}_{c}" (.var (.a m.name c)) .eq (.sum ((fakes m).map fun f => aTerm inp f c)) ∈ (post inp).rows := by
  simp only [post, rowsOf, List.mem_append, List.mem_flatMap, List.mem_filter]
  left; left; right
  refine ⟨m, ⟨hm, hmv⟩, ?_⟩
  simp only [hardRows, List.mem_append, List.mem_map]
  left; right
  exact ⟨c, (mem_cellIdx inp c).mpr hc, rfl⟩

/-- **rows**: the capacity equation of a cell and the `a[m][c] == Σ_r a[m_r][c]` equations of the movable hard modules
    bound the sum over the NETLIST's modules by `1 + tolI + (#movable hard modules)·tolE`. -/
theorem rows_of_sat (inp : Input α) (σ : V → α) (tolI tolE : α) (hs : Sat σ tolI tolE (post inp)) (c : Nat)
    (hc : c < inp.offered.length) :
    (inp.mods.map fun m => σ (.a m.name c)).sum ≤ 1 + (tolI + ((inp.mods.filter movable).length : α) * tolE) := by
  have hcap := hs.rows _ (capacity_row_mem inp c hc)
  simp only [holds, evalE, lsum_eq, List.map_map, Glb.one_eq] at hcap
  have hcap' : ((modelModules inp.mods).map fun mm => σ (.a mm.name c)).sum ≤ 1 + tolI := by
    have : (modelModules inp.mods).map (evalT σ ∘ fun m => aTerm inp m c) =
        (modelModules inp.mods).map fun mm => σ (.a mm.name c) :=
      List.map_congr_left fun mm hmm => evalT_aTerm inp σ tolI tolE hs mm hmm c hc
    rw [this] at hcap; exact hcap
  rw [sum_modelModules] at hcap'
  have hstep := sum_le_add_count inp.mods (fun m => σ (.a m.name c))
    (fun m => if movable m then ((fakes m).map fun mm => σ (.a mm.name c)).sum else σ (.a m.name c)) movable tolE ?_
  · linarith
  · intro m hm
    by_cases hmv : movable m = true
    · simp only [hmv, if_true]
      have hrow := hs.rows _ (hsum_row_mem inp m hm hmv c hc)
      simp only [holds, evalE, lsum_eq, List.map_map] at hrow
      have : (fakes m).map (evalT σ ∘ fun f => aTerm inp f c) = (fakes m).map fun mm => σ (.a mm.name c) :=
        List.map_congr_left fun f hf => evalT_aTerm inp σ tolI tolE hs f (mem_modelModules_fake inp.mods m f hm hmv hf) c hc
      rw [this] at hrow
      have := (abs_le.mp hrow).2
      linarith
    · have h2 : movable m = false := by simpa using hmv
      simp [h2]

end FV.GlbOpt

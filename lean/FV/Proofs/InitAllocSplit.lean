import FV.Proofs.InitAllocDie
import FV.Props.C11
/-
  Bridge between die refinement (C11: `split_refinable_regions`, `initial_grid`; model `FV/Model/SplitRects.lean`,
  theorems `FV.C11.dieSplit_refines`, `initialGrid_spec`) and the initial allocation (C03).

  C11 states its result as `SplitRects.Refines ins outs`: up to order, `outs` is the concatenation of one EXACT TILING
  (`TilesN`: pieces inside, pairwise non-overlapping, areas adding up) per input region.  That is weaker than the
  guillotine `Dissection` of C03 (it does not record the cuts) but it is all the C03 theorems need: overlap is additive
  over any exact tiling (`InitAlloc.tiling_overlap`), so `Refines` plays for refined dies the role `Dissection` plays
  in `allocated_area_of_dissection`.  (A literal `Dissection` would have to be threaded through the loop invariant of
  `splitRectangles_sound`; it is not needed for any C03 clause.)

  ADAPTER: C11's die record `SplitRects.DieSt` and C01's `Die.DieOut` hold the same five fields; `toDieSt` copies them
  (outline `dieRect W H`).
-/
namespace FV.InitAlloc
open FV FV.Rect
set_option linter.unusedSectionVars false
set_option linter.unusedSimpArgs false
set_option linter.unusedVariables false

variable {α : Type} [Field α] [LinearOrder α] [IsStrictOrderedRing α]

/-- adapter: the `Die` object of C01 as the die state of C11. -/
def toDieSt (out : Die.DieOut α) : SplitRects.DieSt α :=
  ⟨Die.dieRect out.W out.H, out.specialized, out.ground, out.blockages, out.fixed⟩

theorem inside_of_pieceOf {r p : Rect α} (h : SplitRects.PieceOf r p) : Inside p r := by
  have := (C18.isInside_iff_coords p r).mp h.1
  exact ⟨this.1, this.2.2.1, this.2.1, this.2.2.2⟩

theorem ovLen_mono_left (a b a' b' l h : α) (h1 : a ≤ a') (h2 : b' ≤ b) : ovLen a' b' l h ≤ ovLen a b l h := by
  unfold ovLen; grind

/-- a rectangle inside another overlaps a third one no more than the outer one does. -/
theorem areaOverlap_mono_left (o i f : Rect α) (h : Inside o i) : o.areaOverlap f ≤ i.areaOverlap f := by
  obtain ⟨h1, h2, h3, h4⟩ := h
  rw [areaOverlap_eq, areaOverlap_eq]
  exact mul_le_mul (ovLen_mono_left _ _ _ _ _ _ h1 h2) (ovLen_mono_left _ _ _ _ _ _ h3 h4) (ovLen_nonneg ..) (ovLen_nonneg ..)

/-- overlap is additive over an exact tiling in the sense of C11. -/
theorem tilesN_overlap (r : Rect α) (ps : List (Rect α)) (h : SplitRects.TilesN r ps) (hr : 0 ≤ r.w ∧ 0 ≤ r.h)
    (s : Rect α) (hs : 0 ≤ s.w ∧ 0 ≤ s.h) :
    (ps.map fun p => p.areaOverlap s).sum = r.areaOverlap s :=
  tiling_overlap r ps hr h.disjoint
    (fun p hp => ⟨le_of_lt (h.piece p hp).2.2.2.2.1, le_of_lt (h.piece p hp).2.2.2.2.2⟩)
    (fun p hp => inside_of_pieceOf (h.piece p hp)) h.area s hs

/-- … hence over a refinement in the sense of C11. -/
theorem refines_overlap (ins outs : List (Rect α)) (h : SplitRects.Refines ins outs)
    (hpos : ∀ r ∈ ins, 0 < r.w ∧ 0 < r.h) (s : Rect α) (hs : 0 ≤ s.w ∧ 0 ≤ s.h) :
    (outs.map fun p => p.areaOverlap s).sum = (ins.map fun p => p.areaOverlap s).sum := by
  obtain ⟨g, hg, hperm⟩ := h
  rw [(hperm.map _).sum_eq]
  clear hperm
  induction hg with
  | nil => simp
  | @cons a b l1 l2 ht _ ih =>
    have ha := hpos a List.mem_cons_self
    simp only [List.flatten_cons, List.map_append, List.sum_append, List.map_cons, List.sum_cons]
    rw [tilesN_overlap a b ht ⟨le_of_lt ha.1, le_of_lt ha.2⟩ s hs,
      ih (fun r hr => hpos r (List.mem_cons_of_mem _ hr))]

theorem refines_overlapSum (ins outs : List (Rect α)) (h : SplitRects.Refines ins outs)
    (hpos : ∀ r ∈ ins, 0 < r.w ∧ 0 < r.h) (rs : List (Rect α)) (hrs : ∀ r ∈ rs, 0 ≤ r.w ∧ 0 ≤ r.h) :
    (outs.map fun c => overlapSum c rs).sum = (ins.map fun c => overlapSum c rs).sum := by
  induction rs with
  | nil => simp [overlapSum_nil]
  | cons r rs ih =>
    simp only [overlapSum_cons, List.sum_map_add]
    rw [ih (fun x hx => hrs x (List.mem_cons_of_mem _ hx)), refines_overlap ins outs h hpos r (hrs r List.mem_cons_self)]

/-- `FixedOK` survives refinement of the refinable cells (the fixed cells — the fixed modules' rectangles — are
    untouched). -/
theorem fixedOK_of_refines (mods : List (Module α)) (ins outs fixed : List (Rect α))
    (hf : FixedOK mods (ins ++ fixed)) (hfix : fixed = netFixedRects mods) (h : SplitRects.Refines ins outs) :
    FixedOK mods (outs ++ fixed) where
  cells_disjoint := by
    have hd := List.pairwise_append.mp hf.cells_disjoint
    refine List.pairwise_append.mpr ⟨SplitRects.refines_disjoint ins outs h hd.1, hd.2.1, ?_⟩
    intro o ho f hfm
    obtain ⟨i, hi, hp⟩ := SplitRects.refines_mem ins outs h o ho
    have h0 := hd.2.2 i hi f hfm
    unfold NoOverlap at h0 ⊢
    have := areaOverlap_mono_left o i f (inside_of_pieceOf hp)
    exact le_antisymm (by rw [← h0]; exact this) (areaOverlap_nonneg' o f)
  fixed_have_rects := hf.fixed_have_rects
  fixed_are_cells := by
    intro m hm hfx r hr
    refine ⟨r, List.mem_append_right _ ?_, rfl, rfl, rfl, rfl⟩
    rw [hfix]; exact (mem_netFixedRects mods r).mpr ⟨m, hm, hfx, hr⟩
  fixed_apart := hf.fixed_apart

theorem cellsProper_of_refines (ins outs fixed : List (Rect α)) (hc : CellsProper (ins ++ fixed))
    (h : SplitRects.Refines ins outs) : CellsProper (outs ++ fixed) := by
  intro c hcm
  rcases List.mem_append.mp hcm with hcm | hcm
  · obtain ⟨i, _, hp⟩ := SplitRects.refines_mem ins outs h c hcm
    exact ⟨hp.2.2.2.2.1, hp.2.2.2.2.2⟩
  · exact hc c (List.mem_append_right _ hcm)

theorem unflagged_of_refines (ins outs : List (Rect α)) (hu : ∀ c ∈ ins, c.fixed = false)
    (h : SplitRects.Refines ins outs) : ∀ c ∈ outs, c.fixed = false := by
  intro c hcm
  obtain ⟨i, hi, hp⟩ := SplitRects.refines_mem ins outs h c hcm
  rw [hp.2.2.1]; exact hu i hi

/-- the area of a shape on the first part of an exact tiling of the die: inside the die minus what lies on the rest. -/
theorem tiling_formula (die : Rect α) (cs others rs : List (Rect α)) (hdie : 0 ≤ die.w ∧ 0 ≤ die.h)
    (hpw : (cs ++ others).Pairwise fun a b => a.areaOverlap b = 0) (hpos : ∀ c ∈ cs ++ others, 0 ≤ c.w ∧ 0 ≤ c.h)
    (hin : ∀ c ∈ cs ++ others, Inside c die) (harea : ((cs ++ others).map Rect.area).sum = die.area)
    (hrs : ∀ r ∈ rs, 0 ≤ r.w ∧ 0 ≤ r.h) :
    (cs.map fun c => overlapSum c rs).sum =
      (rs.map fun r => die.areaOverlap r - (others.map fun b => b.areaOverlap r).sum).sum := by
  induction rs with
  | nil => simp [overlapSum_nil]
  | cons r rs ih =>
    simp only [overlapSum_cons, List.sum_map_add, List.map_cons, List.sum_cons]
    rw [ih (fun x hx => hrs x (List.mem_cons_of_mem _ hx))]
    have ht := tiling_overlap die _ hdie hpw hpos hin harea r (hrs r List.mem_cons_self)
    rw [List.map_append, List.sum_append] at ht
    linarith

end FV.InitAlloc

import FV.Model.DieNet
import FV.Proofs.Die
import FV.Proofs.Netlist
/-
  Helper lemmas for the front of the die constructor (C01): source kinds, the `<w>x<h>` shorthand, the attached netlist
  (`FV/Model/DieNet.lean`).  Inversion lemmas ("if it returned `ok`, then …") and the facts about the netlist's fixed rectangles
  that come from the C05 reader lemmas (`FV/Proofs/Netlist.lean`).
-/
namespace FV.DieNet
open FV FV.Rect FV.Die
set_option linter.unusedSectionVars false
set_option linter.unusedVariables false
set_option linter.unusedSimpArgs false

variable {α : Type} [Field α] [LinearOrder α] [IsStrictOrderedRing α]

/-- `dieModel` is `parseDie` followed by `dieOfIn`. -/
theorem dieModel_eq (sqrt : α → α) (st : Option (α × α)) (doc : YV α) (fixed : List (Rect α))
    (picks : Option (List IRect)) :
    dieModel sqrt st doc fixed picks =
      match parseDie doc with
      | .error e => .error e
      | .ok inp => dieOfIn sqrt st inp fixed picks := by
  unfold dieModel dieOfIn
  cases parseDie doc <;> rfl

/-- what a successful run of the constructor body establishes. -/
theorem dieOfIn_ok (sqrt : α → α) (st : Option (α × α)) (inp : DieIn α) (fixed : List (Rect α))
    (picks : Option (List IRect)) (out : DieOut α) (e : Eps α) (st' : α × α)
    (h : dieOfIn sqrt st inp fixed picks = .ok (out, e, st')) :
    e = (mkEps sqrt st inp.W inp.H).1 ∧ st' = (mkEps sqrt st inp.W inp.H).2 ∧
    ∃ p, (picks = some p ∨ (picks = none ∧ detPicks (mkEps sqrt st inp.W inp.H).1 inp fixed = .ok p)) ∧
      dieCore (mkEps sqrt st inp.W inp.H).1 inp fixed p = .ok out := by
  unfold dieOfIn at h
  simp only at h
  split at h
  · cases h
  · rename_i p hpk
    split at h
    · cases h
    · rename_i out' hcore
      simp only [Except.ok.injEq, Prod.mk.injEq] at h
      obtain ⟨rfl, rfl, rfl⟩ := h
      refine ⟨rfl, rfl, p, ?_, hcore⟩
      cases picks with
      | some q => simp only [Except.ok.injEq] at hpk; subst hpk; exact Or.inl rfl
      | none => exact Or.inr ⟨rfl, hpk⟩

/-- with explicit picks the constructor body is `dieCore`. -/
theorem dieOfIn_some (sqrt : α → α) (st : Option (α × α)) (inp : DieIn α) (fixed : List (Rect α)) (p : List IRect) :
    dieOfIn sqrt st inp fixed (some p) =
      match dieCore (mkEps sqrt st inp.W inp.H).1 inp fixed p with
      | .error e => .error e
      | .ok out => .ok (out, (mkEps sqrt st inp.W inp.H).1, (mkEps sqrt st inp.W inp.H).2) := by
  unfold dieOfIn
  rfl

/-! ### the `<w>x<h>` shorthand -/

theorem stringDie_some (pf : List Char → Option α) (s : String) (r : Except Die.Err (α × α)) (h : stringDie pf s = some r) :
    ∃ a b w hh, splitX s.toList = [a, b] ∧ pf a = some w ∧ pf b = some hh ∧
      r = (if 0 < w ∧ 0 < hh then .ok (w, hh) else .error .assert) := by
  unfold stringDie at h
  split at h
  · rename_i a b hs
    split at h
    · rename_i w hh hw hhh
      simp only [Option.some.injEq] at h
      refine ⟨a, b, w, hh, hs, hw, hhh, ?_⟩
      rw [← h]
      simp only [zero_eq, Bool.and_eq_true, decide_eq_true_eq]
    · cases h
  · cases h

/-- the tree the shorthand stands for. -/
def shortTree (w h : α) : YV α := .map [("width", .num w), ("height", .num h)]

theorem parseDie_shortTree (w h : α) :
    parseDie (shortTree w h) =
      (if 0 < w ∧ 0 < h then .ok { W := w, H := h, regions := [] } else .error .assert) := by
  unfold shortTree parseDie
  simp only [lookup, List.all_cons, List.all_nil, List.find?, zero_eq]
  by_cases hw : 0 < w
  · by_cases hh : 0 < h
    · simp [hw, hh]
    · simp [hw, hh]
  · simp [hw]

/-! ### inversion of `parseYamlDie` and `construct` -/

theorem parseYamlDie_ok (pf : List Char → Option α) (ry : String → Option (YV α)) (src : Src α) (inp : DieIn α)
    (h : parseYamlDie pf ry src = .ok inp) :
    (∃ s a b, src = .str s ∧ splitX s.toList = [a, b] ∧ pf a = some inp.W ∧ pf b = some inp.H ∧ 0 < inp.W ∧ 0 < inp.H ∧
        inp.regions = []) ∨
    (∃ t, (src = .tree t ∨ src = .handle (some t) ∨ ∃ s, src = .str s ∧ stringDie pf s = none ∧ ry s = some t) ∧
      parseDie t = .ok inp) := by
  unfold parseYamlDie at h
  split at h
  · rename_i s
    split at h
    · rename_i w hh hsd
      simp only [Except.ok.injEq] at h
      obtain ⟨a, b, w', h', hs, ha, hb, hr⟩ := stringDie_some pf s _ hsd
      by_cases hc : 0 < w' ∧ 0 < h'
      · rw [if_pos hc] at hr
        simp only [Except.ok.injEq, Prod.mk.injEq] at hr
        obtain ⟨rfl, rfl⟩ := hr
        subst h
        exact Or.inl ⟨s, a, b, rfl, hs, ha, hb, hc.1, hc.2, rfl⟩
      · rw [if_neg hc] at hr; cases hr
    · cases h
    · rename_i hsd
      split at h
      · cases h
      · rename_i t hry
        split at h
        · rename_i inp' hp
          simp only [Except.ok.injEq] at h
          subst h
          exact Or.inr ⟨t, Or.inr (Or.inr ⟨s, rfl, hsd, hry⟩), hp⟩
        · cases h
  · rename_i t
    split at h
    · rename_i inp' hp
      simp only [Except.ok.injEq] at h
      subst h
      exact Or.inr ⟨t, Or.inl rfl, hp⟩
    · cases h
  · cases h
  · rename_i t
    split at h
    · rename_i inp' hp
      simp only [Except.ok.injEq] at h
      subst h
      exact Or.inr ⟨t, Or.inr (Or.inl rfl), hp⟩
    · cases h
  · cases h

/-- the netlist stage of `construct`: the tolerance state the die sees and the fixed rectangles it takes. -/
def PreOK (sqrt : α → α) (tiny : α) (stogOf : α → α → List (NL.NRect α) → List (NL.NRect α))
    (st : Option (α × α)) (ndoc : Option (YVal α)) (st1 : Option (α × α)) (fixed : List (Rect α)) : Prop :=
  (ndoc = none ∧ st1 = st ∧ fixed = []) ∨
  ∃ nd l, ndoc = some nd ∧ loadNetlist sqrt tiny stogOf st nd = .ok l ∧ st1 = l.st ∧ fixed = l.fixed

theorem construct_ok (pf : List Char → Option α) (ry : String → Option (YV α)) (sqrt : α → α) (tiny : α)
    (stogOf : α → α → List (NL.NRect α) → List (NL.NRect α)) (st : Option (α × α)) (ndoc : Option (YVal α))
    (src : Src α) (picks : Option (List IRect)) (r : DieOut α × Eps α × (α × α))
    (h : construct pf ry sqrt tiny stogOf st ndoc src picks = .ok r) :
    ∃ st1 fixed inp, PreOK sqrt tiny stogOf st ndoc st1 fixed ∧ parseYamlDie pf ry src = .ok inp ∧
      dieOfIn sqrt st1 inp fixed picks = .ok r := by
  unfold construct at h
  simp only at h
  split at h
  · cases h
  · rename_i st1 fixed hpre
    split at h
    · cases h
    · rename_i inp hp
      split at h
      · cases h
      · rename_i r' hd
        simp only [Except.ok.injEq] at h
        subst h
        refine ⟨st1, fixed, inp, ?_, hp, hd⟩
        cases ndoc with
        | none =>
          simp only [Except.ok.injEq, Prod.mk.injEq] at hpre
          exact Or.inl ⟨rfl, hpre.1.symm, hpre.2.symm⟩
        | some nd =>
          simp only at hpre
          split at hpre
          · cases hpre
          · rename_i l hl
            simp only [Except.ok.injEq, Prod.mk.injEq] at hpre
            exact Or.inr ⟨nd, l, rfl, hl, hpre.1.symm, hpre.2.symm⟩

/-- `construct` computed from its stages. -/
theorem construct_eq (pf : List Char → Option α) (ry : String → Option (YV α)) (sqrt : α → α) (tiny : α)
    (stogOf : α → α → List (NL.NRect α) → List (NL.NRect α)) (st : Option (α × α)) (ndoc : Option (YVal α))
    (src : Src α) (picks : Option (List IRect)) (st1 : Option (α × α)) (fixed : List (Rect α)) (inp : DieIn α)
    (hpre : PreOK sqrt tiny stogOf st ndoc st1 fixed) (hp : parseYamlDie pf ry src = .ok inp) :
    construct pf ry sqrt tiny stogOf st ndoc src picks =
      match dieOfIn sqrt st1 inp fixed picks with
      | .error e => .error (Err.ofDie e)
      | .ok r => .ok r := by
  unfold construct
  rcases hpre with ⟨rfl, rfl, rfl⟩ | ⟨nd, l, rfl, hl, rfl, rfl⟩
  · simp only [hp]
    cases dieOfIn sqrt st1 inp [] picks <;> rfl
  · simp only [hl, hp]
    cases dieOfIn sqrt l.st inp l.fixed picks <;> rfl

/-! ### the netlist's fixed rectangles -/

theorem loadNetlist_ok (sqrt : α → α) (tiny : α) (stogOf : α → α → List (NL.NRect α) → List (NL.NRect α))
    (st : Option (α × α)) (nd : YVal α) (l : Loaded α) (h : loadNetlist sqrt tiny stogOf st nd = .ok l) :
    ∃ ms es, NL.parseDoc nd = .ok (ms, es) ∧ epsAfterNetlist sqrt tiny st ms = l.st ∧
      NL.finish (stogOf (tolOf l.st).1 (tolOf l.st).2) (tolOf l.st).2 ms es = .ok l.netlist ∧ l.fixed = fixedRects ms := by
  unfold loadNetlist at h
  split at h
  · cases h
  · rename_i ms es hd
    simp only at h
    split at h
    · cases h
    · rename_i nl hf
      simp only [Except.ok.injEq] at h
      subst h
      exact ⟨ms, es, hd, rfl, hf, rfl⟩

/-- a tolerance defined before the netlist is loaded stays; otherwise the netlist's own proposal is installed. -/
theorem epsAfterNetlist_some (sqrt : α → α) (tiny : α) (p : α × α) (ms : List (NL.Mod α)) :
    epsAfterNetlist sqrt tiny (some p) ms = some p := rfl

theorem epsAfterNetlist_none (sqrt : α → α) (tiny : α) (ms : List (NL.Mod α)) :
    epsAfterNetlist sqrt tiny none ms = NL.defaultEps sqrt tiny ms := rfl

/-- every rectangle of a parsed module carries the module's flags and is a proper rectangle. -/
theorem parsed_rects_ok {t : YVal α} {ms : List (NL.Mod α)} {es : List (NL.Net α)} (h : NL.parseDoc t = .ok (ms, es)) :
    ∀ m ∈ ms, NL.ModOK m := by
  intro m hm
  obtain ⟨e, he⟩ := (NL.parseDoc_mods_ok h).1 m hm
  exact (NL.parseModule_modOK he).1

/-- the flat list filtered by `fixed` is, module by module in document order, everything of the fixed modules. -/
theorem fixedOf_flat (ms : List (NL.Mod α)) (hall : ∀ m ∈ ms, ∀ r ∈ m.rects, r.fixed = m.fixed) :
    NL.fixedOf (ms.flatMap (·.rects)) = (ms.filter (·.fixed)).flatMap (·.rects) := by
  unfold NL.fixedOf
  induction ms with
  | nil => rfl
  | cons m rest ih =>
    have hrest := ih (fun m' hm' => hall m' (List.mem_cons_of_mem _ hm'))
    have hm := hall m List.mem_cons_self
    simp only [List.flatMap_cons, List.filter_append, hrest]
    cases hf : m.fixed with
    | true =>
      simp only [List.filter_cons, hf, ↓reduceIte, List.flatMap_cons]
      congr 1
      exact List.filter_eq_self.mpr (fun r hr => by rw [hm r hr, hf])
    | false =>
      simp only [List.filter_cons, hf, Bool.false_eq_true, ↓reduceIte]
      have : m.rects.filter (·.fixed) = [] := List.filter_eq_nil_iff.mpr (fun r hr => by rw [hm r hr, hf]; simp)
      rw [this]; rfl

/-- **the die's fixed regions are the rectangles of the netlist's fixed modules**, in document order. -/
theorem fixedRects_eq {t : YVal α} {ms : List (NL.Mod α)} {es : List (NL.Net α)} (h : NL.parseDoc t = .ok (ms, es)) :
    fixedRects ms = ((ms.filter (·.fixed)).flatMap (·.rects)).map NL.NRect.toRect := by
  unfold fixedRects
  rw [fixedOf_flat ms (fun m hm r hr => ((parsed_rects_ok h m hm).rects_ok r hr).fixed_eq)]

/-- … each of them flagged fixed and hard, tagged ground, a proper rectangle with a non-negative centre, no STOG role. -/
theorem fixedRects_ok {t : YVal α} {ms : List (NL.Mod α)} {es : List (NL.Net α)} (h : NL.parseDoc t = .ok (ms, es))
    (r : Rect α) (hr : r ∈ fixedRects ms) :
    r.fixed = true ∧ r.hard = true ∧ r.region = KW_GROUND ∧ 0 < r.w ∧ 0 < r.h ∧ 0 ≤ r.cx ∧ 0 ≤ r.cy ∧ r.loc = .nopoly ∧
    ∃ m ∈ ms, m.fixed = true ∧ ∃ q ∈ m.rects, r = q.toRect := by
  rw [fixedRects_eq h] at hr
  obtain ⟨q, hq, rfl⟩ := List.mem_map.mp hr
  obtain ⟨m, hm, hqm⟩ := List.mem_flatMap.mp hq
  obtain ⟨hm1, hmf⟩ := List.mem_filter.mp hm
  have hok := parsed_rects_ok h m hm1
  have hq' := hok.rects_ok q hqm
  have hf : m.fixed = true := by simpa using hmf
  have hh : m.hard = true := hok.fixed_hard hf
  refine ⟨?_, ?_, ?_, hq'.w_pos, hq'.h_pos, hq'.cx_nonneg, hq'.cy_nonneg, hq'.loc_eq, m, hm1, hf, q, hqm, rfl⟩
  · show q.fixed = true
    rw [hq'.fixed_eq, hf]
  · show q.hard = true
    rw [hq'.hard_eq, hh]
  · show q.region = KW_GROUND
    exact hq'.ground (by rw [hf]; rfl)

/-- nothing of a module that is not fixed reaches the die. -/
theorem fixedRects_only_fixed {t : YVal α} {ms : List (NL.Mod α)} {es : List (NL.Net α)}
    (h : NL.parseDoc t = .ok (ms, es)) (hnone : ∀ m ∈ ms, m.fixed = false) : fixedRects ms = [] := by
  rw [fixedRects_eq h]
  have : ms.filter (·.fixed) = [] := List.filter_eq_nil_iff.mpr (fun m hm => by rw [hnone m hm]; simp)
  rw [this]; rfl

end FV.DieNet

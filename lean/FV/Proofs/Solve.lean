import FV.Proofs.History
/-
  Helper lemmas for C07, part 7: `SATManager.solve` / `value` with the SAT solver's answer as a parameter, and the
  variable table staying duplicate-free.  Core Lean only.
-/
set_option linter.unusedSectionVars false
namespace FV.Sat
open FV.PB

/-! ### the solver's side: DIMACS literals over numbered variables -/
def intLitTrue (α : Nat → Bool) (x : Int) : Bool := if x > 0 then α x.toNat else !α (-x).toNat
def intCnfTrue (α : Nat → Bool) (cnf : List (List Int)) : Prop := ∀ c ∈ cnf, ∃ x ∈ c, intLitTrue α x = true

/-- what is assumed of the SAT solver: it answers "unsatisfiable" only for an unsatisfiable input, and a model it
    returns is a consistent list of non-zero literals containing a literal of every clause -/
def SolverOK (cnf : List (List Int)) : Option (List Int) → Prop
  | none => ¬ ∃ α, intCnfTrue α cnf
  | some mod => (∀ c ∈ cnf, ∃ x ∈ c, x ∈ mod) ∧ (∀ x ∈ mod, x ≠ 0 ∧ -x ∉ mod)

/-! ### `ttable` -/
theorem lookupIdx_some {vars : List Var} {v : Var} {k i : Nat} (h : lookupIdx vars v k = some i) :
    k ≤ i ∧ vars[i - k]? = some v := by
  induction vars generalizing k with
  | nil => simp [lookupIdx] at h
  | cons w r ih =>
    unfold lookupIdx at h
    split at h
    · rename_i hw; simp at h; subst h; subst hw; simp
    · obtain ⟨h1, h2⟩ := ih h
      refine ⟨by omega, ?_⟩
      have : i - k = (i - (k + 1)) + 1 := by omega
      rw [this]; simpa using h2

theorem lookupIdx_inj {vars : List Var} {v w : Var} {k i : Nat} (hv : lookupIdx vars v k = some i)
    (hw : lookupIdx vars w k = some i) : v = w := by
  have a := (lookupIdx_some hv).2
  have b := (lookupIdx_some hw).2
  rw [a] at b; simpa using b

theorem lookupIdx_mem {vars : List Var} {v : Var} {k : Nat} (h : v ∈ vars) : ∃ i, lookupIdx vars v k = some i := by
  induction vars generalizing k with
  | nil => simp at h
  | cons w r ih =>
    unfold lookupIdx
    split
    · exact ⟨k, rfl⟩
    · rename_i hne
      simp at h
      rcases h with rfl | h
      · exact absurd rfl hne
      · exact ih h

theorem lookupIdx_none {vars : List Var} {v : Var} {k : Nat} (h : v ∉ vars) : lookupIdx vars v k = none := by
  induction vars generalizing k with
  | nil => rfl
  | cons w r ih =>
    simp at h
    unfold lookupIdx
    rw [if_neg (fun e => h.1 e.symm)]
    exact ih h.2

theorem lookupIdx_lt {vars : List Var} {v : Var} {k i : Nat} (h : lookupIdx vars v k = some i) : i < k + vars.length := by
  have := (lookupIdx_some h)
  have h2 := (List.getElem?_eq_some_iff.1 this.2).1
  omega

/-! ### `mapM` in `Except` -/
inductive Forall2 {α β : Type} (R : α → β → Prop) : List α → List β → Prop
  | nil : Forall2 R [] []
  | cons {a : α} {b : β} {l : List α} {r : List β} : R a b → Forall2 R l r → Forall2 R (a :: l) (b :: r)

theorem Forall2.imp {α β : Type} {R Q : α → β → Prop} {l : List α} {r : List β} (h : Forall2 R l r)
    (hi : ∀ a b, R a b → Q a b) : Forall2 Q l r := by
  induction h with
  | nil => exact .nil
  | cons hab _ ih => exact .cons (hi _ _ hab) ih

theorem mapM_ok {α β ε : Type} (f : α → Except ε β) : ∀ (l : List α) (r : List β), l.mapM f = .ok r →
    Forall2 (fun a b => f a = .ok b) l r := by
  intro l
  induction l with
  | nil => intro r h; simp [pure, Except.pure] at h; subst h; exact .nil
  | cons a t ih =>
    intro r h
    rw [List.mapM_cons] at h
    cases ha : f a with
    | error e => simp [ha, bind, Except.bind] at h
    | ok b =>
      cases ht : t.mapM f with
      | error e => simp [ha, ht, bind, Except.bind] at h
      | ok bs =>
        simp [ha, ht, bind, Except.bind, pure, Except.pure] at h
        subst h
        exact .cons ha (ih bs ht)

theorem forall2_mem_left {α β : Type} {R : α → β → Prop} {l : List α} {r : List β} (h : Forall2 R l r) :
    ∀ a ∈ l, ∃ b ∈ r, R a b := by
  induction h with
  | nil => simp
  | cons hab _ ih =>
    intro x hx
    simp at hx
    rcases hx with rfl | hx
    · exact ⟨_, by simp, hab⟩
    · obtain ⟨b, hb, hr⟩ := ih x hx; exact ⟨b, by simp [hb], hr⟩

theorem forall2_mem_right {α β : Type} {R : α → β → Prop} {l : List α} {r : List β} (h : Forall2 R l r) :
    ∀ b ∈ r, ∃ a ∈ l, R a b := by
  induction h with
  | nil => simp
  | cons hab _ ih =>
    intro x hx
    simp at hx
    rcases hx with rfl | hx
    · exact ⟨_, by simp, hab⟩
    · obtain ⟨a, ha, hr⟩ := ih x hx; exact ⟨a, by simp [ha], hr⟩

/-- the integer clause list is the clause list, literal by literal -/
theorem cnf_spec {m : Mgr} {cnf : List (List Int)} (h : m.cnf = .ok cnf) :
    Forall2 (fun c c' => Forall2 (fun x y => m.litInt x = .ok y) c c') m.clauses cnf := by
  have := mapM_ok _ _ _ h
  exact this.imp (fun _ _ h' => mapM_ok _ _ _ h')

theorem litInt_spec {m : Mgr} {x : Lit} {y : Int} (h : m.litInt x = .ok y) :
    ∃ i, m.index x.v = some i ∧ 1 ≤ i ∧ i ≤ m.vars.length ∧ y = (if x.s = false then -(i : Int) else (i : Int)) := by
  unfold Mgr.litInt at h
  split at h
  · rename_i i hi
    simp at h
    have h1 := (lookupIdx_some hi).1
    have h2 := lookupIdx_lt hi
    exact ⟨i, hi, h1, by omega, h.symm⟩
  · simp at h

/-! ### `arr` -/
theorem fillArr_length : ∀ (mod arr arr' : List Int), fillArr arr mod = some arr' → arr'.length = arr.length := by
  intro mod
  induction mod with
  | nil => intro arr arr' h; simp [fillArr] at h; rw [h]
  | cons w r ih =>
    intro arr arr' h
    unfold fillArr at h
    split at h
    · split at h
      · simpa using ih _ _ h
      · simp at h
    · split at h
      · simpa using ih _ _ h
      · simp at h

theorem fillArr_get (mod : List Int) : ∀ (arr arr' : List Int) (i : Nat), fillArr arr mod = some arr' → 1 ≤ i → i < arr.length →
    (∀ x ∈ mod, x ≠ 0 ∧ -x ∉ mod) →
    arr'.getD i 0 = if (i : Int) ∈ mod then 1 else if -(i : Int) ∈ mod then 0 else arr.getD i 0 := by
  induction mod with
  | nil => intro arr arr' i h _ _ _; simp [fillArr] at h; subst h; simp
  | cons w r ih =>
    intro arr arr' i hf h1 hlt hc
    have hcr : ∀ x ∈ r, x ≠ 0 ∧ -x ∉ r := fun x hx =>
      ⟨(hc x (by simp [hx])).1, fun hn => (hc x (by simp [hx])).2 (by simp [hn])⟩
    have hw := hc w (by simp)
    unfold fillArr at hf
    split at hf
    · rename_i hneg
      split at hf
      · rw [ih _ _ i hf h1 (by simpa using hlt) hcr]
        by_cases hir : (i : Int) ∈ r
        · rw [if_pos hir, if_pos (List.mem_cons_of_mem _ hir)]
        · have hiw : (i : Int) ∉ w :: r := by
            intro h; rcases List.mem_cons.1 h with e | h
            · omega
            · exact hir h
          rw [if_neg hir, if_neg hiw]
          by_cases hj : (-w).toNat = i
          · have hwi : w = -(i : Int) := by omega
            have hmem : -(i : Int) ∈ w :: r := by rw [hwi]; exact List.mem_cons_self
            rw [if_pos hmem]
            split
            · rfl
            · rw [hj]; simp [List.getD_eq_getElem?_getD, hlt]
          · have m2 : -(i : Int) ∈ w :: r → -(i : Int) ∈ r := by
              intro h; rcases List.mem_cons.1 h with e | h
              · omega
              · exact h
            by_cases hnr : -(i : Int) ∈ r
            · rw [if_pos hnr, if_pos (List.mem_cons_of_mem _ hnr)]
            · rw [if_neg hnr, if_neg (mt m2 hnr)]
              simp [List.getD_eq_getElem?_getD, List.getElem?_set_ne hj]
      · simp at hf
    · rename_i hpos
      split at hf
      · rw [ih _ _ i hf h1 (by simpa using hlt) hcr]
        by_cases hj : w.toNat = i
        · have hwi : w = (i : Int) := by omega
          have hmem : (i : Int) ∈ w :: r := by rw [hwi]; exact List.mem_cons_self
          rw [if_pos hmem]
          have hnr : -(i : Int) ∉ r := by
            have := hw.2; rw [hwi] at this
            exact fun h => this (List.mem_cons_of_mem _ h)
          split
          · rfl
          · rw [hj]; simp [List.getD_eq_getElem?_getD, hlt]
        · have m1 : (i : Int) ∈ w :: r → (i : Int) ∈ r := by
            intro h; rcases List.mem_cons.1 h with e | h
            · omega
            · exact h
          have m2 : -(i : Int) ∈ w :: r → -(i : Int) ∈ r := by
            intro h; rcases List.mem_cons.1 h with e | h
            · omega
            · exact h
          by_cases hir : (i : Int) ∈ r
          · rw [if_pos hir, if_pos (List.mem_cons_of_mem _ hir)]
          · rw [if_neg hir, if_neg (mt m1 hir)]
            by_cases hnr : -(i : Int) ∈ r
            · rw [if_pos hnr, if_pos (List.mem_cons_of_mem _ hnr)]
            · rw [if_neg hnr, if_neg (mt m2 hnr)]
              simp [List.getD_eq_getElem?_getD, List.getElem?_set_ne hj]
      · simp at hf

theorem fillArr_in_range : ∀ (mod arr arr' : List Int), fillArr arr mod = some arr' → ∀ w ∈ mod, w.natAbs < arr.length := by
  intro mod
  induction mod with
  | nil => intro arr arr' _ w hw; simp at hw
  | cons x r ih =>
    intro arr arr' h w hw
    unfold fillArr at h
    split at h
    · split at h
      · rcases List.mem_cons.1 hw with e | hw
        · subst e; omega
        · simpa using ih _ _ h w hw
      · simp at h
    · split at h
      · rcases List.mem_cons.1 hw with e | hw
        · subst e; omega
        · simpa using ih _ _ h w hw
      · simp at h

/-! ### `self.model` -/
theorem getModel_setModel (mdl : List (Var × Int)) (v w : Var) (x : Int) :
    getModel (setModel mdl v x) w = if v = w then some x else getModel mdl w := by
  induction mdl with
  | nil => simp [setModel, getModel]
  | cons p r ih =>
    obtain ⟨u, y⟩ := p
    by_cases huv : u = v
    · subst huv
      simp only [setModel, if_true, getModel]
      by_cases huw : u = w <;> simp [huw]
    · simp only [setModel, if_neg huv, getModel, ih]
      by_cases huw : u = w
      · subst huw; simp [Ne.symm huv]
      · simp [huw]

theorem getModel_storeModel (arr : List Int) : ∀ (vars : List Var) (k : Nat) (mdl : List (Var × Int)) (w : Var),
    vars.Nodup → getModel (storeModel arr vars k mdl) w =
      match lookupIdx vars w k with
      | some i => some (arr.getD i 0)
      | none => getModel mdl w := by
  intro vars
  induction vars with
  | nil => intro k mdl w _; simp [storeModel, lookupIdx]
  | cons v r ih =>
    intro k mdl w hnd
    simp only [List.nodup_cons] at hnd
    unfold storeModel lookupIdx
    rw [ih (k + 1) _ w hnd.2, getModel_setModel]
    by_cases hvw : v = w
    · subst hvw
      rw [lookupIdx_none hnd.1]; simp
    · simp [hvw]

/-! ### `solve` -/
/-- With a correct solver: `solve()` answers sat iff the clause list has a model, and then the values it exposes
    through `value` are those of a model of the clause list (on every registered variable, for both polarities). -/
theorem solve_spec {m m' : Mgr} {ans : Option (List Int)} {b : Bool} {cnf : List (List Int)} (hnd : m.vars.Nodup)
    (hcnf : m.cnf = .ok cnf) (hsolver : SolverOK cnf ans) (hs : m.solve ans = .ok (b, m')) :
    (b = true ↔ ∃ τ, cnfTrue τ m.clauses) ∧
    (b = true → ∃ τ, cnfTrue τ m.clauses ∧ ∀ v ∈ m.vars, ∀ s, m'.value ⟨v, s⟩ = some (litVal τ ⟨v, s⟩)) := by
  have hspec := cnf_spec hcnf
  unfold Mgr.solve at hs
  rw [hcnf] at hs
  cases ans with
  | none =>
    simp at hs
    obtain ⟨rfl, rfl⟩ := hs
    refine ⟨⟨by simp, ?_⟩, by simp⟩
    rintro ⟨τ, hτ⟩
    exfalso
    apply hsolver
    -- number the variables as `solve()` does
    refine ⟨fun i => match m.vars[i - 1]? with | some v => τ v | none => false, ?_⟩
    intro c' hc'
    obtain ⟨c, hc, hcc⟩ := forall2_mem_right hspec c' hc'
    obtain ⟨l, hl, hlt⟩ := (clauseTrue_iff τ c).1 (hτ c hc)
    obtain ⟨y, hy, hly⟩ := forall2_mem_left hcc l hl
    obtain ⟨i, hi, h1, _, hyi⟩ := litInt_spec hly
    have hget : m.vars[i - 1]? = some l.v := (lookupIdx_some hi).2
    refine ⟨y, hy, ?_⟩
    simp only [litTrue, beq_iff_eq] at hlt
    rw [hyi]
    unfold intLitTrue
    cases hs' : l.s
    · have h0 : ¬ ((i : Int) < 0) := by omega
      have hf : τ l.v = false := by rw [hlt, hs']
      simp [hget, hs', h0, hf]
    · have hp : 0 < i := by omega
      have ht : τ l.v = true := by rw [hlt, hs']
      simp [hget, hs', hp, ht]
  | some mod =>
    simp only at hs
    cases hfa : fillArr (List.replicate (m.vars.length + 1) 0) mod with
    | none => rw [hfa] at hs; simp at hs
    | some arr =>
    rw [hfa] at hs
    simp at hs
    obtain ⟨rfl, rfl⟩ := hs
    obtain ⟨hsat, hcons⟩ := hsolver
    -- the assignment read off `arr`
    obtain ⟨τ, hτdef⟩ : ∃ τ : Var → Bool, ∀ v, τ v = match m.index v with
        | some i => decide ((i : Int) ∈ mod) | none => false := ⟨_, fun _ => rfl⟩
    have hτ : cnfTrue τ m.clauses := by
      intro c hc
      obtain ⟨c', hc', hcc⟩ := forall2_mem_left hspec c hc
      obtain ⟨y, hy, hym⟩ := hsat c' hc'
      obtain ⟨l, hl, hly⟩ := forall2_mem_right hcc y hy
      obtain ⟨i, hi, h1, _, hyi⟩ := litInt_spec hly
      refine (clauseTrue_iff τ c).2 ⟨l, hl, ?_⟩
      simp only [litTrue, hτdef, hi, beq_iff_eq]
      cases hs' : l.s
      · simp [hs'] at hyi
        have := (hcons y hym).2
        rw [hyi] at this
        simpa using this
      · simp [hs'] at hyi
        rw [hyi] at hym
        simpa using hym
    refine ⟨⟨fun _ => ⟨τ, hτ⟩, fun _ => rfl⟩, fun _ => ⟨τ, hτ, ?_⟩⟩
    intro v hv s
    obtain ⟨i, hi⟩ := lookupIdx_mem (k := 1) hv
    have h1 := (lookupIdx_some hi).1
    have hlt := lookupIdx_lt hi
    have hget := getModel_storeModel arr m.vars 1 m.model v hnd
    rw [hi] at hget
    have harr := fillArr_get mod (List.replicate (m.vars.length + 1) 0) arr i hfa h1 (by simp; omega) hcons
    simp only [Mgr.value, hget]
    rw [harr]
    have hτv : τ v = decide ((i : Int) ∈ mod) := by rw [hτdef]; simp [Mgr.index, hi]
    have hrep : (List.replicate (m.vars.length + 1) (0 : Int)).getD i 0 = 0 := by
      have : i < m.vars.length + 1 := by omega
      simp [List.getD_eq_getElem?_getD, List.getElem?_replicate, this]
    simp only [litVal, b2i, hτv, hrep]
    by_cases hm : (i : Int) ∈ mod <;> cases s <;> simp [hm]

/-! ### the variable table never holds a name twice -/
theorem newvar_nodup {m : Mgr} (v : Var) (h : m.vars.Nodup) : (m.newvar v).vars.Nodup := by
  unfold Mgr.newvar
  split
  · exact h
  · rename_i hn
    exact List.nodup_append.2 ⟨h, by simp, by simp; intro a ha e; exact hn (e ▸ ha)⟩

theorem heuleGo_nodup (k : Nat) (hk : 3 ≤ k) : ∀ (n : Nat) (lst : List Lit) (m : Mgr), lst.length = n →
    m.vars.Nodup → (Mgr.heuleGo k hk m lst).vars.Nodup := by
  intro n
  induction n using Nat.strongRecOn with
  | _ n ih =>
    intro lst m hn hnd
    rw [Mgr.heuleGo]
    split
    · exact hnd
    · simp only [Mgr.newaux]
      exact ih _ (by simp [List.length_drop]; omega) _ _ rfl (newvar_nodup _ hnd)

theorem codify_nodup {S : Store Var} : ∀ (fuel id : Nat) (m m' : Mgr), Mgr.codify S fuel id m = .ok m' →
    m.vars.Nodup → m'.vars.Nodup := by
  intro fuel
  induction fuel with
  | zero => intro id m m' h; simp [Mgr.codify] at h
  | succ fuel ih =>
    intro id m m' h hnd
    unfold Mgr.codify at h
    split at h
    · simp at h; subst h; exact hnd
    · dsimp only at h
      have h1 : (({ m with codified := m.codified ++ [id] } : Mgr).newvar (.node id)).vars.Nodup := newvar_nodup _ hnd
      split at h
      · simp at h; subst h; exact h1
      · split at h
        · simp at h; subst h; exact h1
        · split at h
          · rename_i dv i e hget
            cases r2 : Mgr.codify S fuel i (({ m with codified := m.codified ++ [id] } : Mgr).newvar (.node id)) with
            | error err => simp [r2, bind, Except.bind] at h
            | ok m2 =>
              cases r3 : Mgr.codify S fuel e m2 with
              | error err => simp [r2, r3, bind, Except.bind] at h
              | ok m3 =>
                simp [r2, r3, bind, Except.bind, pure, Except.pure] at h
                subst h
                exact newvar_nodup _ (newvar_nodup _ (newvar_nodup _ (ih _ _ _ r3 (ih _ _ _ r2 h1))))
          · simp at h

theorem post_nodup {m m' : Mgr} {S S' : Store Var} {p : Post} (h : m.post S p = .ok (m', S')) (hnd : m.vars.Nodup) :
    m'.vars.Nodup := by
  cases p with
  | clause c => simp [Mgr.post] at h; obtain ⟨rfl, _⟩ := h; exact hnd
  | imply l1 l2 => simp [Mgr.post] at h; obtain ⟨rfl, _⟩ := h; exact hnd
  | amoQ lst => simp [Mgr.post] at h; obtain ⟨rfl, _⟩ := h; exact hnd
  | amoH k lst =>
    simp only [Mgr.post, Mgr.heule] at h
    split at h
    · rename_i m'' hh
      simp at h; obtain ⟨rfl, _⟩ := h
      split at hh
      · simp at hh
      · simp at hh; subst hh; exact heuleGo_nodup _ _ _ _ _ rfl hnd
    · simp at h
  | pb q dec =>
    simp only [Mgr.post, Mgr.pseudoBool] at h
    split at h
    · simp at h; obtain ⟨rfl, _⟩ := h; exact hnd
    · simp at h; obtain ⟨rfl, _⟩ := h; exact hnd
    · split at h
      · simp at h
      · simp at h
      · rename_i root S1 _
        cases hcod : Mgr.codify S1 (root + 1) root m with
        | error e => simp [hcod, bind, Except.bind] at h
        | ok m2 =>
          simp [hcod, bind, Except.bind, pure, Except.pure] at h
          obtain ⟨rfl, _⟩ := h
          exact newvar_nodup _ (codify_nodup _ _ _ _ hcod hnd)

theorem run_nodup {m : Mgr} {S : Store Var} {ps : List Post} {m' : Mgr} {S' : Store Var} (r : Run m S ps m' S')
    (hnd : m.vars.Nodup) : m'.vars.Nodup := by
  induction r with
  | done => exact hnd
  | grow _ _ _ ih => exact ih hnd
  | ok hpost _ ih => exact ih (post_nodup hpost hnd)
  | refused _ _ ih => exact ih hnd
  | newvar v _ ih => exact ih (newvar_nodup v hnd)
  | solve ans hs _ ih => exact ih ((solve_fields hs).2.2.2 ▸ hnd)

end FV.Sat

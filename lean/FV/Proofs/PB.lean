import FV.Model.PB
/-
  Semantics of the pseudo-Boolean classes and the lemmas behind C16 (and the normal-form facts C07 builds on).
  Core Lean only.
-/
set_option linter.unusedSectionVars false
namespace FV.PB

variable {V : Type} [DecidableEq V]

/-! ### semantics under a truth assignment `σ` -/
def b2i (b : Bool) : Int := if b then 1 else 0
def litVal (σ : V → Bool) (l : Literal V) : Int := if l.s then b2i (σ l.v) else 1 - b2i (σ l.v)
def termVal (σ : V → Bool) (t : Term V) : Int := t.c * litVal σ t.L
def termsVal (σ : V → Bool) : List (Term V) → Int
  | [] => 0
  | t :: r => termVal σ t + termsVal σ r
def Expr.eval (σ : V → Bool) (e : Expr V) : Int := e.c + termsVal σ e.t
def Operand.val (σ : V → Bool) : Operand V → Int
  | .str v => b2i (σ v)
  | .lit l => litVal σ l
  | .term t => termVal σ t
  | .num n => n.toInt
  | .expr e => e.eval σ

/-- the normalised inequality holds under `σ` -/
def Ineq.holds (σ : V → Bool) (q : Ineq V) : Prop :=
  match q.op with
  | .ge => q.lhs.eval σ ≥ q.rhs
  | .gt => q.lhs.eval σ > q.rhs
  | .eq => q.lhs.eval σ = q.rhs

/-- ordinary integer comparison named by a comparison operator -/
def CmpOp.rel : CmpOp → Int → Int → Prop
  | .ge, x, y => x ≥ y | .le, x, y => x ≤ y | .gt, x, y => x > y | .lt, x, y => x < y
  | .eq, x, y => x = y | .eqeq, x, y => x = y

/-- normal form: every coefficient positive, no variable twice -/
def NFTerms (t : List (Term V)) : Prop := (∀ x ∈ t, 0 < x.c) ∧ (t.map (·.L.v)).Nodup
def Expr.NF (e : Expr V) : Prop := NFTerms e.t

theorem b2i_cases (b : Bool) : b2i b = 0 ∨ b2i b = 1 := by cases b <;> simp [b2i]
theorem litVal_cases (σ : V → Bool) (l : Literal V) : litVal σ l = 0 ∨ litVal σ l = 1 := by
  unfold litVal; rcases b2i_cases (σ l.v) with h | h <;> split <;> omega
theorem litVal_flip (σ : V → Bool) (v : V) (s : Bool) : litVal σ ⟨v, !s⟩ = 1 - litVal σ ⟨v, s⟩ := by
  cases s <;> simp [litVal] <;> omega
theorem litVal_same {σ : V → Bool} {a b : Literal V} (hv : a.v = b.v) (hs : a.s = b.s) : litVal σ a = litVal σ b := by
  cases a; cases b; simp_all
theorem litVal_opp {σ : V → Bool} {a b : Literal V} (hv : a.v = b.v) (hs : a.s ≠ b.s) : litVal σ a = 1 - litVal σ b := by
  cases a with | mk av as => cases b with | mk bv bs =>
  simp at hv hs; subst hv
  cases as <;> cases bs <;> simp_all [litVal] <;> omega

/-! ### dictionary lemmas -/
theorem dget_some {t : List (Term V)} {v : V} {y : Term V} (h : dget t v = some y) : y.L.v = v ∧ y ∈ t := by
  induction t with
  | nil => simp [dget] at h
  | cons a r ih =>
    unfold dget at h
    split at h
    · simp at h; subst h; simp_all
    · have := ih h; simp_all

theorem dget_none {t : List (Term V)} {v : V} (h : dget t v = none) : v ∉ t.map (·.L.v) := by
  induction t with
  | nil => simp
  | cons a r ih =>
    unfold dget at h
    split at h
    · simp at h
    · have := ih h; simp_all; exact fun h' => ‹¬a.L.v = v› h'.symm

theorem termsVal_dset_some (σ : V → Bool) {t : List (Term V)} {v : V} {old : Term V} (x : Term V)
    (h : dget t v = some old) : termsVal σ (dset t v x) = termsVal σ t - termVal σ old + termVal σ x := by
  induction t with
  | nil => simp [dget] at h
  | cons a r ih =>
    unfold dget at h; unfold dset
    split at h
    · simp at h; subst h; simp [*, termsVal]; omega
    · simp [*, termsVal]; have := ih h; omega

theorem termsVal_dset_none (σ : V → Bool) {t : List (Term V)} {v : V} (x : Term V)
    (h : dget t v = none) : termsVal σ (dset t v x) = termsVal σ t + termVal σ x := by
  induction t with
  | nil => simp [dset, termsVal]
  | cons a r ih =>
    unfold dget at h; unfold dset
    split at h
    · simp at h
    · simp [*, termsVal]; have := ih h; omega

theorem termsVal_ddel (σ : V → Bool) {t : List (Term V)} {v : V} {old : Term V}
    (h : dget t v = some old) : termsVal σ (ddel t v) = termsVal σ t - termVal σ old := by
  induction t with
  | nil => simp [dget] at h
  | cons a r ih =>
    unfold dget at h; unfold ddel
    split at h
    · simp at h; subst h; simp [*, termsVal]; omega
    · simp [*, termsVal]; have := ih h; omega

/-! ### `__add__` -/
theorem eval_fixNeg (σ : V → Bool) (r : Expr V) (v : V) : (r.fixNeg v).eval σ = r.eval σ := by
  unfold Expr.fixNeg
  split
  · rename_i cur h
    split
    · simp only [Expr.eval, termsVal_dset_some σ _ h, termVal]
      have := litVal_flip σ cur.L.v cur.L.s
      have e : (⟨cur.L.v, cur.L.s⟩ : Literal V) = cur.L := rfl
      rw [e] at this
      rw [this, Int.mul_sub]; simp [Int.neg_mul]; omega
    · rfl
  · rfl

theorem eval_addTerm (σ : V → Bool) (e : Expr V) (tm : Term V) :
    (e.addTerm tm).eval σ = e.eval σ + termVal σ tm := by
  unfold Expr.addTerm
  split
  · rename_i h; simp [termVal, h]
  · rw [eval_fixNeg]
    split
    · rename_i old h
      have hk := (dget_some h).1
      split
      · rename_i hs
        have hl : litVal σ tm.L = litVal σ old.L := litVal_same hk.symm hs
        dsimp only
        split
        · rename_i hc
          simp only [Expr.eval, termsVal_ddel σ h, termVal, hl]
          have : tm.c = -old.c := by omega
          rw [this, Int.neg_mul]; omega
        · simp only [Expr.eval, termsVal_dset_some σ _ h, termVal, hl, Int.add_mul]; omega
      · rename_i hs
        have hl : litVal σ tm.L = 1 - litVal σ old.L := litVal_opp hk.symm hs
        dsimp only
        split
        · rename_i hc
          simp only [Expr.eval, termsVal_ddel σ h, termVal, hl]
          have : tm.c = old.c := by omega
          rw [this, Int.mul_sub]; omega
        · simp only [Expr.eval, termsVal_dset_some σ _ h, termVal, hl, Int.sub_mul, Int.mul_sub]; omega
    · rename_i h
      have e : (⟨tm.L.v, tm.L.s⟩ : Literal V) = tm.L := rfl
      simp only [Expr.eval, termsVal_dset_none σ _ h, termVal, e]; omega

theorem eval_foldl_addTerm (σ : V → Bool) (ts : List (Term V)) (e : Expr V) :
    (ts.foldl Expr.addTerm e).eval σ = e.eval σ + termsVal σ ts := by
  induction ts generalizing e with
  | nil => simp [termsVal]
  | cons a r ih => simp [List.foldl, ih, eval_addTerm, termsVal]; omega

theorem eval_foldl_subTerm (σ : V → Bool) (ts : List (Term V)) (e : Expr V) :
    (ts.foldl (fun acc t => acc.addTerm ⟨t.L, -t.c⟩) e).eval σ = e.eval σ - termsVal σ ts := by
  induction ts generalizing e with
  | nil => simp [termsVal]
  | cons a r ih => simp [List.foldl, ih, eval_addTerm, termsVal, termVal, Int.neg_mul]; omega

theorem Expr.eval_add (σ : V → Bool) (e : Expr V) (x : Operand V) : (e.add x).eval σ = e.eval σ + x.val σ := by
  cases x with
  | str v => simp [Expr.add, eval_addTerm, Operand.val, termVal, litVal]
  | lit l => simp [Expr.add, eval_addTerm, Operand.val, termVal]
  | term t => simp [Expr.add, eval_addTerm, Operand.val]
  | num n => simp [Expr.add, Expr.eval, Operand.val]; omega
  | expr x => simp only [Expr.add, Operand.val]; rw [eval_foldl_addTerm]; simp [Expr.eval]; omega

theorem Expr.eval_sub (σ : V → Bool) (e : Expr V) (x : Operand V) : (e.sub x).eval σ = e.eval σ - x.val σ := by
  cases x with
  | str v => simp [Expr.sub, eval_addTerm, Operand.val, termVal, litVal]; omega
  | lit l => simp [Expr.sub, eval_addTerm, Operand.val, termVal]; omega
  | term t => simp [Expr.sub, eval_addTerm, Operand.val, termVal, Int.neg_mul]; omega
  | num n => simp [Expr.sub, Expr.eval, Operand.val]; omega
  | expr x => simp only [Expr.sub, Operand.val]; rw [eval_foldl_subTerm]; simp [Expr.eval]; omega

/-! ### `__mul__` -/
theorem termsVal_filter_ne_zero (σ : V → Bool) (ts : List (Term V)) :
    termsVal σ (ts.filter (fun t => t.c ≠ 0)) = termsVal σ ts := by
  induction ts with
  | nil => rfl
  | cons a r ih =>
    by_cases h : a.c = 0
    · have e : (a :: r).filter (fun t => decide (t.c ≠ 0)) = r.filter (fun t => decide (t.c ≠ 0)) := by
        simp [List.filter, h]
      rw [e, ih]; simp [termsVal, termVal, h]
    · have e : (a :: r).filter (fun t => decide (t.c ≠ 0)) = a :: r.filter (fun t => decide (t.c ≠ 0)) := by
        simp [List.filter, h]
      rw [e]; simp only [termsVal, ih]

theorem mulTerms_val (σ : V → Bool) (k : Int) (ts : List (Term V)) :
    (mulTerms k ts).1 + termsVal σ (mulTerms k ts).2 = termsVal σ ts * k := by
  induction ts with
  | nil => simp [mulTerms, termsVal]
  | cons a r ih =>
    simp only [mulTerms]
    split
    · simp only [termsVal, termVal, Int.add_mul]
      have := litVal_flip σ a.L.v a.L.s
      have e : (⟨a.L.v, a.L.s⟩ : Literal V) = a.L := rfl
      rw [e] at this
      rw [this, Int.mul_sub, Int.neg_mul, Int.neg_mul, Int.mul_one]
      have : a.c * litVal σ a.L * k = a.c * k * litVal σ a.L := by
        rw [Int.mul_assoc, Int.mul_comm (litVal σ a.L), Int.mul_assoc]
      omega
    · simp only [termsVal, termVal, Int.add_mul]
      have : a.c * litVal σ a.L * k = a.c * k * litVal σ a.L := by
        rw [Int.mul_assoc, Int.mul_comm (litVal σ a.L), Int.mul_assoc]
      omega

theorem Expr.eval_mul (σ : V → Bool) (e : Expr V) (n : Num) : (e.mul n).eval σ = e.eval σ * n.toInt := by
  simp only [Expr.mul, Expr.eval, termsVal_filter_ne_zero, Int.add_mul]
  have := mulTerms_val σ n.toInt e.t
  omega

/-! ### normal form -/
theorem nf_nil : NFTerms ([] : List (Term V)) := by simp [NFTerms]

theorem keys_dset_some {t : List (Term V)} {v : V} {x : Term V} (hx : x.L.v = v) (h : v ∈ t.map (·.L.v)) :
    (dset t v x).map (·.L.v) = t.map (·.L.v) := by
  induction t with
  | nil => simp at h
  | cons a r ih =>
    unfold dset
    split
    · simp [*]
    · rename_i hne
      have : v ∈ r.map (·.L.v) := by
        simp at h ⊢; rcases h with h | h
        · exact absurd h.symm hne
        · exact h
      simp [ih this]

theorem keys_dset_none {t : List (Term V)} {v : V} {x : Term V} (h : v ∉ t.map (·.L.v)) :
    (dset t v x).map (·.L.v) = t.map (·.L.v) ++ [x.L.v] := by
  induction t with
  | nil => simp [dset]
  | cons a r ih =>
    unfold dset
    split
    · rename_i he; simp [he] at h
    · have : v ∉ r.map (·.L.v) := by simp at h ⊢; exact h.2
      simp [ih this]

theorem mem_dset {t : List (Term V)} {v : V} {x y : Term V} (h : y ∈ dset t v x) : y = x ∨ y ∈ t := by
  induction t with
  | nil => simp [dset] at h; exact Or.inl h
  | cons a r ih =>
    unfold dset at h
    split at h
    · simp at h ⊢; rcases h with h | h <;> simp [h]
    · simp at h ⊢; rcases h with h | h
      · simp [h]
      · rcases ih h with h | h <;> simp [h]

theorem mem_ddel {t : List (Term V)} {v : V} {y : Term V} (h : y ∈ ddel t v) : y ∈ t := by
  induction t with
  | nil => simp [ddel] at h
  | cons a r ih =>
    unfold ddel at h
    split at h
    · simp [h]
    · simp at h ⊢; rcases h with h | h
      · simp [h]
      · exact Or.inr (ih h)

theorem keys_ddel_sublist (t : List (Term V)) (v : V) : ((ddel t v).map (·.L.v)).Sublist (t.map (·.L.v)) := by
  induction t with
  | nil => simp [ddel]
  | cons a r ih =>
    unfold ddel
    split
    · simp
    · simp; exact ih

theorem nf_dset_some {t : List (Term V)} {v : V} {old x : Term V} (hnf : NFTerms t) (h : dget t v = some old)
    (hx : x.L.v = v) (hc : 0 < x.c) : NFTerms (dset t v x) := by
  have hk : v ∈ t.map (·.L.v) := by
    have := dget_some h; simp; exact ⟨old, this.2, this.1⟩
  refine ⟨fun y hy => ?_, by rw [keys_dset_some hx hk]; exact hnf.2⟩
  rcases mem_dset hy with h | h
  · simp [h, hc]
  · exact hnf.1 y h

theorem nf_dset_none {t : List (Term V)} {v : V} {x : Term V} (hnf : NFTerms t) (h : dget t v = none)
    (hx : x.L.v = v) (hc : 0 < x.c) : NFTerms (dset t v x) := by
  have hk := dget_none h
  refine ⟨fun y hy => ?_, ?_⟩
  · rcases mem_dset hy with h | h
    · simp [h, hc]
    · exact hnf.1 y h
  · rw [keys_dset_none hk, hx]
    exact List.nodup_append.2 ⟨hnf.2, by simp, by simp; intro a ha; intro h'; exact hk (by simp; exact ⟨a, ha, h'⟩)⟩

theorem nf_ddel {t : List (Term V)} {v : V} (hnf : NFTerms t) : NFTerms (ddel t v) :=
  ⟨fun y hy => hnf.1 y (mem_ddel hy), hnf.2.sublist (keys_ddel_sublist t v)⟩

theorem dget_dset_self {t : List (Term V)} {v : V} {x : Term V} (hx : x.L.v = v) : dget (dset t v x) v = some x := by
  induction t with
  | nil => simp [dset, dget, hx]
  | cons a r ih =>
    unfold dset
    split
    · simp [dget, hx]
    · rename_i h; simp [dget, h, ih]

theorem dget_ddel_nf {t : List (Term V)} {v : V} (hnf : (t.map (·.L.v)).Nodup) : dget (ddel t v) v = none := by
  induction t with
  | nil => simp [ddel, dget]
  | cons a r ih =>
    unfold ddel
    split
    · rename_i h
      simp at hnf
      cases hd : dget r v with
      | none => rfl
      | some y => have := dget_some hd; exact absurd (h ▸ this.1) (fun e => hnf.1 y this.2 (by simp [e]))
    · rename_i h
      simp at hnf
      simp [dget, h, ih hnf.2]

theorem dset_dset {t : List (Term V)} {v : V} {x y : Term V} (hx : x.L.v = v) :
    dset (dset t v x) v y = dset t v y := by
  induction t with
  | nil => simp [dset, hx]
  | cons a r ih =>
    by_cases h : a.L.v = v
    · simp [dset, h, hx]
    · simp [dset, h, ih]

theorem fixNeg_dset (c : Int) (t : List (Term V)) {v : V} {x : Term V} (hx : x.L.v = v) :
    (⟨c, dset t v x⟩ : Expr V).fixNeg v =
      if x.c < 0 then ⟨c + x.c, dset t v ⟨⟨x.L.v, !x.L.s⟩, -x.c⟩⟩ else ⟨c, dset t v x⟩ := by
  simp only [Expr.fixNeg, dget_dset_self hx, dset_dset hx]

theorem nf_addTerm {e : Expr V} (tm : Term V) (hnf : e.NF) : (e.addTerm tm).NF := by
  unfold Expr.addTerm
  split
  · exact hnf
  · rename_i hc0
    dsimp only
    split
    · rename_i old h
      have hk := (dget_some h).1
      split
      · split
        · unfold Expr.fixNeg; simp only [dget_ddel_nf hnf.2]; exact nf_ddel hnf
        · rw [fixNeg_dset _ _ (x := ⟨old.L, old.c + tm.c⟩) hk]
          split
          · rename_i hneg; simp only at hneg; exact nf_dset_some hnf h (by simp [hk]) (by simp; omega)
          · rename_i hneg; simp only at hneg; exact nf_dset_some hnf h (by simp [hk]) (by simp; omega)
      · split
        · unfold Expr.fixNeg; simp only [dget_ddel_nf hnf.2]; exact nf_ddel hnf
        · rw [fixNeg_dset _ _ (x := ⟨old.L, old.c - tm.c⟩) hk]
          split
          · rename_i hneg; simp only at hneg; exact nf_dset_some hnf h (by simp [hk]) (by simp; omega)
          · rename_i hneg; simp only at hneg; exact nf_dset_some hnf h (by simp [hk]) (by simp; omega)
    · rename_i h
      rw [fixNeg_dset _ _ (x := ⟨⟨tm.L.v, tm.L.s⟩, tm.c⟩) rfl]
      split
      · rename_i hneg; simp only at hneg; exact nf_dset_none hnf h (by simp) (by simp; omega)
      · rename_i hneg; simp only at hneg; exact nf_dset_none hnf h (by simp) (by simp; omega)

theorem nf_foldl_addTerm (ts : List (Term V)) {e : Expr V} (hnf : e.NF) : (ts.foldl Expr.addTerm e).NF := by
  induction ts generalizing e with
  | nil => exact hnf
  | cons a r ih => exact ih (nf_addTerm a hnf)

theorem nf_foldl_subTerm (ts : List (Term V)) {e : Expr V} (hnf : e.NF) :
    (ts.foldl (fun acc t => acc.addTerm ⟨t.L, -t.c⟩) e).NF := by
  induction ts generalizing e with
  | nil => exact hnf
  | cons a r ih => exact ih (nf_addTerm _ hnf)

theorem Expr.nf_add {e : Expr V} (x : Operand V) (hnf : e.NF) : (e.add x).NF := by
  cases x with
  | str v => exact nf_addTerm _ hnf
  | lit l => exact nf_addTerm _ hnf
  | term t => exact nf_addTerm _ hnf
  | num n => exact hnf
  | expr x => exact nf_foldl_addTerm _ (e := ⟨e.c + x.c, e.t⟩) hnf

theorem Expr.nf_sub {e : Expr V} (x : Operand V) (hnf : e.NF) : (e.sub x).NF := by
  cases x with
  | str v => exact nf_addTerm _ hnf
  | lit l => exact nf_addTerm _ hnf
  | term t => exact nf_addTerm _ hnf
  | num n => exact hnf
  | expr x => exact nf_foldl_subTerm _ (e := ⟨e.c + -x.c, e.t⟩) hnf

theorem mulTerms_keys (k : Int) (ts : List (Term V)) : (mulTerms k ts).2.map (·.L.v) = ts.map (·.L.v) := by
  induction ts with
  | nil => simp [mulTerms]
  | cons a r ih => simp only [mulTerms]; split <;> simp [ih]

theorem mulTerms_nonneg (k : Int) (ts : List (Term V)) : ∀ y ∈ (mulTerms k ts).2, 0 ≤ y.c := by
  induction ts with
  | nil => simp [mulTerms]
  | cons a r ih =>
    simp only [mulTerms]
    split
    · intro y hy; simp at hy; rcases hy with e | hm
      · simp [e]; omega
      · exact ih y hm
    · intro y hy; simp at hy; rcases hy with e | hm
      · simp [e]; omega
      · exact ih y hm

theorem Expr.nf_mul {e : Expr V} (n : Num) (hnf : e.NF) : (e.mul n).NF := by
  simp only [Expr.mul, Expr.NF, NFTerms]
  refine ⟨fun y hy => ?_, ?_⟩
  · have := List.mem_filter.1 hy
    have h0 := mulTerms_nonneg n.toInt e.t y this.1
    have h1 : y.c ≠ 0 := by simpa using this.2
    omega
  · have hs : ((mulTerms n.toInt e.t).2.filter (fun t => t.c ≠ 0)).Sublist (mulTerms n.toInt e.t).2 := List.filter_sublist
    have := hs.map (·.L.v)
    rw [mulTerms_keys] at this
    exact hnf.2.sublist this

theorem nf_empty : (⟨0, []⟩ : Expr V).NF := nf_nil

theorem Ineq.nf_make {a b : Expr V} (o : CmpOp) (ha : a.NF) (hb : b.NF) : (Ineq.make a b o).lhs.NF := by
  cases o <;> simp only [Ineq.make, Expr.NF] <;> first | exact Expr.nf_sub _ ha | exact Expr.nf_sub _ hb

/-! ### inequalities -/
theorem Ineq.make_lhs_c (a b : Expr V) (o : CmpOp) : (Ineq.make a b o).lhs.c = 0 := by
  cases o <;> rfl

theorem Ineq.holds_make (σ : V → Bool) (a b : Expr V) (o : CmpOp) :
    (Ineq.make a b o).holds σ ↔ o.rel (a.eval σ) (b.eval σ) := by
  have h1 := Expr.eval_sub σ a (.expr b)
  have h2 := Expr.eval_sub σ b (.expr a)
  simp only [Operand.val] at h1 h2
  cases o <;> simp only [Ineq.make, Ineq.holds, CmpOp.rel, Expr.eval] at * <;> omega

/-! ### expression trees: value of what Python builds = value computed directly -/
def Val.val (σ : V → Bool) : Val V → Int
  | .str v => b2i (σ v)
  | .num n => n.toInt
  | .lit l => litVal σ l
  | .term t => termVal σ t
  | .expr e => e.eval σ
  | .ineq _ => 0
  | .bool _ => 0

/-- direct integer value of an arithmetic tree.  Python's unary minus is logical negation (`1 - x`) on a `Literal`
    and arithmetic negation on a `Term` / number. -/
def Tree.den (σ : V → Bool) : Tree V → Int
  | .str v => b2i (σ v)
  | .num n => n.toInt
  | .lit v s => litVal σ ⟨v, s⟩
  | .neg a => match a.run with
      | .ok (.lit _) => 1 - a.den σ
      | _ => - a.den σ
  | .inv a => - a.den σ - 1
  | .pos a => a.den σ
  | .mul a b => a.den σ * b.den σ
  | .add a b => a.den σ + b.den σ
  | .sub a b => a.den σ - b.den σ
  | .cmp _ _ _ => 0
  | .ineq _ _ _ => 0

/-- direct truth value of a comparison tree -/
def Tree.truth (σ : V → Bool) : Tree V → Prop
  | .cmp o a b => o.rel (a.den σ) (b.den σ)
  | .ineq s a b => match parseOp s with
      | some o => o.rel (a.den σ) (b.den σ)
      | none => False
  | _ => False

/-- what it means for the built object `v` to agree with the tree `t` under `σ` -/
def Val.Sound (σ : V → Bool) (v : Val V) (t : Tree V) : Prop :=
  match v with
  | .ineq q => (q.holds σ ↔ t.truth σ)
  | .bool b => b = false      -- the only `bool` ever built: an `Ineq` object is never `==` a `str` / number
  | v => v.val σ = t.den σ

def Val.isIneq : Val V → Bool | .ineq _ => true | .bool _ => true | _ => false

theorem Val.sound_val {σ : V → Bool} {v : Val V} {t : Tree V} (hi : v.isIneq = false) (h : v.Sound σ t) :
    v.val σ = t.den σ := by
  cases v <;> simp [Val.isIneq] at hi <;> exact h

theorem Val.sound_of_val {σ : V → Bool} {v : Val V} {t : Tree V} (hi : v.isIneq = false) (h : v.val σ = t.den σ) :
    v.Sound σ t := by
  cases v <;> simp [Val.isIneq] at hi <;> exact h

theorem Tree.den_sumFrom (σ : V → Bool) (items : List (Tree V)) (start : Tree V) :
    (Tree.sumFrom start items).den σ = start.den σ + (items.map (Tree.den σ)).sum := by
  induction items generalizing start with
  | nil => simp [Tree.sumFrom]
  | cons x r ih =>
    have := ih (.add start x)
    simp only [Tree.sumFrom, List.foldl_cons, List.map_cons, List.sum_cons] at this ⊢
    rw [this]; simp [Tree.den]; omega

theorem Num.toInt_neg (n : Num) : n.neg.toInt = - n.toInt := by
  cases n with
  | int z => rfl
  | flt a d => simp [Num.neg, Num.toInt, Int.neg_tdiv]

theorem litVal_neg (σ : V → Bool) (l : Literal V) : litVal σ l.neg = 1 - litVal σ l := by
  cases l with | mk v s => exact litVal_flip σ v s

theorem termVal_neg (σ : V → Bool) (t : Term V) : termVal σ t.neg = - termVal σ t := by
  simp [Term.neg, termVal, Int.neg_mul]

theorem termVal_litMul (σ : V → Bool) (l : Literal V) (n : Num) : termVal σ (l.mul n) = litVal σ l * n.toInt := by
  cases l; simp [Literal.mul, termVal, Int.mul_comm]

theorem termVal_termMul (σ : V → Bool) (t : Term V) (n : Num) : termVal σ (t.mul n) = termVal σ t * n.toInt := by
  simp only [Term.mul, termVal]
  rw [Int.mul_assoc, Int.mul_comm n.toInt, Int.mul_assoc]

theorem eval_empty (σ : V → Bool) : (⟨0, []⟩ : Expr V).eval σ = 0 := by simp [Expr.eval, termsVal]

theorem operand_val {x : Val V} {o : Operand V} (σ : V → Bool) (h : x.operand? = some o) : o.val σ = x.val σ := by
  cases x <;> simp [Val.operand?] at h <;> subst h <;> rfl

theorem exprOf_val {x : Val V} {e : Expr V} (σ : V → Bool) (h : exprOf x = .ok e) : e.eval σ = x.val σ := by
  unfold exprOf at h
  split at h
  · rename_i o ho; simp at h; subst h; rw [Expr.eval_add, eval_empty, operand_val σ ho]; omega
  · simp at h

theorem pyNeg_sound (σ : V → Bool) {x v : Val V} (h : pyNeg x = .ok v) :
    v.isIneq = false ∧ v.val σ = (match x with | .lit _ => 1 - x.val σ | _ => - x.val σ) := by
  cases x <;> simp [pyNeg] at h <;> subst h <;>
    simp [Val.isIneq, Val.val, litVal_neg, termVal_neg, Num.toInt_neg]

theorem pyInv_sound (σ : V → Bool) {x v : Val V} (h : pyInv x = .ok v) :
    v.isIneq = false ∧ v.val σ = - x.val σ - 1 := by
  cases x with
  | num n => cases n <;> simp [pyInv] at h; subst h; simp [Val.isIneq, Val.val, Num.toInt]
  | _ => simp [pyInv] at h

theorem pyPos_sound (σ : V → Bool) {x v : Val V} (h : pyPos x = .ok v) :
    v.isIneq = false ∧ v.val σ = x.val σ := by
  cases x <;> simp [pyPos] at h; subst h; simp [Val.isIneq, Val.val]

theorem addLT_sound (σ : V → Bool) {a : Operand V} {b v : Val V} (h : addLT a b = .ok v) :
    v.isIneq = false ∧ v.val σ = a.val σ + b.val σ := by
  unfold addLT at h
  split at h
  · rename_i o ho; simp at h; subst h
    simp [Val.isIneq, Val.val, Expr.eval_add, eval_empty, operand_val σ ho]
  · simp at h

theorem numAdd_sound (σ : V → Bool) {a b : Num} {v : Val V} (h : numAdd a b = .ok v) :
    v.isIneq = false ∧ v.val σ = a.toInt + b.toInt ∧ ∃ n, v = .num n := by
  cases a <;> cases b <;> simp [numAdd] at h
  subst h; simp [Val.isIneq, Val.val, Num.toInt]

theorem pyAdd_sound (σ : V → Bool) {x y v : Val V} (h : pyAdd x y = .ok v) :
    v.isIneq = false ∧ v.val σ = x.val σ + y.val σ := by
  cases x <;> cases y <;> simp only [pyAdd] at h <;>
    first
    | (obtain ⟨h1, h2, _⟩ := numAdd_sound σ h; exact ⟨h1, h2⟩)
    | (simp [Val.operand?] at h; done)
    | (obtain ⟨h1, h2⟩ := addLT_sound σ h; refine ⟨h1, ?_⟩; simp only [Operand.val, Val.val] at h2 ⊢; omega)
    | (simp [Val.operand?] at h; subst h; simp [Val.isIneq, Val.val, Expr.eval_add, Operand.val])

theorem pySub_sound (σ : V → Bool) {x y v : Val V} (h : pySub x y = .ok v) :
    v.isIneq = false ∧ v.val σ = x.val σ - y.val σ := by
  cases x <;> cases y <;> simp only [pySub] at h <;>
    first
    | (simp [Val.operand?] at h; done)
    | (simp [Val.operand?] at h; subst h; simp [Val.isIneq, Val.val, Expr.eval_sub, Operand.val])

theorem pyMul_sound (σ : V → Bool) {x y v : Val V} (h : pyMul x y = .ok v) :
    v.isIneq = false ∧ v.val σ = x.val σ * y.val σ := by
  cases x <;> cases y <;> simp only [pyMul] at h <;>
    first
    | (simp at h; done)
    | (simp at h; subst h
       simp [Val.isIneq, Val.val, termVal_litMul, termVal_termMul, Expr.eval_mul, Int.mul_comm])

theorem cmpPB_sound (σ : V → Bool) {o : CmpOp} {ea : Expr V} {b v : Val V} (h : cmpPB o ea b = .ok v) :
    ∃ q, v = .ineq q ∧ (q.holds σ ↔ o.rel (ea.eval σ) (b.val σ)) := by
  unfold cmpPB at h
  cases hb : exprOf b with
  | error e => simp [hb, bind, Except.bind] at h
  | ok eb =>
    simp [hb, bind, Except.bind, pure, Except.pure] at h
    exact ⟨_, h.symm, by rw [Ineq.holds_make, exprOf_val σ hb]⟩

theorem rel_swap (o : CmpOp) (x y : Int) : o.swap.rel x y ↔ o.rel y x := by
  cases o <;> simp [CmpOp.swap, CmpOp.rel] <;> omega

theorem exprOfLit_val (σ : V → Bool) (l : Literal V) : (exprOfLit l).eval σ = litVal σ l := by
  simp [exprOfLit, Expr.eval_add, eval_empty, Operand.val]
theorem exprOfTerm_val (σ : V → Bool) (t : Term V) : (exprOfTerm t).eval σ = termVal σ t := by
  simp [exprOfTerm, Expr.eval_add, eval_empty, Operand.val]

/-- a comparison either builds an `Ineq` that holds iff the direct comparison holds, or — only when an `Ineq` object
    is compared by `==` with a `str` / number — answers `False` -/
theorem pyCmp_sound (σ : V → Bool) {o : CmpOp} {x y v : Val V} (h : pyCmp o x y = .ok v) :
    (∃ q, v = .ineq q ∧ x.isIneq = false ∧ y.isIneq = false ∧ (q.holds σ ↔ o.rel (x.val σ) (y.val σ))) ∨
    (v = .bool false ∧ (x.isIneq = true ∨ y.isIneq = true)) := by
  cases x <;> cases y <;> simp only [pyCmp] at h <;>
    first
    | (simp at h; done)
    | (split at h <;> simp at h; done)
    | (split at h <;> simp at h; subst h; right; simp [Val.isIneq]; done)
    | (exfalso; simp [cmpPB, exprOf, Val.operand?, operandErr, bind, Except.bind] at h; done)
    | (left
       obtain ⟨q, hq, hh⟩ := cmpPB_sound σ h
       exact ⟨q, hq, rfl, rfl, by simpa [rel_swap, Val.val, exprOfLit_val, exprOfTerm_val] using hh⟩)

/-- meaning of a normalised operator -/
def NOp.rel : NOp → Int → Int → Prop
  | .ge, x, y => x ≥ y
  | .gt, x, y => x > y
  | .eq, x, y => x = y

theorem CmpOp.norm_rel (o : CmpOp) (x y : Int) :
    o.rel x y ↔ o.norm.1.rel (if o.norm.2 then y else x) (if o.norm.2 then x else y) := by
  cases o <;> simp [CmpOp.norm, CmpOp.rel, NOp.rel]

theorem Ineq.holds_makeOp (σ : V → Bool) (l : Expr V) (x : Operand V) (op : NOp) :
    (Ineq.makeOp l x op).holds σ ↔ op.rel (l.eval σ) (x.val σ) := by
  have h1 := Expr.eval_sub σ l x
  cases op <;> simp only [Ineq.makeOp, Ineq.holds, Expr.eval, NOp.rel] at * <;> omega

theorem Ineq.nf_makeOp {l : Expr V} (x : Operand V) (op : NOp) (hl : l.NF) : (Ineq.makeOp l x op).lhs.NF :=
  Expr.nf_sub x hl

/-- `Ineq.make` (both sides expressions) is the general constructor on an `Expr` operand -/
theorem Ineq.make_eq_makeOp (a b : Expr V) (o : CmpOp) :
    Ineq.make a b o = (if o.norm.2 then Ineq.makeOp b (.expr a) o.norm.1 else Ineq.makeOp a (.expr b) o.norm.1) := by
  cases o <;> rfl

theorem pyIneq_sound (σ : V → Bool) {s : String} {x y v : Val V} (h : pyIneq s x y = .ok v) :
    ∃ q o, parseOp s = some o ∧ v = .ineq q ∧ x.isIneq = false ∧ y.isIneq = false ∧
      (q.holds σ ↔ o.rel (x.val σ) (y.val σ)) := by
  unfold pyIneq at h
  cases ho : parseOp s with
  | none => simp [ho] at h
  | some o =>
    simp only [ho] at h
    cases hsw : o.norm.2 <;> simp only [hsw, Bool.false_eq_true, if_false, if_true] at h
    · cases x <;> cases y <;> simp [Val.operand?] at h <;> subst h <;>
        exact ⟨_, o, rfl, rfl, rfl, rfl, by
          rw [Ineq.holds_makeOp, CmpOp.norm_rel, hsw]; simp [Val.val, Operand.val]⟩
    · cases x <;> cases y <;> simp [Val.operand?] at h <;> subst h <;>
        exact ⟨_, o, rfl, rfl, rfl, rfl, by
          rw [Ineq.holds_makeOp, CmpOp.norm_rel, hsw]; simp [Val.val, Operand.val]⟩

/-! ### normal form of everything an expression tree builds -/
/-- an `Expr` is in normal form, an `Ineq` has a normal-form left side; other values carry no dictionary -/
def Val.NF : Val V → Prop
  | .expr e => e.NF
  | .ineq q => q.lhs.NF
  | _ => True

theorem exprOf_nf {z : Val V} {e : Expr V} (h : exprOf z = .ok e) : e.NF := by
  unfold exprOf at h
  split at h
  · simp at h; subst h; exact Expr.nf_add _ nf_empty
  · simp at h

theorem pyNeg_nf {x v : Val V} (h : pyNeg x = .ok v) : v.NF := by
  cases x <;> simp [pyNeg] at h <;> subst h <;> simp [Val.NF]

theorem pyMul_nf {x y v : Val V} (h : pyMul x y = .ok v) (hx : x.NF) (hy : y.NF) : v.NF := by
  cases x <;> cases y <;> simp only [pyMul] at h <;>
    first
    | (simp at h; done)
    | (simp at h; subst h; first | exact True.intro | exact Expr.nf_mul _ hx | exact Expr.nf_mul _ hy)

theorem addLT_nf {a : Operand V} {b v : Val V} (h : addLT a b = .ok v) : v.NF := by
  unfold addLT at h
  split at h
  · simp at h; subst h; exact Expr.nf_add _ (Expr.nf_add _ nf_empty)
  · simp at h

theorem pyAdd_nf {x y v : Val V} (h : pyAdd x y = .ok v) (hx : x.NF) : v.NF := by
  cases x <;> cases y <;> simp only [pyAdd] at h <;>
    first
    | (obtain ⟨_, _, n, hn⟩ := numAdd_sound (fun _ => true) h; subst hn; trivial)
    | (simp [Val.operand?] at h; done)
    | exact addLT_nf h
    | (simp [Val.operand?] at h; subst h; exact Expr.nf_add _ hx)

theorem pySub_nf {x y v : Val V} (h : pySub x y = .ok v) (hx : x.NF) : v.NF := by
  cases x <;> cases y <;> simp only [pySub] at h <;>
    first
    | (simp [Val.operand?] at h; done)
    | (simp [Val.operand?] at h; subst h; exact Expr.nf_sub _ hx)

theorem cmpPB_nf {o : CmpOp} {ea : Expr V} {b v : Val V} (h : cmpPB o ea b = .ok v) (ha : ea.NF) : v.NF := by
  unfold cmpPB at h
  cases hb : exprOf b with
  | error e => simp [hb, bind, Except.bind] at h
  | ok eb =>
    simp [hb, bind, Except.bind, pure, Except.pure] at h
    subst h
    exact Ineq.nf_make _ ha (exprOf_nf hb)

theorem pyCmp_nf {o : CmpOp} {x y v : Val V} (h : pyCmp o x y = .ok v) (hx : x.NF) (hy : y.NF) : v.NF := by
  cases x <;> cases y <;> simp only [pyCmp] at h <;>
    first
    | (simp at h; done)
    | (split at h <;> simp at h; done)
    | (split at h <;> simp at h; subst h; trivial)
    | exact cmpPB_nf h (Expr.nf_add _ nf_empty)
    | exact cmpPB_nf h hx
    | exact cmpPB_nf h hy

theorem pyIneq_nf {s : String} {x y v : Val V} (h : pyIneq s x y = .ok v) (hx : x.NF) (hy : y.NF) : v.NF := by
  unfold pyIneq at h
  cases ho : parseOp s with
  | none => simp [ho] at h
  | some o =>
    simp only [ho] at h
    cases hsw : o.norm.2 <;> simp only [hsw, Bool.false_eq_true, if_false, if_true] at h
    · cases x <;> cases y <;> simp [Val.operand?] at h <;> subst h <;> exact Ineq.nf_makeOp _ _ hx
    · cases x <;> cases y <;> simp [Val.operand?] at h <;> subst h <;> exact Ineq.nf_makeOp _ _ hy

theorem pyInv_nf {x v : Val V} (h : pyInv x = .ok v) : v.NF := by
  cases x with
  | num n => cases n <;> simp [pyInv] at h; subst h; trivial
  | _ => simp [pyInv] at h

theorem pyPos_nf {x v : Val V} (h : pyPos x = .ok v) : v.NF := by
  cases x <;> simp [pyPos] at h; subst h; trivial

theorem Tree.run_nf (t : Tree V) (v : Val V) (h : t.run = .ok v) : v.NF := by
  induction t generalizing v with
  | str s => simp [Tree.run] at h; subst h; trivial
  | num n => simp [Tree.run] at h; subst h; trivial
  | lit s b => simp [Tree.run] at h; subst h; trivial
  | neg a ih =>
    simp only [Tree.run, bind, Except.bind] at h
    cases ha : a.run with
    | error e => simp [ha] at h
    | ok x => simp only [ha] at h; exact pyNeg_nf h
  | inv a ih =>
    simp only [Tree.run, bind, Except.bind] at h
    cases ha : a.run with
    | error e => simp [ha] at h
    | ok x => simp only [ha] at h; exact pyInv_nf h
  | pos a ih =>
    simp only [Tree.run, bind, Except.bind] at h
    cases ha : a.run with
    | error e => simp [ha] at h
    | ok x => simp only [ha] at h; exact pyPos_nf h
  | mul a b iha ihb =>
    simp only [Tree.run, bind, Except.bind] at h
    cases ha : a.run with
    | error e => simp [ha] at h
    | ok x =>
      cases hb : b.run with
      | error e => simp [ha, hb] at h
      | ok y => simp only [ha, hb] at h; exact pyMul_nf h (iha x ha) (ihb y hb)
  | add a b iha ihb =>
    simp only [Tree.run, bind, Except.bind] at h
    cases ha : a.run with
    | error e => simp [ha] at h
    | ok x =>
      cases hb : b.run with
      | error e => simp [ha, hb] at h
      | ok y => simp only [ha, hb] at h; exact pyAdd_nf h (iha x ha)
  | sub a b iha ihb =>
    simp only [Tree.run, bind, Except.bind] at h
    cases ha : a.run with
    | error e => simp [ha] at h
    | ok x =>
      cases hb : b.run with
      | error e => simp [ha, hb] at h
      | ok y => simp only [ha, hb] at h; exact pySub_nf h (iha x ha)
  | cmp o a b iha ihb =>
    simp only [Tree.run, bind, Except.bind] at h
    cases ha : a.run with
    | error e => simp [ha] at h
    | ok x =>
      cases hb : b.run with
      | error e => simp [ha, hb] at h
      | ok y => simp only [ha, hb] at h; exact pyCmp_nf h (iha x ha) (ihb y hb)
  | ineq s a b iha ihb =>
    simp only [Tree.run, bind, Except.bind] at h
    cases ha : a.run with
    | error e => simp [ha] at h
    | ok x =>
      cases hb : b.run with
      | error e => simp [ha, hb] at h
      | ok y => simp only [ha, hb] at h; exact pyIneq_nf h (iha x ha) (ihb y hb)

end FV.PB

import FV.Model.Netlist
import FV.Proofs.Geom
import Mathlib.Algebra.Order.Field.Basic
import Mathlib.Algebra.BigOperators.Group.List.Basic
import Mathlib.Tactic.Linarith
import Mathlib.Tactic.Ring
import Mathlib.Tactic.FieldSimp
/-
  Helper lemmas for the netlist reader / writer model (C04, C05): the `Except` combinators, inversion of every
  reader function ("if it returned `ok`, then …"), sums as `List.sum`.
-/
namespace FV.NL
open FV
set_option linter.unusedSectionVars false
set_option linter.unusedVariables false

/-! ### combinators -/

section comb
variable {β γ σ : Type}

@[simp] theorem guardE_ok (c : Bool) (e : Err) : guardE c e = .ok () ↔ c = true := by
  unfold guardE; cases c <;> simp

theorem mapE_ok_iff (f : β → Except Err γ) (l : List β) (r : List γ) :
    mapE f l = .ok r ↔ List.Forall₂ (fun x y => f x = .ok y) l r := by
  induction l generalizing r with
  | nil => cases r <;> simp [mapE]
  | cons x xs ih =>
    unfold mapE
    cases hx : f x with
    | error e => simp; intro h; cases h; simp_all
    | ok y =>
      cases hxs : mapE f xs with
      | error e =>
        simp
        intro h
        cases h with
        | cons h1 h2 => rw [← ih] at h2; simp [hxs] at h2
      | ok ys =>
        simp
        constructor
        · intro h; subst h
          exact List.Forall₂.cons hx ((ih ys).mp hxs)
        · intro h
          cases h with
          | cons h1 h2 =>
            rw [hx] at h1; cases h1
            have := (ih _).mpr h2
            rw [hxs] at this; cases this; rfl

theorem mapE_ok_mem {f : β → Except Err γ} {l : List β} {r : List γ} (h : mapE f l = .ok r) {x : β} (hx : x ∈ l) :
    ∃ y, y ∈ r ∧ f x = .ok y := by
  rw [mapE_ok_iff] at h
  induction h with
  | nil => cases hx
  | cons h1 h2 ih =>
    cases hx with
    | head => exact ⟨_, List.mem_cons_self, h1⟩
    | tail _ hm => obtain ⟨y, hy, hf⟩ := ih hm; exact ⟨y, List.mem_cons_of_mem _ hy, hf⟩

theorem mapE_ok_mem' {f : β → Except Err γ} {l : List β} {r : List γ} (h : mapE f l = .ok r) {y : γ} (hy : y ∈ r) :
    ∃ x, x ∈ l ∧ f x = .ok y := by
  rw [mapE_ok_iff] at h
  induction h with
  | nil => cases hy
  | cons h1 h2 ih =>
    cases hy with
    | head => exact ⟨_, List.mem_cons_self, h1⟩
    | tail _ hm => obtain ⟨x, hx, hf⟩ := ih hm; exact ⟨x, List.mem_cons_of_mem _ hx, hf⟩

theorem mapE_length {f : β → Except Err γ} {l : List β} {r : List γ} (h : mapE f l = .ok r) : r.length = l.length := by
  rw [mapE_ok_iff] at h; exact h.length_eq.symm

/-- re-reading what was written: `f (g y) = ok y` for every element. -/
theorem mapE_map_ok {f : β → Except Err γ} {g : γ → β} {r : List γ} (h : ∀ y ∈ r, f (g y) = .ok y) :
    mapE f (r.map g) = .ok r := by
  induction r with
  | nil => rfl
  | cons y ys ih =>
    simp only [List.map, mapE, h y List.mem_cons_self]
    rw [ih (fun z hz => h z (List.mem_cons_of_mem _ hz))]

theorem mapE_map_ok' {f : β → Except Err γ} {g : σ → β} {k : σ → γ} {r : List σ} (h : ∀ y ∈ r, f (g y) = .ok (k y)) :
    mapE f (r.map g) = .ok (r.map k) := by
  induction r with
  | nil => rfl
  | cons y ys ih =>
    simp only [List.map, mapE, h y List.mem_cons_self]
    rw [ih (fun z hz => h z (List.mem_cons_of_mem _ hz))]

theorem mapE_congr {f g : β → Except Err γ} {l : List β} (h : ∀ x ∈ l, f x = g x) : mapE f l = mapE g l := by
  induction l with
  | nil => rfl
  | cons x xs ih =>
    simp only [mapE, h x List.mem_cons_self]
    rw [ih (fun z hz => h z (List.mem_cons_of_mem _ hz))]

/-- every step of a successful `foldlE` succeeded from some state; an invariant carries through. -/
theorem foldlE_inv {f : σ → β → Except Err σ} (P : σ → Prop) {l : List β} {s s' : σ}
    (hstep : ∀ s x s', x ∈ l → P s → f s x = .ok s' → P s') (h0 : P s) (h : foldlE f s l = .ok s') : P s' := by
  induction l generalizing s with
  | nil => simp [foldlE] at h; subst h; exact h0
  | cons x xs ih =>
    unfold foldlE at h
    cases hx : f s x with
    | error e => simp [hx] at h
    | ok s1 =>
      simp [hx] at h
      exact ih (fun s x s' hm => hstep s x s' (List.mem_cons_of_mem _ hm)) (hstep s x s1 List.mem_cons_self h0 hx) h

theorem foldlE_step_ok {f : σ → β → Except Err σ} {l : List β} {s s' : σ} (h : foldlE f s l = .ok s') {x : β}
    (hx : x ∈ l) : ∃ a b, f a x = .ok b := by
  induction l generalizing s with
  | nil => cases hx
  | cons y ys ih =>
    unfold foldlE at h
    cases hy : f s y with
    | error e => simp [hy] at h
    | ok s1 =>
      simp [hy] at h
      cases hx with
      | head => exact ⟨s, s1, hy⟩
      | tail _ hm => exact ih h hm

theorem nodupB_iff [DecidableEq β] (l : List β) : nodupB l = true ↔ l.Nodup := by
  induction l with
  | nil => simp [nodupB]
  | cons x xs ih => simp [nodupB, ih, List.nodup_cons]

theorem assoc_of_mem [DecidableEq β] {l : List (β × γ)} {k : β} {v : γ} (hn : (l.map (·.1)).Nodup) (hm : (k, v) ∈ l) :
    assoc k l = some v := by
  induction l with
  | nil => cases hm
  | cons p ps ih =>
    obtain ⟨k', v'⟩ := p
    simp only [List.map, List.nodup_cons] at hn
    unfold assoc
    cases hm with
    | head => simp
    | tail _ hm' =>
      have : k' ≠ k := by
        intro hk; subst hk
        exact hn.1 (List.mem_map.mpr ⟨(k', v), hm', rfl⟩)
      simp [this, ih hn.2 hm']

theorem assoc_none_of_not_mem [DecidableEq β] {l : List (β × γ)} {k : β} (h : k ∉ l.map (·.1)) : assoc k l = none := by
  induction l with
  | nil => rfl
  | cons p ps ih =>
    obtain ⟨k', v'⟩ := p
    simp only [List.map, List.mem_cons, not_or] at h
    unfold assoc
    simp [Ne.symm h.1, ih h.2]

theorem assoc_some_mem [DecidableEq β] {l : List (β × γ)} {k : β} {v : γ} (h : assoc k l = some v) : (k, v) ∈ l := by
  induction l with
  | nil => simp [assoc] at h
  | cons p ps ih =>
    obtain ⟨k', v'⟩ := p
    unfold assoc at h
    by_cases hk : k' = k
    · simp [hk] at h; subst h; subst hk; exact List.mem_cons_self
    · simp [hk] at h; exact List.mem_cons_of_mem _ (ih h)

theorem pairsAll_iff (p : β → β → Bool) (l : List β) : pairsAll p l = true ↔ l.Pairwise (fun a b => p a b = true) := by
  induction l with
  | nil => simp [pairsAll]
  | cons x xs ih => simp [pairsAll, ih, List.pairwise_cons]

end comb

/-! ### sums -/

section sums
variable {α : Type} [Field α] [LinearOrder α] [IsStrictOrderedRing α]

@[simp] theorem zero_eq : (zero : α) = 0 := by simp [zero]
@[simp] theorem one_eq : (one : α) = 1 := by simp [one]

theorem foldl_add_eq {β : Type} (f : β → α) (l : List β) (a : α) :
    l.foldl (fun acc x => acc + f x) a = a + (l.map f).sum := by
  induction l generalizing a with
  | nil => simp
  | cons x xs ih => simp [ih, add_assoc]

theorem sumAreas_eq (rs : List (NRect α)) : sumAreas rs = (rs.map NRect.area).sum := by
  unfold sumAreas; rw [foldl_add_eq]; simp

theorem Mod.area_eq (m : Mod α) : m.area = (m.areaRegions.map (·.2)).sum := by
  unfold Mod.area; rw [foldl_add_eq]; simp

theorem centroid_fold (rs : List (NRect α)) (a b c : α) :
    rs.foldl (fun (acc : α × α × α) r =>
      (acc.1 + r.area * r.cx.val, acc.2.1 + r.area * r.cy.val, acc.2.2 + r.area)) (a, b, c)
    = (a + (rs.map fun r => r.area * r.cx.val).sum, b + (rs.map fun r => r.area * r.cy.val).sum,
       c + (rs.map NRect.area).sum) := by
  induction rs generalizing a b c with
  | nil => simp
  | cons r rs ih => simp [ih, add_assoc]

/-- `calculate_center_from_rectangles` = the area-weighted centroid. -/
theorem centroid_eq (rs : List (NRect α)) :
    centroid rs = ((rs.map fun r => r.area * r.cx.val).sum / (rs.map NRect.area).sum,
                   (rs.map fun r => r.area * r.cy.val).sum / (rs.map NRect.area).sum) := by
  unfold centroid
  rw [centroid_fold]
  simp

theorem centroid_perm {rs rs' : List (NRect α)} (h : rs.Perm rs') : centroid rs = centroid rs' := by
  rw [centroid_eq, centroid_eq, (h.map (fun r => r.area * r.cx.val)).sum_eq,
    (h.map (fun r => r.area * r.cy.val)).sum_eq, (h.map NRect.area).sum_eq]

theorem sumAreas_perm {rs rs' : List (NRect α)} (h : rs.Perm rs') : sumAreas rs = sumAreas rs' := by
  rw [sumAreas_eq, sumAreas_eq, (h.map _).sum_eq]

@[simp] theorem area_resetLoc (r : NRect α) : r.resetLoc.area = r.area := rfl
@[simp] theorem cx_resetLoc (r : NRect α) : r.resetLoc.cx = r.cx := rfl
@[simp] theorem cy_resetLoc (r : NRect α) : r.resetLoc.cy = r.cy := rfl

theorem centroid_resetLoc (rs : List (NRect α)) : centroid (rs.map NRect.resetLoc) = centroid rs := by
  rw [centroid_eq, centroid_eq]; simp [List.map_map, Function.comp_def]

theorem sumAreas_resetLoc (rs : List (NRect α)) : sumAreas (rs.map NRect.resetLoc) = sumAreas rs := by
  rw [sumAreas_eq, sumAreas_eq]; simp [List.map_map, Function.comp_def]

end sums

/-! ### inversion of the reader: document level -/

section reader
variable {α : Type} [Field α] [LinearOrder α] [IsStrictOrderedRing α]

theorem str?_eq_some {v : YVal α} {s : String} (h : v.str? = some s) : v = .str s := by
  cases v <;> simp [YVal.str?] at h; subst h; rfl

theorem num?_eq_some_cases {v : YVal α} {n : Num α} (h : v.num? = some n) : v = YVal.ofNum n := by
  cases v <;> simp [YVal.num?] at h <;> subst h <;> rfl

theorem rootKind_true {s : String} : rootKind s = some true ↔ s = "Modules" := by
  unfold rootKind; split <;> simp_all

theorem rootKind_false {s : String} : rootKind s = some false ↔ s = "Nets" := by
  unfold rootKind
  split
  · rename_i h; subst h; simp
  · split <;> simp_all

theorem classifyRoot_ok {kv : YVal α × YVal α} {b : Bool} {v : YVal α} (h : classifyRoot kv = .ok (b, v)) :
    v = kv.2 ∧ ∃ s, kv.1 = .str s ∧ rootKind s = some b := by
  unfold classifyRoot at h
  cases hs : kv.1.str? with
  | none => simp [hs] at h
  | some s =>
    simp only [hs] at h
    cases hk : rootKind s with
    | none => simp [hk] at h
    | some k =>
      simp [hk] at h
      exact ⟨h.2.symm, s, str?_eq_some hs, by rw [hk, h.1]⟩

theorem classifyRoot_str (s : String) (v : YVal α) (b : Bool) (h : rootKind s = some b) :
    classifyRoot (YVal.str s, v) = .ok (b, v) := by
  simp [classifyRoot, YVal.str?, h]

theorem parseNetlist_ok {stog : List (NRect α) → List (NRect α)} {εA : α} {t : YVal α} {n : Netlist α}
    (h : parseNetlist stog εA t = .ok n) : ∃ ms es, parseDoc t = .ok (ms, es) ∧ finish stog εA ms es = .ok n := by
  unfold parseNetlist at h
  cases hd : parseDoc t with
  | error e => simp [hd] at h
  | ok p => obtain ⟨ms, es⟩ := p; simp [hd] at h; exact ⟨ms, es, rfl, h⟩

theorem parseDoc_ok {t : YVal α} {ms : List (Mod α)} {es : List (Net α)} (h : parseDoc t = .ok (ms, es)) :
    ∃ l kvs, t = .map l ∧ mapE classifyRoot l = .ok kvs ∧ (kvs.map (·.1)).Nodup ∧
      optParse parseModules (assoc true kvs) = .ok ms ∧ optParse parseEdges (assoc false kvs) = .ok es := by
  cases t with
  | map l =>
    simp only [parseDoc] at h
    cases hk : mapE classifyRoot l with
    | error e => simp [hk] at h
    | ok kvs =>
      simp only [hk] at h
      by_cases hn : nodupB (kvs.map (·.1)) = true
      · simp only [hn, Bool.not_true, Bool.false_eq_true, ↓reduceIte] at h
        cases hm : optParse parseModules (assoc true kvs) with
        | error e => simp [hm] at h
        | ok ms' =>
          simp only [hm] at h
          cases he : optParse parseEdges (assoc false kvs) with
          | error e => simp [he] at h
          | ok es' =>
            simp [he] at h
            obtain ⟨h1, h2⟩ := h
            subst h1; subst h2
            exact ⟨l, kvs, rfl, hk, (nodupB_iff _).mp hn, hm, he⟩
      · simp [hn] at h
  | _ => simp [parseDoc] at h

/-- the value stored under a root key is the one that is parsed. -/
theorem root_assoc {l : List (YVal α × YVal α)} {kvs : List (Bool × YVal α)} (hk : mapE classifyRoot l = .ok kvs)
    (hn : (kvs.map (·.1)).Nodup) {s : String} {b : Bool} (hb : rootKind s = some b) {v : YVal α}
    (hm : (YVal.str s, v) ∈ l) : assoc b kvs = some v := by
  obtain ⟨y, hy, hc⟩ := mapE_ok_mem hk hm
  rw [classifyRoot_str s v b hb] at hc
  cases hc
  exact assoc_of_mem hn hy

theorem parseDoc_modules {l : List (YVal α × YVal α)} {ms : List (Mod α)} {es : List (Net α)}
    (h : parseDoc (.map l) = .ok (ms, es)) {v : YVal α} (hm : (YVal.str "Modules", v) ∈ l) :
    parseModules v = .ok ms := by
  obtain ⟨l', kvs, ht, hk, hn, hms, hes⟩ := parseDoc_ok h
  cases ht
  rw [root_assoc hk hn (rootKind_true.mpr rfl) hm] at hms
  exact hms

theorem parseDoc_nets {l : List (YVal α × YVal α)} {ms : List (Mod α)} {es : List (Net α)}
    (h : parseDoc (.map l) = .ok (ms, es)) {v : YVal α} (hm : (YVal.str "Nets", v) ∈ l) :
    parseEdges v = .ok es := by
  obtain ⟨l', kvs, ht, hk, hn, hms, hes⟩ := parseDoc_ok h
  cases ht
  rw [root_assoc hk hn (rootKind_false.mpr rfl) hm] at hes
  exact hes

theorem parseDoc_rootKeys {l : List (YVal α × YVal α)} {ms : List (Mod α)} {es : List (Net α)}
    (h : parseDoc (.map l) = .ok (ms, es)) {kv : YVal α × YVal α} (hm : kv ∈ l) :
    kv.1 = .str "Modules" ∨ kv.1 = .str "Nets" := by
  obtain ⟨l', kvs, ht, hk, hn, hms, hes⟩ := parseDoc_ok h
  cases ht
  obtain ⟨⟨b, v⟩, hy, hc⟩ := mapE_ok_mem hk hm
  obtain ⟨_, s, hs, hr⟩ := classifyRoot_ok hc
  cases b
  · right; rw [hs, rootKind_false.mp hr]
  · left; rw [hs, rootKind_true.mp hr]

theorem parseModules_ok {v : YVal α} {ms : List (Mod α)} (h : parseModules v = .ok ms) :
    ∃ l, v = .map l ∧ mapE parseModule l = .ok ms ∧ (ms.map (·.name)).Nodup := by
  cases v with
  | map l =>
    simp only [parseModules] at h
    cases hm : mapE parseModule l with
    | error e => simp [hm] at h
    | ok ms' =>
      simp only [hm] at h
      by_cases hn : nodupB (ms'.map (·.name)) = true
      · simp [hn] at h; subst h; exact ⟨l, rfl, hm, (nodupB_iff _).mp hn⟩
      · simp [hn] at h
  | _ => simp [parseModules] at h

theorem parseEdges_ok {v : YVal α} {es : List (Net α)} (h : parseEdges v = .ok es) :
    ∃ l, v = .seq l ∧ mapE parseEdge l = .ok es := by
  cases v with
  | seq l => exact ⟨l, rfl, by simpa [parseEdges] using h⟩
  | _ => simp [parseEdges] at h

/-! ### inversion of the reader: module level -/

/-- keyword of an attribute kind. -/
def kindName : AttrKind → String
  | .area => "area" | .terminal => "terminal" | .fixed => "fixed" | .hard => "hard" | .flip => "flip"
  | .center => "center" | .aspect => "aspect_ratio" | .rectangles => "rectangles"

theorem attrKind_kindName (k : AttrKind) : attrKind (kindName k) = some k := by
  cases k <;> decide

theorem attrKind_eq_some {s : String} {k : AttrKind} (h : attrKind s = some k) : s = kindName k := by
  unfold attrKind at h
  repeat' split at h
  all_goals first | (cases h; simp_all [kindName]) | simp at h

theorem classify_ok {kv : YVal α × YVal α} {k : AttrKind} {v : YVal α} (h : classify kv = .ok (k, v)) :
    v = kv.2 ∧ kv.1 = .str (kindName k) := by
  unfold classify at h
  cases hs : kv.1.str? with
  | none => simp [hs] at h
  | some s =>
    simp only [hs] at h
    cases hk : attrKind s with
    | none => simp [hk] at h
    | some k' =>
      simp [hk] at h
      obtain ⟨h1, h2⟩ := h
      subst h1
      exact ⟨h2.symm, by rw [str?_eq_some hs, attrKind_eq_some hk]⟩

theorem classify_str (k : AttrKind) (v : YVal α) : classify (YVal.str (kindName k), v) = .ok (k, v) := by
  simp [classify, YVal.str?, attrKind_kindName]

theorem mkParam_kind {kv : AttrKind × YVal α} {p : Param α} (h : mkParam kv = .ok p) : p.kind = kv.1 := by
  obtain ⟨k, v⟩ := kv
  cases k <;> simp [mkParam] at h
  · subst h; rfl
  · subst h; rfl
  · subst h; rfl
  · subst h; rfl
  · subst h; rfl
  · cases hc : parseCenter v <;> simp [hc] at h; subst h; rfl
  · cases hc : parseAspect v <;> simp [hc] at h; subst h; rfl

theorem parseModule_ok {e : YVal α × YVal α} {m : Mod α} (h : parseModule e = .ok m) :
    ∃ name l kvs ps s rects, e.1 = .str name ∧ validIdent name = true ∧ e.2 = .map l ∧ mapE classify l = .ok kvs ∧
      (kvs.map (·.1)).Nodup ∧ mapE mkParam (kvs.filter (fun kv => kv.1 ≠ .rectangles)) = .ok ps ∧ ctor ps = .ok s ∧
      ((assoc .rectangles kvs = none ∧ rects = []) ∨ ∃ v, assoc .rectangles kvs = some v ∧
        parseRects s.fixed s.hard v = .ok rects) ∧ setup name s rects = .ok m := by
  unfold parseModule at h
  split at h
  · cases h
  · rename_i name hs
    split at h
    · cases h
    · rename_i hv
      split at h
      · rename_i l he
        split at h
        · cases h
        · rename_i kvs hk
          split at h
          · cases h
          · rename_i hn
            split at h
            · cases h
            · rename_i ps hp
              split at h
              · cases h
              · rename_i s hc
                split at h
                · rename_i ha
                  exact ⟨name, l, kvs, ps, s, [], str?_eq_some hs, by simpa using hv, he, hk,
                    (nodupB_iff _).mp (by simpa using hn), hp, hc, Or.inl ⟨ha, rfl⟩, h⟩
                · rename_i v ha
                  split at h
                  · cases h
                  · rename_i rects hr
                    exact ⟨name, l, kvs, ps, s, rects, str?_eq_some hs, by simpa using hv, he, hk,
                      (nodupB_iff _).mp (by simpa using hn), hp, hc, Or.inr ⟨v, ha, hr⟩, h⟩
      · cases h

/-- what `setup` checked, and the module it built. -/
theorem setup_ok {name : String} {s : MState α} {rects : List (NRect α)} {m : Mod α} (h : setup name s rects = .ok m) :
    (s.fixed = true → s.hard = true) ∧ (s.flip = true → s.fixed = false ∧ s.hard = true) ∧
    (s.hard = false → s.area ≠ []) ∧ (s.terminal = true → s.hard = true) ∧
    (s.hard = true → s.area = [] ∧ (s.center = none ∨ s.terminal = true) ∧ s.aspect = none ∧
      (s.terminal = true ∨ rects ≠ [])) ∧
    m = { name := name, center := s.center, aspect := s.aspect, terminal := s.terminal, hard := s.hard,
          fixed := s.fixed, flip := s.flip,
          areaRegions := if s.hard then [("_", sumAreas rects)] else s.area, rects := rects } := by
  unfold setup at h
  obtain ⟨c, a, t, hd, f, fl, ar⟩ := s
  cases t <;> cases hd <;> cases f <;> cases fl <;> cases ar <;> cases c <;> cases a <;> cases rects <;>
    simp_all

/-! ### `Module.__init__`: what a successful run of the keyword loop guarantees -/

theorem ctor_ok {ps : List (Param α)} {s : MState α} (h : ctor ps = .ok s) :
    foldlE (ctorStep (ps.map Param.kind)) ({} : MState α) ps = .ok s ∧ (s.hard = true → s.aspect = none) ∧
      (s.terminal = true → s.fixed = true → s.center.isSome = true) := by
  unfold ctor at h
  split at h
  · cases h
  · rename_i s' hf
    split at h
    · rename_i hc
      cases h
      refine ⟨hf, ?_, ?_⟩
      · intro hh; simp [hh] at hc; exact hc.1
      · intro ht hfx; simp [ht, hfx] at hc; exact hc.2
    · cases h

structure CtorInv (ks : List AttrKind) (s : MState α) : Prop where
  aspect_ok : ∀ a, s.aspect = some a → 0 ≤ a.1 ∧ a.1 ≤ 1 ∧ 1 ≤ a.2
  area_ok : s.area = [] ∨ ∃ v, readRegionArea v = .ok s.area
  term_excl : s.terminal = true → AttrKind.area ∉ ks ∧ AttrKind.aspect ∉ ks ∧ AttrKind.flip ∉ ks
  flip_dflt : AttrKind.flip ∉ ks → s.flip = false
  area_dflt : AttrKind.area ∉ ks → s.area = []
  aspect_dflt : AttrKind.aspect ∉ ks → s.aspect = none
  center_dflt : AttrKind.center ∉ ks → s.center = none
  term_dflt : AttrKind.terminal ∉ ks → s.terminal = false
  fixed_dflt : AttrKind.fixed ∉ ks → s.fixed = false
  hard_dflt : AttrKind.fixed ∉ ks → AttrKind.hard ∉ ks → AttrKind.terminal ∉ ks → s.hard = false

theorem ctorInv_init (ks : List AttrKind) : CtorInv ks ({} : MState α) := by
  constructor <;> simp

theorem ctorStep_inv {ks : List AttrKind} {s s' : MState α} {p : Param α} (hp : p.kind ∈ ks) (hi : CtorInv ks s)
    (h : ctorStep ks s p = .ok s') : CtorInv ks s' := by
  cases p with
  | center c =>
    simp [ctorStep] at h; subst h
    exact { hi with center_dflt := fun hc => absurd hp hc }
  | aspect a =>
    simp only [ctorStep, zero_eq, one_eq] at h
    split at h
    · rename_i hc
      cases h
      exact { hi with aspect_ok := by intro a' ha; simp at ha; subst ha; exact hc
                      aspect_dflt := fun hc => absurd hp hc }
    · cases h
  | area v =>
    simp only [ctorStep] at h
    split at h
    · rename_i regs hr
      cases h
      exact { hi with area_ok := Or.inr ⟨v, hr⟩, area_dflt := fun hc => absurd hp hc }
    · cases h
  | fixed v =>
    simp only [ctorStep] at h
    split at h
    · cases h
      exact { hi with fixed_dflt := fun hc => absurd hp hc, hard_dflt := fun hc => absurd hp hc }
    · cases h
  | hard v =>
    simp only [ctorStep] at h
    split at h
    · cases h
    · split at h
      · cases h
        exact { hi with hard_dflt := fun _ hc => absurd hp hc }
      · cases h
  | flip v =>
    simp only [ctorStep] at h
    split at h
    · cases h
      exact { hi with flip_dflt := fun hc => absurd hp hc }
    · cases h
  | terminal v =>
    simp only [ctorStep] at h
    split at h
    · cases h
    · rename_i hex
      split at h
      · cases h
        simp only [Bool.or_eq_true, List.contains_iff_mem, not_or] at hex
        exact { hi with term_excl := fun _ => ⟨hex.1.1, hex.1.2, hex.2⟩
                        term_dflt := fun hc => absurd hp hc
                        hard_dflt := fun _ _ hc => absurd hp hc }
      · cases h

theorem ctor_inv {ps : List (Param α)} {s : MState α} (h : ctor ps = .ok s) : CtorInv (ps.map Param.kind) s := by
  obtain ⟨hf, _, _⟩ := ctor_ok h
  exact foldlE_inv (CtorInv (ps.map Param.kind))
    (fun s x s' hx hi hs => ctorStep_inv (List.mem_map.mpr ⟨x, hx, rfl⟩) hi hs) (ctorInv_init _) hf

/-! ### areas by region, rectangles -/

theorem validIdent_ground : validIdent "_" = true := by decide

theorem readRegion_ok {e : YVal α × YVal α} {p : String × α} (h : readRegion e = .ok p) :
    validIdent p.1 = true ∧ 0 < p.2 ∧ ∃ n, e = (YVal.str p.1, YVal.ofNum n) ∧ n.val = p.2 := by
  unfold readRegion at h
  split at h
  · rename_i s n hs hn
    split at h
    · rename_i hc
      cases h
      simp only [zero_eq] at hc
      refine ⟨hc.1, hc.2, n, ?_, rfl⟩
      rw [← str?_eq_some hs, ← num?_eq_some_cases hn]
    · cases h
  · cases h

theorem readRegionArea_ok {v : YVal α} {regs : List (String × α)} (h : readRegionArea v = .ok regs) :
    (∀ p ∈ regs, validIdent p.1 = true ∧ 0 < p.2) ∧ (regs.map (·.1)).Nodup ∧
    ((∃ n, v = YVal.ofNum n ∧ regs = [("_", n.val)]) ∨ (∃ l, v = .map l ∧ mapE readRegion l = .ok regs)) := by
  unfold readRegionArea at h
  split at h
  · rename_i n hn
    split at h
    · rename_i hc
      cases h
      simp only [zero_eq] at hc
      refine ⟨?_, by simp, Or.inl ⟨n, num?_eq_some_cases hn, rfl⟩⟩
      intro p hp; simp at hp; subst hp; exact ⟨validIdent_ground, hc⟩
    · cases h
  · split at h
    · rename_i l hnone
      split at h
      · cases h
      · rename_i regs' hm
        split at h
        · rename_i hnd
          cases h
          refine ⟨?_, (nodupB_iff _).mp hnd, Or.inr ⟨l, rfl, hm⟩⟩
          intro p hp
          obtain ⟨e, _, he⟩ := mapE_ok_mem' hm hp
          exact ⟨(readRegion_ok he).1, (readRegion_ok he).2.1⟩
        · cases h
    · cases h

/-- a value that `_read_region_area` turns into at least one region. -/
theorem readRegionArea_ne_nil {v : YVal α} {regs : List (String × α)} (h : readRegionArea v = .ok regs)
    (hv : v ≠ .map []) : regs ≠ [] := by
  obtain ⟨_, _, hc⟩ := readRegionArea_ok h
  rcases hc with ⟨n, _, hr⟩ | ⟨l, hl, hm⟩
  · rw [hr]; simp
  · intro hnil
    have := mapE_length hm
    rw [hnil] at this
    cases l with
    | nil => exact hv hl
    | cons _ _ => simp at this

/-- well-formedness of a rectangle as `parse_yaml_rectangle` + `Rectangle.__init__` leave it. -/
structure RectOK (fixed hard : Bool) (q : NRect α) : Prop where
  cx_nonneg : 0 ≤ q.cx.val
  cy_nonneg : 0 ≤ q.cy.val
  w_pos : 0 < q.w.val
  h_pos : 0 < q.h.val
  region_ok : validIdent q.region = true
  ground : (fixed || hard) = true → q.region = "_"
  fixed_eq : q.fixed = fixed
  hard_eq : q.hard = hard
  loc_eq : q.loc = .nopoly

theorem parseRect_ok {fixed hard : Bool} {r : YVal α} {q : NRect α} (h : parseRect fixed hard r = .ok q) :
    RectOK fixed hard q ∧
    (r = .seq [YVal.ofNum q.cx, YVal.ofNum q.cy, YVal.ofNum q.w, YVal.ofNum q.h] ∧ q.region = "_" ∨
     r = .seq [YVal.ofNum q.cx, YVal.ofNum q.cy, YVal.ofNum q.w, YVal.ofNum q.h, .str q.region]) := by
  simp only [parseRect] at h
  split at h
  · -- four elements
    rename_i a b c d
    split at h
    · rename_i x y w hh hx hy hw hhh
      split at h
      · rename_i hc
        simp only [zero_eq] at hc
        split at h
        · rename_i hp
          simp only [zero_eq] at hp
          cases h
          refine ⟨⟨hc.1, hc.2.1, hp.1, hp.2, validIdent_ground, fun _ => rfl, rfl, rfl, rfl⟩, Or.inl ⟨?_, rfl⟩⟩
          simp only []
          rw [← num?_eq_some_cases hx, ← num?_eq_some_cases hy, ← num?_eq_some_cases hw, ← num?_eq_some_cases hhh]
        · cases h
      · cases h
    · cases h
  · rename_i a b c d e
    split at h
    · rename_i x y w hh hx hy hw hhh
      split at h
      · rename_i hc
        simp only [zero_eq] at hc
        split at h
        · rename_i s hs
          split at h
          · rename_i hv
            split at h
            · rename_i hp
              simp only [zero_eq] at hp
              cases h
              simp only [Bool.and_eq_true, Bool.not_eq_true', Bool.or_eq_false_iff] at hv
              refine ⟨⟨hc.1, hc.2.1, hp.1, hp.2, hv.1, ?_, rfl, rfl, rfl⟩, Or.inr ?_⟩
              · intro hfh; simp [hv.2.1, hv.2.2] at hfh
              · simp only []
                rw [← num?_eq_some_cases hx, ← num?_eq_some_cases hy, ← num?_eq_some_cases hw,
                  ← num?_eq_some_cases hhh, ← str?_eq_some hs]
            · cases h
          · cases h
        · cases h
      · cases h
    · cases h
  · cases h

/-- the rectangle entries of a `rectangles:` attribute (a single rectangle may come without the outer list). -/
def rectEntries (v : YVal α) : Option (List (YVal α)) :=
  match v with
  | .seq (x :: xs) => if x.isNumber then some [v] else some (x :: xs)
  | _ => none

theorem parseRects_eq (fixed hard : Bool) (v : YVal α) :
    parseRects fixed hard v =
      match rectEntries v with
      | some es => mapE (parseRect fixed hard) es
      | none => .error .rects := by
  unfold parseRects rectEntries
  split
  · split <;> simp_all
  · rename_i hne
    split
    · rename_i es hes
      split at hes
      · rename_i x xs
        exact absurd rfl (hne x xs)
      · cases hes
    · rfl

theorem parseRects_ok {fixed hard : Bool} {v : YVal α} {rects : List (NRect α)}
    (h : parseRects fixed hard v = .ok rects) :
    ∃ es, rectEntries v = some es ∧ mapE (parseRect fixed hard) es = .ok rects ∧ rects ≠ [] := by
  rw [parseRects_eq] at h
  split at h
  · rename_i es hes
    refine ⟨es, hes, h, ?_⟩
    intro hnil
    have hl := mapE_length h
    rw [hnil] at hl
    unfold rectEntries at hes
    split at hes
    · split at hes <;> cases hes <;> simp at hl
    · cases hes
  · cases h

/-! ### nets -/

theorem splitLast_eq {β : Type} {l ini : List β} {last : β} (h : splitLast l = some (ini, last)) :
    l = ini ++ [last] := by
  induction l generalizing ini with
  | nil => simp [splitLast] at h
  | cons x xs ih =>
    cases xs with
    | nil => simp [splitLast] at h; obtain ⟨h1, h2⟩ := h; subst h1; subst h2; rfl
    | cons y r =>
      simp only [splitLast] at h
      split at h
      · rename_i i l' hs
        cases h
        rw [ih hs]; rfl
      · cases h

theorem splitLast_append {β : Type} (ini : List β) (last : β) : splitLast (ini ++ [last]) = some (ini, last) := by
  induction ini with
  | nil => rfl
  | cons x xs ih =>
    cases xs with
    | nil => simp [splitLast]
    | cons y r =>
      have : (x :: y :: r ++ [last]) = x :: y :: (r ++ [last]) := rfl
      rw [this]
      simp only [splitLast]
      have ih' : splitLast (y :: (r ++ [last])) = some (y :: r, last) := ih
      rw [ih']

theorem strs_eq {l : List (YVal α)} {names : List String} (h : strs l = some names) : l = names.map YVal.str := by
  induction l generalizing names with
  | nil => simp [strs] at h; subst h; rfl
  | cons x xs ih =>
    simp only [strs] at h
    split at h
    · rename_i s r hs hr
      cases h
      simp [str?_eq_some hs, ih hr]
    · cases h

theorem strs_map (names : List String) : strs (names.map (YVal.str (α := α))) = some names := by
  induction names with
  | nil => rfl
  | cons x xs ih => simp [strs, YVal.str?, ih]

theorem parseEdge_ok {e : YVal α} {net : Net α} (h : parseEdge e = .ok net) :
    2 ≤ net.members.length ∧
    ((∃ w, e = .seq (net.members.map YVal.str ++ [YVal.ofNum w]) ∧ net.weight = w.val) ∨
     (e = .seq (net.members.map YVal.str) ∧ net.weight = 1)) := by
  unfold parseEdge at h
  split at h
  · rename_i l
    split at h
    · cases h
    · rename_i hlen
      split at h
      · cases h
      · rename_i ini last hsl
        split at h
        · cases h
        · rename_i names hst
          have hl := splitLast_eq hsl
          have hini := strs_eq hst
          split at h
          · rename_i w hw
            split at h
            · cases h
            · rename_i hn
              cases h
              refine ⟨by simpa using hn, Or.inl ⟨w, ?_, rfl⟩⟩
              rw [hl, hini, num?_eq_some_cases hw]
          · split at h
            · rename_i s hs
              cases h
              refine ⟨?_, Or.inr ⟨?_, by simp⟩⟩
              · rw [hl] at hlen; simp at hlen ⊢
                have := congrArg List.length hini
                simp at this; omega
              · rw [hl, hini, str?_eq_some hs]; simp
            · cases h
  · cases h

/-- every string element of a parsed net is one of its members. -/
theorem parseEdge_member {l : List (YVal α)} {net : Net α} (h : parseEdge (.seq l) = .ok net) {x : String}
    (hx : YVal.str x ∈ l) : x ∈ net.members := by
  obtain ⟨_, hc⟩ := parseEdge_ok h
  rcases hc with ⟨w, he, _⟩ | ⟨he, _⟩
  · cases he
    simp only [List.mem_append, List.mem_map, List.mem_singleton] at hx
    rcases hx with ⟨y, hy, hyx⟩ | hx
    · cases hyx; exact hy
    · cases w <;> cases hx
  · cases he
    simp only [List.mem_map] at hx
    obtain ⟨y, hy, hyx⟩ := hx
    cases hyx; exact hy

/-! ### `Netlist.__init__` -/

/-- what `_create_rectangles` does to one module before the STOG step. -/
def withCentroid (m : Mod α) : Mod α :=
  if m.rects.isEmpty then m else { m with center := some (centroid m.rects) }

/-- the STOG step on one module. -/
def withStog (stog : List (NRect α) → List (NRect α)) (m : Mod α) : Mod α :=
  if m.rects.isEmpty then m else { m with rects := stog m.rects }

theorem prepModule_ok {m m' : Mod α} (h : prepModule m = .ok m') :
    m' = withCentroid m ∧ ¬ (m.hard = true ∧ m.terminal = false ∧ m.rects = []) := by
  unfold prepModule at h
  split at h
  · cases h
  · split at h
    · cases h
    · rename_i h2
      have hneg : ¬ (m.hard = true ∧ m.terminal = false ∧ m.rects = []) := by
        intro ⟨a, b, c⟩; simp [a, b, c] at h2
      split at h
      · rename_i h3
        cases h
        refine ⟨?_, hneg⟩
        unfold withCentroid
        simp only [Bool.not_eq_true'] at h3
        simp [h3]
      · rename_i h3
        cases h
        refine ⟨?_, hneg⟩
        unfold withCentroid
        simp only [Bool.not_eq_true', Bool.not_eq_false] at h3
        simp [h3]

theorem resolveNet_ok {names : List String} {e e' : Net α} (h : resolveNet names e = .ok e') :
    e' = e ∧ (∀ x ∈ e.members, x ∈ names) ∧ 0 < e.weight := by
  unfold resolveNet at h
  split at h
  · cases h
  · rename_i hm
    split at h
    · rename_i hw
      cases h
      simp only [zero_eq] at hw
      refine ⟨rfl, ?_, hw⟩
      simp only [Bool.not_eq_true', Bool.not_eq_false, List.all_eq_true, List.contains_iff_mem] at hm
      simpa using hm
    · cases h

theorem finish_ok {stog : List (NRect α) → List (NRect α)} {εA : α} {ms : List (Mod α)} {es : List (Net α)}
    {n : Netlist α} (h : finish stog εA ms es = .ok n) :
    ∃ ms1, mapE prepModule ms = .ok ms1 ∧
      (∀ m ∈ ms1, m.hard = true → m.terminal = false → noOverlap εA m.rects = true) ∧
      n.modules = ms1.map (withStog stog) ∧
      (∀ m ∈ n.modules, m.flip = true → hasStog m = true) ∧
      mapE (resolveNet (n.modules.map (·.name))) es = .ok n.nets := by
  unfold finish at h
  split at h
  · cases h
  · rename_i ms1 hp
    split at h
    · cases h
    · rename_i hov
      simp only [] at h
      split at h
      · cases h
      · rename_i hfl
        split at h
        · cases h
        · rename_i nets hn
          cases h
          refine ⟨ms1, hp, ?_, rfl, ?_, hn⟩
          · intro m hm hh ht
            simp only [Bool.not_eq_true', Bool.not_eq_false, List.all_eq_true] at hov
            have := hov m hm
            simpa [hh, ht] using this
          · intro m hm hf
            simp only [Bool.not_eq_true', Bool.not_eq_false, List.all_eq_true] at hfl
            have := hfl m hm
            simpa [hf] using this

/-! ### the loaded netlist in terms of the parsed document -/

/-- ASSUMPTION on the STOG parameter (property C06's subject): it permutes the rectangles it is given and only
    changes their roles. -/
def StogPerm (stog : List (NRect α) → List (NRect α)) : Prop :=
  ∀ rs, ((stog rs).map NRect.resetLoc).Perm (rs.map NRect.resetLoc)

/-- ASSUMPTION on the STOG parameter: run again on its own output (roles forgotten, as after a write and a read)
    it returns that output: the trunk it moved to the front is chosen again and the roles are the same. -/
def StogStable (stog : List (NRect α) → List (NRect α)) : Prop :=
  ∀ rs, stog ((stog rs).map NRect.resetLoc) = stog rs

theorem mapE_eq_map {β γ : Type} {f : β → Except Err γ} {g : β → γ} (hfg : ∀ x y, f x = .ok y → y = g x)
    {l : List β} {r : List γ} (h : mapE f l = .ok r) : r = l.map g := by
  rw [mapE_ok_iff] at h
  induction h with
  | nil => rfl
  | cons h1 _ ih => rw [hfg _ _ h1, ih]; rfl

/-- one module after `Netlist.__init__`. -/
def finalize (stog : List (NRect α) → List (NRect α)) (m : Mod α) : Mod α := withStog stog (withCentroid m)

theorem finalize_rects_nil {stog : List (NRect α) → List (NRect α)} {m : Mod α} (h : m.rects = []) :
    finalize stog m = m := by
  simp [finalize, withStog, withCentroid, h]

theorem finalize_rects_cons {stog : List (NRect α) → List (NRect α)} {m : Mod α} (h : m.rects ≠ []) :
    finalize stog m = { m with center := some (centroid m.rects), rects := stog m.rects } := by
  have : m.rects.isEmpty = false := by cases hr : m.rects <;> simp_all
  simp [finalize, withStog, withCentroid, this]

@[simp] theorem finalize_name (stog : List (NRect α) → List (NRect α)) (m : Mod α) : (finalize stog m).name = m.name := by
  by_cases h : m.rects = []
  · rw [finalize_rects_nil h]
  · rw [finalize_rects_cons h]

theorem parseNetlist_modules {stog : List (NRect α) → List (NRect α)} {εA : α} {t : YVal α} {n : Netlist α}
    (h : parseNetlist stog εA t = .ok n) :
    ∃ ms es, parseDoc t = .ok (ms, es) ∧ finish stog εA ms es = .ok n ∧ n.modules = ms.map (finalize stog) ∧
      n.nets = es := by
  obtain ⟨ms, es, hd, hf⟩ := parseNetlist_ok h
  obtain ⟨ms1, hp, _, hm, _, hn⟩ := finish_ok hf
  have h1 : ms1 = ms.map withCentroid := mapE_eq_map (fun x y hxy => (prepModule_ok hxy).1) hp
  have h2 : n.nets = es := mapE_eq_map (g := id) (fun x y hxy => (resolveNet_ok hxy).1) hn |>.trans (by simp)
  refine ⟨ms, es, hd, hf, ?_, h2⟩
  rw [hm, h1, List.map_map]; rfl

/-- what `parse_yaml_module` guarantees about the module it returns. -/
structure ModOK (m : Mod α) : Prop where
  name_ok : validIdent m.name = true
  rects_ok : ∀ r ∈ m.rects, RectOK m.fixed m.hard r
  fixed_hard : m.fixed = true → m.hard = true
  flip_ok : m.flip = true → m.fixed = false ∧ m.hard = true ∧ m.terminal = false
  term_hard : m.terminal = true → m.hard = true
  soft_area : m.hard = false → m.areaRegions ≠ [] ∧ (∀ p ∈ m.areaRegions, validIdent p.1 = true ∧ 0 < p.2) ∧
    (m.areaRegions.map (·.1)).Nodup
  aspect_ok : ∀ a, m.aspect = some a → 0 ≤ a.1 ∧ a.1 ≤ 1 ∧ 1 ≤ a.2
  hard_ok : m.hard = true → m.aspect = none ∧ m.areaRegions = [("_", sumAreas m.rects)] ∧
    (m.terminal = false → m.center = none ∧ m.rects ≠ [])
  term_fixed_center : m.terminal = true → m.fixed = true → m.center.isSome = true

theorem parseModule_modOK {e : YVal α × YVal α} {m : Mod α} (h : parseModule e = .ok m) :
    ModOK m ∧ e.1 = .str m.name := by
  obtain ⟨name, l, kvs, ps, s, rects, he1, hv, he2, hk, hnd, hp, hc, hr, hs⟩ := parseModule_ok h
  obtain ⟨s1, s2, s3, s4, s5, hm⟩ := setup_ok hs
  have hi := ctor_inv hc
  obtain ⟨_, c2, c3⟩ := ctor_ok hc
  have hrects : ∀ r ∈ rects, RectOK s.fixed s.hard r := by
    rcases hr with ⟨_, hnil⟩ | ⟨v, _, hpr⟩
    · subst hnil; intro r hr; cases hr
    · obtain ⟨es, _, hme, _⟩ := parseRects_ok hpr
      intro r hr
      obtain ⟨x, _, hx⟩ := mapE_ok_mem' hme hr
      exact (parseRect_ok hx).1
  subst hm
  refine ⟨⟨hv, hrects, s1, ?_, s4, ?_, hi.aspect_ok, ?_, c3⟩, he1⟩
  · intro hf
    refine ⟨(s2 hf).1, (s2 hf).2, ?_⟩
    cases ht : s.terminal with
    | false => rfl
    | true => have := hi.flip_dflt (hi.term_excl ht).2.2; simp [this] at hf
  · intro hh
    simp only at hh
    simp only [hh, Bool.false_eq_true, ↓reduceIte]
    refine ⟨s3 hh, ?_⟩
    rcases hi.area_ok with hnil | ⟨v, hv'⟩
    · exact absurd hnil (s3 hh)
    · obtain ⟨a1, a2, _⟩ := readRegionArea_ok hv'
      exact ⟨a1, a2⟩
  · intro hh
    simp only at hh
    obtain ⟨_, h2, h3, h4⟩ := s5 hh
    simp only [hh, ↓reduceIte]
    refine ⟨h3, trivial, ?_⟩
    intro ht
    refine ⟨?_, ?_⟩
    · rcases h2 with h2 | h2
      · exact h2
      · simp [ht] at h2
    · rcases h4 with h4 | h4
      · simp [ht] at h4
      · exact h4

theorem parseDoc_mods_ok {t : YVal α} {ms : List (Mod α)} {es : List (Net α)} (h : parseDoc t = .ok (ms, es)) :
    (∀ m0 ∈ ms, ∃ e, parseModule e = .ok m0) ∧ (ms.map (·.name)).Nodup ∧ (∀ e ∈ es, ∃ y, parseEdge y = .ok e) := by
  obtain ⟨l, kvs, _, _, _, hms, hes⟩ := parseDoc_ok h
  refine ⟨?_, ?_, ?_⟩
  · intro m0 hm0
    unfold optParse at hms
    split at hms
    · cases hms; cases hm0
    · obtain ⟨l', _, hmm, _⟩ := parseModules_ok hms
      obtain ⟨e, _, he⟩ := mapE_ok_mem' hmm hm0
      exact ⟨e, he⟩
  · unfold optParse at hms
    split at hms
    · cases hms; simp
    · obtain ⟨l', _, _, hn⟩ := parseModules_ok hms
      exact hn
  · intro e he
    unfold optParse at hes
    split at hes
    · cases hes; cases he
    · obtain ⟨l', _, hmm⟩ := parseEdges_ok hes
      obtain ⟨y, _, hy⟩ := mapE_ok_mem' hmm he
      exact ⟨y, hy⟩

/-- every module of a loaded netlist is a parsed (well-formed) module, finalised. -/
theorem loaded_mem {stog : List (NRect α) → List (NRect α)} {εA : α} {t : YVal α} {n : Netlist α}
    (h : parseNetlist stog εA t = .ok n) {m : Mod α} (hm : m ∈ n.modules) :
    ∃ m0, ModOK m0 ∧ m = finalize stog m0 := by
  obtain ⟨ms, es, hd, _, hmods, _⟩ := parseNetlist_modules h
  rw [hmods, List.mem_map] at hm
  obtain ⟨m0, hm0, rfl⟩ := hm
  obtain ⟨e, he⟩ := (parseDoc_mods_ok hd).1 m0 hm0
  exact ⟨m0, (parseModule_modOK he).1, rfl⟩

theorem resetLoc_mem_of_perm {stog : List (NRect α) → List (NRect α)} (hp : StogPerm stog) {rs : List (NRect α)}
    {r : NRect α} (hr : r ∈ stog rs) : ∃ r0 ∈ rs, r.resetLoc = r0.resetLoc := by
  have : r.resetLoc ∈ (stog rs).map NRect.resetLoc := List.mem_map.mpr ⟨r, hr, rfl⟩
  have := (hp rs).mem_iff.mp this
  obtain ⟨r0, hr0, he⟩ := List.mem_map.mp this
  exact ⟨r0, hr0, he.symm⟩

/-! ### from the attributes of the document to the keyword arguments -/

theorem foldlE_inv_pre {β σ : Type} {f : σ → β → Except Err σ} (P : List β → σ → Prop) {l : List β} {s0 s' : σ}
    (h0 : P [] s0)
    (hstep : ∀ pre x post s s1, l = pre ++ x :: post → P pre s → f s x = .ok s1 → P (pre ++ [x]) s1)
    (h : foldlE f s0 l = .ok s') : P l s' := by
  have gen : ∀ (rest pre : List β) (s : σ), l = pre ++ rest → P pre s → foldlE f s rest = .ok s' → P l s' := by
    intro rest
    induction rest with
    | nil => intro pre s hl hp hf; simp [foldlE] at hf; subst hf; simpa [hl] using hp
    | cons x xs ih =>
      intro pre s hl hp hf
      unfold foldlE at hf
      cases hx : f s x with
      | error e => simp [hx] at hf
      | ok s1 =>
        simp [hx] at hf
        exact ih (pre ++ [x]) s1 (by simp [hl]) (hstep pre x xs s s1 hl hp hx) hf
  exact gen l [] s0 rfl h0 h

theorem mapE_map_eq {β γ δ : Type} {f : β → Except Err γ} {g : γ → δ} {k : β → δ}
    (hfg : ∀ x y, f x = .ok y → g y = k x) {l : List β} {r : List γ} (h : mapE f l = .ok r) : r.map g = l.map k := by
  rw [mapE_ok_iff] at h
  induction h with
  | nil => rfl
  | cons h1 _ ih => simp [hfg _ _ h1, ih]

/-- the parameters handed to the constructor are exactly the (non-`rectangles`) attributes of the document. -/
theorem params_of_doc {l : List (YVal α × YVal α)} {kvs : List (AttrKind × YVal α)} {ps : List (Param α)}
    (hk : mapE classify l = .ok kvs) (hnd : (kvs.map (·.1)).Nodup)
    (hp : mapE mkParam (kvs.filter (fun kv => kv.1 ≠ .rectangles)) = .ok ps) :
    (∀ k v, k ≠ AttrKind.rectangles → (YVal.str (kindName k), v) ∈ l → ∃ p ∈ ps, mkParam (k, v) = .ok p) ∧
    (∀ p ∈ ps, ∃ v, (YVal.str (kindName p.kind), v) ∈ l ∧ mkParam (p.kind, v) = .ok p) ∧
    (ps.map Param.kind).Nodup ∧
    (∀ v, (YVal.str "rectangles", v) ∈ l → assoc AttrKind.rectangles kvs = some v) ∧
    ((∀ v, (YVal.str "rectangles", v) ∉ l) → assoc AttrKind.rectangles kvs = none) := by
  refine ⟨?_, ?_, ?_, ?_, ?_⟩
  · intro k v hkr hm
    obtain ⟨y, hy, hc⟩ := mapE_ok_mem hk hm
    rw [classify_str] at hc; cases hc
    have : (k, v) ∈ kvs.filter (fun kv => kv.1 ≠ .rectangles) := by
      simp only [List.mem_filter, hy, true_and]; simpa using hkr
    obtain ⟨p, hpm, hpe⟩ := mapE_ok_mem hp this
    exact ⟨p, hpm, hpe⟩
  · intro p hpm
    obtain ⟨kv, hkv, hmk⟩ := mapE_ok_mem' hp hpm
    have hkv' : kv ∈ kvs := (List.mem_filter.mp hkv).1
    obtain ⟨x, hx, hcx⟩ := mapE_ok_mem' hk hkv'
    obtain ⟨h1, h2⟩ := classify_ok (k := kv.1) (v := kv.2) hcx
    have hkind := mkParam_kind hmk
    refine ⟨kv.2, ?_, ?_⟩
    · rw [hkind, h1, ← h2]; exact hx
    · rw [hkind]; exact hmk
  · have h1 : ps.map Param.kind = (kvs.filter (fun kv => kv.1 ≠ .rectangles)).map (·.1) :=
      mapE_map_eq (fun x y hxy => mkParam_kind hxy) hp
    rw [h1]
    exact hnd.sublist (List.Sublist.map _ List.filter_sublist)
  · intro v hm
    obtain ⟨y, hy, hc⟩ := mapE_ok_mem hk hm
    have := classify_str (α := α) AttrKind.rectangles v
    simp only [kindName] at this
    rw [this] at hc; cases hc
    exact assoc_of_mem hnd hy
  · intro hno
    apply assoc_none_of_not_mem
    intro hmem
    obtain ⟨kv, hkv, hk1⟩ := List.mem_map.mp hmem
    obtain ⟨x, hx, hcx⟩ := mapE_ok_mem' hk hkv
    obtain ⟨h1, h2⟩ := classify_ok (k := kv.1) (v := kv.2) hcx
    apply hno x.2
    have : x = (YVal.str "rectangles", x.2) := by
      rw [hk1] at h2
      exact Prod.ext h2 rfl
    rw [← this]; exact hx

theorem nodup_pre_kind {pre post : List (Param α)} {x p : Param α}
    (hnd : ((pre ++ x :: post).map Param.kind).Nodup) (hp : p ∈ pre) : p.kind ≠ x.kind := by
  intro he
  simp only [List.map_append, List.map_cons] at hnd
  have := (List.nodup_append.mp hnd).2.2 (p.kind) (List.mem_map.mpr ⟨p, hp, rfl⟩) x.kind List.mem_cons_self
  exact this he

/-- a module declared `fixed: true` or `hard: true` is hard once the constructor has run. -/
theorem ctor_hard_true {ps : List (Param α)} {s : MState α} (hc : ctor ps = .ok s)
    (hnd : (ps.map Param.kind).Nodup)
    (hd : Param.fixed (.bool true) ∈ ps ∨ Param.hard (.bool true) ∈ ps) : s.hard = true := by
  obtain ⟨hf, _, _⟩ := ctor_ok hc
  have hall : ∀ p ∈ ps, ∃ a b, ctorStep (ps.map Param.kind) a p = .ok b := fun p hp => foldlE_step_ok hf hp
  refine foldlE_inv_pre (fun pre s => (Param.fixed (.bool true) ∈ pre ∨ Param.hard (.bool true) ∈ pre) → s.hard = true)
    (by simp) ?_ hf hd
  intro pre x post s s1 hl hP hx hmem
  have hxin : x ∈ ps := by rw [hl]; simp
  have hpre : ∀ p ∈ pre, p ∈ ps := by intro p hp; rw [hl]; simp [hp]
  have hndl : ((pre ++ x :: post).map Param.kind).Nodup := by rw [← hl]; exact hnd
  have memk : ∀ p : Param α, p ∈ ps → p.kind ∈ ps.map Param.kind := fun p hp => List.mem_map.mpr ⟨p, hp, rfl⟩
  cases x with
  | center c =>
    simp [ctorStep] at hx; subst hx
    apply hP; simpa using hmem
  | aspect a =>
    simp only [ctorStep] at hx
    split at hx
    · cases hx; apply hP; simpa using hmem
    · cases hx
  | area v =>
    simp only [ctorStep] at hx
    split at hx
    · cases hx; apply hP; simpa using hmem
    · cases hx
  | flip v =>
    simp only [ctorStep] at hx
    split at hx
    · cases hx; apply hP; simpa using hmem
    · cases hx
  | terminal v =>
    simp only [ctorStep] at hx
    split at hx
    · cases hx
    · split at hx
      · cases hx; rfl
      · cases hx
  | fixed v =>
    simp only [ctorStep] at hx
    split at hx
    · rename_i b hb
      cases hx
      simp only [List.mem_append, List.mem_singleton] at hmem
      rcases hmem with (hm | hm) | (hm | hm)
      · exact (nodup_pre_kind hndl hm rfl).elim
      · cases hm; simpa [YVal.bool?] using hb.symm
      · -- a `hard` parameter was processed although `fixed` is among the keys
        obtain ⟨a, b', hab⟩ := hall _ (hpre _ hm)
        have hex : ∃ a ∈ ps, a.kind = AttrKind.fixed := ⟨_, hxin, rfl⟩
        simp [ctorStep, hex] at hab
      · cases hm
    · cases hx
  | hard v =>
    simp only [ctorStep] at hx
    split at hx
    · cases hx
    · rename_i hnf
      split at hx
      · rename_i b hb
        cases hx
        simp only [List.mem_append, List.mem_singleton] at hmem
        rcases hmem with (hm | hm) | (hm | hm)
        · have : (ps.map Param.kind).contains AttrKind.fixed = true := by
            rw [List.contains_iff_mem]; exact List.mem_map.mpr ⟨_, hpre _ hm, rfl⟩
          exact absurd this hnf
        · cases hm
        · exact (nodup_pre_kind hndl hm rfl).elim
        · cases hm; simpa [YVal.bool?] using hb.symm
      · cases hx

/-- the `area` parameter determines the regions of the state. -/
theorem ctor_area {ps : List (Param α)} {s : MState α} (hc : ctor ps = .ok s) (hnd : (ps.map Param.kind).Nodup)
    {v : YVal α} (hv : Param.area v ∈ ps) : readRegionArea v = .ok s.area := by
  obtain ⟨hf, _, _⟩ := ctor_ok hc
  refine foldlE_inv_pre (fun pre s => Param.area v ∈ pre → readRegionArea v = .ok s.area) (by simp) ?_ hf hv
  intro pre x post s s1 hl hP hx hmem
  have hndl : ((pre ++ x :: post).map Param.kind).Nodup := by rw [← hl]; exact hnd
  cases x with
  | area v' =>
    simp only [ctorStep] at hx
    split at hx
    · rename_i regs hr
      cases hx
      simp only [List.mem_append, List.mem_singleton] at hmem
      rcases hmem with hm | hm
      · exact (nodup_pre_kind hndl hm rfl).elim
      · cases hm; exact hr
    · cases hx
  | center c => simp [ctorStep] at hx; subst hx; apply hP; simpa using hmem
  | aspect a =>
    simp only [ctorStep] at hx
    split at hx
    · cases hx; apply hP; simpa using hmem
    · cases hx
  | flip v' =>
    simp only [ctorStep] at hx
    split at hx
    · cases hx; apply hP; simpa using hmem
    · cases hx
  | fixed v' =>
    simp only [ctorStep] at hx
    split at hx
    · cases hx; apply hP; simpa using hmem
    · cases hx
  | hard v' =>
    simp only [ctorStep] at hx
    split at hx
    · cases hx
    · split at hx
      · cases hx; apply hP; simpa using hmem
      · cases hx
  | terminal v' =>
    simp only [ctorStep] at hx
    split at hx
    · cases hx
    · split at hx
      · cases hx; apply hP; simpa using hmem
      · cases hx

/-- a module all of whose `fixed` / `hard` attributes say `false` and that has no `terminal` attribute is soft. -/
theorem ctor_hard_false {ps : List (Param α)} {s : MState α} (hc : ctor ps = .ok s)
    (hsoft : ∀ p ∈ ps, (∀ v, p = Param.fixed v ∨ p = Param.hard v → v = YVal.bool false) ∧ ∀ v, p ≠ Param.terminal v) :
    s.hard = false := by
  obtain ⟨hf, _, _⟩ := ctor_ok hc
  refine foldlE_inv (fun s => s.hard = false) ?_ rfl hf
  intro s x s1 hx hP hs
  obtain ⟨h1, h2⟩ := hsoft x hx
  cases x with
  | center c => simp [ctorStep] at hs; subst hs; exact hP
  | aspect a =>
    simp only [ctorStep] at hs
    split at hs
    · cases hs; exact hP
    · cases hs
  | area v =>
    simp only [ctorStep] at hs
    split at hs
    · cases hs; exact hP
    · cases hs
  | flip v =>
    simp only [ctorStep] at hs
    split at hs
    · cases hs; exact hP
    · cases hs
  | terminal v => exact absurd rfl (h2 v)
  | fixed v =>
    have := h1 v (Or.inl rfl); subst this
    simp [ctorStep, YVal.bool?] at hs; subst hs; rfl
  | hard v =>
    have := h1 v (Or.inr rfl); subst this
    simp only [ctorStep] at hs
    split at hs
    · cases hs
    · simp [YVal.bool?] at hs; subst hs; rfl

theorem error_of_not_ok {β : Type} {x : Except Err β} (h : ∀ y, x ≠ .ok y) : ∃ e, x = .error e := by
  cases x with
  | error e => exact ⟨e, rfl⟩
  | ok y => exact absurd rfl (h y)

/-! ### plumbing of the rejection theorems -/

/-- `t` is a root dictionary whose `Modules` value is the dictionary `mods` and whose `Nets` value is the list `nets`. -/
def DocWith (t : YVal α) (mods : List (YVal α × YVal α)) (nets : List (YVal α)) : Prop :=
  ∃ l, t = .map l ∧ (YVal.str "Modules", YVal.map mods) ∈ l ∧ (YVal.str "Nets", YVal.seq nets) ∈ l

theorem loaded_doc {stog : List (NRect α) → List (NRect α)} {εA : α} {t : YVal α} {n : Netlist α}
    {mods : List (YVal α × YVal α)} {nets : List (YVal α)} (hd : DocWith t mods nets)
    (h : parseNetlist stog εA t = .ok n) :
    ∃ ms es, mapE parseModule mods = .ok ms ∧ mapE parseEdge nets = .ok es ∧ finish stog εA ms es = .ok n := by
  obtain ⟨l, rfl, hm, hn⟩ := hd
  obtain ⟨ms, es, hdoc, hf⟩ := parseNetlist_ok h
  obtain ⟨l1, hl1, hmm, _⟩ := parseModules_ok (parseDoc_modules hdoc hm)
  obtain ⟨l2, hl2, hee⟩ := parseEdges_ok (parseDoc_nets hdoc hn)
  cases hl1; cases hl2
  exact ⟨ms, es, hmm, hee, hf⟩

theorem reject_module {stog : List (NRect α) → List (NRect α)} {εA : α} {t : YVal α}
    {mods : List (YVal α × YVal α)} {nets : List (YVal α)} (hd : DocWith t mods nets)
    {e : YVal α × YVal α} (he : e ∈ mods) (hbad : ∀ m, parseModule e ≠ .ok m) :
    ∃ err, parseNetlist stog εA t = .error err := by
  apply error_of_not_ok
  intro n hn
  obtain ⟨ms, es, hmm, _, _⟩ := loaded_doc hd hn
  obtain ⟨m, _, hm⟩ := mapE_ok_mem hmm he
  exact hbad m hm

theorem reject_net {stog : List (NRect α) → List (NRect α)} {εA : α} {t : YVal α}
    {mods : List (YVal α × YVal α)} {nets : List (YVal α)} (hd : DocWith t mods nets)
    {y : YVal α} (hy : y ∈ nets) (hbad : ∀ e, parseEdge y ≠ .ok e) :
    ∃ err, parseNetlist stog εA t = .error err := by
  apply error_of_not_ok
  intro n hn
  obtain ⟨ms, es, _, hee, _⟩ := loaded_doc hd hn
  obtain ⟨e, _, he⟩ := mapE_ok_mem hee hy
  exact hbad e he

/-- everything `parse_yaml_module` establishes for a module entry whose value is the dictionary `info`. -/
theorem parseModule_info {k : YVal α} {info : List (YVal α × YVal α)} {m : Mod α}
    (h : parseModule (k, YVal.map info) = .ok m) :
    ∃ kvs ps s rects, mapE classify info = .ok kvs ∧ (kvs.map (·.1)).Nodup ∧
      mapE mkParam (kvs.filter (fun kv => kv.1 ≠ .rectangles)) = .ok ps ∧ ctor ps = .ok s ∧
      ((assoc .rectangles kvs = none ∧ rects = []) ∨ ∃ v, assoc .rectangles kvs = some v ∧
        parseRects s.fixed s.hard v = .ok rects) ∧ setup m.name s rects = .ok m := by
  obtain ⟨name, l, kvs, ps, s, rects, _, _, he2, hk, hnd, hp, hc, hr, hs⟩ := parseModule_ok h
  cases he2
  have hname : m.name = name := by
    obtain ⟨_, _, _, _, _, hm⟩ := setup_ok hs
    rw [hm]
  rw [hname]
  exact ⟨kvs, ps, s, rects, hk, hnd, hp, hc, hr, hs⟩

theorem sublist_pair_forall₂ {β γ : Type} {R : β → γ → Prop} {l : List β} {r : List γ} (h : List.Forall₂ R l r)
    {a b : β} (hs : [a, b].Sublist l) : ∃ a' b', [a', b'].Sublist r ∧ R a a' ∧ R b b' := by
  induction h with
  | nil => cases hs
  | @cons x y xs ys hxy hrest ih =>
    cases hs with
    | cons _ hs' =>
      obtain ⟨a', b', hsub, ha, hb⟩ := ih hs'
      exact ⟨a', b', hsub.cons _, ha, hb⟩
    | cons_cons _ hs' =>
      -- `a = x`; `b` is somewhere in `xs`
      have hb : b ∈ xs := hs'.subset List.mem_cons_self
      obtain ⟨b', hb', hRb⟩ : ∃ b', b' ∈ ys ∧ R b b' := by
        clear ih hs'
        induction hrest with
        | nil => cases hb
        | @cons x2 y2 xs2 ys2 h2 _ ih2 =>
          cases hb with
          | head => exact ⟨y2, List.mem_cons_self, h2⟩
          | tail _ hm => obtain ⟨b', hb', hR⟩ := ih2 hm; exact ⟨b', List.mem_cons_of_mem _ hb', hR⟩
      exact ⟨y, b', List.Sublist.cons_cons _ (List.singleton_sublist.mpr hb'), hxy, hRb⟩

theorem finish_modules {stog : List (NRect α) → List (NRect α)} {εA : α} {ms : List (Mod α)} {es : List (Net α)}
    {n : Netlist α} (hf : finish stog εA ms es = .ok n) : n.modules = ms.map (finalize stog) ∧ n.nets = es := by
  obtain ⟨ms1, hp, _, hm, _, hn⟩ := finish_ok hf
  have h1 : ms1 = ms.map withCentroid := mapE_eq_map (fun x y hxy => (prepModule_ok hxy).1) hp
  have h2 : n.nets = es := mapE_eq_map (g := id) (fun x y hxy => (resolveNet_ok hxy).1) hn |>.trans (by simp)
  refine ⟨?_, h2⟩
  rw [hm, h1, List.map_map]; rfl

theorem areaOverlap_geom {a a' b b' : Rect α} (h1 : a.cx = a'.cx) (h2 : a.cy = a'.cy) (h3 : a.w = a'.w)
    (h4 : a.h = a'.h) (k1 : b.cx = b'.cx) (k2 : b.cy = b'.cy) (k3 : b.w = b'.w) (k4 : b.h = b'.h) :
    a.areaOverlap b = a'.areaOverlap b' := by
  unfold Rect.areaOverlap Rect.xmin Rect.xmax Rect.ymin Rect.ymax
  rw [h1, h2, h3, h4, k1, k2, k3, k4]

/-- a declared-hard, non-terminal module entry that loads is hard and not a terminal. -/
theorem hard_nonterminal {info : List (YVal α × YVal α)} {kvs : List (AttrKind × YVal α)}
    {ps : List (Param α)} {s : MState α} (hk : mapE classify info = .ok kvs) (hnd : (kvs.map (·.1)).Nodup)
    (hp : mapE mkParam (kvs.filter (fun kv => kv.1 ≠ .rectangles)) = .ok ps) (hc : ctor ps = .ok s)
    (hdecl : (YVal.str "fixed", YVal.bool true) ∈ info ∨ (YVal.str "hard", YVal.bool true) ∈ info)
    (hnot : ∀ v, (YVal.str "terminal", v) ∉ info) : s.hard = true ∧ s.terminal = false := by
  obtain ⟨c1, c2, c3, _, _⟩ := params_of_doc hk hnd hp
  refine ⟨?_, ?_⟩
  · apply ctor_hard_true hc c3
    rcases hdecl with hf | hh
    · obtain ⟨p, hpm', hmk'⟩ := c1 AttrKind.fixed _ (by decide) hf
      simp [mkParam] at hmk'; subst hmk'; exact Or.inl hpm'
    · obtain ⟨p, hpm', hmk'⟩ := c1 AttrKind.hard _ (by decide) hh
      simp [mkParam] at hmk'; subst hmk'; exact Or.inr hpm'
  · apply (ctor_inv hc).term_dflt
    intro hin
    obtain ⟨p, hpm, hpk⟩ := List.mem_map.mp hin
    obtain ⟨v, hv, _⟩ := c2 p hpm
    rw [hpk] at hv
    exact hnot v hv


/-- the rectangle a four-number entry `[x, y, w, h]` describes. -/
def entryRect (e : YVal α) : Option (Rect α) :=
  match e with
  | .seq [a, b, c, d] =>
    match a.num?, b.num?, c.num?, d.num? with
    | some x, some y, some w, some h => some { cx := x.val, cy := y.val, w := w.val, h := h.val }
    | _, _, _, _ => none
  | _ => none


theorem entryRect_of_parse {fixed hard : Bool} {e : YVal α} {q : NRect α} {r : Rect α}
    (hp : parseRect fixed hard e = .ok q) (he : entryRect e = some r) :
    r.cx = q.toRect.cx ∧ r.cy = q.toRect.cy ∧ r.w = q.toRect.w ∧ r.h = q.toRect.h := by
  obtain ⟨_, hform⟩ := parseRect_ok hp
  rcases hform with ⟨hf, _⟩ | hf
  · rw [hf] at he
    simp [entryRect] at he
    subst he
    simp [NRect.toRect]
  · rw [hf] at he
    simp [entryRect] at he


end reader

end FV.NL

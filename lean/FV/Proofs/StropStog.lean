import FV.Proofs.Strop
import FV.Props.C06
/-
  C15, last clause: the rectangles of an offered instance, mapped through the coordinate lists the way
  `strop_decomposition` does and loaded as `Rectangle`s, are recognised by `create_stog` (C06 model) with the
  strop trunk kept at the head and every branch given the role of the side it is filed under.

  Orientation, exactly as the code maps it: column index `j` ↦ `x_coords[j]` (ascending), row index `i` ↦
  `y_coords[i]` (descending: row 0 is the top).  A rectangle of rows `r1..r2`, columns `c1..c2` becomes the box
  `[X c1, X (c2+1)] × [Y (r2+1), Y r1]`.  Hence a *north* branch (rows just above the trunk) has its `ymin` on the
  trunk's `ymax` — `find_location` answers NORTH — and likewise S/E/W.
-/
namespace FV.Strop
open FV FV.Rect FV.Stog
set_option linter.unusedSectionVars false
set_option linter.unusedSimpArgs false
set_option linter.unusedVariables false

/-! ### potential trunks are maximal -/

/-- a valid trunk kept by `_get_trunks_matrix` cannot be extended by a full row of ones above or below. -/
theorem tm_maximal_rows (M : Grid) (T : SRect) (hT : T ∈ trunksMatrix M) (hv : ValidTrunk M T) :
    ¬ (1 ≤ T.rows.low ∧ ∀ j, T.cols.low ≤ j → j ≤ T.cols.high → cell M (T.rows.low - 1) j = true) ∧
    ¬ (∀ j, T.cols.low ≤ j → j ≤ T.cols.high → cell M (T.rows.high + 1) j = true) := by
  obtain ⟨r, c, I, hrc, hcl, hget, rfl⟩ := (mem_trunksMatrix M T).1 hT
  obtain ⟨hsp, hdown, hup⟩ := (finalTable_get M r c I hrc hcl).1 hget
  have hc := hv.cols_le
  simp only at hc
  -- a row just outside the trunk whose cells over the trunk's columns are ones is exactly that run
  have rowExact : ∀ i, ¬ (r ≤ i ∧ i ≤ c) → (∀ j, I.low ≤ j → j ≤ I.high → cell M i j = true) → rowIv M i = some I := by
    intro i hi hall
    rw [rowIv_iff]
    refine ⟨hc, fun j => ⟨fun hcell => ?_, fun hj => hall j hj.1 hj.2⟩⟩
    rcases hv.cross i j hcell with h | h | h | h | h
    · exact ⟨h.2.2.1, h.2.2.2⟩
    · exact ⟨h.1, h.2.1⟩
    · exact ⟨h.1, h.2.1⟩
    · exact absurd ⟨h.1, h.2.1⟩ hi
    · exact absurd ⟨h.1, h.2.1⟩ hi
  have hself : inter (some I) (some I) = some I := inter_self (some I) (fun A hA => by cases hA; exact hc)
  constructor
  · rintro ⟨h1, hall⟩
    simp only at h1 hall
    have hrow := rowExact (r - 1) (by omega) hall
    apply hup h1
    have e : c - (r - 1) = (c - r) + 1 := by omega
    have e2 : r - 1 + 1 = r := by omega
    rw [e, span_succ_left, hrow, e2, hsp, hself]
  · intro hall
    simp only at hall
    have hcell := hall I.low (Nat.le_refl _) hc
    have hlt : c + 1 < M.length := cell_lt_rows hcell
    have hrow := rowExact (c + 1) (by omega) hall
    apply hdown hlt
    have e : c + 1 - r = (c - r) + 1 := by omega
    have e2 : r + (c - r) + 1 = c + 1 := by omega
    rw [e, span_succ_right, e2, hrow, hsp, hself]

/-- every potential trunk is a maximal all-ones rectangle. -/
theorem potentialTrunk_maximal (m : Grid) (hwf : m.wf = true) (T : SRect) (hT : T ∈ potentialTrunks m) :
    Maximal m T := by
  have hv := potentialTrunk_valid m hwf T hT
  have hT' := hT
  unfold potentialTrunks at hT'
  simp only [List.mem_filter, List.contains_eq_mem, List.mem_map, decide_eq_true_eq] at hT'
  obtain ⟨⟨hrow, S, hS, hSeq⟩, _⟩ := hT'
  have hS' : T.swap ∈ trunksMatrix (transpose m) := by
    have : S = T.swap := by
      cases S; cases T; simp only [SRect.swap, SRect.mk.injEq] at hSeq ⊢; exact ⟨hSeq.2, hSeq.1⟩
    rw [← this]; exact hS
  obtain ⟨hu, hd⟩ := tm_maximal_rows m T hrow hv
  obtain ⟨hl, hr⟩ := tm_maximal_rows (transpose m) T.swap hS' (validTrunk_transpose m hwf T hv)
  simp only [cell_transpose m hwf, SRect.swap] at hl hr
  exact ⟨hl, hr, hu, hd⟩

/-! ### coordinates -/

variable {α : Type} [Field α] [LinearOrder α] [IsStrictOrderedRing α]

/-- the `Rectangle` built from `[cx, cy, w, h]` (region, flags and role at their defaults). -/
def toRect (q : α × α × α × α) : Rect α := { cx := q.1, cy := q.2.1, w := q.2.2.1, h := q.2.2.2 }

/-- index rectangle ↦ `Rectangle`, through the coordinate lists. -/
def rectOf (X Y : ℕ → α) (r : SRect) : Rect α := toRect (coordRect X Y r)

theorem rectOf_xmin (X Y : ℕ → α) (r : SRect) : (rectOf X Y r).xmin = X r.cols.low := by
  simp only [rectOf, toRect, coordRect, Rect.xmin, Rect.two, Strop.two, Nat.cast_ofNat]; ring
theorem rectOf_xmax (X Y : ℕ → α) (r : SRect) : (rectOf X Y r).xmax = X (r.cols.high + 1) := by
  simp only [rectOf, toRect, coordRect, Rect.xmax, Rect.two, Strop.two, Nat.cast_ofNat]; ring
theorem rectOf_ymin (X Y : ℕ → α) (r : SRect) : (rectOf X Y r).ymin = Y (r.rows.high + 1) := by
  simp only [rectOf, toRect, coordRect, Rect.ymin, Rect.two, Strop.two, Nat.cast_ofNat]; ring
theorem rectOf_ymax (X Y : ℕ → α) (r : SRect) : (rectOf X Y r).ymax = Y r.rows.low := by
  simp only [rectOf, toRect, coordRect, Rect.ymax, Rect.two, Strop.two, Nat.cast_ofNat]; ring
theorem rectOf_w (X Y : ℕ → α) (r : SRect) : (rectOf X Y r).w = X (r.cols.high + 1) - X r.cols.low := rfl
theorem rectOf_h (X Y : ℕ → α) (r : SRect) : (rectOf X Y r).h = Y r.rows.low - Y (r.rows.high + 1) := rfl
theorem rectOf_eraseLoc (X Y : ℕ → α) (r : SRect) : eraseLoc (rectOf X Y r) = rectOf X Y r := rfl

/-- the coordinate lists of a `nr × nc` grid: every cell side exceeds `2ε`, `ε > 0` (`almost_eq` is a strict `<`,
so with `ε = 0` no two sides are ever "equal" and nothing is recognised). -/
structure CoordsOK (ε : α) (X Y : ℕ → α) (nr nc : ℕ) : Prop where
  eps_pos : 0 < ε
  xstep : ∀ j, j < nc → 2 * ε < X (j + 1) - X j
  ystep : ∀ i, i < nr → 2 * ε < Y i - Y (i + 1)

theorem CoordsOK.xgap {ε : α} {X Y : ℕ → α} {nr nc : ℕ} (h : CoordsOK ε X Y nr nc) (a : ℕ) :
    ∀ b, a < b → b ≤ nc → 2 * ε < X b - X a := by
  intro b
  induction b with
  | zero => intro h1; omega
  | succ b ih =>
    intro h1 h2
    have s := h.xstep b (by omega)
    rcases Nat.lt_or_ge a b with hab | hab
    · have := ih hab (by omega); have := h.eps_pos; linarith
    · have : a = b := by omega
      subst this; exact s

theorem CoordsOK.ygap {ε : α} {X Y : ℕ → α} {nr nc : ℕ} (h : CoordsOK ε X Y nr nc) (a : ℕ) :
    ∀ b, a < b → b ≤ nr → 2 * ε < Y a - Y b := by
  intro b
  induction b with
  | zero => intro h1; omega
  | succ b ih =>
    intro h1 h2
    have s := h.ystep b (by omega)
    rcases Nat.lt_or_ge a b with hab | hab
    · have := ih hab (by omega); have := h.eps_pos; linarith
    · have : a = b := by omega
      subst this; exact s

theorem CoordsOK.xmono {ε : α} {X Y : ℕ → α} {nr nc : ℕ} (h : CoordsOK ε X Y nr nc) (a b : ℕ)
    (hab : a ≤ b) (hb : b ≤ nc) : X a ≤ X b := by
  rcases Nat.eq_or_lt_of_le hab with rfl | hlt
  · exact le_refl _
  · have := h.xgap a b hlt hb; have := h.eps_pos; linarith

theorem CoordsOK.ymono {ε : α} {X Y : ℕ → α} {nr nc : ℕ} (h : CoordsOK ε X Y nr nc) (a b : ℕ)
    (hab : a ≤ b) (hb : b ≤ nr) : Y b ≤ Y a := by
  rcases Nat.eq_or_lt_of_le hab with rfl | hlt
  · exact le_refl _
  · have := h.ygap a b hlt hb; have := h.eps_pos; linarith

end FV.Strop

namespace FV.Strop
open FV FV.Rect FV.Stog
set_option linter.unusedSectionVars false
set_option linter.unusedSimpArgs false
set_option linter.unusedVariables false

variable {α : Type} [Field α] [LinearOrder α] [IsStrictOrderedRing α]

/-- a proper index rectangle inside the `nr × nc` grid. -/
abbrev InGrid (r : SRect) (nr nc : ℕ) : Prop :=
  r.rows.low ≤ r.rows.high ∧ r.rows.high < nr ∧ r.cols.low ≤ r.cols.high ∧ r.cols.high < nc

section
variable {ε εA : α} {X Y : ℕ → α} {nr nc : ℕ} (hco : CoordsOK ε X Y nr nc) (hA : 0 ≤ εA)
include hco hA

theorem rectOf_wf (r : SRect) (hr : InGrid r nr nc) :
    2 * ε < (rectOf X Y r).w ∧ 2 * ε < (rectOf X Y r).h ∧ 0 < (rectOf X Y r).w ∧ 0 < (rectOf X Y r).h := by
  obtain ⟨a, b, c, d⟩ := hr
  have h1 := hco.xgap r.cols.low (r.cols.high + 1) (by omega) (by omega)
  have h2 := hco.ygap r.rows.low (r.rows.high + 1) (by omega) (by omega)
  have := hco.eps_pos
  rw [rectOf_w, rectOf_h]
  exact ⟨h1, h2, by linarith, by linarith⟩

/-- overlap vanishes as soon as the boxes only touch in `y` … -/
theorem ov_zero_y (t r : Rect α) (h : t.ymax ≤ r.ymin ∨ r.ymax ≤ t.ymin) : t.areaOverlap r = 0 := by
  rw [areaOverlap_eq]
  have : ovLen t.ymin t.ymax r.ymin r.ymax = 0 := by
    unfold ovLen
    apply max_eq_left
    have a1 := min_le_left t.ymax r.ymax
    have a2 := min_le_right t.ymax r.ymax
    have a3 := le_max_left t.ymin r.ymin
    have a4 := le_max_right t.ymin r.ymin
    rcases h with h | h <;> linarith
  rw [this, mul_zero]

/-- … or in `x`. -/
theorem ov_zero_x (t r : Rect α) (h : t.xmax ≤ r.xmin ∨ r.xmax ≤ t.xmin) : t.areaOverlap r = 0 := by
  rw [areaOverlap_eq]
  have : ovLen t.xmin t.xmax r.xmin r.xmax = 0 := by
    unfold ovLen
    apply max_eq_left
    have a1 := min_le_left t.xmax r.xmax
    have a2 := min_le_right t.xmax r.xmax
    have a3 := le_max_left t.xmin r.xmin
    have a4 := le_max_right t.xmin r.xmin
    rcases h with h | h <;> linarith
  rw [this, zero_mul]

theorem loc_north (T B : SRect) (hT : InGrid T nr nc)
    (hB : B.rows.low ≤ B.rows.high ∧ B.rows.high + 1 = T.rows.low ∧ T.cols.low ≤ B.cols.low ∧
      B.cols.low ≤ B.cols.high ∧ B.cols.high ≤ T.cols.high) :
    findLocation ε εA (rectOf X Y T) (rectOf X Y B) = .north := by
  obtain ⟨t1, t2, t3, t4⟩ := hT
  obtain ⟨b1, b2, b3, b4, b5⟩ := hB
  have wt := rectOf_wf hco hA T ⟨t1, t2, t3, t4⟩
  have wb := rectOf_wf hco hA B ⟨b1, by omega, b4, by omega⟩
  rw [C06.findLocation_iff ε εA _ _ wt.2.2.1 wt.2.2.2 wb.1 wb.2.1 .north (by simp)]
  have e := hco.eps_pos
  have m1 := hco.xmono T.cols.low B.cols.low b3 (by omega)
  have m2 := hco.xmono (B.cols.high + 1) (T.cols.high + 1) (by omega) (by omega)
  constructor
  · simp only [C06.Abuts, rectOf_xmin, rectOf_xmax, rectOf_ymin, rectOf_ymax, b2, sub_self, abs_zero]
    exact ⟨e, by linarith, by linarith⟩
  · rw [ov_zero_y hco hA _ _ (Or.inl (by rw [rectOf_ymax, rectOf_ymin, b2]))]; exact hA

theorem loc_south (T B : SRect) (hT : InGrid T nr nc) (hBn : B.rows.high < nr)
    (hB : B.rows.low ≤ B.rows.high ∧ B.rows.low = T.rows.high + 1 ∧ T.cols.low ≤ B.cols.low ∧
      B.cols.low ≤ B.cols.high ∧ B.cols.high ≤ T.cols.high) :
    findLocation ε εA (rectOf X Y T) (rectOf X Y B) = .south := by
  obtain ⟨t1, t2, t3, t4⟩ := hT
  obtain ⟨b1, b2, b3, b4, b5⟩ := hB
  have wt := rectOf_wf hco hA T ⟨t1, t2, t3, t4⟩
  have wb := rectOf_wf hco hA B ⟨b1, hBn, b4, by omega⟩
  rw [C06.findLocation_iff ε εA _ _ wt.2.2.1 wt.2.2.2 wb.1 wb.2.1 .south (by simp)]
  have e := hco.eps_pos
  have m1 := hco.xmono T.cols.low B.cols.low b3 (by omega)
  have m2 := hco.xmono (B.cols.high + 1) (T.cols.high + 1) (by omega) (by omega)
  constructor
  · simp only [C06.Abuts, rectOf_xmin, rectOf_xmax, rectOf_ymin, rectOf_ymax, b2, sub_self, abs_zero]
    exact ⟨e, by linarith, by linarith⟩
  · rw [ov_zero_y hco hA _ _ (Or.inr (by rw [rectOf_ymax, rectOf_ymin, b2]))]; exact hA

theorem loc_east (T B : SRect) (hT : InGrid T nr nc) (hBn : B.cols.high < nc)
    (hB : B.cols.low ≤ B.cols.high ∧ B.cols.low = T.cols.high + 1 ∧ T.rows.low ≤ B.rows.low ∧
      B.rows.low ≤ B.rows.high ∧ B.rows.high ≤ T.rows.high) :
    findLocation ε εA (rectOf X Y T) (rectOf X Y B) = .east := by
  obtain ⟨t1, t2, t3, t4⟩ := hT
  obtain ⟨b1, b2, b3, b4, b5⟩ := hB
  have wt := rectOf_wf hco hA T ⟨t1, t2, t3, t4⟩
  have wb := rectOf_wf hco hA B ⟨b4, by omega, b1, hBn⟩
  rw [C06.findLocation_iff ε εA _ _ wt.2.2.1 wt.2.2.2 wb.1 wb.2.1 .east (by simp)]
  have e := hco.eps_pos
  have m1 := hco.ymono T.rows.low B.rows.low b3 (by omega)
  have m2 := hco.ymono (B.rows.high + 1) (T.rows.high + 1) (by omega) (by omega)
  constructor
  · simp only [C06.Abuts, rectOf_xmin, rectOf_xmax, rectOf_ymin, rectOf_ymax, b2, sub_self, abs_zero]
    exact ⟨e, by linarith, by linarith⟩
  · rw [ov_zero_x hco hA _ _ (Or.inl (by rw [rectOf_xmax, rectOf_xmin, b2]))]; exact hA

theorem loc_west (T B : SRect) (hT : InGrid T nr nc)
    (hB : B.cols.low ≤ B.cols.high ∧ B.cols.high + 1 = T.cols.low ∧ T.rows.low ≤ B.rows.low ∧
      B.rows.low ≤ B.rows.high ∧ B.rows.high ≤ T.rows.high) :
    findLocation ε εA (rectOf X Y T) (rectOf X Y B) = .west := by
  obtain ⟨t1, t2, t3, t4⟩ := hT
  obtain ⟨b1, b2, b3, b4, b5⟩ := hB
  have wt := rectOf_wf hco hA T ⟨t1, t2, t3, t4⟩
  have wb := rectOf_wf hco hA B ⟨b4, by omega, b1, by omega⟩
  rw [C06.findLocation_iff ε εA _ _ wt.2.2.1 wt.2.2.2 wb.1 wb.2.1 .west (by simp)]
  have e := hco.eps_pos
  have m1 := hco.ymono T.rows.low B.rows.low b3 (by omega)
  have m2 := hco.ymono (B.rows.high + 1) (T.rows.high + 1) (by omega) (by omega)
  constructor
  · simp only [C06.Abuts, rectOf_xmin, rectOf_xmax, rectOf_ymin, rectOf_ymax, b2, sub_self, abs_zero]
    exact ⟨e, by linarith, by linarith⟩
  · rw [ov_zero_x hco hA _ _ (Or.inr (by rw [rectOf_xmax, rectOf_xmin, b2]))]; exact hA

end

section
variable {ε εA : α} {X Y : ℕ → α} {nr nc : ℕ} (hco : CoordsOK ε X Y nr nc) (hA : 0 ≤ εA)
include hco hA

/-- a north branch that does not span the whole width of the trunk cannot serve as trunk: the strop trunk has no
location with respect to it. -/
theorem notloc_north (T B : SRect) (hT : InGrid T nr nc)
    (hB : B.rows.low ≤ B.rows.high ∧ B.rows.high + 1 = T.rows.low ∧ T.cols.low ≤ B.cols.low ∧
      B.cols.low ≤ B.cols.high ∧ B.cols.high ≤ T.cols.high)
    (hne : ¬ (B.cols.low = T.cols.low ∧ B.cols.high = T.cols.high)) :
    findLocation ε εA (rectOf X Y B) (rectOf X Y T) = .nopoly := by
  obtain ⟨t1, t2, t3, t4⟩ := hT
  obtain ⟨b1, b2, b3, b4, b5⟩ := hB
  have wt := rectOf_wf hco hA T ⟨t1, t2, t3, t4⟩
  have wb := rectOf_wf hco hA B ⟨b1, by omega, b4, by omega⟩
  have e := hco.eps_pos
  have e0 : Y (B.rows.high + 1) = Y T.rows.low := by rw [b2]
  have g1 := hco.ygap B.rows.low (T.rows.high + 1) (by omega) (by omega)
  have g2 := hco.xgap T.cols.low (B.cols.high + 1) (by omega) (by omega)
  have g3 := hco.xgap B.cols.low (T.cols.high + 1) (by omega) (by omega)
  have hx : (2 * ε < X B.cols.low - X T.cols.low) ∨ (2 * ε < X (T.cols.high + 1) - X (B.cols.high + 1)) := by
    rcases Nat.lt_or_ge T.cols.low B.cols.low with h | h
    · exact Or.inl (hco.xgap _ _ h (by omega))
    · exact Or.inr (hco.xgap _ _ (by omega) (by omega))
  rw [C06.findLocation_none_iff ε εA _ _ wb.2.2.1 wb.2.2.2 wt.1 wt.2.1]
  rintro ⟨s, hs, _⟩
  cases s <;> simp only [C06.Abuts, rectOf_xmin, rectOf_xmax, rectOf_ymin, rectOf_ymax, abs_lt] at hs
  all_goals first
    | exact hs
    | (obtain ⟨⟨p1, p2⟩, p3, p4⟩ := hs; rcases hx with hx | hx <;> linarith)

theorem notloc_south (T B : SRect) (hT : InGrid T nr nc) (hBn : B.rows.high < nr)
    (hB : B.rows.low ≤ B.rows.high ∧ B.rows.low = T.rows.high + 1 ∧ T.cols.low ≤ B.cols.low ∧
      B.cols.low ≤ B.cols.high ∧ B.cols.high ≤ T.cols.high)
    (hne : ¬ (B.cols.low = T.cols.low ∧ B.cols.high = T.cols.high)) :
    findLocation ε εA (rectOf X Y B) (rectOf X Y T) = .nopoly := by
  obtain ⟨t1, t2, t3, t4⟩ := hT
  obtain ⟨b1, b2, b3, b4, b5⟩ := hB
  have wt := rectOf_wf hco hA T ⟨t1, t2, t3, t4⟩
  have wb := rectOf_wf hco hA B ⟨b1, hBn, b4, by omega⟩
  have e := hco.eps_pos
  have e0 : Y B.rows.low = Y (T.rows.high + 1) := by rw [b2]
  have g1 := hco.ygap T.rows.low (B.rows.high + 1) (by omega) (by omega)
  have g2 := hco.xgap T.cols.low (B.cols.high + 1) (by omega) (by omega)
  have g3 := hco.xgap B.cols.low (T.cols.high + 1) (by omega) (by omega)
  have hx : (2 * ε < X B.cols.low - X T.cols.low) ∨ (2 * ε < X (T.cols.high + 1) - X (B.cols.high + 1)) := by
    rcases Nat.lt_or_ge T.cols.low B.cols.low with h | h
    · exact Or.inl (hco.xgap _ _ h (by omega))
    · exact Or.inr (hco.xgap _ _ (by omega) (by omega))
  rw [C06.findLocation_none_iff ε εA _ _ wb.2.2.1 wb.2.2.2 wt.1 wt.2.1]
  rintro ⟨s, hs, _⟩
  cases s <;> simp only [C06.Abuts, rectOf_xmin, rectOf_xmax, rectOf_ymin, rectOf_ymax, abs_lt] at hs
  all_goals first
    | exact hs
    | (obtain ⟨⟨p1, p2⟩, p3, p4⟩ := hs; rcases hx with hx | hx <;> linarith)

theorem notloc_east (T B : SRect) (hT : InGrid T nr nc) (hBn : B.cols.high < nc)
    (hB : B.cols.low ≤ B.cols.high ∧ B.cols.low = T.cols.high + 1 ∧ T.rows.low ≤ B.rows.low ∧
      B.rows.low ≤ B.rows.high ∧ B.rows.high ≤ T.rows.high)
    (hne : ¬ (B.rows.low = T.rows.low ∧ B.rows.high = T.rows.high)) :
    findLocation ε εA (rectOf X Y B) (rectOf X Y T) = .nopoly := by
  obtain ⟨t1, t2, t3, t4⟩ := hT
  obtain ⟨b1, b2, b3, b4, b5⟩ := hB
  have wt := rectOf_wf hco hA T ⟨t1, t2, t3, t4⟩
  have wb := rectOf_wf hco hA B ⟨b4, by omega, b1, hBn⟩
  have e := hco.eps_pos
  have e0 : X B.cols.low = X (T.cols.high + 1) := by rw [b2]
  have g1 := hco.xgap T.cols.low (B.cols.high + 1) (by omega) (by omega)
  have g2 := hco.ygap B.rows.low (T.rows.high + 1) (by omega) (by omega)
  have g3 := hco.ygap T.rows.low (B.rows.high + 1) (by omega) (by omega)
  have hx : (2 * ε < Y T.rows.low - Y B.rows.low) ∨ (2 * ε < Y (B.rows.high + 1) - Y (T.rows.high + 1)) := by
    rcases Nat.lt_or_ge T.rows.low B.rows.low with h | h
    · exact Or.inl (hco.ygap _ _ h (by omega))
    · exact Or.inr (hco.ygap _ _ (by omega) (by omega))
  rw [C06.findLocation_none_iff ε εA _ _ wb.2.2.1 wb.2.2.2 wt.1 wt.2.1]
  rintro ⟨s, hs, _⟩
  cases s <;> simp only [C06.Abuts, rectOf_xmin, rectOf_xmax, rectOf_ymin, rectOf_ymax, abs_lt] at hs
  all_goals first
    | exact hs
    | (obtain ⟨⟨p1, p2⟩, p3, p4⟩ := hs; rcases hx with hx | hx <;> linarith)

theorem notloc_west (T B : SRect) (hT : InGrid T nr nc)
    (hB : B.cols.low ≤ B.cols.high ∧ B.cols.high + 1 = T.cols.low ∧ T.rows.low ≤ B.rows.low ∧
      B.rows.low ≤ B.rows.high ∧ B.rows.high ≤ T.rows.high)
    (hne : ¬ (B.rows.low = T.rows.low ∧ B.rows.high = T.rows.high)) :
    findLocation ε εA (rectOf X Y B) (rectOf X Y T) = .nopoly := by
  obtain ⟨t1, t2, t3, t4⟩ := hT
  obtain ⟨b1, b2, b3, b4, b5⟩ := hB
  have wt := rectOf_wf hco hA T ⟨t1, t2, t3, t4⟩
  have wb := rectOf_wf hco hA B ⟨b4, by omega, b1, by omega⟩
  have e := hco.eps_pos
  have e0 : X (B.cols.high + 1) = X T.cols.low := by rw [b2]
  have g1 := hco.xgap B.cols.low (T.cols.high + 1) (by omega) (by omega)
  have g2 := hco.ygap B.rows.low (T.rows.high + 1) (by omega) (by omega)
  have g3 := hco.ygap T.rows.low (B.rows.high + 1) (by omega) (by omega)
  have hx : (2 * ε < Y T.rows.low - Y B.rows.low) ∨ (2 * ε < Y (B.rows.high + 1) - Y (T.rows.high + 1)) := by
    rcases Nat.lt_or_ge T.rows.low B.rows.low with h | h
    · exact Or.inl (hco.ygap _ _ h (by omega))
    · exact Or.inr (hco.ygap _ _ (by omega) (by omega))
  rw [C06.findLocation_none_iff ε εA _ _ wb.2.2.1 wb.2.2.2 wt.1 wt.2.1]
  rintro ⟨s, hs, _⟩
  cases s <;> simp only [C06.Abuts, rectOf_xmin, rectOf_xmax, rectOf_ymin, rectOf_ymax, abs_lt] at hs
  all_goals first
    | exact hs
    | (obtain ⟨⟨p1, p2⟩, p3, p4⟩ := hs; rcases hx with hx | hx <;> linarith)

end

/-- the roles `create_stog` is expected to hand out, in the order `rectangles()` lists the branches. -/
def Instance.sides (I : Instance) : List Loc :=
  I.north.map (fun _ => Loc.north) ++ I.south.map (fun _ => Loc.south) ++ I.east.map (fun _ => Loc.east)
    ++ I.west.map (fun _ => Loc.west)

/-- the list handed to `create_stog`: trunk first, then the branches, as `Rectangle`s. -/
def Instance.loaded (I : Instance) (X Y : ℕ → α) : List (Rect α) := I.rectangles.map (rectOf X Y)

/-- recognition of one offered instance (`T` its potential trunk). -/
theorem instance_recognised (m : Grid) (hwf : m.wf = true) (T : SRect) (hT : T ∈ potentialTrunks m) (I : Instance)
    (hmk : mkInstance m T = some I) {ε εA : α} {X Y : ℕ → α} (hco : CoordsOK ε X Y m.nrows m.ncols) (hA : 0 ≤ εA) :
    ∃ out, createStog ε εA (I.loaded X Y) = some (true, out) ∧ out.map eraseLoc = I.loaded X Y ∧
      out.map (·.loc) = Loc.trunk :: I.sides := by
  obtain ⟨e0, hv, hcover, _, hN, hS, hE, hW⟩ := instance_facts m hwf T hT I hmk
  have hmax := potentialTrunk_maximal m hwf T hT
  have hr := hv.rows_le
  have hc := hv.cols_le
  have hcellT := hv.ones T.rows.high T.cols.high ⟨hr, Nat.le_refl _, hc, Nat.le_refl _⟩
  have hTg : InGrid T m.nrows m.ncols := ⟨hr, cell_lt_rows hcellT, hc, cell_lt_cols hwf hcellT⟩
  -- cells of a branch are ones
  have inb : ∀ b ∈ I.branches, ∀ i j, b.rows.low ≤ i → i ≤ b.rows.high → b.cols.low ≤ j → j ≤ b.cols.high →
      cell m i j = true := fun b hb i j h1 h2 h3 h4 => (hcover i j).2 (Or.inr ⟨b, hb, (mem_iff b i j).2 ⟨h1, h2, h3, h4⟩⟩)
  have memN : ∀ b ∈ I.north, b ∈ I.branches := fun b hb => by
    simp only [Instance.branches, List.mem_append]; exact Or.inl (Or.inl (Or.inl hb))
  have memS : ∀ b ∈ I.south, b ∈ I.branches := fun b hb => by
    simp only [Instance.branches, List.mem_append]; exact Or.inl (Or.inl (Or.inr hb))
  have memE : ∀ b ∈ I.east, b ∈ I.branches := fun b hb => by
    simp only [Instance.branches, List.mem_append]; exact Or.inl (Or.inr hb)
  have memW : ∀ b ∈ I.west, b ∈ I.branches := fun b hb => by
    simp only [Instance.branches, List.mem_append]; exact Or.inr hb
  -- claim 1: every branch is located on its side by the trunk
  have c1 : I.branches.map (fun b => findLocation ε εA (rectOf X Y T) (rectOf X Y b)) = I.sides := by
    simp only [Instance.branches, Instance.sides, List.map_append]
    congr 1
    · congr 1
      · congr 1
        · exact List.map_congr_left fun b hb => loc_north hco hA T b hTg (hN b hb)
        · refine List.map_congr_left fun b hb => loc_south hco hA T b hTg ?_ (hS b hb)
          have h := hS b hb
          exact cell_lt_rows (inb b (memS b hb) b.rows.high b.cols.low h.1 (Nat.le_refl _) (Nat.le_refl _) h.2.2.2.1)
      · refine List.map_congr_left fun b hb => loc_east hco hA T b hTg ?_ (hE b hb)
        have h := hE b hb
        exact cell_lt_cols hwf (inb b (memE b hb) b.rows.low b.cols.high (Nat.le_refl _) h.2.2.2.1 h.1 (Nat.le_refl _))
    · exact List.map_congr_left fun b hb => loc_west hco hA T b hTg (hW b hb)
  -- claim 2: no branch can serve as trunk
  have c2 : ∀ b ∈ I.branches, findLocation ε εA (rectOf X Y b) (rectOf X Y T) = .nopoly := by
    intro b hb
    have hb' := hb
    simp only [Instance.branches, List.mem_append] at hb'
    rcases hb' with ((hn | hs) | he) | hw
    · have h := hN b hn
      refine notloc_north hco hA T b hTg h ?_
      rintro ⟨a1, a2⟩
      exact hmax.up ⟨by omega, fun j j1 j2 => inb b hb (T.rows.low - 1) j (by omega) (by omega) (by omega) (by omega)⟩
    · have h := hS b hs
      refine notloc_south hco hA T b hTg ?_ h ?_
      · exact cell_lt_rows (inb b hb b.rows.high b.cols.low h.1 (Nat.le_refl _) (Nat.le_refl _) h.2.2.2.1)
      · rintro ⟨a1, a2⟩
        exact hmax.down fun j j1 j2 => inb b hb (T.rows.high + 1) j (by omega) (by omega) (by omega) (by omega)
    · have h := hE b he
      refine notloc_east hco hA T b hTg ?_ h ?_
      · exact cell_lt_cols hwf (inb b hb b.rows.low b.cols.high (Nat.le_refl _) h.2.2.2.1 h.1 (Nat.le_refl _))
      · rintro ⟨a1, a2⟩
        exact hmax.right fun i i1 i2 => inb b hb i (T.cols.high + 1) (by omega) (by omega) (by omega) (by omega)
    · have h := hW b hw
      refine notloc_west hco hA T b hTg h ?_
      rintro ⟨a1, a2⟩
      exact hmax.left ⟨by omega, fun i i1 i2 => inb b hb i (T.cols.low - 1) (by omega) (by omega) (by omega) (by omega)⟩
  -- the list
  have hL : I.loaded X Y = rectOf X Y T :: I.branches.map (rectOf X Y) := by
    simp [Instance.loaded, Instance.rectangles, e0]
  have hLe : (I.loaded X Y).map eraseLoc = I.loaded X Y := by
    rw [hL]; simp only [List.map_cons, List.map_map]
    congr 1
  have h0 : IsTrunkAt ε εA (I.loaded X Y) 0 := by
    refine ⟨by rw [hL]; simp, ?_⟩
    intro j hj hne
    simp only [hL] at hj ⊢
    cases j with
    | zero => exact absurd rfl hne
    | succ j =>
      simp only [List.length_cons, List.length_map] at hj
      simp only [List.getElem_cons_zero, List.getElem_cons_succ, List.getElem_map]
      have := congrArg (fun l => l[j]?) c1
      simp only [List.getElem?_map] at this
      have hj' : j < I.branches.length := by omega
      have hs : I.sides[j]? = some (findLocation ε εA (rectOf X Y T) (rectOf X Y I.branches[j])) := by
        rw [← this, List.getElem?_eq_getElem hj']; rfl
      intro hcontra
      rw [hcontra] at hs
      -- `nopoly` is not among the sides
      have hmem : Loc.nopoly ∈ I.sides := List.mem_of_getElem? hs
      simp [Instance.sides] at hmem
  have huniq : ∀ b, IsTrunkAt ε εA (I.loaded X Y) b → b = 0 := by
    intro b hb
    cases b with
    | zero => rfl
    | succ b =>
      exfalso
      obtain ⟨hlt, hall⟩ := hb
      have h00 : 0 < (I.loaded X Y).length := by omega
      have := hall 0 h00 (by omega)
      apply this
      simp only [hL] at hlt ⊢
      simp only [List.length_cons, List.length_map] at hlt
      simp only [List.getElem_cons_zero, List.getElem_cons_succ, List.getElem_map]
      exact c2 _ (List.getElem_mem _)
  have hne : I.loaded X Y ≠ [] := by rw [hL]; simp
  rcases createStog_spec ε εA (I.loaded X Y) hne with ⟨r, hr1, e⟩ | ⟨_, hno, _⟩ | ⟨_, b, hb, hb', h0', e⟩
  · rw [hL] at hr1
    simp only [List.cons.injEq, List.map_eq_nil_iff] at hr1
    obtain ⟨rfl, hnil⟩ := hr1
    refine ⟨_, e, ?_, ?_⟩
    · rw [hL, hnil]; rfl
    · have : I.sides = [] := by rw [← c1, hnil]; rfl
      rw [this]; rfl
  · exact absurd ⟨0, h0⟩ hno
  · have hb0 := huniq b hb
    subst hb0
    have hset : (((I.loaded X Y).map eraseLoc).set 0 ((I.loaded X Y).map eraseLoc)[0]).set 0 ((I.loaded X Y).map eraseLoc)[0]
        = I.loaded X Y := by
      rw [List.set_getElem_self, List.set_getElem_self, hLe]
    rw [hset] at e
    refine ⟨_, e, ?_, ?_⟩
    · rw [label_map_eraseLoc, hLe]
    · rw [hL]
      simp only [label, List.map_cons, List.map_map]
      congr 1

end FV.Strop

import FV.Proofs.RectSearch
import FV.Props.C07
import FV.Model.RectSat
import Mathlib.Tactic.Ring
import Std.Data.String.ToNat
/-
  Composition of C08 with C07: the abstract constraints of `FV/Model/RectSearch.lean` translated into the postings
  (`FV.Sat.Post`) of the SAT-layer model of property C07, exactly as `rect.py` hands them to `SATManager`:

      clause / `sm.imply(l1, l2)`                 ↦  clause post (`Mgr.imply` adds that very clause)
      `sm.heuleencoding(lits)` (default k = 3)     ↦  `Post.amoH 3`
      `sm.pseudoboolencoding(l₁ + … + lₙ >= 1)`   ↦  `Post.pb (Ineq.make (⟨0,[]⟩ + l₁ + … + lₙ) (⟨0,[]⟩ + 1) ">=")`
      `sm.pseudoboolencoding(obj >= dif[0])`       ↦  `Post.pb` of `ratio * selarea - realarea >= dif[0]` built with
                                                      the `Expr` algebra in the order `solve` builds it

  A variable `v` of the C08 model becomes the user variable `Var.user (nm v)` of the C07 model; `nm` is the naming
  function (`pyName` below is the one of `rect.py`).  The only thing the composition needs of `nm` is injectivity.
-/
namespace FV.RectSat
open FV FV.PB
set_option linter.unusedSectionVars false
set_option linter.unusedVariables false
set_option linter.unusedSimpArgs false

variable {α : Type} (nm : RectSearch.Var α → String)

/-- the assignment of the C08 variables induced by an assignment of the SAT-layer variables -/
def pull (τ : Sat.Var → Bool) : RectSearch.Assign α := fun v => τ (trVar nm v)

def trC : RectSearch.Constr α → Sat.Post
  | .clause ls => .clause (ls.map (trLit nm))
  | .amo ls => .amoH 3 (ls.map (trLit nm))
  | .atLeastOne ls => .pb (geIneq (sumLits (ls.map (trLit nm))) 1) false
  | .pbGe ts k => .pb (geIneq (linExpr (ts.map fun t => (t.1, trLit nm t.2))) k) false

/-- postings that `SATManager` never refuses (C07 `refused_only`) -/
def Acceptable : Sat.Post → Prop
  | .amoH k _ => 3 ≤ k
  | .pb q _ => q.op = .ge
  | _ => True

/-! ### expressions built by repeated `+` -/

theorem litVal_eq (τ : Sat.Var → Bool) (l : Sat.Lit) : litVal τ l = if litTrue τ l = true then 1 else 0 := by
  cases l with | mk v s => cases s <;> cases h : τ v <;> simp [litVal, litTrue, b2i, h]

theorem litTrue_trLit (τ : Sat.Var → Bool) (l : RectSearch.Lit α) :
    litTrue τ (trLit nm l) = l.eval (pull nm τ) := rfl

theorem foldl_lit_eval (τ : Sat.Var → Bool) : ∀ (ls : List Sat.Lit) (e : Expr Sat.Var),
    (ls.foldl (fun e l => e.add (.lit l)) e).eval τ = e.eval τ + (ls.map (litVal τ)).sum
  | [], e => by simp
  | l :: r, e => by
    rw [List.foldl_cons, foldl_lit_eval τ r, Expr.eval_add]
    simp [Operand.val, Int.add_assoc]

theorem foldl_lit_nf : ∀ (ls : List Sat.Lit) (e : Expr Sat.Var), e.NF → (ls.foldl (fun e l => e.add (.lit l)) e).NF
  | [], e, h => h
  | l :: r, e, h => foldl_lit_nf r _ (Expr.nf_add _ h)

theorem foldl_lit_vars (P : Sat.Var → Prop) : ∀ (ls : List Sat.Lit) (e : Expr Sat.Var), (∀ y ∈ e.t, P y.L.v) →
    (∀ l ∈ ls, P l.v) → ∀ y ∈ (ls.foldl (fun e l => e.add (.lit l)) e).t, P y.L.v
  | [], e, h, _ => h
  | l :: r, e, h, hl => foldl_lit_vars P r _ (addTerm_vars P h (hl l (by simp))) (fun x hx => hl x (by simp [hx]))

theorem foldl_term_eval (τ : Sat.Var → Bool) : ∀ (ts : List (Int × Sat.Lit)) (e : Expr Sat.Var),
    (ts.foldl (fun e t => e.add (.term (t.2.mul (.int t.1)))) e).eval τ =
      e.eval τ + (ts.map fun t => t.1 * litVal τ t.2).sum
  | [], e => by simp
  | t :: r, e => by
    rw [List.foldl_cons, foldl_term_eval τ r, Expr.eval_add]
    simp only [Operand.val, termVal_litMul, Num.toInt, List.map_cons, List.sum_cons]
    rw [Int.mul_comm (litVal τ t.2)]; omega

theorem foldl_term_nf : ∀ (ts : List (Int × Sat.Lit)) (e : Expr Sat.Var), e.NF →
    (ts.foldl (fun e t => e.add (.term (t.2.mul (.int t.1)))) e).NF
  | [], e, h => h
  | t :: r, e, h => foldl_term_nf r _ (Expr.nf_add _ h)

theorem foldl_term_vars (P : Sat.Var → Prop) : ∀ (ts : List (Int × Sat.Lit)) (e : Expr Sat.Var), (∀ y ∈ e.t, P y.L.v) →
    (∀ t ∈ ts, P t.2.v) → ∀ y ∈ (ts.foldl (fun e t => e.add (.term (t.2.mul (.int t.1)))) e).t, P y.L.v
  | [], e, h, _ => h
  | t :: r, e, h, hl =>
    foldl_term_vars P r _ (addTerm_vars P h (hl t (by simp))) (fun x hx => hl x (by simp [hx]))

theorem geIneq_op (e : Expr Sat.Var) (k : Int) : (geIneq e k).op = .ge := rfl

theorem geIneq_holds (τ : Sat.Var → Bool) (e : Expr Sat.Var) (k : Int) : (geIneq e k).holds τ ↔ k ≤ e.eval τ := by
  unfold geIneq
  rw [Ineq.holds_make, Expr.eval_add]
  simp [CmpOp.rel, Operand.val, Num.toInt, eval_empty]

theorem geIneq_wf (e : Expr Sat.Var) (k : Int) (hnf : e.NF) (hu : ∀ y ∈ e.t, Sat.isUser y.L.v) :
    (Sat.Post.pb (geIneq e k) false).WF :=
  Sat.make_wf .ge false hnf (by simp [Expr.add]; exact nf_nil) hu (by simp [Expr.add])

theorem sum01_ge_one (τ : Sat.Var → Bool) : ∀ ls : List Sat.Lit,
    1 ≤ (ls.map (litVal τ)).sum ↔ ∃ l ∈ ls, litTrue τ l = true
  | [] => by simp
  | l :: r => by
    have ih := sum01_ge_one τ r
    have hnn : 0 ≤ (r.map (litVal τ)).sum := by
      clear ih
      induction r with
      | nil => simp
      | cons a t iht => simp only [List.map_cons, List.sum_cons]; rcases litVal_cases τ a with h | h <;> omega
    simp only [List.map_cons, List.sum_cons, List.mem_cons, exists_eq_or_imp]
    rw [litVal_eq]
    by_cases h : litTrue τ l = true
    · simp only [h, if_true, true_or, iff_true]; omega
    · simp only [h, if_false, false_or, ← ih, Bool.false_eq_true]; omega

/-! ### the per-constraint bridge -/

theorem isUser_trVar (v : RectSearch.Var α) : Sat.isUser (trVar nm v) := trivial

/-- every translated constraint is a well-formed posting … -/
theorem trC_wf (c : RectSearch.Constr α) : (trC nm c).WF := by
  cases c with
  | clause ls => intro l hl; obtain ⟨l', _, rfl⟩ := List.mem_map.1 hl; trivial
  | amo ls => intro l hl; obtain ⟨l', _, rfl⟩ := List.mem_map.1 hl; trivial
  | atLeastOne ls =>
    refine geIneq_wf _ _ (foldl_lit_nf _ _ nf_nil) (foldl_lit_vars _ _ _ (by simp) ?_)
    intro l hl; obtain ⟨l', _, rfl⟩ := List.mem_map.1 hl; trivial
  | pbGe ts k =>
    refine geIneq_wf _ _ (foldl_term_nf _ _ nf_nil) (foldl_term_vars _ _ _ (by simp) ?_)
    intro t ht; obtain ⟨t', _, rfl⟩ := List.mem_map.1 ht; trivial

/-- … that is never refused … -/
theorem trC_acceptable (c : RectSearch.Constr α) : Acceptable (trC nm c) := by
  cases c <;> simp [trC, Acceptable, geIneq_op]

/-- … and means exactly what the abstract constraint means. -/
theorem trC_holds (τ : Sat.Var → Bool) (c : RectSearch.Constr α) :
    (trC nm c).holds τ ↔ c.holds (pull nm τ) = true := by
  cases c with
  | clause ls =>
    simp only [trC, Sat.Post.holds, clauseTrue, RectSearch.Constr.holds, List.any_map]
    rfl
  | amo ls =>
    simp only [trC, Sat.Post.holds, Sat.amo, RectSearch.Constr.holds, decide_eq_true_eq]
    rw [List.countP_map, List.countP_eq_length_filter]
    exact Iff.rfl
  | atLeastOne ls =>
    simp only [trC, Sat.Post.holds, geIneq_holds, sumLits, foldl_lit_eval, eval_empty, Int.zero_add, sum01_ge_one,
      RectSearch.Constr.holds, List.any_eq_true, List.mem_map]
    constructor
    · rintro ⟨_, ⟨l, hl, rfl⟩, h⟩; exact ⟨l, hl, h⟩
    · rintro ⟨l, hl, h⟩; exact ⟨_, ⟨l, hl, rfl⟩, h⟩
  | pbGe ts k =>
    simp only [trC, Sat.Post.holds, geIneq_holds, linExpr, foldl_term_eval, eval_empty, Int.zero_add,
      RectSearch.Constr.holds, decide_eq_true_eq, List.map_map]
    unfold RectSearch.pbSum
    have : (ts.map ((fun t : Int × Sat.Lit => t.1 * litVal τ t.2) ∘ fun t => (t.1, trLit nm t.2))) =
        ts.map fun t => if t.2.eval (pull nm τ) = true then t.1 else 0 := by
      apply List.map_congr_left
      intro t _
      show t.1 * litVal τ (trLit nm t.2) = _
      rw [litVal_eq, litTrue_trLit]
      split <;> simp
    rw [this]

/-! ### the objective, built as `solve` builds it -/

theorem mul_vars (P : Sat.Var → Prop) {e : Expr Sat.Var} (n : Num) (h : ∀ y ∈ e.t, P y.L.v) :
    ∀ y ∈ (e.mul n).t, P y.L.v := by
  intro y hy
  simp only [Expr.mul] at hy
  have hy' : y ∈ (mulTerms n.toInt e.t).2 := (List.mem_filter.1 hy).1
  have hk : y.L.v ∈ (mulTerms n.toInt e.t).2.map (·.L.v) := List.mem_map.2 ⟨y, hy', rfl⟩
  rw [mulTerms_keys] at hk
  obtain ⟨z, hz, e'⟩ := List.mem_map.1 hk
  rw [← e']; exact h z hz

theorem areaExpr_nf (P : RectSearch.Problem α) (A : List Int) : (areaExpr nm P A).NF := foldl_term_nf _ _ nf_nil

theorem areaExpr_vars (P : RectSearch.Problem α) (A : List Int) : ∀ y ∈ (areaExpr nm P A).t, Sat.isUser y.L.v :=
  foldl_term_vars _ _ _ (by simp) (by
    intro t ht; obtain ⟨b, _, rfl⟩ := List.mem_map.1 ht; trivial)

theorem areaExpr_eval (τ : Sat.Var → Bool) (P : RectSearch.Problem α) (A : List Int) :
    (areaExpr nm P A).eval τ = (P.C.blocks.map fun b => A.getD b 0 * (if τ (trVar nm (.sel b)) = true then 1 else 0)).sum := by
  unfold areaExpr linExpr
  rw [foldl_term_eval, eval_empty, Int.zero_add, List.map_map]
  congr 1

theorem objIneq_wf (P : RectSearch.Problem α) (ratio dif0 : Int) : (Sat.Post.pb (objIneq nm P ratio dif0) false).WF := by
  unfold objIneq objExpr
  refine geIneq_wf _ _ (Expr.nf_sub _ (Expr.nf_mul _ (areaExpr_nf nm P _))) ?_
  exact foldl_subTerm_vars Sat.isUser _ (mul_vars Sat.isUser _ (areaExpr_vars nm P _)) (areaExpr_vars nm P _)

theorem sum_obj (X : Nat → Bool) (s q : Nat → Int) (r : Int) : ∀ l : List Nat,
    (l.map fun b => s b * (if X b = true then 1 else 0)).sum * r - (l.map fun b => q b * (if X b = true then 1 else 0)).sum =
      (l.map fun b => if X b = true then r * s b - q b else 0).sum
  | [] => by simp
  | b :: t => by
    have ih := sum_obj X s q r t
    simp only [List.map_cons, List.sum_cons]
    rw [← ih]
    cases X b <;> simp
    all_goals ring

/-- the value of `obj = ratio * selarea - realarea` under an assignment is the weighted sum of the selected blocks -/
theorem objExpr_eval (τ : Sat.Var → Bool) (P : RectSearch.Problem α) (ratio : Int) :
    (objExpr nm P ratio).eval τ = RectSearch.pbSum (pull nm τ) (RectSearch.objTerms P ratio) := by
  unfold objExpr
  rw [Expr.eval_sub, Expr.eval_mul]
  simp only [Operand.val, Num.toInt, areaExpr_eval]
  rw [sum_obj (fun b => τ (trVar nm (.sel b))) (fun b => P.selA.getD b 0) (fun b => P.realA.getD b 0) ratio]
  unfold RectSearch.pbSum RectSearch.objTerms RectSearch.Problem.weight
  rw [List.map_map]
  have : (P.C.blocks.map fun b => if τ (trVar nm (.sel b)) = true then ratio * P.selA.getD b 0 - P.realA.getD b 0 else 0) =
      P.C.blocks.map ((fun t : Int × RectSearch.Lit α => if t.2.eval (pull nm τ) = true then t.1 else 0) ∘ fun b =>
        (ratio * P.selA.getD b 0 - P.realA.getD b 0, RectSearch.pos (RectSearch.Var.sel b))) := by
    apply List.map_congr_left
    intro b _
    simp only [Function.comp, RectSearch.eval_pos, pull]
  rw [this]

theorem objIneq_holds (τ : Sat.Var → Bool) (P : RectSearch.Problem α) (ratio dif0 : Int) :
    (objIneq nm P ratio dif0).holds τ ↔ dif0 ≤ RectSearch.pbSum (pull nm τ) (RectSearch.objTerms P ratio) := by
  unfold objIneq
  rw [geIneq_holds, objExpr_eval]

/-- every variable of `selarea` / `realarea` / `obj` is one of the `b_<b>` variables of the blocks -/
theorem areaExpr_sel (P : RectSearch.Problem α) (A : List Int) :
    ∀ y ∈ (areaExpr nm P A).t, ∃ b ∈ P.C.blocks, y.L.v = trVar nm (.sel b) :=
  foldl_term_vars (fun v => ∃ b ∈ P.C.blocks, v = trVar nm (.sel b)) _ _ (by simp) (by
    intro t ht; obtain ⟨b, hb, rfl⟩ := List.mem_map.1 ht; exact ⟨b, hb, rfl⟩)

theorem objExpr_sel (P : RectSearch.Problem α) (ratio : Int) :
    ∀ y ∈ (objExpr nm P ratio).t, ∃ b ∈ P.C.blocks, y.L.v = trVar nm (.sel b) :=
  foldl_subTerm_vars (fun v => ∃ b ∈ P.C.blocks, v = trVar nm (.sel b)) _
    (mul_vars (fun v => ∃ b ∈ P.C.blocks, v = trVar nm (.sel b)) _ (areaExpr_sel nm P _)) (areaExpr_sel nm P _)

/-! ### everything `solve` posts, and posting it -/
section Posts
variable [LinearOrder α]

/-- the postings of `solve(carrier, ifile, ratio, dif, nboxes)` in min-error mode, in posting order -/
def solvePosts (P : RectSearch.Problem α) (ratio dif0 : Int) (k : Nat) : Option (List Sat.Post) :=
  (RectSearch.shapeConstrs P k).map fun sh =>
    (RectSearch.linkConstrs P k).map (trC nm) ++
      [trC nm (.atLeastOne (RectSearch.selLits P)), .pb (objIneq nm P ratio dif0) false] ++
      sh.map (trC nm) ++ (RectSearch.exclConstrs P k).map (trC nm)

theorem solvePosts_spec {P : RectSearch.Problem α} {ratio dif0 : Int} {k : Nat} {cs : List (RectSearch.Constr α)}
    (h : RectSearch.solveConstrs P ratio dif0 k = some cs) :
    ∃ ps, solvePosts nm P ratio dif0 k = some ps ∧ (∀ p ∈ ps, p.WF ∧ Acceptable p) ∧
      ∀ τ : Sat.Var → Bool, (∀ p ∈ ps, p.holds τ) ↔ RectSearch.Sat (pull nm τ) cs := by
  obtain ⟨sh, hsh, rfl⟩ := RectSearch.solveConstrs_eq_some.1 h
  refine ⟨(RectSearch.linkConstrs P k).map (trC nm) ++
      [trC nm (.atLeastOne (RectSearch.selLits P)), .pb (objIneq nm P ratio dif0) false] ++
      sh.map (trC nm) ++ (RectSearch.exclConstrs P k).map (trC nm), by simp [solvePosts, hsh], ?_, fun τ => ?_⟩
  · intro p hp
    simp only [List.mem_append, List.mem_map, List.mem_cons, List.not_mem_nil, or_false] at hp
    rcases hp with ((⟨c, _, rfl⟩ | rfl | rfl) | ⟨c, _, rfl⟩) | ⟨c, _, rfl⟩
    · exact ⟨trC_wf nm c, trC_acceptable nm c⟩
    · exact ⟨trC_wf nm _, trC_acceptable nm _⟩
    · exact ⟨objIneq_wf nm P ratio dif0, geIneq_op _ _⟩
    · exact ⟨trC_wf nm c, trC_acceptable nm c⟩
    · exact ⟨trC_wf nm c, trC_acceptable nm c⟩
  · have hmap : ∀ l : List (RectSearch.Constr α), (∀ p ∈ l.map (trC nm), p.holds τ) ↔ RectSearch.Sat (pull nm τ) l := by
      intro l
      simp only [List.mem_map, forall_exists_index, and_imp, forall_apply_eq_imp_iff₂, RectSearch.Sat, trC_holds]
    have hobj : (Sat.Post.pb (objIneq nm P ratio dif0) false).holds τ ↔
        dif0 ≤ RectSearch.pbSum (pull nm τ) (RectSearch.objTerms P ratio) := objIneq_holds nm τ P ratio dif0
    simp only [List.forall_mem_append, hmap, RectSearch.sat_append, RectSearch.sat_cons, RectSearch.sat_nil,
      and_true, List.mem_cons, List.not_mem_nil, or_false, forall_eq_or_imp, forall_eq, trC_holds,
      hobj, RectSearch.holds_pbGe]

end Posts

/-- post a list of constraints one after the other (any refusal aborts) -/
def postAll : Sat.Mgr → Store Sat.Var → List Sat.Post → Except Sat.Err (Sat.Mgr × Store Sat.Var)
  | m, S, [] => .ok (m, S)
  | m, S, p :: ps =>
    match m.post S p with
    | .ok (m1, S1) => postAll m1 S1 ps
    | .error e => .error e

/-- a manager that has posted nothing yet (its registered variables are arbitrary) encodes the empty list -/
theorem minv_fresh {S : Store Sat.Var} (hw : WFStore S) (m0 : Sat.Mgr) (hc : m0.clauses = []) (hd : m0.codified = []) :
    Sat.MInv S m0 [] where
  wf := hw
  cod := by intro j hj; simp [hd] at hj
  coduser := by intro j hj; simp [hd] at hj
  mentions := by intro c hc'; simp [hc] at hc'
  sound := by intro τ _ p hp; simp at hp
  complete := by
    intro σ _
    exact ⟨σ, fun _ _ => rfl, by intro j hj; simp [hd] at hj, by simp [cnfTrue, hc]⟩

theorem postAll_ok : ∀ (ps : List Sat.Post) {S : Store Sat.Var} {m : Sat.Mgr} {qs : List Sat.Post}, Sat.MInv S m qs →
    (∀ p ∈ ps, p.WF ∧ Acceptable p) → ∃ m' S', postAll m S ps = .ok (m', S') ∧ Sat.MInv S' m' (qs ++ ps)
  | [], S, m, qs, h, _ => ⟨m, S, rfl, by simpa using h⟩
  | p :: ps, S, m, qs, h, hps => by
    have hp := hps p (by simp)
    cases hr : m.post S p with
    | error e =>
      exfalso
      rcases C07.refused_only h p hp.1 hr with ⟨k, lst, rfl, hk⟩ | ⟨q, dec, rfl, hop, _⟩
      · have : (3 : Int) ≤ k := hp.2
        omega
      · exact hop hp.2
    | ok r =>
      obtain ⟨m1, S1⟩ := r
      have h1 := Sat.minv_post h p hp.1 hr
      obtain ⟨m', S', hpost, hinv⟩ := postAll_ok ps h1 (fun p' hp' => hps p' (by simp [hp']))
      refine ⟨m', S', by simp [postAll, hr, hpost], ?_⟩
      simpa [List.append_assoc] using hinv

/-- the clause list of a manager that encodes `ps`: an assignment of the user variables extends to a model iff it
    satisfies `ps` (C07 `post_history_exact`, for a manager whose variables were registered beforehand) -/
theorem minv_models {S : Store Sat.Var} {m : Sat.Mgr} {ps : List Sat.Post} (inv : Sat.MInv S m ps) (hps : ∀ p ∈ ps, p.WF)
    (σ : Sat.Var → Bool) :
    (∃ τ, (∀ v, Sat.isUser v → τ v = σ v) ∧ cnfTrue τ m.clauses) ↔ ∀ p ∈ ps, p.holds σ := by
  constructor
  · rintro ⟨τ, hag, hτ⟩ p hp
    exact (Sat.holds_congr (hps p hp) hag).1 (inv.sound τ hτ p hp)
  · intro hσ
    obtain ⟨τ, h1, _, h3⟩ := inv.complete σ hσ
    exact ⟨τ, h1, h3⟩

open Classical in
/-- an assignment of the SAT-layer variables that restricts to a given assignment of the C08 variables -/
noncomputable def push (σ : RectSearch.Assign α) : Sat.Var → Bool
  | .user s => if h : ∃ v, nm v = s then σ (Classical.choose h) else false
  | _ => false

theorem pull_push (hinj : Function.Injective nm) (σ : RectSearch.Assign α) : pull nm (push nm σ) = σ := by
  funext v
  have h : ∃ w, nm w = nm v := ⟨v, rfl⟩
  simp only [pull, trVar, push, h, dite_true]
  rw [hinj (Classical.choose_spec h)]

theorem postAll_nodup : ∀ (ps : List Sat.Post) {S S' : Store Sat.Var} {m m' : Sat.Mgr},
    postAll m S ps = .ok (m', S') → m.vars.Nodup → m'.vars.Nodup
  | [], S, S', m, m', h, hnd => by simp [postAll] at h; rw [← h.1]; exact hnd
  | p :: ps, S, S', m, m', h, hnd => by
    cases hr : m.post S p with
    | error e => simp [postAll, hr] at h
    | ok r =>
      obtain ⟨m1, S1⟩ := r
      simp only [postAll, hr] at h
      exact postAll_nodup ps h (Sat.post_nodup hr hnd)

/-- `sm.imply(l1, l2)` and `sm.add_clause` of the clause `¬l1 ∨ l2` lead to the same manager state -/
theorem post_imply_eq_clause (m : Sat.Mgr) (S : Store Sat.Var) (l1 : List Sat.Lit) (l2 : Sat.Lit) :
    m.post S (.imply l1 l2) = m.post S (.clause (l1.map Literal.neg ++ [l2])) := rfl

theorem trLit_not (l : RectSearch.Lit α) : trLit nm l.not = (trLit nm l).neg := rfl

/-! ### the variable names of `rect.py` -/
section Naming

abbrev D (n : Nat) : List Char := Nat.toDigits 10 n

theorem toString_toList (n : Nat) : (toString n).toList = D n := by simp [toString, Nat.repr]

theorem D_inj {i j : Nat} (h : D i = D j) : i = j := by
  apply Nat.repr_injective
  apply String.toList_inj.1
  have h1 := toString_toList i
  have h2 := toString_toList j
  simp only [toString] at h1 h2
  rw [h1, h2, h]

theorem D_digit {n : Nat} {c : Char} (h : c ∈ D n) : c.isDigit = true :=
  Nat.isDigit_of_mem_toDigits (by decide) (by decide) h

theorem D_cons (n : Nat) : ∃ c r, D n = c :: r ∧ c.isDigit = true := by
  cases h : D n with
  | nil => exact absurd h Nat.toDigits_ne_nil
  | cons c r => exact ⟨c, r, rfl, D_digit (by rw [h]; simp)⟩

/-- a digit string followed by `_` splits in one way only -/
theorem split_digits : ∀ (d1 d2 r1 r2 : List Char), (∀ c ∈ d1, c.isDigit = true) → (∀ c ∈ d2, c.isDigit = true) →
    d1 ++ '_' :: r1 = d2 ++ '_' :: r2 → d1 = d2 ∧ r1 = r2
  | [], [], r1, r2, _, _, h => by simpa using h
  | [], c :: d2, r1, r2, _, h2, h => by
    simp at h; have := h2 c (by simp); rw [← h.1] at this; exact absurd this (by decide)
  | c :: d1, [], r1, r2, h1, _, h => by
    simp at h; have := h1 c (by simp); rw [h.1] at this; exact absurd this (by decide)
  | c :: d1, c' :: d2, r1, r2, h1, h2, h => by
    simp only [List.cons_append, List.cons.injEq] at h
    obtain ⟨e1, e2⟩ := split_digits d1 d2 r1 r2 (fun x hx => h1 x (by simp [hx])) (fun x hx => h2 x (by simp [hx])) h.2
    exact ⟨by rw [h.1, e1], e2⟩

/-- the part of a name after the leading `b` -/
def restL (str : α → String) : RectSearch.Var α → List Char
  | .sel b => '_' :: D b
  | .cell i b => D i ++ '_' :: D b
  | .lilx i x => D i ++ '_' :: 'x' :: '_' :: (str x).toList
  | .bigx i x => D i ++ '_' :: 'X' :: '_' :: (str x).toList
  | .lily i y => D i ++ '_' :: 'y' :: '_' :: (str y).toList
  | .bigy i y => D i ++ '_' :: 'Y' :: '_' :: (str y).toList
  | .dir i d => D i ++ '_' :: (dirName d).toList

theorem pyName_toList (str : α → String) (v : RectSearch.Var α) : (pyName str v).toList = 'b' :: restL str v := by
  cases v <;> simp [pyName, restL, String.toList_append, toString_toList]

/-- every generated name starts with `b`: it is never `robdd_<n>`, `aux_<n>` nor a negated name `-…` -/
theorem pyName_head (str : α → String) (v : RectSearch.Var α) : (pyName str v).toList.head? = some 'b' := by
  rw [pyName_toList]; rfl

/-- what follows `b<i>_` -/
def tailL (str : α → String) : RectSearch.Var α → List Char
  | .sel b => D b
  | .cell _ b => D b
  | .lilx _ x => 'x' :: '_' :: (str x).toList
  | .bigx _ x => 'X' :: '_' :: (str x).toList
  | .lily _ y => 'y' :: '_' :: (str y).toList
  | .bigy _ y => 'Y' :: '_' :: (str y).toList
  | .dir _ d => (dirName d).toList

def idxOf : RectSearch.Var α → Option Nat
  | .sel _ => none
  | .cell i _ | .lilx i _ | .bigx i _ | .lily i _ | .bigy i _ | .dir i _ => some i

theorem restL_eq (str : α → String) (v : RectSearch.Var α) :
    restL str v = match idxOf v with | none => '_' :: tailL str v | some i => D i ++ '_' :: tailL str v := by
  cases v <;> rfl

theorem dirName_inj {d e : RectSearch.Dir} (h : (dirName d).toList = (dirName e).toList) : d = e := by
  cases d <;> cases e <;> first | rfl | (exfalso; revert h; decide)

theorem dir_head (d : RectSearch.Dir) : ((dirName d).toList.head?).map Char.isDigit = some false := by
  cases d <;> decide

theorem dig_head (n : Nat) : ((D n).head?).map Char.isDigit = some true := by
  obtain ⟨c, r, hD, hc⟩ := D_cons n; rw [hD]; simp [hc]

theorem dir_not_digits (d : RectSearch.Dir) (n : Nat) : D n ≠ (dirName d).toList := fun h => by
  have := dig_head n; rw [h, dir_head] at this; cases this

theorem dir_second (d : RectSearch.Dir) : ((dirName d).toList.drop 1).head? ≠ some '_' := by
  cases d <;> decide

theorem letter_not_dir (c : Char) (t : List Char) (d : RectSearch.Dir) : c :: '_' :: t ≠ (dirName d).toList := fun h => by
  have := dir_second d; rw [← h] at this; exact this rfl

/-- the naming of `rect.py` is injective as soon as `str` is injective on coordinates -/
theorem pyName_injective (str : α → String) (hstr : Function.Injective str) : Function.Injective (pyName str) := by
  intro v w h
  have hl : restL str v = restL str w := by
    have := congrArg String.toList h
    rw [pyName_toList, pyName_toList] at this
    exact (List.cons.inj this).2
  rw [restL_eq, restL_eq] at hl
  -- same box index (or both `b_…`), same tail
  have key : idxOf v = idxOf w ∧ tailL str v = tailL str w := by
    cases hv : idxOf v with
    | none =>
      cases hw : idxOf w with
      | none => rw [hv, hw] at hl; exact ⟨rfl, (List.cons.inj hl).2⟩
      | some j =>
        rw [hv, hw] at hl
        obtain ⟨c, r, hD, hc⟩ := D_cons j
        simp only [hD, List.cons_append, List.cons.injEq] at hl
        rw [← hl.1] at hc; exact absurd hc (by decide)
    | some i =>
      cases hw : idxOf w with
      | none =>
        rw [hv, hw] at hl
        obtain ⟨c, r, hD, hc⟩ := D_cons i
        simp only [hD, List.cons_append, List.cons.injEq] at hl
        rw [hl.1] at hc; exact absurd hc (by decide)
      | some j =>
        rw [hv, hw] at hl
        obtain ⟨e1, e2⟩ := split_digits _ _ _ _ (fun c hc => D_digit hc) (fun c hc => D_digit hc) hl
        exact ⟨by rw [D_inj e1], e2⟩
  obtain ⟨hi, ht⟩ := key
  have strinj : ∀ {x y : α}, (str x).toList = (str y).toList → x = y := fun h => hstr (String.toList_inj.1 h)
  have digit_ne : ∀ (n : Nat) (c : Char) (r : List Char), c.isDigit = false → D n ≠ c :: r := by
    intro n c r hc h
    obtain ⟨c', r', hD, hc'⟩ := D_cons n
    rw [hD] at h
    rw [(List.cons.inj h).1] at hc'
    rw [hc] at hc'; cases hc'
  cases v <;> cases w <;> simp only [idxOf, Option.some.injEq, tailL, reduceCtorEq] at hi ht <;>
    first
    | (subst hi; rw [D_inj ht]; done)
    | (rw [D_inj ht]; done)
    | (subst hi; rw [strinj (List.cons.inj (List.cons.inj ht).2).2]; done)
    | (subst hi; rw [dirName_inj ht]; done)
    | (exfalso; exact digit_ne _ _ _ (by decide) ht)
    | (exfalso; exact digit_ne _ _ _ (by decide) ht.symm)
    | (exfalso; exact dir_not_digits _ _ ht)
    | (exfalso; exact dir_not_digits _ _ ht.symm)
    | (exfalso; exact absurd (List.cons.inj ht).1 (by decide))
    | (exfalso; exact letter_not_dir _ _ _ ht)
    | (exfalso; exact letter_not_dir _ _ _ ht.symm)

end Naming

/-- the variables a posting mentions (used to register them beforehand, as `rect.py` does through `newvar`) -/
def postVars : Sat.Post → List Sat.Var
  | .clause c => c.map (·.v)
  | .imply l1 l2 => l1.map (·.v) ++ [l2.v]
  | .amoQ l => l.map (·.v)
  | .amoH _ l => l.map (·.v)
  | .pb q _ => q.lhs.t.map (·.L.v)

/-- a manager in which every variable of the postings `ps` is registered and nothing is posted yet -/
def registered (ps : List Sat.Post) : Sat.Mgr := { vars := (ps.flatMap postVars).eraseDups }

/-! ### the value `solve` returns, read off `value()` / `evalexpr()` -/
section Return
variable [LinearOrder α]

theorem foldl_congr_mem {β γ : Type} (f g : β → γ → β) : ∀ (l : List γ) (init : β),
    (∀ a ∈ l, ∀ acc, f acc a = g acc a) → l.foldl f init = l.foldl g init
  | [], _, _ => rfl
  | a :: r, init, h => by
    simp only [List.foldl_cons]
    rw [h a (by simp) init]
    exact foldl_congr_mem f g r _ (fun x hx acc => h x (by simp [hx]) acc)

theorem mem_cellsOf_block {C : RectSearch.Coords α} {ip : List (RectSearch.Cell α)} {bc : Nat × RectSearch.Cell α}
    (h : bc ∈ RectSearch.cellsOf C ip) : bc.1 ∈ C.blocks := by
  simp only [RectSearch.cellsOf, List.mem_filterMap] at h
  obtain ⟨b, hb, hx⟩ := h
  cases hc : ip[b]? with
  | none => simp [hc] at hx
  | some c => simp [hc] at hx; rw [← hx]; exact hb

/-- `value` agrees with the assignment `τ` on the variables `b_<b>`, `b<i>_<b>` of the blocks, in both polarities -/
def ValAgrees (m : Sat.Mgr) (τ : Sat.Var → Bool) (P : RectSearch.Problem α) : Prop :=
  ∀ b ∈ P.C.blocks, (∀ s, m.value ⟨trVar nm (.sel b), s⟩ = some (litVal τ ⟨trVar nm (.sel b), s⟩)) ∧
    ∀ i s, m.value ⟨trVar nm (.cell i b), s⟩ = some (litVal τ ⟨trVar nm (.cell i b), s⟩)

theorem bboxFromMgr_eq {m : Sat.Mgr} {τ : Sat.Var → Bool} {P : RectSearch.Problem α} (h : ValAgrees nm m τ P) (i : Nat) :
    bboxFromMgr nm m P.C P.ip i = RectSearch.bboxOf P.C P.ip (pull nm τ) i := by
  unfold bboxFromMgr RectSearch.bboxOf
  apply foldl_congr_mem
  intro bc hbc acc
  have hv := (h bc.1 (mem_cellsOf_block hbc)).2 i true
  have h1 : (m.value ⟨trVar nm (.cell i bc.1), true⟩ = some 1) ↔ pull nm τ (.cell i bc.1) = true := by
    rw [Sat.value_one_iff hv]; simp [litTrue, pull]
  by_cases hc : pull nm τ (.cell i bc.1) = true
  · rw [if_pos (h1.2 hc), if_pos hc]
  · rw [if_neg (fun hh => hc (h1.1 hh)), if_neg hc]

theorem evalExpr_of_sel {m : Sat.Mgr} {τ : Sat.Var → Bool} {P : RectSearch.Problem α} (h : ValAgrees nm m τ P)
    (e : Expr Sat.Var) (he : ∀ y ∈ e.t, ∃ b ∈ P.C.blocks, y.L.v = trVar nm (.sel b)) : m.evalExpr e = some (e.eval τ) := by
  apply Sat.evalExpr_spec
  intro t ht
  obtain ⟨b, hb, hv⟩ := he t ht
  have := (h b hb).1 t.L.s
  rw [← hv] at this
  cases hL : t.L with
  | mk v s => rw [hL] at this; exact this

/-- when `value` comes from an assignment, what `solve` returns is what the clause-level model returns for it -/
theorem solveReturn_eq {m : Sat.Mgr} {τ : Sat.Var → Bool} {P : RectSearch.Problem α} (h : ValAgrees nm m τ P)
    (ratio : Int) (k : Nat) :
    solveReturn nm P ratio k true m =
      .found (RectSearch.pbSum (pull nm τ) (RectSearch.objTerms P ratio) + 1)
        ((List.range k).map fun i => RectSearch.bboxOf P.C P.ip (pull nm τ) i) := by
  unfold solveReturn
  rw [evalExpr_of_sel nm h _ (areaExpr_sel nm P _), evalExpr_of_sel nm h _ (areaExpr_sel nm P _),
    evalExpr_of_sel nm h _ (objExpr_sel nm P ratio), objExpr_eval]
  simp only [Bool.true_eq_false, if_false]
  congr 1
  apply List.map_congr_left
  intro i _
  exact bboxFromMgr_eq nm h i

end Return

end FV.RectSat

import FV.Model.NetlistStog
import FV.Proofs.NetlistRT
import FV.Proofs.Stog
/-
  The STOG parameter of the netlist model instantiated with the C06 model of `create_stog`:
  `stogC06` (FV/Model/NetlistStog.lean) satisfies `StogPerm` and `StogStable`, and on the plain rectangles it is
  `Stog.createStog`.

  Stability (`create_stog` run again on its own output, roles forgotten, changes nothing): after the first run the
  chosen trunk sits at index 0.  On the re-scan index 0 is a valid trunk; every rectangle that was scanned before
  the first-run trunk and is a valid trunk is strictly smaller than it (the areas of successive `best_trunk`s
  increase strictly), so it stops the loop (`break`) or, being larger, is not a valid trunk; behind the old trunk
  position the loop sees what it saw the first time.  Hence index 0 is chosen, the swap is the identity and the
  relabelling assigns the same roles.
-/
namespace FV.NL
open FV FV.Stog
set_option linter.unusedSectionVars false
set_option linter.unusedVariables false
set_option linter.unusedSimpArgs false

variable {α : Type} [Field α] [LinearOrder α] [IsStrictOrderedRing α]

/-! ### the candidate loop with a fixed `best_trunk` -/

/-- from a `best_trunk` of area `a` the loop over `items` never takes a new trunk: each item either stops the loop
    (`area ≤ a`: `break`) or is not a valid trunk. -/
def Stay (ε εA : α) (rs : List (Rect α)) : List (Rect α × Nat) → α → Prop
  | [], _ => True
  | (t, i) :: rest, a => t.area ≤ a ∨ (validTrunk ε εA rs i t = false ∧ Stay ε εA rs rest a)

theorem scan_stay {ε εA : α} {rs : List (Rect α)} {items : List (Rect α × Nat)} {i : Nat} {t : Rect α}
    (h : Stay ε εA rs items t.area) : scan ε εA rs items (some (i, t)) = some (i, t) := by
  induction items with
  | nil => rfl
  | cons x rest ih =>
    obtain ⟨u, j⟩ := x
    unfold scan
    simp only
    rcases h with h | ⟨hv, hr⟩
    · simp [h]
    · by_cases hb : u.area ≤ t.area
      · simp [hb]
      · simp [hb, hv, ih hr]

theorem stay_append {ε εA : α} {rs : List (Rect α)} {l1 l2 : List (Rect α × Nat)} {a : α}
    (h1 : ∀ x ∈ l1, a < x.1.area → validTrunk ε εA rs x.2 x.1 = false) (h2 : Stay ε εA rs l2 a) :
    Stay ε εA rs (l1 ++ l2) a := by
  induction l1 with
  | nil => exact h2
  | cons x rest ih =>
    obtain ⟨u, j⟩ := x
    simp only [List.cons_append, Stay]
    by_cases hb : u.area ≤ a
    · exact Or.inl hb
    · exact Or.inr ⟨h1 (u, j) List.mem_cons_self (not_le.mp hb), ih (fun x hx => h1 x (List.mem_cons_of_mem _ hx))⟩

theorem stay_congr {ε εA : α} {rs rs' : List (Rect α)} {items : List (Rect α × Nat)} {a : α}
    (hc : ∀ x ∈ items, validTrunk ε εA rs' x.2 x.1 = validTrunk ε εA rs x.2 x.1) (h : Stay ε εA rs items a) :
    Stay ε εA rs' items a := by
  induction items with
  | nil => trivial
  | cons x rest ih =>
    obtain ⟨u, j⟩ := x
    simp only [Stay] at h ⊢
    rcases h with h | ⟨hv, hr⟩
    · exact Or.inl h
    · refine Or.inr ⟨?_, ih (fun x hx => hc x (List.mem_cons_of_mem _ hx)) hr⟩
      rw [hc (u, j) List.mem_cons_self]; exact hv

/-- the `break` test of the loop. -/
def brkB (best : Option (Nat × Rect α)) (u : Rect α) : Bool :=
  match best with
  | some (_, b) => decide (u.area ≤ b.area)
  | none => false

theorem scan_cons (ε εA : α) (rs : List (Rect α)) (u : Rect α) (i : Nat) (rest : List (Rect α × Nat))
    (best : Option (Nat × Rect α)) :
    scan ε εA rs ((u, i) :: rest) best =
      if brkB best u = true then best
      else if validTrunk ε εA rs i u = true then scan ε εA rs rest (some (i, u)) else scan ε εA rs rest best := by
  cases best with
  | none => rfl
  | some p => rfl

theorem brkB_false {best : Option (Nat × Rect α)} {u : Rect α} (h : ¬ brkB best u = true) :
    ∀ p, best = some p → p.2.area < u.area := by
  intro p hp; subst hp
  obtain ⟨i, t⟩ := p
  simpa [brkB] using h

/-- the result of the loop is the incoming `best_trunk` or one of the items. -/
theorem scan_index {ε εA : α} {rs : List (Rect α)} {items : List (Rect α × Nat)} {best : Option (Nat × Rect α)}
    {j : Nat} {t : Rect α} (h : scan ε εA rs items best = some (j, t)) : best = some (j, t) ∨ (t, j) ∈ items := by
  induction items generalizing best with
  | nil => left; simpa [scan] using h
  | cons x rest ih =>
    obtain ⟨u, i⟩ := x
    rw [scan_cons] at h
    split at h
    · exact Or.inl h
    · split at h
      · rcases ih h with h' | h'
        · cases h'; exact Or.inr List.mem_cons_self
        · exact Or.inr (List.mem_cons_of_mem _ h')
      · rcases ih h with h' | h'
        · exact Or.inl h'
        · exact Or.inr (List.mem_cons_of_mem _ h')

/-- the converse of `scan_stay` when the index of `best_trunk` does not occur among the items. -/
theorem stay_of_scan {ε εA : α} {rs : List (Rect α)} {items : List (Rect α × Nat)} {b : Nat} {tb : Rect α}
    (hidx : ∀ x ∈ items, x.2 ≠ b) (h : scan ε εA rs items (some (b, tb)) = some (b, tb)) :
    Stay ε εA rs items tb.area := by
  induction items with
  | nil => trivial
  | cons x rest ih =>
    obtain ⟨u, i⟩ := x
    have hrest : ∀ x ∈ rest, x.2 ≠ b := fun x hx => hidx x (List.mem_cons_of_mem _ hx)
    have hi : i ≠ b := hidx (u, i) List.mem_cons_self
    rw [scan_cons] at h
    simp only [Stay]
    by_cases hb : u.area ≤ tb.area
    · exact Or.inl hb
    · right
      have hbr : ¬ brkB (some (b, tb)) u = true := by simpa [brkB] using hb
      rw [if_neg hbr] at h
      split at h
      · -- a new trunk was taken: the loop can no longer return the old one
        rcases scan_index h with h' | h'
        · cases h'; exact absurd rfl hi
        · exact absurd rfl (hrest _ h')
      · rename_i hv
        exact ⟨by simpa using hv, ih hrest h⟩

/-- FIRST RUN: if the loop over `pre ++ (tb, b) :: post` ends with `(b, tb)` (and `b` is the index of that item only),
    then `(tb, b)` is a valid trunk, every valid trunk among `pre` — and the incoming `best_trunk` — is strictly
    smaller than `tb`, and from `tb` the loop over `post` takes no new trunk. -/
theorem scan_first_run {ε εA : α} {rs : List (Rect α)} {pre post : List (Rect α × Nat)} {b : Nat} {tb : Rect α}
    {best : Option (Nat × Rect α)} (hpre : ∀ x ∈ pre, x.2 ≠ b) (hpost : ∀ x ∈ post, x.2 ≠ b)
    (hbest : ∀ p, best = some p → p.1 ≠ b)
    (h : scan ε εA rs (pre ++ (tb, b) :: post) best = some (b, tb)) :
    validTrunk ε εA rs b tb = true ∧ (∀ x ∈ pre, validTrunk ε εA rs x.2 x.1 = true → x.1.area < tb.area) ∧
      (∀ p, best = some p → p.2.area < tb.area) ∧ Stay ε εA rs post tb.area := by
  induction pre generalizing best with
  | nil =>
    simp only [List.nil_append] at h
    rw [scan_cons] at h
    split at h
    · -- break: the result is the incoming best, whose index is not b
      exact absurd rfl (hbest _ h)
    · rename_i hbrk
      split at h
      · rename_i hv
        exact ⟨hv, by simp, brkB_false hbrk, stay_of_scan hpost h⟩
      · rcases scan_index h with h' | h'
        · exact absurd rfl (hbest _ h')
        · exact absurd rfl (hpost _ h')
  | cons x rest ih =>
    obtain ⟨u, i⟩ := x
    have hrest : ∀ x ∈ rest, x.2 ≠ b := fun x hx => hpre x (List.mem_cons_of_mem _ hx)
    have hi : i ≠ b := hpre (u, i) List.mem_cons_self
    simp only [List.cons_append] at h
    rw [scan_cons] at h
    split at h
    · exact absurd rfl (hbest _ h)
    · rename_i hbrk
      split at h
      · rename_i hv
        obtain ⟨k1, k2, k3, k4⟩ := ih hrest (fun p hp => by cases hp; exact hi) h
        have hu : u.area < tb.area := k3 (i, u) rfl
        refine ⟨k1, ?_, ?_, k4⟩
        · intro x hx hvx
          rcases List.mem_cons.mp hx with rfl | hx
          · exact hu
          · exact k2 x hx hvx
        · intro p hp
          exact lt_trans (brkB_false hbrk p hp) hu
      · rename_i hv
        obtain ⟨k1, k2, k3, k4⟩ := ih hrest hbest h
        refine ⟨k1, ?_, k3, k4⟩
        intro x hx hvx
        rcases List.mem_cons.mp hx with rfl | hx
        · exact absurd hvx hv
        · exact k2 x hx hvx

/-! ### validity of a trunk candidate before and after the swap -/

/-- the per-rectangle test of `validTrunk`. -/
def cOK (ε εA : α) (i : Nat) (t : Rect α) (x : Rect α × Nat) : Bool :=
  x.2 == i || findLocation ε εA t x.1 != .nopoly

theorem validTrunk_eq_all (ε εA : α) (rs : List (Rect α)) (i : Nat) (t : Rect α) :
    validTrunk ε εA rs i t = rs.zipIdx.all (cOK ε εA i t) := by
  unfold validTrunk
  congr 1

/-- `validTrunk` on a list of the shape `x0 :: mid ++ xb :: q`. -/
theorem valid_shape (ε εA : α) (x0 xb : Rect α) (mid q : List (Rect α)) (i : Nat) (t : Rect α) :
    validTrunk ε εA (x0 :: mid ++ xb :: q) i t =
      (cOK ε εA i t (x0, 0) && ((mid.zipIdx 1).all (cOK ε εA i t) &&
        (cOK ε εA i t (xb, 1 + mid.length) && (q.zipIdx (1 + mid.length + 1)).all (cOK ε εA i t)))) := by
  rw [validTrunk_eq_all]
  simp only [List.cons_append, List.zipIdx_cons, List.zipIdx_append, List.all_cons, List.all_append, Nat.zero_add]

theorem all_congr_mem {β : Type} {f g : β → Bool} {l : List β} (h : ∀ x ∈ l, f x = g x) : l.all f = l.all g := by
  induction l with
  | nil => rfl
  | cons x xs ih =>
    simp only [List.all_cons, h x List.mem_cons_self, ih (fun y hy => h y (List.mem_cons_of_mem _ hy))]

theorem all_cOK_congr (ε εA : α) (t : Rect α) (i i' : Nat) (l : List (Rect α)) (n : Nat)
    (h : ∀ j, n ≤ j → j < n + l.length → j ≠ i ∧ j ≠ i') :
    (l.zipIdx n).all (cOK ε εA i t) = (l.zipIdx n).all (cOK ε εA i' t) := by
  apply all_congr_mem
  rintro ⟨y, j⟩ hy
  obtain ⟨h1, h2, _⟩ := List.mem_zipIdx hy
  obtain ⟨h3, h4⟩ := h j h1 h2
  have e1 : (j == i) = false := by simpa using h3
  have e2 : (j == i') = false := by simpa using h4
  simp only [cOK, e1, e2]

section swapvalid
variable (ε εA : α) (r0 tb : Rect α) (p1 q : List (Rect α))

/-- the first-run trunk, now at index 0, is as valid as it was at index `b`. -/
theorem valid_swap_trunk :
    validTrunk ε εA (tb :: p1 ++ r0 :: q) 0 tb = validTrunk ε εA (r0 :: p1 ++ tb :: q) (1 + p1.length) tb := by
  rw [valid_shape, valid_shape]
  rw [all_cOK_congr ε εA tb 0 (1 + p1.length) p1 1 (by intro j h1 h2; omega),
    all_cOK_congr ε εA tb 0 (1 + p1.length) q (1 + p1.length + 1) (by intro j h1 h2; omega)]
  have e1 : cOK ε εA 0 tb (tb, 0) = true := by simp [cOK]
  have e2 : cOK ε εA (1 + p1.length) tb (tb, 1 + p1.length) = true := by simp [cOK]
  have e3 : cOK ε εA 0 tb (r0, 1 + p1.length) = cOK ε εA (1 + p1.length) tb (r0, 0) := by
    have : (1 + p1.length == 0) = false := by simp
    have h' : (0 == 1 + p1.length) = false := by simp; omega
    simp [cOK, this, h']
  rw [e1, e2, e3]
  generalize cOK ε εA (1 + p1.length) tb (r0, 0) = A
  generalize (p1.zipIdx 1).all (cOK ε εA (1 + p1.length) tb) = B
  generalize (q.zipIdx (1 + p1.length + 1)).all (cOK ε εA (1 + p1.length) tb) = C
  cases A <;> cases B <;> cases C <;> rfl

/-- the rectangle that was at index 0, now at index `b`. -/
theorem valid_swap_first :
    validTrunk ε εA (tb :: p1 ++ r0 :: q) (1 + p1.length) r0 = validTrunk ε εA (r0 :: p1 ++ tb :: q) 0 r0 := by
  rw [valid_shape, valid_shape]
  rw [all_cOK_congr ε εA r0 (1 + p1.length) 0 p1 1 (by intro j h1 h2; omega),
    all_cOK_congr ε εA r0 (1 + p1.length) 0 q (1 + p1.length + 1) (by intro j h1 h2; omega)]
  have e1 : cOK ε εA 0 r0 (r0, 0) = true := by simp [cOK]
  have e2 : cOK ε εA (1 + p1.length) r0 (r0, 1 + p1.length) = true := by simp [cOK]
  have e3 : cOK ε εA (1 + p1.length) r0 (tb, 0) = cOK ε εA 0 r0 (tb, 1 + p1.length) := by
    have : (1 + p1.length == 0) = false := by simp
    have h' : (0 == 1 + p1.length) = false := by simp; omega
    simp [cOK, this, h']
  rw [e1, e2, e3]
  generalize cOK ε εA 0 r0 (tb, 1 + p1.length) = A
  generalize (p1.zipIdx 1).all (cOK ε εA 0 r0) = B
  generalize (q.zipIdx (1 + p1.length + 1)).all (cOK ε εA 0 r0) = C
  cases A <;> cases B <;> cases C <;> rfl

/-- a rectangle that keeps its index (`j ∉ {0, b}`). -/
theorem valid_swap_other (j : Nat) (y : Rect α) (h0 : j ≠ 0) (hb : j ≠ 1 + p1.length) :
    validTrunk ε εA (tb :: p1 ++ r0 :: q) j y = validTrunk ε εA (r0 :: p1 ++ tb :: q) j y := by
  rw [valid_shape, valid_shape]
  have e0 : (0 == j) = false := by simp; omega
  have eb : (1 + p1.length == j) = false := by simp; omega
  simp only [cOK, e0, eb, Bool.false_or]
  generalize (findLocation ε εA y tb != Loc.nopoly) = A
  generalize (findLocation ε εA y r0 != Loc.nopoly) = B
  generalize (p1.zipIdx 1).all _ = C
  generalize (q.zipIdx (1 + p1.length + 1)).all _ = D
  cases A <;> cases B <;> cases C <;> cases D <;> rfl

end swapvalid

/-! ### the second run -/

/-- SECOND RUN: if the loop chose index `b = 1 + |p1|` in `r0 :: p1 ++ tb :: q`, then in the swapped list
    `tb :: p1 ++ r0 :: q` it chooses index 0. -/
theorem scan_second_run (ε εA : α) (r0 tb : Rect α) (p1 q : List (Rect α))
    (h : scan ε εA (r0 :: p1 ++ tb :: q) (r0 :: p1 ++ tb :: q).zipIdx none = some (1 + p1.length, tb)) :
    scan ε εA (tb :: p1 ++ r0 :: q) (tb :: p1 ++ r0 :: q).zipIdx none = some (0, tb) := by
  have hz : (r0 :: p1 ++ tb :: q).zipIdx =
      ((r0, 0) :: p1.zipIdx 1) ++ (tb, 1 + p1.length) :: q.zipIdx (1 + p1.length + 1) := by
    simp only [List.cons_append, List.zipIdx_cons, List.zipIdx_append, Nat.zero_add]
  have hz' : (tb :: p1 ++ r0 :: q).zipIdx =
      (tb, 0) :: ((p1.zipIdx 1 ++ [(r0, 1 + p1.length)]) ++ q.zipIdx (1 + p1.length + 1)) := by
    simp only [List.cons_append, List.zipIdx_cons, List.zipIdx_append, Nat.zero_add, List.append_assoc,
      List.nil_append]
  rw [hz] at h
  have hpre : ∀ x ∈ (r0, 0) :: p1.zipIdx 1, x.2 ≠ 1 + p1.length := by
    rintro ⟨y, j⟩ hx
    rcases List.mem_cons.mp hx with hx | hx
    · cases hx; simp only; omega
    · obtain ⟨h1, h2, _⟩ := List.mem_zipIdx hx; simp only; omega
  have hpost : ∀ x ∈ q.zipIdx (1 + p1.length + 1), x.2 ≠ 1 + p1.length := by
    rintro ⟨y, j⟩ hx
    obtain ⟨h1, h2, _⟩ := List.mem_zipIdx hx; simp only; omega
  obtain ⟨k1, k2, _, k4⟩ := scan_first_run hpre hpost (by intro p hp; cases hp) h
  rw [hz', scan_cons]
  have hb0 : ¬ brkB (none : Option (Nat × Rect α)) tb = true := by simp [brkB]
  rw [if_neg hb0, valid_swap_trunk, k1]
  simp only [↓reduceIte]
  apply scan_stay
  apply stay_append
  · rintro ⟨y, j⟩ hx hlt
    simp only at hlt ⊢
    rcases List.mem_append.mp hx with hx | hx
    · obtain ⟨h1, h2, _⟩ := List.mem_zipIdx hx
      rw [valid_swap_other ε εA r0 tb p1 q j y (by omega) (by omega)]
      cases hv : validTrunk ε εA (r0 :: p1 ++ tb :: q) j y with
      | false => rfl
      | true =>
        have := k2 (y, j) (List.mem_cons_of_mem _ hx) hv
        exact absurd this (not_lt.mpr (le_of_lt hlt))
    · simp only [List.mem_singleton, Prod.mk.injEq] at hx
      obtain ⟨rfl, rfl⟩ := hx
      rw [valid_swap_first]
      cases hv : validTrunk ε εA (y :: p1 ++ tb :: q) 0 y with
      | false => rfl
      | true =>
        have := k2 (y, 0) List.mem_cons_self hv
        exact absurd this (not_lt.mpr (le_of_lt hlt))
  · refine stay_congr ?_ k4
    rintro ⟨y, j⟩ hx
    obtain ⟨h1, h2, _⟩ := List.mem_zipIdx hx
    exact valid_swap_other ε εA r0 tb p1 q j y (by omega) (by omega)

/-! ### the swap on lists -/

section swap
variable {β γ : Type}

theorem swap0_zero {l : List β} (h : l ≠ []) : swap0 l 0 = l := by
  cases l with
  | nil => exact absurd rfl h
  | cons x xs => simp [swap0]

theorem swap0_shape (x0 xb : β) (m q : List β) : swap0 (x0 :: m ++ xb :: q) (1 + m.length) = xb :: m ++ x0 :: q := by
  have h1 : (x0 :: m ++ xb :: q)[1 + m.length]? = some xb := by
    rw [Nat.add_comm]; simp
  have h0 : (x0 :: m ++ xb :: q)[0]? = some x0 := by simp
  simp only [swap0, h1, h0]
  rw [Nat.add_comm]
  simp

theorem swap0_map (f : β → γ) (l : List β) (b : Nat) : (swap0 l b).map f = swap0 (l.map f) b := by
  unfold swap0
  simp only [List.getElem?_map]
  cases l[b]? <;> cases l[0]? <;> simp [List.map_set]

theorem swap0_perm (l : List β) (b : Nat) : (swap0 l b).Perm l := by
  unfold swap0
  cases hb : l[b]? with
  | none => simp
  | some xb =>
    cases h0 : l[0]? with
    | none => simp
    | some x0 =>
      obtain ⟨hbl, rfl⟩ := List.getElem?_eq_some_iff.mp hb
      obtain ⟨h0l, rfl⟩ := List.getElem?_eq_some_iff.mp h0
      exact Stog.swap_perm l 0 b h0l hbl

/-- a list seen around its positions `0` and `b > 0`. -/
theorem split_at {l : List β} {b : Nat} (h0 : 0 < b) (hb : b < l.length) :
    ∃ x0 m q, l = x0 :: m ++ l[b] :: q ∧ b = 1 + m.length := by
  cases l with
  | nil => simp at hb
  | cons x0 l' =>
    obtain ⟨k, rfl⟩ : ∃ k, b = k + 1 := ⟨b - 1, by omega⟩
    have hk : k < l'.length := by simpa using hb
    refine ⟨x0, l'.take k, l'.drop (k + 1), ?_, ?_⟩
    · simp only [List.getElem_cons_succ, List.cons_append, List.cons.injEq, true_and]
      rw [List.getElem_cons_drop hk, List.take_append_drop]
    · simp [List.length_take, Nat.min_eq_left (le_of_lt hk)]; omega

end swap

/-! ### `stogC06` -/

@[simp] theorem resetLoc_resetLoc (r : NRect α) : r.resetLoc.resetLoc = r.resetLoc := rfl

theorem map_resetLoc_idem (l : List (NRect α)) : (l.map NRect.resetLoc).map NRect.resetLoc = l.map NRect.resetLoc := by
  simp [List.map_map, Function.comp_def]

theorem labelN_map_resetLoc (ε εA : α) (l : List (NRect α)) :
    (labelN ε εA l).map NRect.resetLoc = l.map NRect.resetLoc := by
  cases l with
  | nil => rfl
  | cons t others =>
    simp only [labelN, List.map_cons, List.map_map]
    congr 1

/-- `create_stog` on two or more rectangles. -/
theorem stogC06_eq (ε εA : α) {rs : List (NRect α)} (h : 2 ≤ rs.length) :
    stogC06 ε εA rs =
      match scan ε εA ((rs.map NRect.resetLoc).map NRect.toRect) ((rs.map NRect.resetLoc).map NRect.toRect).zipIdx none with
      | none => rs.map NRect.resetLoc
      | some (b, _) => labelN ε εA (swap0 (rs.map NRect.resetLoc) b) := by
  match rs, h with
  | a :: c :: tl, _ => rfl

theorem stogPerm_stogC06 (ε εA : α) : StogPerm (stogC06 ε εA) := by
  intro rs
  match rs with
  | [] => exact List.Perm.refl _
  | [r] => exact List.Perm.refl _
  | a :: c :: tl =>
    rw [stogC06_eq ε εA (by simp)]
    split
    · rw [map_resetLoc_idem]
    · rw [labelN_map_resetLoc, swap0_map, map_resetLoc_idem]
      exact swap0_perm _ _

/-- the candidate loop on the output of a first run picks index 0. -/
theorem scan_swap0 (ε εA : α) (R : List (Rect α)) (b : Nat) (tb : Rect α)
    (h : scan ε εA R R.zipIdx none = some (b, tb)) :
    scan ε εA (swap0 R b) (swap0 R b).zipIdx none = some (0, tb) := by
  have hgood := scan_good ε εA R R.zipIdx none (goodItems_zipIdx R) trivial
  rw [h] at hgood
  obtain ⟨hb, htb, _⟩ := hgood
  by_cases h0 : b = 0
  · subst h0
    rw [swap0_zero (by intro hn; rw [hn] at hb; simp at hb)]
    exact h
  · obtain ⟨x0, m, q, hR, hbm⟩ := split_at (Nat.pos_of_ne_zero h0) hb
    rw [← htb] at hR
    subst hbm
    rw [hR] at h ⊢
    rw [swap0_shape]
    exact scan_second_run ε εA x0 tb m q h

theorem stogStable_stogC06 (ε εA : α) : StogStable (stogC06 ε εA) := by
  intro rs
  match rs with
  | [] => rfl
  | [r] => rfl
  | a :: c :: tl =>
    have hlen : 2 ≤ (a :: c :: tl).length := by simp
    rw [stogC06_eq ε εA hlen]
    set l := (a :: c :: tl).map NRect.resetLoc with hl
    have hll : 2 ≤ l.length := by simp [hl]
    have hidem : l.map NRect.resetLoc = l := map_resetLoc_idem _
    cases hsc : scan ε εA (l.map NRect.toRect) (l.map NRect.toRect).zipIdx none with
    | none =>
      simp only
      rw [hidem, stogC06_eq ε εA hll, hidem, hsc]
    | some best =>
      obtain ⟨b, tb⟩ := best
      simp only
      have hl' : (swap0 l b).map NRect.resetLoc = swap0 l b := by rw [swap0_map, hidem]
      have hlen' : 2 ≤ (swap0 l b).length := by rw [(swap0_perm l b).length_eq]; exact hll
      rw [labelN_map_resetLoc, hl', stogC06_eq ε εA hlen', hl', swap0_map]
      rw [scan_swap0 ε εA _ b tb hsc]
      simp only
      rw [swap0_zero]
      intro hn
      rw [hn] at hlen'
      simp at hlen'

/-! ### `stogC06` is `Stog.createStog` on the plain rectangles -/

theorem toRect_resetLoc (r : NRect α) : r.resetLoc.toRect = eraseLoc r.toRect := rfl

theorem createStog_two (ε εA : α) (x y : Rect α) (zs : List (Rect α)) :
    createStog ε εA (x :: y :: zs) =
      match scan ε εA ((x :: y :: zs).map eraseLoc) ((x :: y :: zs).map eraseLoc).zipIdx none with
      | none => some (false, (x :: y :: zs).map eraseLoc)
      | some (b, rb) =>
        match (((x :: y :: zs).map eraseLoc).set 0 rb).set b (eraseLoc x) with
        | [] => none
        | t :: others =>
          some (true, { t with loc := .trunk } :: others.map fun r => { r with loc := findLocation ε εA t r }) := rfl

/-- on the plain rectangles `stogC06` computes exactly what the C06 model of `create_stog` leaves behind. -/
theorem stogC06_toRect (ε εA : α) (rs : List (NRect α)) (hne : rs ≠ []) :
    ∃ flag, createStog ε εA (rs.map NRect.toRect) = some (flag, (stogC06 ε εA rs).map NRect.toRect) := by
  match rs, hne with
  | [r], _ => exact ⟨true, rfl⟩
  | a :: c :: tl, _ =>
    have hlen : 2 ≤ (a :: c :: tl).length := by simp
    rw [stogC06_eq ε εA hlen]
    set l := (a :: c :: tl).map NRect.resetLoc with hl
    have hR : ((a :: c :: tl).map NRect.toRect).map eraseLoc = l.map NRect.toRect := by
      simp [hl, List.map_map, Function.comp_def, toRect_resetLoc]
    have hcs := createStog_two ε εA a.toRect c.toRect (tl.map NRect.toRect)
    have hm : a.toRect :: c.toRect :: tl.map NRect.toRect = (a :: c :: tl).map NRect.toRect := rfl
    rw [hm, hR] at hcs
    simp only [List.map_cons] at hcs ⊢
    rw [hcs]
    cases hsc : scan ε εA (l.map NRect.toRect) (l.map NRect.toRect).zipIdx none with
    | none => exact ⟨false, rfl⟩
    | some best =>
      obtain ⟨b, rb⟩ := best
      have hgood := scan_good ε εA _ _ none (goodItems_zipIdx (l.map NRect.toRect)) trivial
      rw [hsc] at hgood
      obtain ⟨hb, hrb, _⟩ := hgood
      have h0 : 0 < (l.map NRect.toRect).length := by simp [hl]
      have e0 : eraseLoc a.toRect = (l.map NRect.toRect)[0] := by simp [hl, toRect_resetLoc]
      have hsw : ((l.map NRect.toRect).set 0 rb).set b (eraseLoc a.toRect) = (swap0 l b).map NRect.toRect := by
        rw [swap0_map, hrb, e0]
        unfold swap0
        rw [List.getElem?_eq_getElem hb, List.getElem?_eq_getElem h0]
      simp only
      rw [hsw]
      have hne' : swap0 l b ≠ [] := by
        intro hn
        have := (swap0_perm l b).length_eq
        rw [hn] at this; simp [hl] at this
      cases hs : swap0 l b with
      | nil => exact absurd hs hne'
      | cons t others =>
        refine ⟨true, ?_⟩
        simp only [List.map_cons, labelN, List.map_map]
        rfl

end FV.NL

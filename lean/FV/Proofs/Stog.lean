import FV.Model.Stog
import FV.Proofs.Geom
import Mathlib.Algebra.Order.Group.Abs
import Mathlib.Algebra.Order.Ring.Abs
/-
  Helper lemmas for the STOG recogniser model (`FV/Model/Stog.lean`), property C06.
-/
namespace FV
namespace Stog
set_option linter.unusedSectionVars false
set_option linter.unusedSimpArgs false
set_option linter.unusedVariables false

open FV.Rect

/-! ### lists: swapping two positions is a permutation -/

theorem swap_perm {β : Type} (l : List β) (i j : Nat) (hi : i < l.length) (hj : j < l.length) :
    ((l.set i l[j]).set j l[i]).Perm l := by
  have := Array.swap_perm (xs := l.toArray) (i := i) (j := j) (by simpa using hi) (by simpa using hj)
  simpa [Array.swap, Array.perm_iff_toList_perm] using this

/-! ### `find_location` -/

variable {α : Type} [Field α] [LinearOrder α] [IsStrictOrderedRing α]

@[simp] theorem pyAbs_eq (x : α) : pyAbs x = |x| := by
  unfold pyAbs
  simp only [zero_eq]
  split
  · rw [abs_of_neg ‹_›]
  · rw [abs_of_nonneg (not_lt.mp ‹_›)]

theorem almostEq_iff (a b ε : α) : almostEq a b ε = true ↔ |a - b| < ε := by
  simp [almostEq]

/-- the role of a rectangle plays no part in `find_location`. -/
def eraseLoc (r : Rect α) : Rect α := { r with loc := .nopoly }

theorem findLocation_eraseLoc (ε εA : α) (t r : Rect α) :
    findLocation ε εA (eraseLoc t) (eraseLoc r) = findLocation ε εA t r := rfl

theorem findLocation_congr (ε εA : α) (t t' r r' : Rect α) (ht : eraseLoc t = eraseLoc t') (hr : eraseLoc r = eraseLoc r') :
    findLocation ε εA t r = findLocation ε εA t' r' := by
  rw [← findLocation_eraseLoc ε εA t r, ht, hr, findLocation_eraseLoc]

/-- `find_location` as a decision list over the facing-side tests and the extent tests. -/
theorem findLocation_eq (ε εA : α) (t r : Rect α) :
    findLocation ε εA t r =
      if εA < t.areaOverlap r then .nopoly
      else if |t.ymax - r.ymin| < ε then (if t.xmin - ε < r.xmin ∧ r.xmax < t.xmax + ε then .north else .nopoly)
      else if |t.ymin - r.ymax| < ε then (if t.xmin - ε < r.xmin ∧ r.xmax < t.xmax + ε then .south else .nopoly)
      else if |t.xmax - r.xmin| < ε then (if t.ymin - ε < r.ymin ∧ r.ymax < t.ymax + ε then .east else .nopoly)
      else if |t.xmin - r.xmax| < ε then (if t.ymin - ε < r.ymin ∧ r.ymax < t.ymax + ε then .west else .nopoly)
      else .nopoly := by
  unfold findLocation
  simp only [almostEq, pyAbs_eq, decide_eq_true_eq]
  split
  · rfl
  · by_cases h1 : |t.ymax - r.ymin| < ε
    · simp only [h1, ↓reduceIte]
    · by_cases h2 : |t.ymin - r.ymax| < ε
      · simp only [h1, h2, ↓reduceIte]
      · by_cases h3 : |t.xmax - r.xmin| < ε
        · simp only [h1, h2, h3, ↓reduceIte]
        · by_cases h4 : |t.xmin - r.xmax| < ε
          · simp only [h1, h2, h3, h4, ↓reduceIte]
          · simp only [h1, h2, h3, h4, ↓reduceIte]

theorem findLocation_ne_trunk (ε εA : α) (t r : Rect α) : findLocation ε εA t r ≠ .trunk := by
  rw [findLocation_eq]
  repeat' split
  all_goals simp

/-! ### the candidate loop -/

/-- the test `all(r is trunk or trunk.find_location(r) != NO_POLYGON for r in rectangles)`. -/
theorem validTrunk_iff (ε εA : α) (rs : List (Rect α)) (i : Nat) (t : Rect α) :
    validTrunk ε εA rs i t = true ↔
      ∀ j (hj : j < rs.length), j ≠ i → findLocation ε εA t rs[j] ≠ .nopoly := by
  unfold validTrunk
  rw [List.all_eq_true]
  constructor
  · intro h j hj hne
    have hm : (rs[j], j) ∈ rs.zipIdx := by
      rw [List.mem_zipIdx_iff_getElem?]; simp [hj]
    have := h _ hm
    simp only [Bool.or_eq_true, beq_iff_eq, bne_iff_ne, ne_eq] at this
    rcases this with c | c
    · exact absurd c hne
    · exact c
  · rintro h ⟨r, j⟩ hm
    rw [List.mem_zipIdx_iff_getElem?] at hm
    simp only at hm
    obtain ⟨hj, rfl⟩ := List.getElem?_eq_some_iff.mp hm
    simp only [Bool.or_eq_true, beq_iff_eq, bne_iff_ne, ne_eq]
    by_cases c : j = i
    · exact Or.inl c
    · exact Or.inr (h j hj c)

/-- what `best_trunk` is allowed to hold: a valid trunk of the list (or nothing). -/
def GoodBest (ε εA : α) (rs : List (Rect α)) : Option (Nat × Rect α) → Prop
  | none => True
  | some (i, t) => ∃ h : i < rs.length, t = rs[i] ∧ validTrunk ε εA rs i t = true

/-- items of the enumeration really are the list's elements. -/
def GoodItems (rs : List (Rect α)) (items : List (Rect α × Nat)) : Prop :=
  ∀ x ∈ items, ∃ h : x.2 < rs.length, x.1 = rs[x.2]

theorem goodItems_zipIdx (rs : List (Rect α)) : GoodItems rs rs.zipIdx := by
  intro x hx
  rw [List.mem_zipIdx_iff_getElem?] at hx
  obtain ⟨hj, h⟩ := List.getElem?_eq_some_iff.mp hx
  exact ⟨hj, h.symm⟩

theorem scan_good (ε εA : α) (rs : List (Rect α)) (items : List (Rect α × Nat)) (best : Option (Nat × Rect α))
    (hi : GoodItems rs items) (hb : GoodBest ε εA rs best) : GoodBest ε εA rs (scan ε εA rs items best) := by
  induction items generalizing best with
  | nil => simpa [scan] using hb
  | cons x rest ih =>
    obtain ⟨trunk, i⟩ := x
    have hrest : GoodItems rs rest := fun y hy => hi y (List.mem_cons_of_mem _ hy)
    obtain ⟨hlt, hx⟩ := hi (trunk, i) (List.mem_cons_self)
    have hnew : ∀ hv : validTrunk ε εA rs i trunk = true, GoodBest ε εA rs (some (i, trunk)) :=
      fun hv => ⟨hlt, hx, hv⟩
    unfold scan
    simp only
    cases best with
    | none =>
      simp only [Bool.false_eq_true, ↓reduceIte]
      split
      · rename_i hv; exact ih _ hrest (hnew hv)
      · exact ih _ hrest hb
    | some b =>
      obtain ⟨bi, bt⟩ := b
      simp only
      split
      · exact hb
      · split
        · rename_i hv; exact ih _ hrest (hnew hv)
        · exact ih _ hrest hb

theorem scan_some_of_best (ε εA : α) (rs : List (Rect α)) (items : List (Rect α × Nat)) (b : Nat × Rect α) :
    (scan ε εA rs items (some b)).isSome = true := by
  induction items generalizing b with
  | nil => simp [scan]
  | cons x rest ih =>
    obtain ⟨trunk, i⟩ := x
    unfold scan
    simp only
    split
    · simp
    · split
      · exact ih _
      · exact ih _

/-- the loop comes back empty-handed exactly when no enumerated candidate passes the test: before the first
    success `best_trunk` is `-1` and the `break` cannot fire. -/
theorem scan_none_iff (ε εA : α) (rs : List (Rect α)) (items : List (Rect α × Nat)) :
    scan ε εA rs items none = none ↔ ∀ x ∈ items, validTrunk ε εA rs x.2 x.1 = false := by
  induction items with
  | nil => simp [scan]
  | cons x rest ih =>
    obtain ⟨trunk, i⟩ := x
    unfold scan
    simp only [Bool.false_eq_true, ↓reduceIte, List.mem_cons, forall_eq_or_imp]
    by_cases hv : validTrunk ε εA rs i trunk = true
    · simp only [hv, ↓reduceIte, Bool.true_eq_false, false_and, iff_false]
      intro h
      have := scan_some_of_best ε εA rs rest (i, trunk)
      rw [h] at this; simp at this
    · simp only [hv, Bool.false_eq_true, ↓reduceIte]
      rw [ih]
      simp only [Bool.not_eq_true] at hv
      simp [hv]

/-! ### `create_stog` as a whole -/

/-- the labelling tail of `create_stog`: head becomes TRUNK, every other rectangle gets its location. -/
def label (ε εA : α) : List (Rect α) → List (Rect α)
  | [] => []
  | t :: others => { t with loc := .trunk } :: others.map fun r => { r with loc := findLocation ε εA t r }

theorem label_map_eraseLoc (ε εA : α) (l : List (Rect α)) : (label ε εA l).map eraseLoc = l.map eraseLoc := by
  cases l with
  | nil => rfl
  | cons t others =>
    simp only [label, List.map_cons, List.map_map]
    congr 1

/-- rectangle `i` can serve as trunk: every other rectangle has a location with respect to it. -/
def IsTrunkAt (ε εA : α) (rs : List (Rect α)) (i : Nat) : Prop :=
  ∃ h : i < rs.length, ∀ j (hj : j < rs.length), j ≠ i → findLocation ε εA rs[i] rs[j] ≠ .nopoly

theorem isTrunkAt_map_eraseLoc (ε εA : α) (rs : List (Rect α)) (i : Nat) :
    IsTrunkAt ε εA (rs.map eraseLoc) i ↔ IsTrunkAt ε εA rs i := by
  unfold IsTrunkAt
  simp only [List.length_map, List.getElem_map, findLocation_eraseLoc]

theorem isTrunkAt_iff_valid (ε εA : α) (rs : List (Rect α)) (i : Nat) (h : i < rs.length) :
    IsTrunkAt ε εA rs i ↔ validTrunk ε εA rs i rs[i] = true := by
  rw [validTrunk_iff]
  exact ⟨fun ⟨_, h'⟩ => h', fun h' => ⟨h, h'⟩⟩

/-- the list after the swap `rectangles[0], rectangles[b] = rectangles[b], rectangles[0]`. -/
theorem swapped_shape {β : Type} (L : List β) (b : Nat) (h0 : 0 < L.length) (hb : b < L.length) :
    ∃ others, (L.set 0 L[b]).set b L[0] = L[b] :: others ∧
      ∀ r ∈ others, ∃ k, ∃ hk : k < L.length, k ≠ b ∧ r = L[k] := by
  have hlen : ((L.set 0 L[b]).set b L[0]).length = L.length := by simp
  match hL : (L.set 0 L[b]).set b L[0] with
  | [] => rw [hL] at hlen; simp at hlen; omega
  | t :: others =>
    refine ⟨others, ?_, ?_⟩
    · congr 1
      have h1 : ((L.set 0 L[b]).set b L[0])[0]'(by rw [hlen]; exact h0) = t := by simp [hL]
      rw [← h1, List.getElem_set]
      split
      · rename_i hb0; subst hb0; rfl
      · rw [List.getElem_set]; simp
    · intro r hr
      obtain ⟨j, hj, rfl⟩ := List.mem_iff_getElem.mp hr
      have hj' : j + 1 < L.length := by
        have : (t :: others).length = L.length := by rw [← hL]; exact hlen
        simp at this; omega
      have h2 : others[j] = ((L.set 0 L[b]).set b L[0])[j + 1]'(by rw [hlen]; exact hj') := by simp [hL]
      rw [h2, List.getElem_set]
      split
      · rename_i hbj
        exact ⟨0, h0, by omega, rfl⟩
      · rename_i hbj
        rw [List.getElem_set]
        simp only [show ¬ (0 = j + 1) by omega, ↓reduceIte]
        exact ⟨j + 1, hj', by omega, rfl⟩

/-- what `create_stog` does, case by case. -/
theorem createStog_spec (ε εA : α) (rs : List (Rect α)) (hne : rs ≠ []) :
    (∃ r, rs = [r] ∧ createStog ε εA rs = some (true, [{ r with loc := .trunk }])) ∨
    (2 ≤ rs.length ∧ (¬ ∃ i, IsTrunkAt ε εA rs i) ∧ createStog ε εA rs = some (false, rs.map eraseLoc)) ∨
    (2 ≤ rs.length ∧ ∃ b, IsTrunkAt ε εA rs b ∧ ∃ hb : b < (rs.map eraseLoc).length,
      ∃ h0 : 0 < (rs.map eraseLoc).length,
      createStog ε εA rs =
        some (true, label ε εA (((rs.map eraseLoc).set 0 (rs.map eraseLoc)[b]).set b (rs.map eraseLoc)[0]))) := by
  match rs, hne with
  | [r], _ => exact Or.inl ⟨r, rfl, rfl⟩
  | a :: c :: tl, _ =>
    right
    set L := (a :: c :: tl).map eraseLoc with hL
    have hlen : L.length = (a :: c :: tl).length := by simp [hL]
    have h2 : 2 ≤ (a :: c :: tl).length := by simp
    have hcs : createStog ε εA (a :: c :: tl) =
        match scan ε εA L L.zipIdx none with
        | none => some (false, L)
        | some (b, rb) =>
          match (L.set 0 rb).set b (eraseLoc a) with
          | [] => none
          | t :: others =>
            some (true, { t with loc := .trunk } :: others.map fun r => { r with loc := findLocation ε εA t r }) := rfl
    have hgood := scan_good ε εA L L.zipIdx none (goodItems_zipIdx L) trivial
    cases hsc : scan ε εA L L.zipIdx none with
    | none =>
      left
      refine ⟨h2, ?_, ?_⟩
      · rintro ⟨i, hi⟩
        rw [← isTrunkAt_map_eraseLoc] at hi
        have hlt : i < L.length := hi.1
        have hv := (isTrunkAt_iff_valid ε εA L i hlt).mp hi
        have hall := (scan_none_iff ε εA L L.zipIdx).mp hsc (L[i], i)
          (by rw [List.mem_zipIdx_iff_getElem?]; simp [hlt])
        simp only at hall
        rw [hv] at hall; exact absurd hall (by simp)
      · rw [hcs, hsc]
    | some best =>
      right
      obtain ⟨b, rb⟩ := best
      rw [hsc] at hgood
      obtain ⟨hb, hrb, hv⟩ := hgood
      have h0 : 0 < L.length := by rw [hlen]; simp
      refine ⟨h2, b, ?_, hb, h0, ?_⟩
      · rw [← isTrunkAt_map_eraseLoc, isTrunkAt_iff_valid ε εA L b hb, ← hrb]; exact hv
      · rw [hcs, hsc]
        simp only
        have ha : eraseLoc a = L[0] := by simp [hL]
        rw [ha, hrb]
        obtain ⟨others, hsw, _⟩ := swapped_shape L b h0 hb
        rw [hsw]; rfl

end Stog
end FV

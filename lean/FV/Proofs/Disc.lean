import FV.Model.Disc
import Mathlib.Analysis.SpecialFunctions.Trigonometric.Inverse
import Mathlib.Analysis.SpecialFunctions.Trigonometric.Bounds
import Mathlib.Analysis.SpecialFunctions.Trigonometric.Deriv
import Mathlib.Analysis.Calculus.Deriv.MeanValue
import Mathlib.Analysis.Real.Sqrt
import Mathlib.Tactic.Linarith
import Mathlib.Tactic.Ring
import Mathlib.Tactic.FieldSimp
import Mathlib.Tactic.Positivity
import Mathlib.Tactic.NormNum
/-
  Helper lemmas for the disc-overlap model at `ℝ`.
-/
namespace FV.Disc
open Real Set

section Generic
variable {α : Type} [LinearOrder α] [Add α] [Sub α] [Mul α] [Div α] [Neg α] [NatCast α]

/-- float division can only fail with `ZeroDivisionError`. -/
theorem pyDiv_error (a b : α) (e : PyErr) (h : pyDiv a b = .error e) : e = .zeroDivision := by
  unfold pyDiv at h; split at h
  · cases h; rfl
  · cases h

end Generic

/-- the library functions over the reals; the partial ones fail exactly where Python raises. -/
noncomputable def realFns : Fns ℝ where
  sq x := x ^ 2
  hypot x y := √(x ^ 2 + y ^ 2)
  acos x := if -1 ≤ x ∧ x ≤ 1 then .ok (arccos x) else .error .valueError
  sin := Real.sin
  pi := π

@[simp] theorem zero_eq : (zero : ℝ) = 0 := by simp [zero]
@[simp] theorem one_eq : (one : ℝ) = 1 := by simp [one]
@[simp] theorem two_eq : (two : ℝ) = 2 := by simp [two]
@[simp] theorem negOne_eq : (negOne : ℝ) = -1 := by simp [negOne]

@[simp] theorem pyAbs_eq (x : ℝ) : pyAbs x = |x| := by
  unfold pyAbs; simp only [zero_eq]
  split
  · rw [abs_of_neg ‹_›]
  · rw [abs_of_nonneg (not_lt.mp ‹_›)]

theorem pyMax_eq' (a b : ℝ) : pyMax a b = max a b := by
  unfold pyMax; split
  · rw [max_eq_right (le_of_lt ‹_›)]
  · rw [max_eq_left (not_lt.mp ‹_›)]

theorem pyMin_eq' (a b : ℝ) : pyMin a b = min a b := by
  unfold pyMin; split
  · rw [min_eq_right (le_of_lt ‹_›)]
  · rw [min_eq_left (not_lt.mp ‹_›)]

theorem pyDiv_eq (a b : ℝ) (hb : b ≠ 0) : pyDiv a b = .ok (a / b) := by
  unfold pyDiv; simp only [zero_eq]
  rw [if_neg]; rintro ⟨h1, h2⟩; exact hb (le_antisymm h1 h2)

/-- the quotient handed to `acos`. -/
noncomputable def q (r1 r2 d : ℝ) : ℝ := (r1 ^ 2 + d ^ 2 - r2 ^ 2) / (2 * r1 * d)

/-- the factored numerator of the repaired code is the textbook one. -/
theorem num_factored (a b e : ℝ) : (a - b) * (a + b) + e ^ 2 = a ^ 2 + e ^ 2 - b ^ 2 := by ring

theorem quot_eq (r1 r2 d : ℝ) (h1 : 0 < r1) (hd : 0 < d) : quot realFns r1 r2 d = .ok (q r1 r2 d) := by
  unfold quot q; simp only [realFns, two_eq]
  rw [num_factored]
  exact pyDiv_eq _ _ (by positivity)

theorem q_le_one (r1 r2 d : ℝ) (h1 : 0 < r1) (h2 : 0 < r2) (hlo : |r1 - r2| < d) (hhi : d ≤ r1 + r2) :
    q r1 r2 d ≤ 1 := by
  have hd : 0 < d := lt_of_le_of_lt (abs_nonneg _) hlo
  have := abs_lt.mp hlo
  unfold q; rw [div_le_one (by positivity)]
  nlinarith [mul_nonneg (sub_nonneg.mpr hhi) (by linarith : (0:ℝ) ≤ d - r1 + r2)]

theorem neg_one_le_q (r1 r2 d : ℝ) (h1 : 0 < r1) (h2 : 0 < r2) (hlo : |r1 - r2| < d) :
    -1 ≤ q r1 r2 d := by
  have hd : 0 < d := lt_of_le_of_lt (abs_nonneg _) hlo
  have := abs_lt.mp hlo
  unfold q; rw [le_div_iff₀ (by positivity)]
  nlinarith [mul_pos (by linarith : (0:ℝ) < d + r1 - r2) (by linarith : (0:ℝ) < d + r1 + r2)]

theorem clamp_eq (x : ℝ) (h1 : -1 ≤ x) (h2 : x ≤ 1) : clamp x = x := by
  unfold clamp; rw [pyMax_eq', pyMin_eq']; simp only [one_eq, negOne_eq]
  rw [min_eq_right h2, max_eq_right h1]

/-- `4 r1² d² (1 - q1²)`, symmetric in `r1, r2` (16 × squared area of the triangle with sides `r1, r2, d`). -/
noncomputable def heron (r1 r2 d : ℝ) : ℝ := (-d + r1 + r2) * (d + r1 - r2) * (d - r1 + r2) * (d + r1 + r2)

theorem heron_symm (r1 r2 d : ℝ) : heron r1 r2 d = heron r2 r1 d := by unfold heron; ring

theorem heron_nonneg (r1 r2 d : ℝ) (h1 : 0 < r1) (h2 : 0 < r2) (hlo : |r1 - r2| < d) (hhi : d ≤ r1 + r2) :
    0 ≤ heron r1 r2 d := by
  have := abs_lt.mp hlo
  unfold heron
  have hd : 0 < d := lt_of_le_of_lt (abs_nonneg _) hlo
  apply mul_nonneg (mul_nonneg (mul_nonneg _ _) _) _ <;> linarith

theorem one_sub_q_sq (r1 r2 d : ℝ) (h1 : 0 < r1) (hd : 0 < d) :
    1 - q r1 r2 d ^ 2 = heron r1 r2 d / (2 * r1 * d) ^ 2 := by
  unfold q heron; field_simp; ring

/-- `d * r1 * sin (arccos q1) = √heron / 2`: the kite term. -/
theorem kite_eq (r1 r2 d : ℝ) (h1 : 0 < r1) (hd : 0 < d) :
    d * r1 * Real.sin (arccos (q r1 r2 d)) = √(heron r1 r2 d) / 2 := by
  rw [sin_arccos, one_sub_q_sq r1 r2 d h1 hd, sqrt_div', sqrt_sq (by positivity)]
  · field_simp
  · positivity


/-- the hypothesis of `C17.total_structural` holds of the real library functions. -/
theorem realFns_acos_total (x : ℝ) (h1 : (negOne : ℝ) ≤ x) (h2 : x ≤ (one : ℝ)) : ∃ v, realFns.acos x = .ok v := by
  simp only [negOne_eq, one_eq] at h1 h2
  exact ⟨arccos x, by simp [realFns, h1, h2]⟩

theorem small_eq (r1 r2 : ℝ) : small realFns r1 r2 = π * (min r1 r2) ^ 2 := by
  unfold small; simp only [realFns, pyMin_eq']

/-- the standard closed form of the lens area. -/
noncomputable def lensStd (r1 r2 d : ℝ) : ℝ :=
  r1 ^ 2 * arccos (q r1 r2 d) + r2 ^ 2 * arccos (q r2 r1 d) - √(heron r1 r2 d) / 2

theorem lensRaw_eq (r1 r2 d : ℝ) (h1 : 0 < r1) (hd : 0 < d) :
    lensRaw realFns r1 r2 d (arccos (q r1 r2 d)) (arccos (q r2 r1 d)) = lensStd r1 r2 d := by
  unfold lensRaw lensStd; simp only [realFns]; rw [kite_eq r1 r2 d h1 hd]

/-- the quotient is scale-invariant. -/
theorem q_scale (r1 r2 d s : ℝ) (hs : 0 < s) : q (r1 / s) (r2 / s) (d / s) = q r1 r2 d := by
  unfold q
  by_cases h : 2 * r1 * d = 0
  · have : 2 * (r1 / s) * (d / s) = 0 := by
      have : 2 * (r1 / s) * (d / s) = 2 * r1 * d / (s * s) := by field_simp
      rw [this, h, zero_div]
    rw [h, this, div_zero, div_zero]
  · have h1 : r1 ≠ 0 := fun h' => h (by rw [h']; ring)
    have hd : d ≠ 0 := fun h' => h (by rw [h']; ring)
    field_simp

theorem lensRaw_scale (r1 r2 d s al be : ℝ) (hs : 0 < s) :
    lensRaw realFns (r1 / s) (r2 / s) (d / s) al be * s * s = lensRaw realFns r1 r2 d al be := by
  unfold lensRaw; simp only [realFns]; field_simp

/-- the third branch over the reals: the rescaling cancels, no divisor vanishes and the clamps around the
    quotients are identities. -/
theorem areaD_lens (r1 r2 d : ℝ) (h1 : 0 < r1) (h2 : 0 < r2) (hlo : |r1 - r2| < d) (hhi : d ≤ r1 + r2) :
    areaD realFns r1 r2 d = .ok (min (π * (min r1 r2) ^ 2) (max 0 (lensStd r1 r2 d))) := by
  have hd : 0 < d := lt_of_le_of_lt (abs_nonneg _) hlo
  have hlo' : |r2 - r1| < d := by rwa [abs_sub_comm]
  have hhi' : d ≤ r2 + r1 := by linarith
  have a1 := neg_one_le_q r1 r2 d h1 h2 hlo
  have a2 := q_le_one r1 r2 d h1 h2 hlo hhi
  have b1 := neg_one_le_q r2 r1 d h2 h1 hlo'
  have b2 := q_le_one r2 r1 d h2 h1 hlo' hhi'
  have hs : 0 < max r1 r2 := lt_max_of_lt_left h1
  have ha : 0 < r1 / max r1 r2 := div_pos h1 hs
  have hb : 0 < r2 / max r1 r2 := div_pos h2 hs
  have he : 0 < d / max r1 r2 := div_pos hd hs
  unfold areaD
  rw [if_neg (not_lt.mpr hhi)]
  simp only [pyAbs_eq]
  rw [if_neg (not_le.mpr hlo)]
  simp only [pyMax_eq', pyDiv_eq _ _ hs.ne', bind, Except.bind]
  have hz1 : ¬ isZero (two * (r1 / max r1 r2) * (d / max r1 r2)) := by
    unfold isZero; simp only [two_eq, zero_eq]; intro h; have : 0 < 2 * (r1 / max r1 r2) * (d / max r1 r2) := by positivity
    linarith [h.1]
  have hz2 : ¬ isZero (two * (r2 / max r1 r2) * (d / max r1 r2)) := by
    unfold isZero; simp only [two_eq, zero_eq]; intro h; have : 0 < 2 * (r2 / max r1 r2) * (d / max r1 r2) := by positivity
    linarith [h.1]
  rw [if_neg (by rintro (h | h); exact hz1 h; exact hz2 h)]
  rw [quot_eq _ _ _ ha he, quot_eq _ _ _ hb he]
  simp only [q_scale _ _ _ _ hs, clamp_eq _ a1 a2, clamp_eq _ b1 b2]
  have e1 : realFns.acos (q r1 r2 d) = .ok (arccos (q r1 r2 d)) := by simp [realFns, a1, a2]
  have e2 : realFns.acos (q r2 r1 d) = .ok (arccos (q r2 r1 d)) := by simp [realFns, b1, b2]
  rw [e1, e2]
  simp only [lensRaw_scale _ _ _ _ _ _ hs, lensRaw_eq r1 r2 d h1 hd, small_eq, pyMin_eq', pyMax_eq', zero_eq]

theorem rq_add (r1 r2 d : ℝ) (h1 : 0 < r1) (h2 : 0 < r2) (hd : 0 < d) :
    r1 * q r1 r2 d + r2 * q r2 r1 d = d := by
  unfold q; field_simp; ring

/-- `x - sin x cos x ≥ 0` for `x ≥ 0` (area of a circular segment of half-angle `x`, unit radius). -/
theorem seg_nonneg (x : ℝ) (hx : 0 ≤ x) : 0 ≤ x - Real.sin x * Real.cos x := by
  have := Real.sin_le (x := 2 * x) (by linarith)
  rw [Real.sin_two_mul] at this; linarith

/-- the lens is the sum of two circular segments. -/
theorem lensStd_segments (r1 r2 d : ℝ) (h1 : 0 < r1) (h2 : 0 < r2) (hlo : |r1 - r2| < d) (hhi : d ≤ r1 + r2) :
    lensStd r1 r2 d =
      r1 ^ 2 * (arccos (q r1 r2 d) - Real.sin (arccos (q r1 r2 d)) * q r1 r2 d) +
      r2 ^ 2 * (arccos (q r2 r1 d) - Real.sin (arccos (q r2 r1 d)) * q r2 r1 d) := by
  have hd : 0 < d := lt_of_le_of_lt (abs_nonneg _) hlo
  have k1 := kite_eq r1 r2 d h1 hd
  have k2 := kite_eq r2 r1 d h2 hd
  rw [heron_symm r2 r1 d] at k2
  have rq := rq_add r1 r2 d h1 h2 hd
  have hAB : r1 * Real.sin (arccos (q r1 r2 d)) = r2 * Real.sin (arccos (q r2 r1 d)) := by
    apply mul_left_cancel₀ hd.ne'; linarith
  unfold lensStd
  linear_combination k1 + (r1 * Real.sin (arccos (q r1 r2 d))) * rq + (-(r2 * q r2 r1 d)) * hAB

theorem lensStd_nonneg (r1 r2 d : ℝ) (h1 : 0 < r1) (h2 : 0 < r2) (hlo : |r1 - r2| < d) (hhi : d ≤ r1 + r2) :
    0 ≤ lensStd r1 r2 d := by
  have hlo' : |r2 - r1| < d := by rwa [abs_sub_comm]
  have hhi' : d ≤ r2 + r1 := by linarith
  have c1 := Real.cos_arccos (neg_one_le_q r1 r2 d h1 h2 hlo) (q_le_one r1 r2 d h1 h2 hlo hhi)
  have c2 := Real.cos_arccos (neg_one_le_q r2 r1 d h2 h1 hlo') (q_le_one r2 r1 d h2 h1 hlo' hhi')
  have s1 := seg_nonneg (arccos (q r1 r2 d)) (arccos_nonneg _)
  have s2 := seg_nonneg (arccos (q r2 r1 d)) (arccos_nonneg _)
  rw [c1] at s1; rw [c2] at s2
  rw [lensStd_segments r1 r2 d h1 h2 hlo hhi]
  have := mul_nonneg (sq_nonneg r1) s1
  have := mul_nonneg (sq_nonneg r2) s2
  linarith

theorem lensStd_symm (r1 r2 d : ℝ) : lensStd r1 r2 d = lensStd r2 r1 d := by
  unfold lensStd; rw [heron_symm r1 r2 d]; ring

/-! ### the lens lies inside either disc (upper clamp inactive) -/

/-- area of a circular segment of half-angle `θ` over the square of its half-chord. -/
noncomputable def phi (θ : ℝ) : ℝ := (θ - Real.sin θ * Real.cos θ) / Real.sin θ ^ 2

theorem sin_sub_mul_cos_nonneg (θ : ℝ) (h0 : 0 < θ) (hpi : θ < π) : 0 ≤ Real.sin θ - θ * Real.cos θ := by
  have hs : 0 < Real.sin θ := Real.sin_pos_of_pos_of_lt_pi h0 hpi
  by_cases hc : Real.cos θ ≤ 0
  · nlinarith
  · push Not at hc
    have hlt : θ < π / 2 := by
      by_contra h; push Not at h
      have := Real.cos_nonpos_of_pi_div_two_le_of_le h (by linarith)
      linarith
    have := Real.le_tan h0.le hlt
    rw [Real.tan_eq_sin_div_cos, le_div_iff₀ hc] at this
    linarith

theorem phi_hasDerivAt (θ : ℝ) (h0 : 0 < θ) (hpi : θ < π) :
    HasDerivAt phi (2 * Real.sin θ * (Real.sin θ - θ * Real.cos θ) / (Real.sin θ ^ 2) ^ 2) θ := by
  have hs : 0 < Real.sin θ := Real.sin_pos_of_pos_of_lt_pi h0 hpi
  have h1 : HasDerivAt (fun x => x - Real.sin x * Real.cos x)
      (1 - (Real.cos θ * Real.cos θ + Real.sin θ * (-Real.sin θ))) θ :=
    (hasDerivAt_id θ).sub ((Real.hasDerivAt_sin θ).mul (Real.hasDerivAt_cos θ))
  have h2 : HasDerivAt (fun x => Real.sin x ^ 2) (((2 : ℕ) : ℝ) * Real.sin θ ^ (2 - 1) * Real.cos θ) θ :=
    (Real.hasDerivAt_sin θ).fun_pow 2
  have h3 := h1.fun_div h2 (by positivity)
  have hc := Real.sin_sq_add_cos_sq θ
  refine HasDerivAt.congr_deriv (f := phi) h3 ?_
  congr 1
  norm_num
  linear_combination (Real.sin θ ^ 2) * hc

theorem phi_mono : MonotoneOn phi (Ioo 0 π) := by
  apply monotoneOn_of_deriv_nonneg (convex_Ioo 0 π)
  · intro x hx
    exact (phi_hasDerivAt x hx.1 hx.2).continuousAt.continuousWithinAt
  · rw [interior_Ioo]
    intro x hx
    exact (phi_hasDerivAt x hx.1 hx.2).differentiableAt.differentiableWithinAt
  · rw [interior_Ioo]
    intro x hx
    rw [(phi_hasDerivAt x hx.1 hx.2).deriv]
    have hs : 0 < Real.sin x := Real.sin_pos_of_pos_of_lt_pi hx.1 hx.2
    have := sin_sub_mul_cos_nonneg x hx.1 hx.2
    positivity


/-- a circular segment with the same chord and a smaller half-angle is smaller. -/
theorem seg_le (r1 r2 a g : ℝ) (h1 : 0 < r1) (h2 : 0 < r2) (ha : 0 < a) (hag : a ≤ g) (hg : g < π)
    (hs : r1 * Real.sin a = r2 * Real.sin g) :
    r1 ^ 2 * (a - Real.sin a * Real.cos a) ≤ r2 ^ 2 * (g - Real.sin g * Real.cos g) := by
  have hsa : 0 < Real.sin a := Real.sin_pos_of_pos_of_lt_pi ha (by linarith)
  have hsg : 0 < Real.sin g := Real.sin_pos_of_pos_of_lt_pi (by linarith) hg
  have hm := phi_mono ⟨ha, by linarith⟩ ⟨by linarith, hg⟩ hag
  unfold phi at hm
  rw [div_le_div_iff₀ (by positivity) (by positivity)] at hm
  have hS : r1 ^ 2 * Real.sin a ^ 2 = r2 ^ 2 * Real.sin g ^ 2 := by
    have : (r1 * Real.sin a) ^ 2 = (r2 * Real.sin g) ^ 2 := by rw [hs]
    nlinarith [this]
  have hpos : 0 < r2 ^ 2 * Real.sin g ^ 2 := by positivity
  apply le_of_mul_le_mul_right _ hpos
  have e1 : r1 ^ 2 * (a - Real.sin a * Real.cos a) * (r2 ^ 2 * Real.sin g ^ 2) =
      r1 ^ 2 * r2 ^ 2 * ((a - Real.sin a * Real.cos a) * Real.sin g ^ 2) := by ring
  have e2 : r2 ^ 2 * (g - Real.sin g * Real.cos g) * (r2 ^ 2 * Real.sin g ^ 2) =
      r1 ^ 2 * r2 ^ 2 * ((g - Real.sin g * Real.cos g) * Real.sin a ^ 2) := by
    rw [← hS]; ring
  rw [e1, e2]
  exact mul_le_mul_of_nonneg_left hm (by positivity)

theorem q_lt_one (r1 r2 d : ℝ) (h1 : 0 < r1) (h2 : 0 < r2) (hlo : |r1 - r2| < d) (hhi : d < r1 + r2) :
    q r1 r2 d < 1 := by
  have hd : 0 < d := lt_of_le_of_lt (abs_nonneg _) hlo
  have := abs_lt.mp hlo
  unfold q; rw [div_lt_one (by positivity)]
  nlinarith [mul_pos (sub_pos.mpr hhi) (by linarith : (0:ℝ) < d - r1 + r2)]

theorem neg_one_lt_q (r1 r2 d : ℝ) (h1 : 0 < r1) (h2 : 0 < r2) (hlo : |r1 - r2| < d) :
    -1 < q r1 r2 d := by
  have hd : 0 < d := lt_of_le_of_lt (abs_nonneg _) hlo
  have := abs_lt.mp hlo
  unfold q; rw [lt_div_iff₀ (by positivity)]
  nlinarith [mul_pos (by linarith : (0:ℝ) < d + r1 - r2) (by linarith : (0:ℝ) < d + r1 + r2)]

theorem q_add_nonneg (r1 r2 d : ℝ) (h1 : 0 < r1) (h2 : 0 < r2) (hlo : |r1 - r2| < d) :
    0 ≤ q r1 r2 d + q r2 r1 d := by
  have hd : 0 < d := lt_of_le_of_lt (abs_nonneg _) hlo
  have habs := abs_lt.mp hlo
  have e : q r1 r2 d + q r2 r1 d = (r1 + r2) * ((d - (r1 - r2)) * (d + (r1 - r2))) / (2 * r1 * r2 * d) := by
    unfold q; field_simp; ring
  rw [e]
  have : 0 < (d - (r1 - r2)) * (d + (r1 - r2)) := mul_pos (by linarith) (by linarith)
  positivity

/-- half the common chord, seen from either centre. -/
theorem half_chord_eq (r1 r2 d : ℝ) (h1 : 0 < r1) (h2 : 0 < r2) (hd : 0 < d) :
    r1 * Real.sin (arccos (q r1 r2 d)) = r2 * Real.sin (arccos (q r2 r1 d)) := by
  have k1 := kite_eq r1 r2 d h1 hd
  have k2 := kite_eq r2 r1 d h2 hd
  rw [heron_symm r2 r1 d] at k2
  apply mul_left_cancel₀ hd.ne'; linarith

theorem lensStd_le_second (r1 r2 d : ℝ) (h1 : 0 < r1) (h2 : 0 < r2) (hlo : |r1 - r2| < d) (hhi : d < r1 + r2) :
    lensStd r1 r2 d ≤ π * r2 ^ 2 := by
  have hd : 0 < d := lt_of_le_of_lt (abs_nonneg _) hlo
  have hlo' : |r2 - r1| < d := by rwa [abs_sub_comm]
  have hhi' : d < r2 + r1 := by linarith
  have a1 := neg_one_lt_q r1 r2 d h1 h2 hlo
  have a2 := q_lt_one r1 r2 d h1 h2 hlo hhi
  have b1 := neg_one_lt_q r2 r1 d h2 h1 hlo'
  have b2 := q_lt_one r2 r1 d h2 h1 hlo' hhi'
  have hsum := q_add_nonneg r1 r2 d h1 h2 hlo
  set al := arccos (q r1 r2 d) with hal
  set be := arccos (q r2 r1 d) with hbe
  have hal0 : 0 < al := arccos_pos.mpr a2
  have hbe0 : 0 < be := arccos_pos.mpr b2
  have hbepi : be < π := arccos_lt_pi.mpr b1
  have hag : al ≤ π - be := by
    rw [hal, hbe, ← arccos_neg]
    exact arccos_le_arccos (by linarith)
  have hs : r1 * Real.sin al = r2 * Real.sin (π - be) := by
    rw [Real.sin_pi_sub]; exact half_chord_eq r1 r2 d h1 h2 hd
  have key := seg_le r1 r2 al (π - be) h1 h2 hal0 hag (by linarith) hs
  rw [Real.sin_pi_sub, Real.cos_pi_sub] at key
  have c1 : Real.cos al = q r1 r2 d := Real.cos_arccos a1.le a2.le
  have c2 : Real.cos be = q r2 r1 d := Real.cos_arccos b1.le b2.le
  rw [lensStd_segments r1 r2 d h1 h2 hlo hhi.le, ← hal, ← hbe, ← c1, ← c2]
  nlinarith [key]

/-- at external tangency the lens formula gives `0`. -/
theorem lensStd_tangent (r1 r2 : ℝ) (h1 : 0 < r1) (h2 : 0 < r2) : lensStd r1 r2 (r1 + r2) = 0 := by
  have e1 : q r1 r2 (r1 + r2) = 1 := by unfold q; field_simp; ring
  have e2 : q r2 r1 (r1 + r2) = 1 := by unfold q; field_simp; ring
  have e3 : heron r1 r2 (r1 + r2) = 0 := by unfold heron; ring
  unfold lensStd; rw [e1, e2, e3]; simp

/-- the lens is contained in the smaller disc: the upper clamp is an identity over the reals. -/
theorem lensStd_le_small (r1 r2 d : ℝ) (h1 : 0 < r1) (h2 : 0 < r2) (hlo : |r1 - r2| < d) (hhi : d ≤ r1 + r2) :
    lensStd r1 r2 d ≤ π * (min r1 r2) ^ 2 := by
  rcases hhi.lt_or_eq with hlt | heq
  · have A := lensStd_le_second r1 r2 d h1 h2 hlo hlt
    have B := lensStd_le_second r2 r1 d h2 h1 (by rwa [abs_sub_comm]) (by linarith)
    rw [← lensStd_symm] at B
    rcases min_cases r1 r2 with ⟨h, _⟩ | ⟨h, _⟩ <;> rw [h] <;> assumption
  · rw [heq, lensStd_tangent r1 r2 h1 h2]; positivity

end FV.Disc

import FV.Proofs.Sat
/-
  Helper lemmas for C07, part 2: the process-wide ROBDD store (`WFStore`, append-only extension `Store.le`),
  node semantics `evalNodeD`, and the invariants of `constructrobdd` for both constructions.  Core Lean only.
-/
set_option linter.unusedSectionVars false
namespace FV.PB

variable {V : Type} [DecidableEq V]

def Store.size (S : Store V) : Nat := S.memory.length

/-- the store invariant: ids 0/1 are the leaves, every other entry is a triple whose children have smaller ids,
    `mmap` is exactly the inverse of `memory` on triples -/
structure WFStore (S : Store V) : Prop where
  leaf0 : S.memory[0]? = some (.leaf false)
  leaf1 : S.memory[1]? = some (.leaf true)
  nodes : ∀ id n, S.memory[id]? = some n → 2 ≤ id → ∃ v i e, n = .node v i e ∧ i < id ∧ e < id
  mmap_sound : ∀ obj id, mlookup S.mmap obj = some id → 2 ≤ id ∧ S.memory[id]? = some (.node obj.1 obj.2.1 obj.2.2)
  mmap_complete : ∀ id v i e, 2 ≤ id → S.memory[id]? = some (.node v i e) → mlookup S.mmap (v, i, e) = some id

/-- `S'` is `S` with nodes appended (nothing is ever removed or renumbered) -/
def Store.le (S S' : Store V) : Prop := ∃ ext, S'.memory = S.memory ++ ext

theorem Store.le_refl (S : Store V) : S.le S := ⟨[], by simp⟩
theorem Store.le_trans {A B C : Store V} (h1 : A.le B) (h2 : B.le C) : A.le C := by
  obtain ⟨x, hx⟩ := h1; obtain ⟨y, hy⟩ := h2
  exact ⟨x ++ y, by rw [hy, hx, List.append_assoc]⟩

theorem Store.le_get {S S' : Store V} (h : S.le S') {id : Nat} (hid : id < S.size) : S'.memory[id]? = S.memory[id]? := by
  obtain ⟨x, hx⟩ := h
  rw [hx, List.getElem?_append_left hid]

theorem Store.le_size {S S' : Store V} (h : S.le S') : S.size ≤ S'.size := by
  obtain ⟨x, hx⟩ := h; simp [Store.size, hx]

theorem WFStore.size_ge {S : Store V} (h : WFStore S) : 2 ≤ S.size := by
  have := h.leaf1
  have := (List.getElem?_eq_some_iff.1 this).1
  exact this

theorem wf_init : WFStore (Store.init : Store V) where
  leaf0 := rfl
  leaf1 := rfl
  nodes := by
    intro id n h hid
    have : id < 2 := (List.getElem?_eq_some_iff.1 h).1
    omega
  mmap_sound := by intro obj id h; simp [Store.init, mlookup] at h
  mmap_complete := by
    intro id v i e hid h
    have : id < 2 := (List.getElem?_eq_some_iff.1 h).1
    omega

/-- no triple is stored twice -/
theorem WFStore.no_dup {S : Store V} (h : WFStore S) {a b : Nat} {v : V} {i e : Nat} (ha : 2 ≤ a) (hb : 2 ≤ b)
    (h1 : S.memory[a]? = some (.node v i e)) (h2 : S.memory[b]? = some (.node v i e)) : a = b := by
  have := h.mmap_complete a v i e ha h1
  have := h.mmap_complete b v i e hb h2
  simp_all

/-! ### node semantics -/
def evalNode (S : Store V) (σ : V → Bool) : Nat → Nat → Option Bool
  | 0, _ => none
  | f + 1, id =>
    match S.memory[id]? with
    | none => none
    | some (.leaf b) => some b
    | some (.node v i e) => if σ v then evalNode S σ f i else evalNode S σ f e

/-- the Boolean function denoted by node `id` (false for ids outside the store) -/
def evalNodeD (S : Store V) (σ : V → Bool) (id : Nat) : Bool := (evalNode S σ (id + 1) id).getD false

theorem evalNode_fuel {S : Store V} (h : WFStore S) (σ : V → Bool) :
    ∀ id, id < S.size → ∀ f, id < f → evalNode S σ f id = evalNode S σ (id + 1) id ∧ (evalNode S σ f id).isSome := by
  intro id
  induction id using Nat.strongRecOn with
  | _ id ih =>
    intro hid f hf
    obtain ⟨f', rfl⟩ : ∃ f', f = f' + 1 := ⟨f - 1, by omega⟩
    have hget : ∃ n, S.memory[id]? = some n := ⟨S.memory[id], List.getElem?_eq_getElem hid⟩
    obtain ⟨n, hn⟩ := hget
    unfold evalNode
    rw [hn]
    cases n with
    | leaf b => simp
    | node v i e =>
      by_cases h2 : 2 ≤ id
      · obtain ⟨v', i', e', he, hi, he'⟩ := h.nodes id _ hn h2
        simp only [Node.node.injEq] at he
        obtain ⟨rfl, rfl, rfl⟩ := he
        have hi' := ih i hi (by omega)
        have he'' := ih e he' (by omega)
        simp only
        split
        · have a := hi' f' (by omega); have b := hi' id (by omega)
          exact ⟨by rw [a.1, b.1], a.2⟩
        · have a := he'' f' (by omega); have b := he'' id (by omega)
          exact ⟨by rw [a.1, b.1], a.2⟩
      · exfalso
        have : id = 0 ∨ id = 1 := by omega
        rcases this with rfl | rfl
        · rw [h.leaf0] at hn; simp at hn
        · rw [h.leaf1] at hn; simp at hn

theorem evalNodeD_leaf0 {S : Store V} (h : WFStore S) (σ : V → Bool) : evalNodeD S σ 0 = false := by
  simp [evalNodeD, evalNode, h.leaf0]
theorem evalNodeD_leaf1 {S : Store V} (h : WFStore S) (σ : V → Bool) : evalNodeD S σ 1 = true := by
  simp [evalNodeD, evalNode, h.leaf1]

theorem evalNodeD_node {S : Store V} (h : WFStore S) (σ : V → Bool) {id : Nat} {v : V} {i e : Nat}
    (hn : S.memory[id]? = some (.node v i e)) (h2 : 2 ≤ id) :
    evalNodeD S σ id = if σ v then evalNodeD S σ i else evalNodeD S σ e := by
  have hid : id < S.size := (List.getElem?_eq_some_iff.1 hn).1
  obtain ⟨v', i', e', he, hi, he'⟩ := h.nodes id _ hn h2
  simp only [Node.node.injEq] at he
  obtain ⟨rfl, rfl, rfl⟩ := he
  unfold evalNodeD
  conv => lhs; unfold evalNode
  rw [hn]
  simp only
  split
  · rw [(evalNode_fuel h σ i (by omega) id (by omega)).1]
  · rw [(evalNode_fuel h σ e (by omega) id (by omega)).1]

/-- appending nodes does not change the meaning of existing ones -/
theorem evalNode_le {S S' : Store V} (h : WFStore S) (hle : S.le S') (σ : V → Bool) :
    ∀ f id, id < S.size → evalNode S' σ f id = evalNode S σ f id := by
  intro f
  induction f with
  | zero => intros; rfl
  | succ f ih =>
    intro id hid
    unfold evalNode
    rw [Store.le_get hle hid]
    cases hn : S.memory[id]? with
    | none => rfl
    | some n =>
      cases n with
      | leaf b => rfl
      | node v i e =>
        by_cases h2 : 2 ≤ id
        · obtain ⟨v', i', e', he, hi, he'⟩ := h.nodes id _ hn h2
          simp only [Node.node.injEq] at he
          obtain ⟨rfl, rfl, rfl⟩ := he
          simp only
          rw [ih i (by omega), ih e (by omega)]
        · exfalso
          have : id = 0 ∨ id = 1 := by omega
          rcases this with rfl | rfl
          · rw [h.leaf0] at hn; simp at hn
          · rw [h.leaf1] at hn; simp at hn

theorem evalNodeD_le {S S' : Store V} (h : WFStore S) (hle : S.le S') (σ : V → Bool) {id : Nat} (hid : id < S.size) :
    evalNodeD S' σ id = evalNodeD S σ id := by
  unfold evalNodeD; rw [evalNode_le h hle σ _ _ hid]

/-! ### `mmap` / node creation -/
theorem mlookup_append (a b : List ((V × Nat × Nat) × Nat)) (k : V × Nat × Nat) :
    mlookup (a ++ b) k = match mlookup a k with | some x => some x | none => mlookup b k := by
  induction a with
  | nil => simp [mlookup]
  | cons p r ih =>
    obtain ⟨k', id⟩ := p
    simp only [List.cons_append, mlookup]
    split
    · rfl
    · exact ih

theorem mkNode_spec {S : Store V} (h : WFStore S) (v : V) {i e : Nat} (hi : i < S.size) (he : e < S.size) :
    WFStore (S.mkNode (v, i, e)).2 ∧ S.le (S.mkNode (v, i, e)).2 ∧ 2 ≤ (S.mkNode (v, i, e)).1 ∧
      (S.mkNode (v, i, e)).2.memory[(S.mkNode (v, i, e)).1]? = some (.node v i e) := by
  unfold Store.mkNode
  cases hl : mlookup S.mmap (v, i, e) with
  | some id =>
    have := h.mmap_sound _ _ hl
    exact ⟨h, Store.le_refl S, this.1, this.2⟩
  | none =>
    have hsz := h.size_ge
    simp only [Store.size] at hsz hi he
    refine ⟨?_, ⟨[.node v i e], rfl⟩, by simp; exact hsz, by simp⟩
    constructor
    · simp only; rw [List.getElem?_append_left (by omega)]; exact h.leaf0
    · simp only; rw [List.getElem?_append_left (by omega)]; exact h.leaf1
    · intro id n hn hid
      simp only at hn
      by_cases hlt : id < S.memory.length
      · rw [List.getElem?_append_left hlt] at hn; exact h.nodes id n hn hid
      · have hidlen : id < (S.memory ++ [Node.node v i e]).length := (List.getElem?_eq_some_iff.1 hn).1
        simp at hidlen
        have : id = S.memory.length := by omega
        subst this
        simp at hn
        exact ⟨v, i, e, hn.symm, hi, he⟩
    · intro obj id hm
      simp only at hm ⊢
      rw [mlookup_append] at hm
      cases ho : mlookup S.mmap obj with
      | some x =>
        simp [ho] at hm; subst hm
        have := h.mmap_sound _ _ ho
        have hx : x < S.memory.length := (List.getElem?_eq_some_iff.1 this.2).1
        exact ⟨this.1, by rw [List.getElem?_append_left hx]; exact this.2⟩
      | none =>
        simp only [ho, mlookup] at hm
        split at hm
        · rename_i heq
          simp at hm; subst hm; subst heq
          exact ⟨hsz, by simp⟩
        · simp at hm
    · intro id v' i' e' hid hn
      simp only at hn ⊢
      rw [mlookup_append]
      by_cases hlt : id < S.memory.length
      · rw [List.getElem?_append_left hlt] at hn
        rw [h.mmap_complete id v' i' e' hid hn]
      · have hidlen : id < (S.memory ++ [Node.node v i e]).length := (List.getElem?_eq_some_iff.1 hn).1
        simp at hidlen
        have : id = S.memory.length := by omega
        subst this
        simp at hn
        obtain ⟨rfl, rfl, rfl⟩ := hn
        simp [hl, mlookup]

/-! ### arithmetic helpers of the coefficient decomposition -/
theorem largebitAux_bounds (n : Int) : ∀ f i, 1 ≤ i → i ≤ n → 1 ≤ largebitAux n f i ∧ largebitAux n f i ≤ n := by
  intro f
  induction f with
  | zero => intro i h1 h2; exact ⟨h1, h2⟩
  | succ f ih =>
    intro i h1 h2
    unfold largebitAux
    split
    · exact ih (2 * i) (by omega) (by omega)
    · exact ⟨h1, h2⟩

theorem largebit_bounds {n : Int} (h : 1 ≤ n) : 1 ≤ largebit n ∧ largebit n ≤ n :=
  largebitAux_bounds n _ 1 (by omega) h

theorem termsVal_reverse (σ : V → Bool) (l : List (Term V)) : termsVal σ l.reverse = termsVal σ l := by
  induction l with
  | nil => rfl
  | cons a r ih => simp [termsVal_append, termsVal, ih]; omega

theorem maxsum_append (a b : List (Term V)) : maxsum (a ++ b) = maxsum a + maxsum b := by
  induction a with
  | nil => simp [maxsum]
  | cons x r ih => simp [maxsum, ih]; omega

theorem maxsum_reverse (l : List (Term V)) : maxsum l.reverse = maxsum l := by
  induction l with
  | nil => rfl
  | cons a r ih => simp [maxsum_append, maxsum, ih]; omega

theorem insertSorted_spec (σ : V → Bool) (x : Term V) (l : List (Term V)) :
    termsVal σ (insertSorted x l) = termVal σ x + termsVal σ l ∧ maxsum (insertSorted x l) = x.c + maxsum l ∧
      (insertSorted x l).length = l.length + 1 ∧ ∀ y, y ∈ insertSorted x l ↔ y = x ∨ y ∈ l := by
  induction l with
  | nil => simp [insertSorted, termsVal, maxsum]
  | cons a r ih =>
    unfold insertSorted
    obtain ⟨h1, h2, h3, h4⟩ := ih
    split
    · refine ⟨by simp [termsVal, h1]; omega, by simp [maxsum, h2]; omega, by simp [h3], ?_⟩
      intro y; simp [h4]; constructor
      · rintro (h | h | h) <;> simp [h]
      · rintro (h | h | h) <;> simp [h]
    · refine ⟨by simp [termsVal], by simp [maxsum], by simp, by intro y; simp⟩

theorem insertTerm_spec (σ : V → Bool) (l : List (Term V)) (x : Term V) :
    termsVal σ (insertTerm l x) = termsVal σ l + termVal σ x ∧ maxsum (insertTerm l x) = maxsum l + x.c ∧
      (insertTerm l x).length ≤ l.length + 1 ∧ ∀ y, y ∈ insertTerm l x → (y = x ∧ x.c ≠ 0) ∨ y ∈ l := by
  unfold insertTerm
  split
  · rename_i h; simp [termVal, h]
  · rename_i h
    obtain ⟨h1, h2, h3, h4⟩ := insertSorted_spec σ x l.reverse
    refine ⟨by rw [termsVal_reverse, h1, termsVal_reverse]; omega, by rw [maxsum_reverse, h2, maxsum_reverse]; omega,
      by simp [h3], ?_⟩
    intro y hy
    simp only [List.mem_reverse] at hy
    rcases (h4 y).1 hy with e | hm
    · exact Or.inl ⟨e, h⟩
    · exact Or.inr (by simpa using hm)

/-! ### semantics of the data handled by `constructrobdd` -/
/-- the Boolean function `Σ cᵢ·litᵢ ≥ k` -/
def dataSem (σ : V → Bool) (d : Data V) : Bool := decide (termsVal σ d.1 ≥ d.2)
def DataOK (d : Data V) : Prop := ∀ t ∈ d.1, 0 < t.c

theorem litVal_by_cases (σ : V → Bool) (l : Literal V) :
    litVal σ l = if σ l.v then (if l.s then 1 else 0) else (if l.s then 0 else 1) := by
  cases l with | mk v s => cases s <;> cases h : σ v <;> simp [litVal, b2i, h]

theorem prop_ok (dec : Bool) {t : Term V} {r : List (Term V)} {k : Int} (h : DataOK (t :: r, k)) :
    DataOK (ifprop dec t r k) ∧ DataOK (elprop dec t r k) := by
  have ht : 0 < t.c := h t (by simp)
  have hr : ∀ y ∈ r, 0 < y.c := fun y hy => h y (by simp [hy])
  have hb := largebit_bounds (n := t.c) (by omega)
  unfold ifprop elprop DataOK
  cases dec
  · simp; exact hr
  · simp only [if_true]
    have key : ∀ y ∈ insertTerm r ⟨t.L, t.c - largebit t.c⟩, 0 < y.c := by
      intro y hy
      rcases (insertTerm_spec (fun _ => true) r ⟨t.L, t.c - largebit t.c⟩).2.2.2 y hy with ⟨e, hne⟩ | hm
      · subst e; simp at hne ⊢; omega
      · exact hr y hm
    exact ⟨key, key⟩

/-- Shannon expansion on the decision variable: the step both constructions rely on -/
theorem dataSem_step (dec : Bool) (σ : V → Bool) (t : Term V) (r : List (Term V)) (k : Int) :
    dataSem σ (t :: r, k) = if σ t.L.v then dataSem σ (ifprop dec t r k) else dataSem σ (elprop dec t r k) := by
  unfold dataSem ifprop elprop
  cases dec
  · simp only [termsVal, termVal, litVal_by_cases σ t.L, Bool.false_eq_true, if_false]
    cases hσ : σ t.L.v <;> cases hs : t.L.s <;> simp <;> constructor <;> intro h <;> omega
  · simp only [if_true, (insertTerm_spec σ r _).1, termsVal, termVal, litVal_by_cases σ t.L]
    cases hσ : σ t.L.v <;> cases hs : t.L.s <;> simp <;> constructor <;> intro h <;> omega

theorem measure_step (dec : Bool) {t : Term V} {r : List (Term V)} {k : Int} (h : DataOK (t :: r, k)) :
    dataMeasure (ifprop dec t r k) < dataMeasure (t :: r, k) ∧ dataMeasure (elprop dec t r k) < dataMeasure (t :: r, k) := by
  have ht : 0 < t.c := h t (by simp)
  have hr : ∀ y ∈ r, 0 ≤ y.c := fun y hy => Int.le_of_lt (h y (by simp [hy]))
  have hm := maxsum_nonneg' hr
  have hb := largebit_bounds (n := t.c) (by omega)
  unfold ifprop elprop dataMeasure
  cases dec
  · simp [maxsum]; omega
  · simp only [if_true, maxsum, List.length_cons]
    obtain ⟨_, h2, h3, _⟩ := insertTerm_spec (fun _ => true) r ⟨t.L, t.c - largebit t.c⟩
    simp only at h2
    omega

/-! ### the invariant of `constructrobdd` -/
/-- every memo entry is a node of the store that denotes its key -/
def MemoInv (S : Store V) (memo : List (Data V × Nat)) : Prop :=
  ∀ d id, memoGet memo d = some id → id < S.size ∧ ∀ σ, evalNodeD S σ id = dataSem σ d

theorem memoGet_append (a b : List (Data V × Nat)) (k : Data V) :
    memoGet (a ++ b) k = match memoGet a k with | some x => some x | none => memoGet b k := by
  induction a with
  | nil => simp [memoGet]
  | cons p r ih =>
    obtain ⟨k', id⟩ := p
    simp only [List.cons_append, memoGet]
    split
    · rfl
    · exact ih

theorem MemoInv.mono {S S' : Store V} {memo : List (Data V × Nat)} (h : MemoInv S memo) (hw : WFStore S) (hle : S.le S') :
    MemoInv S' memo := by
  intro d id hm
  obtain ⟨h1, h2⟩ := h d id hm
  exact ⟨Nat.lt_of_lt_of_le h1 (Store.le_size hle), fun σ => by rw [evalNodeD_le hw hle σ h1]; exact h2 σ⟩

theorem bc_sem (σ : V → Bool) {d : Data V} (hok : DataOK d) (hb : bccond d = true) {S : Store V} (hw : WFStore S) :
    bcconstr d < S.size ∧ evalNodeD S σ (bcconstr d) = dataSem σ d := by
  have hsz := hw.size_ge
  have hnn : ∀ t ∈ d.1, 0 ≤ t.c := fun t ht => Int.le_of_lt (hok t ht)
  have h0 := termsVal_nonneg σ hnn
  have h1 := termsVal_le_maxsum σ hnn
  unfold bcconstr dataSem
  simp only [bccond, Bool.or_eq_true, decide_eq_true_eq] at hb
  split
  · rename_i hk
    refine ⟨by omega, ?_⟩
    rw [evalNodeD_leaf1 hw]; simp; omega
  · rename_i hk
    refine ⟨by omega, ?_⟩
    rw [evalNodeD_leaf0 hw]; simp; omega

theorem construct_spec (dec : Bool) : ∀ (fuel : Nat) (d : Data V) (st : BState V) (id : Nat) (st' : BState V),
    construct dec fuel d st = some (id, st') → WFStore st.store → MemoInv st.store st.memo → DataOK d →
      WFStore st'.store ∧ st.store.le st'.store ∧ MemoInv st'.store st'.memo ∧ id < st'.store.size ∧
        ∀ σ, evalNodeD st'.store σ id = dataSem σ d := by
  intro fuel
  induction fuel with
  | zero => intro d st id st' h; simp [construct] at h
  | succ fuel ih =>
    intro d st id st' h hw hm hok
    unfold construct at h
    split at h
    · rename_i mid hmemo
      simp only [Option.some.injEq, Prod.mk.injEq] at h
      obtain ⟨rfl, rfl⟩ := h
      have := hm d mid hmemo
      exact ⟨hw, Store.le_refl _, hm, this.1, this.2⟩
    · split at h
      · rename_i hb
        simp only [Option.some.injEq, Prod.mk.injEq] at h
        obtain ⟨rfl, rfl⟩ := h
        exact ⟨hw, Store.le_refl _, hm, (bc_sem (fun _ => true) hok hb hw).1, fun σ => (bc_sem σ hok hb hw).2⟩
      · split at h
        · simp at h
        · rename_i t r hd
          obtain ⟨dl, dk⟩ := d
          simp only at hd; subst hd
          have hpo := prop_ok dec hok
          split at h
          · simp at h
          · rename_i i st1 h1
            obtain ⟨w1, l1, m1, s1, e1⟩ := ih _ _ _ _ h1 hw hm hpo.1
            split at h
            · simp at h
            · rename_i e st2 h2
              obtain ⟨w2, l2, m2, s2, e2⟩ := ih _ _ _ _ h2 w1 m1 hpo.2
              have ei : ∀ σ, evalNodeD st2.store σ i = dataSem σ (ifprop dec t r dk) := fun σ => by
                rw [evalNodeD_le w1 l2 σ s1]; exact e1 σ
              have si : i < st2.store.size := Nat.lt_of_lt_of_le s1 (Store.le_size l2)
              split at h
              · rename_i hie
                simp only [Option.some.injEq, Prod.mk.injEq] at h
                obtain ⟨rfl, rfl⟩ := h
                refine ⟨w2, Store.le_trans l1 l2, m2, si, fun σ => ?_⟩
                rw [dataSem_step dec σ t r dk]
                split
                · exact ei σ
                · rw [hie]; exact e2 σ
              · rename_i hie
                simp only [Option.some.injEq, Prod.mk.injEq] at h
                obtain ⟨rfl, rfl⟩ := h
                obtain ⟨w3, l3, g3, n3⟩ := mkNode_spec w2 t.L.v si s2
                have s3 : (st2.store.mkNode (t.L.v, i, e)).1 < (st2.store.mkNode (t.L.v, i, e)).2.size :=
                  (List.getElem?_eq_some_iff.1 n3).1
                have sem3 : ∀ σ, evalNodeD (st2.store.mkNode (t.L.v, i, e)).2 σ (st2.store.mkNode (t.L.v, i, e)).1
                    = dataSem σ (t :: r, dk) := fun σ => by
                  rw [evalNodeD_node w3 σ n3 g3, evalNodeD_le w2 l3 σ si, evalNodeD_le w2 l3 σ s2, ei σ, e2 σ,
                    dataSem_step dec σ t r dk]
                refine ⟨w3, Store.le_trans l1 (Store.le_trans l2 l3), ?_, s3, sem3⟩
                intro d' id' hg
                simp only at hg
                rw [memoGet_append] at hg
                cases hg' : memoGet st2.memo d' with
                | some x =>
                  simp [hg'] at hg; subst hg
                  exact (m2.mono w2 l3) d' x hg'
                | none =>
                  simp only [hg', memoGet] at hg
                  split at hg
                  · rename_i heq
                    simp at hg; subst hg; subst heq
                    exact ⟨s3, sem3⟩
                  · simp at hg

theorem construct_total (dec : Bool) : ∀ (fuel : Nat) (d : Data V) (st : BState V),
    DataOK d → dataMeasure d < fuel → (construct dec fuel d st).isSome := by
  intro fuel
  induction fuel with
  | zero => intro d st _ h; omega
  | succ fuel ih =>
    intro d st hok hlt
    unfold construct
    split
    · simp
    · split
      · simp
      · rename_i hb
        split
        · rename_i hnil
          exfalso
          simp only [bccond, hnil, maxsum, Bool.or_eq_true, decide_eq_true_eq] at hb
          omega
        · rename_i t r hd
          obtain ⟨dl, dk⟩ := d
          simp only at hd; subst hd
          have hpo := prop_ok dec hok
          have hms := measure_step dec hok
          have a1 := ih (ifprop dec t r dk) st hpo.1 (by omega)
          split
          · rename_i hnone; rw [hnone] at a1; simp at a1
          · rename_i i st1 h1
            have a2 := ih (elprop dec t r dk) st1 hpo.2 (by omega)
            split
            · rename_i hnone; rw [hnone] at a2; simp at a2
            · split <;> simp

end FV.PB

import FV.Model.Spectral
import FV.Proofs.Force
import Mathlib.Algebra.Order.AbsoluteValue.Basic
import Mathlib.Algebra.BigOperators.Group.List.Basic
/-
  Helper lemmas for the spectral placement model (`FV/Model/Spectral.lean`) over a linearly ordered field.
-/
namespace FV.Spectral
open FV FV.Force
set_option linter.unusedSectionVars false
set_option linter.unusedVariables false
set_option linter.unusedSimpArgs false

variable {α : Type} [Field α] [LinearOrder α] [IsStrictOrderedRing α]

@[simp] theorem half_eq : (half : α) = 1 / 2 := by simp [half]
theorem delta_pos : (0 : α) < delta := by
  simp only [delta]; positivity

theorem pyAbs_eq (x : α) : pyAbs x = |x| := by
  unfold pyAbs
  simp only [Force.zero_eq]
  split
  · rw [abs_of_neg ‹_›]
  · rw [abs_of_nonneg (not_lt.mp ‹_›)]

theorem isZero_iff (x : α) : isZero x = true ↔ x = 0 := by
  simp only [isZero, Force.zero_eq, Bool.and_eq_true, decide_eq_true_eq]
  exact ⟨fun ⟨a, b⟩ => le_antisymm a b, fun h => by simp [h]⟩

theorem pyDiv_ok (a b q : α) : pyDiv a b = .ok q ↔ b ≠ 0 ∧ q = a / b := by
  unfold pyDiv
  by_cases hb : b = 0
  · subst hb
    have hz : isZero (0 : α) = true := (isZero_iff 0).mpr rfl
    simp [hz]
  · have : isZero b = false := by
      cases h : isZero b with
      | true => exact absurd ((isZero_iff b).mp h) hb
      | false => rfl
    simp [this, hb, eq_comm]

/-! ### Neumaier summation is summation -/

theorem nsumStep_inv (s : α × α) (x : α) : (nsumStep s x).1 + (nsumStep s x).2 = s.1 + s.2 + x := by
  unfold nsumStep
  split <;> simp <;> ring

theorem nsum_fold (xs : List α) (s : α × α) :
    (xs.foldl nsumStep s).1 + (xs.foldl nsumStep s).2 = s.1 + s.2 + xs.sum := by
  induction xs generalizing s with
  | nil => simp
  | cons x xs ih => simp only [List.foldl_cons, List.sum_cons]; rw [ih, nsumStep_inv]; ring

theorem nsum_eq (xs : List α) : nsum xs = xs.sum := by
  unfold nsum
  simp only []
  rw [nsum_fold]; simp

/-! ### `min()` of a list -/

theorem foldl_min_spec (xs : List α) (x : α) :
    (xs.foldl (fun m y => if y < m then y else m) x ∈ x :: xs) ∧
    ∀ y ∈ x :: xs, xs.foldl (fun m y => if y < m then y else m) x ≤ y := by
  induction xs generalizing x with
  | nil => simp
  | cons z zs ih =>
    simp only [List.foldl_cons]
    obtain ⟨h1, h2⟩ := ih (if z < x then z else x)
    constructor
    · rcases List.mem_cons.mp h1 with h | h
      · rw [h]; split <;> simp
      · exact List.mem_cons_of_mem _ (List.mem_cons_of_mem _ h)
    · intro y hy
      have hm := h2 (if z < x then z else x) (by simp)
      rcases List.mem_cons.mp hy with h | h
      · rw [h]; refine le_trans hm ?_; split
        · exact le_of_lt ‹_›
        · exact le_refl _
      · rcases List.mem_cons.mp h with h | h
        · rw [h]; refine le_trans hm ?_; split
          · exact le_refl _
          · exact not_lt.mp ‹_›
        · exact h2 y (List.mem_cons_of_mem _ h)

theorem minFirst_spec (l : List α) (m : α) (h : minFirst l = .ok m) : m ∈ l ∧ ∀ y ∈ l, m ≤ y := by
  cases l with
  | nil => simp [minFirst] at h
  | cons x xs =>
    simp only [minFirst, Except.ok.injEq] at h
    subst h
    exact foldl_min_spec xs x

/-! ### `normalize` -/

theorem vat_map_range (f : Nat → α) (n i : Nat) (h : i < n) : vat ((List.range n).map f) i = f i := by
  unfold vat; exact getD_map_range f n i h _

theorem normalize_spec (x span : List α) (fixed : List Bool) (y : List α) (h : normalize x span fixed = .ok y) :
    ∃ scale, minFirst (scaleCands x span fixed) = .ok scale ∧
      y = (List.range x.length).map fun i => if fixedAt fixed i then vat x i else vat x i * scale := by
  unfold normalize at h
  rw [bind_ok] at h
  obtain ⟨scale, hs, h⟩ := h
  rw [pure_ok] at h
  exact ⟨scale, hs, h.symm⟩

theorem normalize_length (x span : List α) (fixed : List Bool) (y : List α) (h : normalize x span fixed = .ok y) :
    y.length = x.length := by
  obtain ⟨s, _, rfl⟩ := normalize_spec x span fixed y h
  simp

/-- fixed entries are not touched. -/
theorem normalize_fixed (x span : List α) (fixed : List Bool) (y : List α) (h : normalize x span fixed = .ok y)
    (i : Nat) (hi : i < x.length) (hf : fixedAt fixed i = true) : vat y i = vat x i := by
  obtain ⟨s, _, rfl⟩ := normalize_spec x span fixed y h
  rw [vat_map_range _ _ _ hi]; simp [hf]

theorem mem_scaleCands (x span : List α) (fixed : List Bool) (a : α) :
    a ∈ scaleCands x span fixed ↔
      ∃ i, i < x.length ∧ fixedAt fixed i = false ∧ delta < |vat x i| ∧ a = vat span i / |vat x i| := by
  unfold scaleCands
  simp only [List.mem_filterMap, List.mem_range]
  constructor
  · rintro ⟨i, hi, h⟩
    split at h
    · rename_i hc
      simp only [Bool.and_eq_true, Bool.not_eq_eq_eq_not, Bool.not_true, decide_eq_true_eq, pyAbs_eq] at hc
      simp only [Option.some.injEq, pyAbs_eq] at h
      exact ⟨i, hi, hc.1, hc.2, h.symm⟩
    · simp at h
  · rintro ⟨i, hi, hf, hd, rfl⟩
    refine ⟨i, hi, ?_⟩
    simp [hf, pyAbs_eq, hd]

/-- `normalize_post`: every movable coordinate that is not in the `|x_i| ≤ 1e-9` escape ends within its span,
    provided the spans of the coordinates that determine the scale are non-negative (the discs fit). -/
theorem normalize_bound (x span : List α) (fixed : List Bool) (y : List α) (h : normalize x span fixed = .ok y)
    (hspan : ∀ j, j < x.length → fixedAt fixed j = false → delta < |vat x j| → 0 ≤ vat span j)
    (i : Nat) (hi : i < x.length) (hf : fixedAt fixed i = false) (hd : delta < |vat x i|) :
    |vat y i| ≤ vat span i := by
  obtain ⟨s, hs, rfl⟩ := normalize_spec x span fixed y h
  obtain ⟨hmem, hle⟩ := minFirst_spec _ _ hs
  obtain ⟨j, hj, hjf, hjd, rfl⟩ := (mem_scaleCands x span fixed _).mp hmem
  have hxpos : 0 < |vat x i| := lt_trans delta_pos hd
  have hjpos : 0 < |vat x j| := lt_trans delta_pos hjd
  have hs0 : 0 ≤ vat span j / |vat x j| := div_nonneg (hspan j hj hjf hjd) (le_of_lt hjpos)
  have hsi := hle (vat span i / |vat x i|) ((mem_scaleCands x span fixed _).mpr ⟨i, hi, hf, hd, rfl⟩)
  rw [vat_map_range _ _ _ hi]
  simp only [hf, Bool.false_eq_true, ↓reduceIte]
  rw [abs_mul, abs_of_nonneg hs0]
  calc |vat x i| * (vat span j / |vat x j|) ≤ |vat x i| * (vat span i / |vat x i|) :=
        mul_le_mul_of_nonneg_left hsi (le_of_lt hxpos)
    _ = vat span i := by field_simp

/-! ### `orthogonalize`, the loop body, the loop -/

theorem orthoStep_spec (mass : List α) (fixed : List Bool) (ck cd out : List α)
    (h : orthoStep mass fixed ck cd = .ok out) :
    ∃ factor : α, out = (List.range mass.length).map fun i =>
      if fixedAt fixed i then vat cd i else vat cd i - factor * vat ck i := by
  unfold orthoStep at h
  simp only [bind_ok] at h
  obtain ⟨factor, _, dp, _, h⟩ := h
  split at h
  · rw [pure_ok] at h; exact ⟨factor, h.symm⟩
  · simp at h

theorem orthoStep_fixed (mass : List α) (fixed : List Bool) (ck cd out : List α)
    (h : orthoStep mass fixed ck cd = .ok out) (i : Nat) (hi : i < mass.length) (hf : fixedAt fixed i = true) :
    vat out i = vat cd i := by
  obtain ⟨f, rfl⟩ := orthoStep_spec mass fixed ck cd out h
  rw [vat_map_range _ _ _ hi]; simp [hf]

theorem orthoFold_fixed (coord : List (List α)) (mass : List α) (fixed : List Bool) (ks : List Nat) (cd out : List α)
    (h : ks.foldlM (fun cd k => orthoStep mass fixed (coord.getD k []) cd) cd = .ok out)
    (i : Nat) (hi : i < mass.length) (hf : fixedAt fixed i = true) : vat out i = vat cd i := by
  induction ks generalizing cd with
  | nil => simp only [List.foldlM_nil, pure_ok] at h; rw [h]
  | cons k ks ih =>
    simp only [List.foldlM_cons, bind_ok] at h
    obtain ⟨cd', h1, h2⟩ := h
    rw [ih cd' h2, orthoStep_fixed mass fixed _ cd cd' h1 i hi hf]

theorem orthogonalize_fixed (coord : List (List α)) (mass : List α) (dim : Nat) (fixed : List Bool) (out : List α)
    (h : orthogonalize coord mass dim fixed = .ok out) (i : Nat) (hi : i < mass.length) (hf : fixedAt fixed i = true) :
    vat out i = vat (coord.getD dim []) i :=
  orthoFold_fixed coord mass fixed _ _ out h i hi hf

/-- what the loop body leaves in `coord[d]` is the output of `normalize` on the recorded vector. -/
theorem iterBody_normalized (c : Cst α) (span : List α) (coord : List (List α)) (d : Nat) (r : List α × α × List α)
    (h : iterBody c span coord d = .ok r) : normalize r.2.2 span c.fixed = .ok r.1 := by
  unfold iterBody at h
  simp only [bind_ok] at h
  obtain ⟨cd, _, tmp, _, mx, _, mn, _, new', hn, dp, _, h⟩ := h
  rw [pure_ok] at h
  subst h
  exact hn

/-- the loop body keeps the fixed entries of `coord[d]`. -/
theorem iterBody_fixed (c : Cst α) (span : List α) (coord : List (List α)) (d : Nat) (r : List α × α × List α)
    (h : iterBody c span coord d = .ok r) (i : Nat) (hi : i < c.adj.length) (hm : i < c.floatMass.length)
    (hf : fixedAt c.fixed i = true) : vat r.1 i = vat (coord.getD d []) i := by
  unfold iterBody at h
  simp only [bind_ok] at h
  obtain ⟨cd, hcd, tmp, _, mx, _, mn, _, new', hn, dp, _, h⟩ := h
  rw [pure_ok] at h
  subst h
  have hcdi := orthogonalize_fixed coord c.floatMass d c.fixed cd hcd i hm hf
  simp only []
  split at hn
  · have hl : ((List.range c.adj.length).map fun i => half * (vat ((List.range c.adj.length).map fun i =>
        if fixedAt c.fixed i then vat cd i else vat tmp i) i + vat cd i)).length = c.adj.length := by simp
    rw [normalize_fixed _ _ _ _ hn i (by rw [hl]; exact hi) hf, vat_map_range _ _ _ hi, vat_map_range _ _ _ hi]
    simp only [hf, ↓reduceIte, half_eq, hcdi]; ring
  · have hl : ((List.range c.adj.length).map fun i =>
        if fixedAt c.fixed i then vat cd i else vat tmp i).length = c.adj.length := by simp
    rw [normalize_fixed _ _ _ _ hn i (by rw [hl]; exact hi) hf, vat_map_range _ _ _ hi]
    simp only [hf, ↓reduceIte, hcdi]

theorem getD_set_self {γ : Type} (l : List γ) (d : Nat) (x dflt : γ) (h : d < l.length) : (l.set d x).getD d dflt = x := by
  simp [List.getD_eq_getElem?_getD, h]

theorem getD_set_ne {γ : Type} (l : List γ) (d j : Nat) (x dflt : γ) (h : j ≠ d) : (l.set d x).getD j dflt = l.getD j dflt := by
  simp [List.getD_eq_getElem?_getD, List.getElem?_set_ne (Ne.symm h)]

/-- the loop changes nothing but row `d`. -/
theorem dimLoop_frame (c : Cst α) (span : List α) (d : Nat) (fuel : Nat) (coord : List (List α)) (dp : α) (it : Nat)
    (pre : List α) (res : List (List α) × Nat × List α) (h : dimLoop c span d fuel coord dp it pre = .ok res) :
    res.1.length = coord.length ∧ ∀ j, j ≠ d → res.1.getD j [] = coord.getD j [] := by
  induction fuel generalizing coord dp it pre with
  | zero => simp only [dimLoop, Except.ok.injEq] at h; subst h; simp
  | succ fuel ih =>
    simp only [dimLoop] at h
    split at h
    · rw [bind_ok] at h
      obtain ⟨r, _, h⟩ := h
      obtain ⟨h1, h2⟩ := ih _ _ _ _ h
      refine ⟨by rw [h1]; simp, ?_⟩
      intro j hj
      rw [h2 j hj, getD_set_ne _ _ _ _ _ hj]
    · simp only [Except.ok.injEq] at h; subst h; simp

/-- any relation between `coord[d]` and the recorded `normalize` argument that the loop body establishes /
    preserves holds when the loop ends. -/
theorem dimLoop_row (c : Cst α) (span : List α) (d : Nat) (P : List α → List α → Prop)
    (hstep : ∀ coord pre r, P (coord.getD d []) pre → iterBody c span coord d = .ok r → P r.1 r.2.2)
    (fuel : Nat) (coord : List (List α)) (dp : α) (it : Nat) (pre : List α) (res : List (List α) × Nat × List α)
    (hd : d < coord.length) (h0 : P (coord.getD d []) pre)
    (h : dimLoop c span d fuel coord dp it pre = .ok res) : P (res.1.getD d []) res.2.2 := by
  induction fuel generalizing coord dp it pre with
  | zero => simp only [dimLoop, Except.ok.injEq] at h; subst h; exact h0
  | succ fuel ih =>
    simp only [dimLoop] at h
    split at h
    · rw [bind_ok] at h
      obtain ⟨r, hr, h⟩ := h
      refine ih _ _ _ _ (by simpa using hd) ?_ h
      rw [getD_set_self _ _ _ _ hd]
      exact hstep coord pre r h0 hr
    · simp only [Except.ok.injEq] at h; subst h; exact h0

theorem processDim_frame (c : Cst α) (span : List α) (maxIter : Nat) (coord : List (List α)) (d : Nat)
    (res : List (List α) × Nat × List α) (h : processDim c span maxIter coord d = .ok res) :
    res.1.length = coord.length ∧ ∀ j, j ≠ d → res.1.getD j [] = coord.getD j [] := by
  unfold processDim at h
  rw [bind_ok] at h
  obtain ⟨x, _, h⟩ := h
  obtain ⟨h1, h2⟩ := dimLoop_frame c span d maxIter _ _ _ _ res h
  refine ⟨by rw [h1]; simp, ?_⟩
  intro j hj
  rw [h2 j hj, getD_set_ne _ _ _ _ _ hj]

/-- `loop_post`: whatever the number of iterations (0 … `maxIter`), the row left in `coord[d]` is the output of
    `normalize` on the recorded vector — the argument of the initial call when the loop does not iterate, of the
    call of the last iteration otherwise. -/
theorem processDim_normalized (c : Cst α) (span : List α) (maxIter : Nat) (coord : List (List α)) (d : Nat)
    (res : List (List α) × Nat × List α) (hd : d < coord.length) (h : processDim c span maxIter coord d = .ok res) :
    normalize res.2.2 span c.fixed = .ok (res.1.getD d []) := by
  unfold processDim at h
  rw [bind_ok] at h
  obtain ⟨x, hx, h⟩ := h
  refine dimLoop_row c span d (fun row pre => normalize pre span c.fixed = .ok row)
    (fun coord pre r _ hr => iterBody_normalized c span coord d r hr) maxIter _ _ _ _ res (by simpa using hd) ?_ h
  rw [getD_set_self _ _ _ _ hd]
  exact hx

theorem processDim_fixed (c : Cst α) (span : List α) (maxIter : Nat) (coord : List (List α)) (d : Nat)
    (res : List (List α) × Nat × List α) (hd : d < coord.length) (h : processDim c span maxIter coord d = .ok res)
    (i : Nat) (hi : i < c.adj.length) (hm : i < c.floatMass.length) (hr : i < (coord.getD d []).length)
    (hf : fixedAt c.fixed i = true) : vat (res.1.getD d []) i = vat (coord.getD d []) i := by
  unfold processDim at h
  rw [bind_ok] at h
  obtain ⟨x, hx, h⟩ := h
  refine dimLoop_row c span d (fun row _ => vat row i = vat (coord.getD d []) i)
    (fun coord' pre r h0 hr' => by rw [iterBody_fixed c span coord' d r hr' i hi hm hf]; exact h0)
    maxIter _ _ _ _ res (by simpa using hd) ?_ h
  rw [getD_set_self _ _ _ _ hd]
  exact normalize_fixed _ _ _ _ hx i hr hf

/-! ### the initial coordinates -/

theorem initRow_spec (size : α) (fixed : List Bool) (xs : List α) (i0 : Nat) (draws : List α) (r : List α × List α)
    (h : initRow size fixed xs i0 draws = .ok r) :
    r.1.length = xs.length ∧
      ∀ j, j < xs.length → fixedAt fixed (i0 + j) = true → vat r.1 j = vat xs j - size / 2 := by
  induction xs generalizing i0 draws r with
  | nil => simp only [initRow, Except.ok.injEq] at h; subst h; simp
  | cons x xs ih =>
    simp only [initRow] at h
    split at h
    · split at h
      · simp at h
      · rename_i hx hfx
        split at h
        · simp at h
        · rename_i u draws'
          rw [bind_ok] at h
          obtain ⟨r', hr', h⟩ := h
          rw [pure_ok] at h; subst h
          obtain ⟨h1, h2⟩ := ih _ _ _ hr'
          refine ⟨by simp [h1], ?_⟩
          intro j hj hf
          cases j with
          | zero => simp at hf; simp [hf] at hfx
          | succ j =>
            have := h2 j (by simpa using hj) (by rw [← hf]; congr 1; omega)
            simpa [vat] using this
    · rw [bind_ok] at h
      obtain ⟨r', hr', h⟩ := h
      rw [pure_ok] at h; subst h
      obtain ⟨h1, h2⟩ := ih _ _ _ hr'
      refine ⟨by simp [h1], ?_⟩
      intro j hj hf
      cases j with
      | zero => simp [vat]
      | succ j =>
        have := h2 j (by simpa using hj) (by rw [← hf]; congr 1; omega)
        simpa [vat] using this

/-! ### `spectral_layout_die` -/

theorem sld_unfold (o : Ops α) (adj : List (List (Edge α))) (mass : List α) (W H : α) (init0 init1 : List α)
    (fixed : List Bool) (draws : List α) (maxIter : Nat) (r : DieResult α)
    (h : spectralLayoutDie o adj mass W H init0 init1 fixed draws maxIter = .ok r) :
    ∃ (r1 r2 : List α × List α) (p1 p2 : List (List α) × Nat × List α) (c : Cst α),
      initRow W fixed init0 0 draws = .ok r1 ∧ initRow H fixed init1 0 r1.2 = .ok r2 ∧
      c.adj = adj ∧ c.fixed = fixed ∧ c.floatMass.length = adj.length ∧
      processDim c (maxSpans W (radii o mass)) maxIter [List.replicate adj.length one, r1.1, r2.1] 1 = .ok p1 ∧
      processDim c (maxSpans H (radii o mass)) maxIter p1.1 2 = .ok p2 ∧
      r.xs = p2.1.getD 1 [] ∧ r.ys = p2.1.getD 2 [] ∧ r.preX = p1.2.2 ∧ r.preY = p2.2.2 := by
  unfold spectralLayoutDie at h
  simp only [bind_ok] at h
  obtain ⟨r1, h1, r2, h2, p1, hp1, p2, hp2, h⟩ := h
  rw [pure_ok] at h
  subst h
  exact ⟨r1, r2, p1, p2, _, h1, h2, rfl, rfl, by simp, hp1, hp2, rfl, rfl, rfl, rfl⟩

/-- both coordinate rows returned by `spectral_layout_die` are the outputs of `normalize` on the recorded
    vectors, for the spans `size/2 - radius` of their dimension — for every draw list and every iteration bound. -/
theorem sld_normalized (o : Ops α) (adj : List (List (Edge α))) (mass : List α) (W H : α) (init0 init1 : List α)
    (fixed : List Bool) (draws : List α) (maxIter : Nat) (r : DieResult α)
    (h : spectralLayoutDie o adj mass W H init0 init1 fixed draws maxIter = .ok r) :
    normalize r.preX (maxSpans W (radii o mass)) fixed = .ok r.xs ∧
    normalize r.preY (maxSpans H (radii o mass)) fixed = .ok r.ys := by
  obtain ⟨r1, r2, p1, p2, c, h1, h2, ca, cf, cm, hp1, hp2, hx, hy, hpx, hpy⟩ :=
    sld_unfold o adj mass W H init0 init1 fixed draws maxIter r h
  obtain ⟨l1, f1⟩ := processDim_frame c _ maxIter _ 1 p1 hp1
  obtain ⟨l2, f2⟩ := processDim_frame c _ maxIter _ 2 p2 hp2
  have n1 := processDim_normalized c _ maxIter _ 1 p1 (by simp) hp1
  have n2 := processDim_normalized c _ maxIter _ 2 p2 (by rw [l1]; simp) hp2
  rw [cf] at n1 n2
  refine ⟨?_, ?_⟩
  · rw [hx, hpx, f2 1 (by decide)]; exact n1
  · rw [hy, hpy]; exact n2

/-- fixed nodes keep their coordinates: the result is `initial - size/2` in both dimensions. -/
theorem sld_fixed (o : Ops α) (adj : List (List (Edge α))) (mass : List α) (W H : α) (init0 init1 : List α)
    (fixed : List Bool) (draws : List α) (maxIter : Nat) (r : DieResult α)
    (h : spectralLayoutDie o adj mass W H init0 init1 fixed draws maxIter = .ok r)
    (hl0 : init0.length = adj.length) (hl1 : init1.length = adj.length)
    (i : Nat) (hi : i < adj.length) (hf : fixedAt fixed i = true) :
    vat r.xs i = vat init0 i - W / 2 ∧ vat r.ys i = vat init1 i - H / 2 := by
  obtain ⟨r1, r2, p1, p2, c, h1, h2, ca, cf, cm, hp1, hp2, hx, hy, _, _⟩ := sld_unfold o adj mass W H init0 init1 fixed draws maxIter r h
  obtain ⟨l1, f1⟩ := processDim_frame c _ maxIter _ 1 p1 hp1
  obtain ⟨l2, f2⟩ := processDim_frame c _ maxIter _ 2 p2 hp2
  obtain ⟨a1, b1⟩ := initRow_spec W fixed init0 0 draws r1 h1
  obtain ⟨a2, b2⟩ := initRow_spec H fixed init1 0 r1.2 r2 h2
  have hfc : fixedAt c.fixed i = true := by rw [cf]; exact hf
  have e1 := processDim_fixed c _ maxIter _ 1 p1 (by simp) hp1 i (by rw [ca]; exact hi) (by rw [cm]; exact hi)
    (by simp [a1, hl0, hi]) hfc
  have e2 := processDim_fixed c _ maxIter _ 2 p2 (by rw [l1]; simp) hp2 i (by rw [ca]; exact hi) (by rw [cm]; exact hi)
    (by rw [f1 2 (by decide)]; simp [a2, hl1, hi]) hfc
  refine ⟨?_, ?_⟩
  · rw [hx, f2 1 (by decide), e1]
    simpa using b1 i (by rw [hl0]; exact hi) (by simpa using hf)
  · rw [hy, e2, f1 2 (by decide)]
    simpa using b2 i (by rw [hl1]; exact hi) (by simpa using hf)

/-! ### the disc of a placed module -/

/-- a point within distance `r` of `(a, b)` is within `r` in each coordinate. -/
theorem disc_coords (a b r px py : α) (hr : 0 ≤ r) (h : (px - a) ^ 2 + (py - b) ^ 2 ≤ r ^ 2) :
    |px - a| ≤ r ∧ |py - b| ≤ r := by
  have hx : (px - a) ^ 2 ≤ r ^ 2 := by nlinarith [sq_nonneg (py - b)]
  have hy : (py - b) ^ 2 ≤ r ^ 2 := by nlinarith [sq_nonneg (px - a)]
  exact ⟨abs_le_of_sq_le_sq' hx hr |> fun ⟨u, v⟩ => abs_le.mpr ⟨u, v⟩,
         abs_le_of_sq_le_sq' hy hr |> fun ⟨u, v⟩ => abs_le.mpr ⟨u, v⟩⟩

/-! ### `recenter_rectangles` -/

theorem recenter_spec (c : α × α) (rects out : List (SRect α)) (h : recenter c rects = .ok out) :
    (rects.map fun r => r.w * r.h).sum ≠ 0 ∧
    out = rects.map fun r => { r with
      cx := r.cx + (c.1 - (rects.map fun r => r.cx * (r.w * r.h)).sum / (rects.map fun r => r.w * r.h).sum),
      cy := r.cy + (c.2 - (rects.map fun r => r.cy * (r.w * r.h)).sum / (rects.map fun r => r.w * r.h).sum) } := by
  unfold recenter at h
  simp only [bind_ok, pyDiv_ok, nsum_eq] at h
  obtain ⟨x, ⟨hA, hx⟩, y, ⟨_, hy⟩, h⟩ := h
  rw [pure_ok] at h
  subst hx hy
  exact ⟨hA, h.symm⟩

theorem sum_shift (rs : List (SRect α)) (f : SRect α → α) (d : α) :
    (rs.map fun r => (f r + d) * (r.w * r.h)).sum =
      (rs.map fun r => f r * (r.w * r.h)).sum + d * (rs.map fun r => r.w * r.h).sum := by
  induction rs with
  | nil => simp
  | cons r rs ih => simp only [List.map_cons, List.sum_cons, ih]; ring

/-! ### best-of-n and the final pass over the modules -/

theorem runTrials_spec (o : Ops α) (adj : List (List (Edge α))) (mass : List α) (W H : α) (c0 c1 : List α)
    (fixed : List Bool) (maxIter : Nat) (k : Nat) (draws : List α) (best : Option (DieResult α))
    (res : Option (DieResult α))
    (h : runTrials o adj mass W H c0 c1 fixed maxIter k draws best = .ok res) :
    res = best ∨ ∃ dr b, res = some b ∧ spectralLayoutDie o adj mass W H c0 c1 fixed dr maxIter = .ok b := by
  induction k generalizing draws best with
  | zero => simp only [runTrials, Except.ok.injEq] at h; exact Or.inl h.symm
  | succ k ih =>
    simp only [runTrials, bind_ok] at h
    obtain ⟨r, hr, h⟩ := h
    rcases ih _ _ h with hres | hres
    · cases best with
      | none =>
        simp only [betterTrial] at hres
        split at hres
        · right; exact ⟨draws, r, hres, hr⟩
        · left; exact hres
      | some b =>
        simp only [betterTrial] at hres
        split at hres
        · right; exact ⟨draws, r, hres, hr⟩
        · left; exact hres
    · right; exact hres

theorem runTrials_pos (o : Ops α) (adj : List (List (Edge α))) (mass : List α) (W H : α) (c0 c1 : List α)
    (fixed : List Bool) (maxIter : Nat) (k : Nat) (draws : List α) (b : DieResult α)
    (h : runTrials o adj mass W H c0 c1 fixed maxIter k draws none = .ok (some b)) :
    ∃ dr, spectralLayoutDie o adj mass W H c0 c1 fixed dr maxIter = .ok b := by
  rcases runTrials_spec o adj mass W H c0 c1 fixed maxIter k draws none _ h with h' | ⟨dr, b', e, hb⟩
  · simp at h'
  · simp only [Option.some.injEq] at e; subst e; exact ⟨dr, hb⟩

theorem finishAll_spec {β : Type} (xs ys : List α) (W H : α) (ms : List (SMod α β)) (i0 : Nat) (out : List (SMod α β))
    (h : finishAll xs ys W H ms i0 = .ok out) :
    out.length = ms.length ∧ ∀ j m, ms[j]? = some m →
      ∃ m', out[j]? = some m' ∧ finishModule m (vat xs (i0 + j) + W / two, vat ys (i0 + j) + H / two) = .ok m' := by
  induction ms generalizing i0 out with
  | nil => simp only [finishAll, Except.ok.injEq] at h; subst h; simp
  | cons m ms ih =>
    simp only [finishAll, bind_ok] at h
    obtain ⟨m', hm', ms', hms', h⟩ := h
    rw [pure_ok] at h; subst h
    obtain ⟨h1, h2⟩ := ih _ _ hms'
    refine ⟨by simp [h1], ?_⟩
    intro j mj hj
    cases j with
    | zero => simp at hj; subst hj; exact ⟨m', by simp, by simpa using hm'⟩
    | succ j =>
      obtain ⟨mj', a, b⟩ := h2 j mj (by simpa using hj)
      refine ⟨mj', by simpa using a, ?_⟩
      have : i0 + (j + 1) = i0 + 1 + j := by omega
      rw [this]; exact b

theorem finishModule_spec {β : Type} (m m' : SMod α β) (p : α × α) (h : finishModule m p = .ok m') :
    m'.mass = m.mass ∧ m'.fixed = m.fixed ∧ m'.hard = m.hard ∧ m'.terminal = m.terminal ∧ m'.rest = m.rest ∧
    m'.center = (if m.hard && !m.terminal then none else some p) ∧
    (if m.hard && !m.fixed then recenter p m.rects = .ok m'.rects else m'.rects = m.rects) := by
  unfold finishModule at h
  rw [bind_ok] at h
  obtain ⟨rects, hr, h⟩ := h
  rw [pure_ok] at h; subst h
  refine ⟨rfl, rfl, rfl, rfl, rfl, rfl, ?_⟩
  split at hr
  · rename_i hc; simp only [hc, ↓reduceIte]; exact hr
  · rename_i hc; simp only [hc]; rw [pure_ok] at hr; simp [hr]

/-! ### lengths -/

theorem vat_map (l : List α) (f : α → α) (i : Nat) (h : i < l.length) : vat (l.map f) i = f (vat l i) := by
  simp [vat, List.getD_eq_getElem?_getD, h]

theorem iterBody_length (c : Cst α) (span : List α) (coord : List (List α)) (d : Nat) (r : List α × α × List α)
    (h : iterBody c span coord d = .ok r) : r.1.length = c.adj.length := by
  unfold iterBody at h
  simp only [bind_ok] at h
  obtain ⟨cd, hcd, tmp, _, mx, _, mn, _, new', hn, dp, _, h⟩ := h
  rw [pure_ok] at h
  subst h
  simp only []
  rw [normalize_length _ _ _ _ hn]
  split <;> simp

theorem processDim_length (c : Cst α) (span : List α) (maxIter : Nat) (coord : List (List α)) (d : Nat)
    (res : List (List α) × Nat × List α) (hd : d < coord.length) (h : processDim c span maxIter coord d = .ok res)
    (hl : (coord.getD d []).length = c.adj.length) : (res.1.getD d []).length = c.adj.length := by
  unfold processDim at h
  rw [bind_ok] at h
  obtain ⟨x, hx, h⟩ := h
  refine dimLoop_row c span d (fun row _ => row.length = c.adj.length)
    (fun coord pre r _ hr => iterBody_length c span coord d r hr) maxIter _ _ _ _ res (by simpa using hd) ?_ h
  rw [getD_set_self _ _ _ _ hd, normalize_length _ _ _ _ hx, hl]

theorem sld_lengths (o : Ops α) (adj : List (List (Edge α))) (mass : List α) (W H : α) (init0 init1 : List α)
    (fixed : List Bool) (draws : List α) (maxIter : Nat) (r : DieResult α)
    (h : spectralLayoutDie o adj mass W H init0 init1 fixed draws maxIter = .ok r)
    (hl0 : init0.length = adj.length) (hl1 : init1.length = adj.length) :
    r.xs.length = adj.length ∧ r.ys.length = adj.length := by
  obtain ⟨r1, r2, p1, p2, c, h1, h2, ca, cf, cm, hp1, hp2, hx, hy, _, _⟩ := sld_unfold o adj mass W H init0 init1 fixed draws maxIter r h
  obtain ⟨l1, f1⟩ := processDim_frame c _ maxIter _ 1 p1 hp1
  obtain ⟨l2, f2⟩ := processDim_frame c _ maxIter _ 2 p2 hp2
  obtain ⟨a1, _⟩ := initRow_spec W fixed init0 0 draws r1 h1
  obtain ⟨a2, _⟩ := initRow_spec H fixed init1 0 r1.2 r2 h2
  have e1 := processDim_length c _ maxIter _ 1 p1 (by simp) hp1 (by simp [a1, hl0, ca])
  have e2 := processDim_length c _ maxIter _ 2 p2 (by rw [l1]; simp) hp2
    (by rw [f1 2 (by decide)]; simp [a2, hl1, ca])
  rw [ca] at e1 e2
  exact ⟨by rw [hx, f2 1 (by decide)]; exact e1, by rw [hy]; exact e2⟩

theorem pairFold_length (w : α) (ps : List (Nat × Nat)) (a0 : List (List (Edge α))) :
    (ps.foldl (fun adj sd =>
        let adj := adj.set sd.1 (adj.getD sd.1 [] ++ [(⟨sd.2, w⟩ : Edge α)])
        adj.set sd.2 (adj.getD sd.2 [] ++ [⟨sd.1, w⟩])) a0).length = a0.length := by
  induction ps generalizing a0 with
  | nil => simp
  | cons p ps ihp => simp only [List.foldl_cons]; rw [ihp]; simp

theorem buildAdj_length (n : Nat) (nets : List (SNet α)) (adj : List (List (Edge α))) (h : buildAdj n nets = .ok adj) :
    adj.length = n := by
  unfold buildAdj at h
  suffices H : ∀ (nets : List (SNet α)) (a0 adj : List (List (Edge α))),
      nets.foldlM (fun adj e =>
        if e.pins.length ≤ 1 then (.error .assertion : Except Err (List (List (Edge α)))) else
        let w := two * e.weight / ((e.pins.length : Nat) : α)
        .ok ((pairs e.pins).foldl (fun adj sd =>
          let adj := adj.set sd.1 (adj.getD sd.1 [] ++ [⟨sd.2, w⟩])
          adj.set sd.2 (adj.getD sd.2 [] ++ [⟨sd.1, w⟩])) adj)) a0 = .ok adj → adj.length = a0.length by
    rw [H nets _ adj h]; simp
  intro nets
  induction nets with
  | nil => intro a0 adj h; simp only [List.foldlM_nil, pure_ok] at h; rw [h]
  | cons e es ih =>
    intro a0 adj h
    simp only [List.foldlM_cons, bind_ok] at h
    obtain ⟨a1, h1, h2⟩ := h
    rw [ih a1 adj h2]
    split at h1
    · simp at h1
    · simp only [Except.ok.injEq] at h1
      rw [← h1]
      exact pairFold_length _ _ _

/-! ### `spectral_layout` -/

theorem trace_unfold (o : Ops α) {β : Type} (mods : List (SMod α β)) (nets : List (SNet α)) (W H : α)
    (nfl : Nat) (draws : List α) (maxIter : Nat) (out : List (SMod α β)) (b : DieResult α)
    (h : spectralLayoutTrace o mods nets W H nfl draws maxIter = .ok (out, b)) :
    layoutGuards mods nfl = true ∧
    ∃ adj dr, buildAdj mods.length nets = .ok adj ∧
      spectralLayoutDie o adj (mods.map (·.mass)) W H (initCentres mods nfl false) (initCentres mods nfl true)
        (mods.map (·.fixed)) dr maxIter = .ok b ∧
      finishAll b.xs b.ys W H mods 0 = .ok out := by
  unfold spectralLayoutTrace at h
  rw [bind_ok] at h
  obtain ⟨adj, ha, h⟩ := h
  split at h
  · rename_i hg
    rw [bind_ok] at h
    obtain ⟨best, hb, h⟩ := h
    split at h
    · simp at h
    · rename_i b'
      rw [bind_ok] at h
      obtain ⟨out', ho, h⟩ := h
      rw [pure_ok] at h
      obtain ⟨rfl, rfl⟩ := Prod.mk.inj h
      obtain ⟨dr, hd⟩ := runTrials_pos o adj _ W H _ _ _ maxIter _ draws b' hb
      exact ⟨hg, adj, dr, ha, hd, ho⟩
  · simp at h

theorem layout_trace (o : Ops α) {β : Type} (mods : List (SMod α β)) (nets : List (SNet α)) (W H : α)
    (nfl : Nat) (draws : List α) (maxIter : Nat) (out : List (SMod α β)) :
    spectralLayout o mods nets W H nfl draws maxIter = .ok out ↔
      ∃ b, spectralLayoutTrace o mods nets W H nfl draws maxIter = .ok (out, b) := by
  unfold spectralLayout
  rw [bind_ok]
  constructor
  · rintro ⟨r, hr, h⟩
    rw [pure_ok] at h
    exact ⟨r.2, by rw [hr, ← h]⟩
  · rintro ⟨b, hb⟩
    exact ⟨(out, b), hb, by rw [pure_ok]⟩

theorem initCentres_length {β : Type} (mods : List (SMod α β)) (nfl : Nat) (d : Bool) :
    (initCentres mods nfl d : List α).length = mods.length := by
  simp [initCentres]

theorem initCentres_fixed {β : Type} (mods : List (SMod α β)) (nfl : Nat) (i : Nat) (m : SMod α β) (c : α × α)
    (hm : mods[i]? = some m) (hf : m.fixed = true) (hc : m.center = some c) :
    vat (initCentres mods nfl false) i = c.1 ∧ vat (initCentres mods nfl true) i = c.2 := by
  simp [initCentres, vat, List.getD_eq_getElem?_getD, hm, hc, hf]

theorem fixedAt_map {β : Type} (mods : List (SMod α β)) (i : Nat) (m : SMod α β) (hm : mods[i]? = some m) :
    fixedAt (mods.map (·.fixed)) i = m.fixed := by
  simp [fixedAt, List.getD_eq_getElem?_getD, hm]

theorem vat_mass_map {β : Type} (mods : List (SMod α β)) (i : Nat) (m : SMod α β) (hm : mods[i]? = some m) :
    vat (mods.map (·.mass)) i = m.mass := by
  simp [vat, List.getD_eq_getElem?_getD, hm]

/-! ### progress: the centroid step cannot fail when every node has a net -/

theorem mapM_ok_of_forall {γ δ : Type} (f : γ → Except Err δ) (l : List γ) (h : ∀ x ∈ l, ∃ y, f x = .ok y) :
    ∃ ys, l.mapM f = .ok ys := by
  induction l with
  | nil => exact ⟨[], by simp [pure, Except.pure]⟩
  | cons a as ih =>
    obtain ⟨b, hb⟩ := h a (by simp)
    obtain ⟨bs, hbs⟩ := ih (fun x hx => h x (List.mem_cons_of_mem _ hx))
    exact ⟨b :: bs, by simp [List.mapM_cons, hb, hbs, bind, Except.bind, pure, Except.pure]⟩

theorem sum_weights_pos (es : List (Edge α)) (hne : es ≠ []) (hw : ∀ e ∈ es, 0 < e.weight) :
    0 < (es.map (·.weight)).sum := by
  induction es with
  | nil => exact absurd rfl hne
  | cons e es ih =>
    simp only [List.map_cons, List.sum_cons]
    have he := hw e (by simp)
    cases es with
    | nil => simpa using he
    | cons e' es' =>
      have := ih (by simp) (fun x hx => hw x (List.mem_cons_of_mem _ hx))
      linarith

theorem calculateCentroids_ok (adj : List (List (Edge α))) (coord degree : List α)
    (h : ∀ i, i < coord.length → vat degree i ≠ 0) : ∃ out, calculateCentroids adj coord degree = .ok out := by
  unfold calculateCentroids
  apply mapM_ok_of_forall
  intro i hi
  have hi' : i < coord.length := List.mem_range.mp hi
  refine ⟨half * (vat coord i +
    nsum (List.map (fun e => e.weight * vat coord e.node) (adj.getD i [])) / vat degree i), ?_⟩
  rw [bind_ok]
  exact ⟨_, (pyDiv_ok _ _ _).mpr ⟨h i hi', rfl⟩, rfl⟩

/-! ### best-of-n: the trial loop is a fold of `betterTrial` over the trial results -/

theorem runTrials_eq_fold (o : Ops α) (adj : List (List (Edge α))) (mass : List α) (W H : α) (c0 c1 : List α)
    (fixed : List Bool) (maxIter : Nat) (k : Nat) (draws : List α) (best : Option (DieResult α)) :
    runTrials o adj mass W H c0 c1 fixed maxIter k draws best =
      (trialResults o adj mass W H c0 c1 fixed maxIter k draws).map fun rs => rs.foldl (betterTrial o) best := by
  induction k generalizing draws best with
  | zero => rfl
  | succ k ih =>
    simp only [runTrials, trialResults, bind, Except.bind]
    cases hr : spectralLayoutDie o adj mass W H c0 c1 fixed draws maxIter with
    | error e => rfl
    | ok r =>
      simp only
      rw [ih]
      cases trialResults o adj mass W H c0 c1 fixed maxIter k r.draws with
      | error e => rfl
      | ok rs => rfl

/-- the fold of `betterTrial` from `none` is the selection loop of the force model (`Force.argminFrom`) on the
    wirelengths: same "first strictly smaller, starting from `inf`" rule. -/
theorem betterTrial_fold_eq_argmin (o : Ops α) (rs : List (DieResult α)) (best : Option (DieResult α)) :
    (rs.foldl (betterTrial o) best) =
      (argminFrom o.ltInf (rs.map fun r => (r, r.wl)) (best.map fun b => (b, b.wl))).map Prod.fst := by
  induction rs generalizing best with
  | nil => cases best <;> rfl
  | cons r rs ih =>
    simp only [List.foldl_cons, List.map_cons, argminFrom]
    rw [ih]
    unfold argminFrom
    congr 1
    cases best with
    | none =>
      simp only [betterTrial, Option.map_none]
      split <;> rfl
    | some b =>
      simp only [betterTrial, Option.map_some]
      split <;> rfl

/-- when no trial has a wirelength below `inf` (all `inf` / NaN), the loop ends with `best_coord = None`. -/
theorem betterTrial_fold_none (o : Ops α) (rs : List (DieResult α)) (h : ∀ r ∈ rs, o.ltInf r.wl = false) :
    rs.foldl (betterTrial o) none = none := by
  induction rs with
  | nil => rfl
  | cons r rs ih =>
    simp only [List.foldl_cons, betterTrial, h r (by simp)]
    exact ih (fun x hx => h x (List.mem_cons_of_mem _ hx))

/-- the winner is the FIRST trial of strictly smallest wirelength (every wirelength below `inf`). -/
theorem betterTrial_fold_spec (o : Ops α) (hlt : ∀ x, o.ltInf x = true) (rs : List (DieResult α)) :
    (rs = [] ∧ rs.foldl (betterTrial o) none = none) ∨
    ∃ b l1 l2, rs.foldl (betterTrial o) none = some b ∧ rs = l1 ++ b :: l2 ∧
      (∀ x ∈ l1, b.wl < x.wl) ∧ (∀ x ∈ l2, b.wl ≤ x.wl) := by
  rw [betterTrial_fold_eq_argmin]
  simp only [Option.map_none]
  rcases argminFrom_spec o.ltInf hlt (rs.map fun r => (r, r.wl)) with ⟨he, hn⟩ | ⟨b, l1, l2, hb, e, m1, m2⟩
  · left
    exact ⟨by simpa using he, by rw [hn]; rfl⟩
  · right
    have hmem : b ∈ rs.map fun r => (r, r.wl) := by rw [e]; simp
    obtain ⟨b0, _, hb0⟩ := List.mem_map.mp hmem
    have hb2 : b.2 = b.1.wl := by rw [← hb0]
    -- split `rs` along the decomposition of the mapped list
    have hfst : rs = (l1 ++ b :: l2).map Prod.fst := by
      rw [← e]; simp [List.map_map, Function.comp_def]
    have hsnd : ∀ x ∈ l1 ++ b :: l2, x.2 = x.1.wl := by
      intro x hx
      rw [← e] at hx
      obtain ⟨r, _, hr⟩ := List.mem_map.mp hx
      rw [← hr]
    refine ⟨b.1, l1.map Prod.fst, l2.map Prod.fst, by rw [hb]; rfl, by rw [hfst]; simp, ?_, ?_⟩
    · intro x hx
      obtain ⟨y, hy, rfl⟩ := List.mem_map.mp hx
      have := m1 y hy
      rw [hb2, hsnd y (by simp [hy])] at this
      exact this
    · intro x hx
      obtain ⟨y, hy, rfl⟩ := List.mem_map.mp hx
      have := m2 y hy
      rw [hb2, hsnd y (by simp [hy])] at this
      exact this

theorem trialResults_length (o : Ops α) (adj : List (List (Edge α))) (mass : List α) (W H : α) (c0 c1 : List α)
    (fixed : List Bool) (maxIter : Nat) (k : Nat) (draws : List α) (rs : List (DieResult α))
    (h : trialResults o adj mass W H c0 c1 fixed maxIter k draws = .ok rs) : rs.length = k := by
  induction k generalizing draws rs with
  | zero => simp only [trialResults, Except.ok.injEq] at h; subst h; rfl
  | succ k ih =>
    simp only [trialResults, bind_ok] at h
    obtain ⟨r, _, rs', hrs, h⟩ := h
    rw [pure_ok] at h; subst h
    simp [ih _ _ hrs]

/-- every trial result is the result of one call of `spectral_layout_die`. -/
theorem trialResults_mem (o : Ops α) (adj : List (List (Edge α))) (mass : List α) (W H : α) (c0 c1 : List α)
    (fixed : List Bool) (maxIter : Nat) (k : Nat) (draws : List α) (rs : List (DieResult α))
    (h : trialResults o adj mass W H c0 c1 fixed maxIter k draws = .ok rs) (r : DieResult α) (hr : r ∈ rs) :
    ∃ dr, spectralLayoutDie o adj mass W H c0 c1 fixed dr maxIter = .ok r := by
  induction k generalizing draws rs with
  | zero => simp only [trialResults, Except.ok.injEq] at h; subst h; simp at hr
  | succ k ih =>
    simp only [trialResults, bind_ok] at h
    obtain ⟨r0, h0, rs', hrs, h⟩ := h
    rw [pure_ok] at h; subst h
    rcases List.mem_cons.mp hr with e | e
    · exact ⟨draws, by rw [e]; exact h0⟩
    · exact ih _ _ hrs e

/-- a returning `spectral_layout`: the graph, the guards, and the trial loop that selected `b`. -/
theorem trace_trials (o : Ops α) {β : Type} (mods : List (SMod α β)) (nets : List (SNet α)) (W H : α)
    (nfl : Nat) (draws : List α) (maxIter : Nat) (out : List (SMod α β)) (b : DieResult α)
    (h : spectralLayoutTrace o mods nets W H nfl draws maxIter = .ok (out, b)) :
    ∃ adj rs, buildAdj mods.length nets = .ok adj ∧
      trialResults o adj (mods.map (·.mass)) W H (initCentres mods nfl false) (initCentres mods nfl true)
        (mods.map (·.fixed)) maxIter (if nfl = 0 then 1 else nfl) draws = .ok rs ∧
      rs.foldl (betterTrial o) none = some b := by
  unfold spectralLayoutTrace at h
  rw [bind_ok] at h
  obtain ⟨adj, ha, h⟩ := h
  split at h
  · rw [bind_ok] at h
    obtain ⟨best, hb, h⟩ := h
    split at h
    · simp at h
    · rename_i b'
      rw [bind_ok] at h
      obtain ⟨out', ho, h⟩ := h
      rw [pure_ok] at h
      obtain ⟨rfl, rfl⟩ := Prod.mk.inj h
      rw [runTrials_eq_fold] at hb
      cases hr : trialResults o adj (mods.map (·.mass)) W H (initCentres mods nfl false) (initCentres mods nfl true)
          (mods.map (·.fixed)) maxIter (if nfl = 0 then 1 else nfl) draws with
      | error e => rw [hr] at hb; cases hb
      | ok rs =>
        rw [hr] at hb
        exact ⟨adj, rs, ha, hr, Except.ok.inj hb⟩
  · simp at h

/-- when every trial comes back with a wirelength that is not below `inf`, `spectral_layout` fails its
    `assert best_coord is not None`. -/
theorem trace_nonfinite (o : Ops α) {β : Type} (mods : List (SMod α β)) (nets : List (SNet α)) (W H : α)
    (nfl : Nat) (draws : List α) (maxIter : Nat) (adj : List (List (Edge α))) (rs : List (DieResult α))
    (ha : buildAdj mods.length nets = .ok adj)
    (hrs : trialResults o adj (mods.map (·.mass)) W H (initCentres mods nfl false) (initCentres mods nfl true)
        (mods.map (·.fixed)) maxIter (if nfl = 0 then 1 else nfl) draws = .ok rs)
    (hinf : ∀ r ∈ rs, o.ltInf r.wl = false) :
    spectralLayoutTrace o mods nets W H nfl draws maxIter = .error .assertion := by
  unfold spectralLayoutTrace
  simp only [ha, bind, Except.bind]
  split
  · rw [runTrials_eq_fold, hrs]
    simp only [Except.map, betterTrial_fold_none o rs hinf]
  · rfl

end FV.Spectral

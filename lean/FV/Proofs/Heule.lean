import FV.Proofs.Codify
/-
  Helper lemmas for C07, part 4: Heule's chained at-most-one encoding (`SATManager.heuleencoding`), for every
  chain width `k ≥ 3` and every list.  Core Lean only.
-/
set_option linter.unusedSectionVars false
namespace FV.Sat
open FV.PB

/-- the list mentions no auxiliary variable numbered above `n` (they are all still fresh) -/
def auxOK (n : Nat) (lst : List Lit) : Prop := ∀ l ∈ lst, ∀ a, l.v = .aux a → a ≤ n

/-- `v` is one of the auxiliary variables created while the counter went from `lo` to `hi` -/
def newAux (lo hi : Nat) (v : Var) : Prop := ∃ a, v = .aux a ∧ lo < a ∧ a ≤ hi

theorem litTrue_congr {τ τ' : Var → Bool} {l : Lit} (h : τ l.v = τ' l.v) : litTrue τ l = litTrue τ' l := by
  simp [litTrue, h]

theorem countP_litTrue_congr {τ τ' : Var → Bool} {lst : List Lit} (h : ∀ l ∈ lst, τ l.v = τ' l.v) :
    lst.countP (litTrue τ) = lst.countP (litTrue τ') := by
  induction lst with
  | nil => rfl
  | cons a r ih =>
    simp only [List.countP_cons, litTrue_congr (h a (by simp)), ih (fun l hl => h l (by simp [hl]))]

theorem quadClauses_vars {lst : List Lit} : ∀ c ∈ quadClauses lst, ∀ l ∈ c, ∃ l' ∈ lst, l.v = l'.v := by
  induction lst with
  | nil => simp [quadClauses]
  | cons x r ih =>
    intro c hc l hl
    simp only [quadClauses, List.mem_append, List.mem_map] at hc
    rcases hc with ⟨y, hy, rfl⟩ | hc
    · simp at hl
      rcases hl with rfl | rfl
      · exact ⟨x, by simp, rfl⟩
      · exact ⟨y, by simp [hy], rfl⟩
    · obtain ⟨l', hl', e⟩ := ih c hc l hl
      exact ⟨l', by simp [hl'], e⟩

@[simp] theorem quadratic_clauses (m : Mgr) (lst : List Lit) : (m.quadratic lst).clauses = m.clauses ++ quadClauses lst := rfl
@[simp] theorem quadratic_codified (m : Mgr) (lst : List Lit) : (m.quadratic lst).codified = m.codified := rfl
@[simp] theorem quadratic_auxcount (m : Mgr) (lst : List Lit) : (m.quadratic lst).auxcount = m.auxcount := rfl

/-- what `heuleencoding` (and, as the base case, `quadraticencoding`) does to the manager: it appends clauses `ext`
    that only mention the list's variables and brand-new auxiliaries; every model of `ext` has at most one literal of
    the list true; every assignment with at most one true literal extends, by choosing the new auxiliaries, to a
    model of `ext` -/
structure AmoStep (m m' : Mgr) (lst : List Lit) : Prop where
  cod : m'.codified = m.codified
  aux_le : m.auxcount ≤ m'.auxcount
  clauses : ∃ ext, m'.clauses = m.clauses ++ ext ∧
    (∀ c ∈ ext, ∀ l ∈ c, (∃ l' ∈ lst, l.v = l'.v) ∨ newAux m.auxcount m'.auxcount l.v) ∧
    (∀ τ, cnfTrue τ ext → amo τ lst) ∧
    (∀ τ0, amo τ0 lst → ∃ τ, (∀ v, ¬ newAux m.auxcount m'.auxcount v → τ v = τ0 v) ∧ cnfTrue τ ext)

theorem quadratic_step (m : Mgr) (lst : List Lit) : AmoStep m (m.quadratic lst) lst where
  cod := rfl
  aux_le := Nat.le_refl _
  clauses := ⟨quadClauses lst, rfl, fun c hc l hl => Or.inl (quadClauses_vars c hc l hl),
    fun τ h => (quadClauses_exact τ lst).1 h, fun τ0 h => ⟨τ0, fun _ _ => rfl, (quadClauses_exact τ0 lst).2 h⟩⟩

theorem heuleGo_step (k : Nat) (hk : 3 ≤ k) : ∀ (n : Nat) (lst : List Lit) (m : Mgr), lst.length = n →
    auxOK m.auxcount lst → AmoStep m (Mgr.heuleGo k hk m lst) lst := by
  intro n
  induction n using Nat.strongRecOn with
  | _ n ih =>
    intro lst m hn hok
    rw [Mgr.heuleGo]
    split
    · exact quadratic_step m lst
    · rename_i hlen
      simp only [Mgr.newaux]
      -- names
      generalize hfr : (⟨.aux (m.auxcount + 1), true⟩ : Lit) = fresh
      generalize hm1 : (({ m with auxcount := m.auxcount + 1 } : Mgr).newvar (.aux (m.auxcount + 1))).quadratic
        (lst.take (k - 1) ++ [fresh]) = m1
      have m1c : m1.clauses = m.clauses ++ quadClauses (lst.take (k - 1) ++ [fresh]) := by subst hm1; simp
      have m1d : m1.codified = m.codified := by subst hm1; simp
      have m1a : m1.auxcount = m.auxcount + 1 := by subst hm1; simp
      have hfv : fresh.v = .aux (m.auxcount + 1) := by subst hfr; rfl
      have hsplit : lst = lst.take (k - 1) ++ lst.drop (k - 1) := (List.take_append_drop _ _).symm
      have hok2 : auxOK m1.auxcount (fresh.neg :: lst.drop (k - 1)) := by
        intro l hl a ha
        simp at hl
        rcases hl with rfl | hl
        · simp [Literal.neg, hfv] at ha; omega
        · have := hok l (List.mem_of_mem_drop hl) a ha; omega
      have step := ih (fresh.neg :: lst.drop (k - 1)).length (by simp [List.length_drop]; omega)
        (fresh.neg :: lst.drop (k - 1)) m1 rfl hok2
      obtain ⟨ext, hext, hvars, hsound, hcompl⟩ := step.clauses
      have haux := step.aux_le
      -- variables of the list are not the fresh auxiliary
      have hnotfresh : ∀ l ∈ lst, ∀ a, l.v = .aux a → a ≤ m.auxcount := hok
      have hcount (τ : Var → Bool) : lst.countP (litTrue τ)
          = (lst.take (k - 1)).countP (litTrue τ) + (lst.drop (k - 1)).countP (litTrue τ) := by
        conv => lhs; rw [hsplit]
        rw [List.countP_append]
      refine ⟨by rw [step.cod, m1d], by omega, quadClauses (lst.take (k - 1) ++ [fresh]) ++ ext,
        by rw [hext, m1c, List.append_assoc], ?_, ?_, ?_⟩
      · intro c hc l hl
        rcases List.mem_append.1 hc with hc | hc
        · obtain ⟨l', hl', e⟩ := quadClauses_vars c hc l hl
          rcases List.mem_append.1 hl' with h | h
          · exact Or.inl ⟨l', List.mem_of_mem_take h, e⟩
          · simp at h; subst h
            exact Or.inr ⟨m.auxcount + 1, by rw [e, hfv], by omega, by omega⟩
        · rcases hvars c hc l hl with ⟨l', hl', e⟩ | ⟨a, ha, h1, h2⟩
          · simp at hl'
            rcases hl' with rfl | hl'
            · exact Or.inr ⟨m.auxcount + 1, by rw [e]; simp [Literal.neg, hfv], by omega, by omega⟩
            · exact Or.inl ⟨l', List.mem_of_mem_drop hl', e⟩
          · exact Or.inr ⟨a, ha, by omega, h2⟩
      · intro τ hτ
        rw [cnfTrue_append] at hτ
        have a1 := (quadClauses_exact τ _).1 hτ.1
        have a2 := hsound τ hτ.2
        simp only [amo, List.countP_append, List.countP_cons, List.countP_nil, litTrue_neg] at a1 a2 ⊢
        rw [hcount τ]
        cases hf : litTrue τ fresh <;>
          simp only [hf, Bool.not_true, Bool.not_false, if_true, if_false, Bool.false_eq_true] at a1 a2 <;> omega
      · intro τ0 h0
        simp only [amo] at h0
        rw [hcount τ0] at h0
        -- the auxiliary is true iff a literal behind the cut is true
        obtain ⟨f, hfdef⟩ : ∃ f : Bool, (f = true ↔ (lst.drop (k - 1)).countP (litTrue τ0) ≠ 0) :=
          ⟨decide ((lst.drop (k - 1)).countP (litTrue τ0) ≠ 0), by simp⟩
        obtain ⟨τ1, hτ1def⟩ : ∃ τ1 : Var → Bool, ∀ v, τ1 v = if v = .aux (m.auxcount + 1) then f else τ0 v :=
          ⟨fun v => if v = .aux (m.auxcount + 1) then f else τ0 v, fun _ => rfl⟩
        have hτ1 : ∀ l ∈ lst, τ1 l.v = τ0 l.v := by
          intro l hl
          rw [hτ1def]
          split
          · rename_i h; have := hnotfresh l hl _ h; omega
          · rfl
        have hft : litTrue τ1 fresh = f := by subst hfr; simp [litTrue, hτ1def]
        have cT : (lst.take (k - 1)).countP (litTrue τ1) = (lst.take (k - 1)).countP (litTrue τ0) :=
          countP_litTrue_congr fun l hl => hτ1 l (List.mem_of_mem_take hl)
        have cD : (lst.drop (k - 1)).countP (litTrue τ1) = (lst.drop (k - 1)).countP (litTrue τ0) :=
          countP_litTrue_congr fun l hl => hτ1 l (List.mem_of_mem_drop hl)
        have amo2 : amo τ1 (fresh.neg :: lst.drop (k - 1)) := by
          simp only [amo, List.countP_cons, litTrue_neg, hft, cD]
          cases hfb : f
          · have : ¬ (lst.drop (k - 1)).countP (litTrue τ0) ≠ 0 := fun h => by simp [hfdef.2 h] at hfb
            simp only [Bool.not_false, if_true]; omega
          · have := hfdef.1 hfb
            simp only [Bool.not_true, Bool.false_eq_true, if_false]; omega
        obtain ⟨τ2, hagree, hτ2⟩ := hcompl τ1 amo2
        refine ⟨τ2, ?_, ?_⟩
        · intro v hv
          have h1 : τ2 v = τ1 v := hagree v (by
            rintro ⟨a, ha, h1, h2⟩
            exact hv ⟨a, ha, by omega, h2⟩)
          rw [h1, hτ1def]
          split
          · rename_i h; exact absurd ⟨m.auxcount + 1, h, by omega, by omega⟩ hv
          · rfl
        · rw [cnfTrue_append]
          refine ⟨(quadClauses_exact τ2 _).2 ?_, hτ2⟩
          have h21 : ∀ l ∈ lst.take (k - 1) ++ [fresh], τ2 l.v = τ1 l.v := by
            intro l hl
            apply hagree
            rintro ⟨a, ha, h1, h2⟩
            rcases List.mem_append.1 hl with h | h
            · have := hnotfresh l (List.mem_of_mem_take h) a ha; omega
            · simp at h; subst h; rw [hfv] at ha; simp at ha; omega
          simp only [amo]
          rw [countP_litTrue_congr h21]
          simp only [List.countP_append, List.countP_cons, List.countP_nil, hft, cT]
          cases hfb : f
          · simp only [Bool.false_eq_true, if_false]; omega
          · have := hfdef.1 hfb
            simp only [if_true]; omega

end FV.Sat

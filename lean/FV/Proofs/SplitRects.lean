import FV.Model.SplitRects
import FV.Props.C18
import FV.Proofs.Stog
/-
  Helper lemmas for the die-refinement model (`FV/Model/SplitRects.lean`), property C11:
  * the `heapq` transcription only permutes its array;
  * the tiling invariant `Refines` and its preservation by any split;
  * partial correctness and termination of the worklists and of `split_rectangles`.
-/
namespace FV
set_option linter.unusedSectionVars false
set_option linter.unusedSimpArgs false
set_option linter.unusedVariables false

/-! ### `heapq` only permutes -/
namespace Heapq

variable {β : Type} (lt : β → β → Bool)

/-- moving the "hole" of a sift: writing `a[j]` at `i` and the carried item at `j` is, up to a permutation,
    the same as writing the carried item at `i`. -/
theorem hole_move (l : List β) (i j : Nat) (hi : i < l.length) (hj : j < l.length) (hij : i ≠ j) (x : β) :
    ((l.set i l[j]).set j x).Perm (l.set i x) := by
  have h := Stog.swap_perm (l.set i x) i j (by simpa using hi) (by simpa using hj)
  have e1 : (l.set i x)[j]'(by simpa using hj) = l[j] := by
    rw [List.getElem_set]; simp [hij]
  have e2 : (l.set i x)[i]'(by simpa using hi) = x := by
    rw [List.getElem_set]; simp
  rw [e1, e2, List.set_set] at h
  exact h

theorem siftdownLoop_perm (startpos : Nat) (newitem : β) (fuel : Nat) (heap : Array β) (pos : Nat)
    (hpos : pos < heap.size) :
    (siftdownLoop lt startpos newitem fuel heap pos).toList.Perm (heap.toList.set pos newitem) := by
  induction fuel generalizing heap pos with
  | zero => simp [siftdownLoop]
  | succ fuel ih =>
    unfold siftdownLoop
    split
    · rename_i hsp
      have hpp : (pos - 1) >>> 1 < pos := by
        rw [Nat.shiftRight_eq_div_pow]; simp; omega
      have hpps : (pos - 1) >>> 1 < heap.size := by omega
      simp only [Array.getElem?_eq_getElem hpps]
      split
      · refine (ih _ _ (by simpa using hpps)).trans ?_
        simp only [Array.toList_setIfInBounds]
        have := hole_move heap.toList pos ((pos - 1) >>> 1) (by simpa using hpos) (by simpa using hpps)
          (by omega) newitem
        simpa using this
      · simp
    · simp

theorem siftdown_perm (heap : Array β) (startpos pos : Nat) : (siftdown lt heap startpos pos).toList.Perm heap.toList := by
  unfold siftdown
  split
  · exact List.Perm.refl _
  · rename_i newitem h
    obtain ⟨hp, rfl⟩ := Array.getElem?_eq_some_iff.mp h
    refine (siftdownLoop_perm lt startpos _ pos heap pos hp).trans ?_
    rw [← Array.getElem_toList, List.set_getElem_self]

theorem smallerChild_spec (heap : Array β) (childpos : Nat) (hc : childpos < heap.size) :
    smallerChild lt heap childpos = childpos ∨
      (smallerChild lt heap childpos = childpos + 1 ∧ childpos + 1 < heap.size) := by
  unfold smallerChild
  simp only
  split
  · split
    · rename_i hh; simp only [Bool.and_eq_true, decide_eq_true_eq] at hh; exact Or.inr ⟨rfl, hh.1⟩
    · exact Or.inl rfl
  · exact Or.inl rfl

theorem siftupLoop_perm (fuel : Nat) (heap : Array β) (pos : Nat) (hpos : pos < heap.size) :
    (siftupLoop lt fuel heap pos).2 < (siftupLoop lt fuel heap pos).1.size ∧
    ∀ x, ((siftupLoop lt fuel heap pos).1.toList.set (siftupLoop lt fuel heap pos).2 x).Perm (heap.toList.set pos x) := by
  induction fuel generalizing heap pos with
  | zero => exact ⟨hpos, fun x => List.Perm.refl _⟩
  | succ fuel ih =>
    unfold siftupLoop
    simp only
    split
    · rename_i hc
      generalize hcp : smallerChild lt heap (2 * pos + 1) = cp
      have hcp_lt : cp < heap.size ∧ pos ≠ cp := by
        rcases smallerChild_spec lt heap (2 * pos + 1) hc with e | ⟨e, e'⟩
        · rw [← hcp, e]; exact ⟨hc, by omega⟩
        · rw [← hcp, e]; exact ⟨e', by omega⟩
      simp only [Array.getElem?_eq_getElem hcp_lt.1]
      have := ih (heap.setIfInBounds pos heap[cp]) cp (by simpa using hcp_lt.1)
      refine ⟨this.1, fun x => (this.2 x).trans ?_⟩
      simp only [Array.toList_setIfInBounds]
      have hm := hole_move heap.toList pos cp (by simpa using hpos) (by simpa using hcp_lt.1) hcp_lt.2 x
      simpa using hm
    · exact ⟨hpos, fun x => List.Perm.refl _⟩

theorem siftup_perm (heap : Array β) (pos : Nat) : (siftup lt heap pos).toList.Perm heap.toList := by
  unfold siftup
  split
  · exact List.Perm.refl _
  · rename_i newitem h
    obtain ⟨hp, rfl⟩ := Array.getElem?_eq_some_iff.mp h
    have := siftupLoop_perm lt heap.size heap pos hp
    simp only
    refine (siftdown_perm lt _ _ _).trans ?_
    simp only [Array.toList_setIfInBounds]
    refine (this.2 heap[pos]).trans ?_
    rw [← Array.getElem_toList, List.set_getElem_self]

theorem heappush_perm (heap : Array β) (item : β) : (heappush lt heap item).toList.Perm (item :: heap.toList) := by
  unfold heappush
  refine (siftdown_perm lt _ _ _).trans ?_
  simp only [Array.toList_push]
  exact List.perm_append_singleton _ _

theorem heappop_perm (heap : Array β) (x : β) (heap' : Array β) (h : heappop lt heap = some (x, heap')) :
    heap.toList.Perm (x :: heap'.toList) := by
  unfold heappop at h
  split at h
  · simp at h
  · rename_i lastelt hb
    have hne : heap.toList ≠ [] := by
      intro e; have : heap = #[] := by cases heap; simp_all
      subst this; simp at hb
    have hsplit : heap.toList = heap.pop.toList ++ [lastelt] := by
      have h1 : heap.toList.getLast? = some lastelt := by
        rw [Array.getLast?_toList]; exact hb
      rw [Array.toList_pop]
      have := List.dropLast_append_getLast? (l := heap.toList) lastelt h1
      exact this.symm
    simp only at h
    split at h
    · rename_i returnitem h0
      simp only [Option.some.injEq, Prod.mk.injEq] at h
      obtain ⟨rfl, rfl⟩ := h
      obtain ⟨hp, hret⟩ := Array.getElem?_eq_some_iff.mp h0
      rw [hsplit]
      have h1 := siftup_perm lt (heap.pop.setIfInBounds 0 lastelt) 0
      refine List.Perm.trans ?_ (List.Perm.cons _ h1.symm)
      simp only [Array.toList_setIfInBounds]
      -- heap.pop = returnitem :: tl
      match hl : heap.pop.toList with
      | [] => have hlen : heap.pop.toList.length = heap.pop.size := Array.length_toList
              rw [hl] at hlen; simp only [List.length_nil] at hlen; omega
      | a :: tl =>
        have ha : a = returnitem := by
          have e : heap.pop.toList[0]'(by rw [Array.length_toList]; exact hp) = heap.pop[0] := Array.getElem_toList _
          rw [← hret, ← e]; simp only [hl, List.getElem_cons_zero]
        subst ha
        simp only [List.set_cons_zero]
        exact (List.perm_append_singleton lastelt (a :: tl)).trans (List.Perm.swap _ _ _)
    · rename_i h0
      simp only [Option.some.injEq, Prod.mk.injEq] at h
      obtain ⟨rfl, rfl⟩ := h
      rw [hsplit]
      exact List.perm_append_singleton _ _

theorem heappop_isSome (heap : Array β) (h : 0 < heap.size) : (heappop lt heap).isSome = true := by
  unfold heappop
  have : heap.back? = some heap[heap.size - 1] := by
    simp [Array.back?, Array.getElem?_eq_getElem (show heap.size - 1 < heap.size by omega)]
  rw [this]
  simp only
  split <;> rfl

theorem heapify_perm (x : Array β) : (heapify lt x).toList.Perm x.toList := by
  unfold heapify
  generalize (List.range (x.size / 2)).reverse = is
  induction is generalizing x with
  | nil => exact List.Perm.refl _
  | cons i is ih =>
    simp only [List.foldl_cons]
    exact (ih _).trans (siftup_perm lt x i)

end Heapq

/-! ### the tiling invariant -/
namespace SplitRects
open FV.Rect FV.C18

variable {α : Type} [Field α] [LinearOrder α] [IsStrictOrderedRing α]

/-- the 1-D overlap shrinks with the first interval. -/
theorem ovLen_mono (l1 h1 l1' h1' l2 h2 : α) (hl : l1 ≤ l1') (hh : h1' ≤ h1) :
    ovLen l1' h1' l2 h2 ≤ ovLen l1 h1 l2 h2 := by
  unfold ovLen; grind

/-- a rectangle inside `q` overlaps nothing that `q` does not overlap. -/
theorem areaOverlap_zero_of_inside (p q x : Rect α) (hin : p.isInside q = true) (h0 : q.areaOverlap x = 0) :
    p.areaOverlap x = 0 := by
  rw [isInside_iff_coords] at hin
  obtain ⟨a1, a2, a3, a4⟩ := hin
  rw [areaOverlap_eq] at h0 ⊢
  have mx := ovLen_mono q.xmin q.xmax p.xmin p.xmax x.xmin x.xmax a1 a3
  have my := ovLen_mono q.ymin q.ymax p.ymin p.ymax x.ymin x.ymax a2 a4
  have nx := ovLen_nonneg p.xmin p.xmax x.xmin x.xmax
  have ny := ovLen_nonneg p.ymin p.ymax x.ymin x.ymax
  rcases mul_eq_zero.mp h0 with c | c
  · have : ovLen p.xmin p.xmax x.xmin x.xmax = 0 := le_antisymm (by rw [← c]; exact mx) nx
    rw [this, zero_mul]
  · have : ovLen p.ymin p.ymax x.ymin x.ymax = 0 := le_antisymm (by rw [← c]; exact my) ny
    rw [this, mul_zero]

theorem isInside_trans (a b c : Rect α) (h1 : a.isInside b = true) (h2 : b.isInside c = true) : a.isInside c = true := by
  rw [isInside_iff_coords] at *
  obtain ⟨a1, a2, a3, a4⟩ := h1
  obtain ⟨b1, b2, b3, b4⟩ := h2
  exact ⟨le_trans b1 a1, le_trans b2 a2, le_trans a3 b3, le_trans a4 b4⟩

theorem isInside_refl (a : Rect α) : a.isInside a = true := by
  rw [isInside_iff_coords]; exact ⟨le_refl _, le_refl _, le_refl _, le_refl _⟩

/-- a piece of `r`: inside it, same tag / flags, non-degenerate. -/
def PieceOf (r p : Rect α) : Prop :=
  p.isInside r = true ∧ p.region = r.region ∧ p.fixed = r.fixed ∧ p.hard = r.hard ∧ 0 < p.w ∧ 0 < p.h

/-- the rectangles `ps` tile `r` exactly: each is a piece of `r`, they are pairwise non-overlapping, their areas
    add up to the area of `r`, and every point of `r` is in one of them. -/
structure TilesN (r : Rect α) (ps : List (Rect α)) : Prop where
  piece : ∀ p ∈ ps, PieceOf r p
  disjoint : ps.Pairwise (fun a b => a.areaOverlap b = 0)
  area : (ps.map Rect.area).sum = r.area
  cover : ∀ x y, Mem r x y → ∃ p ∈ ps, Mem p x y

theorem tilesN_self (r : Rect α) (hw : 0 < r.w) (hh : 0 < r.h) : TilesN r [r] := by
  refine ⟨?_, by simp, by simp, fun x y hm => ⟨r, by simp, hm⟩⟩
  intro p hp; simp only [List.mem_singleton] at hp; subst hp
  exact ⟨isInside_refl _, rfl, rfl, rfl, hw, hh⟩

theorem tilesN_perm (r : Rect α) (ps qs : List (Rect α)) (hp : ps.Perm qs) (h : TilesN r ps) : TilesN r qs := by
  refine ⟨fun p hq => h.piece p (hp.symm.subset hq), ?_, ?_, ?_⟩
  · exact (hp.pairwise_iff (fun {a b} hab => by rw [areaOverlap_comm]; exact hab)).mp h.disjoint
  · rw [← h.area]; exact ((hp.map Rect.area).sum_eq).symm
  · intro x y hm; obtain ⟨p, hpm, hmem⟩ := h.cover x y hm; exact ⟨p, hp.subset hpm, hmem⟩

/-- **any split preserves the tiling**: replacing a tile by two rectangles that tile it. -/
theorem tilesN_replace (r p p1 p2 : Rect α) (rest : List (Rect α)) (h : TilesN r (p :: rest))
    (ht : Tiles2 p p1 p2) (h1 : 0 < p1.w ∧ 0 < p1.h) (h2 : 0 < p2.w ∧ 0 < p2.h) :
    TilesN r (p1 :: p2 :: rest) := by
  have hp := h.piece p (List.mem_cons_self)
  have hd := List.pairwise_cons.mp h.disjoint
  refine ⟨?_, ?_, ?_, ?_⟩
  · intro q hq
    simp only [List.mem_cons] at hq
    rcases hq with rfl | rfl | hq
    · exact ⟨isInside_trans _ _ _ ht.inside_p hp.1, ht.inherit_p.1.trans hp.2.1, ht.inherit_p.2.1.trans hp.2.2.1,
        ht.inherit_p.2.2.trans hp.2.2.2.1, h1.1, h1.2⟩
    · exact ⟨isInside_trans _ _ _ ht.inside_q hp.1, ht.inherit_q.1.trans hp.2.1, ht.inherit_q.2.1.trans hp.2.2.1,
        ht.inherit_q.2.2.trans hp.2.2.2.1, h2.1, h2.2⟩
    · exact h.piece q (List.mem_cons_of_mem _ hq)
  · refine List.pairwise_cons.mpr ⟨?_, List.pairwise_cons.mpr ⟨?_, hd.2⟩⟩
    · intro q hq
      simp only [List.mem_cons] at hq
      rcases hq with rfl | hq
      · exact ht.disjoint
      · exact areaOverlap_zero_of_inside _ _ _ ht.inside_p (hd.1 q hq)
    · intro q hq
      exact areaOverlap_zero_of_inside _ _ _ ht.inside_q (hd.1 q hq)
  · have := h.area
    simp only [List.map_cons, List.sum_cons] at this ⊢
    rw [← this, ← ht.area]; ring
  · intro x y hm
    obtain ⟨q, hq, hmem⟩ := h.cover x y hm
    simp only [List.mem_cons] at hq
    rcases hq with rfl | hq
    · rcases ht.cover x y hmem with c | c
      · exact ⟨p1, by simp, c⟩
      · exact ⟨p2, by simp, c⟩
    · exact ⟨q, by simp [hq], hmem⟩

/-- the halves produced by `split()` are non-degenerate and tile the rectangle. -/
theorem split_pieces (r p q : Rect α) (hw : 0 < r.w) (hh : 0 < r.h) (h : r.split = some (p, q)) :
    Tiles2 r p q ∧ (0 < p.w ∧ 0 < p.h) ∧ (0 < q.w ∧ 0 < q.h) := by
  obtain ⟨ht, ew, eh, hc⟩ := split_tiles r p q hw hh h
  refine ⟨ht, ?_, ?_⟩ <;> (split at hc <;> (obtain ⟨c1, c2⟩ := hc; constructor <;> linarith))

/-- **the refinement relation**: `outs` is, up to order, the concatenation of one exact tiling per input. -/
def Refines (ins outs : List (Rect α)) : Prop :=
  ∃ groups : List (List (Rect α)), List.Forall₂ TilesN ins groups ∧ outs.Perm groups.flatten

theorem refines_refl (ins : List (Rect α)) (hpos : ∀ r ∈ ins, 0 < r.w ∧ 0 < r.h) : Refines ins ins := by
  refine ⟨ins.map (fun r => [r]), ?_, ?_⟩
  · induction ins with
    | nil => exact List.Forall₂.nil
    | cons a tl ih =>
      refine List.Forall₂.cons (tilesN_self a (hpos a (by simp)).1 (hpos a (by simp)).2) (ih ?_)
      intro r hr; exact hpos r (List.mem_cons_of_mem _ hr)
  · have : ∀ l : List (Rect α), (l.map (fun r => [r])).flatten = l := by
      intro l
      induction l with
      | nil => rfl
      | cons a tl ih => simp [ih]
    rw [this]

theorem refines_perm (ins outs outs' : List (Rect α)) (hp : outs.Perm outs') (h : Refines ins outs) : Refines ins outs' := by
  obtain ⟨g, hg, hperm⟩ := h
  exact ⟨g, hg, hp.symm.trans hperm⟩

/-- replacing a member of the flattened groups by two rectangles tiling it. -/
theorem groups_replace (ins : List (Rect α)) (groups : List (List (Rect α))) (p p1 p2 : Rect α) (rest : List (Rect α))
    (hg : List.Forall₂ TilesN ins groups) (hperm : groups.flatten.Perm (p :: rest))
    (ht : Tiles2 p p1 p2) (h1 : 0 < p1.w ∧ 0 < p1.h) (h2 : 0 < p2.w ∧ 0 < p2.h) :
    ∃ groups', List.Forall₂ TilesN ins groups' ∧ groups'.flatten.Perm (p1 :: p2 :: rest) := by
  induction hg generalizing rest with
  | nil => simp at hperm
  | @cons i g ins' gs' hig hrest ih =>
    have hmem : p ∈ g ++ gs'.flatten := by
      have : p ∈ (g :: gs').flatten := hperm.symm.subset (List.mem_cons_self)
      simpa using this
    rcases List.mem_append.mp hmem with hpg | hpg
    · obtain ⟨s, t, rfl⟩ := List.append_of_mem hpg
      have hti : TilesN i (p :: (s ++ t)) := tilesN_perm _ _ _ List.perm_middle hig
      refine ⟨(p1 :: p2 :: (s ++ t)) :: gs', List.Forall₂.cons (tilesN_replace i p p1 p2 _ hti ht h1 h2) hrest, ?_⟩
      simp only [List.flatten_cons, List.cons_append]
      refine List.Perm.cons _ (List.Perm.cons _ ?_)
      have : (p :: (s ++ t ++ gs'.flatten)).Perm (p :: rest) := by
        refine List.Perm.trans ?_ hperm
        simp only [List.flatten_cons, List.append_assoc, List.cons_append]
        exact (List.perm_middle).symm
      simpa using this.cons_inv
    · obtain ⟨s, t, hst⟩ := List.append_of_mem hpg
      obtain ⟨gs'', hf, hp''⟩ := ih (s ++ t) (by rw [hst]; exact List.perm_middle)
      refine ⟨g :: gs'', List.Forall₂.cons hig hf, ?_⟩
      simp only [List.flatten_cons]
      have e1 : (g ++ gs''.flatten).Perm (g ++ (p1 :: p2 :: (s ++ t))) := List.Perm.append_left _ hp''
      refine e1.trans ?_
      have e2 : (g ++ (p1 :: p2 :: (s ++ t))).Perm (p1 :: p2 :: (g ++ (s ++ t))) := by
        refine (List.perm_middle).trans (List.Perm.cons _ ?_)
        exact List.perm_middle
      refine e2.trans (List.Perm.cons _ (List.Perm.cons _ ?_))
      have : (p :: (g ++ (s ++ t))).Perm (p :: rest) := by
        refine List.Perm.trans ?_ hperm
        simp only [List.flatten_cons, hst]
        have : (g ++ (s ++ p :: t)).Perm (p :: (g ++ (s ++ t))) := by
          rw [← List.append_assoc, ← List.append_assoc]; exact List.perm_middle
        exact this.symm
      exact this.cons_inv

/-- **the invariant is preserved by any split** of any member (so it does not depend on the heap order). -/
theorem refines_split (ins : List (Rect α)) (p p1 p2 : Rect α) (rest : List (Rect α))
    (h : Refines ins (p :: rest)) (ht : Tiles2 p p1 p2) (h1 : 0 < p1.w ∧ 0 < p1.h) (h2 : 0 < p2.w ∧ 0 < p2.h) :
    Refines ins (p1 :: p2 :: rest) := by
  obtain ⟨g, hg, hperm⟩ := h
  obtain ⟨g', hg', hperm'⟩ := groups_replace ins g p p1 p2 rest hg hperm.symm ht h1 h2
  exact ⟨g', hg', hperm'.symm⟩

theorem refines_mem (ins outs : List (Rect α)) (h : Refines ins outs) (o : Rect α) (ho : o ∈ outs) :
    ∃ i ∈ ins, PieceOf i o := by
  obtain ⟨g, hg, hperm⟩ := h
  have ho' : o ∈ g.flatten := hperm.subset ho
  clear hperm ho
  induction hg with
  | nil => simp at ho'
  | @cons i gi ins' gs' hig hrest ih =>
    simp only [List.flatten_cons, List.mem_append] at ho'
    rcases ho' with c | c
    · exact ⟨i, by simp, hig.piece o c⟩
    · obtain ⟨j, hj, hpj⟩ := ih c
      exact ⟨j, List.mem_cons_of_mem _ hj, hpj⟩

theorem refines_pos (ins outs : List (Rect α)) (h : Refines ins outs) (o : Rect α) (ho : o ∈ outs) : 0 < o.w ∧ 0 < o.h := by
  obtain ⟨i, _, hp⟩ := refines_mem ins outs h o ho
  exact ⟨hp.2.2.2.2.1, hp.2.2.2.2.2⟩


/-! ### partial correctness of the worklists and of `split_rectangles` -/

/-- the rectangles stored in a list of `PrioritizedRectangle`s. -/
def rects (a : Array (PR α)) : List (Rect α) := a.toList.map (·.2)

theorem rects_perm (a b : Array (PR α)) (h : a.toList.Perm b.toList) : (rects a).Perm (rects b) := h.map _

theorem rects_length (a : Array (PR α)) : (rects a).length = a.size := by simp [rects]

/-- what the proofs need to know about the queue discipline and about what is done with a compliant rectangle. -/
structure Discipline (enq : List (Rect α) → Rect α → Rect α → List (Rect α))
    (emit : Array (PR α) → Rect α → Array (PR α)) : Prop where
  enq_perm : ∀ q r1 r2, (enq q r1 r2).Perm (r1 :: r2 :: q)
  emit_perm : ∀ acc r, (emit acc r).toList.Perm (mkPR r :: acc.toList)

theorem discipline_phase1 :
    Discipline (α := α) (fun q r1 r2 => r2 :: r1 :: q) (fun acc r => acc.push (mkPR r)) :=
  ⟨fun q r1 r2 => List.Perm.swap _ _ _, fun acc r => by simp only [Array.toList_push]; exact List.perm_append_singleton _ _⟩

theorem discipline_resplit :
    Discipline (α := α) (fun q r1 r2 => q ++ [r1, r2]) (fun heap r => Heapq.heappush prLt heap (mkPR r)) :=
  ⟨fun q r1 r2 => List.perm_append_comm, fun acc r => Heapq.heappush_perm _ _ _⟩

theorem emit_rects {enq emit} (hd : Discipline (α := α) enq emit) (acc : Array (PR α)) (r : Rect α) :
    (rects (emit acc r)).Perm (r :: rects acc) := by
  have := (hd.emit_perm acc r).map (fun x : PR α => x.2)
  simpa [rects, mkPR] using this

theorem worklist_sound {enq emit} (hd : Discipline (α := α) enq emit) (ins : List (Rect α)) (ratio : α) :
    ∀ (fuel : Nat) (q : List (Rect α)) (acc out : Array (PR α)),
      worklist enq emit ratio fuel q acc = .ok out →
      Refines ins (q ++ rects acc) → (∀ x ∈ rects acc, x.aspectRatio ≤ ratio) →
      Refines ins (rects out) ∧ (∀ x ∈ rects out, x.aspectRatio ≤ ratio) ∧ q.length + acc.size ≤ out.size := by
  intro fuel
  induction fuel with
  | zero => intro q acc out h; simp [worklist] at h
  | succ fuel ih =>
    intro q acc out h href hasp
    cases q with
    | nil =>
      simp only [worklist, Except.ok.injEq] at h
      subst h
      exact ⟨by simpa using href, hasp, by simp⟩
    | cons r q =>
      simp only [worklist] at h
      have hrpos := refines_pos ins _ href r (by simp)
      split at h
      · -- too elongated: split
        split at h
        · simp at h
        · rename_i r1 r2 hs
          obtain ⟨ht, p1, p2⟩ := split_pieces r r1 r2 hrpos.1 hrpos.2 hs
          have href' : Refines ins (enq q r1 r2 ++ rects acc) := by
            have := refines_split ins r r1 r2 (q ++ rects acc) (by simpa using href) ht p1 p2
            refine refines_perm ins _ _ ?_ this
            have := (hd.enq_perm q r1 r2).symm.append_right (rects acc)
            simpa using this
          obtain ⟨a, b, c⟩ := ih _ _ _ h href' hasp
          refine ⟨a, b, ?_⟩
          have := (hd.enq_perm q r1 r2).length_eq
          simp only [List.length_cons] at this ⊢
          omega
      · rename_i hasp_r
        have href' : Refines ins (q ++ rects (emit acc r)) := by
          refine refines_perm ins _ _ ?_ href
          have := (emit_rects hd acc r).symm
          exact (List.perm_middle (a := r) (l₁ := q) (l₂ := rects acc)).symm.trans (List.Perm.append_left q this)
        have hasp' : ∀ x ∈ rects (emit acc r), x.aspectRatio ≤ ratio := by
          intro x hx
          have := (emit_rects hd acc r).subset hx
          simp only [List.mem_cons] at this
          rcases this with rfl | hx'
          · exact not_lt.mp hasp_r
          · exact hasp x hx'
        obtain ⟨a, b, c⟩ := ih _ _ _ h href' hasp'
        refine ⟨a, b, ?_⟩
        have := (hd.emit_perm acc r).length_eq
        simp only [List.length_cons, Array.length_toList] at this ⊢
        omega

theorem phase2_sound (ins : List (Rect α)) (ratio : α) (n fuel : Nat) :
    ∀ (k : Nat) (heap out : Array (PR α)), phase2 ratio n fuel k heap = .ok out →
      Refines ins (rects heap) → (∀ x ∈ rects heap, x.aspectRatio ≤ ratio) →
      Refines ins (rects out) ∧ (∀ x ∈ rects out, x.aspectRatio ≤ ratio) ∧ n ≤ out.size := by
  intro k
  induction k with
  | zero => intro heap out h; simp [phase2] at h
  | succ k ih =>
    intro heap out h href hasp
    simp only [phase2] at h
    split at h
    · split at h
      · simp at h
      · rename_i top heap' hpop
        have hperm := rects_perm _ _ ((Heapq.heappop_perm _ _ _ _ hpop).trans (List.Perm.refl _))
        have hperm' : (rects heap).Perm (top.2 :: rects heap') := by
          have := (Heapq.heappop_perm _ _ _ _ hpop).map (fun x : PR α => x.2)
          simpa [rects] using this
        have href1 := refines_perm ins _ _ hperm' href
        have htpos := refines_pos ins _ href1 top.2 (by simp)
        split at h
        · simp at h
        · rename_i r1 r2 hs
          obtain ⟨ht, p1, p2⟩ := split_pieces top.2 r1 r2 htpos.1 htpos.2 hs
          have href2 : Refines ins ([r1, r2] ++ rects heap') := by
            simpa using refines_split ins top.2 r1 r2 (rects heap') href1 ht p1 p2
          have hasp' : ∀ x ∈ rects heap', x.aspectRatio ≤ ratio :=
            fun x hx => hasp x (hperm'.symm.subset (List.mem_cons_of_mem _ hx))
          split at h
          · simp at h
          · rename_i heap'' hrs
            obtain ⟨a, b, _⟩ := worklist_sound discipline_resplit ins ratio fuel _ _ _ hrs href2 hasp'
            exact ih _ _ h a b
    · rename_i hsz
      simp only [Except.ok.injEq] at h
      subst h
      exact ⟨href, hasp, not_lt.mp hsz⟩

/-- **partial correctness of `split_rectangles`**: whatever fuel was used, a returned list refines the input,
    meets the aspect bound and has at least `n` members. -/
theorem splitRectangles_sound (fuel : Nat) (ins : List (Rect α)) (ratio : α) (n : Nat) (outs : List (Rect α))
    (hpos : ∀ r ∈ ins, 0 < r.w ∧ 0 < r.h) (h : splitRectangles fuel ins ratio n = .ok outs) :
    Refines ins outs ∧ (∀ x ∈ outs, x.aspectRatio ≤ ratio) ∧ n ≤ outs.length := by
  unfold splitRectangles at h
  split at h; · simp at h
  split at h; · simp at h
  split at h; · simp at h
  rename_i heap h1
  have href0 : Refines ins (ins.reverse ++ rects (#[] : Array (PR α))) := by
    simp only [rects, List.map_nil, List.append_nil, Array.toList_empty]
    exact refines_perm ins _ _ (List.reverse_perm ins).symm (refines_refl ins hpos)
  obtain ⟨a, b, _⟩ := worklist_sound discipline_phase1 ins ratio fuel _ _ _ h1 href0 (by simp [rects])
  split at h
  · rename_i hn
    simp only [Except.ok.injEq] at h
    subst h
    exact ⟨a, b, by simpa [rects] using hn⟩
  · split at h; · simp at h
    rename_i heap2 h2
    simp only [Except.ok.injEq] at h
    subst h
    have hp := rects_perm _ _ (Heapq.heapify_perm prLt heap)
    have a' := refines_perm ins _ _ hp.symm a
    have b' : ∀ x ∈ rects (Heapq.heapify prLt heap), x.aspectRatio ≤ ratio := fun x hx => b x (hp.subset hx)
    obtain ⟨c, d, e⟩ := phase2_sound ins ratio n fuel fuel _ _ h2 a' b'
    exact ⟨c, d, by simpa [rects] using e⟩


/-! ### the fuel is irrelevant -/

theorem worklist_mono (enq : List (Rect α) → Rect α → Rect α → List (Rect α)) (emit : Array (PR α) → Rect α → Array (PR α))
    (ratio : α) : ∀ (fuel : Nat) (q : List (Rect α)) (acc out : Array (PR α)),
      worklist enq emit ratio fuel q acc = .ok out → ∀ d, worklist enq emit ratio (fuel + d) q acc = .ok out := by
  intro fuel
  induction fuel with
  | zero => intro q acc out h; simp [worklist] at h
  | succ fuel ih =>
    intro q acc out h d
    rw [show fuel + 1 + d = (fuel + d) + 1 by omega]
    cases q with
    | nil => simpa [worklist] using h
    | cons r q =>
      simp only [worklist] at h ⊢
      split
      · rename_i hc
        simp only [hc, ↓reduceIte] at h
        split
        · rename_i hs; simp [hs] at h
        · rename_i r1 r2 hs
          simp only [hs] at h
          exact ih _ _ _ h d
      · rename_i hc
        simp only [hc, ↓reduceIte] at h
        exact ih _ _ _ h d

theorem worklist_mono' (enq : List (Rect α) → Rect α → Rect α → List (Rect α)) (emit : Array (PR α) → Rect α → Array (PR α))
    (ratio : α) (fuel fuel' : Nat) (hle : fuel ≤ fuel') (q : List (Rect α)) (acc out : Array (PR α))
    (h : worklist enq emit ratio fuel q acc = .ok out) : worklist enq emit ratio fuel' q acc = .ok out := by
  have := worklist_mono enq emit ratio fuel q acc out h (fuel' - fuel)
  rwa [show fuel + (fuel' - fuel) = fuel' by omega] at this

theorem phase2_mono (ratio : α) (n fuel fuel' : Nat) (hle : fuel ≤ fuel') :
    ∀ (k : Nat) (heap out : Array (PR α)), phase2 ratio n fuel k heap = .ok out →
      ∀ e, phase2 ratio n fuel' (k + e) heap = .ok out := by
  intro k
  induction k with
  | zero => intro heap out h; simp [phase2] at h
  | succ k ih =>
    intro heap out h e
    rw [show k + 1 + e = (k + e) + 1 by omega]
    simp only [phase2] at h ⊢
    split
    · rename_i hc
      simp only [hc, ↓reduceIte] at h
      split
      · rename_i hp; simp [hp] at h
      · rename_i top heap' hp
        simp only [hp] at h
        split
        · rename_i hs; simp [hs] at h
        · rename_i r1 r2 hs
          simp only [hs] at h
          split at h
          · simp at h
          · rename_i heap'' hrs
            have := worklist_mono' _ _ ratio fuel fuel' hle _ _ _ hrs
            unfold resplit at hrs ⊢
            rw [this]
            exact ih _ _ h e
    · rename_i hc
      simpa only [hc, ↓reduceIte] using h

theorem splitRectangles_mono (fuel fuel' : Nat) (hle : fuel ≤ fuel') (ins : List (Rect α)) (ratio : α) (n : Nat)
    (outs : List (Rect α)) (h : splitRectangles fuel ins ratio n = .ok outs) :
    splitRectangles fuel' ins ratio n = .ok outs := by
  unfold splitRectangles at h ⊢
  split
  · rename_i hc; simp [hc] at h
  · rename_i hc
    simp only [hc, ↓reduceIte] at h
    split
    · rename_i hr; simp [hr] at h
    · rename_i hr
      simp only [hr, ↓reduceIte] at h
      split at h
      · simp at h
      · rename_i heap h1
        have h1' := worklist_mono' _ _ ratio fuel fuel' hle _ _ _ h1
        unfold phase1 at h1 ⊢
        rw [h1']
        simp only
        split
        · rename_i hn; simpa only [hn, ↓reduceIte] using h
        · rename_i hn
          simp only [hn, ↓reduceIte] at h
          split at h
          · simp at h
          · rename_i heap2 h2
            have := phase2_mono ratio n fuel fuel' hle fuel _ _ h2 (fuel' - fuel)
            rw [show fuel + (fuel' - fuel) = fuel' by omega] at this
            rw [this]
            exact h


/-! ### aspect ratio of the halves, termination -/

theorem aspectRatio_eq (r : Rect α) (hw : 0 < r.w) (hh : 0 < r.h) : r.aspectRatio = max (r.h / r.w) (r.w / r.h) := by
  unfold aspectRatio
  simp only [Nat.cast_one]
  have e : 1 / (r.h / r.w) = r.w / r.h := by field_simp
  split
  · rename_i hlt
    rw [e]
    have : 1 < r.w / r.h := by
      rw [div_lt_one hw] at hlt
      rw [one_lt_div hh]; exact hlt
    rw [max_eq_right (by linarith)]
  · rename_i hge
    have hge := not_lt.mp hge
    have : r.w / r.h ≤ 1 := by
      rw [one_le_div hw] at hge
      rw [div_le_one hh]; exact hge
    rw [max_eq_left (by linarith)]

theorem one_le_aspectRatio (r : Rect α) (hw : 0 < r.w) (hh : 0 < r.h) : 1 ≤ r.aspectRatio := by
  rw [aspectRatio_eq r hw hh]
  rcases le_total r.w r.h with c | c
  · exact le_max_of_le_left ((one_le_div hw).mpr c)
  · exact le_max_of_le_right ((one_le_div hh).mpr c)

/-- the aspect ratio of either half of `split()` is `max (a/2) (2/a)`, `a` the aspect ratio of the whole. -/
theorem child_aspect (r p q : Rect α) (hw : 0 < r.w) (hh : 0 < r.h) (h : r.split = some (p, q)) :
    p.aspectRatio = max (r.aspectRatio / 2) (2 / r.aspectRatio) ∧ q.aspectRatio = p.aspectRatio := by
  obtain ⟨_, ew, eh, hc⟩ := split_tiles r p q hw hh h
  obtain ⟨_, pp, pq⟩ := split_pieces r p q hw hh h
  have eq : q.aspectRatio = p.aspectRatio := by
    rw [aspectRatio_eq q pq.1 pq.2, aspectRatio_eq p pp.1 pp.2, ew, eh]
  refine ⟨?_, eq⟩
  rw [aspectRatio_eq p pp.1 pp.2, aspectRatio_eq r hw hh]
  split at hc
  · rename_i hlt
    obtain ⟨c1, c2⟩ := hc
    have hmax : max (r.h / r.w) (r.w / r.h) = r.h / r.w := by
      apply max_eq_left
      have : 1 < r.h / r.w := (one_lt_div hw).mpr hlt
      have : r.w / r.h < 1 := (div_lt_one hh).mpr hlt
      linarith
    rw [hmax, c1, c2]
    have e1 : r.h / 2 / r.w = r.h / r.w / 2 := by field_simp
    have e2 : r.w / (r.h / 2) = 2 / (r.h / r.w) := by field_simp
    rw [e1, e2]
  · rename_i hge
    have hge := not_lt.mp hge
    obtain ⟨c1, c2⟩ := hc
    have hmax : max (r.h / r.w) (r.w / r.h) = r.w / r.h := by
      apply max_eq_right
      have : 1 ≤ r.w / r.h := (one_le_div hh).mpr hge
      have : r.h / r.w ≤ 1 := (div_le_one hw).mpr hge
      linarith
    rw [hmax, c1, c2]
    have e1 : r.h / (r.w / 2) = 2 / (r.w / r.h) := by field_simp
    have e2 : r.w / 2 / r.h = r.w / r.h / 2 := by field_simp
    rw [e1, e2, max_comm]

/-- splitting a too elongated rectangle brings the halves one "level" closer to the bound
    (`r*r > 2` is what makes `2/a < r`). -/
theorem child_aspect_le (ratio a : α) (k : Nat) (h2 : 2 < ratio * ratio) (hr : 0 < ratio) (ha : ratio < a)
    (hb : a ≤ ratio * 2 ^ (k + 1)) : max (a / 2) (2 / a) ≤ ratio * 2 ^ k := by
  have hpow : (1 : α) ≤ 2 ^ k := one_le_pow₀ (by norm_num)
  have ha0 : 0 < a := lt_trans hr ha
  apply max_le
  · rw [pow_succ] at hb; linarith
  · have : 2 / a < ratio := by
      rw [div_lt_iff₀ ha0]; nlinarith
    nlinarith

/-- halving a compliant rectangle: the halves are at most one level above the bound. -/
theorem child_aspect_le_of_compliant (ratio a : α) (hr : 1 ≤ ratio) (h1 : 1 ≤ a) (ha : a ≤ ratio) :
    max (a / 2) (2 / a) ≤ ratio * 2 ^ 1 := by
  have ha0 : 0 < a := lt_of_lt_of_le one_pos h1
  apply max_le
  · linarith
  · have : 2 / a ≤ 2 := by rw [div_le_iff₀ ha0]; nlinarith
    linarith

/-- number of worklist steps a rectangle of level `k` can cause. -/
def cost (k : Nat) : Nat := 2 ^ (k + 1) - 1

theorem cost_succ (k : Nat) : cost (k + 1) = 2 * cost k + 1 := by
  unfold cost
  have : 1 ≤ 2 ^ (k + 1) := Nat.one_le_two_pow
  rw [pow_succ 2 (k + 1)]; omega

theorem cost_pos (k : Nat) : 1 ≤ cost k := by
  unfold cost; have : 2 ≤ 2 ^ (k + 1) := by
    calc 2 = 2 ^ 1 := rfl
      _ ≤ 2 ^ (k + 1) := Nat.pow_le_pow_right (by norm_num) (by omega)
  omega

theorem cost_mono {a b : Nat} (h : a ≤ b) : cost a ≤ cost b := by
  unfold cost
  have := Nat.pow_le_pow_right (show 0 < 2 by norm_num) (show a + 1 ≤ b + 1 by omega)
  omega

open Classical in
/-- the level of a rectangle: least `k` with `aspect ≤ ratio * 2^k` (0 if there is none). -/
noncomputable def level (ratio : α) (r : Rect α) : Nat :=
  if h : ∃ k, r.aspectRatio ≤ ratio * 2 ^ k then Nat.find h else 0

theorem level_le (ratio : α) (r : Rect α) (k : Nat) (h : r.aspectRatio ≤ ratio * 2 ^ k) : level ratio r ≤ k := by
  unfold level
  have hex : ∃ k, r.aspectRatio ≤ ratio * 2 ^ k := ⟨k, h⟩
  rw [dif_pos hex]
  exact Nat.find_min' hex h

theorem level_spec (ratio : α) (r : Rect α) (hex : ∃ k, r.aspectRatio ≤ ratio * 2 ^ k) :
    r.aspectRatio ≤ ratio * 2 ^ (level ratio r) := by
  unfold level
  rw [dif_pos hex]
  exact Nat.find_spec hex

/-- the potential of a queue. -/
noncomputable def potential (ratio : α) (q : List (Rect α)) : Nat := (q.map fun r => cost (level ratio r)).sum

theorem potential_perm (ratio : α) (q q' : List (Rect α)) (h : q.Perm q') : potential ratio q = potential ratio q' :=
  (h.map _).sum_eq

/-- bounded, non-degenerate rectangles. -/
def Bounded (ratio : α) (r : Rect α) : Prop := 0 < r.w ∧ 0 < r.h ∧ ∃ k, r.aspectRatio ≤ ratio * 2 ^ k

theorem children_level (ratio : α) (r p q : Rect α) (h2 : 2 < ratio * ratio) (hr : 0 < ratio) (hb : Bounded ratio r)
    (ha : ratio < r.aspectRatio) (hs : r.split = some (p, q)) :
    Bounded ratio p ∧ Bounded ratio q ∧ level ratio p + 1 ≤ level ratio r ∧ level ratio q + 1 ≤ level ratio r := by
  obtain ⟨hw, hh, hex⟩ := hb
  obtain ⟨_, pp, pq⟩ := split_pieces r p q hw hh hs
  obtain ⟨ep, eq⟩ := child_aspect r p q hw hh hs
  have hspec := level_spec ratio r hex
  have hl : 1 ≤ level ratio r := by
    by_contra hc
    have : level ratio r = 0 := by omega
    rw [this] at hspec; simp at hspec; linarith
  obtain ⟨k, hk⟩ : ∃ k, level ratio r = k + 1 := ⟨level ratio r - 1, by omega⟩
  rw [hk] at hspec
  have hp : p.aspectRatio ≤ ratio * 2 ^ k := by rw [ep]; exact child_aspect_le ratio _ k h2 hr ha hspec
  have hq : q.aspectRatio ≤ ratio * 2 ^ k := by rw [eq]; exact hp
  refine ⟨⟨pp.1, pp.2, k, hp⟩, ⟨pq.1, pq.2, k, hq⟩, ?_, ?_⟩
  · have := level_le ratio p k hp; omega
  · have := level_le ratio q k hq; omega

/-- **the worklists terminate**: a fuel of `potential + 1` suffices. -/
theorem worklist_total {enq emit} (hd : Discipline (α := α) enq emit) (ratio : α) (h2 : 2 < ratio * ratio) (hr : 0 < ratio) :
    ∀ (m : Nat) (q : List (Rect α)) (acc : Array (PR α)), (∀ r ∈ q, Bounded ratio r) → potential ratio q ≤ m →
      ∃ out, worklist enq emit ratio (m + 1) q acc = .ok out := by
  intro m
  induction m with
  | zero =>
    intro q acc hb hm
    cases q with
    | nil => exact ⟨acc, rfl⟩
    | cons r q =>
      have := cost_pos (level ratio r)
      simp only [potential, List.map_cons, List.sum_cons] at hm
      omega
  | succ m ih =>
    intro q acc hb hm
    cases q with
    | nil => exact ⟨acc, rfl⟩
    | cons r q =>
      have hbr := hb r (by simp)
      have hbq : ∀ x ∈ q, Bounded ratio x := fun x hx => hb x (List.mem_cons_of_mem _ hx)
      have hpot : potential ratio (r :: q) = cost (level ratio r) + potential ratio q := by
        simp [potential]
      simp only [worklist]
      split
      · rename_i ha
        have hsome := split_isSome r hbr.1 hbr.2.1
        match hs : r.split with
        | none => rw [hs] at hsome; simp at hsome
        | some (r1, r2) =>
          simp only
          obtain ⟨b1, b2, l1, l2⟩ := children_level ratio r r1 r2 h2 hr hbr ha hs
          apply ih
          · intro x hx
            have := (hd.enq_perm q r1 r2).subset hx
            simp only [List.mem_cons] at this
            rcases this with rfl | rfl | hx'
            · exact b1
            · exact b2
            · exact hbq x hx'
          · rw [potential_perm ratio _ _ (hd.enq_perm q r1 r2)]
            have e : potential ratio (r1 :: r2 :: q) = cost (level ratio r1) + (cost (level ratio r2) + potential ratio q) := by
              simp [potential]
            rw [e]
            obtain ⟨k, hk⟩ : ∃ k, level ratio r = k + 1 := ⟨level ratio r - 1, by omega⟩
            have c1 := cost_mono (show level ratio r1 ≤ k by omega)
            have c2 := cost_mono (show level ratio r2 ≤ k by omega)
            have := cost_succ k
            rw [hk] at hpot
            omega
      · apply ih _ _ hbq
        have := cost_pos (level ratio r)
        omega


/-- the literal bound `1.415` is enough for convergence: its square exceeds 2. -/
theorem ratio_facts (ratio : α) (h : ratioMin < ratio) : 2 < ratio * ratio ∧ 1 < ratio := by
  unfold ratioMin at h
  have e : ((1415 : Nat) : α) / ((1000 : Nat) : α) = 1415 / 1000 := by norm_num
  rw [e] at h
  have h1 : (1 : α) < 1415 / 1000 := by norm_num
  have h0 : (0 : α) < 1415 / 1000 := by norm_num
  have h3 : (2 : α) < 1415 / 1000 * (1415 / 1000) := by norm_num
  constructor
  · nlinarith
  · linarith

/-- what phase 2 maintains about the heap: non-degenerate, compliant rectangles. -/
def HeapOK (ratio : α) (heap : Array (PR α)) : Prop :=
  ∀ x ∈ rects heap, 0 < x.w ∧ 0 < x.h ∧ x.aspectRatio ≤ ratio

theorem phase2_total (ratio : α) (n fuel : Nat) (h2 : 2 < ratio * ratio) (hr : 1 < ratio) (hfuel : 7 ≤ fuel) :
    ∀ (d : Nat) (heap : Array (PR α)), HeapOK ratio heap → 0 < heap.size → n - heap.size ≤ d →
      ∃ out, phase2 ratio n fuel (d + 1) heap = .ok out := by
  intro d
  induction d with
  | zero =>
    intro heap hok hne hd
    refine ⟨heap, ?_⟩
    simp only [phase2]
    rw [if_neg (by omega)]
  | succ d ih =>
    intro heap hok hne hd
    simp only [phase2]
    split
    · rename_i hlt
      have hsome := Heapq.heappop_isSome prLt heap hne
      match hp : Heapq.heappop prLt heap with
      | none => rw [hp] at hsome; simp at hsome
      | some (top, heap') =>
        simp only
        have hperm : (rects heap).Perm (top.2 :: rects heap') := by
          have := (Heapq.heappop_perm _ _ _ _ hp).map (fun x : PR α => x.2)
          simpa [rects] using this
        have htop := hok top.2 (hperm.symm.subset (by simp))
        have hssome := split_isSome top.2 htop.1 htop.2.1
        match hs : top.2.split with
        | none => rw [hs] at hssome; simp at hssome
        | some (r1, r2) =>
          simp only
          obtain ⟨ht, p1, p2⟩ := split_pieces top.2 r1 r2 htop.1 htop.2.1 hs
          obtain ⟨e1, e2⟩ := child_aspect top.2 r1 r2 htop.1 htop.2.1 hs
          have hone := one_le_aspectRatio top.2 htop.1 htop.2.1
          have hc1 : r1.aspectRatio ≤ ratio * 2 ^ 1 := by
            rw [e1]; exact child_aspect_le_of_compliant ratio _ (le_of_lt hr) hone htop.2.2
          have hc2 : r2.aspectRatio ≤ ratio * 2 ^ 1 := by rw [e2]; exact hc1
          have hb : ∀ r ∈ [r1, r2], Bounded ratio r := by
            intro r hr'
            simp only [List.mem_cons, List.not_mem_nil, or_false] at hr'
            rcases hr' with rfl | rfl
            · exact ⟨p1.1, p1.2, 1, hc1⟩
            · exact ⟨p2.1, p2.2, 1, hc2⟩
          have hpot : potential ratio [r1, r2] ≤ 6 := by
            have l1 := cost_mono (level_le ratio r1 1 hc1)
            have l2 := cost_mono (level_le ratio r2 1 hc2)
            have : cost 1 = 3 := by decide
            simp only [potential, List.map_cons, List.map_nil, List.sum_cons, List.sum_nil]
            omega
          obtain ⟨heap'', hw⟩ := worklist_total discipline_resplit ratio h2 (by linarith) 6 [r1, r2] heap' hb hpot
          have hw' : resplit ratio fuel [r1, r2] heap' = .ok heap'' :=
            worklist_mono' _ _ ratio 7 fuel hfuel _ _ _ hw
          rw [hw']
          simp only
          -- properties of the new heap
          have hpos0 : ∀ r ∈ rects heap, 0 < r.w ∧ 0 < r.h := fun r hr' => ⟨(hok r hr').1, (hok r hr').2.1⟩
          have href : Refines (rects heap) ([r1, r2] ++ rects heap') := by
            have := refines_split (rects heap) top.2 r1 r2 (rects heap')
              (refines_perm _ _ _ hperm (refines_refl _ hpos0)) ht p1 p2
            simpa using this
          have hasp' : ∀ x ∈ rects heap', x.aspectRatio ≤ ratio :=
            fun x hx => (hok x (hperm.symm.subset (List.mem_cons_of_mem _ hx))).2.2
          obtain ⟨a, b, c⟩ := worklist_sound discipline_resplit (rects heap) ratio fuel _ _ _ hw' href hasp'
          have hsz : heap.size = heap'.size + 1 := by
            have := hperm.length_eq
            simpa [rects_length] using this
          apply ih
          · intro x hx
            have := refines_pos _ _ a x hx
            exact ⟨this.1, this.2, b x hx⟩
          · simp only [List.length_cons, List.length_nil] at c; omega
          · simp only [List.length_cons, List.length_nil] at c; omega
    · exact ⟨heap, rfl⟩

/-- **`split_rectangles` terminates** on admissible arguments: with enough fuel it returns a list. -/
theorem splitRectangles_total (ins : List (Rect α)) (ratio : α) (n K : Nat) (hne : ins ≠ []) (hn : 1 ≤ n)
    (hratio : ratioMin < ratio) (hpos : ∀ r ∈ ins, 0 < r.w ∧ 0 < r.h)
    (hK : ∀ r ∈ ins, r.aspectRatio ≤ ratio * 2 ^ K) :
    ∃ outs, splitRectangles (ins.length * cost K + n + 8) ins ratio n = .ok outs := by
  obtain ⟨h2, hr⟩ := ratio_facts ratio hratio
  set F := ins.length * cost K + n + 8 with hF
  have hb : ∀ r ∈ ins.reverse, Bounded ratio r := by
    intro r hr'
    have hm : r ∈ ins := List.mem_reverse.mp hr'
    exact ⟨(hpos r hm).1, (hpos r hm).2, K, hK r hm⟩
  have hpot : potential ratio ins.reverse ≤ ins.length * cost K := by
    rw [potential_perm ratio _ _ (List.reverse_perm ins)]
    clear hb hne hF
    induction ins with
    | nil => simp [potential]
    | cons a tl ih =>
      have := ih (fun r hr' => hpos r (List.mem_cons_of_mem _ hr')) (fun r hr' => hK r (List.mem_cons_of_mem _ hr'))
      have ca := cost_mono (level_le ratio a K (hK a (by simp)))
      simp only [potential, List.map_cons, List.sum_cons, List.length_cons] at this ⊢
      rw [Nat.add_mul]; omega
  obtain ⟨heap, h1⟩ := worklist_total discipline_phase1 ratio h2 (by linarith) (ins.length * cost K) ins.reverse #[] hb hpot
  have h1' : phase1 ratio F ins.reverse #[] = .ok heap := worklist_mono' _ _ ratio _ F (by omega) _ _ _ h1
  have href0 : Refines ins (ins.reverse ++ rects (#[] : Array (PR α))) := by
    simp only [rects, List.map_nil, List.append_nil, Array.toList_empty]
    exact refines_perm ins _ _ (List.reverse_perm ins).symm (refines_refl ins hpos)
  obtain ⟨a, b, c⟩ := worklist_sound discipline_phase1 ins ratio F _ _ _ h1' href0 (by simp [rects])
  have hsz : 0 < heap.size := by
    have : 0 < ins.length := List.length_pos_of_ne_nil hne
    simp only [List.length_reverse] at c; omega
  unfold splitRectangles
  rw [if_neg (by omega), if_neg (by simp [hratio]), h1']
  simp only
  split
  · exact ⟨_, rfl⟩
  · rename_i hlt
    have hp := rects_perm _ _ (Heapq.heapify_perm prLt heap)
    have hok : HeapOK ratio (Heapq.heapify prLt heap) := by
      intro x hx
      have hx' := hp.subset hx
      have := refines_pos _ _ a x hx'
      exact ⟨this.1, this.2, b x hx'⟩
    have hsz' : (Heapq.heapify prLt heap).size = heap.size := by
      have := (Heapq.heapify_perm prLt heap).length_eq
      simpa using this
    obtain ⟨out, h2'⟩ := phase2_total ratio n F h2 hr (by omega) (n - heap.size) (Heapq.heapify prLt heap) hok
      (by omega) (by omega)
    have := phase2_mono ratio n F F (le_refl _) _ _ _ h2' (F - (n - heap.size + 1))
    rw [show n - heap.size + 1 + (F - (n - heap.size + 1)) = F by omega] at this
    rw [this]
    exact ⟨_, rfl⟩


/-! ### consequences of `Refines` in plain terms -/

theorem refines_area (ins outs : List (Rect α)) (h : Refines ins outs) :
    (outs.map Rect.area).sum = (ins.map Rect.area).sum := by
  obtain ⟨g, hg, hperm⟩ := h
  rw [(hperm.map Rect.area).sum_eq]
  clear hperm
  induction hg with
  | nil => rfl
  | @cons i gi ins' gs' hig hrest ih =>
    simp only [List.flatten_cons, List.map_append, List.sum_append, List.map_cons, List.sum_cons]
    rw [ih, hig.area]

theorem refines_cover (ins outs : List (Rect α)) (h : Refines ins outs) (x y : α) :
    (∃ i ∈ ins, Mem i x y) ↔ (∃ o ∈ outs, Mem o x y) := by
  constructor
  · rintro ⟨i, hi, hm⟩
    obtain ⟨g, hg, hperm⟩ := h
    suffices ∃ o ∈ g.flatten, Mem o x y by
      obtain ⟨o, ho, hmo⟩ := this; exact ⟨o, hperm.symm.subset ho, hmo⟩
    clear hperm
    induction hg with
    | nil => simp at hi
    | @cons i' gi ins' gs' hig hrest ih =>
      simp only [List.mem_cons] at hi
      rcases hi with rfl | hi
      · obtain ⟨p, hp, hmp⟩ := hig.cover x y hm
        exact ⟨p, by simp [hp], hmp⟩
      · obtain ⟨o, ho, hmo⟩ := ih hi
        exact ⟨o, by simp [ho], hmo⟩
  · rintro ⟨o, ho, hm⟩
    obtain ⟨i, hi, hp⟩ := refines_mem ins outs h o ho
    refine ⟨i, hi, ?_⟩
    have := (isInside_iff_subset o i hp.2.2.2.2.1 hp.2.2.2.2.2).mp hp.1
    exact this x y hm

theorem refines_disjoint (ins outs : List (Rect α)) (h : Refines ins outs)
    (hd : ins.Pairwise (fun a b => a.areaOverlap b = 0)) : outs.Pairwise (fun a b => a.areaOverlap b = 0) := by
  obtain ⟨g, hg, hperm⟩ := h
  refine (hperm.pairwise_iff (fun {a b} hab => by rw [areaOverlap_comm]; exact hab)).mpr ?_
  clear hperm
  induction hg with
  | nil => simp
  | @cons i gi ins' gs' hig hrest ih =>
    obtain ⟨hd1, hd2⟩ := List.pairwise_cons.mp hd
    simp only [List.flatten_cons]
    rw [List.pairwise_append]
    refine ⟨hig.disjoint, ih hd2, ?_⟩
    intro a ha b hb
    -- b is a piece of some later input j, which does not overlap i
    have hb' : ∃ j ∈ ins', PieceOf j b := refines_mem ins' gs'.flatten ⟨gs', hrest, List.Perm.refl _⟩ b hb
    obtain ⟨j, hj, hpj⟩ := hb'
    have h0 := hd1 j hj
    have h1 : a.areaOverlap j = 0 := areaOverlap_zero_of_inside a i j (hig.piece a ha).1 h0
    rw [areaOverlap_comm] at h1
    have h2 := areaOverlap_zero_of_inside b j a hpj.1 h1
    rw [areaOverlap_comm]; exact h2

/-- `TilesN` does not look at the role of the tiled rectangle. -/
theorem tilesN_congr (r r' : Rect α) (ps : List (Rect α)) (he : Stog.eraseLoc r = Stog.eraseLoc r') (h : TilesN r ps) :
    TilesN r' ps := by
  obtain ⟨cx, cy, w, hh, reg, fx, hd, loc⟩ := r
  obtain ⟨cx', cy', w', hh', reg', fx', hd', loc'⟩ := r'
  simp only [Stog.eraseLoc, Rect.mk.injEq, and_true] at he
  obtain ⟨rfl, rfl, rfl, rfl, rfl, rfl, rfl⟩ := he
  exact ⟨h.piece, h.disjoint, h.area, h.cover⟩

/-- `rectangle_grid` tiles the rectangle (C18's `grid_tiles`, repackaged). -/
theorem grid_tilesN (r : Rect α) (nr nc : Nat) (cells : List (Rect α)) (hw : 0 < r.w) (hh : 0 < r.h)
    (h : r.grid nr nc = some cells) : TilesN r cells ∧ cells.length = nr * nc := by
  obtain ⟨hlen, hin, hdis, harea, hcov⟩ := grid_tiles r nr nc cells hw hh h
  have hp := (grid_isSome_iff r nr nc).mp (by simp [h])
  refine ⟨⟨?_, ?_, harea, hcov⟩, hlen⟩
  · intro c hc
    obtain ⟨a, b, c', d⟩ := hin c hc
    obtain ⟨row, _, col, _, rfl⟩ := (mem_grid_iff r nr nc cells h c).mp hc
    have n1 : (0 : α) < nc := by exact_mod_cast hp.2
    have n2 : (0 : α) < nr := by exact_mod_cast hp.1
    exact ⟨a, b, c', d, div_pos hw n1, div_pos hh n2⟩
  · rw [List.pairwise_iff_getElem]
    intro i j hi hj hij
    exact hdis i j hi hj (by omega)

end SplitRects
end FV

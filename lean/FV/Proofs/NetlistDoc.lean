import FV.Proofs.Netlist
/-
  The loaded netlist in terms of the SOURCE DOCUMENT (C05, document-level theorems): which entry of the document every
  field of a loaded module / net comes from.  Also the weaker document shapes used by the rejection theorems
  (`HasModules`, `HasNets`: only the key that matters has to be present).
-/
namespace FV.NL
open FV
set_option linter.unusedSectionVars false
set_option linter.unusedVariables false
set_option linter.unusedSimpArgs false

variable {α : Type} [Field α] [LinearOrder α] [IsStrictOrderedRing α]

/-- `t` is a root dictionary whose `Modules` value is the dictionary `mods`. -/
def HasModules (t : YVal α) (mods : List (YVal α × YVal α)) : Prop :=
  ∃ l, t = .map l ∧ (YVal.str "Modules", YVal.map mods) ∈ l

/-- `t` is a root dictionary whose `Nets` value is the list `nets`. -/
def HasNets (t : YVal α) (nets : List (YVal α)) : Prop :=
  ∃ l, t = .map l ∧ (YVal.str "Nets", YVal.seq nets) ∈ l

/-- `t` is a root dictionary without the key `key`. -/
def NoRootKey (t : YVal α) (key : String) : Prop :=
  ∃ l, t = .map l ∧ ∀ v, (YVal.str key, v) ∉ l

theorem DocWith.hasModules {t : YVal α} {mods : List (YVal α × YVal α)} {nets : List (YVal α)}
    (h : DocWith t mods nets) : HasModules t mods := by
  obtain ⟨l, h1, h2, _⟩ := h; exact ⟨l, h1, h2⟩

theorem DocWith.hasNets {t : YVal α} {mods : List (YVal α × YVal α)} {nets : List (YVal α)}
    (h : DocWith t mods nets) : HasNets t nets := by
  obtain ⟨l, h1, _, h3⟩ := h; exact ⟨l, h1, h3⟩

section plumbing
variable {stog : List (NRect α) → List (NRect α)} {εA : α} {t : YVal α} {n : Netlist α}

theorem loaded_modules {mods : List (YVal α × YVal α)} (hd : HasModules t mods)
    (h : parseNetlist stog εA t = .ok n) :
    ∃ ms es, parseDoc t = .ok (ms, es) ∧ mapE parseModule mods = .ok ms ∧ finish stog εA ms es = .ok n := by
  obtain ⟨l, rfl, hm⟩ := hd
  obtain ⟨ms, es, hdoc, hf⟩ := parseNetlist_ok h
  obtain ⟨l1, hl1, hmm, _⟩ := parseModules_ok (parseDoc_modules hdoc hm)
  cases hl1
  exact ⟨ms, es, hdoc, hmm, hf⟩

theorem loaded_nets {nets : List (YVal α)} (hd : HasNets t nets) (h : parseNetlist stog εA t = .ok n) :
    ∃ ms es, parseDoc t = .ok (ms, es) ∧ mapE parseEdge nets = .ok es ∧ finish stog εA ms es = .ok n := by
  obtain ⟨l, rfl, hn⟩ := hd
  obtain ⟨ms, es, hdoc, hf⟩ := parseNetlist_ok h
  obtain ⟨l2, hl2, hee⟩ := parseEdges_ok (parseDoc_nets hdoc hn)
  cases hl2
  exact ⟨ms, es, hdoc, hee, hf⟩

theorem root_assoc_none {l : List (YVal α × YVal α)} {kvs : List (Bool × YVal α)} (hk : mapE classifyRoot l = .ok kvs)
    {s : String} {b : Bool} (hb : ∀ s', rootKind s' = some b → s' = s) (hno : ∀ v, (YVal.str s, v) ∉ l) :
    assoc b kvs = none := by
  apply assoc_none_of_not_mem
  intro hmem
  obtain ⟨kv, hkv, hk1⟩ := List.mem_map.mp hmem
  obtain ⟨x, hx, hcx⟩ := mapE_ok_mem' hk hkv
  obtain ⟨h1, s', hs', hr⟩ := classifyRoot_ok (b := kv.1) (v := kv.2) hcx
  rw [hk1] at hr
  have := hb s' hr
  subst this
  apply hno x.2
  have : x = (YVal.str s', x.2) := Prod.ext hs' rfl
  rw [← this]; exact hx

/-- a document without `Nets:` loads with no nets. -/
theorem loaded_no_nets (hd : NoRootKey t "Nets") (h : parseNetlist stog εA t = .ok n) : n.nets = [] := by
  obtain ⟨l, rfl, hno⟩ := hd
  obtain ⟨ms, es, hdoc, hf⟩ := parseNetlist_ok h
  obtain ⟨l', kvs, hl, hk, _, _, hes⟩ := parseDoc_ok hdoc
  cases hl
  rw [root_assoc_none hk (fun s' hs' => rootKind_false.mp hs') hno] at hes
  simp [optParse] at hes
  rw [(finish_modules hf).2, hes]

/-- a document without `Modules:` loads with no modules. -/
theorem loaded_no_modules (hd : NoRootKey t "Modules") (h : parseNetlist stog εA t = .ok n) : n.modules = [] := by
  obtain ⟨l, rfl, hno⟩ := hd
  obtain ⟨ms, es, hdoc, hf⟩ := parseNetlist_ok h
  obtain ⟨l', kvs, hl, hk, _, hms, _⟩ := parseDoc_ok hdoc
  cases hl
  rw [root_assoc_none hk (fun s' hs' => rootKind_true.mp hs') hno] at hms
  simp [optParse] at hms
  rw [(finish_modules hf).1, hms]; rfl

theorem reject_module' {mods : List (YVal α × YVal α)} (hd : HasModules t mods)
    {e : YVal α × YVal α} (he : e ∈ mods) (hbad : ∀ m, parseModule e ≠ .ok m) :
    ∃ err, parseNetlist stog εA t = .error err := by
  apply error_of_not_ok
  intro n hn
  obtain ⟨ms, es, _, hmm, _⟩ := loaded_modules hd hn
  obtain ⟨m, _, hm⟩ := mapE_ok_mem hmm he
  exact hbad m hm

theorem reject_net' {nets : List (YVal α)} (hd : HasNets t nets)
    {y : YVal α} (hy : y ∈ nets) (hbad : ∀ e, parseEdge y ≠ .ok e) :
    ∃ err, parseNetlist stog εA t = .error err := by
  apply error_of_not_ok
  intro n hn
  obtain ⟨ms, es, _, hee, _⟩ := loaded_nets hd hn
  obtain ⟨e, _, he⟩ := mapE_ok_mem hee hy
  exact hbad e he

end plumbing

/-! ### the flags and the centre the constructor ends with, in terms of its parameters -/

theorem bool?_eq_some {v : YVal α} {b : Bool} (h : v.bool? = some b) : v = .bool b := by
  cases v <;> simp [YVal.bool?] at h; subst h; rfl

theorem ctor_flags {ps : List (Param α)} {s : MState α} (hc : ctor ps = .ok s) (hnd : (ps.map Param.kind).Nodup) :
    (s.fixed = true ↔ Param.fixed (.bool true) ∈ ps) ∧ (s.terminal = true ↔ Param.terminal (.bool true) ∈ ps) ∧
    (s.flip = true ↔ Param.flip (.bool true) ∈ ps) ∧ (∀ c, s.center = some c ↔ Param.center c ∈ ps) := by
  obtain ⟨hf, _, _⟩ := ctor_ok hc
  refine foldlE_inv_pre (fun pre s =>
    (s.fixed = true ↔ Param.fixed (.bool true) ∈ pre) ∧ (s.terminal = true ↔ Param.terminal (.bool true) ∈ pre) ∧
    (s.flip = true ↔ Param.flip (.bool true) ∈ pre) ∧ (∀ c, s.center = some c ↔ Param.center c ∈ pre))
    (by simp) ?_ hf
  intro pre x post s s1 hl hP hx
  have hndl : ((pre ++ x :: post).map Param.kind).Nodup := by rw [← hl]; exact hnd
  obtain ⟨p1, p2, p3, p4⟩ := hP
  cases x with
  | center c' =>
    simp [ctorStep] at hx; subst hx
    refine ⟨by simpa using p1, by simpa using p2, by simpa using p3, ?_⟩
    intro c
    simp only [List.mem_append, List.mem_singleton, Param.center.injEq, Option.some.injEq]
    constructor
    · intro h; exact Or.inr h.symm
    · rintro (h | h)
      · exact (nodup_pre_kind hndl h rfl).elim
      · exact h.symm
  | aspect a =>
    simp only [ctorStep] at hx
    split at hx
    · cases hx; exact ⟨by simpa using p1, by simpa using p2, by simpa using p3, by simpa using p4⟩
    · cases hx
  | area v =>
    simp only [ctorStep] at hx
    split at hx
    · cases hx; exact ⟨by simpa using p1, by simpa using p2, by simpa using p3, by simpa using p4⟩
    · cases hx
  | hard v =>
    simp only [ctorStep] at hx
    split at hx
    · cases hx
    · split at hx
      · cases hx; exact ⟨by simpa using p1, by simpa using p2, by simpa using p3, by simpa using p4⟩
      · cases hx
  | fixed v =>
    simp only [ctorStep] at hx
    split at hx
    · rename_i b hb
      cases hx
      have hv := bool?_eq_some hb
      subst hv
      refine ⟨?_, by simpa using p2, by simpa using p3, by simpa using p4⟩
      simp only [List.mem_append, List.mem_singleton, Param.fixed.injEq, YVal.bool.injEq]
      constructor
      · intro h; exact Or.inr h.symm
      · rintro (h | h)
        · exact (nodup_pre_kind hndl h rfl).elim
        · exact h.symm
    · cases hx
  | flip v =>
    simp only [ctorStep] at hx
    split at hx
    · rename_i b hb
      cases hx
      have hv := bool?_eq_some hb
      subst hv
      refine ⟨by simpa using p1, by simpa using p2, ?_, by simpa using p4⟩
      simp only [List.mem_append, List.mem_singleton, Param.flip.injEq, YVal.bool.injEq]
      constructor
      · intro h; exact Or.inr h.symm
      · rintro (h | h)
        · exact (nodup_pre_kind hndl h rfl).elim
        · exact h.symm
    · cases hx
  | terminal v =>
    simp only [ctorStep] at hx
    split at hx
    · cases hx
    · split at hx
      · rename_i b hb
        cases hx
        have hv := bool?_eq_some hb
        subst hv
        refine ⟨by simpa using p1, ?_, by simpa using p3, by simpa using p4⟩
        simp only [List.mem_append, List.mem_singleton, Param.terminal.injEq, YVal.bool.injEq]
        constructor
        · intro h; exact Or.inr h.symm
        · rintro (h | h)
          · exact (nodup_pre_kind hndl h rfl).elim
          · exact h.symm
      · cases hx

/-! ### one module entry of the document and the module parsed from it -/

/-- the tagged rectangle a document entry `[x, y, w, h]` / `[x, y, w, h, region]` describes (role not yet assigned). -/
def EntryRect (ent : YVal α) (r : NRect α) : Prop :=
  r.loc = .nopoly ∧
  ((ent = .seq [YVal.ofNum r.cx, YVal.ofNum r.cy, YVal.ofNum r.w, YVal.ofNum r.h] ∧ r.region = "_") ∨
    ent = .seq [YVal.ofNum r.cx, YVal.ofNum r.cy, YVal.ofNum r.w, YVal.ofNum r.h, .str r.region])

/-- the per-region areas an `area:` value denotes: a number is ground area; a dictionary is taken entry by entry. -/
def AreaOfDoc (v : YVal α) (regs : List (String × α)) : Prop :=
  (∃ nv, v = YVal.ofNum nv ∧ regs = [("_", nv.val)]) ∨
  (∃ entries, v = .map entries ∧
    List.Forall₂ (fun (ent : YVal α × YVal α) (p : String × α) => ∃ nv, ent = (YVal.str p.1, YVal.ofNum nv) ∧ nv.val = p.2)
      entries regs)

/-- the point a `center: [x, y]` value denotes. -/
def CenterOfDoc (cv : YVal α) (c : α × α) : Prop :=
  ∃ a b : Num α, cv = .seq [YVal.ofNum a, YVal.ofNum b] ∧ c = (a.val, b.val)

theorem parseCenter_ok {v : YVal α} {c : α × α} (h : parseCenter v = .ok c) : CenterOfDoc v c := by
  unfold parseCenter at h
  split at h
  · rename_i a b
    split at h
    · rename_i x y hx hy
      cases h
      exact ⟨x, y, by rw [← num?_eq_some_cases hx, ← num?_eq_some_cases hy], rfl⟩
    · cases h
  · cases h

theorem readRegionArea_doc {v : YVal α} {regs : List (String × α)} (h : readRegionArea v = .ok regs) :
    AreaOfDoc v regs := by
  obtain ⟨_, _, hc⟩ := readRegionArea_ok h
  rcases hc with ⟨n, hv, hr⟩ | ⟨l, hv, hm⟩
  · exact Or.inl ⟨n, hv, hr⟩
  · refine Or.inr ⟨l, hv, ?_⟩
    rw [mapE_ok_iff] at hm
    refine hm.imp ?_
    intro ent p hp
    obtain ⟨_, _, nv, he, hval⟩ := readRegion_ok hp
    exact ⟨nv, he, hval⟩

theorem readRegionArea_empty : readRegionArea (YVal.map ([] : List (YVal α × YVal α))) = .ok [] := by
  simp [readRegionArea, YVal.num?, mapE, nodupB]

theorem param_area_of_kind {p : Param α} (h : p.kind = AttrKind.area) : ∃ v, p = Param.area v := by
  cases p <;> simp [Param.kind] at h
  exact ⟨_, rfl⟩

/-- every field of the module `parse_yaml_module` returns, in terms of the attributes of its document entry. -/
theorem parseModule_doc {k : YVal α} {info : List (YVal α × YVal α)} {m0 : Mod α}
    (h : parseModule (k, YVal.map info) = .ok m0) :
    k = .str m0.name ∧
    (m0.hard = false ↔ ∃ v, (YVal.str "area", v) ∈ info ∧ v ≠ YVal.map []) ∧
    (∀ v, (YVal.str "area", v) ∈ info → m0.hard = false → AreaOfDoc v m0.areaRegions) ∧
    (m0.fixed = true ↔ (YVal.str "fixed", YVal.bool true) ∈ info) ∧
    (m0.terminal = true ↔ (YVal.str "terminal", YVal.bool true) ∈ info) ∧
    (m0.flip = true ↔ (YVal.str "flip", YVal.bool true) ∈ info) ∧
    ((∀ rv, (YVal.str "rectangles", rv) ∉ info) → m0.rects = []) ∧
    (∀ rv, (YVal.str "rectangles", rv) ∈ info →
      ∃ es, rectEntries rv = some es ∧ List.Forall₂ EntryRect es m0.rects ∧ m0.rects ≠ []) ∧
    (∀ cv, (YVal.str "center", cv) ∈ info → ∃ c, CenterOfDoc cv c ∧ m0.center = some c) ∧
    ((∀ cv, (YVal.str "center", cv) ∉ info) → m0.center = none) := by
  have hname := (parseModule_modOK h).2
  obtain ⟨kvs, ps, s, rects, hk, hnd, hp, hc, hr, hs⟩ := parseModule_info h
  obtain ⟨c1, c2, c3, c4, c5⟩ := params_of_doc hk hnd hp
  obtain ⟨s1, s2, s3, s4, s5, hm⟩ := setup_ok hs
  have hi := ctor_inv hc
  obtain ⟨f1, f2, f3, f4⟩ := ctor_flags hc c3
  -- the fields of the module in terms of the constructor state
  have e_hard : m0.hard = s.hard := by rw [hm]
  have e_fixed : m0.fixed = s.fixed := by rw [hm]
  have e_term : m0.terminal = s.terminal := by rw [hm]
  have e_flip : m0.flip = s.flip := by rw [hm]
  have e_center : m0.center = s.center := by rw [hm]
  have e_rects : m0.rects = rects := by rw [hm]
  have e_area : s.hard = false → m0.areaRegions = s.area := by intro hh; rw [hm]; simp [hh]
  -- a document attribute is a constructor parameter and vice versa
  have area_param : ∀ v, (YVal.str "area", v) ∈ info → Param.area v ∈ ps := by
    intro v hv
    obtain ⟨p, hpm, hmk⟩ := c1 AttrKind.area v (by decide) hv
    simp [mkParam] at hmk; subst hmk; exact hpm
  have flag_iff : ∀ (kd : AttrKind) (mk : YVal α → Param α), kd ≠ .rectangles →
      (∀ v, mkParam (kd, v) = .ok (mk v)) → (∀ v, (mk v).kind = kd) → (∀ v w, mk v = mk w → v = w) →
      ∀ v, (mk v ∈ ps ↔ (YVal.str (kindName kd), v) ∈ info) := by
    intro kd mk hkd hmk hkind hinj v
    constructor
    · intro hpm
      obtain ⟨w, hw, hmw⟩ := c2 (mk v) hpm
      rw [hkind, hmk w] at hmw
      have := hinj _ _ (Except.ok.inj hmw)
      rw [hkind] at hw
      rw [← this]; exact hw
    · intro hv
      obtain ⟨p, hpm, hmp⟩ := c1 kd v hkd hv
      rw [hmk v] at hmp
      cases hmp; exact hpm
  refine ⟨hname, ?_, ?_, ?_, ?_, ?_, ?_, ?_, ?_, ?_⟩
  · -- soft ⇔ a non-empty area attribute
    rw [e_hard]
    constructor
    · intro hh
      have hne := s3 hh
      have hin : AttrKind.area ∈ ps.map Param.kind := by
        by_contra hc'; exact hne (hi.area_dflt hc')
      obtain ⟨p, hpm, hpk⟩ := List.mem_map.mp hin
      obtain ⟨v, rfl⟩ := param_area_of_kind hpk
      obtain ⟨w, hw, hmw⟩ := c2 _ hpm
      simp [Param.kind, mkParam] at hmw
      subst hmw
      refine ⟨w, hw, ?_⟩
      intro hv
      have hra := ctor_area hc c3 hpm
      rw [hv, readRegionArea_empty] at hra
      exact hne (Except.ok.inj hra).symm
    · rintro ⟨v, hv, hvne⟩
      have hra := ctor_area hc c3 (area_param v hv)
      have hne := readRegionArea_ne_nil hra hvne
      cases hh : s.hard with
      | false => rfl
      | true => exact absurd (s5 hh).1 hne
  · intro v hv hh
    rw [e_hard] at hh
    rw [e_area hh]
    exact readRegionArea_doc (ctor_area hc c3 (area_param v hv))
  · rw [e_fixed, f1]
    exact flag_iff .fixed Param.fixed (by decide) (fun v => rfl) (fun v => rfl) (fun v w hvw => by cases hvw; rfl) _
  · rw [e_term, f2]
    exact flag_iff .terminal Param.terminal (by decide) (fun v => rfl) (fun v => rfl) (fun v w hvw => by cases hvw; rfl) _
  · rw [e_flip, f3]
    exact flag_iff .flip Param.flip (by decide) (fun v => rfl) (fun v => rfl) (fun v w hvw => by cases hvw; rfl) _
  · intro hno
    rw [e_rects]
    rcases hr with ⟨_, h2⟩ | ⟨v, h1, _⟩
    · exact h2
    · rw [c5 hno] at h1; cases h1
  · intro rv hrv
    rw [e_rects]
    have hsome := c4 rv hrv
    rcases hr with ⟨h1, _⟩ | ⟨v, h1, h2⟩
    · rw [hsome] at h1; cases h1
    · rw [hsome] at h1; cases h1
      obtain ⟨es, hes, hme, hne⟩ := parseRects_ok h2
      refine ⟨es, hes, ?_, hne⟩
      rw [mapE_ok_iff] at hme
      refine hme.imp ?_
      intro ent r hpr
      obtain ⟨hok, hform⟩ := parseRect_ok hpr
      exact ⟨hok.loc_eq, hform⟩
  · intro cv hcv
    obtain ⟨p, hpm, hmp⟩ := c1 AttrKind.center cv (by decide) hcv
    simp only [mkParam] at hmp
    split at hmp
    · rename_i c hpc
      cases hmp
      exact ⟨c, parseCenter_ok hpc, by rw [e_center]; exact (f4 c).mpr hpm⟩
    · cases hmp
  · intro hno
    rw [e_center]
    apply hi.center_dflt
    intro hin
    obtain ⟨p, hpm, hpk⟩ := List.mem_map.mp hin
    obtain ⟨v, hv, _⟩ := c2 p hpm
    rw [hpk] at hv
    exact hno v hv

/-- a module entry declared `fixed: true` or `hard: true` whose `terminal` attributes (if any) say `false`:
    hard and not a terminal once the constructor has run. -/
theorem declared_hard_nonterminal {info : List (YVal α × YVal α)} {kvs : List (AttrKind × YVal α)}
    {ps : List (Param α)} {s : MState α} (hk : mapE classify info = .ok kvs) (hnd : (kvs.map (·.1)).Nodup)
    (hp : mapE mkParam (kvs.filter (fun kv => kv.1 ≠ .rectangles)) = .ok ps) (hc : ctor ps = .ok s)
    (hdecl : (YVal.str "fixed", YVal.bool true) ∈ info ∨ (YVal.str "hard", YVal.bool true) ∈ info)
    (hnot : ∀ v, (YVal.str "terminal", v) ∈ info → v = YVal.bool false) : s.hard = true ∧ s.terminal = false := by
  obtain ⟨c1, c2, c3, _, _⟩ := params_of_doc hk hnd hp
  refine ⟨?_, ?_⟩
  · apply ctor_hard_true hc c3
    rcases hdecl with hf | hh
    · obtain ⟨p, hpm', hmk'⟩ := c1 AttrKind.fixed _ (by decide) hf
      simp [mkParam] at hmk'; subst hmk'; exact Or.inl hpm'
    · obtain ⟨p, hpm', hmk'⟩ := c1 AttrKind.hard _ (by decide) hh
      simp [mkParam] at hmk'; subst hmk'; exact Or.inr hpm'
  · obtain ⟨_, f2, _, _⟩ := ctor_flags hc c3
    cases ht : s.terminal with
    | false => rfl
    | true =>
      have hpm := f2.mp ht
      obtain ⟨w, hw, hmw⟩ := c2 _ hpm
      simp [Param.kind, mkParam] at hmw
      subst hmw
      have := hnot _ hw
      cases this

/-! ### nets -/

/-- the net a document entry `[names…]` / `[names…, weight]` denotes. -/
def NetOfDoc (y : YVal α) (e : Net α) : Prop :=
  (∃ w, y = .seq (e.members.map YVal.str ++ [YVal.ofNum w]) ∧ e.weight = w.val) ∨
  (y = .seq (e.members.map YVal.str) ∧ e.weight = 1)

section nets
variable {stog : List (NRect α) → List (NRect α)} {εA : α} {t : YVal α} {n : Netlist α}

/-- every net of a loaded netlist has at least two pins, a positive weight and names modules of the netlist. -/
theorem loaded_net_ok (h : parseNetlist stog εA t = .ok n) {e : Net α} (he : e ∈ n.nets) :
    2 ≤ e.members.length ∧ 0 < e.weight ∧ ∀ x ∈ e.members, ∃ m ∈ n.modules, m.name = x := by
  obtain ⟨ms, es, hd, hf, _, hnets⟩ := parseNetlist_modules h
  obtain ⟨_, _, _, _, _, hres⟩ := finish_ok hf
  rw [hnets] at he
  obtain ⟨y, hy⟩ := (parseDoc_mods_ok hd).2.2 e he
  obtain ⟨e', _, hr⟩ := mapE_ok_mem hres he
  obtain ⟨_, hmem, hw⟩ := resolveNet_ok hr
  refine ⟨(parseEdge_ok hy).1, hw, ?_⟩
  intro x hx
  obtain ⟨m, hm, hname⟩ := List.mem_map.mp (hmem x hx)
  exact ⟨m, hm, hname⟩

/-- the nets of the loaded netlist are the entries of the document's `Nets` list, in order. -/
theorem loaded_nets_doc {nets : List (YVal α)} (hd : HasNets t nets) (h : parseNetlist stog εA t = .ok n) :
    List.Forall₂ NetOfDoc nets n.nets := by
  obtain ⟨ms, es, _, hee, hf⟩ := loaded_nets hd h
  rw [(finish_modules hf).2]
  rw [mapE_ok_iff] at hee
  refine hee.imp ?_
  intro y e hy
  exact (parseEdge_ok hy).2

/-- the modules of the loaded netlist are the entries of the document's `Modules` dictionary, in order. -/
theorem loaded_modules_doc {mods : List (YVal α × YVal α)} (hd : HasModules t mods)
    (h : parseNetlist stog εA t = .ok n) :
    ∃ ms, List.Forall₂ (fun e m0 => parseModule e = .ok m0) mods ms ∧ n.modules = ms.map (finalize stog) ∧
      ∃ es, parseDoc t = .ok (ms, es) := by
  obtain ⟨ms, es, hdoc, hmm, hf⟩ := loaded_modules hd h
  exact ⟨ms, (mapE_ok_iff _ _ _).mp hmm, (finish_modules hf).1, es, hdoc⟩

theorem centersOf_some {xs : List String} {cs : List (α × α)} (h : centersOf n xs = some cs) :
    List.Forall₂ (fun x c => ∃ m ∈ n.modules, m.name = x ∧ m.center = some c) xs cs := by
  induction xs generalizing cs with
  | nil => simp [centersOf] at h; subst h; exact List.Forall₂.nil
  | cons x rest ih =>
    simp only [centersOf] at h
    split at h
    · cases h
    · rename_i m hfind
      split at h
      · rename_i c r hc hr
        cases h
        refine List.Forall₂.cons ⟨m, ?_, ?_, hc⟩ (ih hr)
        · exact List.mem_of_find?_eq_some hfind
        · have := List.find?_some hfind
          simpa using this
      · cases h

end nets

theorem finalize_fields (stog : List (NRect α) → List (NRect α)) (m0 : Mod α) :
    (finalize stog m0).hard = m0.hard ∧ (finalize stog m0).fixed = m0.fixed ∧
    (finalize stog m0).terminal = m0.terminal ∧ (finalize stog m0).flip = m0.flip ∧
    (finalize stog m0).areaRegions = m0.areaRegions := by
  by_cases hr : m0.rects = []
  · rw [finalize_rects_nil hr]; simp
  · rw [finalize_rects_cons hr]; simp


theorem centersOf_none {n : Netlist α} {xs : List String} (h : centersOf n xs = none) :
    ∃ x ∈ xs, n.find x = none ∨ ∃ m, n.find x = some m ∧ m.center = none := by
  induction xs with
  | nil => simp [centersOf] at h
  | cons x rest ih =>
    simp only [centersOf] at h
    split at h
    · rename_i hf; exact ⟨x, List.mem_cons_self, Or.inl hf⟩
    · rename_i m hf
      cases hc : m.center with
      | none => exact ⟨x, List.mem_cons_self, Or.inr ⟨m, hf, hc⟩⟩
      | some c =>
        cases hr : centersOf n rest with
        | none =>
          obtain ⟨y, hy, hyy⟩ := ih hr
          exact ⟨y, List.mem_cons_of_mem _ hy, hyy⟩
        | some r => simp [hc, hr] at h

/-! ### the tolerance a netlist proposes -/

theorem optMin_some (a : Option α) (b : α) : ∃ x, optMin a b = some x ∧ x ≤ b ∧ ∀ y, a = some y → x ≤ y := by
  cases a with
  | none => exact ⟨b, rfl, le_refl _, by intro y hy; cases hy⟩
  | some y =>
    refine ⟨min y b, by simp [optMin], min_le_right _ _, ?_⟩
    intro y' hy'; cases hy'; exact min_le_left _ _

theorem foldl_rects_le (l : List (NRect α)) (acc : Option α) (d : α)
    (h : l.foldl (fun acc r => optMin (optMin acc r.w.val) r.h.val) acc = some d) :
    (∀ a, acc = some a → d ≤ a) ∧ ∀ r ∈ l, d ≤ r.w.val ∧ d ≤ r.h.val := by
  induction l generalizing acc with
  | nil => simp at h; subst h; exact ⟨fun a ha => by cases ha; exact le_refl _, by simp⟩
  | cons r rest ih =>
    simp only [List.foldl_cons] at h
    obtain ⟨x1, e1, x1w, x1a⟩ := optMin_some acc r.w.val
    obtain ⟨x2, e2, x2h, x2a⟩ := optMin_some (some x1) r.h.val
    rw [e1] at h
    rw [e2] at h
    obtain ⟨i1, i2⟩ := ih (some x2) h
    have hd2 : d ≤ x2 := i1 x2 rfl
    have h21 : x2 ≤ x1 := x2a x1 rfl
    refine ⟨fun a ha => le_trans hd2 (le_trans h21 (x1a a ha)), ?_⟩
    intro r' hr'
    rcases List.mem_cons.mp hr' with rfl | hr'
    · exact ⟨le_trans hd2 (le_trans h21 x1w), le_trans hd2 x2h⟩
    · exact i2 r' hr'

theorem foldl_areas_le (sqrt : α → α) (l : List (Mod α)) (acc : Option α) (d : α)
    (h : l.foldl (fun acc m => if (0 : α) < m.area then optMin acc (sqrt m.area) else acc) acc = some d) :
    (∀ a, acc = some a → d ≤ a) ∧ ∀ m ∈ l, 0 < m.area → d ≤ sqrt m.area := by
  induction l generalizing acc with
  | nil => simp at h; subst h; exact ⟨fun a ha => by cases ha; exact le_refl _, by simp⟩
  | cons m rest ih =>
    simp only [List.foldl_cons] at h
    by_cases hp : 0 < m.area
    · simp only [hp, ↓reduceIte] at h
      obtain ⟨x1, e1, x1s, x1a⟩ := optMin_some acc (sqrt m.area)
      rw [e1] at h
      obtain ⟨i1, i2⟩ := ih (some x1) h
      refine ⟨fun a ha => le_trans (i1 x1 rfl) (x1a a ha), ?_⟩
      intro m' hm' hpos
      rcases List.mem_cons.mp hm' with rfl | hm'
      · exact le_trans (i1 x1 rfl) x1s
      · exact i2 m' hm' hpos
    · simp only [hp, ↓reduceIte] at h
      obtain ⟨i1, i2⟩ := ih acc h
      refine ⟨i1, ?_⟩
      intro m' hm' hpos
      rcases List.mem_cons.mp hm' with rfl | hm'
      · exact absurd hpos hp
      · exact i2 m' hm' hpos

/-- `smallest_distance` is a lower bound of every rectangle side and of the square root of every positive module area. -/
theorem smallestDistance_le (sqrt : α → α) (ms : List (Mod α)) (d : α) (h : smallestDistance sqrt ms = some d) :
    (∀ m ∈ ms, ∀ r ∈ m.rects, d ≤ r.w.val ∧ d ≤ r.h.val) ∧ (∀ m ∈ ms, 0 < m.area → d ≤ sqrt m.area) := by
  unfold smallestDistance at h
  simp only [zero_eq] at h
  obtain ⟨j1, j2⟩ := foldl_areas_le sqrt ms _ d h
  refine ⟨?_, j2⟩
  intro m hm r hr
  cases hs : (ms.flatMap (·.rects)).foldl (fun acc r => optMin (optMin acc r.w.val) r.h.val) none with
  | none =>
    -- impossible: the list of rectangles is not empty
    have hmem : r ∈ ms.flatMap (·.rects) := List.mem_flatMap.mpr ⟨m, hm, hr⟩
    obtain ⟨r0, rest, hrr⟩ := List.exists_cons_of_ne_nil (List.ne_nil_of_mem hmem)
    rw [hrr] at hs
    simp only [List.foldl_cons] at hs
    obtain ⟨x1, e1, _, _⟩ := optMin_some (none : Option α) r0.w.val
    obtain ⟨x2, e2, _, _⟩ := optMin_some (some x1) r0.h.val
    rw [e1, e2] at hs
    have : ∀ (l : List (NRect α)) (x : α), ∃ y, l.foldl (fun acc r => optMin (optMin acc r.w.val) r.h.val) (some x) = some y := by
      intro l
      induction l with
      | nil => intro x; exact ⟨x, rfl⟩
      | cons q qs ihq =>
        intro x
        simp only [List.foldl_cons]
        obtain ⟨y1, f1, _, _⟩ := optMin_some (some x) q.w.val
        obtain ⟨y2, f2, _, _⟩ := optMin_some (some y1) q.h.val
        rw [f1, f2]; exact ihq y2
    obtain ⟨y, hy⟩ := this rest x2
    rw [hy] at hs; cases hs
  | some d1 =>
    obtain ⟨_, k2⟩ := foldl_rects_le _ none d1 hs
    have hdd : d ≤ d1 := j1 d1 hs
    have := k2 r (List.mem_flatMap.mpr ⟨m, hm, hr⟩)
    exact ⟨le_trans hdd this.1, le_trans hdd this.2⟩

/-! ### small list lemmas used by the document-level statements of `FV/Props/C05.lean` -/

theorem forall₂_self_map {β γ : Type} {R : β → γ → Prop} (f : β → γ) (l : List β) (h : ∀ x ∈ l, R x (f x)) :
    List.Forall₂ R l (l.map f) := by
  induction l with
  | nil => exact List.Forall₂.nil
  | cons x xs ih => exact List.Forall₂.cons (h x List.mem_cons_self) (ih fun y hy => h y (List.mem_cons_of_mem _ hy))

theorem forall₂_mem_right {β γ : Type} {R : β → γ → Prop} {l1 : List β} {l2 : List γ} (h : List.Forall₂ R l1 l2)
    {b : γ} (hb : b ∈ l2) : ∃ a ∈ l1, R a b := by
  induction h with
  | nil => cases hb
  | @cons a b' _ _ hab _ ih =>
    rcases List.mem_cons.mp hb with rfl | hb
    · exact ⟨a, List.mem_cons_self, hab⟩
    · obtain ⟨a', ha', hr⟩ := ih hb; exact ⟨a', List.mem_cons_of_mem _ ha', hr⟩

theorem zip_self_map {β γ δ : Type} (f : β → γ) (g : β × γ → δ) (l : List β) :
    (l.zip (l.map f)).map g = l.map fun e => g (e, f e) := by
  induction l with
  | nil => rfl
  | cons x xs ih => simp [ih]

end FV.NL

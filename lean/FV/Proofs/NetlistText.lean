import FV.Model.NetlistText
import FV.Proofs.YamlText
import FV.Proofs.NetlistRT
import FV.Proofs.NetlistDoc
/-
  The netlist writer's tree is inside the subset of the YAML text model (`wfRoot`), hence
  `loadText (writeText n) = n` (used by `FV/Props/C04.lean`).
-/
namespace FV.NL
open FV FV.YT
set_option linter.unusedSectionVars false
set_option linter.unusedSimpArgs false

/-! ### `mapF`, `wfSeq`, `wfMap` on lists -/

theorem mapFSeq_eq {α β : Type} (f : α → β) (l : List (YVal α)) : mapFSeq f l = l.map (mapF f) := by
  induction l with
  | nil => rfl
  | cons v vs ih => simp [mapFSeq, ih]

theorem mapFMap_eq {α β : Type} (f : α → β) (l : List (YVal α × YVal α)) :
    mapFMap f l = l.map fun p => (mapF f p.1, mapF f p.2) := by
  induction l with
  | nil => rfl
  | cons p r ih => obtain ⟨k, v⟩ := p; simp [mapFMap, ih]

theorem wfSeq_eq (l : List (YVal String)) : wfSeq l = l.all wfNode := by
  induction l with
  | nil => rfl
  | cons v vs ih => simp [wfSeq, ih]

theorem wfMap_eq (l : List (YVal String × YVal String)) : wfMap l = l.all fun p => wfKey p.1 && wfNode p.2 := by
  induction l with
  | nil => rfl
  | cons p r ih => obtain ⟨k, v⟩ := p; simp [wfMap, ih]

mutual
theorem mapF_mapF {α β γ : Type} (f : α → β) (g : β → γ) : (t : YVal α) → mapF g (mapF f t) = mapF (g ∘ f) t
  | .null => rfl
  | .bool _ => rfl
  | .int _ => rfl
  | .float _ => rfl
  | .str _ => rfl
  | .seq l => by simp only [mapF]; rw [mapFSeq_mapFSeq f g l]
  | .map l => by simp only [mapF]; rw [mapFMap_mapFMap f g l]
theorem mapFSeq_mapFSeq {α β γ : Type} (f : α → β) (g : β → γ) :
    (l : List (YVal α)) → mapFSeq g (mapFSeq f l) = mapFSeq (g ∘ f) l
  | [] => rfl
  | v :: vs => by simp only [mapFSeq]; rw [mapF_mapF f g v, mapFSeq_mapFSeq f g vs]
theorem mapFMap_mapFMap {α β γ : Type} (f : α → β) (g : β → γ) :
    (l : List (YVal α × YVal α)) → mapFMap g (mapFMap f l) = mapFMap (g ∘ f) l
  | [] => rfl
  | (k, v) :: r => by simp only [mapFMap]; rw [mapF_mapF f g k, mapF_mapF f g v, mapFMap_mapFMap f g r]
end

mutual
theorem mapF_id' {α : Type} (f : α → α) (hf : ∀ x, f x = x) : (t : YVal α) → mapF f t = t
  | .null => rfl
  | .bool _ => rfl
  | .int _ => rfl
  | .float x => by simp [mapF, hf]
  | .str _ => rfl
  | .seq l => by simp only [mapF]; rw [mapFSeq_id' f hf l]
  | .map l => by simp only [mapF]; rw [mapFMap_id' f hf l]
theorem mapFSeq_id' {α : Type} (f : α → α) (hf : ∀ x, f x = x) : (l : List (YVal α)) → mapFSeq f l = l
  | [] => rfl
  | v :: vs => by simp only [mapFSeq]; rw [mapF_id' f hf v, mapFSeq_id' f hf vs]
theorem mapFMap_id' {α : Type} (f : α → α) (hf : ∀ x, f x = x) : (l : List (YVal α × YVal α)) → mapFMap f l = l
  | [] => rfl
  | (k, v) :: r => by simp only [mapFMap]; rw [mapF_id' f hf k, mapF_id' f hf v, mapFMap_id' f hf r]
end

/-- reading back with `float` what was written with `repr` gives the same tree. -/
theorem mapF_inverse {α β : Type} (fr : α → β) (fv : β → α) (h : ∀ x, fv (fr x) = x) (t : YVal α) :
    mapF fv (mapF fr t) = t := by
  rw [mapF_mapF]; exact mapF_id' _ (fun x => h x) t


/-! ### the writer's tree is well-formed for the text layer -/

section wf
variable {α : Type} [Field α] [LinearOrder α] [IsStrictOrderedRing α]
variable (fr : α → String) (hfr : ∀ x, isPyFloatRepr (fr x).toList = true)
include hfr

theorem wf_num (n : Num α) : wfNode (mapF fr (dumpNum n)) = true := by
  cases n <;> simp [dumpNum, YVal.ofNum, mapF, wfNode, hfr]

theorem wf_pair (p : α × α) : wfNode (mapF fr (dumpPair p)) = true := by
  simp [dumpPair, mapF, mapFSeq, wfNode, wfSeq, hfr]

theorem wf_rect (r : NRect α) (hr : validIdent r.region = true) : wfNode (mapF fr (dumpRect r)) = true := by
  have := wf_num fr hfr
  by_cases h : r.region = "_"
  · simp [dumpRect, h, mapF, mapFSeq, wfNode, wfSeq, this]
  · simp [dumpRect, h, mapF, mapFSeq, wfNode, wfSeq, this, hr]

theorem wf_rects (rs : List (NRect α)) (hr : ∀ r ∈ rs, validIdent r.region = true) :
    wfNode (mapF fr (.seq (rs.map dumpRect))) = true := by
  simp only [mapF, wfNode, mapFSeq_eq, wfSeq_eq, List.map_map, List.all_map, List.all_eq_true, Function.comp]
  intro r hrm; exact wf_rect fr hfr r (hr r hrm)

theorem wf_area (regs : List (String × α)) (h : ∀ p ∈ regs, validIdent p.1 = true ∧ keyLenOK p.1 = true) :
    wfNode (mapF fr (dumpArea regs)) = true := by
  have key : ∀ l : List (String × α), (∀ p ∈ l, validIdent p.1 = true ∧ keyLenOK p.1 = true) →
      wfNode (mapF fr (.map (l.map fun p => (YVal.str p.1, YVal.float p.2)))) = true := by
    intro l hl
    simp only [mapF, wfNode, mapFMap_eq, wfMap_eq, List.map_map, List.all_map, List.all_eq_true, Function.comp]
    intro p hp
    obtain ⟨h1, h2⟩ := hl p hp
    simp only [keyLenOK, decide_eq_true_eq] at h2
    simp [mapF, wfKey, wfNode, h1, h2, hfr]
  unfold dumpArea
  split
  · rename_i r a
    by_cases hr : r = "_"
    · simp [hr, mapF, wfNode, hfr]
    · simp only [hr, ↓reduceIte]
      exact key [(r, a)] h
  · exact key regs h

theorem wf_net (e : Net α) (h : ∀ x ∈ e.members, validIdent x = true) : wfNode (mapF fr (dumpNet e)) = true := by
  simp only [dumpNet, mapF, wfNode, mapFSeq_eq, wfSeq_eq, List.map_append, List.all_append, List.map_map,
    List.all_map, Bool.and_eq_true, List.all_eq_true, Function.comp]
  refine ⟨fun x hx => by simpa [mapF, wfNode] using h x hx, ?_⟩
  by_cases hw : e.weight = (one : α)
  · simp [hw]
  · simp [hw, mapF, wfNode, hfr]

theorem wf_module (m : Mod α) (hok : FinOK m) (hlen : ∀ p ∈ m.areaRegions, keyLenOK p.1 = true) :
    wfNode (mapF fr (dumpModule m)) = true := by
  simp only [dumpModule, mapF, wfNode, mapFMap_eq, wfMap_eq, List.all_map, List.all_eq_true, Function.comp]
  intro p hp
  have kw : ∀ s : String, validIdent s = true → keyLenOK s = true → wfKey (mapF fr (YVal.str s)) = true := by
    intro s h1 h2; simp [mapF, wfKey, h1]; simpa [keyLenOK] using h2
  have hb : wfNode (mapF fr (YVal.bool true)) = true := rfl
  have harea : m.hard = false → wfNode (mapF fr (dumpArea m.areaRegions)) = true := fun hh =>
    wf_area fr hfr _ (fun q hq => ⟨((hok.soft_area hh).2.1 q hq).1, hlen q hq⟩)
  have hrects : wfNode (mapF fr (.seq (m.rects.map dumpRect))) = true :=
    wf_rects fr hfr _ (fun r hr => by simpa [NRect.resetLoc] using (hok.rects_ok r hr).region_ok)
  simp only [dumpModuleAttrs, List.mem_append] at hp
  rcases hp with (((hp | hp) | hp) | hp) | hp
  · -- soft part: area, centre, aspect ratio
    cases hh : m.hard with
    | true => simp [hh] at hp
    | false =>
      simp only [hh, Bool.not_false, ↓reduceIte, List.mem_append, List.mem_cons, List.not_mem_nil, or_false] at hp
      rcases hp with (rfl | hp) | hp
      · simp only [Bool.and_eq_true]; exact ⟨kw "area" (by decide) (by decide), harea hh⟩
      · cases hc : m.center with
        | none => simp [hc] at hp
        | some c =>
          simp only [hc, List.mem_cons, List.not_mem_nil, or_false] at hp; subst hp
          simp only [Bool.and_eq_true]; exact ⟨kw "center" (by decide) (by decide), wf_pair fr hfr c⟩
      · cases ha : m.aspect with
        | none => simp [ha] at hp
        | some a =>
          simp only [ha, List.mem_cons, List.not_mem_nil, or_false] at hp; subst hp
          simp only [Bool.and_eq_true]; exact ⟨kw "aspect_ratio" (by decide) (by decide), wf_pair fr hfr a⟩
  · -- fixed / hard
    split at hp
    · simp only [List.mem_cons, List.not_mem_nil, or_false] at hp; subst hp
      simp only [Bool.and_eq_true]; exact ⟨kw "fixed" (by decide) (by decide), hb⟩
    · split at hp
      · simp only [List.mem_cons, List.not_mem_nil, or_false] at hp; subst hp
        simp only [Bool.and_eq_true]; exact ⟨kw "hard" (by decide) (by decide), hb⟩
      · simp at hp
  · -- terminal (and its centre)
    split at hp
    · simp only [List.mem_append, List.mem_cons, List.not_mem_nil, or_false] at hp
      rcases hp with rfl | hp
      · simp only [Bool.and_eq_true]; exact ⟨kw "terminal" (by decide) (by decide), hb⟩
      · split at hp
        · cases hc : m.center with
          | none => simp [hc] at hp
          | some c =>
            simp only [hc, List.mem_cons, List.not_mem_nil, or_false] at hp; subst hp
            simp only [Bool.and_eq_true]; exact ⟨kw "center" (by decide) (by decide), wf_pair fr hfr c⟩
        · simp at hp
    · simp at hp
  · split at hp
    · simp only [List.mem_cons, List.not_mem_nil, or_false] at hp; subst hp
      simp only [Bool.and_eq_true]; exact ⟨kw "flip" (by decide) (by decide), hb⟩
    · simp at hp
  · split at hp
    · simp only [List.mem_cons, List.not_mem_nil, or_false] at hp; subst hp
      simp only [Bool.and_eq_true]; exact ⟨kw "rectangles" (by decide) (by decide), hrects⟩
    · simp at hp

/-- the tree written for a loaded netlist lies in the subset of the text model. -/
theorem dump_wfRoot {stog : List (NRect α) → List (NRect α)} (hp : StogPerm stog) {εA : α} {t : YVal α}
    {n : Netlist α} (h : parseNetlist stog εA t = .ok n) (hlen : n.textOK = true) :
    wfRoot (mapF fr (dumpNetlist n)) = true := by
  obtain ⟨ms, es, hd, hf, hmods, hnets⟩ := parseNetlist_modules h
  have hMod : ∀ m ∈ n.modules, FinOK m := by
    intro m hm
    rw [hmods] at hm
    obtain ⟨m0, hm0, rfl⟩ := List.mem_map.mp hm
    obtain ⟨e, he⟩ := (parseDoc_mods_ok hd).1 m0 hm0
    exact finOK_finalize hp (parseModule_modOK he).1
  simp only [Netlist.textOK, List.all_eq_true, Bool.and_eq_true] at hlen
  have kw : ∀ s : String, validIdent s = true → keyLenOK s = true → wfKey (mapF fr (YVal.str s)) = true := by
    intro s h1 h2; simp [mapF, wfKey, h1]; simpa [keyLenOK] using h2
  have hM : wfNode (mapF fr (.map (n.modules.map fun m => (YVal.str m.name, dumpModule m)))) = true := by
    simp only [mapF, wfNode, mapFMap_eq, wfMap_eq, List.map_map, List.all_map, List.all_eq_true, Function.comp,
      Bool.and_eq_true]
    intro m hm
    exact ⟨kw _ (hMod m hm).name_ok (hlen m hm).1, wf_module fr hfr m (hMod m hm) (hlen m hm).2⟩
  have hN : wfNode (mapF fr (.seq (n.nets.map dumpNet))) = true := by
    simp only [mapF, wfNode, mapFSeq_eq, wfSeq_eq, List.map_map, List.all_map, List.all_eq_true, Function.comp]
    intro e he
    apply wf_net fr hfr
    intro x hx
    obtain ⟨m, hm, rfl⟩ := (loaded_net_ok h he).2.2 x hx
    exact (hMod m hm).name_ok
  simp only [wfRoot, dumpNetlist, Bool.and_eq_true, Bool.not_eq_true']
  refine ⟨by simp [mapF, mapFMap, isScalarLike], ?_⟩
  simp only [mapF, mapFMap, wfNode, wfMap, Bool.and_eq_true, and_true]
  refine ⟨⟨by decide, ?_⟩, ⟨by decide, ?_⟩⟩
  · simpa [mapF, wfNode] using hM
  · simpa [mapF, wfNode] using hN

end wf

section rt
variable {α : Type} [Field α] [LinearOrder α] [IsStrictOrderedRing α]

/-- WRITE → READ, DOWN TO THE CHARACTERS: the text written for a loaded netlist is read back as that netlist. -/
theorem loadText_writeText {stog : List (NRect α) → List (NRect α)} (hp : StogPerm stog) (hs : StogStable stog)
    {εA : α} (fr : α → String) (fv : String → α) (hfr : ∀ x, isPyFloatRepr (fr x).toList = true)
    {t : YVal α} {n : Netlist α} (h : parseNetlist stog εA t = .ok n) (hlen : n.textOK = true)
    (hfv : mapF fv (mapF fr (dumpNetlist n)) = dumpNetlist n) :
    loadText fv stog εA (writeText fr n) = some (.ok n) := by
  unfold loadText writeText
  rw [parseText_emitText (dump_wfRoot fr hfr hp h hlen)]
  simp only [hfv]
  rw [roundtrip_core hp hs h]

/-- the emitted text always has a line feed: `read_yaml` takes it for YAML text, never for a file name. -/
theorem writeText_isYamlText (fr : α → String) (n : Netlist α) : isYamlText (writeText fr n) = true := by
  have : '\n' ∈ writeText fr n := by
    simp only [writeText, emitText, dumpNetlist, mapF, mapFMap, nodeLines]
    obtain ⟨h0, t0, e0, _⟩ := mapLines_head 0 (YVal.str "Modules") (mapF fr (.map (n.modules.map fun m => (.str m.name, dumpModule m))))
      [(YVal.str "Nets", mapF fr (.seq (n.nets.map dumpNet)))]
    simp only [mapF] at e0
    rw [e0]
    simp [linesText]
  simp [isYamlText, this]

end rt

end FV.NL

import FV.Model.Force
import FV.Proofs.Geom
/-
  Helper lemmas for the force-directed relocation model (`FV/Model/Force.lean`).
  Everything here holds for *every* value of the numeric parameters (`Ops`, the disc overlap):
  no property of `sqrt`, `**` or of the displacement vectors is used.
-/
namespace FV.Force
open FV
set_option linter.unusedSectionVars false
set_option linter.unusedVariables false

/-! ### order-free facts (valid for any type with a decidable `<`, e.g. `Float`) -/

/-- the clamp returns a bound or a value strictly between the bounds — no order axiom is needed. -/
theorem clamp_trichotomy {γ : Type} [LT γ] [DecidableLT γ] (lo hi x : γ) :
    pyMin hi (pyMax lo x) = hi ∨ pyMin hi (pyMax lo x) = lo ∨
      (pyMin hi (pyMax lo x) = x ∧ lo < x ∧ x < hi) := by
  unfold pyMin pyMax
  by_cases h1 : lo < x
  · by_cases h2 : x < hi
    · right; right; simp [h1, h2]
    · left; simp [h1, h2]
  · by_cases h3 : lo < hi
    · right; left; simp [h1, h3]
    · left; simp [h1, h3]

theorem bind_ok {ε γ β : Type} (x : Except ε γ) (f : γ → Except ε β) (b : β) :
    (x >>= f) = .ok b ↔ ∃ a, x = .ok a ∧ f a = .ok b := by
  cases x <;> simp [bind, Except.bind]

theorem pure_ok {ε γ : Type} (a b : γ) : (pure a : Except ε γ) = .ok b ↔ a = b := by
  simp [pure, Except.pure]

theorem getD_map_range {γ : Type} (f : Nat → γ) (n i : Nat) (h : i < n) (d : γ) :
    ((List.range n).map f).getD i d = f i := by
  simp [List.getD_eq_getElem?_getD, h]

variable {α : Type} [Field α] [LinearOrder α] [IsStrictOrderedRing α]

@[simp] theorem zero_eq : (zero : α) = 0 := by simp [zero]
@[simp] theorem one_eq : (one : α) = 1 := by simp [one]
@[simp] theorem two_eq : (two : α) = 2 := by simp [two]
@[simp] theorem ten_eq : (ten : α) = 10 := by simp [ten]

theorem clamp_eq (lo hi x : α) : clamp lo hi x = min hi (max lo x) := by
  simp [clamp]

theorem clamp_mem (lo hi x : α) (h : lo ≤ hi) : lo ≤ clamp lo hi x ∧ clamp lo hi x ≤ hi := by
  rw [clamp_eq]
  exact ⟨le_min h (le_max_left _ _), min_le_left _ _⟩

/-! ### one node, one step -/

theorem moveOne_fixed (o : Ops α) (W H t : α) (p d : Pt α) : moveOne o W H t true p d = p := by
  simp [moveOne]

theorem moveOne_clamped (o : Ops α) (W H t : α) (p d : Pt α) (hW : 0 ≤ W) (hH : 0 ≤ H) :
    -W / 2 ≤ (moveOne o W H t false p d).1 ∧ (moveOne o W H t false p d).1 ≤ W / 2 ∧
    -H / 2 ≤ (moveOne o W H t false p d).2 ∧ (moveOne o W H t false p d).2 ≤ H / 2 := by
  have hw : -W / 2 ≤ W / 2 := by linarith
  have hh : -H / 2 ≤ H / 2 := by linarith
  simp only [moveOne, Bool.false_eq_true, ↓reduceIte, two_eq]
  exact ⟨(clamp_mem _ _ _ hw).1, (clamp_mem _ _ _ hw).2, (clamp_mem _ _ _ hh).1, (clamp_mem _ _ _ hh).2⟩

/-- what a step does to node `v`: `moveOne` applied to its old position and *some* displacement. -/
theorem frStep_getD {β : Type} (o : Ops α) (inst : Inst α β) (k t : α) (pos : List (Pt α)) (v : Nat)
    (hv : v < inst.mods.length) :
    ∃ d : Pt α, (frStep o inst k t pos).getD v pzero =
      moveOne o inst.W inst.H t (modFixed inst v) (pos.getD v pzero) d := by
  simp only [frStep]
  exact ⟨_, getD_map_range _ _ _ hv _⟩

theorem frStep_length {β : Type} (o : Ops α) (inst : Inst α β) (k t : α) (pos : List (Pt α)) :
    (frStep o inst k t pos).length = inst.mods.length := by
  simp [frStep]

/-- the box `[-W/2, W/2] × [-H/2, H/2]` of die-centred coordinates. -/
def InBox (W H : α) (p : Pt α) : Prop := -W / 2 ≤ p.1 ∧ p.1 ≤ W / 2 ∧ -H / 2 ≤ p.2 ∧ p.2 ≤ H / 2

theorem frStep_fixed {β : Type} (o : Ops α) (inst : Inst α β) (k t : α) (pos : List (Pt α)) (v : Nat)
    (hv : v < inst.mods.length) (hf : modFixed inst v = true) :
    (frStep o inst k t pos).getD v pzero = pos.getD v pzero := by
  obtain ⟨d, hd⟩ := frStep_getD o inst k t pos v hv
  rw [hd, hf, moveOne_fixed]

theorem frStep_clamped {β : Type} (o : Ops α) (inst : Inst α β) (k t : α) (pos : List (Pt α)) (v : Nat)
    (hv : v < inst.mods.length) (hf : modFixed inst v = false) (hW : 0 ≤ inst.W) (hH : 0 ≤ inst.H) :
    InBox inst.W inst.H ((frStep o inst k t pos).getD v pzero) := by
  obtain ⟨d, hd⟩ := frStep_getD o inst k t pos v hv
  rw [hd, hf]
  exact moveOne_clamped o _ _ t _ d hW hH

/-! ### the loop -/

theorem frLoop_length {β : Type} (o : Ops α) (inst : Inst α β) (k dt : α) (i : Nat) (t : α) (pos : List (Pt α))
    (hp : pos.length = inst.mods.length) : (frLoop o inst k dt i t pos).length = inst.mods.length := by
  induction i generalizing t pos with
  | zero => simpa [frLoop] using hp
  | succ i ih => simp only [frLoop]; exact ih _ _ (frStep_length ..)

theorem frLoop_fixed {β : Type} (o : Ops α) (inst : Inst α β) (k dt : α) (i : Nat) (t : α) (pos : List (Pt α))
    (v : Nat) (hv : v < inst.mods.length) (hf : modFixed inst v = true) :
    (frLoop o inst k dt i t pos).getD v pzero = pos.getD v pzero := by
  induction i generalizing t pos with
  | zero => simp [frLoop]
  | succ i ih => simp only [frLoop]; rw [ih, frStep_fixed o inst k t pos v hv hf]

/-- a movable node is in the box after every iteration; before the first one if it started there. -/
theorem frLoop_clamped {β : Type} (o : Ops α) (inst : Inst α β) (k dt : α) (i : Nat) (t : α) (pos : List (Pt α))
    (v : Nat) (hv : v < inst.mods.length) (hf : modFixed inst v = false) (hW : 0 ≤ inst.W) (hH : 0 ≤ inst.H)
    (h0 : i = 0 → InBox inst.W inst.H (pos.getD v pzero)) :
    InBox inst.W inst.H ((frLoop o inst k dt i t pos).getD v pzero) := by
  induction i generalizing t pos with
  | zero => simpa [frLoop] using h0 rfl
  | succ i ih =>
    simp only [frLoop]
    exact ih _ _ (fun _ => frStep_clamped o inst k t pos v hv hf hW hH)

/-! ### centres written back -/

theorem initPos_length {β : Type} (inst : Inst α β) : (initPos inst).length = inst.mods.length := by
  simp [initPos]

theorem initPos_getD {β : Type} (inst : Inst α β) (v : Nat) (m : Mod α β) (c : Pt α)
    (hm : inst.mods[v]? = some m) (hc : m.center = some c) :
    (initPos inst).getD v pzero = psub c (pdiv (inst.W, inst.H) two) := by
  simp only [initPos, List.getD_eq_getElem?_getD, List.getElem?_map, hm, Option.map_some, Option.getD_some, hc]

theorem writeCentres_mods {β : Type} (inst : Inst α β) (pos : List (Pt α)) (v : Nat) (m : Mod α β)
    (hm : inst.mods[v]? = some m) :
    (writeCentres inst pos).mods[v]? =
      some { m with center := some (padd (pos.getD v pzero) (pdiv (inst.W, inst.H) two)) } := by
  have hv : v < inst.mods.length := by
    rcases List.getElem?_eq_some_iff.mp hm with ⟨h, _⟩; exact h
  have hm' : inst.mods[v] = m := by
    rcases List.getElem?_eq_some_iff.mp hm with ⟨_, h⟩; exact h
  simp [writeCentres, hv, hm']

theorem writeCentres_length {β : Type} (inst : Inst α β) (pos : List (Pt α)) :
    (writeCentres inst pos).mods.length = inst.mods.length := by
  simp [writeCentres]

/-- frame condition: areas, fixed flags and payloads (names, rectangles, …) are those of the input, in order. -/
theorem writeCentres_frame {β : Type} (inst : Inst α β) (pos : List (Pt α)) :
    (writeCentres inst pos).mods.map (fun m => (m.area, m.fixed, m.rest)) =
      inst.mods.map (fun m => (m.area, m.fixed, m.rest)) := by
  apply List.ext_getElem?
  intro v
  simp only [List.getElem?_map]
  cases hm : inst.mods[v]? with
  | none =>
    have : (writeCentres inst pos).mods[v]? = none := by
      rw [List.getElem?_eq_none_iff] at hm ⊢
      rw [writeCentres_length]; exact hm
    simp [this]
  | some m => simp [writeCentres_mods inst pos v m hm]

theorem shift_back (c : Pt α) (W H : α) : padd (psub c (pdiv (W, H) two)) (pdiv (W, H) two) = c := by
  simp [padd, psub, pdiv]

/-! ### first strict minimum -/

theorem argminFirst_fold {κ : Type} (cs : List (κ × α)) (c : κ × α) :
    ∃ l1 l2, c :: cs = l1 ++ (cs.foldl (fun best x => if x.2 < best.2 then x else best) c) :: l2 ∧
      (∀ x ∈ l1, (cs.foldl (fun best x => if x.2 < best.2 then x else best) c).2 < x.2) ∧
      (∀ x ∈ l2, (cs.foldl (fun best x => if x.2 < best.2 then x else best) c).2 ≤ x.2) := by
  -- generalise: prefix `pre` already scanned with current best `b` at a known position
  suffices H : ∀ (cs pre1 pre2 : List (κ × α)) (b : κ × α),
      (∀ x ∈ pre1, b.2 < x.2) → (∀ x ∈ pre2, b.2 ≤ x.2) →
      ∃ l1 l2, pre1 ++ b :: pre2 ++ cs = l1 ++ (cs.foldl (fun best x => if x.2 < best.2 then x else best) b) :: l2 ∧
        (∀ x ∈ l1, (cs.foldl (fun best x => if x.2 < best.2 then x else best) b).2 < x.2) ∧
        (∀ x ∈ l2, (cs.foldl (fun best x => if x.2 < best.2 then x else best) b).2 ≤ x.2) by
    simpa using H cs [] [] c (by simp) (by simp)
  intro cs
  induction cs with
  | nil =>
    intro pre1 pre2 b h1 h2
    exact ⟨pre1, pre2, by simp, h1, h2⟩
  | cons y ys ih =>
    intro pre1 pre2 b h1 h2
    simp only [List.foldl_cons]
    by_cases hy : y.2 < b.2
    · simp only [hy, ↓reduceIte]
      have := ih (pre1 ++ b :: pre2) [] y
        (by
          intro x hx
          rcases List.mem_append.mp hx with hx | hx
          · exact lt_trans hy (h1 x hx)
          · rcases List.mem_cons.mp hx with hx | hx
            · rw [hx]; exact hy
            · exact lt_of_lt_of_le hy (h2 x hx))
        (by simp)
      simpa using this
    · simp only [hy, ↓reduceIte]
      have := ih pre1 (pre2 ++ [y]) b h1
        (by
          intro x hx
          rcases List.mem_append.mp hx with hx | hx
          · exact h2 x hx
          · simp at hx; rw [hx]; exact not_lt.mp hy)
      simpa using this

theorem argminFrom_some {κ : Type} (ltInf : α → Bool) (cs : List (κ × α)) (b : κ × α) :
    argminFrom ltInf cs (some b) = some (cs.foldl (fun best x => if x.2 < best.2 then x else best) b) := by
  unfold argminFrom
  induction cs generalizing b with
  | nil => rfl
  | cons x xs ih =>
    simp only [List.foldl_cons]
    by_cases hx : x.2 < b.2
    · simp only [hx, ↓reduceIte]; exact ih x
    · simp only [hx, ↓reduceIte]; exact ih b

/-- when every cost is below `inf` (always so in a field), the selection loop returns the first entry of minimal
    cost, and it returns one as soon as the table is not empty. -/
theorem argminFrom_spec {κ : Type} (ltInf : α → Bool) (hlt : ∀ x, ltInf x = true) (cs : List (κ × α)) :
    (cs = [] ∧ argminFrom ltInf cs none = none) ∨
    ∃ b l1 l2, argminFrom ltInf cs none = some b ∧ cs = l1 ++ b :: l2 ∧ (∀ x ∈ l1, b.2 < x.2) ∧ (∀ x ∈ l2, b.2 ≤ x.2) := by
  cases cs with
  | nil => left; exact ⟨rfl, rfl⟩
  | cons c cs =>
    right
    have h1 : argminFrom ltInf (c :: cs) none = argminFrom ltInf cs (some c) := by
      simp [argminFrom, hlt]
    obtain ⟨l1, l2, e, m1, m2⟩ := argminFirst_fold cs c
    exact ⟨_, l1, l2, by rw [h1, argminFrom_some], e, m1, m2⟩

theorem costTable_spec (f : α → Except FErr α) (ks : List α) (r : List (α × α)) (h : costTable f ks = .ok r) :
    r.map Prod.fst = ks ∧ ∀ x ∈ r, f x.1 = .ok x.2 := by
  induction ks generalizing r with
  | nil => simp only [costTable, Except.ok.injEq] at h; subst h; simp
  | cons kp ks ih =>
    simp only [costTable, bind_ok] at h
    obtain ⟨c, hc, r', hr, h⟩ := h
    rw [pure_ok] at h; subst h
    obtain ⟨h1, h2⟩ := ih r' hr
    refine ⟨by simp [h1], ?_⟩
    intro x hx
    rcases List.mem_cons.mp hx with hx | hx
    · rw [hx]; exact hc
    · exact h2 x hx

/-! ### when the layout returns -/

theorem isZeroF_iff (x : α) : isZeroF x = true ↔ x = 0 := by
  simp only [isZeroF, zero_eq, Bool.and_eq_true, decide_eq_true_eq]
  exact ⟨fun ⟨a, b⟩ => le_antisymm a b, fun h => by simp [h]⟩

theorem frPositions_ok {β : Type} (o : Ops α) (inst : Inst α β) (kappa : α) (maxIter : Nat) (pos : List (Pt α))
    (h : frPositions o inst kappa maxIter = .ok pos) :
    ∃ k, springK o inst kappa = .ok k ∧ attractionRaises k maxIter inst.nets = false ∧
      pos = frLoop o inst k (tempStep inst maxIter) maxIter (temp0 inst) (initPos inst) := by
  unfold frPositions at h
  rw [bind_ok] at h
  obtain ⟨k, hk, h⟩ := h
  split at h
  · simp at h
  · rename_i hr
    rw [pure_ok] at h
    exact ⟨k, hk, by simpa using hr, h.symm⟩

theorem frLayout_ok {β : Type} (o : Ops α) (inst : Inst α β) (kappa : α) (maxIter : Nat) (out : Inst α β)
    (h : frLayout o inst kappa maxIter = .ok out) :
    ∃ pos, frPositions o inst kappa maxIter = .ok pos ∧ out = writeCentres inst pos := by
  unfold frLayout at h
  rw [bind_ok] at h
  obtain ⟨pos, hp, h⟩ := h
  rw [pure_ok] at h
  exact ⟨pos, hp, h.symm⟩

end FV.Force

import FV.Model.YamlText
/-
  Helper lemmas for the YAML text layer (`FV/Model/YamlText.lean`): `parseText (emitText t) = some t`.

  Stage 2 (lines ↔ tree, no well-formedness needed): `pSeq_seqLines`, `pMap_mapLines`, `parseLines_nodeLines`.
  Stage 1 (characters ↔ line): `classify_emitScalar`, `lexLine_showLine`, `textLines_linesText`.
-/
namespace FV.YT
open FV

/-! ## stage 2: the block structure -/

theorem weight_append (a b : List Line) : weight (a ++ b) = weight a + weight b := by
  induction a with
  | nil => simp [weight]
  | cons h t ih => simp [weight, ih]; omega

/-- the line that may follow a block sequence in column `c`: further left, or a key in the same column. -/
def GSeq (c : Nat) (rest : List Line) : Prop := ∀ h ∈ rest.head?, h.indent < c ∨ (h.indent = c ∧ h.dashes = 0)

/-- the line that may follow a block mapping in column `c`: further left. -/
def GMap (c : Nat) (rest : List Line) : Prop := ∀ h ∈ rest.head?, h.indent < c

/-- first line of a sequence block / of a mapping block in column `c`. -/
def SeqHead (c : Nat) (ls : List Line) : Prop := ∃ h t, ls = h :: t ∧ h.indent = c ∧ 1 ≤ h.dashes
def MapHead (c : Nat) (ls : List Line) : Prop := ∃ h t, ls = h :: t ∧ h.indent = c ∧ h.dashes = 0 ∧ h.key.isSome

theorem isScalarLike_false {v : YVal String} (h : isScalarLike v = false) :
    (∃ x xs, v = .seq (x :: xs)) ∨ (∃ e es, v = .map (e :: es)) := by
  cases v with
  | seq l => cases l with
    | nil => simp [isScalarLike] at h
    | cons x xs => exact Or.inl ⟨x, xs, rfl⟩
  | map l => cases l with
    | nil => simp [isScalarLike] at h
    | cons e es => exact Or.inr ⟨e, es, rfl⟩
  | _ => simp [isScalarLike] at h

theorem seqLines_cons_scalar (c : Nat) (v : YVal String) (vs : List (YVal String)) (h : isScalarLike v = true) :
    seqLines c (v :: vs) = ⟨c, 1, none, some v, false⟩ :: seqLines c vs := by
  simp [seqLines, h]

theorem seqLines_cons_node (c : Nat) (v : YVal String) (vs : List (YVal String)) (h : isScalarLike v = false) :
    seqLines c (v :: vs) = addDash c (nodeLines (c + 2) v) ++ seqLines c vs := by
  simp [seqLines, h]

theorem mapLines_cons_scalar (c : Nat) (k v : YVal String) (r : List (YVal String × YVal String))
    (h : isScalarLike v = true) (hw : wraps c k v = false) :
    mapLines c ((k, v) :: r) = ⟨c, 0, some k, some v, false⟩ :: mapLines c r := by
  simp [mapLines, h, hw]

theorem mapLines_cons_wrap (c : Nat) (k v : YVal String) (r : List (YVal String × YVal String))
    (h : isScalarLike v = true) (hw : wraps c k v = true) :
    mapLines c ((k, v) :: r) = ⟨c, 0, some k, none, true⟩ :: ⟨c + 2, 0, none, some v, false⟩ :: mapLines c r := by
  simp [mapLines, h, hw]

theorem mapLines_cons_seq (c : Nat) (k x : YVal String) (xs : List (YVal String)) (r : List (YVal String × YVal String)) :
    mapLines c ((k, .seq (x :: xs)) :: r) = ⟨c, 0, some k, none, false⟩ :: (seqLines c (x :: xs) ++ mapLines c r) := by
  simp [mapLines, isScalarLike, nodeLines]

theorem mapLines_cons_map (c : Nat) (k : YVal String) (e : YVal String × YVal String)
    (es r : List (YVal String × YVal String)) :
    mapLines c ((k, .map (e :: es)) :: r) = ⟨c, 0, some k, none, false⟩ :: (mapLines (c + 2) (e :: es) ++ mapLines c r) := by
  simp [mapLines, isScalarLike, nodeLines]

theorem mapLines_head (c : Nat) (k v : YVal String) (r : List (YVal String × YVal String)) :
    MapHead c (mapLines c ((k, v) :: r)) := by
  cases hs : isScalarLike v with
  | true =>
    cases hw : wraps c k v with
    | false => rw [mapLines_cons_scalar _ _ _ _ hs hw]; exact ⟨_, _, rfl, rfl, rfl, rfl⟩
    | true => rw [mapLines_cons_wrap _ _ _ _ hs hw]; exact ⟨_, _, rfl, rfl, rfl, rfl⟩
  | false =>
    rcases isScalarLike_false hs with ⟨x, xs, rfl⟩ | ⟨e, es, rfl⟩
    · rw [mapLines_cons_seq]; exact ⟨_, _, rfl, rfl, rfl, rfl⟩
    · rw [mapLines_cons_map]; exact ⟨_, _, rfl, rfl, rfl, rfl⟩

theorem seqLines_head (c : Nat) : (v : YVal String) → (vs : List (YVal String)) → SeqHead c (seqLines c (v :: vs))
  | .seq (x :: xs), vs => by
      obtain ⟨h, t, e, hi, hd⟩ := seqLines_head (c + 2) x xs
      rw [seqLines_cons_node _ _ _ rfl]
      simp only [nodeLines]; rw [e]
      exact ⟨_, _, rfl, rfl, by simp⟩
  | .map ((k, w) :: es), vs => by
      obtain ⟨h, t, e, hi, hd, hk⟩ := mapLines_head (c + 2) k w es
      rw [seqLines_cons_node _ _ _ rfl]
      simp only [nodeLines]; rw [e]
      exact ⟨_, _, rfl, rfl, by simp⟩
  | .seq [], vs => by rw [seqLines_cons_scalar _ _ _ rfl]; exact ⟨_, _, rfl, rfl, Nat.le_refl 1⟩
  | .map [], vs => by rw [seqLines_cons_scalar _ _ _ rfl]; exact ⟨_, _, rfl, rfl, Nat.le_refl 1⟩
  | .null, vs => by rw [seqLines_cons_scalar _ _ _ rfl]; exact ⟨_, _, rfl, rfl, Nat.le_refl 1⟩
  | .bool _, vs => by rw [seqLines_cons_scalar _ _ _ rfl]; exact ⟨_, _, rfl, rfl, Nat.le_refl 1⟩
  | .int _, vs => by rw [seqLines_cons_scalar _ _ _ rfl]; exact ⟨_, _, rfl, rfl, Nat.le_refl 1⟩
  | .float _, vs => by rw [seqLines_cons_scalar _ _ _ rfl]; exact ⟨_, _, rfl, rfl, Nat.le_refl 1⟩
  | .str _, vs => by rw [seqLines_cons_scalar _ _ _ rfl]; exact ⟨_, _, rfl, rfl, Nat.le_refl 1⟩

theorem strip_addDash {c : Nat} {h : Line} {t : List Line} (hi : h.indent = c + 2) :
    ∃ h', addDash c (h :: t) = h' :: t ∧ h'.indent = c ∧ 1 ≤ h'.dashes ∧ h'.strip c = h ∧ h'.dashes = h.dashes + 1 := by
  refine ⟨{ h with indent := c, dashes := h.dashes + 1 }, rfl, rfl, by simp, ?_, rfl⟩
  cases h; simp_all [Line.strip]

theorem pSeq_end {fuel c : Nat} {rest : List Line} (hg : GSeq c rest) : pSeq (fuel + 1) c rest = some ([], rest) := by
  cases rest with
  | nil => simp [pSeq]
  | cons h t =>
    have := hg h (by simp)
    have hc : ¬ (h.indent = c ∧ 1 ≤ h.dashes) := by omega
    simp [pSeq, hc]

theorem pMap_end {fuel c : Nat} {rest : List Line} (hg : GMap c rest) : pMap (fuel + 1) c rest = some ([], rest) := by
  cases rest with
  | nil => simp [pMap]
  | cons h t =>
    have := hg h (by simp)
    have hc : ¬ (h.indent = c ∧ h.dashes = 0) := by omega
    cases hk : h.key with
    | none => simp [pMap, hk]
    | some k => simp [pMap, hk, hc]

/-- a guard for the block that follows in a deeper column, from the sibling lines or the parent's guard. -/
theorem gmap_deeper {c : Nat} {sib rest : List Line} (hs : sib = [] ∨ ∃ h t, sib = h :: t ∧ h.indent = c)
    (hg : ∀ h ∈ rest.head?, h.indent ≤ c) : GMap (c + 2) (sib ++ rest) := by
  intro h hh
  rcases hs with rfl | ⟨h0, t, rfl, hi⟩
  · have := hg h (by simpa using hh); omega
  · simp at hh; subst hh; omega

theorem gseq_deeper {c : Nat} {sib rest : List Line} (hs : sib = [] ∨ ∃ h t, sib = h :: t ∧ h.indent = c)
    (hg : ∀ h ∈ rest.head?, h.indent ≤ c) : GSeq (c + 2) (sib ++ rest) := by
  intro h hh
  have := gmap_deeper hs hg h hh
  exact Or.inl this


theorem gseq_le {c : Nat} {rest : List Line} (hg : GSeq c rest) : ∀ h ∈ rest.head?, h.indent ≤ c := by
  intro h hh; have := hg h hh; omega

theorem gmap_le {c : Nat} {rest : List Line} (hg : GMap c rest) : ∀ h ∈ rest.head?, h.indent ≤ c := by
  intro h hh; have := hg h hh; omega

theorem seqLines_sib (c : Nat) (vs : List (YVal String)) :
    seqLines c vs = [] ∨ ∃ h t, seqLines c vs = h :: t ∧ h.indent = c := by
  cases vs with
  | nil => exact Or.inl rfl
  | cons v vs => obtain ⟨h, t, e, hi, _⟩ := seqLines_head c v vs; exact Or.inr ⟨h, t, e, hi⟩

theorem mapLines_sib (c : Nat) (r : List (YVal String × YVal String)) :
    mapLines c r = [] ∨ ∃ h t, mapLines c r = h :: t ∧ h.indent = c := by
  cases r with
  | nil => exact Or.inl rfl
  | cons e r => obtain ⟨h, t, e', hi, _⟩ := mapLines_head c e.1 e.2 r; exact Or.inr ⟨h, t, e', hi⟩

/-- what may follow an indentless sequence under a key in column `c`: the next key of the mapping, or its end. -/
theorem gseq_under_key {c : Nat} (r : List (YVal String × YVal String)) {rest : List Line} (hg : GMap c rest) :
    GSeq c (mapLines c r ++ rest) := by
  intro h hh
  cases r with
  | nil => have := hg h (by simpa [mapLines] using hh); exact Or.inl this
  | cons e r =>
    obtain ⟨h0, t, e', hi, hd, _⟩ := mapLines_head c e.1 e.2 r
    rw [show (e :: r) = (e.1, e.2) :: r from rfl, e'] at hh
    simp at hh; subst hh; exact Or.inr ⟨hi, hd⟩

/-! #### one step of the two loops -/

theorem pSeq_step_scalar {fuel c : Nat} {v : YVal String} {t : List Line} {vs : List (YVal String)} {r : List Line}
    (e : pSeq fuel c t = some (vs, r)) : pSeq (fuel + 1) c (⟨c, 1, none, some v, false⟩ :: t) = some (v :: vs, r) := by
  simp [pSeq, Line.strip, e]

theorem pSeq_step_seq {fuel c : Nat} {h : Line} {t : List Line} (hi : h.indent = c) (hd : 2 ≤ h.dashes)
    {l vs : List (YVal String)} {r1 r : List Line}
    (e1 : pSeq fuel (c + 2) (h.strip c :: t) = some (l, r1)) (e2 : pSeq fuel c r1 = some (vs, r)) :
    pSeq (fuel + 1) c (h :: t) = some (YVal.seq l :: vs, r) := by
  have h1 : 1 ≤ h.dashes := by omega
  have h2 : 1 ≤ (h.strip c).dashes := by simp [Line.strip]; omega
  simp [pSeq, hi, h1, h2, e1, e2]

theorem pSeq_step_map {fuel c : Nat} {h : Line} {t : List Line} (hi : h.indent = c) (hd : h.dashes = 1)
    (hk : h.key.isSome = true) {m : List (YVal String × YVal String)} {vs : List (YVal String)} {r1 r : List Line}
    (e1 : pMap fuel (c + 2) (h.strip c :: t) = some (m, r1)) (e2 : pSeq fuel c r1 = some (vs, r)) :
    pSeq (fuel + 1) c (h :: t) = some (YVal.map m :: vs, r) := by
  have h1 : 1 ≤ h.dashes := by omega
  have h2 : ¬ 1 ≤ (h.strip c).dashes := by simp [Line.strip]; omega
  have h3 : (h.strip c).key.isSome = true := by simpa [Line.strip] using hk
  simp [pSeq, hi, h1, h2, h3, e1, e2]

theorem pMap_step_scalar {fuel c : Nat} {k v : YVal String} {t : List Line} {es : List (YVal String × YVal String)}
    {r : List Line} (e : pMap fuel c t = some (es, r)) :
    pMap (fuel + 1) c (⟨c, 0, some k, some v, false⟩ :: t) = some ((k, v) :: es, r) := by
  simp [pMap, e]

theorem pMap_step_wrap {fuel c : Nat} {k v : YVal String} {t : List Line} {es : List (YVal String × YVal String)}
    {r : List Line} (e : pMap fuel c t = some (es, r)) :
    pMap (fuel + 1) c (⟨c, 0, some k, none, true⟩ :: ⟨c + 2, 0, none, some v, false⟩ :: t) = some ((k, v) :: es, r) := by
  simp [pMap, e]

theorem pMap_step_seq {fuel c : Nat} {k : YVal String} {n : Line} {t : List Line} (hi : n.indent = c)
    (hd : 1 ≤ n.dashes) {l : List (YVal String)} {es : List (YVal String × YVal String)} {r1 r : List Line}
    (e1 : pSeq fuel c (n :: t) = some (l, r1)) (e2 : pMap fuel c r1 = some (es, r)) :
    pMap (fuel + 1) c (⟨c, 0, some k, none, false⟩ :: n :: t) = some ((k, YVal.seq l) :: es, r) := by
  simp [pMap, hi, hd, e1, e2]

theorem pMap_step_map {fuel c : Nat} {k : YVal String} {n : Line} {t : List Line} (hi : n.indent = c + 2)
    (hd : n.dashes = 0) (hk : n.key.isSome = true) {m es : List (YVal String × YVal String)} {r1 r : List Line}
    (e1 : pMap fuel (c + 2) (n :: t) = some (m, r1)) (e2 : pMap fuel c r1 = some (es, r)) :
    pMap (fuel + 1) c (⟨c, 0, some k, none, false⟩ :: n :: t) = some ((k, YVal.map m) :: es, r) := by
  simp [pMap, hi, hd, hk, e1, e2]

/-! #### the two loops read back what `seqLines` / `mapLines` wrote -/

def SeqRT (l : List (YVal String)) : Prop :=
  ∀ fuel c rest, weight (seqLines c l) < fuel → GSeq c rest → pSeq fuel c (seqLines c l ++ rest) = some (l, rest)

def MapRT (m : List (YVal String × YVal String)) : Prop :=
  ∀ fuel c rest, weight (mapLines c m) < fuel → GMap c rest → pMap fuel c (mapLines c m ++ rest) = some (m, rest)

theorem seqRT_nil : SeqRT [] := by
  intro fuel c rest hf hg
  cases fuel with
  | zero => omega
  | succ f => simpa [seqLines] using pSeq_end (fuel := f) hg

theorem mapRT_nil : MapRT [] := by
  intro fuel c rest hf hg
  cases fuel with
  | zero => omega
  | succ f => simpa [mapLines] using pMap_end (fuel := f) hg

theorem seqRT_cons_scalar {v : YVal String} {vs : List (YVal String)} (hs : isScalarLike v = true) (ih : SeqRT vs) :
    SeqRT (v :: vs) := by
  intro fuel c rest hf hg
  rw [seqLines_cons_scalar _ _ _ hs] at hf ⊢
  cases fuel with
  | zero => omega
  | succ f =>
    simp only [weight] at hf
    exact pSeq_step_scalar (ih f c rest (by omega) hg)

theorem seqRT_cons_seq {x : YVal String} {xs vs : List (YVal String)} (ihx : SeqRT (x :: xs)) (ih : SeqRT vs) :
    SeqRT (.seq (x :: xs) :: vs) := by
  intro fuel c rest hf hg
  rw [seqLines_cons_node _ _ _ rfl] at hf ⊢
  simp only [nodeLines] at hf ⊢
  obtain ⟨h0, t0, e0, hi0, hd0⟩ := seqLines_head (c + 2) x xs
  obtain ⟨h', ea, hi', hd', hst, hdd⟩ := strip_addDash (t := t0) hi0
  rw [e0, ea] at hf ⊢
  cases fuel with
  | zero => omega
  | succ f =>
    simp only [weight_append, weight] at hf
    have e1 : pSeq f (c + 2) (h'.strip c :: (t0 ++ (seqLines c vs ++ rest))) = some (x :: xs, seqLines c vs ++ rest) := by
      rw [hst]
      have := ihx f (c + 2) (seqLines c vs ++ rest) (by rw [e0]; simp only [weight]; omega)
        (gseq_deeper (seqLines_sib c vs) (gseq_le hg))
      rw [e0] at this; simpa using this
    have e2 := ih f c rest (by omega) hg
    have := pSeq_step_seq (t := t0 ++ (seqLines c vs ++ rest)) hi' (by omega) e1 e2
    simpa using this

theorem seqRT_cons_map {e : YVal String × YVal String} {es : List (YVal String × YVal String)} {vs : List (YVal String)}
    (ihm : MapRT (e :: es)) (ih : SeqRT vs) : SeqRT (.map (e :: es) :: vs) := by
  intro fuel c rest hf hg
  rw [seqLines_cons_node _ _ _ rfl] at hf ⊢
  simp only [nodeLines] at hf ⊢
  obtain ⟨h0, t0, e0, hi0, hd0, hk0⟩ := mapLines_head (c + 2) e.1 e.2 es
  rw [show ((e.1, e.2) :: es) = e :: es from rfl] at e0
  obtain ⟨h', ea, hi', hd', hst, hdd⟩ := strip_addDash (t := t0) hi0
  rw [e0, ea] at hf ⊢
  cases fuel with
  | zero => omega
  | succ f =>
    simp only [weight_append, weight] at hf
    have e1 : pMap f (c + 2) (h'.strip c :: (t0 ++ (seqLines c vs ++ rest))) = some (e :: es, seqLines c vs ++ rest) := by
      rw [hst]
      have := ihm f (c + 2) (seqLines c vs ++ rest) (by rw [e0]; simp only [weight]; omega)
        (gmap_deeper (seqLines_sib c vs) (gseq_le hg))
      rw [e0] at this; simpa using this
    have e2 := ih f c rest (by omega) hg
    have hk' : h'.key.isSome = true := by
      have := congrArg Line.key hst; simp [Line.strip] at this; rw [this]; exact hk0
    have := pSeq_step_map (t := t0 ++ (seqLines c vs ++ rest)) hi' (by omega) hk' e1 e2
    simpa using this

theorem mapRT_cons_scalar {k v : YVal String} {r : List (YVal String × YVal String)} (hs : isScalarLike v = true)
    (ih : MapRT r) : MapRT ((k, v) :: r) := by
  intro fuel c rest hf hg
  cases hw : wraps c k v with
  | false =>
    rw [mapLines_cons_scalar _ _ _ _ hs hw] at hf ⊢
    cases fuel with
    | zero => omega
    | succ f =>
      simp only [weight] at hf
      exact pMap_step_scalar (ih f c rest (by omega) hg)
  | true =>
    rw [mapLines_cons_wrap _ _ _ _ hs hw] at hf ⊢
    cases fuel with
    | zero => omega
    | succ f =>
      simp only [weight] at hf
      exact pMap_step_wrap (ih f c rest (by omega) hg)

theorem mapRT_cons_seq {k x : YVal String} {xs : List (YVal String)} {r : List (YVal String × YVal String)}
    (ihx : SeqRT (x :: xs)) (ih : MapRT r) : MapRT ((k, .seq (x :: xs)) :: r) := by
  intro fuel c rest hf hg
  rw [mapLines_cons_seq] at hf ⊢
  obtain ⟨h0, t0, e0, hi0, hd0⟩ := seqLines_head c x xs
  cases fuel with
  | zero => omega
  | succ f =>
    simp only [weight, weight_append] at hf
    have e1 := ihx f c (mapLines c r ++ rest) (by omega) (gseq_under_key r hg)
    have e2 := ih f c rest (by omega) hg
    rw [e0] at e1
    have := pMap_step_seq (k := k) (t := t0 ++ (mapLines c r ++ rest)) hi0 hd0 (by simpa using e1) e2
    rw [e0]; simpa using this

theorem mapRT_cons_map {k : YVal String} {e : YVal String × YVal String} {es r : List (YVal String × YVal String)}
    (ihm : MapRT (e :: es)) (ih : MapRT r) : MapRT ((k, .map (e :: es)) :: r) := by
  intro fuel c rest hf hg
  rw [mapLines_cons_map] at hf ⊢
  obtain ⟨h0, t0, e0, hi0, hd0, hk0⟩ := mapLines_head (c + 2) e.1 e.2 es
  rw [show ((e.1, e.2) :: es) = e :: es from rfl] at e0
  cases fuel with
  | zero => omega
  | succ f =>
    simp only [weight, weight_append] at hf
    have e1 := ihm f (c + 2) (mapLines c r ++ rest) (by omega) (gmap_deeper (mapLines_sib c r) (gmap_le hg))
    have e2 := ih f c rest (by omega) hg
    rw [e0] at e1
    have := pMap_step_map (k := k) (t := t0 ++ (mapLines c r ++ rest)) hi0 hd0 hk0 (by simpa using e1) e2
    rw [e0]; simpa using this

mutual
theorem seqRT : (l : List (YVal String)) → SeqRT l
  | [] => seqRT_nil
  | .seq (x :: xs) :: vs => seqRT_cons_seq (seqRT (x :: xs)) (seqRT vs)
  | .map (e :: es) :: vs => seqRT_cons_map (mapRT (e :: es)) (seqRT vs)
  | .seq [] :: vs => seqRT_cons_scalar rfl (seqRT vs)
  | .map [] :: vs => seqRT_cons_scalar rfl (seqRT vs)
  | .null :: vs => seqRT_cons_scalar rfl (seqRT vs)
  | .bool _ :: vs => seqRT_cons_scalar rfl (seqRT vs)
  | .int _ :: vs => seqRT_cons_scalar rfl (seqRT vs)
  | .float _ :: vs => seqRT_cons_scalar rfl (seqRT vs)
  | .str _ :: vs => seqRT_cons_scalar rfl (seqRT vs)
theorem mapRT : (m : List (YVal String × YVal String)) → MapRT m
  | [] => mapRT_nil
  | (_, .seq (x :: xs)) :: r => mapRT_cons_seq (seqRT (x :: xs)) (mapRT r)
  | (_, .map (e :: es)) :: r => mapRT_cons_map (mapRT (e :: es)) (mapRT r)
  | (_, .seq []) :: r => mapRT_cons_scalar rfl (mapRT r)
  | (_, .map []) :: r => mapRT_cons_scalar rfl (mapRT r)
  | (_, .null) :: r => mapRT_cons_scalar rfl (mapRT r)
  | (_, .bool _) :: r => mapRT_cons_scalar rfl (mapRT r)
  | (_, .int _) :: r => mapRT_cons_scalar rfl (mapRT r)
  | (_, .float _) :: r => mapRT_cons_scalar rfl (mapRT r)
  | (_, .str _) :: r => mapRT_cons_scalar rfl (mapRT r)
end

/-- STRUCTURE ROUND TRIP: the block parser reads back the lines of any non-empty collection. -/
theorem parseLines_nodeLines (t : YVal String) (h : isScalarLike t = false) : parseLines (nodeLines 0 t) = some t := by
  rcases isScalarLike_false h with ⟨x, xs, rfl⟩ | ⟨e, es, rfl⟩
  · simp only [nodeLines]
    obtain ⟨h0, t0, e0, hi0, hd0⟩ := seqLines_head 0 x xs
    have := seqRT (x :: xs) (weight (seqLines 0 (x :: xs)) + 1) 0 [] (by omega) (by intro h hh; simp at hh)
    rw [List.append_nil] at this
    rw [e0] at this ⊢
    simp [parseLines, hi0, hd0, this]
  · simp only [nodeLines]
    obtain ⟨h0, t0, e0, hi0, hd0, hk0⟩ := mapLines_head 0 e.1 e.2 es
    rw [show ((e.1, e.2) :: es) = e :: es from rfl] at e0
    have := mapRT (e :: es) (weight (mapLines 0 (e :: es)) + 1) 0 [] (by omega) (by intro h hh; simp at hh)
    rw [List.append_nil] at this
    rw [e0] at this ⊢
    simp [parseLines, hi0, hd0, hk0, this]

/-! ## stage 1: characters ↔ lines -/

theorem char_le_iff (a b : Char) : a ≤ b ↔ a.toNat ≤ b.toNat := by
  rw [Char.le_def, UInt32.le_iff_toNat_le]; rfl

theorem identStart_of_digit {c : Char} (h : c.isDigit = true) : identStart c = false := by
  rw [Char.isDigit_iff_toNat] at h
  simp only [identStart, char_le_iff, Char.reduceToNat] at h ⊢
  simp
  refine ⟨by omega, ?_⟩
  rintro rfl; simp at h

theorem identRest_of_start {c : Char} (h : identStart c = true) : identRest c = true := by simp [identRest, h]

/-- characters that end / structure a line. -/
def SafeChar (c : Char) : Prop := c ≠ ' ' ∧ c ≠ ':' ∧ c ≠ '\n'

instance (c : Char) : Decidable (SafeChar c) := by unfold SafeChar; infer_instance

theorem safe_of_identRest {c : Char} (h : identRest c = true) : SafeChar c ∧ c ≠ '\'' := by
  refine ⟨⟨?_, ?_, ?_⟩, ?_⟩ <;> (rintro rfl; revert h; decide)

theorem safe_of_digit {c : Char} (h : c.isDigit = true) : SafeChar c := by
  refine ⟨?_, ?_, ?_⟩ <;> (rintro rfl; revert h; decide)

theorem safe_of_floatChar {c : Char} (h : floatChar c = true) : SafeChar c := by
  refine ⟨?_, ?_, ?_⟩ <;> (rintro rfl; revert h; decide)

theorem digit_ne {c : Char} (h : c.isDigit = true) :
    c ≠ '-' ∧ c ≠ '\'' ∧ c ≠ '[' ∧ c ≠ '{' ∧ c ≠ '~' ∧ c ≠ '.' ∧ c ≠ 'e' := by
  refine ⟨?_, ?_, ?_, ?_, ?_, ?_, ?_⟩ <;> (rintro rfl; revert h; decide)

/-! #### integers -/

theorem toDigits_head_ne_zero : ∀ n : Nat, 0 < n → (Nat.toDigits 10 n).head? ≠ some '0' := by
  intro n
  induction n using Nat.strongRecOn with
  | _ n ih =>
    intro hn
    by_cases h : n < 10
    · rw [Nat.toDigits_of_lt_base h]
      simp only [List.head?_cons, ne_eq, Option.some.injEq, Nat.digitChar_eq_zero]
      omega
    · have h10 : 10 ≤ n := by omega
      rw [Nat.toDigits_of_base_le (by decide) h10]
      have := ih (n / 10) (by omega) (by omega)
      cases hd : Nat.toDigits 10 (n / 10) with
      | nil => exact absurd hd Nat.toDigits_ne_nil
      | cons d r => rw [hd] at this; simpa using this

theorem toDigits_allDigits (n : Nat) : allDigits (Nat.toDigits 10 n) = true := by
  simp only [allDigits, Bool.and_eq_true, Bool.not_eq_true', List.all_eq_true]
  refine ⟨?_, fun c hc => Nat.isDigit_of_mem_toDigits (by decide) (by decide) hc⟩
  cases h : Nat.toDigits 10 n with
  | nil => exact absurd h Nat.toDigits_ne_nil
  | cons => rfl

theorem toDigits_cons (n : Nat) : ∃ d r, Nat.toDigits 10 n = d :: r ∧ d.isDigit = true := by
  cases h : Nat.toDigits 10 n with
  | nil => exact absurd h Nat.toDigits_ne_nil
  | cons d r => exact ⟨d, r, rfl, Nat.isDigit_of_mem_toDigits (b := 10) (n := n) (by decide) (by decide) (by rw [h]; simp)⟩

theorem toDigits_canonical (n : Nat) :
    ((Nat.toDigits 10 n == ['0']) || (Nat.toDigits 10 n).head? != some '0') = true := by
  by_cases h : n = 0
  · subst h; rfl
  · have := toDigits_head_ne_zero n (by omega)
    simp [this]

theorem unsign_digit {d : Char} {r : List Char} (h : d.isDigit = true) : unsign (d :: r) = d :: r := by
  have := (digit_ne h).1
  unfold unsign
  split
  · rename_i heq; injection heq with h1 _; exact absurd h1 this
  · rfl

theorem parseIntLit_digit {d : Char} {r : List Char} (h : d.isDigit = true) :
    parseIntLit (d :: r) = ((Nat.ofDigitChars 10 (d :: r) 0 : Nat) : Int) := by
  have := (digit_ne h).1
  unfold parseIntLit
  split
  · rename_i heq; injection heq with h1 _; exact absurd h1 this
  · rfl

theorem classifyNumeric_emitInt (i : Int) : classifyNumeric (emitInt i) = some (.int i) := by
  unfold emitInt
  by_cases hi : i < 0
  · simp only [hi, ↓reduceIte]
    have h1 : ('-' :: Nat.toDigits 10 i.natAbs) ≠ ['~'] := by simp
    have hpos : 0 < i.natAbs := by omega
    have h2 : isIntLit ('-' :: Nat.toDigits 10 i.natAbs) = true := by
      simp only [isIntLit, unsign, Bool.and_eq_true]
      exact ⟨toDigits_allDigits _, toDigits_canonical _⟩
    simp only [classifyNumeric, h1, ↓reduceIte, h2, parseIntLit, Nat.ofDigitChars_ten_toDigits]
    congr 2; omega
  · simp only [hi, ↓reduceIte]
    obtain ⟨d, r, e, hd⟩ := toDigits_cons i.toNat
    have h1 : Nat.toDigits 10 i.toNat ≠ ['~'] := by
      rw [e]; intro h; injection h with h _; exact (digit_ne hd).2.2.2.2.1 h
    have h2 : isIntLit (Nat.toDigits 10 i.toNat) = true := by
      simp only [isIntLit, Bool.and_eq_true]
      rw [e, unsign_digit hd, ← e]
      exact ⟨toDigits_allDigits _, toDigits_canonical _⟩
    simp only [classifyNumeric, h1, ↓reduceIte, h2]
    rw [e, parseIntLit_digit hd, ← e, Nat.ofDigitChars_ten_toDigits]
    congr 2; omega

theorem emitInt_head (i : Int) : ∃ c r, emitInt i = c :: r ∧ (c = '-' ∨ c.isDigit = true) ∧ ∀ x ∈ r, x.isDigit = true := by
  unfold emitInt
  by_cases hi : i < 0
  · simp only [hi, ↓reduceIte]
    exact ⟨_, _, rfl, Or.inl rfl, fun x hx => Nat.isDigit_of_mem_toDigits (by decide) (by decide) hx⟩
  · simp only [hi, ↓reduceIte]
    obtain ⟨d, r, e, hd⟩ := toDigits_cons i.toNat
    refine ⟨d, r, e, Or.inr hd, fun x hx => Nat.isDigit_of_mem_toDigits (b := 10) (n := i.toNat) (by decide) (by decide) ?_⟩
    rw [e]; exact List.mem_cons_of_mem _ hx

/-! #### floats -/

theorem splitAt1_eq {c : Char} : ∀ {cs a b : List Char}, splitAt1 c cs = some (a, b) → cs = a ++ c :: b
  | [], a, b, h => by simp [splitAt1] at h
  | x :: xs, a, b, h => by
    unfold splitAt1 at h
    by_cases hx : x = c
    · simp only [hx, ↓reduceIte, Option.some.injEq, Prod.mk.injEq] at h
      obtain ⟨rfl, rfl⟩ := h; simp [hx]
    · simp only [hx, ↓reduceIte] at h
      cases hr : splitAt1 c xs with
      | none => rw [hr] at h; cases h
      | some p =>
        rw [hr] at h
        simp only [Option.some.injEq, Prod.mk.injEq] at h
        obtain ⟨rfl, rfl⟩ := h
        have := splitAt1_eq (cs := xs) (a := p.1) (b := p.2) hr
        simp [this]

theorem splitAt1_none {c : Char} : ∀ {cs : List Char}, c ∉ cs → splitAt1 c cs = none
  | [], _ => rfl
  | x :: xs, h => by
    have hx : x ≠ c := fun e => h (by simp [e])
    have := splitAt1_none (c := c) (cs := xs) (fun hm => h (List.mem_cons_of_mem _ hm))
    simp [splitAt1, hx, this]

theorem splitAt1_append {c : Char} : ∀ {a : List Char} (b : List Char), c ∉ a → splitAt1 c (a ++ c :: b) = some (a, b)
  | [], b, _ => by simp [splitAt1]
  | x :: xs, b, h => by
    have hx : x ≠ c := fun e => h (by simp [e])
    have := splitAt1_append (c := c) (a := xs) b (fun hm => h (List.mem_cons_of_mem _ hm))
    simp [splitAt1, hx, this]

theorem allDigits_cons {cs : List Char} (h : allDigits cs = true) : ∃ d r, cs = d :: r ∧ d.isDigit = true := by
  cases cs with
  | nil => simp [allDigits] at h
  | cons d r => simp [allDigits] at h; exact ⟨d, r, rfl, h.1⟩

theorem allDigits_false_of_mem {cs : List Char} {c : Char} (hc : c ∈ cs) (hd : c.isDigit = false) :
    allDigits cs = false := by
  cases h : allDigits cs with
  | false => rfl
  | true =>
    simp only [allDigits, Bool.and_eq_true, List.all_eq_true] at h
    rw [h.2 c hc] at hd; cases hd

/-- an unsigned finite literal starts with a digit and is not an integer literal. -/
theorem isFiniteLit_shape {b : List Char} (h : isFiniteLit b = true) :
    (∃ d r, b = d :: r ∧ d.isDigit = true) ∧ allDigits b = false := by
  unfold isFiniteLit at h
  have mant : ∀ (m : List Char) (nd : Bool), isMantissa m nd = true →
      (∃ d r, m = d :: r ∧ d.isDigit = true) ∧ (nd = true → allDigits m = false) := by
    intro m nd hm
    unfold isMantissa at hm
    cases hs : splitAt1 '.' m with
    | some p =>
      rw [hs] at hm
      simp only [Bool.and_eq_true] at hm
      have e := splitAt1_eq hs
      obtain ⟨d, r, hd, hdd⟩ := allDigits_cons hm.1
      refine ⟨⟨d, r ++ '.' :: p.2, by rw [e, hd]; simp, hdd⟩, fun _ => ?_⟩
      exact allDigits_false_of_mem (c := '.') (by rw [e]; simp) (by decide)
    | none =>
      rw [hs] at hm
      simp only [Bool.and_eq_true, Bool.not_eq_true'] at hm
      exact ⟨allDigits_cons hm.2, fun hnd => by rw [hnd] at hm; cases hm.1⟩
  cases hs : splitAt1 'e' b with
  | some p =>
    rw [hs] at h
    simp only [Bool.and_eq_true] at h
    have e := splitAt1_eq hs
    obtain ⟨⟨d, r, hd, hdd⟩, _⟩ := mant p.1 false h.1
    refine ⟨⟨d, r ++ 'e' :: p.2, by rw [e, hd]; simp, hdd⟩, ?_⟩
    exact allDigits_false_of_mem (c := 'e') (by rw [e]; simp) (by decide)
  | none =>
    rw [hs] at h
    obtain ⟨h1, h2⟩ := mant b true h
    exact ⟨h1, h2 rfl⟩

theorem classify_numeric_head {c : Char} {t : List Char} (hc : c = '-' ∨ c.isDigit = true) :
    classify (c :: t) = classifyNumeric (c :: t) := by
  have h1 : c ≠ '[' ∧ c ≠ '{' ∧ c ≠ '\'' ∧ identStart c = false := by
    rcases hc with rfl | hd
    · decide
    · exact ⟨(digit_ne hd).2.2.1, (digit_ne hd).2.2.2.1, (digit_ne hd).2.1, identStart_of_digit hd⟩
  have e1 : (c :: t) ≠ ['[', ']'] := by intro h; injection h with h _; exact h1.1 h
  have e2 : (c :: t) ≠ ['{', '}'] := by intro h; injection h with h _; exact h1.2.1 h
  simp [classify, e1, e2, h1.2.2.1, h1.2.2.2]

theorem signed_head {r b : List Char} (hb : unsign r = b) {d : Char} {t : List Char} (hd : b = d :: t)
    (hdd : d.isDigit = true) : ∃ c t', r = c :: t' ∧ (c = '-' ∨ c.isDigit = true) := by
  unfold unsign at hb
  split at hb
  · exact ⟨_, _, rfl, Or.inl rfl⟩
  · subst hb; exact ⟨d, t, hd, Or.inr hdd⟩

theorem classify_representFloat {r : List Char} (h : isPyFloatRepr r = true) :
    classify (representFloat r) = some (.float (String.ofList r)) := by
  unfold isPyFloatRepr at h
  simp only [Bool.and_eq_true, Bool.or_eq_true, decide_eq_true_eq] at h
  obtain ⟨hform, hchars⟩ := h
  by_cases h1 : r = infW
  · subst h1; rfl
  by_cases h2 : r = ninfW
  · subst h2; rfl
  by_cases h3 : r = nanW
  · subst h3; rfl
  have hfin : isFiniteLit (unsign r) = true := by
    rcases hform with ((h | h) | h) | h
    · exact absurd h h1
    · exact absurd h h2
    · exact absurd h h3
    · exact h
  have hrep : representFloat r = r := by simp [representFloat, h1, h2, h3]
  rw [hrep]
  obtain ⟨⟨d, t, hd, hdd⟩, hnd⟩ := isFiniteLit_shape hfin
  obtain ⟨c, t', hr, hc⟩ := signed_head rfl hd hdd
  rw [hr, classify_numeric_head hc, ← hr]
  have n1 : r ≠ ['~'] := by
    rw [hr]; intro h; injection h with h _
    rcases hc with rfl | hc
    · cases h
    · exact (digit_ne hc).2.2.2.2.1 h
  have n2 : isIntLit r = false := by simp [isIntLit, hnd]
  have n3 : r ≠ dinfW := by rintro rfl; revert hfin; decide
  have n4 : r ≠ dninfW := by rintro rfl; revert hfin; decide
  have n5 : r ≠ dnanW := by rintro rfl; revert hfin; decide
  simp [classifyNumeric, n1, n2, constructFloat, n3, n4, n5, hfin, hchars]

theorem representFloat_chars {r : List Char} (h : isPyFloatRepr r = true) :
    representFloat r ≠ [] ∧ ∀ c ∈ representFloat r, floatChar c = true := by
  unfold isPyFloatRepr at h
  simp only [Bool.and_eq_true, Bool.or_eq_true, decide_eq_true_eq, List.all_eq_true] at h
  obtain ⟨hform, hchars⟩ := h
  unfold representFloat
  by_cases h1 : r = infW
  · simp only [h1, ↓reduceIte]; exact ⟨by decide, by decide⟩
  by_cases h2 : r = ninfW
  · simp only [h2, ↓reduceIte]; exact ⟨by decide, by decide⟩
  by_cases h3 : r = nanW
  · simp only [h3, ↓reduceIte]; exact ⟨by decide, by decide⟩
  simp only [h1, h2, h3, ↓reduceIte]
  refine ⟨?_, hchars⟩
  rintro rfl
  rcases hform with ((h | h) | h) | h
  · exact h1 h
  · exact h2 h
  · exact h3 h
  · revert h; decide

/-! #### strings -/

theorem validIdent_shape {s : String} (h : validIdent s = true) :
    ∃ c r, s.toList = c :: r ∧ identStart c = true ∧ r.all identRest = true := by
  unfold validIdent at h
  cases hs : s.toList with
  | nil => rw [hs] at h; simp [validIdentChars] at h
  | cons c r => rw [hs] at h; simp only [validIdentChars, Bool.and_eq_true] at h; exact ⟨c, r, rfl, h.1, h.2⟩

theorem validIdent_all {s : String} (h : validIdent s = true) : s.toList.all identRest = true := by
  obtain ⟨c, r, e, h1, h2⟩ := validIdent_shape h
  rw [e]; simp only [List.all_cons, Bool.and_eq_true]; exact ⟨identRest_of_start h1, h2⟩

theorem classify_str {s : String} (h : validIdent s = true) : classify (emitScalar (.str s)) = some (.str s) := by
  obtain ⟨c, r, e, h1, h2⟩ := validIdent_shape h
  have hall := validIdent_all h
  simp only [emitScalar]
  cases hres : isReserved s.toList with
  | true =>
    simp only [↓reduceIte]
    have e1 : ('\'' :: (s.toList ++ ['\''])) ≠ ['[', ']'] := by simp
    have e2 : ('\'' :: (s.toList ++ ['\''])) ≠ ['{', '}'] := by simp
    simp only [classify, e1, e2, ↓reduceIte, classifyQuoted]
    simp [hall, String.ofList_toList]
  | false =>
    simp only [Bool.false_eq_true, ↓reduceIte]
    have hq : c ≠ '\'' := (safe_of_identRest (identRest_of_start h1)).2
    have e1 : s.toList ≠ ['[', ']'] := by rw [e]; intro h; injection h with h _; subst h; revert h1; decide
    have e2 : s.toList ≠ ['{', '}'] := by rw [e]; intro h; injection h with h _; subst h; revert h1; decide
    simp only [classify, e1, e2, ↓reduceIte]
    rw [e]
    simp only [hq, ↓reduceIte, h1, h2]
    rw [← e]
    simp only [isReserved, Bool.or_eq_false_iff] at hres
    simp only [resolveWord, hres.1.1, hres.1.2, hres.2, Bool.false_eq_true, ↓reduceIte, String.ofList_toList]

/-! #### every scalar -/

/-- a token of the emitter: not empty, no blank, colon or line feed. -/
def SafeTok (cs : List Char) : Prop := cs ≠ [] ∧ ∀ c ∈ cs, SafeChar c

theorem classify_emitScalar {v : YVal String} (hs : isScalarLike v = true) (hw : wfNode v = true) :
    classify (emitScalar v) = some v := by
  cases v with
  | null => simp [wfNode] at hw
  | bool b => cases b <;> rfl
  | int i =>
    obtain ⟨c, r, e, hc, _⟩ := emitInt_head i
    simp only [emitScalar]
    rw [e, classify_numeric_head hc, ← e]
    exact classifyNumeric_emitInt i
  | float r =>
    simp only [wfNode] at hw
    simp only [emitScalar]
    rw [classify_representFloat hw, String.ofList_toList]
  | str s => simp only [wfNode] at hw; exact classify_str hw
  | seq l => cases l with
    | nil => rfl
    | cons x xs => simp [isScalarLike] at hs
  | map l => cases l with
    | nil => rfl
    | cons x xs => simp [isScalarLike] at hs

theorem safeTok_emitScalar {v : YVal String} (hs : isScalarLike v = true) (hw : wfNode v = true) :
    SafeTok (emitScalar v) := by
  cases v with
  | null => simp [wfNode] at hw
  | bool b => cases b <;> exact ⟨by simp [emitScalar], by decide⟩
  | int i =>
    obtain ⟨c, r, e, hc, hr⟩ := emitInt_head i
    simp only [emitScalar]; rw [e]
    refine ⟨by simp, fun x hx => ?_⟩
    rcases List.mem_cons.mp hx with rfl | hx
    · rcases hc with rfl | hc
      · exact ⟨by decide, by decide, by decide⟩
      · exact safe_of_digit hc
    · exact safe_of_digit (hr x hx)
  | float r =>
    simp only [wfNode] at hw
    obtain ⟨h1, h2⟩ := representFloat_chars hw
    exact ⟨h1, fun c hc => safe_of_floatChar (h2 c hc)⟩
  | str s =>
    simp only [wfNode] at hw
    have hall := validIdent_all hw
    obtain ⟨c, r, e, _, _⟩ := validIdent_shape hw
    simp only [List.all_eq_true] at hall
    simp only [emitScalar]
    split
    · refine ⟨by simp, fun x hx => ?_⟩
      simp only [List.mem_cons, List.mem_append, List.not_mem_nil, or_false] at hx
      rcases hx with rfl | hx | rfl
      · exact ⟨by decide, by decide, by decide⟩
      · exact (safe_of_identRest (hall x hx)).1
      · exact ⟨by decide, by decide, by decide⟩
    · exact ⟨by rw [e]; simp, fun x hx => (safe_of_identRest (hall x hx)).1⟩
  | seq l => exact ⟨by simp [emitScalar], by simp only [emitScalar]; decide⟩
  | map l => exact ⟨by simp [emitScalar], by simp only [emitScalar]; decide⟩

theorem wfKey_scalar {k : YVal String} (h : wfKey k = true) : isScalarLike k = true ∧ wfNode k = true := by
  cases k with
  | str s => simp only [wfKey, Bool.and_eq_true] at h; exact ⟨rfl, by simpa [wfNode] using h.1⟩
  | _ => simp [wfKey] at h

theorem classifyKey_emitScalar {k : YVal String} (h : wfKey k = true) : classifyKey (emitScalar k) = some k := by
  obtain ⟨h1, h2⟩ := wfKey_scalar h
  have := classify_emitScalar h1 h2
  cases k with
  | str s => simp [classifyKey, this]
  | _ => simp [wfKey] at h

/-! #### one line -/

/-- a line of an emitted document. -/
def WFLine (l : Line) : Prop :=
  (∀ k, l.key = some k → wfKey k = true) ∧
  (∀ v, l.val = some v → isScalarLike v = true ∧ wfNode v = true) ∧
  (l.key.isSome = true ∨ l.val.isSome = true) ∧
  (l.trail = true → l.val = none ∧ l.key.isSome = true)

theorem takeWhile_spaces (n : Nat) (x : List Char) (hx : x.head? ≠ some ' ') :
    (List.replicate n ' ' ++ x).takeWhile (· = ' ') = List.replicate n ' ' ∧
    (List.replicate n ' ' ++ x).dropWhile (· = ' ') = x := by
  induction n with
  | zero =>
    cases x with
    | nil => simp
    | cons c r =>
      have : c ≠ ' ' := by simpa using hx
      simp [this]
  | succ n ih => simp [List.replicate_succ, ih]

theorem stripDashes_zero {x : List Char} (hx : ∀ r, x ≠ '-' :: ' ' :: r) : stripDashes x = (0, x) := by
  unfold stripDashes
  split
  · rename_i r; exact absurd rfl (hx r)
  · rfl

theorem stripDashes_dashStr (d : Nat) {x : List Char} (hx : ∀ r, x ≠ '-' :: ' ' :: r) :
    stripDashes (dashStr d ++ x) = (d, x) := by
  induction d with
  | zero => simpa [dashStr] using stripDashes_zero hx
  | succ d ih => simp [dashStr, stripDashes, ih]

/-- a token followed by nothing or by a colon does not look like a dash. -/
theorem tok_not_dash {tok suf : List Char} (ht : SafeTok tok) (hs : suf = [] ∨ ∃ s, suf = ':' :: s) :
    ∀ r, tok ++ suf ≠ '-' :: ' ' :: r := by
  intro r h
  obtain ⟨hne, hall⟩ := ht
  cases tok with
  | nil => exact hne rfl
  | cons c t =>
    cases t with
    | nil =>
      rcases hs with rfl | ⟨s, rfl⟩
      · simp at h
      · simp at h
    | cons c2 t2 =>
      simp only [List.cons_append, List.cons.injEq] at h
      exact (hall c2 (by simp)).1 h.2.1

theorem tok_head {tok suf : List Char} (ht : SafeTok tok) : (tok ++ suf).head? ≠ some ' ' := by
  obtain ⟨hne, hall⟩ := ht
  cases tok with
  | nil => exact absurd rfl hne
  | cons c t => simp only [List.cons_append, List.head?_cons, ne_eq, Option.some.injEq]; exact (hall c (by simp)).1

theorem dash_head (d : Nat) {x : List Char} (hx : x.head? ≠ some ' ') : (dashStr d ++ x).head? ≠ some ' ' := by
  cases d with
  | zero => simpa [dashStr] using hx
  | succ d => simp [dashStr]

theorem colon_not_mem {tok : List Char} (ht : SafeTok tok) : ':' ∉ tok := fun h => (ht.2 _ h).2.1 rfl

/-- LINE ROUND TRIP: the lexer reads back the line the emitter wrote. -/
theorem lexLine_showLine {l : Line} (h : WFLine l) : lexLine (showLine l) = some l := by
  obtain ⟨hk, hv, hsome, htr⟩ := h
  obtain ⟨ind, d, key, val, trail⟩ := l
  simp only at hk hv hsome htr
  have body : ∀ (b : List Char), (b.head? ≠ some ' ') → (∀ r, b ≠ '-' :: ' ' :: r) →
      lexLine (List.replicate ind ' ' ++ dashStr d ++ b) = lexBody ind d b := by
    intro b hb1 hb2
    have hx := dash_head d hb1
    obtain ⟨t1, t2⟩ := takeWhile_spaces ind (dashStr d ++ b) hx
    unfold lexLine
    simp only [List.append_assoc, t1, t2, List.length_replicate, stripDashes_dashStr d hb2]
  cases key with
  | none =>
    cases val with
    | none => simp at hsome
    | some v =>
      have htf : trail = false := by
        cases trail with
        | false => rfl
        | true => have := (htr rfl).1; cases this
      subst htf
      obtain ⟨hs, hw⟩ := hv v rfl
      have st := safeTok_emitScalar hs hw
      have := body (emitScalar v) (by simpa using tok_head (suf := []) st) (by simpa using tok_not_dash st (Or.inl rfl))
      simp only [showLine]
      rw [this]
      simp only [lexBody, splitAt1_none (colon_not_mem st), classify_emitScalar hs hw]
  | some k =>
    have hkw := hk k rfl
    obtain ⟨ks, kw⟩ := wfKey_scalar hkw
    have st := safeTok_emitScalar ks kw
    cases val with
    | none =>
      cases trail with
      | false =>
        have := body (emitScalar k ++ [':']) (tok_head st) (tok_not_dash st (Or.inr ⟨[], rfl⟩))
        simp only [showLine, Bool.false_eq_true, ↓reduceIte]
        rw [this]
        simp only [lexBody, splitAt1_append [] (colon_not_mem st), classifyKey_emitScalar hkw]
      | true =>
        have := body (emitScalar k ++ [':', ' ']) (tok_head st) (tok_not_dash st (Or.inr ⟨[' '], rfl⟩))
        simp only [showLine, ↓reduceIte]
        rw [this]
        simp only [lexBody, splitAt1_append [' '] (colon_not_mem st), classifyKey_emitScalar hkw]
    | some v =>
      have htf : trail = false := by
        cases trail with
        | false => rfl
        | true => have := (htr rfl).1; cases this
      subst htf
      obtain ⟨hs, hw⟩ := hv v rfl
      have stv := safeTok_emitScalar hs hw
      have := body (emitScalar k ++ (':' :: ' ' :: emitScalar v)) (tok_head st) (tok_not_dash st (Or.inr ⟨_, rfl⟩))
      simp only [showLine]
      rw [this]
      -- the value token is not empty: the pattern `[' ']` (a bare `key: `) does not apply
      obtain ⟨c0, r0, hcr⟩ : ∃ c0 r0, emitScalar v = c0 :: r0 := by
        cases he : emitScalar v with
        | nil => exact absurd he stv.1
        | cons c0 r0 => exact ⟨c0, r0, rfl⟩
      have hcl := classify_emitScalar hs hw
      rw [hcr] at hcl ⊢
      simp only [lexBody, splitAt1_append _ (colon_not_mem st), classifyKey_emitScalar hkw, hcl]

theorem showLine_no_nl {l : Line} (h : WFLine l) : '\n' ∉ showLine l := by
  obtain ⟨hk, hv, _, _⟩ := h
  have hd : ∀ d, '\n' ∉ dashStr d := by
    intro d; induction d with
    | zero => simp [dashStr]
    | succ d ih => simp [dashStr, ih]
  have tk : ∀ v, isScalarLike v = true → wfNode v = true → '\n' ∉ emitScalar v :=
    fun v a b hm => ((safeTok_emitScalar a b).2 _ hm).2.2 rfl
  obtain ⟨ind, d, key, val, trail⟩ := l
  simp only at hk hv
  simp only [showLine, List.mem_append, List.mem_replicate, not_or]
  refine ⟨⟨by simp, hd d⟩, ?_⟩
  cases key with
  | none =>
    cases val with
    | none => simp
    | some v => exact tk v (hv v rfl).1 (hv v rfl).2
  | some k =>
    obtain ⟨ks, kw⟩ := wfKey_scalar (hk k rfl)
    cases val with
    | none => cases trail <;> simp [tk k ks kw]
    | some v => simp [tk k ks kw, tk v (hv v rfl).1 (hv v rfl).2]

/-! #### the text -/

theorem splitNL_append {a : List Char} (r : List Char) (h : '\n' ∉ a) : splitNL (a ++ '\n' :: r) = a :: splitNL r := by
  induction a with
  | nil => simp [splitNL]
  | cons c t ih =>
    have hc : c ≠ '\n' := fun e => h (by simp [e])
    have := ih (fun hm => h (List.mem_cons_of_mem _ hm))
    simp [splitNL, hc, this]

theorem splitNL_linesText (ls : List Line) (h : ∀ l ∈ ls, WFLine l) :
    splitNL (linesText ls) = ls.map showLine ++ [[]] := by
  induction ls with
  | nil => simp [linesText, splitNL]
  | cons l t ih =>
    have := ih (fun x hx => h x (List.mem_cons_of_mem _ hx))
    simp only [linesText, List.map_cons, List.flatten_cons, List.append_assoc, List.singleton_append] at this ⊢
    rw [splitNL_append _ (showLine_no_nl (h l List.mem_cons_self)), this]
    simp

theorem textLines_linesText (ls : List Line) (h : ∀ l ∈ ls, WFLine l) :
    textLines (linesText ls) = some (ls.map showLine) := by
  simp [textLines, splitNL_linesText ls h]

theorem mapO_lexLine (ls : List Line) (h : ∀ l ∈ ls, WFLine l) : mapO lexLine (ls.map showLine) = some ls := by
  induction ls with
  | nil => rfl
  | cons l t ih =>
    have := ih (fun x hx => h x (List.mem_cons_of_mem _ hx))
    simp [mapO, lexLine_showLine (h l List.mem_cons_self), this]

/-! #### the lines of a well-formed tree are well-formed lines -/

theorem wfLine_addDash {c : Nat} {ls : List Line} (h : ∀ l ∈ ls, WFLine l) : ∀ l ∈ addDash c ls, WFLine l := by
  cases ls with
  | nil => simp [addDash]
  | cons x t =>
    intro l hl
    simp only [addDash, List.mem_cons] at hl
    rcases hl with rfl | hl
    · exact h x List.mem_cons_self
    · exact h l (List.mem_cons_of_mem _ hl)

def SeqWF (l : List (YVal String)) : Prop := wfSeq l = true → ∀ c, ∀ ln ∈ seqLines c l, WFLine ln
def MapWF (m : List (YVal String × YVal String)) : Prop := wfMap m = true → ∀ c, ∀ ln ∈ mapLines c m, WFLine ln

theorem seqWF_cons_scalar {v : YVal String} {vs : List (YVal String)} (hs : isScalarLike v = true) (ih : SeqWF vs) :
    SeqWF (v :: vs) := by
  intro hw c ln hl
  simp only [wfSeq, Bool.and_eq_true] at hw
  rw [seqLines_cons_scalar _ _ _ hs] at hl
  rcases List.mem_cons.mp hl with rfl | hl
  · exact ⟨by simp, by simp only [Option.some.injEq]; rintro v' rfl; exact ⟨hs, hw.1⟩, Or.inr rfl, by simp⟩
  · exact ih hw.2 c ln hl

theorem seqWF_cons_node {v : YVal String} {vs : List (YVal String)} (hs : isScalarLike v = false)
    (ihv : wfNode v = true → ∀ c, ∀ ln ∈ nodeLines c v, WFLine ln) (ih : SeqWF vs) : SeqWF (v :: vs) := by
  intro hw c ln hl
  simp only [wfSeq, Bool.and_eq_true] at hw
  rw [seqLines_cons_node _ _ _ hs] at hl
  rcases List.mem_append.mp hl with hl | hl
  · exact wfLine_addDash (ihv hw.1 (c + 2)) ln hl
  · exact ih hw.2 c ln hl

theorem mapWF_cons_scalar {k v : YVal String} {r : List (YVal String × YVal String)} (hs : isScalarLike v = true)
    (ih : MapWF r) : MapWF ((k, v) :: r) := by
  intro hw c ln hl
  simp only [wfMap, Bool.and_eq_true] at hw
  cases hwr : wraps c k v with
  | false =>
    rw [mapLines_cons_scalar _ _ _ _ hs hwr] at hl
    rcases List.mem_cons.mp hl with rfl | hl
    · exact ⟨by simp only [Option.some.injEq]; rintro k' rfl; exact hw.1.1,
        by simp only [Option.some.injEq]; rintro v' rfl; exact ⟨hs, hw.1.2⟩, Or.inl rfl, by simp⟩
    · exact ih hw.2 c ln hl
  | true =>
    rw [mapLines_cons_wrap _ _ _ _ hs hwr] at hl
    rcases List.mem_cons.mp hl with rfl | hl
    · exact ⟨by simp only [Option.some.injEq]; rintro k' rfl; exact hw.1.1, by simp, Or.inl rfl, by simp⟩
    · rcases List.mem_cons.mp hl with rfl | hl
      · exact ⟨by simp, by simp only [Option.some.injEq]; rintro v' rfl; exact ⟨hs, hw.1.2⟩, Or.inr rfl, by simp⟩
      · exact ih hw.2 c ln hl

theorem mapWF_cons_seq {k x : YVal String} {xs : List (YVal String)} {r : List (YVal String × YVal String)}
    (ihx : SeqWF (x :: xs)) (ih : MapWF r) : MapWF ((k, .seq (x :: xs)) :: r) := by
  intro hw c ln hl
  simp only [wfMap, Bool.and_eq_true, wfNode] at hw
  rw [mapLines_cons_seq] at hl
  rcases List.mem_cons.mp hl with rfl | hl
  · exact ⟨by simp only [Option.some.injEq]; rintro k' rfl; exact hw.1.1, by simp, Or.inl rfl, by simp⟩
  · rcases List.mem_append.mp hl with hl | hl
    · exact ihx hw.1.2 c ln hl
    · exact ih hw.2 c ln hl

theorem mapWF_cons_map {k : YVal String} {e : YVal String × YVal String} {es r : List (YVal String × YVal String)}
    (ihm : MapWF (e :: es)) (ih : MapWF r) : MapWF ((k, .map (e :: es)) :: r) := by
  intro hw c ln hl
  have hw' : wfKey k = true ∧ wfMap (e :: es) = true ∧ wfMap r = true := by
    rw [wfMap, wfNode] at hw
    simp only [Bool.and_eq_true] at hw
    exact ⟨hw.1.1, hw.1.2, hw.2⟩
  rw [mapLines_cons_map] at hl
  rcases List.mem_cons.mp hl with rfl | hl
  · exact ⟨by simp only [Option.some.injEq]; rintro k' rfl; exact hw'.1, by simp, Or.inl rfl, by simp⟩
  · rcases List.mem_append.mp hl with hl | hl
    · exact ihm hw'.2.1 (c + 2) ln hl
    · exact ih hw'.2.2 c ln hl

mutual
theorem seqWF : (l : List (YVal String)) → SeqWF l
  | [] => by intro _ c ln hl; simp [seqLines] at hl
  | .seq (x :: xs) :: vs => seqWF_cons_node rfl (by intro hw c; simp only [wfNode] at hw; exact seqWF (x :: xs) hw c) (seqWF vs)
  | .map (e :: es) :: vs => seqWF_cons_node rfl (by intro hw c; simp only [wfNode] at hw; exact mapWF (e :: es) hw c) (seqWF vs)
  | .seq [] :: vs => seqWF_cons_scalar rfl (seqWF vs)
  | .map [] :: vs => seqWF_cons_scalar rfl (seqWF vs)
  | .null :: vs => seqWF_cons_scalar rfl (seqWF vs)
  | .bool _ :: vs => seqWF_cons_scalar rfl (seqWF vs)
  | .int _ :: vs => seqWF_cons_scalar rfl (seqWF vs)
  | .float _ :: vs => seqWF_cons_scalar rfl (seqWF vs)
  | .str _ :: vs => seqWF_cons_scalar rfl (seqWF vs)
theorem mapWF : (m : List (YVal String × YVal String)) → MapWF m
  | [] => by intro _ c ln hl; simp [mapLines] at hl
  | (_, .seq (x :: xs)) :: r => mapWF_cons_seq (seqWF (x :: xs)) (mapWF r)
  | (_, .map (e :: es)) :: r => mapWF_cons_map (mapWF (e :: es)) (mapWF r)
  | (_, .seq []) :: r => mapWF_cons_scalar rfl (mapWF r)
  | (_, .map []) :: r => mapWF_cons_scalar rfl (mapWF r)
  | (_, .null) :: r => mapWF_cons_scalar rfl (mapWF r)
  | (_, .bool _) :: r => mapWF_cons_scalar rfl (mapWF r)
  | (_, .int _) :: r => mapWF_cons_scalar rfl (mapWF r)
  | (_, .float _) :: r => mapWF_cons_scalar rfl (mapWF r)
  | (_, .str _) :: r => mapWF_cons_scalar rfl (mapWF r)
end

theorem wfLine_nodeLines {t : YVal String} (hw : wfNode t = true) (c : Nat) : ∀ ln ∈ nodeLines c t, WFLine ln := by
  cases t with
  | seq l => simp only [wfNode] at hw; simpa [nodeLines] using seqWF l hw c
  | map m => simp only [wfNode] at hw; simpa [nodeLines] using mapWF m hw c
  | _ => simp [nodeLines]

/-- TEXT ROUND TRIP: the parser reads back the text emitted for a well-formed document. -/
theorem parseText_emitText {t : YVal String} (h : wfRoot t = true) : parseText (emitText t) = some t := by
  simp only [wfRoot, Bool.and_eq_true, Bool.not_eq_true'] at h
  have hl := wfLine_nodeLines h.2 0
  simp only [parseText, emitText, textLines_linesText _ hl, mapO_lexLine _ hl]
  exact parseLines_nodeLines t h.1

/-! ## a Boolean equality test on trees (for kernel-checked examples: `YVal` has no `DecidableEq`) -/

mutual
def eqb {α : Type} [DecidableEq α] : YVal α → YVal α → Bool
  | .null, .null => true
  | .bool a, .bool b => a == b
  | .int a, .int b => a == b
  | .float a, .float b => decide (a = b)
  | .str a, .str b => a == b
  | .seq a, .seq b => eqbSeq a b
  | .map a, .map b => eqbMap a b
  | _, _ => false
def eqbSeq {α : Type} [DecidableEq α] : List (YVal α) → List (YVal α) → Bool
  | [], [] => true
  | x :: xs, y :: ys => eqb x y && eqbSeq xs ys
  | _, _ => false
def eqbMap {α : Type} [DecidableEq α] : List (YVal α × YVal α) → List (YVal α × YVal α) → Bool
  | [], [] => true
  | (k, v) :: xs, (k', v') :: ys => eqb k k' && eqb v v' && eqbMap xs ys
  | _, _ => false
end

mutual
theorem eqb_sound {α : Type} [DecidableEq α] : (a b : YVal α) → eqb a b = true → a = b
  | .null, b, h => by cases b <;> simp_all [eqb]
  | .bool x, b, h => by cases b <;> simp_all [eqb]
  | .int x, b, h => by cases b <;> simp_all [eqb]
  | .float x, b, h => by cases b <;> simp_all [eqb]
  | .str x, b, h => by cases b <;> simp_all [eqb]
  | .seq l, b, h => by
      cases b with
      | seq l' => simp only [eqb] at h; rw [eqbSeq_sound l l' h]
      | _ => simp [eqb] at h
  | .map l, b, h => by
      cases b with
      | map l' => simp only [eqb] at h; rw [eqbMap_sound l l' h]
      | _ => simp [eqb] at h
theorem eqbSeq_sound {α : Type} [DecidableEq α] : (a b : List (YVal α)) → eqbSeq a b = true → a = b
  | [], b, h => by cases b <;> simp_all [eqbSeq]
  | x :: xs, b, h => by
      cases b with
      | nil => simp [eqbSeq] at h
      | cons y ys =>
        simp only [eqbSeq, Bool.and_eq_true] at h
        rw [eqb_sound x y h.1, eqbSeq_sound xs ys h.2]
theorem eqbMap_sound {α : Type} [DecidableEq α] : (a b : List (YVal α × YVal α)) → eqbMap a b = true → a = b
  | [], b, h => by cases b <;> simp_all [eqbMap]
  | (k, v) :: xs, b, h => by
      cases b with
      | nil => simp [eqbMap] at h
      | cons p ys =>
        obtain ⟨k', v'⟩ := p
        simp only [eqbMap, Bool.and_eq_true] at h
        rw [eqb_sound k k' h.1.1, eqb_sound v v' h.1.2, eqbMap_sound xs ys h.2]
end

/-- equality of optional trees from the Boolean test. -/
theorem opt_eq_of_eqb {α : Type} [DecidableEq α] {x : Option (YVal α)} {t : YVal α}
    (h : (match x with | some y => eqb y t | none => false) = true) : x = some t := by
  cases x with
  | none => simp at h
  | some y => simp only at h; rw [eqb_sound y t h]

end FV.YT

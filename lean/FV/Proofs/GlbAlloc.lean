import FV.Model.GlbAlloc
import FV.Proofs.Glb
import FV.Proofs.Alloc
/-
  The loop of `glbfloor` with the allocation model plugged in (`FV/Model/GlbAlloc.lean`): the feasibility invariant
  is preserved by `Allocation.refine(threshold)` (theorems of `FV/Proofs/Alloc.lean`: `refine_spec`, `Refines`) and by
  `extract_solution` with the real constructor (`mkAllocation_valid`), for every solver answer.
-/
namespace FV.Glb
open FV FV.Alloc
set_option linter.unusedSectionVars false
set_option linter.unusedVariables false
set_option linter.unusedSimpArgs false

variable {α : Type} [Field α] [LinearOrder α] [IsStrictOrderedRing α]

/-! ### the adapter -/

@[simp] theorem ofCell_toCell (ra : RectAlloc α) : ofCell (toCell ra) = ra := rfl
@[simp] theorem toCell_ofCell (c : Cell α) : toCell (ofCell c) = c := rfl
@[simp] theorem toCell_rect (ra : RectAlloc α) : (toCell ra).rect = ra.rect := rfl
@[simp] theorem toCell_alloc (ra : RectAlloc α) : (toCell ra).alloc = ra.alloc := rfl

theorem map_ofCell_toCell (l : List (RectAlloc α)) : (l.map toCell).map ofCell = l := by
  rw [List.map_map]; conv_rhs => rw [← List.map_id l]
  apply List.map_congr_left; intro x _; rfl

theorem map_toCell_ofCell (l : List (Cell α)) : (l.map ofCell).map toCell = l := by
  rw [List.map_map]; conv_rhs => rw [← List.map_id l]
  apply List.map_congr_left; intro x _; rfl

/-! ### the invariant -/

/-- the loop state is feasible: tolerances `st` unchanged, a valid `Allocation` object (what the constructor accepts:
    proper cells in the positive quadrant, pairwise overlap within `st.area`, admissible ratios, consistent caches),
    all cells inside the die, pairwise overlap at most `ε`. -/
structure Feasible (die : Rect α) (ε : α) (st : Eps α) (s : AState α) : Prop where
  eps : s.eps = st
  valid : ValidAlloc st s.alloc
  inside : ∀ c ∈ s.alloc.cells, c.rect.isInside die = true
  sep : s.alloc.cells.Pairwise (fun c d => c.rect.areaOverlap d.rect ≤ ε)

/-! ### the constructor -/

/-- with the tolerances defined the constructor does not consult `env`. -/
theorem mkAllocation_env_irrelevant (env env' : Env α) (st : Eps α) (raw : List (RawCell α)) (hd : 0 ≤ st.dist) :
    mkAllocation env st raw = mkAllocation env' st raw := by
  have hdef : st.defined = true := by simp [Eps.defined, hd]
  rw [mkAllocation_eq, mkAllocation_eq]
  simp only [newEps, hdef, if_true]

theorem parseCell_toRaw_inv (c y : Cell α) (h : parseCell c.toRaw = .ok y) : y = c := by
  unfold parseCell Cell.toRaw at h
  simp only [parseRect] at h
  split at h
  · exact absurd h (by simp)
  · split at h
    · simp only [Except.ok.injEq] at h; rw [← h]; simp
    · exact absurd h (by simp)

theorem mapE_parse_toRaw_inv (cs ys : List (Cell α)) (h : mapE parseCell (cs.map Cell.toRaw) = .ok ys) : ys = cs := by
  rw [mapE_ok_iff, List.forall₂_map_left_iff] at h
  induction h with
  | nil => rfl
  | cons hab _ ih => rw [parseCell_toRaw_inv _ _ hab, ih]

/-- what the constructor returns on a list of `Rectangle`-object descriptors, tolerances defined: exactly these
    cells, the same tolerances, a valid allocation. -/
theorem mkAllocation_obj_inv (env : Env α) (st st' : Eps α) (cs : List (Cell α)) (a : Allocation α)
    (hd : 0 ≤ st.dist) (ha : 0 ≤ st.area) (hpos : ∀ c ∈ cs, 0 < c.rect.w ∧ 0 < c.rect.h)
    (h : mkAllocation env st (cs.map Cell.toRaw) = .ok (a, st')) : a.cells = cs ∧ st' = st ∧ ValidAlloc st a := by
  have hdef : st.defined = true := by simp [Eps.defined, hd]
  have hv : ValidAlloc st' a := by
    rw [mkAllocation_env_irrelevant env ⟨0, env.rho, fun _ => 0⟩ st _ hd] at h
    refine mkAllocation_valid _ st _ a st' ?_ (fun _ => ha) (le_refl _) (fun _ => le_refl _) h
    intro rc hrc
    obtain ⟨c, hc, rfl⟩ := List.mem_map.mp hrc
    exact hpos c hc
  rw [mkAllocation_eq] at h
  cases hcells : mapE parseCell (cs.map Cell.toRaw) with
  | error e => rw [hcells] at h; cases h
  | ok cells =>
    rw [hcells] at h; simp only at h
    have hcs := mapE_parse_toRaw_inv cs cells hcells
    cases hbb : boundingBox cells with
    | error e => rw [hbb] at h; cases h
    | ok bb =>
      rw [hbb] at h; simp only [newEps, hdef, if_true] at h
      split at h
      · cases h
      · cases hst : areasCenters cells with
        | error e => rw [hst] at h; cases h
        | ok stats =>
          rw [hst] at h
          simp only [Except.ok.injEq, Prod.mk.injEq] at h
          obtain ⟨h1, h2⟩ := h
          subst h2
          exact ⟨by rw [← h1, hcs], rfl, hv⟩

/-- the checks of `Glb.allocationCtor` are among those of the real constructor. -/
theorem allocationCtor_of_cellsOK (εA : α) (L : List (RectAlloc α)) (h : CellsOK εA (L.map toCell)) :
    allocationCtor εA L = .ok L := by
  have c1 : (L.all fun ra => ra.alloc.all fun p => decide ((zero : α) ≤ p.2) && decide (p.2 ≤ one)) = true := by
    simp only [List.all_eq_true, Bool.and_eq_true, decide_eq_true_eq, Glb.zero_eq, Glb.one_eq]
    intro ra hra p hp
    have := h.allocs (toCell ra) (List.mem_map.mpr ⟨ra, hra, rfl⟩)
    unfold allocOK at this
    simp only [Bool.and_eq_true, List.all_eq_true, decide_eq_true_eq, Rect.zero_eq, FV.Alloc.one_eq, toCell_alloc] at this
    exact ⟨(this.1 p hp).1.2, (this.1 p hp).2⟩
  have c2 : L.isEmpty = false := by
    cases L with
    | nil => exact absurd rfl h.nonempty
    | cons _ _ => rfl
  have c3 : (L.all fun ra => decide ((zero : α) ≤ ra.rect.xmin) && decide ((zero : α) ≤ ra.rect.ymin)) = true := by
    simp only [List.all_eq_true, Bool.and_eq_true, decide_eq_true_eq, Glb.zero_eq]
    intro ra hra
    have := h.good (toCell ra) (List.mem_map.mpr ⟨ra, hra, rfl⟩)
    exact ⟨this.2.2.1, this.2.2.2⟩
  have c4 : allPairs (fun a b => !(Rect.overlap εA a.rect b.rect)) L = true := by
    rw [allPairs_iff_pairwise]
    have := h.noOverlap
    rw [List.pairwise_map] at this
    refine this.imp ?_
    intro a b hab
    simp only [toCell_rect] at hab
    simp [Rect.overlap, not_lt.mpr hab]
  unfold allocationCtor
  rw [if_neg (by rw [c1]; simp), if_neg (by rw [c2]; simp), if_neg (by rw [c3]; simp), if_neg (by rw [c4]; simp)]

/-! ### ownership of cells by a fixed module, as a structural invariant -/

/-- every offered cell is either exactly `{f ↦ 1}` or does not list `f` and does not overlap any of its rectangles
    (what `create_initial_allocation` produces for a fixed module on a die whose fixed regions are the module's
    rectangles: `FV.C03.fixed_full`). -/
def FixedOwn (offered : List (RectAlloc α)) (f : Module α) : Prop :=
  ∀ ra ∈ offered, ra.alloc = [(f.name, (1 : α))] ∨
    (ra.alloc.lookup f.name = none ∧ ∀ r ∈ f.rects, ra.rect.areaOverlap r = 0)

theorem lookup_single (k : String) (v : α) : List.lookup k [(k, v)] = some v := by
  simp [List.lookup]

theorem mem_of_lookup {β : Type} (k : String) (v : β) (l : List (String × β)) (h : l.lookup k = some v) : (k, v) ∈ l := by
  induction l with
  | nil => simp [List.lookup] at h
  | cons p l ih =>
    obtain ⟨k', v'⟩ := p
    simp only [List.lookup] at h
    by_cases hk : (k == k') = true
    · rw [hk] at h
      simp only [Option.some.injEq] at h
      have : k = k' := by simpa using hk
      subst this; subst h; simp
    · have hk' : (k == k') = false := by simpa using hk
      rw [hk'] at h
      exact List.mem_cons_of_mem _ (ih h)

/-- `get_a` on an allocation owned in this sense is 1 on the module's cells and 0 elsewhere. -/
theorem getA_of_fixedOwn (offered : List (RectAlloc α)) (f : Module α) (h : FixedOwn offered f) (c : Nat)
    (ra : RectAlloc α) (hc : offered[c]? = some ra) :
    (ra.alloc = [(f.name, 1)] ∧ getA offered f c = some 1) ∨
    (ra.alloc.lookup f.name = none ∧ (∀ r ∈ f.rects, ra.rect.areaOverlap r = 0) ∧ getA offered f c = some 0) := by
  have hm : ra ∈ offered := List.mem_of_getElem? hc
  rcases h ra hm with h1 | ⟨h2, h3⟩
  · left
    refine ⟨h1, ?_⟩
    unfold getA; rw [hc]; simp only [h1, lookup_single]
  · right
    refine ⟨h2, h3, ?_⟩
    unfold getA; rw [hc]; simp only [h2]
    split
    · rename_i r hr
      have := h3 r (by rw [hr]; simp)
      rw [this, zero_div]
    · simp

/-- refinement keeps ownership (new cells inherit the ratios and lie inside their parent). -/
theorem fixedOwn_refines (cs cs' : List (Cell α)) (f : Module α) (href : Refines cs cs')
    (h : FixedOwn (cs.map ofCell) f) : FixedOwn (cs'.map ofCell) f := by
  intro ra hra
  obtain ⟨d, hd, rfl⟩ := List.mem_map.mp hra
  obtain ⟨c, hc, hal, hin, _⟩ := href.mem d hd
  rcases h (ofCell c) (List.mem_map.mpr ⟨c, hc, rfl⟩) with h1 | ⟨h2, h3⟩
  · left; show d.alloc = _; rw [hal]; exact h1
  · right
    refine ⟨by show d.alloc.lookup f.name = none; rw [hal]; exact h2, fun r hr => ?_⟩
    have hle := areaOverlap_mono d.rect c.rect r r hin (isInside_refl r)
    have h0 : c.rect.areaOverlap r = 0 := h3 r hr
    exact le_antisymm (by rw [← h0]; exact hle) (C18.areaOverlap_nonneg _ _)

/-- `extract_solution` keeps ownership: with `0 < thr`, a non-negative answer whose rows are `≤ 1 + tol ≤ 2 - thr`
    and which reads the constants of `f` back (`ans.a f c = get_a`). -/
theorem fixedOwn_extract (ans : Answer α) (thr tol : α) (mods : List (Module α)) (offered : List (RectAlloc α))
    (f : Module α) (hthr : 0 < thr) (htol0 : 0 ≤ tol) (htol : tol ≤ 1 - thr) (hf : f ∈ mods)
    (hnn : ∀ m ∈ mods, ∀ c < offered.length, 0 ≤ ans.a m.name c)
    (hrow : ∀ c < offered.length, (mods.map fun m => ans.a m.name c).sum ≤ 1 + tol)
    (ha : ∀ c v, getA offered f c = some v → ans.a f.name c = v) (h : FixedOwn offered f) :
    FixedOwn (allocList ans thr mods (offered.map (·.rect))) f := by
  intro ra hra
  obtain ⟨c, cell, hc, _, rfl⟩ := (mem_allocList ans thr mods _ ra).mp hra
  rw [List.getElem?_map] at hc
  cases hoc : offered[c]? with
  | none => rw [hoc] at hc; cases hc
  | some ra0 =>
    rw [hoc] at hc
    simp only [Option.map_some, Option.some.injEq] at hc
    have hlt : c < offered.length := by
      by_contra hge
      rw [List.getElem?_eq_none (Nat.le_of_not_lt hge)] at hoc; cases hoc
    rcases getA_of_fixedOwn offered f h c ra0 hoc with ⟨_, hg⟩ | ⟨_, h3, hg⟩
    · left
      exact cellAlloc_owned ans thr tol mods c f hthr htol hf (ha c 1 hg) (fun m hm => hnn m hm c hlt) (hrow c hlt)
    · right
      refine ⟨?_, by intro r hr; rw [← hc]; exact h3 r hr⟩
      show (cellAlloc ans thr mods c).lookup f.name = none
      cases hl : (cellAlloc ans thr mods c).lookup f.name with
      | none => rfl
      | some v =>
        have hm := mem_of_lookup _ _ _ hl
        obtain ⟨m, _, hmn, hav, hgt⟩ := (mem_cellAlloc ans thr mods c f.name v).mp hm
        rw [hmn, ha c 0 hg] at hav
        rw [← hav] at hgt
        linarith

/-- the cells owned by `f` are not dropped by `extract_solution`. -/
theorem owned_kept_extract (ans : Answer α) (thr tol : α) (mods : List (Module α)) (offered : List (RectAlloc α))
    (f : Module α) (hthr : 0 < thr) (htol : tol ≤ 1 - thr) (hf : f ∈ mods)
    (hnn : ∀ m ∈ mods, ∀ c < offered.length, 0 ≤ ans.a m.name c)
    (hrow : ∀ c < offered.length, (mods.map fun m => ans.a m.name c).sum ≤ 1 + tol)
    (ha : ∀ c v, getA offered f c = some v → ans.a f.name c = v)
    (ra0 : RectAlloc α) (h0 : ra0 ∈ offered) (hown : ra0.alloc = [(f.name, 1)]) :
    ∃ ra ∈ allocList ans thr mods (offered.map (·.rect)), ra.rect = ra0.rect ∧ ra.alloc = [(f.name, 1)] := by
  obtain ⟨c, hlt, hc⟩ := List.getElem_of_mem h0
  have hoc : offered[c]? = some ra0 := by rw [List.getElem?_eq_getElem hlt, hc]
  have hg : getA offered f c = some 1 := by
    unfold getA; rw [hoc]; simp only [hown, lookup_single]
  have hown' := cellAlloc_owned ans thr tol mods c f hthr htol hf (ha c 1 hg) (fun m hm => hnn m hm c hlt) (hrow c hlt)
  refine ⟨{ rect := ra0.rect, alloc := cellAlloc ans thr mods c, depth := 0 }, ?_, rfl, hown'⟩
  refine (mem_allocList ans thr mods _ _).mpr ⟨c, ra0.rect, ?_, ?_, rfl⟩
  · rw [List.getElem?_map, hoc]; rfl
  · rw [hown']; simp

/-! ### one step of each kind -/

theorem sublist_rects (ans : Answer α) (thr : α) (s : AState α) :
    ((allocList ans thr s.mods s.cells).map (·.rect)).Sublist (s.alloc.cells.map (·.rect)) :=
  allocList_rects_sublist ans thr s.mods s.cells

/-- `extract_solution` with the real constructor: a feasible state goes to a feasible state whatever the answer; the
    new cells are those of `Glb.allocList`; and `Glb.extractSolution` (the model the other C10 theorems are about)
    returns the same allocation and modules. -/
theorem extractA_spec (env : Env α) (ans : Answer α) (thr ε : α) (die : Rect α) (st : Eps α) (s s' : AState α)
    (hs : Feasible die ε st s) (h : extractA env ans thr s = some s') :
    Feasible die ε st s' ∧ s'.alloc.cells = (allocList ans thr s.mods s.cells).map toCell ∧
      extractSolution ans st.area thr s.mods s.cells = .ok (s'.alloc.cells.map ofCell, s'.mods) := by
  unfold extractA at h
  simp only at h
  cases hm : mkAllocation env s.eps ((allocList ans thr s.mods s.cells).map fun ra => (toCell ra).toRaw) with
  | error e => rw [hm] at h; cases h
  | ok p =>
    obtain ⟨a', st'⟩ := p
    rw [hm] at h; simp only at h
    cases hu : updateModules ans s.mods with
    | none => rw [hu] at h; cases h
    | some ms =>
      rw [hu] at h; simp only [Option.some.injEq] at h
      subst h
      have hsub := sublist_rects ans thr s
      have hmem : ∀ ra ∈ allocList ans thr s.mods s.cells, ∃ c ∈ s.alloc.cells, c.rect = ra.rect := by
        intro ra hra
        have : ra.rect ∈ s.alloc.cells.map (·.rect) := hsub.subset (List.mem_map.mpr ⟨ra, hra, rfl⟩)
        obtain ⟨c, hc, hcr⟩ := List.mem_map.mp this
        exact ⟨c, hc, hcr⟩
      rw [hs.eps] at hm
      have hmm : (allocList ans thr s.mods s.cells).map (fun ra => (toCell ra).toRaw) =
          ((allocList ans thr s.mods s.cells).map toCell).map Cell.toRaw := by
        rw [List.map_map]; rfl
      rw [hmm] at hm
      obtain ⟨hc, hst, hv⟩ := mkAllocation_obj_inv env st st' _ a' hs.valid.epsDef hs.valid.epsArea (by
        intro c hc
        obtain ⟨ra, hra, rfl⟩ := List.mem_map.mp hc
        obtain ⟨c0, hc0, hr⟩ := hmem ra hra
        simp only [toCell_rect]; rw [← hr]; exact hs.valid.pos c0 hc0) hm
      obtain rfl := hst.symm
      refine ⟨⟨rfl, hv, ?_, ?_⟩, hc, ?_⟩
      · intro c hcm
        simp only at hcm; rw [hc] at hcm
        obtain ⟨ra, hra, rfl⟩ := List.mem_map.mp hcm
        obtain ⟨c0, hc0, hr⟩ := hmem ra hra
        simp only [toCell_rect]; rw [← hr]; exact hs.inside c0 hc0
      · simp only; rw [hc, List.pairwise_map]
        have h1 : (s.alloc.cells.map (·.rect)).Pairwise (fun a b => a.areaOverlap b ≤ ε) := by
          rw [List.pairwise_map]; exact hs.sep
        have h2 := h1.sublist hsub
        rw [List.pairwise_map] at h2
        exact h2
      · unfold extractSolution
        have hok : CellsOK st.area ((allocList ans thr s.mods s.cells).map toCell) := by rw [← hc]; exact hv.cells
        rw [allocationCtor_of_cellsOK _ _ hok, hu]
        simp only [hc, map_ofCell_toCell]

/-- `allocation.refine(threshold)` never raises on a feasible state and keeps it feasible. -/
theorem refineA_spec (env : Env α) (thr ε : α) (die : Rect α) (st : Eps α) (s : AState α) (hε : 0 ≤ ε)
    (hs : Feasible die ε st s) :
    ∃ r, refineA env thr s = some r ∧ Feasible die ε st r ∧ r.mods = s.mods ∧ Refines s.alloc.cells r.alloc.cells := by
  obtain ⟨a', h1, hv, href, _⟩ := refine_spec env st s.alloc thr 1 hs.valid (by omega)
  refine ⟨{ s with alloc := a', eps := st }, ?_, ⟨rfl, hv, ?_, href.pairwise ε hε hs.sep⟩, rfl, href⟩
  · unfold refineA; rw [hs.eps, h1]
  · intro d hd
    obtain ⟨c, hc, _, hin, _⟩ := href.mem d hd
    exact isInside_trans _ _ _ hin (hs.inside c hc)

theorem refineA_feasible (env : Env α) (thr ε : α) (die : Rect α) (st : Eps α) (s r : AState α) (hε : 0 ≤ ε)
    (hs : Feasible die ε st s) (h : refineA env thr s = some r) : Feasible die ε st r := by
  obtain ⟨r', h1, hf, _⟩ := refineA_spec env thr ε die st s hε hs
  rw [h1] at h; cases h; exact hf

theorem optimizeA_feasible (env : Env α) (solve : AState α → Option (Answer α)) (thr ε : α) (die : Rect α) (st : Eps α)
    (s r : AState α) (hs : Feasible die ε st s) (h : optimizeA env solve thr s = some r) : Feasible die ε st r := by
  unfold optimizeA at h
  cases hsol : solve s with
  | none => rw [hsol] at h; cases h
  | some ans => rw [hsol] at h; exact (extractA_spec env ans thr ε die st s r hs h).1

end FV.Glb

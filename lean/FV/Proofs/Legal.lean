import FV.Model.Legal
import Mathlib.Analysis.Real.Sqrt
import Mathlib.Tactic.Linarith
import Mathlib.Tactic.Ring
import Mathlib.Tactic.FieldSimp
import Mathlib.Tactic.Positivity
import Mathlib.Tactic.NormNum
/-
  Helper lemmas for the legaliser constraint system at `ℝ`: evaluation of the generated trees, the meaning
  of each kind of equation, and the list bookkeeping of the generator.
-/
namespace FV.Legal
open FV Real
set_option linter.unusedVariables false
set_option linter.unusedSectionVars false

/-- `evaluate()` over the reals: `x ** 2` is the square (the generator uses no other exponent: anything
    else is treated as a failure, so that nothing is proved about it), `math.sqrt` fails on negatives. -/
noncomputable def realFns : Fns ℝ where
  pow x y := if y = 2 then some (x ^ 2) else none
  sqrt x := if 0 ≤ x then some (√x) else none

/-- a configuration: the box of rectangle `i` of module `m`. -/
abbrev Cfg := Nat → Nat → Box ℝ

/-- the values of the GEKKO variables under a configuration. -/
def env (c : Cfg) (q : Var) : ℝ :=
  match q.k with | .x => (c q.m q.i).x | .y => (c q.m q.i).y | .w => (c q.m q.i).w | .h => (c q.m q.i).h

/-- the equation is met with slack `ε = 0` and tolerance `0` (both sides evaluate without error). -/
def Holds (c : Cfg) (e : Eqn ℝ) : Prop := e.met realFns (env c) 0 0 = some true

@[simp] theorem zero_eq : (zero : ℝ) = 0 := by simp [zero]
@[simp] theorem one_eq : (one : ℝ) = 1 := by simp [one]
@[simp] theorem two_eq : (two : ℝ) = 2 := by simp [two]
@[simp] theorem four_eq : (four : ℝ) = 4 := by simp [four]
@[simp] theorem ten_eq : (ten : ℝ) = 10 := by simp [ten]
@[simp] theorem half_eq : (half : ℝ) = 1 / 2 := by simp [half]
@[simp] theorem quarter_eq : (quarter : ℝ) = 1 / 4 := by simp [quarter]
@[simp] theorem hundredth_eq : (hundredth : ℝ) = 1 / 100 := by simp [hundredth]

@[simp] theorem pyAbs_eq (x : ℝ) : pyAbs x = |x| := by
  unfold pyAbs; simp only [zero_eq]
  split
  · rw [abs_of_neg ‹_›]
  · rw [abs_of_nonneg (not_lt.mp ‹_›)]

/-! ### evaluation -/

@[simp] theorem eval_cst (c : Cfg) (a : ℝ) : (Expr.cst a).eval realFns (env c) = some a := rfl
@[simp] theorem eval_var (c : Cfg) (q : Var) : (Expr.var q : Expr ℝ).eval realFns (env c) = some (env c q) := rfl

theorem eval_add (c : Cfg) (a b : Expr ℝ) (x y : ℝ) (ha : a.eval realFns (env c) = some x)
    (hb : b.eval realFns (env c) = some y) : (Expr.add a b).eval realFns (env c) = some (x + y) := by
  simp [Expr.eval, ha, hb]
theorem eval_sub (c : Cfg) (a b : Expr ℝ) (x y : ℝ) (ha : a.eval realFns (env c) = some x)
    (hb : b.eval realFns (env c) = some y) : (Expr.sub a b).eval realFns (env c) = some (x - y) := by
  simp [Expr.eval, ha, hb]
theorem eval_mul (c : Cfg) (a b : Expr ℝ) (x y : ℝ) (ha : a.eval realFns (env c) = some x)
    (hb : b.eval realFns (env c) = some y) : (Expr.mul a b).eval realFns (env c) = some (x * y) := by
  simp [Expr.eval, ha, hb]
theorem eval_div (c : Cfg) (a b : Expr ℝ) (x y : ℝ) (ha : a.eval realFns (env c) = some x)
    (hb : b.eval realFns (env c) = some y) (hy : y ≠ 0) : (Expr.div a b).eval realFns (env c) = some (x / y) := by
  simp only [Expr.eval, ha, hb, zero_eq, bind, Option.bind]
  rw [if_neg]; · rfl
  rintro ⟨h1, h2⟩; exact hy (le_antisymm h1 h2)
theorem eval_sq (c : Cfg) (a : Expr ℝ) (x : ℝ) (ha : a.eval realFns (env c) = some x) :
    (Expr.pow a (.cst two)).eval realFns (env c) = some (x ^ 2) := by
  simp only [Expr.eval, ha, bind, Option.bind]; simp [realFns]
theorem eval_sqrt (c : Cfg) (a : Expr ℝ) (x : ℝ) (ha : a.eval realFns (env c) = some x) (hx : 0 ≤ x) :
    (Expr.sqrt a).eval realFns (env c) = some (√x) := by
  simp only [Expr.eval, ha, bind, Option.bind]; simp [realFns, hx]

/-- `Holds` of a soft `≥` / `≤` / `=` equation whose sides evaluate. -/
theorem holds_ge (c : Cfg) (g n : String) (l r : Expr ℝ) (x y : ℝ) (hl : l.eval realFns (env c) = some x)
    (hr : r.eval realFns (env c) = some y) : Holds c ⟨g, n, l, .ge, r, false⟩ ↔ y ≤ x := by
  simp [Holds, Eqn.met, hl, hr]
theorem holds_le (c : Cfg) (g n : String) (l r : Expr ℝ) (x y : ℝ) (hl : l.eval realFns (env c) = some x)
    (hr : r.eval realFns (env c) = some y) : Holds c ⟨g, n, l, .le, r, false⟩ ↔ x ≤ y := by
  simp [Holds, Eqn.met, hl, hr]
theorem holds_eq (c : Cfg) (g n : String) (l r : Expr ℝ) (x y : ℝ) (hl : l.eval realFns (env c) = some x)
    (hr : r.eval realFns (env c) = some y) : Holds c ⟨g, n, l, .eq, r, false⟩ ↔ x = y := by
  simp only [Holds, Eqn.met, hl, hr, bind, Option.bind]
  simp
  constructor
  · rintro ⟨h1, h2⟩; exact le_antisymm h2 h1
  · rintro rfl; exact ⟨le_refl _, le_refl _⟩


/-! ### constant folding preserves `evaluate()` -/

theorem eval_add' (F : Fns ℝ) (ev : Var → ℝ) (a b : Expr ℝ) :
    (Expr.add' a b).eval F ev = (Expr.add a b).eval F ev := by
  cases a <;> cases b <;> simp [Expr.add', Expr.eval]
theorem eval_sub' (F : Fns ℝ) (ev : Var → ℝ) (a b : Expr ℝ) :
    (Expr.sub' a b).eval F ev = (Expr.sub a b).eval F ev := by
  cases a <;> cases b <;> simp [Expr.sub', Expr.eval]
theorem eval_mul' (F : Fns ℝ) (ev : Var → ℝ) (a b : Expr ℝ) :
    (Expr.mul' a b).eval F ev = (Expr.mul a b).eval F ev := by
  cases a <;> cases b <;> simp [Expr.mul', Expr.eval]

/-! ### real-number facts -/

/-- the `thin` comparison is the aspect-ratio bound. -/
theorem thin_ge_iff (w h r : ℝ) (hw : 0 < w) (hh : 0 < h) (hr : 1 ≤ r) :
    thinV r 1 * 10 ≤ thinV w h * 10 ↔ w ≤ r * h ∧ h ≤ r * w := by
  unfold thinV
  have h1 : 0 < w * w + h * h := by positivity
  have h2 : 0 < r * r + 1 * 1 := by positivity
  rw [mul_le_mul_iff_of_pos_right (by norm_num : (0:ℝ) < 10), div_le_div_iff₀ h2 h1]
  constructor
  · intro hh'
    have key : 0 ≤ (r * w - h) * (r * h - w) := by nlinarith
    constructor
    · by_contra hc
      push Not at hc
      have : r * w - h ≤ 0 := by
        by_contra h3; push Not at h3
        nlinarith
      nlinarith
    · by_contra hc
      push Not at hc
      have : r * h - w ≤ 0 := by
        by_contra h3; push Not at h3
        nlinarith
      nlinarith
  · rintro ⟨a, b⟩
    nlinarith [mul_nonneg (sub_nonneg.mpr a) (sub_nonneg.mpr b)]

/-- the smooth maximum is non-negative iff one argument is, up to `τ²` on the product. -/
theorem smax_nonneg_iff_real (x y t : ℝ) :
    0 ≤ 1 / 2 * (x + y + √((x - y) ^ 2 + 4 * t * t)) ↔ 0 ≤ x + y ∨ x * y ≤ t ^ 2 := by
  have hs : 0 ≤ (x - y) ^ 2 + 4 * t * t := by nlinarith [sq_nonneg (x - y), sq_nonneg t]
  constructor
  · intro h
    by_contra hc
    push Not at hc
    obtain ⟨h1, h2⟩ := hc
    have h3 : -(x + y) ≤ √((x - y) ^ 2 + 4 * t * t) := by linarith
    have h4 : (-(x + y)) ^ 2 ≤ (x - y) ^ 2 + 4 * t * t := by
      have := Real.sq_sqrt hs
      nlinarith [Real.sqrt_nonneg ((x - y) ^ 2 + 4 * t * t)]
    nlinarith
  · rintro (h | h)
    · have := Real.sqrt_nonneg ((x - y) ^ 2 + 4 * t * t); linarith
    · by_cases hxy : 0 ≤ x + y
      · have := Real.sqrt_nonneg ((x - y) ^ 2 + 4 * t * t); linarith
      · push Not at hxy
        have : -(x + y) ≤ √((x - y) ^ 2 + 4 * t * t) := by
          apply Real.le_sqrt_of_sq_le; nlinarith
        linarith


/-! ### the meaning of each kind of equation -/

theorem thinE_eval (c : Cfg) (m i : Nat) (hw : 0 < (c m i).w) (hh : 0 < (c m i).h) :
    (thinE (v .w m i) (v .h m i)).eval realFns (env c) = some (thinV (c m i).w (c m i).h) := by
  have h1 : (c m i).w * (c m i).w + (c m i).h * (c m i).h ≠ 0 := by positivity
  unfold thinE thinV
  simp only [Expr.div', Expr.mul', Expr.add', v]
  exact eval_div c _ _ _ _ (by simp [Expr.eval, env]) (by simp [Expr.eval, env]) h1

/-- Bounds and Shapes of one rectangle. -/
theorem rectEqs_iff (P : Params ℝ) (c : Cfg) (m i : Nat) (hw : 0 < (c m i).w) (hh : 0 < (c m i).h)
    (hr : 1 ≤ P.r) :
    (∀ e ∈ rectEqs P m i, Holds c e) ↔
      (0 ≤ (c m i).x - 1 / 2 * (c m i).w ∧ 0 ≤ (c m i).y - 1 / 2 * (c m i).h ∧
        (c m i).x + 1 / 2 * (c m i).w ≤ P.dw ∧ (c m i).y + 1 / 2 * (c m i).h ≤ P.dh) ∧
      ((c m i).w ≤ P.r * (c m i).h ∧ (c m i).h ≤ P.r * (c m i).w) := by
  unfold rectEqs
  simp only [List.mem_cons, List.not_mem_nil, or_false, forall_eq_or_imp, forall_eq]
  rw [holds_ge c _ _ _ _ ((c m i).x - 1 / 2 * (c m i).w) 0
        (by simp [eval_sub', eval_mul', Expr.eval, v, hlf, env]) (by simp),
      holds_ge c _ _ _ _ ((c m i).y - 1 / 2 * (c m i).h) 0
        (by simp [eval_sub', eval_mul', Expr.eval, v, hlf, env]) (by simp),
      holds_le c _ _ _ _ ((c m i).x + 1 / 2 * (c m i).w) P.dw
        (by simp [eval_add', eval_mul', Expr.eval, v, hlf, env]) (by simp),
      holds_le c _ _ _ _ ((c m i).y + 1 / 2 * (c m i).h) P.dh
        (by simp [eval_add', eval_mul', Expr.eval, v, hlf, env]) (by simp),
      holds_ge c _ _ _ _ (thinV (c m i).w (c m i).h * 10) (thinV P.r 1 * 10)
        (by rw [eval_mul']; exact eval_mul c _ _ _ _ (thinE_eval c m i hw hh) (by simp))
        (by simp [Expr.mul']),
      thin_ge_iff _ _ _ hw hh hr]
  tauto


/-- the attachment equations of a branch `b` to the trunk `t`, as written by `add_rect_*`. -/
def AttachRaw : Loc → Box ℝ → Box ℝ → Prop
  | .north, t, b => b.y = t.y + 1 / 2 * t.h + 1 / 2 * b.h ∧
      t.x - 1 / 2 * t.w + 1 / 2 * b.w ≤ b.x ∧ b.x ≤ t.x + 1 / 2 * t.w - 1 / 2 * b.w
  | .south, t, b => b.y = t.y - 1 / 2 * t.h - 1 / 2 * b.h ∧
      t.x - 1 / 2 * t.w + 1 / 2 * b.w ≤ b.x ∧ b.x ≤ t.x + 1 / 2 * t.w - 1 / 2 * b.w
  | .east, t, b => b.x = t.x + 1 / 2 * t.w + 1 / 2 * b.w ∧
      t.y - 1 / 2 * t.h + 1 / 2 * b.h ≤ b.y ∧ b.y ≤ t.y + 1 / 2 * t.h - 1 / 2 * b.h
  | .west, t, b => b.x = t.x - 1 / 2 * t.w - 1 / 2 * b.w ∧
      t.y - 1 / 2 * t.h + 1 / 2 * b.h ≤ b.y ∧ b.y ≤ t.y + 1 / 2 * t.h - 1 / 2 * b.h
  | _, _, _ => True

/-- value of a tree built from constants, variables, `+ - *` only (no failure possible). -/
def evalP (c : Cfg) : Expr ℝ → ℝ
  | .cst a => a
  | .var q => env c q
  | .add a b => evalP c a + evalP c b
  | .sub a b => evalP c a - evalP c b
  | .mul a b => evalP c a * evalP c b
  | _ => 0

def isPoly : Expr ℝ → Bool
  | .cst _ => true
  | .var _ => true
  | .add a b => isPoly a && isPoly b
  | .sub a b => isPoly a && isPoly b
  | .mul a b => isPoly a && isPoly b
  | _ => false

theorem eval_poly (c : Cfg) (e : Expr ℝ) (h : isPoly e = true) : e.eval realFns (env c) = some (evalP c e) := by
  induction e with
  | cst a => rfl
  | var q => rfl
  | add a b iha ihb =>
    simp only [isPoly, Bool.and_eq_true] at h
    exact eval_add c a b _ _ (iha h.1) (ihb h.2)
  | sub a b iha ihb =>
    simp only [isPoly, Bool.and_eq_true] at h
    exact eval_sub c a b _ _ (iha h.1) (ihb h.2)
  | mul a b iha ihb =>
    simp only [isPoly, Bool.and_eq_true] at h
    exact eval_mul c a b _ _ (iha h.1) (ihb h.2)
  | div a b _ _ => simp [isPoly] at h
  | pow a b _ _ => simp [isPoly] at h
  | sqrt a _ => simp [isPoly] at h

theorem holdsP_ge (c : Cfg) (g n : String) (l r : Expr ℝ) (hl : isPoly l = true) (hr : isPoly r = true) :
    Holds c ⟨g, n, l, .ge, r, false⟩ ↔ evalP c r ≤ evalP c l :=
  holds_ge c g n l r _ _ (eval_poly c l hl) (eval_poly c r hr)
theorem holdsP_le (c : Cfg) (g n : String) (l r : Expr ℝ) (hl : isPoly l = true) (hr : isPoly r = true) :
    Holds c ⟨g, n, l, .le, r, false⟩ ↔ evalP c l ≤ evalP c r :=
  holds_le c g n l r _ _ (eval_poly c l hl) (eval_poly c r hr)
theorem holdsP_eq (c : Cfg) (g n : String) (l r : Expr ℝ) (hl : isPoly l = true) (hr : isPoly r = true) :
    Holds c ⟨g, n, l, .eq, r, false⟩ ↔ evalP c l = evalP c r :=
  holds_eq c g n l r _ _ (eval_poly c l hl) (eval_poly c r hr)

theorem attachEqs_iff (c : Cfg) (side : Loc) (m i : Nat) :
    (∀ e ∈ attachEqs side m i, Holds c e) ↔ AttachRaw side (c m 0) (c m i) := by
  cases side <;> unfold attachEqs AttachRaw <;>
    simp only [List.mem_cons, List.not_mem_nil, or_false, forall_eq_or_imp, forall_eq, false_imp_iff]
  all_goals
    first
    | (rw [holdsP_eq c _ _ _ _ rfl rfl, holdsP_ge c _ _ _ _ rfl rfl, holdsP_le c _ _ _ _ rfl rfl]
       simp only [evalP, Expr.add', Expr.sub', Expr.mul', v, hlf, env, half_eq])
    | simp


/-- coordinate `k` of a box. -/
def coord (k : VK) (b : Box ℝ) : ℝ := match k with | .x => b.x | .y => b.y | .w => b.w | .h => b.h

theorem env_coord (c : Cfg) (k : VK) (m i : Nat) : env c ⟨k, m, i⟩ = coord k (c m i) := by
  cases k <;> rfl

theorem mem_idxFrom {β : Type} (l : List β) (k i : Nat) (x : β) :
    (i, x) ∈ idxFrom k l ↔ k ≤ i ∧ l[i - k]? = some x := by
  induction l generalizing k with
  | nil => simp [idxFrom]
  | cons b bs ih =>
    simp only [idxFrom, List.mem_cons, Prod.mk.injEq, ih]
    constructor
    · rintro (⟨rfl, rfl⟩ | ⟨h1, h2⟩)
      · simp
      · refine ⟨by omega, ?_⟩
        have : i - k = (i - (k + 1)) + 1 := by omega
        rw [this]; simpa using h2
    · rintro ⟨h1, h2⟩
      by_cases hik : i = k
      · subst hik; left; simp at h2; exact ⟨rfl, h2.symm⟩
      · right
        refine ⟨by omega, ?_⟩
        have : i - k = (i - (k + 1)) + 1 := by omega
        rw [this] at h2; simpa using h2

theorem mem_of_mem_idxFrom {β : Type} (l : List β) (k i : Nat) (x : β) (h : (i, x) ∈ idxFrom k l) : x ∈ l := by
  rw [mem_idxFrom] at h; exact List.mem_of_getElem? h.2

theorem exists_idx_of_mem {β : Type} (l : List β) (k : Nat) (x : β) (h : x ∈ l) : ∃ i, (i, x) ∈ idxFrom k l := by
  obtain ⟨n, hn⟩ := List.getElem?_of_mem h
  exact ⟨n + k, by rw [mem_idxFrom]; exact ⟨by omega, by simpa using hn⟩⟩

/-- the Intra equations of one side say: consecutive rectangles (in the stable order of their original
    coordinate) do not overlap along the side. -/
theorem intraSide_iff (c : Cfg) (m : Nat) (b : ModIn ℝ) (s : Loc) (k e : VK) (key : Box ℝ → ℝ) (nm : String) :
    (∀ q ∈ intraSide m b s k e key nm, Holds c q) ↔
      ∀ p ∈ pairs (sortBy (fun p => key p.2) (b.side s)),
        coord k (c m p.1.1) + 1 / 2 * coord e (c m p.1.1) ≤ coord k (c m p.2.1) - 1 / 2 * coord e (c m p.2.1) := by
  unfold intraSide
  simp only [List.mem_map, forall_exists_index, and_imp, Prod.forall]
  constructor
  · intro h a1 a2 b1 b2 hp
    obtain ⟨i, hi⟩ := exists_idx_of_mem _ 0 _ hp
    have := h _ i _ _ _ _ hi rfl
    rw [holdsP_le c _ _ _ _ rfl rfl] at this
    simpa only [evalP, Expr.add', Expr.sub', Expr.mul', v, hlf, env_coord, half_eq] using this
  · intro h q i a1 a2 b1 b2 hi hq
    subst hq
    rw [holdsP_le c _ _ _ _ rfl rfl]
    simp only [evalP, Expr.add', Expr.sub', Expr.mul', v, hlf, env_coord, half_eq]
    exact h _ _ _ _ (mem_of_mem_idxFrom _ _ _ _ hi)

/-- `Σ_{i<n} w_i h_i` of module `m`. -/
def areaSum (c : Cfg) (m : Nat) : Nat → ℝ
  | 0 => 0
  | n + 1 => areaSum c m n + (c m n).w * (c m n).h

theorem areaExpr_eval (c : Cfg) (m n : Nat) :
    (areaExpr m n : Expr ℝ).eval realFns (env c) = some (areaSum c m n) := by
  unfold areaExpr
  induction n with
  | zero => simp [areaSum]
  | succ n ih =>
    rw [List.range_succ, List.foldl_append]
    simp only [List.foldl_cons, List.foldl_nil]
    rw [eval_add']
    exact eval_add c _ _ _ _ ih (by simp [Expr.mul', v, Expr.eval, env])

theorem areaEq_iff (c : Cfg) (m n : Nat) (a : ℝ) (nm : String) :
    Holds c ⟨"Area", nm, areaExpr m n, .ge, .cst a, false⟩ ↔ a ≤ areaSum c m n :=
  holds_ge c _ _ _ _ _ _ (areaExpr_eval c m n) (by simp)

/-- the two quantities compared by the no-overlap equation (negative = the projections overlap). -/
noncomputable def tX (p q : Box ℝ) : ℝ := (p.x - q.x) ^ 2 - 1 / 4 * (p.w + q.w) ^ 2
noncomputable def tY (p q : Box ℝ) : ℝ := (p.y - q.y) ^ 2 - 1 / 4 * (p.h + q.h) ^ 2

theorem interEq_iff (c : Cfg) (tau : ℝ) (m i n j : Nat) :
    Holds c (interEq tau m i n j) ↔
      0 ≤ tX (c m i) (c n j) + tY (c m i) (c n j) ∨ tX (c m i) (c n j) * tY (c m i) (c n j) ≤ tau ^ 2 := by
  rw [← smax_nonneg_iff_real]
  unfold interEq
  have e1 : (Expr.sub' (.pow (Expr.sub' (v .x m i) (v .x n j)) (.cst two))
      (Expr.mul' (.cst quarter) (.pow (Expr.add' (v .w m i) (v .w n j)) (.cst two))) : Expr ℝ).eval realFns (env c)
      = some (tX (c m i) (c n j)) := by
    rw [eval_sub']
    refine eval_sub c _ _ _ _ (eval_sq c _ _ (by simp [Expr.sub', v, Expr.eval, env])) ?_
    rw [eval_mul']
    refine eval_mul c _ _ _ _ (by simp) (eval_sq c _ _ (by simp [Expr.add', v, Expr.eval, env]))
  have e2 : (Expr.sub' (.pow (Expr.sub' (v .y m i) (v .y n j)) (.cst two))
      (Expr.mul' (.cst quarter) (.pow (Expr.add' (v .h m i) (v .h n j)) (.cst two))) : Expr ℝ).eval realFns (env c)
      = some (tY (c m i) (c n j)) := by
    rw [eval_sub']
    refine eval_sub c _ _ _ _ (eval_sq c _ _ (by simp [Expr.sub', v, Expr.eval, env])) ?_
    rw [eval_mul']
    refine eval_mul c _ _ _ _ (by simp) (eval_sq c _ _ (by simp [Expr.add', v, Expr.eval, env]))
  have hs : 0 ≤ (tX (c m i) (c n j) - tY (c m i) (c n j)) ^ 2 + 4 * tau * tau := by
    nlinarith [sq_nonneg (tX (c m i) (c n j) - tY (c m i) (c n j)), sq_nonneg tau]
  rw [holds_ge c _ _ _ _ (1 / 2 * (tX (c m i) (c n j) + tY (c m i) (c n j) +
      √((tX (c m i) (c n j) - tY (c m i) (c n j)) ^ 2 + 4 * tau * tau))) 0 _ (by simp)]
  unfold smaxE
  rw [eval_mul']
  refine eval_mul c _ _ _ _ (by simp [hlf]) ?_
  rw [eval_add']
  refine eval_add c _ _ _ _ (by rw [eval_add']; exact eval_add c _ _ _ _ e1 e2) ?_
  refine eval_sqrt c _ _ ?_ hs
  rw [eval_add']
  refine eval_add c _ _ _ _ (eval_sq c _ _ (by rw [eval_sub']; exact eval_sub c _ _ _ _ e1 e2)) ?_
  simp [Expr.mul']


/-! ### `Model.fix` -/

theorem fixRect_iff (c : Cfg) (m i : Nat) (xd yd wd hd : Option (Dict ℝ)) :
    (∀ e ∈ fixRect m i xd yd wd hd, Holds c e) ↔
      (∀ t, xd.bind (dget i) = some t → (c m i).x = if i ≠ 0 then 0 + t + (c m 0).x else 0 + t) ∧
      (∀ t, yd.bind (dget i) = some t →
        (c m i).y = if i ≠ 0 ∧ (xd.bind (dget i)).isSome then 0 + t + (c m 0).y else 0 + t) ∧
      (∀ t, wd.bind (dget i) = some t → (c m i).w = 0 + t) ∧
      (∀ t, hd.bind (dget i) = some t → (c m i).h = 0 + t) := by
  unfold fixRect
  simp only [List.mem_append, or_imp, forall_and]
  rw [and_assoc, and_assoc]
  refine and_congr ?_ (and_congr ?_ (and_congr ?_ ?_))
  · cases hx : xd.bind (dget i) with
    | none => simp
    | some t =>
      by_cases hi : i = 0
      · subst hi
        simp only [Option.isSome_some, if_true, List.mem_cons, List.not_mem_nil, or_false, forall_eq, ne_eq,
          not_true_eq_false, decide_false, Bool.false_and, Bool.false_eq_true, if_false, Option.some.injEq]
        rw [holdsP_eq c _ _ _ _ rfl rfl]
        simp [evalP, Expr.add', v, env]
      · simp only [Option.isSome_some, if_true, List.mem_cons, List.not_mem_nil, or_false, forall_eq, ne_eq, hi,
          not_false_eq_true, decide_true, Bool.and_self, Option.some.injEq]
        rw [holdsP_eq c _ _ _ _ rfl rfl]
        simp [evalP, Expr.add', v, env]
  · cases hy : yd.bind (dget i) with
    | none => simp
    | some t =>
      cases hx : xd.bind (dget i) with
      | none =>
        simp only [Option.isSome_some, Option.isSome_none, if_true, List.mem_cons, List.not_mem_nil, or_false,
          forall_eq, Bool.and_false, Bool.false_eq_true, if_false, and_false, Option.some.injEq]
        rw [holdsP_eq c _ _ _ _ rfl rfl]
        simp [evalP, Expr.add', v, env]
      | some u =>
        by_cases hi : i = 0
        · subst hi
          simp only [Option.isSome_some, if_true, List.mem_cons, List.not_mem_nil, or_false, forall_eq, ne_eq,
            not_true_eq_false, decide_false, Bool.false_and, Bool.false_eq_true, if_false, false_and,
            Option.some.injEq]
          rw [holdsP_eq c _ _ _ _ rfl rfl]
          simp [evalP, Expr.add', v, env]
        · simp only [Option.isSome_some, if_true, List.mem_cons, List.not_mem_nil, or_false, forall_eq, ne_eq, hi,
            not_false_eq_true, decide_true, Bool.and_self, and_self, Option.some.injEq]
          rw [holdsP_eq c _ _ _ _ rfl rfl]
          simp [evalP, Expr.add', v, env]
  · cases hw : wd.bind (dget i) with
    | none => simp
    | some t =>
      simp only [Option.isSome_some, if_true, List.mem_cons, List.not_mem_nil, or_false, forall_eq, Option.some.injEq]
      rw [holdsP_eq c _ _ _ _ rfl rfl]
      simp [evalP, Expr.add', v, env]
  · cases hh : hd.bind (dget i) with
    | none => simp
    | some t =>
      simp only [Option.isSome_some, if_true, List.mem_cons, List.not_mem_nil, or_false, forall_eq, Option.some.injEq]
      rw [holdsP_eq c _ _ _ _ rfl rfl]
      simp [evalP, Expr.add', v, env]


/-! ### bookkeeping of the generator -/

/-- the branches with their sides, in rectangle order. -/
def ModIn.tagged (b : ModIn ℝ) : List (Loc × Box ℝ) :=
  b.N.map (fun q => (Loc.north, q)) ++ b.S.map (fun q => (Loc.south, q)) ++
  b.E.map (fun q => (Loc.east, q)) ++ b.W.map (fun q => (Loc.west, q))

theorem sided_eq (b : ModIn ℝ) : b.sided = idxFrom 1 b.tagged := rfl

theorem tagged_map_snd (b : ModIn ℝ) : b.tagged.map (·.2) = b.branches := by
  simp [ModIn.tagged, ModIn.branches, List.map_append, Function.comp_def]

theorem tagged_length (b : ModIn ℝ) : b.tagged.length = b.branches.length := by
  rw [← tagged_map_snd, List.length_map]

/-- rectangle `i ≥ 1` of a module is the `(i-1)`-th branch; its side is recorded in `sided`. -/
theorem mem_sided (b : ModIn ℝ) (i : Nat) (s : Loc) (q : Box ℝ) :
    (i, s, q) ∈ b.sided ↔ 1 ≤ i ∧ b.tagged[i - 1]? = some (s, q) := by
  rw [sided_eq, mem_idxFrom]

theorem sided_range (b : ModIn ℝ) (i : Nat) (s : Loc) (q : Box ℝ) (h : (i, s, q) ∈ b.sided) :
    1 ≤ i ∧ i < b.c ∧ b.branches[i - 1]? = some q := by
  rw [mem_sided] at h
  obtain ⟨h1, h2⟩ := h
  have hlt : i - 1 < b.tagged.length := by
    by_contra hc
    rw [List.getElem?_eq_none (by omega)] at h2; cases h2
  refine ⟨h1, by unfold ModIn.c; rw [← tagged_length]; omega, ?_⟩
  rw [← tagged_map_snd, List.getElem?_map, h2]; rfl

theorem sided_surj (b : ModIn ℝ) (i : Nat) (h1 : 1 ≤ i) (h2 : i < b.c) : ∃ s q, (i, s, q) ∈ b.sided := by
  have hlt : i - 1 < b.tagged.length := by unfold ModIn.c at h2; rw [tagged_length]; omega
  refine ⟨(b.tagged[i - 1]).1, (b.tagged[i - 1]).2, ?_⟩
  rw [mem_sided]; exact ⟨h1, by rw [List.getElem?_eq_getElem hlt]⟩

theorem dget_offs (f : Box ℝ → ℝ) (k i : Nat) (bs : List (Box ℝ)) :
    dget i (offs f k bs) = if k ≤ i then (bs[i - k]?).map f else none := by
  induction bs generalizing k with
  | nil => simp [offs, dget]
  | cons b bs ih =>
    simp only [offs, dget, ih]
    by_cases hki : k = i
    · subst hki; simp
    · rw [if_neg hki]
      by_cases hle : k ≤ i
      · have : i - k = (i - (k + 1)) + 1 := by omega
        rw [if_pos (by omega), if_pos hle, this]; simp
      · rw [if_neg (by omega), if_neg hle]

theorem dget_xDict (b : ModIn ℝ) (fixed : Bool) (i : Nat) :
    dget i (xDict b fixed) =
      if i = 0 then (if fixed then some b.trunk.x else none) else (b.branches[i - 1]?).map (fun q => q.x - b.trunk.x) := by
  unfold xDict
  cases fixed
  · simp only [Bool.false_eq_true, if_false, List.nil_append, dget_offs]
    by_cases hi : i = 0
    · subst hi; simp
    · rw [if_pos (by omega), if_neg hi]
  · simp only [if_true, List.cons_append, List.nil_append, dget, dget_offs]
    by_cases hi : i = 0
    · subst hi; simp
    · rw [if_neg (by omega), if_pos (by omega), if_neg hi]

theorem dget_yDict (b : ModIn ℝ) (fixed : Bool) (i : Nat) :
    dget i (yDict b fixed) =
      if i = 0 then (if fixed then some b.trunk.y else none) else (b.branches[i - 1]?).map (fun q => q.y - b.trunk.y) := by
  unfold yDict
  cases fixed
  · simp only [Bool.false_eq_true, if_false, List.nil_append, dget_offs]
    by_cases hi : i = 0
    · subst hi; simp
    · rw [if_pos (by omega), if_neg hi]
  · simp only [if_true, List.cons_append, List.nil_append, dget, dget_offs]
    by_cases hi : i = 0
    · subst hi; simp
    · rw [if_neg (by omega), if_pos (by omega), if_neg hi]

theorem dget_wDict (b : ModIn ℝ) (fixed : Bool) (i : Nat) :
    dget i (wDict b fixed) = if i = 0 then some b.trunk.w else (b.branches[i - 1]?).map (·.w) := by
  unfold wDict
  simp only [dget, dget_offs]
  by_cases hi : i = 0
  · subst hi; simp
  · rw [if_neg (by omega), if_pos (by omega), if_neg hi]

theorem dget_hDict (b : ModIn ℝ) (fixed : Bool) (i : Nat) :
    dget i (hDict b fixed) = if i = 0 then some b.trunk.h else (b.branches[i - 1]?).map (·.h) := by
  unfold hDict
  simp only [dget, dget_offs]
  by_cases hi : i = 0
  · subst hi; simp
  · rw [if_neg (by omega), if_pos (by omega), if_neg hi]

theorem dget_tables (f : ModIn ℝ → Bool → Dict ℝ) (k m : Nat) (mods : List (InModule ℝ)) :
    dget m (tables f k mods) =
      if k ≤ m then (mods[m - k]?).bind (fun M => if M.hard then some (f (split M.rects) M.fixed) else none)
      else none := by
  induction mods generalizing k with
  | nil => simp [tables, dget]
  | cons M Ms ih =>
    unfold tables
    by_cases hh : M.hard
    · simp only [hh, if_true, dget, ih]
      by_cases hkm : k = m
      · subst hkm; simp [hh]
      · rw [if_neg hkm]
        by_cases hle : k ≤ m
        · have : m - k = (m - (k + 1)) + 1 := by omega
          rw [if_pos (by omega), if_pos hle, this]; simp
        · rw [if_neg (by omega), if_neg hle]
    · simp only [hh, Bool.false_eq_true, if_false, ih]
      by_cases hkm : k = m
      · subst hkm; simp [hh]
      · by_cases hle : k ≤ m
        · have : m - k = (m - (k + 1)) + 1 := by omega
          rw [if_pos (by omega), if_pos hle, this]; simp
        · rw [if_neg (by omega), if_neg hle]


/-! ### the system, clause by clause (in the form the equations have) -/

/-- Bounds + Shapes of a box. -/
def RectRaw (P : Params ℝ) (q : Box ℝ) : Prop :=
  (0 ≤ q.x - 1 / 2 * q.w ∧ 0 ≤ q.y - 1 / 2 * q.h ∧ q.x + 1 / 2 * q.w ≤ P.dw ∧ q.y + 1 / 2 * q.h ≤ P.dh) ∧
  (q.w ≤ P.r * q.h ∧ q.h ≤ P.r * q.w)

/-- consecutive rectangles of side `s` (stable order of the original coordinate `key`) are disjoint
    along coordinate `k` (extent `e`). -/
def IntraSideRaw (c : Cfg) (m : Nat) (b : ModIn ℝ) (s : Loc) (k e : VK) (key : Box ℝ → ℝ) : Prop :=
  ∀ p ∈ pairs (sortBy (fun p => key p.2) (b.side s)),
    coord k (c m p.1.1) + 1 / 2 * coord e (c m p.1.1) ≤ coord k (c m p.2.1) - 1 / 2 * coord e (c m p.2.1)

def IntraRaw (c : Cfg) (m : Nat) (b : ModIn ℝ) : Prop :=
  IntraSideRaw c m b .north .x .w (·.x) ∧ IntraSideRaw c m b .south .x .w (·.x) ∧
  IntraSideRaw c m b .east .y .h (·.y) ∧ IntraSideRaw c m b .west .y .h (·.y)

theorem intraEqs_iff (c : Cfg) (m : Nat) (b : ModIn ℝ) :
    (∀ e ∈ intraEqs m b, Holds c e) ↔ IntraRaw c m b := by
  unfold intraEqs IntraRaw IntraSideRaw
  simp only [List.mem_append, or_imp, forall_and, intraSide_iff, and_assoc]

theorem macroEqs_iff (P : Params ℝ) (c : Cfg) (m : Nat) (b : ModIn ℝ) (hr : 1 ≤ P.r)
    (hpos : ∀ i < b.c, 0 < (c m i).w ∧ 0 < (c m i).h) :
    (∀ e ∈ macroEqs P m b, Holds c e) ↔
      (∀ i < b.c, RectRaw P (c m i)) ∧ (∀ i s q, (i, s, q) ∈ b.sided → AttachRaw s (c m 0) (c m i)) ∧
      IntraRaw c m b := by
  unfold macroEqs moduleRectEqs
  simp only [List.mem_append, or_imp, forall_and, intraEqs_iff, List.mem_flatMap, forall_exists_index, and_imp,
    Prod.forall]
  have h0 : 0 < b.c := by unfold ModIn.c; omega
  constructor
  · rintro ⟨⟨hr0, hbr⟩, hin⟩
    refine ⟨?_, ?_, hin⟩
    · intro i hi
      by_cases hi0 : i = 0
      · subst hi0; exact (rectEqs_iff P c m 0 (hpos 0 h0).1 (hpos 0 h0).2 hr).mp hr0
      · obtain ⟨s, q, hs⟩ := sided_surj b i (by omega) hi
        exact (rectEqs_iff P c m i (hpos i hi).1 (hpos i hi).2 hr).mp
          (fun e he => hbr.1 e i s q hs he)
    · intro i s q hs
      exact (attachEqs_iff c s m i).mp (fun e he => hbr.2 e i s q hs he)
  · rintro ⟨hrect, hatt, hin⟩
    refine ⟨⟨(rectEqs_iff P c m 0 (hpos 0 h0).1 (hpos 0 h0).2 hr).mpr (hrect 0 h0), ?_⟩, hin⟩
    constructor
    · intro e i s q hs he
      have hi := (sided_range b i s q hs).2.1
      exact (rectEqs_iff P c m i (hpos i hi).1 (hpos i hi).2 hr).mpr (hrect i hi) e he
    · intro e i s q hs he
      exact (attachEqs_iff c s m i).mpr (hatt i s q hs) e he

/-- no-overlap equation of two boxes. -/
def InterRaw (tau : ℝ) (p q : Box ℝ) : Prop := 0 ≤ tX p q + tY p q ∨ tX p q * tY p q ≤ tau ^ 2

/-- what `Model.fix` pins for a hard / fixed module. -/
def FixRaw (c : Cfg) (m : Nat) (M : InModule ℝ) : Prop :=
  M.hard = true →
    ((M.fixed = true → (c m 0).x = (split M.rects).trunk.x ∧ (c m 0).y = (split M.rects).trunk.y) ∧
      (c m 0).w = (split M.rects).trunk.w ∧ (c m 0).h = (split M.rects).trunk.h) ∧
    (∀ i q, 1 ≤ i → (split M.rects).branches[i - 1]? = some q →
      (c m i).x = q.x - (split M.rects).trunk.x + (c m 0).x ∧
      (c m i).y = q.y - (split M.rects).trunk.y + (c m 0).y ∧ (c m i).w = q.w ∧ (c m i).h = q.h)

theorem fixModule_iff (c : Cfg) (m : Nat) (M : InModule ℝ) :
    (∀ i < (split M.rects).c, ∀ e ∈ fixRect m i
        (if M.hard then some (xDict (split M.rects) M.fixed) else none)
        (if M.hard then some (yDict (split M.rects) M.fixed) else none)
        (if M.hard then some (wDict (split M.rects) M.fixed) else none)
        (if M.hard then some (hDict (split M.rects) M.fixed) else none), Holds c e) ↔ FixRaw c m M := by
  unfold FixRaw
  by_cases hh : M.hard = true
  · simp only [hh, if_true, forall_const, fixRect_iff, Option.bind_some, dget_xDict, dget_yDict, dget_wDict,
      dget_hDict]
    have h0 : 0 < (split M.rects).c := by unfold ModIn.c; omega
    constructor
    · intro h
      refine ⟨?_, ?_⟩
      · have := h 0 h0
        simp only [if_true, ne_eq, not_true_eq_false, false_and, if_false, zero_add, Option.some.injEq,
          forall_eq'] at this
        obtain ⟨hx, hy, hw, hh'⟩ := this
        refine ⟨fun hf => ⟨?_, ?_⟩, hw, hh'⟩
        · exact hx _ (by simp [hf])
        · exact hy _ (by simp [hf])
      · intro i q hi hq
        have hlt : i < (split M.rects).c := by
          unfold ModIn.c
          have : i - 1 < (split M.rects).branches.length := by
            by_contra hc; rw [List.getElem?_eq_none (by omega)] at hq; cases hq
          omega
        have := h i hlt
        have hi0 : i ≠ 0 := by omega
        simp only [hi0, if_false, hq, Option.map_some, ne_eq, not_false_eq_true, if_true, Option.isSome_some,
          and_self, zero_add, Option.some.injEq, forall_eq'] at this
        exact this
    · rintro ⟨⟨hfx, hw, hh'⟩, hbr⟩ i hi
      by_cases hi0 : i = 0
      · subst hi0
        simp only [if_true, ne_eq, not_true_eq_false, false_and, if_false, zero_add, Option.some.injEq, forall_eq']
        refine ⟨?_, ?_, hw, hh'⟩
        · intro t ht
          by_cases hf : M.fixed = true
          · simp only [hf, if_true, Option.some.injEq] at ht; rw [← ht]; exact (hfx hf).1
          · simp [hf] at ht
        · intro t ht
          by_cases hf : M.fixed = true
          · simp only [hf, if_true, Option.some.injEq] at ht; rw [← ht]; exact (hfx hf).2
          · simp [hf] at ht
      · have hlt : i - 1 < (split M.rects).branches.length := by unfold ModIn.c at hi; omega
        have hq := List.getElem?_eq_getElem hlt
        have := hbr i _ (by omega) hq
        simp only [hi0, if_false, hq, Option.map_some, ne_eq, not_false_eq_true, if_true, Option.isSome_some,
          and_self, zero_add, Option.some.injEq, forall_eq']
        exact this
  · simp only [hh, Bool.false_eq_true, if_false, false_imp_iff, iff_true]
    intro i hi e he
    simp [fixRect] at he


/-! ### the whole system -/

/-- the system, read equation by equation. -/
def RawLegal (P : Params ℝ) (mods : List (InModule ℝ)) (c : Cfg) : Prop :=
  (∀ m M, mods[m]? = some M →
      ((∀ i < (split M.rects).c, RectRaw P (c m i)) ∧
        (∀ i s q, (i, s, q) ∈ (split M.rects).sided → AttachRaw s (c m 0) (c m i)) ∧
        IntraRaw c m (split M.rects)) ∧
      M.area ≤ areaSum c m (split M.rects).c ∧
      FixRaw c m M) ∧
  (∀ m n Mm Mn, m < n → mods[m]? = some Mm → mods[n]? = some Mn →
      ∀ i < (split Mm.rects).c, ∀ j < (split Mn.rects).c, InterRaw (tauV P mods.length) (c m i) (c n j))

/-- all rectangle sizes of the configuration are positive. -/
def Pos (mods : List (InModule ℝ)) (c : Cfg) : Prop :=
  ∀ m M, mods[m]? = some M → ∀ i < (split M.rects).c, 0 < (c m i).w ∧ 0 < (c m i).h

theorem mem_idxFrom_map {β γ : Type} (l : List β) (f : β → γ) (i : Nat) (y : γ) :
    (i, y) ∈ idxFrom 0 (l.map f) ↔ ∃ x, l[i]? = some x ∧ f x = y := by
  rw [mem_idxFrom]; simp [List.getElem?_map]

theorem macroPart_iff (P : Params ℝ) (mods : List (InModule ℝ)) (c : Cfg) :
    (∀ e ∈ (idxFrom 0 (mods.map fun M => split M.rects)).flatMap (fun (m, b) => macroEqs P m b), Holds c e) ↔
      ∀ m M, mods[m]? = some M → ∀ e ∈ macroEqs P m (split M.rects), Holds c e := by
  simp only [List.mem_flatMap, Prod.exists, forall_exists_index, and_imp, mem_idxFrom_map]
  constructor
  · intro h m M hM e he; exact h e m _ M hM rfl he
  · intro h e m b M hM hb he; subst hb; exact h m M hM e he

theorem areaPart_iff (mods : List (InModule ℝ)) (c : Cfg) (U : Utils ℝ)
    (hml : U.ml = mods.map fun M => split M.rects) (hal : U.al = mods.map fun M => M.area) :
    (∀ e ∈ areaEqs U, Holds c e) ↔
      ∀ m M, mods[m]? = some M → M.area ≤ areaSum c m (split M.rects).c := by
  unfold areaEqs
  simp only [hml, hal, List.zip_map', List.mem_map, Prod.exists, forall_exists_index, and_imp, mem_idxFrom_map]
  constructor
  · intro h m M hM
    have := h _ m _ _ M hM rfl rfl
    rwa [areaEq_iff] at this
  · intro h e m b a M hM hba he
    cases hba; subst he
    rw [areaEq_iff]; exact h m M hM

theorem interPart_iff (P : Params ℝ) (mods : List (InModule ℝ)) (c : Cfg) (U : Utils ℝ)
    (hml : U.ml = mods.map fun M => split M.rects) :
    (∀ e ∈ interEqs P U, Holds c e) ↔
      ∀ m n Mm Mn, m < n → mods[m]? = some Mm → mods[n]? = some Mn →
        ∀ i < (split Mm.rects).c, ∀ j < (split Mn.rects).c, InterRaw (tauV P mods.length) (c m i) (c n j) := by
  unfold interEqs
  simp only [hml, List.map_map, List.length_map, List.mem_flatMap, List.mem_filter, List.mem_map, List.mem_range,
    Prod.exists, forall_exists_index, and_imp, mem_idxFrom_map, decide_eq_true_eq, Function.comp_apply]
  constructor
  · intro h m n Mm Mn hmn hMm hMn i hi j hj
    have := h _ m _ Mm hMm rfl n _ Mn hMn rfl hmn i hi j hj rfl
    rwa [interEq_iff] at this
  · intro h e m cm Mm hMm hcm n cn Mn hMn hcn hmn i hi j hj he
    subst hcm hcn he
    rw [interEq_iff]; exact h m n Mm Mn hmn hMm hMn i hi j hj

theorem fixPart_iff (mods : List (InModule ℝ)) (c : Cfg) (U : Utils ℝ)
    (hml : U.ml = mods.map fun M => split M.rects)
    (hx : U.xl = tables xDict 0 mods) (hy : U.yl = tables yDict 0 mods)
    (hw : U.wl = tables wDict 0 mods) (hh : U.hl = tables hDict 0 mods) :
    (∀ e ∈ fixEqs U, Holds c e) ↔ ∀ m M, mods[m]? = some M → FixRaw c m M := by
  unfold fixEqs
  simp only [hml, hx, hy, hw, hh, List.map_map, List.mem_flatMap, List.mem_range, Prod.exists, forall_exists_index,
    and_imp, mem_idxFrom_map, Function.comp_apply, dget_tables, Nat.zero_le, if_true, Nat.sub_zero]
  constructor
  · intro h m M hM
    rw [← fixModule_iff]
    intro i hi e he
    refine h e m _ M hM rfl i hi ?_
    simpa only [hM, Option.bind_some] using he
  · intro h e m cm M hM hcm i hi he
    subst hcm
    have := (fixModule_iff c m M).mpr (h m M hM) i hi e
    apply this
    simpa only [hM, Option.bind_some] using he

theorem gen_iff (P : Params ℝ) (mods : List (InModule ℝ)) (U : Utils ℝ) (es : List (Eqn ℝ)) (c : Cfg)
    (hU : netlistToUtils mods = .ok U) (hg : gen P U = .ok es) (hr : 1 ≤ P.r) (hpos : Pos mods c) :
    (∀ e ∈ es, Holds c e) ↔ RawLegal P mods c := by
  unfold netlistToUtils at hU
  split at hU
  · cases hU
  · injection hU with hU
    unfold gen at hg
    split at hg
    · cases hg
    · injection hg with hg
      subst hg
      have hml : U.ml = mods.map fun M => split M.rects := by rw [← hU]
      have hal : U.al = mods.map fun M => M.area := by rw [← hU]
      simp only [List.mem_append, or_imp, forall_and]
      rw [interPart_iff P mods c U hml, fixPart_iff mods c U hml (by rw [← hU]) (by rw [← hU]) (by rw [← hU]) (by rw [← hU])]
      have hA := macroPart_iff P mods c
      rw [areaPart_iff mods c U hml hal, hml, hA]
      unfold RawLegal
      constructor
      · rintro ⟨⟨⟨h1, h2⟩, h3⟩, h4⟩
        refine ⟨fun m M hM => ⟨?_, h2 m M hM, h4 m M hM⟩, h3⟩
        exact (macroEqs_iff P c m _ hr (hpos m M hM)).mp (h1 m M hM)
      · rintro ⟨h1, h3⟩
        refine ⟨⟨⟨fun m M hM => ?_, fun m M hM => (h1 m M hM).2.1⟩, h3⟩, fun m M hM => (h1 m M hM).2.2⟩
        exact (macroEqs_iff P c m _ hr (hpos m M hM)).mpr (h1 m M hM).1


/-! ### the stable sort and chains -/

theorem mem_insBy {β : Type} (key : β → ℝ) (a x : β) (l : List β) : x ∈ insBy key a l ↔ x = a ∨ x ∈ l := by
  induction l with
  | nil => simp [insBy]
  | cons b bs ih =>
    unfold insBy
    split
    · simp
    · simp only [List.mem_cons, ih]; tauto

theorem mem_foldl_insBy {β : Type} (key : β → ℝ) (x : β) (l acc : List β) :
    x ∈ l.foldl (fun acc a => insBy key a acc) acc ↔ x ∈ acc ∨ x ∈ l := by
  induction l generalizing acc with
  | nil => simp
  | cons a l ih => simp only [List.foldl_cons, ih, mem_insBy, List.mem_cons]; tauto

/-- sorting neither loses nor invents elements. -/
theorem mem_sortBy {β : Type} (key : β → ℝ) (x : β) (l : List β) : x ∈ sortBy key l ↔ x ∈ l := by
  unfold sortBy; rw [mem_foldl_insBy]; simp

theorem insBy_perm {β : Type} (key : β → ℝ) (a : β) (l : List β) : (insBy key a l).Perm (a :: l) := by
  induction l with
  | nil => simp [insBy]
  | cons b bs ih =>
    unfold insBy
    split
    · exact List.Perm.refl _
    · exact (List.Perm.cons b ih).trans (List.Perm.swap a b bs)

theorem foldl_insBy_perm {β : Type} (key : β → ℝ) (l acc : List β) :
    (l.foldl (fun acc a => insBy key a acc) acc).Perm (acc ++ l) := by
  induction l generalizing acc with
  | nil => simp
  | cons a l ih =>
    simp only [List.foldl_cons]
    refine (ih _).trans ?_
    refine ((insBy_perm key a acc).append_right l).trans ?_
    simp only [List.cons_append]
    exact (List.perm_middle).symm

/-- the result of the sort is a permutation of its input … -/
theorem sortBy_perm {β : Type} (key : β → ℝ) (l : List β) : (sortBy key l).Perm l := by
  unfold sortBy; simpa using foldl_insBy_perm key l []

theorem insBy_sorted {β : Type} (key : β → ℝ) (a : β) (l : List β)
    (h : l.Pairwise fun p q => key p ≤ key q) : (insBy key a l).Pairwise fun p q => key p ≤ key q := by
  induction l with
  | nil => simp [insBy]
  | cons b bs ih =>
    unfold insBy
    rw [List.pairwise_cons] at h
    split
    · rename_i hab
      refine List.pairwise_cons.mpr ⟨?_, List.pairwise_cons.mpr h⟩
      intro x hx
      rcases List.mem_cons.mp hx with rfl | hx
      · exact le_of_lt hab
      · exact le_trans (le_of_lt hab) (h.1 x hx)
    · rename_i hab
      refine List.pairwise_cons.mpr ⟨?_, ih h.2⟩
      intro x hx
      rcases (mem_insBy key a x bs).mp hx with rfl | hx
      · exact not_lt.mp hab
      · exact h.1 x hx

theorem foldl_insBy_sorted {β : Type} (key : β → ℝ) (l acc : List β)
    (h : acc.Pairwise fun p q => key p ≤ key q) :
    (l.foldl (fun acc a => insBy key a acc) acc).Pairwise fun p q => key p ≤ key q := by
  induction l generalizing acc with
  | nil => simpa
  | cons a l ih => exact ih _ (insBy_sorted key a acc h)

/-- … in non-decreasing order of the key. -/
theorem sortBy_sorted {β : Type} (key : β → ℝ) (l : List β) :
    (sortBy key l).Pairwise fun p q => key p ≤ key q := by
  unfold sortBy; exact foldl_insBy_sorted key l [] List.Pairwise.nil

/-- consecutive pairs suffice for "every earlier one ends before every later one begins" when no
    extent is negative. -/
theorem pairs_iff_pairwise {β : Type} (lo hi : β → ℝ) (L : List β) (hpos : ∀ x ∈ L, lo x ≤ hi x) :
    (∀ p ∈ pairs L, hi p.1 ≤ lo p.2) ↔ L.Pairwise fun p q => hi p ≤ lo q := by
  induction L with
  | nil => simp [pairs]
  | cons a t ih =>
    cases t with
    | nil => simp [pairs]
    | cons b t =>
      have ih' := ih (fun x hx => hpos x (List.mem_cons_of_mem _ hx))
      simp only [pairs, List.mem_cons, forall_eq_or_imp] at ih' ⊢
      constructor
      · rintro ⟨hab, hrest⟩
        have hp := ih'.mp hrest
        refine List.pairwise_cons.mpr ⟨?_, hp⟩
        intro x hx
        rcases List.mem_cons.mp hx with rfl | hx
        · exact hab
        · have h1 := (List.pairwise_cons.mp hp).1 x hx
          have h2 := hpos b (by simp)
          linarith
      · intro h
        have := List.pairwise_cons.mp h
        exact ⟨this.1 b (by simp), ih'.mpr this.2⟩

theorem mem_side (b : ModIn ℝ) (s : Loc) (i : Nat) (q : Box ℝ) (h : (i, q) ∈ b.side s) : (i, s, q) ∈ b.sided := by
  unfold ModIn.side at h
  simp only [List.mem_map, List.mem_filter, Prod.exists, Prod.mk.injEq] at h
  obtain ⟨i', s', q', ⟨hm, hs⟩, rfl, rfl⟩ := h
  have : s' = s := by simpa using hs
  subst this; exact hm


/-- `netlist_to_utils` succeeds only if every fixed module is hard. -/
theorem utils_ok_fixed_hard (mods : List (InModule ℝ)) (U : Utils ℝ) (hU : netlistToUtils mods = .ok U)
    (m : Nat) (M : InModule ℝ) (hM : mods[m]? = some M) (hf : M.fixed = true) : M.hard = true := by
  unfold netlistToUtils at hU
  split at hU
  · cases hU
  · rename_i h
    by_contra hh
    apply h
    rw [List.any_eq_true]
    exact ⟨M, List.mem_of_getElem? hM, by simp [hf, hh]⟩

/-- `Model(...)` builds its equations whenever `netlist_to_utils` succeeds on at least one module. -/
theorem gen_ok (P : Params ℝ) (mods : List (InModule ℝ)) (hne : mods ≠ [])
    (hfh : ∀ M ∈ mods, M.fixed = true → M.hard = true) :
    ∃ U es, netlistToUtils mods = .ok U ∧ gen P U = .ok es := by
  have h1 : (mods.any fun m => m.fixed && !m.hard) = false := by
    rw [List.any_eq_false]
    intro M hM
    by_cases hf : M.fixed = true
    · simp [hf, hfh M hM hf]
    · simp [hf]
  unfold netlistToUtils
  rw [h1]
  simp only [Bool.false_eq_true, if_false]
  refine ⟨_, ?_, rfl, ?_⟩
  rotate_left
  · unfold gen
    rw [if_neg (by simpa using hne)]


/-! ### roles → lists -/

theorem foldl_placeRect_lists (rs : List (InRect ℝ)) (st : ModIn ℝ × Bool) (h : ∀ r ∈ rs, r.loc ≠ .nopoly) :
    (rs.foldl placeRect st).1.N = st.1.N ++ (rs.filter (fun r => r.loc == .north)).map (·.box) ∧
    (rs.foldl placeRect st).1.S = st.1.S ++ (rs.filter (fun r => r.loc == .south)).map (·.box) ∧
    (rs.foldl placeRect st).1.E = st.1.E ++ (rs.filter (fun r => r.loc == .east)).map (·.box) ∧
    (rs.foldl placeRect st).1.W = st.1.W ++ (rs.filter (fun r => r.loc == .west)).map (·.box) := by
  induction rs generalizing st with
  | nil => simp
  | cons r rs ih =>
    have hr := h r (by simp)
    have ih' := ih (placeRect st r) (fun x hx => h x (List.mem_cons_of_mem _ hx))
    simp only [List.foldl_cons]
    rw [ih'.1, ih'.2.1, ih'.2.2.1, ih'.2.2.2]
    cases hl : r.loc <;> simp_all [placeRect]


/-! ## General slack: what `is_equation_met()` computes

`Met c e t q` is `q.is_equation_met()` with the global slack `epsilon.evaluate() = e` and the constant
`1e-6` of the code abstracted to `t`.  `Holds = Met · 0 0`.  Every clause is relaxed by `e + t`. -/

/-- `is_equation_met()` returns `True` (both sides evaluate). -/
def Met (c : Cfg) (e t : ℝ) (q : Eqn ℝ) : Prop := q.met realFns (env c) e t = some true

theorem holds_iff_met (c : Cfg) (q : Eqn ℝ) : Holds c q ↔ Met c 0 0 q := Iff.rfl

theorem met_ge (c : Cfg) (e t : ℝ) (g n : String) (l r : Expr ℝ) (x y : ℝ) (hl : l.eval realFns (env c) = some x)
    (hr : r.eval realFns (env c) = some y) : Met c e t ⟨g, n, l, .ge, r, false⟩ ↔ y - e - t ≤ x := by
  simp [Met, Eqn.met, hl, hr]
theorem met_le (c : Cfg) (e t : ℝ) (g n : String) (l r : Expr ℝ) (x y : ℝ) (hl : l.eval realFns (env c) = some x)
    (hr : r.eval realFns (env c) = some y) : Met c e t ⟨g, n, l, .le, r, false⟩ ↔ x ≤ y + e + t := by
  simp [Met, Eqn.met, hl, hr]
theorem met_eq (c : Cfg) (e t : ℝ) (g n : String) (l r : Expr ℝ) (x y : ℝ) (hl : l.eval realFns (env c) = some x)
    (hr : r.eval realFns (env c) = some y) :
    Met c e t ⟨g, n, l, .eq, r, false⟩ ↔ y - e - t ≤ x ∧ x ≤ y + e + t := by
  simp [Met, Eqn.met, hl, hr]

theorem metP_ge (c : Cfg) (e t : ℝ) (g n : String) (l r : Expr ℝ) (hl : isPoly l = true) (hr : isPoly r = true) :
    Met c e t ⟨g, n, l, .ge, r, false⟩ ↔ evalP c r - e - t ≤ evalP c l :=
  met_ge c e t g n l r _ _ (eval_poly c l hl) (eval_poly c r hr)
theorem metP_le (c : Cfg) (e t : ℝ) (g n : String) (l r : Expr ℝ) (hl : isPoly l = true) (hr : isPoly r = true) :
    Met c e t ⟨g, n, l, .le, r, false⟩ ↔ evalP c l ≤ evalP c r + e + t :=
  met_le c e t g n l r _ _ (eval_poly c l hl) (eval_poly c r hr)
theorem metP_eq (c : Cfg) (e t : ℝ) (g n : String) (l r : Expr ℝ) (hl : isPoly l = true) (hr : isPoly r = true) :
    Met c e t ⟨g, n, l, .eq, r, false⟩ ↔ evalP c r - e - t ≤ evalP c l ∧ evalP c l ≤ evalP c r + e + t :=
  met_eq c e t g n l r _ _ (eval_poly c l hl) (eval_poly c r hr)

/-- more slack / a larger tolerance never turns a met equation into an unmet one (any equation, hard or not). -/
theorem met_mono (c : Cfg) (e e' t t' : ℝ) (he : e ≤ e') (ht : t ≤ t') (h0 : 0 ≤ t) (q : Eqn ℝ)
    (h : Met c e t q) : Met c e' t' q := by
  unfold Met Eqn.met at h ⊢
  cases hl : q.lhs.eval realFns (env c) with
  | none => simp [hl] at h
  | some x =>
    cases hr : q.rhs.eval realFns (env c) with
    | none => simp [hl, hr] at h
    | some y =>
      cases hc : q.cmp <;> cases hh : q.hard <;> simp [hl, hr, hc, hh] at h ⊢ <;>
        first
        | linarith
        | exact ⟨by linarith [h.1], by linarith [h.2]⟩

/-- in particular everything that holds exactly is reported as met by `is_equation_met()`. -/
theorem met_of_holds (c : Cfg) (e t : ℝ) (he : 0 ≤ e) (ht : 0 ≤ t) (q : Eqn ℝ) (h : Holds c q) : Met c e t q :=
  met_mono c 0 e 0 t he ht (le_refl _) q h

/-! ### each kind of equation, with slack -/

theorem rectEqs_met_iff (P : Params ℝ) (c : Cfg) (e t : ℝ) (m i : Nat) (hw : 0 < (c m i).w) (hh : 0 < (c m i).h) :
    (∀ q ∈ rectEqs P m i, Met c e t q) ↔
      (0 - e - t ≤ (c m i).x - 1 / 2 * (c m i).w ∧ 0 - e - t ≤ (c m i).y - 1 / 2 * (c m i).h ∧
        (c m i).x + 1 / 2 * (c m i).w ≤ P.dw + e + t ∧ (c m i).y + 1 / 2 * (c m i).h ≤ P.dh + e + t) ∧
      thinV P.r 1 * 10 - e - t ≤ thinV (c m i).w (c m i).h * 10 := by
  unfold rectEqs
  simp only [List.mem_cons, List.not_mem_nil, or_false, forall_eq_or_imp, forall_eq]
  rw [met_ge c e t _ _ _ _ ((c m i).x - 1 / 2 * (c m i).w) 0
        (by simp [eval_sub', eval_mul', Expr.eval, v, hlf, env]) (by simp),
      met_ge c e t _ _ _ _ ((c m i).y - 1 / 2 * (c m i).h) 0
        (by simp [eval_sub', eval_mul', Expr.eval, v, hlf, env]) (by simp),
      met_le c e t _ _ _ _ ((c m i).x + 1 / 2 * (c m i).w) P.dw
        (by simp [eval_add', eval_mul', Expr.eval, v, hlf, env]) (by simp),
      met_le c e t _ _ _ _ ((c m i).y + 1 / 2 * (c m i).h) P.dh
        (by simp [eval_add', eval_mul', Expr.eval, v, hlf, env]) (by simp),
      met_ge c e t _ _ _ _ (thinV (c m i).w (c m i).h * 10) (thinV P.r 1 * 10)
        (by rw [eval_mul']; exact eval_mul c _ _ _ _ (thinE_eval c m i hw hh) (by simp))
        (by simp [Expr.mul'])]
  tauto

/-- the attachment equations, each relaxed by `e + t` (the equality on both sides). -/
def AttachRawS (e t : ℝ) : Loc → Box ℝ → Box ℝ → Prop
  | .north, tr, b => (tr.y + 1 / 2 * tr.h + 1 / 2 * b.h - e - t ≤ b.y ∧ b.y ≤ tr.y + 1 / 2 * tr.h + 1 / 2 * b.h + e + t) ∧
      tr.x - 1 / 2 * tr.w + 1 / 2 * b.w - e - t ≤ b.x ∧ b.x ≤ tr.x + 1 / 2 * tr.w - 1 / 2 * b.w + e + t
  | .south, tr, b => (tr.y - 1 / 2 * tr.h - 1 / 2 * b.h - e - t ≤ b.y ∧ b.y ≤ tr.y - 1 / 2 * tr.h - 1 / 2 * b.h + e + t) ∧
      tr.x - 1 / 2 * tr.w + 1 / 2 * b.w - e - t ≤ b.x ∧ b.x ≤ tr.x + 1 / 2 * tr.w - 1 / 2 * b.w + e + t
  | .east, tr, b => (tr.x + 1 / 2 * tr.w + 1 / 2 * b.w - e - t ≤ b.x ∧ b.x ≤ tr.x + 1 / 2 * tr.w + 1 / 2 * b.w + e + t) ∧
      tr.y - 1 / 2 * tr.h + 1 / 2 * b.h - e - t ≤ b.y ∧ b.y ≤ tr.y + 1 / 2 * tr.h - 1 / 2 * b.h + e + t
  | .west, tr, b => (tr.x - 1 / 2 * tr.w - 1 / 2 * b.w - e - t ≤ b.x ∧ b.x ≤ tr.x - 1 / 2 * tr.w - 1 / 2 * b.w + e + t) ∧
      tr.y - 1 / 2 * tr.h + 1 / 2 * b.h - e - t ≤ b.y ∧ b.y ≤ tr.y + 1 / 2 * tr.h - 1 / 2 * b.h + e + t
  | _, _, _ => True

theorem attachEqs_met_iff (c : Cfg) (e t : ℝ) (side : Loc) (m i : Nat) :
    (∀ q ∈ attachEqs side m i, Met c e t q) ↔ AttachRawS e t side (c m 0) (c m i) := by
  cases side <;> unfold attachEqs AttachRawS <;>
    simp only [List.mem_cons, List.not_mem_nil, or_false, forall_eq_or_imp, forall_eq, false_imp_iff]
  all_goals
    first
    | (rw [metP_eq c e t _ _ _ _ rfl rfl, metP_ge c e t _ _ _ _ rfl rfl, metP_le c e t _ _ _ _ rfl rfl]
       simp only [evalP, Expr.add', Expr.sub', Expr.mul', v, hlf, env, half_eq])
    | simp

theorem intraSide_met_iff (c : Cfg) (e t : ℝ) (m : Nat) (b : ModIn ℝ) (s : Loc) (k x : VK) (key : Box ℝ → ℝ) (nm : String) :
    (∀ q ∈ intraSide m b s k x key nm, Met c e t q) ↔
      ∀ p ∈ pairs (sortBy (fun p => key p.2) (b.side s)),
        coord k (c m p.1.1) + 1 / 2 * coord x (c m p.1.1) ≤ coord k (c m p.2.1) - 1 / 2 * coord x (c m p.2.1) + e + t := by
  unfold intraSide
  simp only [List.mem_map, forall_exists_index, and_imp, Prod.forall]
  constructor
  · intro h a1 a2 b1 b2 hp
    obtain ⟨i, hi⟩ := exists_idx_of_mem _ 0 _ hp
    have := h _ i _ _ _ _ hi rfl
    rw [metP_le c e t _ _ _ _ rfl rfl] at this
    simpa only [evalP, Expr.add', Expr.sub', Expr.mul', v, hlf, env_coord, half_eq] using this
  · intro h q i a1 a2 b1 b2 hi hq
    subst hq
    rw [metP_le c e t _ _ _ _ rfl rfl]
    simp only [evalP, Expr.add', Expr.sub', Expr.mul', v, hlf, env_coord, half_eq]
    exact h _ _ _ _ (mem_of_mem_idxFrom _ _ _ _ hi)

theorem areaEq_met_iff (c : Cfg) (e t : ℝ) (m n : Nat) (a : ℝ) (nm : String) :
    Met c e t ⟨"Area", nm, areaExpr m n, .ge, .cst a, false⟩ ↔ a - e - t ≤ areaSum c m n :=
  met_ge c e t _ _ _ _ _ _ (areaExpr_eval c m n) (by simp)

/-- shifting both arguments of the smooth maximum shifts its value. -/
theorem smax_shift (x y tau d : ℝ) :
    1 / 2 * ((x + d) + (y + d) + √(((x + d) - (y + d)) ^ 2 + 4 * tau * tau)) =
      1 / 2 * (x + y + √((x - y) ^ 2 + 4 * tau * tau)) + d := by
  rw [show (x + d) - (y + d) = x - y by ring]; ring


/-! ### `Model.fix` and the no-overlap equation, with slack -/

/-- `a` is within `e + t` of `T`. -/
def Near (e t a T : ℝ) : Prop := T - e - t ≤ a ∧ a ≤ T + e + t

theorem fixRect_met_iff (c : Cfg) (e t : ℝ) (m i : Nat) (xd yd wd hd : Option (Dict ℝ)) :
    (∀ q ∈ fixRect m i xd yd wd hd, Met c e t q) ↔
      (∀ u, xd.bind (dget i) = some u → Near e t (c m i).x (if i ≠ 0 then 0 + u + (c m 0).x else 0 + u)) ∧
      (∀ u, yd.bind (dget i) = some u →
        Near e t (c m i).y (if i ≠ 0 ∧ (xd.bind (dget i)).isSome then 0 + u + (c m 0).y else 0 + u)) ∧
      (∀ u, wd.bind (dget i) = some u → Near e t (c m i).w (0 + u)) ∧
      (∀ u, hd.bind (dget i) = some u → Near e t (c m i).h (0 + u)) := by
  unfold fixRect
  simp only [List.mem_append, or_imp, forall_and]
  rw [and_assoc, and_assoc]
  refine and_congr ?_ (and_congr ?_ (and_congr ?_ ?_))
  · cases hx : xd.bind (dget i) with
    | none => simp
    | some t0 =>
      by_cases hi : i = 0
      · subst hi
        simp only [Option.isSome_some, if_true, List.mem_cons, List.not_mem_nil, or_false, forall_eq, ne_eq,
          not_true_eq_false, decide_false, Bool.false_and, Bool.false_eq_true, if_false, Option.some.injEq]
        rw [metP_eq c e t _ _ _ _ rfl rfl]
        simp [evalP, Expr.add', v, env, Near]
      · simp only [Option.isSome_some, if_true, List.mem_cons, List.not_mem_nil, or_false, forall_eq, ne_eq, hi,
          not_false_eq_true, decide_true, Bool.and_self, Option.some.injEq]
        rw [metP_eq c e t _ _ _ _ rfl rfl]
        simp [evalP, Expr.add', v, env, Near]
  · cases hy : yd.bind (dget i) with
    | none => simp
    | some t0 =>
      cases hx : xd.bind (dget i) with
      | none =>
        simp only [Option.isSome_some, Option.isSome_none, if_true, List.mem_cons, List.not_mem_nil, or_false,
          forall_eq, Bool.and_false, Bool.false_eq_true, if_false, and_false, Option.some.injEq]
        rw [metP_eq c e t _ _ _ _ rfl rfl]
        simp [evalP, Expr.add', v, env, Near]
      | some u =>
        by_cases hi : i = 0
        · subst hi
          simp only [Option.isSome_some, if_true, List.mem_cons, List.not_mem_nil, or_false, forall_eq, ne_eq,
            not_true_eq_false, decide_false, Bool.false_and, Bool.false_eq_true, if_false, false_and,
            Option.some.injEq]
          rw [metP_eq c e t _ _ _ _ rfl rfl]
          simp [evalP, Expr.add', v, env, Near]
        · simp only [Option.isSome_some, if_true, List.mem_cons, List.not_mem_nil, or_false, forall_eq, ne_eq, hi,
            not_false_eq_true, decide_true, Bool.and_self, and_self, Option.some.injEq]
          rw [metP_eq c e t _ _ _ _ rfl rfl]
          simp [evalP, Expr.add', v, env, Near]
  · cases hw : wd.bind (dget i) with
    | none => simp
    | some t0 =>
      simp only [Option.isSome_some, if_true, List.mem_cons, List.not_mem_nil, or_false, forall_eq, Option.some.injEq]
      rw [metP_eq c e t _ _ _ _ rfl rfl]
      simp [evalP, Expr.add', v, env, Near]
  · cases hh : hd.bind (dget i) with
    | none => simp
    | some t0 =>
      simp only [Option.isSome_some, if_true, List.mem_cons, List.not_mem_nil, or_false, forall_eq, Option.some.injEq]
      rw [metP_eq c e t _ _ _ _ rfl rfl]
      simp [evalP, Expr.add', v, env, Near]



/-- what `Model.fix` pins, each equation relaxed by `e + t`. -/
def FixRawS (c : Cfg) (e t : ℝ) (m : Nat) (M : InModule ℝ) : Prop :=
  M.hard = true →
    ((M.fixed = true → Near e t (c m 0).x (split M.rects).trunk.x ∧ Near e t (c m 0).y (split M.rects).trunk.y) ∧
      Near e t (c m 0).w (split M.rects).trunk.w ∧ Near e t (c m 0).h (split M.rects).trunk.h) ∧
    (∀ i q, 1 ≤ i → (split M.rects).branches[i - 1]? = some q →
      Near e t (c m i).x (q.x - (split M.rects).trunk.x + (c m 0).x) ∧
      Near e t (c m i).y (q.y - (split M.rects).trunk.y + (c m 0).y) ∧ Near e t (c m i).w q.w ∧ Near e t (c m i).h q.h)

theorem fixModule_met_iff (c : Cfg) (e t : ℝ) (m : Nat) (M : InModule ℝ) :
    (∀ i < (split M.rects).c, ∀ q ∈ fixRect m i
        (if M.hard then some (xDict (split M.rects) M.fixed) else none)
        (if M.hard then some (yDict (split M.rects) M.fixed) else none)
        (if M.hard then some (wDict (split M.rects) M.fixed) else none)
        (if M.hard then some (hDict (split M.rects) M.fixed) else none), Met c e t q) ↔ FixRawS c e t m M := by
  unfold FixRawS
  by_cases hh : M.hard = true
  · simp only [hh, if_true, forall_const, fixRect_met_iff, Option.bind_some, dget_xDict, dget_yDict, dget_wDict,
      dget_hDict]
    have h0 : 0 < (split M.rects).c := by unfold ModIn.c; omega
    constructor
    · intro h
      refine ⟨?_, ?_⟩
      · have := h 0 h0
        simp only [if_true, ne_eq, not_true_eq_false, false_and, if_false, zero_add, Option.some.injEq,
          forall_eq'] at this
        obtain ⟨hx, hy, hw, hh'⟩ := this
        refine ⟨fun hf => ⟨?_, ?_⟩, hw, hh'⟩
        · exact hx _ (by simp [hf])
        · exact hy _ (by simp [hf])
      · intro i q hi hq
        have hlt : i < (split M.rects).c := by
          unfold ModIn.c
          have : i - 1 < (split M.rects).branches.length := by
            by_contra hc; rw [List.getElem?_eq_none (by omega)] at hq; cases hq
          omega
        have := h i hlt
        have hi0 : i ≠ 0 := by omega
        simp only [hi0, if_false, hq, Option.map_some, ne_eq, not_false_eq_true, if_true, Option.isSome_some,
          and_self, zero_add, Option.some.injEq, forall_eq'] at this
        exact this
    · rintro ⟨⟨hfx, hw, hh'⟩, hbr⟩ i hi
      by_cases hi0 : i = 0
      · subst hi0
        simp only [if_true, ne_eq, not_true_eq_false, false_and, if_false, zero_add, Option.some.injEq, forall_eq']
        refine ⟨?_, ?_, hw, hh'⟩
        · intro t ht
          by_cases hf : M.fixed = true
          · simp only [hf, if_true, Option.some.injEq] at ht; rw [← ht]; exact (hfx hf).1
          · simp [hf] at ht
        · intro t ht
          by_cases hf : M.fixed = true
          · simp only [hf, if_true, Option.some.injEq] at ht; rw [← ht]; exact (hfx hf).2
          · simp [hf] at ht
      · have hlt : i - 1 < (split M.rects).branches.length := by unfold ModIn.c at hi; omega
        have hq := List.getElem?_eq_getElem hlt
        have := hbr i _ (by omega) hq
        simp only [hi0, if_false, hq, Option.map_some, ne_eq, not_false_eq_true, if_true, Option.isSome_some,
          and_self, zero_add, Option.some.injEq, forall_eq']
        exact this
  · simp only [hh, Bool.false_eq_true, if_false, false_imp_iff, iff_true]
    intro i hi q hq
    simp [fixRect] at hq



theorem interLhs_eval (c : Cfg) (tau : ℝ) (m i n j : Nat) :
    (interEq tau m i n j).lhs.eval realFns (env c) =
      some (1 / 2 * (tX (c m i) (c n j) + tY (c m i) (c n j) +
        √((tX (c m i) (c n j) - tY (c m i) (c n j)) ^ 2 + 4 * tau * tau))) := by
  unfold interEq
  have e1 : (Expr.sub' (.pow (Expr.sub' (v .x m i) (v .x n j)) (.cst two))
      (Expr.mul' (.cst quarter) (.pow (Expr.add' (v .w m i) (v .w n j)) (.cst two))) : Expr ℝ).eval realFns (env c)
      = some (tX (c m i) (c n j)) := by
    rw [eval_sub']
    refine eval_sub c _ _ _ _ (eval_sq c _ _ (by simp [Expr.sub', v, Expr.eval, env])) ?_
    rw [eval_mul']
    refine eval_mul c _ _ _ _ (by simp) (eval_sq c _ _ (by simp [Expr.add', v, Expr.eval, env]))
  have e2 : (Expr.sub' (.pow (Expr.sub' (v .y m i) (v .y n j)) (.cst two))
      (Expr.mul' (.cst quarter) (.pow (Expr.add' (v .h m i) (v .h n j)) (.cst two))) : Expr ℝ).eval realFns (env c)
      = some (tY (c m i) (c n j)) := by
    rw [eval_sub']
    refine eval_sub c _ _ _ _ (eval_sq c _ _ (by simp [Expr.sub', v, Expr.eval, env])) ?_
    rw [eval_mul']
    refine eval_mul c _ _ _ _ (by simp) (eval_sq c _ _ (by simp [Expr.add', v, Expr.eval, env]))
  have hs : 0 ≤ (tX (c m i) (c n j) - tY (c m i) (c n j)) ^ 2 + 4 * tau * tau := by
    nlinarith [sq_nonneg (tX (c m i) (c n j) - tY (c m i) (c n j)), sq_nonneg tau]
  simp only
  unfold smaxE
  rw [eval_mul']
  refine eval_mul c _ _ _ _ (by simp [hlf]) ?_
  rw [eval_add']
  refine eval_add c _ _ _ _ (by rw [eval_add']; exact eval_add c _ _ _ _ e1 e2) ?_
  refine eval_sqrt c _ _ ?_ hs
  rw [eval_add']
  refine eval_add c _ _ _ _ (eval_sq c _ _ (by rw [eval_sub']; exact eval_sub c _ _ _ _ e1 e2)) ?_
  simp [Expr.mul']

/-- the no-overlap equation with slack: both compared quantities are shifted by `e + t`. -/
def InterRawS (tau e t : ℝ) (p q : Box ℝ) : Prop :=
  0 ≤ (tX p q + (e + t)) + (tY p q + (e + t)) ∨ (tX p q + (e + t)) * (tY p q + (e + t)) ≤ tau ^ 2

theorem interEq_met_iff (c : Cfg) (tau e t : ℝ) (m i n j : Nat) :
    Met c e t (interEq tau m i n j) ↔ InterRawS tau e t (c m i) (c n j) := by
  unfold InterRawS
  rw [← smax_nonneg_iff_real, smax_shift]
  have h := interLhs_eval c tau m i n j
  have : interEq tau m i n j = ⟨"Inter", (interEq tau m i n j).name, (interEq tau m i n j).lhs, .ge, .cst zero, false⟩ := rfl
  rw [this, met_ge c e t _ _ _ _ _ 0 h (by simp)]
  constructor <;> intro h' <;> linarith


/-! ### the whole system with slack -/

theorem intraEqs_met_iff (c : Cfg) (e t : ℝ) (m : Nat) (b : ModIn ℝ) :
    (∀ q ∈ intraEqs m b, Met c e t q) ↔
      (∀ p ∈ pairs (sortBy (fun p => p.2.x) (b.side .north)),
        coord .x (c m p.1.1) + 1 / 2 * coord .w (c m p.1.1) ≤ coord .x (c m p.2.1) - 1 / 2 * coord .w (c m p.2.1) + e + t) ∧
      (∀ p ∈ pairs (sortBy (fun p => p.2.x) (b.side .south)),
        coord .x (c m p.1.1) + 1 / 2 * coord .w (c m p.1.1) ≤ coord .x (c m p.2.1) - 1 / 2 * coord .w (c m p.2.1) + e + t) ∧
      (∀ p ∈ pairs (sortBy (fun p => p.2.y) (b.side .east)),
        coord .y (c m p.1.1) + 1 / 2 * coord .h (c m p.1.1) ≤ coord .y (c m p.2.1) - 1 / 2 * coord .h (c m p.2.1) + e + t) ∧
      (∀ p ∈ pairs (sortBy (fun p => p.2.y) (b.side .west)),
        coord .y (c m p.1.1) + 1 / 2 * coord .h (c m p.1.1) ≤ coord .y (c m p.2.1) - 1 / 2 * coord .h (c m p.2.1) + e + t) := by
  unfold intraEqs
  simp only [List.mem_append, or_imp, forall_and, intraSide_met_iff, and_assoc]

/-- Bounds + Shapes of a box with slack. -/
def RectRawS (P : Params ℝ) (e t : ℝ) (q : Box ℝ) : Prop :=
  (0 - e - t ≤ q.x - 1 / 2 * q.w ∧ 0 - e - t ≤ q.y - 1 / 2 * q.h ∧
    q.x + 1 / 2 * q.w ≤ P.dw + e + t ∧ q.y + 1 / 2 * q.h ≤ P.dh + e + t) ∧
  thinV P.r 1 * 10 - e - t ≤ thinV q.w q.h * 10

def IntraRawS (c : Cfg) (e t : ℝ) (m : Nat) (b : ModIn ℝ) : Prop :=
  (∀ p ∈ pairs (sortBy (fun p => p.2.x) (b.side .north)),
    coord .x (c m p.1.1) + 1 / 2 * coord .w (c m p.1.1) ≤ coord .x (c m p.2.1) - 1 / 2 * coord .w (c m p.2.1) + e + t) ∧
  (∀ p ∈ pairs (sortBy (fun p => p.2.x) (b.side .south)),
    coord .x (c m p.1.1) + 1 / 2 * coord .w (c m p.1.1) ≤ coord .x (c m p.2.1) - 1 / 2 * coord .w (c m p.2.1) + e + t) ∧
  (∀ p ∈ pairs (sortBy (fun p => p.2.y) (b.side .east)),
    coord .y (c m p.1.1) + 1 / 2 * coord .h (c m p.1.1) ≤ coord .y (c m p.2.1) - 1 / 2 * coord .h (c m p.2.1) + e + t) ∧
  (∀ p ∈ pairs (sortBy (fun p => p.2.y) (b.side .west)),
    coord .y (c m p.1.1) + 1 / 2 * coord .h (c m p.1.1) ≤ coord .y (c m p.2.1) - 1 / 2 * coord .h (c m p.2.1) + e + t)

theorem macroEqs_met_iff (P : Params ℝ) (c : Cfg) (e t : ℝ) (m : Nat) (b : ModIn ℝ)
    (hpos : ∀ i < b.c, 0 < (c m i).w ∧ 0 < (c m i).h) :
    (∀ q ∈ macroEqs P m b, Met c e t q) ↔
      (∀ i < b.c, RectRawS P e t (c m i)) ∧ (∀ i s q, (i, s, q) ∈ b.sided → AttachRawS e t s (c m 0) (c m i)) ∧
      IntraRawS c e t m b := by
  unfold macroEqs moduleRectEqs IntraRawS
  simp only [List.mem_append, or_imp, forall_and, intraEqs_met_iff, List.mem_flatMap, forall_exists_index, and_imp,
    Prod.forall]
  have h0 : 0 < b.c := by unfold ModIn.c; omega
  constructor
  · rintro ⟨⟨hr0, hbr⟩, hin⟩
    refine ⟨?_, ?_, hin⟩
    · intro i hi
      by_cases hi0 : i = 0
      · subst hi0; exact (rectEqs_met_iff P c e t m 0 (hpos 0 h0).1 (hpos 0 h0).2).mp hr0
      · obtain ⟨s, q, hs⟩ := sided_surj b i (by omega) hi
        exact (rectEqs_met_iff P c e t m i (hpos i hi).1 (hpos i hi).2).mp
          (fun x hx => hbr.1 x i s q hs hx)
    · intro i s q hs
      exact (attachEqs_met_iff c e t s m i).mp (fun x hx => hbr.2 x i s q hs hx)
  · rintro ⟨hrect, hatt, hin⟩
    refine ⟨⟨(rectEqs_met_iff P c e t m 0 (hpos 0 h0).1 (hpos 0 h0).2).mpr (hrect 0 h0), ?_⟩, hin⟩
    constructor
    · intro x i s q hs hx
      have hi := (sided_range b i s q hs).2.1
      exact (rectEqs_met_iff P c e t m i (hpos i hi).1 (hpos i hi).2).mpr (hrect i hi) x hx
    · intro x i s q hs hx
      exact (attachEqs_met_iff c e t s m i).mpr (hatt i s q hs) x hx

/-- the system read equation by equation, every equation relaxed by `e + t`. -/
def RawLegalS (P : Params ℝ) (e t : ℝ) (mods : List (InModule ℝ)) (c : Cfg) : Prop :=
  (∀ m M, mods[m]? = some M →
      ((∀ i < (split M.rects).c, RectRawS P e t (c m i)) ∧
        (∀ i s q, (i, s, q) ∈ (split M.rects).sided → AttachRawS e t s (c m 0) (c m i)) ∧
        IntraRawS c e t m (split M.rects)) ∧
      M.area - e - t ≤ areaSum c m (split M.rects).c ∧
      FixRawS c e t m M) ∧
  (∀ m n Mm Mn, m < n → mods[m]? = some Mm → mods[n]? = some Mn →
      ∀ i < (split Mm.rects).c, ∀ j < (split Mn.rects).c, InterRawS (tauV P mods.length) e t (c m i) (c n j))

theorem macroPart_met_iff (P : Params ℝ) (mods : List (InModule ℝ)) (c : Cfg) (e t : ℝ) :
    (∀ q ∈ (idxFrom 0 (mods.map fun M => split M.rects)).flatMap (fun (m, b) => macroEqs P m b), Met c e t q) ↔
      ∀ m M, mods[m]? = some M → ∀ q ∈ macroEqs P m (split M.rects), Met c e t q := by
  simp only [List.mem_flatMap, Prod.exists, forall_exists_index, and_imp, mem_idxFrom_map]
  constructor
  · intro h m M hM q hq; exact h q m _ M hM rfl hq
  · intro h q m b M hM hb hq; subst hb; exact h m M hM q hq

theorem areaPart_met_iff (mods : List (InModule ℝ)) (c : Cfg) (e t : ℝ) (U : Utils ℝ)
    (hml : U.ml = mods.map fun M => split M.rects) (hal : U.al = mods.map fun M => M.area) :
    (∀ q ∈ areaEqs U, Met c e t q) ↔
      ∀ m M, mods[m]? = some M → M.area - e - t ≤ areaSum c m (split M.rects).c := by
  unfold areaEqs
  simp only [hml, hal, List.zip_map', List.mem_map, Prod.exists, forall_exists_index, and_imp, mem_idxFrom_map]
  constructor
  · intro h m M hM
    have := h _ m _ _ M hM rfl rfl
    rwa [areaEq_met_iff] at this
  · intro h q m b a M hM hba hq
    cases hba; subst hq
    rw [areaEq_met_iff]; exact h m M hM

theorem interPart_met_iff (P : Params ℝ) (mods : List (InModule ℝ)) (c : Cfg) (e t : ℝ) (U : Utils ℝ)
    (hml : U.ml = mods.map fun M => split M.rects) :
    (∀ q ∈ interEqs P U, Met c e t q) ↔
      ∀ m n Mm Mn, m < n → mods[m]? = some Mm → mods[n]? = some Mn →
        ∀ i < (split Mm.rects).c, ∀ j < (split Mn.rects).c, InterRawS (tauV P mods.length) e t (c m i) (c n j) := by
  unfold interEqs
  simp only [hml, List.map_map, List.length_map, List.mem_flatMap, List.mem_filter, List.mem_map, List.mem_range,
    Prod.exists, forall_exists_index, and_imp, mem_idxFrom_map, decide_eq_true_eq, Function.comp_apply]
  constructor
  · intro h m n Mm Mn hmn hMm hMn i hi j hj
    have := h _ m _ Mm hMm rfl n _ Mn hMn rfl hmn i hi j hj rfl
    rwa [interEq_met_iff] at this
  · intro h q m cm Mm hMm hcm n cn Mn hMn hcn hmn i hi j hj hq
    subst hcm hcn hq
    rw [interEq_met_iff]; exact h m n Mm Mn hmn hMm hMn i hi j hj

theorem fixPart_met_iff (mods : List (InModule ℝ)) (c : Cfg) (e t : ℝ) (U : Utils ℝ)
    (hml : U.ml = mods.map fun M => split M.rects)
    (hx : U.xl = tables xDict 0 mods) (hy : U.yl = tables yDict 0 mods)
    (hw : U.wl = tables wDict 0 mods) (hh : U.hl = tables hDict 0 mods) :
    (∀ q ∈ fixEqs U, Met c e t q) ↔ ∀ m M, mods[m]? = some M → FixRawS c e t m M := by
  unfold fixEqs
  simp only [hml, hx, hy, hw, hh, List.map_map, List.mem_flatMap, List.mem_range, Prod.exists, forall_exists_index,
    and_imp, mem_idxFrom_map, Function.comp_apply, dget_tables, Nat.zero_le, if_true, Nat.sub_zero]
  constructor
  · intro h m M hM
    rw [← fixModule_met_iff]
    intro i hi q hq
    refine h q m _ M hM rfl i hi ?_
    simpa only [hM, Option.bind_some] using hq
  · intro h q m cm M hM hcm i hi hq
    subst hcm
    have := (fixModule_met_iff c e t m M).mpr (h m M hM) i hi q
    apply this
    simpa only [hM, Option.bind_some] using hq

/-- what `is_equation_met()` of every generated equation says, for any slack `e` and constant `t`. -/
theorem gen_met_iff (P : Params ℝ) (mods : List (InModule ℝ)) (U : Utils ℝ) (es : List (Eqn ℝ)) (c : Cfg) (e t : ℝ)
    (hU : netlistToUtils mods = .ok U) (hg : gen P U = .ok es) (hpos : Pos mods c) :
    (∀ q ∈ es, Met c e t q) ↔ RawLegalS P e t mods c := by
  unfold netlistToUtils at hU
  split at hU
  · cases hU
  · injection hU with hU
    unfold gen at hg
    split at hg
    · cases hg
    · injection hg with hg
      subst hg
      have hml : U.ml = mods.map fun M => split M.rects := by rw [← hU]
      have hal : U.al = mods.map fun M => M.area := by rw [← hU]
      simp only [List.mem_append, or_imp, forall_and]
      rw [interPart_met_iff P mods c e t U hml,
        fixPart_met_iff mods c e t U hml (by rw [← hU]) (by rw [← hU]) (by rw [← hU]) (by rw [← hU]),
        areaPart_met_iff mods c e t U hml hal, hml, macroPart_met_iff P mods c e t]
      unfold RawLegalS
      constructor
      · rintro ⟨⟨⟨h1, h2⟩, h3⟩, h4⟩
        refine ⟨fun m M hM => ⟨?_, h2 m M hM, h4 m M hM⟩, h3⟩
        exact (macroEqs_met_iff P c e t m _ (hpos m M hM)).mp (h1 m M hM)
      · rintro ⟨h1, h3⟩
        refine ⟨⟨⟨fun m M hM => ?_, fun m M hM => (h1 m M hM).2.1⟩, h3⟩, fun m M hM => (h1 m M hM).2.2⟩
        exact (macroEqs_met_iff P c e t m _ (hpos m M hM)).mpr (h1 m M hM).1

end FV.Legal
